"""Scratch translator: dump layout tables as Lean mutual-inductive terms (to measure Lean build/decide cost)."""
from dataclasses import fields
from tpmstream.spec import all_types
from tpmstream.spec.commands import Command, Response, CommandResponseStream
from tpmstream.spec.structures import structures_types
from tpmstream.spec.common.values import NamedRange
from tpmstream.common.util import is_list
from tpmstream.spec.structures.constants import TPM_CC

def lstr(s): return '"' + s + '"'
def lint(i): return f"({i})" if i < 0 else str(i)

def intervals(tp):
    out=[]
    def add(v):
        if isinstance(v, range): out.append((v.start, v.stop))
        elif isinstance(v, NamedRange): out.append((v._start, v._end))
        elif isinstance(v, type):
            for m in v: add(m)
        else: out.append((int(v), int(v)+1))
    for v in tp._valid_values._values: add(v)
    return out

def prim(tp):
    iv = ", ".join(f".range {lint(a)} {lint(b)}" for a,b in intervals(tp))
    return f"⟨{lstr(tp.__name__)}, {tp._int_size}, {'true' if tp._signed else 'false'}, [{iv}]⟩"

names = {}
order = []
def ref(tp):
    n = tp.__name__
    if n not in names:
        names[n] = None
        names[n] = define(tp)
        order.append(n)
    return "T_"+n

def define(tp):
    n = tp.__name__
    if hasattr(tp, "_int_size"):
        return f".prim {prim(tp)}"
    if n.startswith("TPM2B"):
        sf, bf = fields(tp)
        if is_list(bf.type):
            return f".tpm2bBytes {lstr(n)} {lstr(sf.name)} {prim(sf.type)} {lstr(bf.name)}"
        return f".tpm2b {lstr(n)} {lstr(sf.name)} {prim(sf.type)} {lstr(bf.name)} {ref(bf.type)}"
    if hasattr(tp, "_selected_by"):
        arms = ".nil"
        for f in reversed(fields(tp)):
            key = tp._selected_by.get(f.name, "MISSING")
            if key is None: k = "none"
            elif isinstance(key, type) or key == "MISSING": k = "(some (-1))"
            else: k = f"(some {lint(int(key))})"
            if f.type is None:
                arms = f"(.consNone {lstr(f.name)} {k} {arms})"
            elif is_list(f.type):
                sz = getattr(tp, "_list_size", {}).get(f.name, 0)
                arms = f"(.cons {lstr(f.name)} {k} (.fixedBytes {sz}) {arms})"
            else:
                arms = f"(.cons {lstr(f.name)} {k} {ref(f.type)} {arms})"
        return f".union {lstr(n)} {arms}"
    fs = ".nil"
    sels = getattr(tp, "_selectors", {})
    for f in reversed(fields(tp)):
        if is_list(f.type):
            fs = f"(.cons {lstr(f.name)} .counted {ref(f.type.__args__[0])} {fs})"
        elif f.name in sels:
            fs = f"(.cons {lstr(f.name)} (.selected {lstr(sels[f.name])}) {ref(f.type)} {fs})"
        else:
            fs = f"(.cons {lstr(f.name)} .plain {ref(f.type)} {fs})"
    return f".struct {lstr(n)} {fs}"

for t in structures_types: ref(t)
for cc in TPM_CC:
    for tab in (Command._type_maps["handles"], Command._type_maps["parameters"], Response._type_maps["handles"], Response._type_maps["parameters"]):
        ref(tab[cc])
out = ["import Leantest.Proto", "namespace Tab"]
for n in order:
    out.append(f"def T_{n} : Ty := {names[n]}")
out.append("def all : List Ty := [" + ", ".join("T_"+n for n in order) + "]")
out.append("end Tab")
open("/root/scratch/leantest/Leantest/Tab.lean","w").write("\n".join(out)+"\n")
print(len(order))
