import Leantest.Spec

def bump (scs : List SC) (n : Nat) : List SC := scs.map fun c => { c with already := c.already + n }
def Room (scs : List SC) (n : Nat) : Prop := ∀ c ∈ scs, c.already + n ≤ c.max

theorem bump_zero (scs : List SC) : bump scs 0 = scs := by
  simp [bump]
theorem bump_bump (scs : List SC) (a b : Nat) : bump (bump scs a) b = bump scs (a + b) := by
  simp [bump, List.map_map, Function.comp_def, Nat.add_assoc]
theorem room_bump {scs : List SC} {a b : Nat} (h : Room scs (a + b)) : Room (bump scs a) b := by
  intro c hc
  simp only [bump, List.mem_map] at hc
  obtain ⟨c0, hc0, rfl⟩ := hc
  have := h c0 hc0
  simp only; omega
theorem room_mono {scs : List SC} {a b : Nat} (h : Room scs b) (hab : a ≤ b) : Room scs a := by
  intro c hc; have := h c hc; omega

theorem firstOver_none {scs : List SC} {n : Nat} (h : Room scs n) : firstOver scs n = none := by
  simp only [firstOver, List.find?_eq_none]
  intro c hc
  have := h c hc
  simp only [decide_eq_true_eq]; omega

/-- Arithmetic facts about the big-endian codec, assumed in this prototype (proved separately in the real model). -/
structure BEFacts : Prop where
  len : ∀ (p : Prim) (x : Int), (p.toBytes x).length = p.size
  rt : ∀ (p : Prim) (x : Int), p.inRange x = true → p.ofBytes (p.toBytes x) = x

theorem readPrim_ok (be : BEFacts) (p : Prim) (path : Path) (x : Int) (rest : List Byte) (evs0 : List MEvent)
    (scs : List SC) (hv : p.isValid x = true) (hr : p.inRange x = true) (hroom : Room scs p.size) :
    readPrim p path ⟨p.toBytes x ++ rest, evs0, scs⟩ =
      .ok (x, ⟨rest, evs0 ++ [⟨path, .named p.name, some x⟩], bump scs p.size⟩) := by
  simp only [readPrim, firstOver_none hroom, takeBytes]
  have hl := be.len p x
  have hlt : ¬ (p.size + rest.length < p.size) := by omega
  simp [hl, hlt, be.rt p x hr, hv, emit, bump]

theorem byte_toBytes (b : Byte) : BYTE.toBytes (b.toNat : Int) = [b] := by
  simp only [Prim.toBytes, BYTE, toBE]
  have : ((b.toNat : Int) % ((2 ^ (8 * 1) : Nat) : Int)).toNat = b.toNat := by
    have := b.toNat_lt; omega
  simp [this]
  have := b.toNat_lt
  apply UInt8.toNat_inj.mp
  simp; omega

theorem byte_valid (b : Byte) : BYTE.isValid (b.toNat : Int) = true ∧ BYTE.inRange (b.toNat : Int) = true := by
  have := b.toNat_lt
  simp [Prim.isValid, BYTE, VItem.has, Prim.inRange]; omega

theorem readBytes_ok (be : BEFacts) (path : Path) (bs : List Byte) :
    ∀ (i : Nat) (rest : List Byte) (evs0 : List MEvent) (scs : List SC), Room scs bs.length →
    readBytes path bs.length i ⟨bs ++ rest, evs0, scs⟩ =
      .ok (bs, ⟨rest, evs0 ++ byteEvents path bs i, bump scs bs.length⟩) := by
  induction bs with
  | nil => intro i rest evs0 scs _; simp [readBytes, byteEvents, bump_zero]
  | cons b bs ih =>
    intro i rest evs0 scs hroom
    simp only [List.length_cons, readBytes]
    have h1 : Room scs BYTE.size := room_mono hroom (by simp [BYTE])
    have := readPrim_ok be BYTE (elemPath path i) (b.toNat : Int) (bs ++ rest) evs0 scs (byte_valid b).1 (byte_valid b).2 h1
    rw [byte_toBytes] at this
    simp only [elemPath, BYTE] at this
    simp only [List.cons_append, List.singleton_append, List.nil_append] at this ⊢
    rw [this]
    have hroom' : Room (bump scs 1) bs.length := room_bump (by rw [Nat.add_comm]; exact hroom)
    simp only [ih (i+1) rest _ _ hroom', bump_bump, byteEvents, elemPath]
    simp [Nat.add_comm]

theorem openRegion_ok (cpath viol : Path) (n : Nat) (inp : List Byte) (evs : List MEvent) (scs : List SC)
    (h : Room scs n) :
    openRegion cpath n viol ⟨inp, evs, scs⟩ = .ok ((), ⟨inp, evs, scs ++ [⟨cpath, 0, n⟩]⟩) := by
  simp [openRegion, firstOver_none h]

theorem closeRegion_ok (cpath : Path) (n : Nat) (inp : List Byte) (evs : List MEvent) (scs : List SC) :
    closeRegion ⟨inp, evs, scs ++ [⟨cpath, n, n⟩]⟩ = .ok ((), ⟨inp, evs, scs⟩) := by
  simp [closeRegion]

theorem bump_append (scs : List SC) (c : SC) (k : Nat) :
    bump (scs ++ [c]) k = bump scs k ++ [{ c with already := c.already + k }] := by
  simp [bump]

theorem room_append {scs : List SC} {cpath : Path} {n : Nat} (h : Room scs n) : Room (scs ++ [⟨cpath, 0, n⟩]) n := by
  intro c hc
  simp only [List.mem_append, List.mem_singleton] at hc
  rcases hc with hc | rfl
  · exact h c hc
  · simp

theorem asSized_inv {v : Val} {n : Int} {b : Val} (h : v.asSized? = some (n, b)) : v = .struct [.int n, b] := by
  unfold Val.asSized? at h
  split at h <;> simp_all
theorem asBytes_inv {v : Val} {b : List Byte} (h : v.asBytes? = some b) : v = .bytes b := by
  unfold Val.asBytes? at h
  split at h <;> simp_all
theorem isNone_inv {v : Val} (h : v.isNone = true) : v = .none := by
  unfold Val.isNone at h
  split at h <;> simp_all

/-- post-state after successfully decoding `bs` with events `evs` -/
def post (rest : List Byte) (evs0 evs : List MEvent) (scs : List SC) (n : Nat) : St :=
  ⟨rest, evs0 ++ evs, bump scs n⟩

theorem repeat_ok (f : Path → St → R Val) (g : Path → Val → Option (List Byte × List MEvent))
    (hfg : ∀ p v bs evs, g p v = some (bs, evs) → ∀ rest evs0 scs, Room scs bs.length →
      f p ⟨bs ++ rest, evs0, scs⟩ = .ok (v, post rest evs0 evs scs bs.length))
    (path : Path) : ∀ (vs : List Val) (i : Nat) (bs : List Byte) (evs : List MEvent),
    specRepeat g path vs i = some (bs, evs) → ∀ rest evs0 scs, Room scs bs.length →
    repeatDec f path vs.length i ⟨bs ++ rest, evs0, scs⟩ = .ok (vs, post rest evs0 evs scs bs.length) := by
  intro vs
  induction vs with
  | nil =>
    intro i bs evs h rest evs0 scs _
    simp only [specRepeat, Option.some.injEq, Prod.mk.injEq] at h
    obtain ⟨rfl, rfl⟩ := h
    simp [repeatDec, post, bump_zero]
  | cons v vs ih =>
    intro i bs evs h rest evs0 scs hroom
    simp only [specRepeat] at h
    split at h
    · simp at h
    · rename_i b e hb
      split at h
      · simp at h
      · rename_i bs' es' hrest
        simp only [Option.some.injEq, Prod.mk.injEq] at h
        obtain ⟨rfl, rfl⟩ := h
        simp only [List.length_cons, repeatDec, List.append_assoc]
        have hroom1 : Room scs b.length := room_mono hroom (by simp)
        rw [hfg _ _ _ _ hb _ _ _ hroom1]
        simp only [post]
        have hroom2 : Room (bump scs b.length) bs'.length := room_bump (by simpa using hroom)
        rw [ih _ _ _ hrest _ _ _ hroom2]
        simp [post, bump_bump, List.append_assoc]

mutual
theorem decode_ok (be : BEFacts) : (t : Ty) → ∀ (path : Path) (sel : Option Int) (v : Val) (bs : List Byte) (evs : List MEvent),
    spec t path sel v = some (bs, evs) → ∀ (rest : List Byte) (evs0 : List MEvent) (scs : List SC), Room scs bs.length →
    decode t path sel ⟨bs ++ rest, evs0, scs⟩ = .ok (v, post rest evs0 evs scs bs.length)
  | .prim p, path, sel, v, bs, evs, h, rest, evs0, scs, hroom => by
    cases v <;> simp only [spec] at h <;> try contradiction
    rename_i x
    split at h <;> simp only [Option.some.injEq, Prod.mk.injEq, reduceCtorEq] at h
    rename_i hx
    obtain ⟨rfl, rfl⟩ := h
    simp only [Bool.and_eq_true] at hx
    rw [be.len] at hroom
    simp [decode, readPrim_ok be p path x rest evs0 scs hx.1 hx.2 hroom, post, be.len, Except.map]
  | .struct name fs, path, sel, v, bs, evs, h, rest, evs0, scs, hroom => by
    cases v <;> simp only [spec] at h <;> try contradiction
    rename_i vs
    cases hf : specFields fs path [] none vs with
    | none => simp [hf] at h
    | some r =>
      obtain ⟨b, e⟩ := r
      simp only [hf, Option.map_some, Option.some.injEq, Prod.mk.injEq] at h
      obtain ⟨rfl, rfl⟩ := h
      have := fields_ok be fs path [] none vs b e hf rest (evs0 ++ [⟨path, .named name, none⟩]) scs hroom
      simp only [decode, emit, this, Except.map, post]
      simp
  | .tpm2bBytes name szName szP bufName, path, sel, v, bs, evs, h, rest, evs0, scs, hroom => by
    simp only [spec] at h
    cases hs : v.asSized? with
    | none => simp [hs] at h
    | some nb =>
      obtain ⟨n, b⟩ := nb
      obtain rfl := asSized_inv hs
      simp only [hs] at h
      cases hb : b.asBytes? with
      | none => simp [hb] at h
      | some body =>
        obtain rfl := asBytes_inv hb
        simp only [hb] at h
        split at h <;> simp only [Option.some.injEq, Prod.mk.injEq, reduceCtorEq] at h
        rename_i hx
        obtain ⟨rfl, rfl⟩ := h
        simp only [Bool.and_eq_true, decide_eq_true_eq] at hx
        obtain ⟨⟨hv, hr⟩, hn⟩ := hx
        simp only [List.length_append, be.len] at hroom
        have hroom1 : Room scs szP.size := room_mono hroom (by omega)
        have hroom2 : Room (bump scs szP.size) body.length := room_bump hroom
        have hn' : n.toNat = body.length := by omega
        simp only [decode, emit, List.append_assoc,
          readPrim_ok be szP _ n (body ++ rest) _ scs hv hr hroom1, hn',
          openRegion_ok _ _ _ _ _ _ hroom2]
        have := readBytes_ok be (path ++ [⟨bufName, none⟩]) body 0 rest
          (evs0 ++ [⟨path, .named name, none⟩] ++ [⟨path ++ [⟨szName, none⟩], .named szP.name, some n⟩] ++ [⟨path ++ [⟨bufName, none⟩], .listOf "BYTE", none⟩])
          (bump scs szP.size ++ [⟨path ++ [⟨szName, none⟩], 0, body.length⟩]) (room_append hroom2)
        simp only [List.append_assoc, List.cons_append, List.nil_append] at this ⊢
        simp only [this, post, bump_append, Nat.zero_add, closeRegion_ok, Except.map, bump_bump, be.len]
        simp [be.len]
  | .tpm2b name szName szP bufName t, path, sel, v, bs, evs, h, rest, evs0, scs, hroom => by
    simp only [spec] at h
    cases hs : v.asSized? with
    | none => simp [hs] at h
    | some nb =>
      obtain ⟨n, bv⟩ := nb
      obtain rfl := asSized_inv hs
      simp only [hs] at h
      split at h
      · simp at h
      rename_i hx
      simp only [Bool.not_eq_true', Bool.not_eq_false, Bool.and_eq_true] at hx
      obtain ⟨hv, hr⟩ := hx
      split at h
      · -- n = 0
        rename_i hn0
        subst hn0
        cases htn : t.structName? with
        | none => simp [htn] at h
        | some tn =>
          simp only [htn] at h
          split at h <;> simp only [Option.some.injEq, Prod.mk.injEq, reduceCtorEq] at h
          rename_i hnone
          obtain rfl := isNone_inv hnone
          obtain ⟨rfl, rfl⟩ := h
          simp only [be.len] at hroom
          have hroom2 : Room (bump scs szP.size) 0 := room_bump (by simpa using hroom)
          simp only [decode, emit, readPrim_ok be szP _ 0 rest _ scs hv hr hroom,
            Int.toNat_zero, openRegion_ok _ _ _ _ _ _ hroom2, if_true, htn, closeRegion_ok, Except.map, post, be.len]
          simp
      · rename_i hn0
        split at h
        · simp at h
        rename_i bb bevs hbody
        split at h <;> simp only [Option.some.injEq, Prod.mk.injEq, reduceCtorEq] at h
        rename_i hn
        obtain ⟨rfl, rfl⟩ := h
        simp only [List.length_append, be.len] at hroom
        have hroom1 : Room scs szP.size := room_mono hroom (by omega)
        have hroom2 : Room (bump scs szP.size) bb.length := room_bump hroom
        have hn' : n.toNat = bb.length := by omega
        simp only [decode, emit, List.append_assoc,
          readPrim_ok be szP _ n (bb ++ rest) _ scs hv hr hroom1, hn',
          openRegion_ok _ _ _ _ _ _ hroom2, hn0, if_false]
        have := decode_ok be t (path ++ [⟨bufName, none⟩]) none bv bb bevs hbody rest
          (evs0 ++ [⟨path, .named name, none⟩] ++ [⟨path ++ [⟨szName, none⟩], .named szP.name, some n⟩])
          (bump scs szP.size ++ [⟨path ++ [⟨szName, none⟩], 0, bb.length⟩]) (room_append hroom2)
        simp only [List.append_assoc, List.cons_append, List.nil_append] at this ⊢
        simp only [this, post, bump_append, Nat.zero_add, closeRegion_ok, Except.map, bump_bump, be.len]
        simp [be.len]
  | .union name arms, path, sel, v, bs, evs, h, rest, evs0, scs, hroom => by
    cases sel with
    | none => simp [spec] at h
    | some sv =>
      simp only [spec] at h
      split at h
      · simp at h
      · rename_i an han
        cases ha : specArm arms an path v with
        | none => simp [ha] at h
        | some r =>
          obtain ⟨b, e⟩ := r
          simp only [ha, Option.map_some, Option.some.injEq, Prod.mk.injEq] at h
          obtain ⟨rfl, rfl⟩ := h
          have := arm_ok be arms an path v b e ha rest (evs0 ++ [⟨path, .named name, none⟩]) scs hroom
          simp only [decode, emit, han, this, post]
          simp
  | .fixedBytes n, path, sel, v, bs, evs, h, rest, evs0, scs, hroom => by
    cases v <;> simp only [spec] at h <;> try contradiction
    rename_i bs'
    split at h <;> simp only [Option.some.injEq, Prod.mk.injEq, reduceCtorEq] at h
    rename_i hn
    obtain ⟨rfl, rfl⟩ := h
    subst hn
    simp [decode, emit, readBytes_ok be path bs' 0 rest _ scs hroom, Except.map, post]

theorem arm_ok (be : BEFacts) : (arms : Arms) → ∀ (want : String) (path : Path) (v : Val)
    (bs : List Byte) (evs : List MEvent),
    specArm arms want path v = some (bs, evs) → ∀ (rest : List Byte) (evs0 : List MEvent) (scs : List SC), Room scs bs.length →
    decodeArm arms want path ⟨bs ++ rest, evs0, scs⟩ = .ok (v, post rest evs0 evs scs bs.length)
  | .nil, want, path, v, bs, evs, h, rest, evs0, scs, hroom => by simp [specArm] at h
  | .consNone an key arms, want, path, v, bs, evs, h, rest, evs0, scs, hroom => by
    by_cases heq : an = want
    · subst heq
      cases v <;> simp [specArm, Val.isNone] at h
      obtain ⟨rfl, rfl⟩ := h
      simp [decodeArm, post, bump_zero]
    · have h' : specArm arms want path v = some (bs, evs) := by
        simpa [specArm, heq] using h
      simpa [decodeArm, heq] using arm_ok be arms want path v bs evs h' rest evs0 scs hroom
  | .cons an key t arms, want, path, v, bs, evs, h, rest, evs0, scs, hroom => by
    by_cases heq : an = want
    · subst heq
      have h' : spec t (path ++ [⟨an, none⟩]) none v = some (bs, evs) := by
        simpa [specArm] using h
      simpa [decodeArm] using decode_ok be t _ none v bs evs h' rest evs0 scs hroom
    · have h' : specArm arms want path v = some (bs, evs) := by
        simpa [specArm, heq] using h
      simpa [decodeArm, heq] using arm_ok be arms want path v bs evs h' rest evs0 scs hroom

theorem field_ok (be : BEFacts) : (kind : FKind) → (t : Ty) → ∀ (fpath : Path) (vals : List (String × Val)) (lastInt : Option Int)
    (v : Val) (bs : List Byte) (evs : List MEvent),
    specField kind t fpath vals lastInt v = some (bs, evs) → ∀ (rest : List Byte) (evs0 : List MEvent) (scs : List SC), Room scs bs.length →
    decodeField kind t fpath vals lastInt ⟨bs ++ rest, evs0, scs⟩ = .ok (v, post rest evs0 evs scs bs.length)
  | .plain, t, fpath, vals, lastInt, v, bs, evs, h, rest, evs0, scs, hroom => by
    simp only [specField] at h
    simpa [decodeField] using decode_ok be t fpath none v bs evs h rest evs0 scs hroom
  | .selected sel, t, fpath, vals, lastInt, v, bs, evs, h, rest, evs0, scs, hroom => by
    simp only [specField] at h
    simpa [decodeField] using decode_ok be t fpath _ v bs evs h rest evs0 scs hroom
  | .counted, t, fpath, vals, lastInt, v, bs, evs, h, rest, evs0, scs, hroom => by
    cases lastInt with
    | none => simp [specField] at h
    | some c =>
      cases v <;> simp only [specField] at h <;> try contradiction
      rename_i es
      split at h
      · rename_i hc
        cases hrep : specRepeat (fun p v => spec t p none v) fpath es 0 with
        | none => simp [hrep] at h
        | some rr =>
          obtain ⟨bb, ee⟩ := rr
          simp only [hrep, Option.map_some, Option.some.injEq, Prod.mk.injEq] at h
          obtain ⟨rfl, rfl⟩ := h
          have := repeat_ok (fun p s => decode t p none s) (fun p v => spec t p none v)
            (fun p v bs evs h rest evs0 scs hroom => decode_ok be t p none v bs evs h rest evs0 scs hroom)
            fpath es 0 bb ee hrep rest (evs0 ++ [⟨fpath, .listOf "?", none⟩]) scs hroom
          simp only [decodeField, hc, emit, this, Except.map, post]
          simp
      · simp at h

theorem fields_ok (be : BEFacts) : (fs : Fields) → ∀ (path : Path) (vals : List (String × Val)) (lastInt : Option Int)
    (vs : List Val) (bs : List Byte) (evs : List MEvent),
    specFields fs path vals lastInt vs = some (bs, evs) → ∀ (rest : List Byte) (evs0 : List MEvent) (scs : List SC), Room scs bs.length →
    decodeFields fs path vals lastInt ⟨bs ++ rest, evs0, scs⟩ = .ok (vs, post rest evs0 evs scs bs.length)
  | .nil, path, vals, lastInt, vs, bs, evs, h, rest, evs0, scs, hroom => by
    cases vs <;> simp [specFields] at h
    obtain ⟨rfl, rfl⟩ := h
    simp [decodeFields, post, bump_zero]
  | .cons fname kind t fs, path, vals, lastInt, vs, bs, evs, h, rest, evs0, scs, hroom => by
    cases vs with
    | nil => simp [specFields] at h
    | cons v vs =>
      simp only [specFields] at h
      cases hf : specField kind t (path ++ [⟨fname, none⟩]) vals lastInt v with
      | none => simp [hf] at h
      | some r1 =>
        obtain ⟨b1, e1⟩ := r1
        simp only [hf] at h
        split at h
        · simp at h
        · rename_i b2 e2 hrest
          simp only [Option.some.injEq, Prod.mk.injEq] at h
          obtain ⟨rfl, rfl⟩ := h
          have hroom1 : Room scs b1.length := room_mono hroom (by simp)
          have hroom2 : Room (bump scs b1.length) b2.length := room_bump (by simpa using hroom)
          have h1 := field_ok be kind t _ vals lastInt v b1 e1 hf (b2 ++ rest) evs0 scs hroom1
          simp only [decodeFields, List.append_assoc, h1, post]
          have := fields_ok be fs path (vals ++ [(fname, v)]) _ vs b2 e2 hrest rest (evs0 ++ e1) (bump scs b1.length) hroom2
          rw [this]
          simp [post, bump_bump, List.append_assoc]
end

#print axioms decode_ok
