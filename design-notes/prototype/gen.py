"""Quick type-directed generator of well-formed encodings (scratch; for exploration)."""
import random
from dataclasses import fields
from typing import Any
from tpmstream.common.util import is_list
from tpmstream.spec import all_types
from tpmstream.spec.commands import Command, Response, CommandResponseStream
from tpmstream.spec.commands.params_common import TPMS_PARAMS
from tpmstream.spec.structures.constants import TPM_CC, TPM_ST
from tpmstream.spec.common.values import NamedRange

T = {t.__name__: t for t in all_types}

def valid_ints(tp):
    """some valid ints of primitive tp"""
    out=[]
    for v in tp._valid_values._values:
        if isinstance(v, range):
            out += [v.start, v.stop-1, random.randrange(v.start, v.stop)]
        elif isinstance(v, NamedRange):
            out += [v._start, v._end-1, random.randrange(v._start, v._end)]
        elif hasattr(v, "__iter__"):
            for m in v:
                if isinstance(m, NamedRange):
                    out += [m._start, m._end-1]
                else:
                    out.append(int(m))
        else:
            out.append(int(v))
    return out

def enc_int(tp, v):
    return int(v).to_bytes(tp._int_size, "big", signed=tp._signed)

def gen(tp, rnd, selector=None, count=None, depth=0):
    if hasattr(tp, "_int_size"):
        v = rnd.choice(valid_ints(tp))
        return enc_int(tp, v), v
    name = tp.__name__ if not is_list(tp) else "list"
    if is_list(tp):
        et = tp.__args__[0]
        bs=b""
        for i in range(count):
            b,_ = gen(et, rnd, depth=depth+1)
            bs+=b
        return bs, None
    if name.startswith("TPM2B"):
        sf, bf = fields(tp)
        if is_list(bf.type):
            n = rnd.choice([0,0,1,2,5,20])
            body = bytes(rnd.randrange(256) for _ in range(n))
        else:
            if rnd.random()<0.15:
                body=b""
            else:
                body,_ = gen(bf.type, rnd, depth=depth+1)
        return enc_int(sf.type, len(body)) + body, None
    if hasattr(tp, "_selected_by"):
        selection = {v:k for k,v in tp._selected_by.items()}
        if selector in selection: nm = selection[selector]
        elif None in selection: nm = selection[None]
        else: raise KeyError((tp, selector))
        f = next(f for f in fields(tp) if f.name==nm)
        if f.type is None: return b"", None
        if is_list(f.type):
            return gen(f.type, rnd, count=tp._list_size[nm], depth=depth+1)
        return gen(f.type, rnd, depth=depth+1)
    # struct
    bs=b""; vals={}
    last_nonlist=None
    for f in fields(tp):
        if is_list(f.type):
            # need count: regenerate? we pick count small by patching previous bytes
            cnt = rnd.choice([0,1,2,3])
            # replace last field bytes with cnt
            pf = prev_f
            bs = bs[:-pf.type._int_size] + enc_int(pf.type, cnt)
            b,_ = gen(f.type, rnd, count=cnt, depth=depth+1)
            vals[f.name]=None
        elif hasattr(tp,"_selectors") and f.name in tp._selectors:
            sel = vals[tp._selectors[f.name]]
            b,v = gen(f.type, rnd, selector=sel, depth=depth+1)
            vals[f.name]=v
        else:
            b,v = gen(f.type, rnd, depth=depth+1)
            vals[f.name]=v
        prev_f=f
        bs+=b
    return bs, None

def gen_session_cmd(rnd, decrypt=False, encrypt=False):
    h = rnd.choice([0x40000009, 0x02000000, 0x03000001])
    nonce = bytes(rnd.randrange(256) for _ in range(rnd.choice([0,4,16])))
    attrs = rnd.choice([0,1]) | (0x20 if decrypt else 0) | (0x40 if encrypt else 0)
    hmac = bytes(rnd.randrange(256) for _ in range(rnd.choice([0,4,20])))
    return h.to_bytes(4,"big")+len(nonce).to_bytes(2,"big")+nonce+bytes([attrs])+len(hmac).to_bytes(2,"big")+hmac

def gen_session_rsp(rnd, encrypt=False):
    nonce = bytes(rnd.randrange(256) for _ in range(rnd.choice([0,4,16])))
    attrs = rnd.choice([0,1]) | (0x40 if encrypt else 0)
    hmac = bytes(rnd.randrange(256) for _ in range(rnd.choice([0,4,20])))
    return len(nonce).to_bytes(2,"big")+nonce+bytes([attrs])+len(hmac).to_bytes(2,"big")+hmac

def enc_param(ptype, rnd):
    """encrypted: first param opaque TPM2B"""
    fs = fields(ptype)
    n = rnd.choice([0,3,10])
    bs = n.to_bytes(2,"big")+bytes(rnd.randrange(256) for _ in range(n))
    for f in fs[1:]:
        b,_=gen(f.type, rnd); bs+=b
    return bs

def gen_command(cc, rnd, nsess=0, decrypt=False, encrypt=False):
    ht = Command._type_maps["handles"][cc]; pt = Command._type_maps["parameters"][cc]
    hb,_ = gen(ht, rnd)
    pb = enc_param(pt, rnd) if decrypt else gen(pt, rnd)[0]
    if nsess:
        sess = b"".join(gen_session_cmd(rnd, decrypt=decrypt and i==0, encrypt=encrypt and i==0) for i in range(nsess))
        body = hb + len(sess).to_bytes(4,"big") + sess + pb
        tag = 0x8002
    else:
        body = hb + pb; tag=0x8001
    return tag.to_bytes(2,"big") + (10+len(body)).to_bytes(4,"big") + int(cc).to_bytes(4,"big") + body

def gen_response(cc, rnd, nsess=0, encrypt=False, rc=0):
    if rc:
        return (0x8001).to_bytes(2,"big")+(10).to_bytes(4,"big")+rc.to_bytes(4,"big")
    ht = Response._type_maps["handles"][cc]; pt = Response._type_maps["parameters"][cc]
    hb,_ = gen(ht, rnd)
    pb = enc_param(pt, rnd) if encrypt else gen(pt, rnd)[0]
    if nsess:
        sess = b"".join(gen_session_rsp(rnd, encrypt=encrypt and i==0) for i in range(nsess))
        body = hb + len(pb).to_bytes(4,"big") + pb + sess
        tag=0x8002
    else:
        body = hb+pb; tag=0x8001
    return tag.to_bytes(2,"big") + (10+len(body)).to_bytes(4,"big") + (0).to_bytes(4,"big") + body
