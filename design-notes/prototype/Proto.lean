/-! Prototype v0 of the decoder model: strict mode, constraint stack, unions, counted lists. -/
abbrev Byte := UInt8

structure PathNode where
  name : String
  idx : Option Nat := none
  deriving DecidableEq, Repr
abbrev Path := List PathNode

inductive VItem where
  | range (lo hi : Int)   -- hi exclusive
  | single (v : Int)
  deriving Repr, DecidableEq

def VItem.has : VItem → Int → Bool
  | .range lo hi, x => decide (lo ≤ x) && decide (x < hi)
  | .single v, x => decide (x = v)

structure Prim where
  name : String
  size : Nat
  signed : Bool
  valid : List VItem
  deriving Repr, DecidableEq

def Prim.isValid (p : Prim) (x : Int) : Bool := p.valid.any (·.has x)

def fromBE (bs : List Byte) : Nat := bs.foldl (fun acc b => acc * 256 + b.toNat) 0
def toBE : Nat → Nat → List Byte
  | 0, _ => []
  | k+1, n => toBE k (n / 256) ++ [UInt8.ofNat (n % 256)]

def Prim.ofBytes (p : Prim) (bs : List Byte) : Int :=
  let n := fromBE bs
  if p.signed && decide (2 ^ (8 * p.size - 1) ≤ n) then (n : Int) - (2 ^ (8 * p.size) : Nat) else n
def Prim.toBytes (p : Prim) (x : Int) : List Byte :=
  toBE p.size (x % ((2 ^ (8 * p.size) : Nat) : Int)).toNat

inductive FKind where
  | plain | counted | selected (sel : String)
  deriving Repr, DecidableEq

mutual
inductive Ty where
  | prim (p : Prim)
  | struct (name : String) (fields : Fields)
  | tpm2bBytes (name szName : String) (szP : Prim) (bufName : String)
  | tpm2b (name szName : String) (szP : Prim) (bufName : String) (body : Ty)
  | union (name : String) (arms : Arms)
  | fixedBytes (n : Nat)
inductive Fields where
  | nil
  | cons (fname : String) (kind : FKind) (t : Ty) (rest : Fields)
inductive Arms where
  | nil
  | consNone (an : String) (key : Option Int) (rest : Arms)
  | cons (an : String) (key : Option Int) (t : Ty) (rest : Arms)
end

def Arms.keys : Arms → List (String × Option Int)
  | .nil => []
  | .consNone an key rest => (an, key) :: rest.keys
  | .cons an key _ rest => (an, key) :: rest.keys

inductive TyTag where
  | named (n : String) | listOf (n : String)
  deriving Repr, DecidableEq

structure MEvent where
  path : Path
  ty : TyTag
  val : Option Int     -- none = "..."
  deriving Repr, DecidableEq

inductive Err where
  | value (path : Path) (ty : String) (x : Int)
  | exceeded (cpath : Path) (max already : Nat) (violator : Path) (by_ : Nat)
  | subceeded (cpath : Path) (max already : Nat)
  | anticipated (cpath : Path) (max already : Nat) (violator : Path) (v : Nat) (by_ : Nat)
  | depleted
  | crash (what : String)
  deriving Repr, DecidableEq

structure SC where
  path : Path
  already : Nat
  max : Nat
  deriving Repr, DecidableEq

structure St where
  inp : List Byte
  evs : List MEvent      -- in emission order
  scs : List SC          -- open regions, outermost first
  deriving Repr

abbrev R (α : Type) := Except (Err × St) (α × St)

inductive Val where
  | int (x : Int)
  | struct (fs : List Val)
  | bytes (bs : List Byte)
  | list (es : List Val)
  | none
  deriving Repr

def emit (e : MEvent) (s : St) : St := { s with evs := s.evs ++ [e] }

/-- first open region (outermost first) that `n` more bytes would overrun -/
def firstOver (scs : List SC) (n : Nat) : Option SC := scs.find? (fun c => decide (c.max < c.already + n))

def takeBytes (n : Nat) (s : St) : R (List Byte) :=
  if s.inp.length < n then .error (.depleted, { s with inp := [] })
  else .ok (s.inp.take n, { s with inp := s.inp.drop n })

def readPrim (p : Prim) (path : Path) (s : St) : R Int :=
  match firstOver s.scs p.size with
  | some c =>
    -- python: consume the rest of the region, then raise
    match takeBytes (c.max - c.already) s with
    | .error e => .error e
    | .ok (_, s') => .error (.exceeded c.path c.max c.already path (c.already + p.size - c.max), s')
  | none =>
    let s := { s with scs := s.scs.map fun c => { c with already := c.already + p.size } }
    match takeBytes p.size s with
    | .error e => .error e
    | .ok (bs, s') =>
      let x := p.ofBytes bs
      if p.isValid x then .ok (x, emit ⟨path, .named p.name, some x⟩ s')
      else .error (.value path p.name x, s')

def readBytes (path : Path) : Nat → Nat → St → R (List Byte)
  | 0, _, s => .ok ([], s)
  | k+1, i, s =>
    match readPrim ⟨"BYTE", 1, false, [.range 0 256]⟩ (path.dropLast ++ [⟨(path.getLast?.map (·.name)).getD "", some i⟩]) s with
    | .error e => .error e
    | .ok (x, s') => match readBytes path k (i+1) s' with
      | .error e => .error e
      | .ok (bs, s'') => .ok (UInt8.ofNat x.toNat :: bs, s'')

def openRegion (cpath : Path) (n : Nat) (violator : Path) (s : St) : R Unit :=
  match firstOver s.scs n with
  | some c => .error (.anticipated c.path c.max c.already violator n (c.already + n - c.max), s)
  | none => .ok ((), { s with scs := s.scs ++ [⟨cpath, 0, n⟩] })

def closeRegion (s : St) : R Unit :=
  match s.scs.getLast? with
  | none => .error (.crash "no region", s)
  | some c =>
    if c.already = c.max then .ok ((), { s with scs := s.scs.dropLast })
    else .error (.subceeded c.path c.max c.already, s)

def selectArm (keys : List (String × Option Int)) (sel : Int) : Option String :=
  match keys.reverse.find? (fun a => a.2 == some sel) with
  | some a => some a.1
  | none => match keys.reverse.find? (fun a => a.2 == none) with
    | some a => some a.1
    | none => none

def Val.asInt? : Val → Option Int
  | .int x => some x
  | _ => Option.none
def Val.isNone : Val → Bool
  | .none => true
  | _ => false
def Val.asSized? : Val → Option (Int × Val)
  | .struct [.int n, b] => some (n, b)
  | _ => Option.none
def Val.asBytes? : Val → Option (List Byte)
  | .bytes b => some b
  | _ => Option.none
def Ty.structName? : Ty → Option String
  | .struct tn _ => some tn
  | _ => Option.none

def nextLast (v : Val) (lastInt : Option Int) : Option Int :=
  match v.asInt? with | some x => some x | Option.none => lastInt

def lookupInt (vals : List (String × Val)) (n : String) : Option Int :=
  match vals.find? (·.1 == n) with
  | some (_, .int x) => some x
  | _ => none

def elemPath (path : Path) (i : Nat) : Path :=
  path.dropLast ++ [⟨(path.getLast?.map (·.name)).getD "", some i⟩]

def repeatDec (f : Path → St → R Val) (path : Path) : Nat → Nat → St → R (List Val)
  | 0, _, s => .ok ([], s)
  | k+1, i, s =>
    match f (elemPath path i) s with
    | .error e => .error e
    | .ok (v, s) => match repeatDec f path k (i+1) s with
      | .error e => .error e
      | .ok (vs, s) => .ok (v :: vs, s)

mutual
def decode : Ty → Path → Option Int → St → R Val
  | .prim p, path, _, s => (readPrim p path s).map fun (x, s) => (.int x, s)
  | .struct name fs, path, _, s =>
    (decodeFields fs path [] none (emit ⟨path, .named name, none⟩ s)).map fun (vs, s) => (.struct vs, s)
  | .tpm2bBytes name szName szP bufName, path, _, s =>
    let s := emit ⟨path, .named name, none⟩ s
    let szPath := path ++ [⟨szName, none⟩]
    match readPrim szP szPath s with
    | .error e => .error e
    | .ok (n, s) =>
      match openRegion szPath n.toNat szPath s with
      | .error e => .error e
      | .ok (_, s) =>
        let bpath := path ++ [⟨bufName, none⟩]
        let s := emit ⟨bpath, .listOf "BYTE", none⟩ s
        match readBytes bpath n.toNat 0 s with
        | .error e => .error e
        | .ok (bs, s) => (closeRegion s).map fun (_, s) => (.struct [.int n, .bytes bs], s)
  | .tpm2b name szName szP bufName t, path, _, s =>
    let s := emit ⟨path, .named name, none⟩ s
    let szPath := path ++ [⟨szName, none⟩]
    match readPrim szP szPath s with
    | .error e => .error e
    | .ok (n, s) =>
      match openRegion szPath n.toNat szPath s with
      | .error e => .error e
      | .ok (_, s) =>
        let bpath := path ++ [⟨bufName, none⟩]
        if n = 0 then
          match t.structName? with
          | some tn => (closeRegion (emit ⟨bpath, .named tn, none⟩ s)).map fun (_, s) => (.struct [.int n, .none], s)
          | none => .error (.crash "tpm2b body", s)
        else
          match decode t bpath none s with
          | .error e => .error e
          | .ok (v, s) => (closeRegion s).map fun (_, s) => (.struct [.int n, v], s)
  | .union name arms, path, sel, s =>
    let s := emit ⟨path, .named name, none⟩ s
    match sel with
    | none => .error (.crash "no selector", s)
    | some sv =>
      match selectArm arms.keys sv with
      | none => .error (.crash "selection error", s)
      | some an => decodeArm arms an path s
  | .fixedBytes n, path, _, s =>
    (readBytes path n 0 (emit ⟨path, .listOf "BYTE", none⟩ s)).map fun (bs, s) => (.bytes bs, s)

def decodeArm : Arms → String → Path → St → R Val
  | .nil, _, _, s => .error (.crash "arm not found", s)
  | .consNone an _ rest, want, path, s =>
    if an = want then .ok (.none, s) else decodeArm rest want path s
  | .cons an _ t rest, want, path, s =>
    if an = want then decode t (path ++ [⟨an, none⟩]) none s else decodeArm rest want path s

def decodeField : FKind → Ty → Path → List (String × Val) → Option Int → St → R Val
  | .plain, t, fpath, _, _, s => decode t fpath none s
  | .selected sel, t, fpath, vals, _, s => decode t fpath (lookupInt vals sel) s
  | .counted, t, fpath, _, lastInt, s =>
    match lastInt with
    | none => .error (.crash "no count", s)
    | some c => (repeatDec (fun p s => decode t p none s) fpath c.toNat 0 (emit ⟨fpath, .listOf "?", none⟩ s)).map fun (vs, s) => (.list vs, s)

def decodeFields : Fields → Path → List (String × Val) → Option Int → St → R (List Val)
  | .nil, _, _, _, s => .ok ([], s)
  | .cons fname kind t rest, path, vals, lastInt, s =>
    match decodeField kind t (path ++ [⟨fname, none⟩]) vals lastInt s with
    | .error e => .error e
    | .ok (v, s) =>
      match decodeFields rest path (vals ++ [(fname, v)]) (nextLast v lastInt) s with
      | .error e => .error e
      | .ok (vs, s) => .ok (v :: vs, s)
end

#print axioms decode
