import Leantest.Tab

mutual
def Ty.wf : Ty → Bool
  | .prim p => decide (0 < p.size)
  | .struct _ fs => fs.wf [] false
  | .tpm2bBytes _ _ szP _ => !szP.signed
  | .tpm2b _ _ szP _ t => !szP.signed && t.wf && t.structName?.isSome
  | .union _ arms => arms.wf
  | .fixedBytes _ => true
def Fields.wf : Fields → List String → Bool → Bool
  | .nil, _, _ => true
  | .cons fname kind t rest, prims, lastIsPrim =>
    t.wf &&
    (match kind with
     | .plain => true
     | .counted => lastIsPrim
     | .selected s => prims.contains s) &&
    rest.wf (match t with | .prim _ => fname :: prims | _ => prims) (match kind, t with | .plain, .prim p => !p.signed | .counted, _ => lastIsPrim | _, _ => false)
def Arms.wf : Arms → Bool
  | .nil => true
  | .consNone _ _ rest => rest.wf
  | .cons _ _ t rest => t.wf && rest.wf
end

theorem all_wf : Tab.all.all Ty.wf = true := by decide +kernel
#print axioms all_wf
