import Leantest.Proto
/-! Value-tree denotation: what the layout tables dictate for a well-formed encoding. -/

def Prim.inRange (p : Prim) (x : Int) : Bool :=
  if p.signed then decide (-(2 ^ (8 * p.size - 1) : Nat) ≤ x) && decide (x < (2 ^ (8 * p.size - 1) : Nat))
  else decide (0 ≤ x) && decide (x < (2 ^ (8 * p.size) : Nat))

abbrev BYTE : Prim := ⟨"BYTE", 1, false, [.range 0 256]⟩

def byteEvents (path : Path) : List Byte → Nat → List MEvent
  | [], _ => []
  | b :: bs, i => ⟨elemPath path i, .named "BYTE", some b.toNat⟩ :: byteEvents path bs (i+1)

def specRepeat (f : Path → Val → Option (List Byte × List MEvent)) (path : Path) :
    List Val → Nat → Option (List Byte × List MEvent)
  | [], _ => some ([], [])
  | v :: vs, i =>
    match f (elemPath path i) v with
    | none => none
    | some (b, e) => match specRepeat f path vs (i+1) with
      | none => none
      | some (bs, es) => some (b ++ bs, e ++ es)

mutual
def spec : Ty → Path → Option Int → Val → Option (List Byte × List MEvent)
  | .prim p, path, _, .int x =>
    if p.isValid x && p.inRange x then some (p.toBytes x, [⟨path, .named p.name, some x⟩]) else none
  | .struct name fs, path, _, .struct vs =>
    (specFields fs path [] none vs).map fun (b, e) => (b, ⟨path, .named name, none⟩ :: e)
  | .tpm2bBytes name szName szP bufName, path, _, v =>
    match v.asSized? with
    | none => none
    | some (n, b) =>
      match b.asBytes? with
      | none => none
      | some bs =>
        if szP.isValid n && szP.inRange n && decide (n = bs.length) then
          some (szP.toBytes n ++ bs,
            [⟨path, .named name, none⟩, ⟨path ++ [⟨szName, none⟩], .named szP.name, some n⟩,
             ⟨path ++ [⟨bufName, none⟩], .listOf "BYTE", none⟩] ++ byteEvents (path ++ [⟨bufName, none⟩]) bs 0)
        else none
  | .tpm2b name szName szP bufName t, path, _, v =>
    match v.asSized? with
    | none => none
    | some (n, bv) =>
      if !(szP.isValid n && szP.inRange n) then none else
      if n = 0 then
        match t.structName? with
        | some tn =>
          if bv.isNone then
            some (szP.toBytes 0, [⟨path, .named name, none⟩, ⟨path ++ [⟨szName, none⟩], .named szP.name, some 0⟩,
              ⟨path ++ [⟨bufName, none⟩], .named tn, none⟩])
          else none
        | none => none
      else
        match spec t (path ++ [⟨bufName, none⟩]) none bv with
        | none => none
        | some (bb, be) =>
          if n = bb.length then
            some (szP.toBytes n ++ bb, [⟨path, .named name, none⟩, ⟨path ++ [⟨szName, none⟩], .named szP.name, some n⟩] ++ be)
          else none
  | .union name arms, path, some sv, v =>
    match selectArm arms.keys sv with
    | none => none
    | some an => (specArm arms an path v).map fun (b, e) => (b, ⟨path, .named name, none⟩ :: e)
  | .fixedBytes n, path, _, .bytes bs =>
    if bs.length = n then some (bs, ⟨path, .listOf "BYTE", none⟩ :: byteEvents path bs 0) else none
  | _, _, _, _ => none

def specArm : Arms → String → Path → Val → Option (List Byte × List MEvent)
  | .nil, _, _, _ => none
  | .consNone an _ rest, want, path, v =>
    if an = want then (if v.isNone then some ([], []) else none) else specArm rest want path v
  | .cons an _ t rest, want, path, v =>
    if an = want then spec t (path ++ [⟨an, none⟩]) none v else specArm rest want path v

def specField : FKind → Ty → Path → List (String × Val) → Option Int → Val → Option (List Byte × List MEvent)
  | .plain, t, fpath, _, _, v => spec t fpath none v
  | .selected sel, t, fpath, vals, _, v => spec t fpath (lookupInt vals sel) v
  | .counted, t, fpath, _, some c, .list es =>
    if c.toNat = es.length then
      (specRepeat (fun p v => spec t p none v) fpath es 0).map fun (b, e) => (b, ⟨fpath, .listOf "?", none⟩ :: e)
    else none
  | _, _, _, _, _, _ => none

def specFields : Fields → Path → List (String × Val) → Option Int → List Val →
    Option (List Byte × List MEvent)
  | .nil, _, _, _, [] => some ([], [])
  | .cons fname kind t rest, path, vals, lastInt, v :: vs =>
    match specField kind t (path ++ [⟨fname, none⟩]) vals lastInt v with
    | none => none
    | some (b, e) =>
      match specFields rest path (vals ++ [(fname, v)]) (nextLast v lastInt) vs with
      | none => none
      | some (bs, es) => some (b ++ bs, e ++ es)
  | _, _, _, _, _ => none
end

def U16 : Prim := ⟨"UINT16", 2, false, [.range 0 65536]⟩
def ALG : Prim := ⟨"ALG", 2, false, [.single 4, .single 11, .single 16]⟩
def HA : Ty := .struct "TPMT_HA" (.cons "hashAlg" .plain (.prim ALG)
  (.cons "digest" (.selected "hashAlg") (.union "TPMU_HA" (.cons "sha1" (some 4) (.fixedBytes 3) (.cons "sha256" (some 11) (.fixedBytes 4) (.consNone "null" (some 16) .nil)))) .nil))
def L : Ty := .struct "TPML" (.cons "count" .plain (.prim U16) (.cons "digests" .counted HA .nil))
def B2 : Ty := .tpm2b "TPM2B_X" "size" U16 "x" L
def exv : Val := .struct [.int 9, .struct [.int 2, .list [.struct [.int 4, .bytes [1,2,3]], .struct [.int 16, .none]]]]
#eval spec B2 [⟨"", none⟩] none exv
#eval match spec B2 [⟨"", none⟩] none exv with
  | some (bs, evs) => match decode B2 [⟨"", none⟩] none ⟨bs, [], []⟩ with
     | .ok (_, s) => decide (s.evs = evs) && s.inp.isEmpty
     | _ => false
  | none => false
