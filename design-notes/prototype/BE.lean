import Leantest.Proto

theorem toBE_length (k n : Nat) : (toBE k n).length = k := by
  induction k generalizing n with
  | zero => simp [toBE]
  | succ k ih => simp [toBE, ih]

theorem fromBE_append (as bs : List Byte) : fromBE (as ++ bs) = fromBE as * 256 ^ bs.length + fromBE bs := by
  induction bs generalizing as with
  | nil => simp [fromBE]
  | cons b bs ih =>
    have : as ++ b :: bs = (as ++ [b]) ++ bs := by simp
    rw [this, ih (as ++ [b])]
    have h1 : fromBE (as ++ [b]) = fromBE as * 256 + b.toNat := by simp [fromBE, List.foldl_append]
    have h2 : fromBE (b :: bs) = b.toNat * 256 ^ bs.length + fromBE bs := by
      have := ih [b]; simpa [fromBE] using this
    rw [h1, h2, List.length_cons, Nat.pow_succ]
    simp only [Nat.add_mul, Nat.mul_assoc, Nat.add_assoc, Nat.mul_comm 256]

theorem fromBE_toBE (k n : Nat) : fromBE (toBE k n) = n % 256 ^ k := by
  induction k generalizing n with
  | zero => simp [toBE, fromBE, Nat.mod_one]
  | succ k ih =>
    simp only [toBE]
    rw [fromBE_append, ih]
    have hb : (UInt8.ofNat (n % 256)).toNat = n % 256 := by simp
    simp only [List.length_singleton, Nat.pow_one, fromBE, List.foldl_cons, List.foldl_nil, Nat.zero_mul, Nat.zero_add, hb]
    rw [Nat.pow_succ]
    have := Nat.mod_mul_right_div_self n 256 (256 ^ k)
    have h := Nat.div_add_mod (n % (256 ^ k * 256)) 256
    have hm : n % (256 ^ k * 256) % 256 = n % 256 := Nat.mod_mul_left_mod n (256 ^ k) 256
    have hd : n % (256 ^ k * 256) / 256 = n / 256 % 256 ^ k := by
      rw [Nat.mul_comm]; exact Nat.mod_mul_right_div_self n 256 (256 ^ k)
    omega
#print axioms fromBE_toBE
