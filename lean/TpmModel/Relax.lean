import TpmModel.Message
/-!
# The lenient interpretation: the same tables with every declared set widened to "any integer of the field's width"

`Ty.relax` / `MsgTables.relax` keep structure, names, widths, signedness, selectors, counts and the command-code maps; only the
`valid` lists change.  Strict decoding under the relaxed tables accepts an input iff its sizes, counts and selectors are
consistent — out-of-range values are then the only thing that can be wrong with it.  (C08, value-only clause; theorems in
`TpmProofs/Lenient.lean`, driver op `DECL`.)
-/

def Prim.relax (p : Prim) : Prim :=
  { p with valid := [.range (-((2 ^ (8 * p.size) : Nat) : Int)) ((2 ^ (8 * p.size) : Nat) : Int)] }

mutual
def Ty.relax : Ty → Ty
  | .prim p => .prim p.relax
  | .struct n isP fs => .struct n isP fs.relax
  | .tpm2bBytes n szN szP bufN elem => .tpm2bBytes n szN szP.relax bufN elem.relax
  | .tpm2b n szN szP bufN body => .tpm2b n szN szP.relax bufN body.relax
  | .union n arms => .union n arms.relax
  | .bad r => .bad r
def Fields.relax : Fields → Fields
  | .nil => .nil
  | .cons f k t rest => .cons f k t.relax rest.relax
def Arms.relax : Arms → Arms
  | .nil => .nil
  | .consNone an key rest => .consNone an key rest.relax
  | .cons an key t rest => .cons an key t.relax rest.relax
  | .consBytes an key elem n rest => .consBytes an key elem.relax n rest.relax
end


def relaxMap (m : List (Int × Ty)) : List (Int × Ty) := m.map fun kt => (kt.1, kt.2.relax)

def MsgTables.relax (tb : MsgTables) : MsgTables :=
  { tb with
    tagCmd := tb.tagCmd.relax, cmdSize := tb.cmdSize.relax, cc := tb.cc.relax, authSize := tb.authSize.relax,
    authCmd := tb.authCmd.relax, tagRsp := tb.tagRsp.relax, rspSize := tb.rspSize.relax, rc := tb.rc.relax,
    paramSize := tb.paramSize.relax, authRsp := tb.authRsp.relax,
    cmdHandles := relaxMap tb.cmdHandles, cmdParams := relaxMap tb.cmdParams,
    rspHandles := relaxMap tb.rspHandles, rspParams := relaxMap tb.rspParams, encParam := tb.encParam.relax }


def Top.relax : Top → Top
  | .ty t => .ty t.relax
  | .command => .command
  | .response cc enc => .response cc enc
  | .stream => .stream

