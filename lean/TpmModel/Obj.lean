import TpmModel.Spec
import TpmModel.Message
/-!
# `obj_to_events` (common/object.py): object → events (C11)

The object is a `Val`; its class is given by the layout `Ty` (Python: `type(obj)` / `fields(obj)`).
-/

/-- field names whose `None` value is skipped completely (hard-coded in `obj_to_events`) -/
def o2eSkip : List String := ["handles", "authSize", "authorizationArea", "parameterSize", "parameters"]

def leafEvents (width : Nat) (v : Val) (path : Path) : List MEvent :=
  match v with
  | .int cls x => [⟨path, .named cls false, some x, cls, width⟩]
  | _ => []

/-- a list node: all child elements, indexed -/
def o2eList (f : Val → Path → List MEvent) (path : Path) : List Val → Nat → List MEvent
  | [], _ => []
  | v :: vs, i => f v (elemPath path i) ++ o2eList f path vs (i + 1)

def primListEvents (elem : Prim) (v : Val) (path : Path) : List MEvent :=
  match v with
  | .list vs => ⟨path, .listOf elem.name, none, "", 0⟩ :: o2eList (leafEvents elem.size) path vs 0
  | _ => []

def objFields (v : Val) : Option (String × Bool × List (String × Val)) :=
  match v with
  | .obj n e fs => some (n, e, fs)
  | _ => none

/-- one declared field of a dataclass instance: `None` → an "empty field" event (or nothing for union classes /
the skip list), a list → the list parent event followed by the elements, otherwise the value's own events -/
def o2eFieldWith (f : Val → Path → List MEvent) (tag : TyTag) (tname : String) (inUnion : Bool) (kind : FKind)
    (fname : String) (v : Option Val) (path : Path) : List MEvent :=
  match v with
  | none => if inUnion || o2eSkip.contains fname then [] else [⟨path ++ [⟨fname, none⟩], tag, none, "", 0⟩]
  | some .none => if inUnion || o2eSkip.contains fname then [] else [⟨path ++ [⟨fname, none⟩], tag, none, "", 0⟩]
  | some (.list vs) =>
    ⟨path ++ [⟨fname, none⟩], .listOf tname, none, "", 0⟩ :: o2eList f (path ++ [⟨fname, none⟩]) vs 0
  | some v => f v (path ++ [⟨fname, none⟩])

mutual
def o2e : Ty → Val → Path → List MEvent
  | .prim p, v, path => leafEvents p.size v path
  | .struct _ _ fs, v, path =>
    match objFields v with
    | none => []
    | some (n, e, fvs) => ⟨path, .named n e, none, "", 0⟩ :: o2eFields fs fvs path
  | .tpm2bBytes _ szName szP bufName elem, v, path =>
    match objFields v with
    | none => []
    | some (n, e, fvs) =>
      ⟨path, .named n e, none, "", 0⟩ ::
        (o2eFieldWith (leafEvents szP.size) (.named szP.name false) szP.name false .plain szName (lookupVal fvs szName) path ++
         (match lookupVal fvs bufName with
          | some bv => primListEvents elem bv (path ++ [⟨bufName, none⟩])
          | none => [⟨path ++ [⟨bufName, none⟩], .listOf elem.name, none, "", 0⟩]))
  | .tpm2b _ szName szP bufName body, v, path =>
    match objFields v with
    | none => []
    | some (n, e, fvs) =>
      ⟨path, .named n e, none, "", 0⟩ ::
        (o2eFieldWith (leafEvents szP.size) (.named szP.name false) szP.name false .plain szName (lookupVal fvs szName) path ++
         o2eFieldWith (fun v p => o2e body v p) body.eventTag body.name false .plain bufName (lookupVal fvs bufName) path)
  | .union _ arms, v, path =>
    match objFields v with
    | none => []
    | some (n, e, fvs) => ⟨path, .named n e, none, "", 0⟩ :: o2eArms arms fvs path
  | .bad _, _, _ => []
termination_by structural t => t

/-- the members of a union instance: all `None` (skipped) except the selected one -/
def o2eArms : Arms → List (String × Val) → Path → List MEvent
  | .nil, _, _ => []
  | .consNone _ _ rest, fvs, path => o2eArms rest fvs path
  | .cons an _ t rest, fvs, path =>
    o2eFieldWith (fun v p => o2e t v p) t.eventTag t.name true .plain an (lookupVal fvs an) path ++ o2eArms rest fvs path
  | .consBytes an _ elem _ rest, fvs, path =>
    (match lookupVal fvs an with
     | some (.list vs) => primListEvents elem (.list vs) (path ++ [⟨an, none⟩])
     | _ => []) ++ o2eArms rest fvs path
termination_by structural arms => arms

def o2eFields : Fields → List (String × Val) → Path → List MEvent
  | .nil, _, _ => []
  | .cons fname kind t rest, fvs, path =>
    o2eFieldWith (fun v p => o2e t v p) t.eventTag t.name false kind fname (lookupVal fvs fname) path ++ o2eFields rest fvs path
termination_by structural fs => fs
end

/-- `obj_to_events` of a `Command` / `Response` object: the message classes are dataclasses whose `Any` fields hold
handle / parameter area instances (possibly of the synthesized encrypted class) -/
def o2eArea (encParam : Ty) (t : Ty) (v : Val) (path : Path) : List MEvent :=
  match objFields v with
  | some (_, true, _) =>
    (match encVariant encParam t with
     | some (name, fs) => o2e (.struct name true fs) v path
     | none => o2e t v path)
  | _ => o2e t v path

def o2eMessage (tb : MsgTables) (isCommand : Bool) (cc : Option Int) (v : Val) (path : Path) : List MEvent :=
  match objFields v with
  | none => []
  | some (n, e, fvs) =>
    let prim := fun (p : Prim) (f : String) => o2eFieldWith (leafEvents p.size) (.named p.name false) p.name false .plain f (lookupVal fvs f) path
    let area := fun (m : List (Int × Ty)) (f : String) =>
      match cc.bind (lookupTy m) with
      | some t => o2eFieldWith (o2eArea tb.encParam t) t.eventTag t.name false .plain f (lookupVal fvs f) path
      | none => []
    let sess := fun (t : Ty) (f : String) => o2eFieldWith (fun v p => o2e t v p) t.eventTag t.name false .counted f (lookupVal fvs f) path
    ⟨path, .named n e, none, "", 0⟩ ::
    (if isCommand then
      prim tb.tagCmd "tag" ++ prim tb.cmdSize "commandSize" ++ prim tb.cc "commandCode" ++ area tb.cmdHandles "handles" ++
      prim tb.authSize "authSize" ++ sess tb.authCmd "authorizationArea" ++ area tb.cmdParams "parameters"
    else
      prim tb.tagRsp "tag" ++ prim tb.rspSize "responseSize" ++ prim tb.rc "responseCode" ++ area tb.rspHandles "handles" ++
      prim tb.paramSize "parameterSize" ++ area tb.rspParams "parameters" ++ sess tb.authRsp "authorizationArea")
