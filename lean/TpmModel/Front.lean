import TpmModel.Basic
/-!
# Front-ends: hex text, swtpm log, pcapng payload trimming, auto-detection (C15)
-/

/-- `bytes.strip()` whitespace: space, \t, \n, \r, \x0b, \x0c -/
def isWs (b : Byte) : Bool := b == 32 || (9 ≤ b && b ≤ 13)

def hexDigitVal (b : Byte) : Option Nat :=
  if 48 ≤ b ∧ b ≤ 57 then some (b.toNat - 48)
  else if 65 ≤ b ∧ b ≤ 70 then some (b.toNat - 55)
  else if 97 ≤ b ∧ b ≤ 102 then some (b.toNat - 87)
  else none

inductive FrontRes where
  | ok (bytes : List Byte)
  /-- bytes yielded before the generator raised `ValueError` -/
  | valueError (before : List Byte)
  deriving DecidableEq, Repr

/-- `io/hex/marshal.py parse_hex_string`: `hi = none`: looking for the high nibble -/
def hexGo : List Byte → Option Byte → List Byte → FrontRes
  | [], none, acc => .ok acc.reverse
  | [], some _, acc => .valueError acc.reverse            -- "uneven amount of digits"
  | b :: rest, none, acc => if isWs b then hexGo rest none acc else hexGo rest (some b) acc
  | b :: rest, some h, acc =>
    if isWs b then hexGo rest (some h) acc
    else match hexDigitVal h, hexDigitVal b with
      | some x, some y => hexGo rest none (UInt8.ofNat (x * 16 + y) :: acc)
      | _, _ => .valueError acc.reverse                   -- not a pair of hex digits

def hexParse (s : List Byte) : FrontRes := hexGo s none []

/-! ## swtpm log -/

structure SwtpmConsts where
  cmdMarker : List Byte
  ctrlMarker : List Byte
  validHex : List Byte
  validWs : List Byte

inductive SwState where
  | wantMarker | wantStart | wantHigh | wantLow
  deriving DecidableEq, Repr

def upperHexVal (b : Byte) : Nat := if 48 ≤ b ∧ b ≤ 57 then b.toNat - 48 else b.toNat - 55

/-- `io/swtpm_log/marshal.py parse_hex_string` -/
def swGo (k : SwtpmConsts) : List Byte → SwState → List Byte → List Byte → List Byte → FrontRes
  | [], .wantMarker, marker, _, acc => if marker.isEmpty then .ok acc.reverse else .valueError acc.reverse
  | [], .wantStart, _, _, acc => .valueError acc.reverse
  | [], .wantHigh, _, _, acc => .ok acc.reverse
  | [], .wantLow, _, _, acc => .valueError acc.reverse
  | b :: rest, .wantMarker, marker, value, acc =>
    if (k.cmdMarker.drop marker.length).head? == some b then
      let marker := marker ++ [b]
      if marker == k.cmdMarker then swGo k rest .wantStart [] value acc
      else swGo k rest .wantMarker marker value acc
    else swGo k rest .wantMarker [] value acc
  | b :: rest, .wantStart, marker, value, acc =>
    if b == 10 then swGo k rest .wantHigh marker value acc else swGo k rest .wantStart marker value acc
  | b :: rest, .wantHigh, marker, value, acc =>
    if k.validWs.contains b then swGo k rest .wantHigh marker value acc
    else if k.cmdMarker.head? == some b then swGo k rest .wantMarker (marker ++ [b]) value acc
    else if !k.validHex.contains b then .valueError acc.reverse
    else swGo k rest .wantLow marker (value ++ [b]) acc
  | b :: rest, .wantLow, marker, value, acc =>
    if value == k.ctrlMarker.take 1 && (k.ctrlMarker.drop 1).head? == some b then swGo k rest .wantMarker marker [] acc
    else if !k.validHex.contains b then .valueError acc.reverse
    else
      let v := (value ++ [b]).foldl (fun a d => a * 16 + upperHexVal d) 0
      swGo k rest .wantHigh marker [] (UInt8.ofNat v :: acc)

def swtpmParse (k : SwtpmConsts) (s : List Byte) : FrontRes := swGo k s .wantMarker [] [] []

/-! ## pcapng: what happens to the packet payloads after dpkt has extracted them -/

/-- skip empty and runt (< 10 bytes) payloads; cut a payload to its own size field (bytes 2..6) if they differ -/
def trimPayload (p : List Byte) : Option (List Byte) :=
  if p.length < 10 then none
  else
    let size := fromBE ((p.drop 2).take 4)
    if size != p.length then some (p.take size) else some p

def pcapBytes (payloads : List (List Byte)) : List Byte := (payloads.filterMap trimPayload).flatten

/-! ## auto-detection -/

inductive Format where
  | pcapng | hex | binary
  deriving DecidableEq, Repr

/-- `detect_format_and_yield_buffer(strict=False)`: `none` = IOError (fewer than two bytes) -/
def autoDetect (s : List Byte) : Option Format :=
  match s with
  | a :: b :: _ =>
    if a == 0x0a && b == 0x0d then some .pcapng
    else if (hexDigitVal a).isSome && (hexDigitVal b).isSome then some .hex
    else some .binary
  | _ => none
