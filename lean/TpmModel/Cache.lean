import TpmModel.Prim
/-!
# The only cross-call state: the cache around `TPMS_PARAMS.encrypted()` (C12)

`functools.lru_cache` keyed by the class.  Every *miss* synthesizes a fresh class object (a new type
identity, modelled by a counter); every *hit* returns the identity stored.  A decode performs one
`get` per encrypted parameter area, at the point where `process_tpms` runs; decodes may be interleaved
arbitrarily, so a history is just a list of class names.
-/

structure Cache where
  cap : CacheCap
  /-- most recently used first: (class name, identity) -/
  entries : List (String × Nat)
  next : Nat
  deriving Repr

def Cache.init (cap : CacheCap) : Cache := ⟨cap, [], 0⟩

def Cache.get (c : Cache) (cls : String) : Nat × Cache :=
  match c.cap with
  | .absent => (c.next, { c with next := c.next + 1 })          -- no cache: a fresh class every call
  | .opaque _ => (c.next, { c with next := c.next + 1 })
  | .unbounded =>
    match c.entries.find? (·.1 == cls) with
    | some (_, id) => (id, c)
    | none => (c.next, { c with entries := (cls, c.next) :: c.entries, next := c.next + 1 })
  | .bounded n =>
    match c.entries.find? (·.1 == cls) with
    | some (_, id) => (id, { c with entries := (cls, id) :: c.entries.filter (fun e => !(e.1 == cls)) })
    | none => (c.next, { c with entries := ((cls, c.next) :: c.entries).take n, next := c.next + 1 })

/-- identities handed out along a history of requests -/
def Cache.run : Cache → List String → List (String × Nat)
  | _, [] => []
  | c, cls :: rest => let r := c.get cls; (cls, r.1) :: Cache.run r.2 rest
