import TpmModel.Pump
/-!
# `Binary.marshal(..., root_path=R)`: the walker is started at `R`, and the pump recognises the root and the command code relative to `R`

(`marshalRun` is the case `R = rootPath`.  After the repair 7ba2aa4 the end-of-stream test of the pump compares with the caller's
root; before it compared with the literal default root.)
-/

def runWalkerAt (abort : Bool) (tb : MsgTables) (top : Top) (root : Path) (inp : List Byte) : R Val :=
  match top with
  | .ty t => decode abort t root none (initSt inp)
  | .command => decodeCommand abort tb root (initSt inp)
  | .response cc enc => decodeResponse abort tb cc enc root (initSt inp)
  | .stream => decodeStream abort tb root (inp.length + 1) (initSt inp)

def isRootEllipsisAt (root : Path) (e : Event) : Bool :=
  match e with
  | .marshal m => m.path == root && m.val.isNone
  | .warning _ => false

def ccOfAt (root : Path) (e : Event) (cc : Option Int) : Option Int :=
  match e with
  | .marshal m => if m.path == root ++ [⟨"commandCode", none⟩] then m.val else cc
  | .warning _ => cc

def pumpEventsAt (root : Path) (isStream : Bool) (len : Nat) : List (Nat × Event) → List (Nat × Event) → Option Int →
    (List (Nat × Event) × Option Int × Bool)
  | [], acc, cc => (acc, cc, false)
  | (k, e) :: rest, acc, cc =>
    if isStream && k == len && isRootEllipsisAt root e then (acc, cc, true)
    else pumpEventsAt root isStream len rest (acc ++ [(min (k + 1) len, e)]) (ccOfAt root e cc)

def pumpAt (root : Path) (isStream : Bool) (x : List Byte) (r : R Val) : Run :=
  let pe := pumpEventsAt root isStream x.length (stOf r).out [] none
  ⟨pe.1, if pe.2.2 then .silent else pumpOutcome x (stOf r).pos (resOf r), pe.2.1⟩

def marshalRunAt (abort : Bool) (tb : MsgTables) (top : Top) (root : Path) (x : List Byte) : Run :=
  pumpAt root top.isStream x (runWalkerAt abort tb top root x)
