import TpmModel.Message
/-!
# `events_to_obj` (common/object.py): events → nested dict → object (C11)

`_events_to_dict` walks every event's path from the root dict with `setdefault` (a node is created by the first event
that touches it and never overwritten); `_to_obj` then turns the nested dict into objects, directed by the declared
types.  `none` = the Python code raises.
-/

inductive Tree where
  | leaf (cls : String) (x : Int)
  | dict (kvs : List (String × Tree))
  | list (es : List (Option Tree))
  deriving Repr, Inhabited

def kvLookup (kvs : List (String × Tree)) (k : String) : Option Tree := (kvs.find? (·.1 == k)).map (·.2)

/-- `d[k] = v` for a key that may or may not exist: replace in place, else append (insertion order) -/
def kvSet : List (String × Tree) → String → Tree → List (String × Tree)
  | [], k, v => [(k, v)]
  | (k', v') :: rest, k, v => if k' == k then (k', v) :: rest else (k', v') :: kvSet rest k v

/-- `list_setdefault`'s extension: `if index < len + 1: extend([None] * (index - len + 1))` -/
def padTo (es : List (Option Tree)) (i : Nat) : List (Option Tree) :=
  if i < es.length + 1 then es ++ List.replicate (i + 1 - es.length) none else es

/-- one event's walk from `t` along `path`; `leafD` is what the last node defaults to -/
def ins : Tree → List PathNode → Tree → Option Tree
  | t, [], _ => some t
  | .dict kvs, nn :: rest, d =>
    let dflt := if rest.isEmpty then d else .dict []
    match nn.idx with
    | none =>
      match kvLookup kvs nn.name with
      | some child => (ins child rest d).map fun c => .dict (kvSet kvs nn.name c)
      | none => (ins dflt rest d).map fun c => .dict (kvSet kvs nn.name c)
    | some i =>
      match (kvLookup kvs nn.name).getD (.list []) with
      | .list es =>
        let es1 := padTo es i
        match es1[i]? with
        | none => none                       -- IndexError
        | some cur =>
          (ins (cur.getD dflt) rest d).map fun c => .dict (kvSet kvs nn.name (.list (es1.set i (some c))))
      | _ => none
  | _, _ :: _, _ => none

def leafOf (e : MEvent) : Tree :=
  match e.val with
  | some x => .leaf e.vclass x
  | none => match e.ty with
    | .listOf _ => .list []
    | .named _ _ => .dict []

/-- `_events_to_dict`: the root dict after all events -/
def buildTree : List MEvent → Tree → Option Tree
  | [], root => some root
  | e :: rest, root => (ins root e.path (leafOf e)).bind (buildTree rest)

/-- declared type of a dict entry / list: a single value or a list of values of a type -/
inductive FT where
  | one (t : Ty)
  | many (t : Ty)

def Fields.attr : Fields → String → Option FT
  | .nil, _ => none
  | .cons f kind t rest, k =>
    if f == k then (match kind with | .counted => some (.many t) | _ => some (.one t)) else rest.attr k

def Arms.attr : Arms → String → Option FT
  | .nil, _ => none
  | .consNone an _ rest, k => if an == k then none else rest.attr k
  | .cons an _ t rest, k => if an == k then some (.one t) else rest.attr k
  | .consBytes an _ elem _ rest, k => if an == k then some (.many (.prim elem)) else rest.attr k

/-- `next(f for f in fields(tpm_type) if f.name == name).type` -/
def Ty.attr : Ty → String → Option FT
  | .struct _ _ fs, k => fs.attr k
  | .tpm2b _ szName szP bufName body, k =>
    if szName == k then some (.one (.prim szP)) else if bufName == k then some (.one body) else none
  | .tpm2bBytes _ szName szP bufName elem, k =>
    if szName == k then some (.one (.prim szP)) else if bufName == k then some (.many (.prim elem)) else none
  | .union _ arms, k => arms.attr k
  | _, _ => none

/-- `len(fields(tpm_type)) > 0` -/
def Ty.hasFields : Ty → Bool
  | .struct _ _ .nil => false
  | .union _ .nil => false
  | .prim _ => false
  | .bad _ => false
  | _ => true

/-- `TPMS_PARAMS.is_encrypted_params(dict)`: the first entry is a dict with exactly the keys of `TPM2B_ENCRYPTED_PARAM` -/
def isEncDict (encParam : Ty) (kvs : List (String × Tree)) : Bool :=
  match kvs, encParam with
  | (_, .dict sub) :: _, .tpm2bBytes _ szName _ bufName _ => sub.map (·.1) == [szName, bufName]
  | _, _ => false

mutual
/-- `_to_obj(tpm_type, value)` -/
def toObj (encParam : Ty) : FT → Tree → Option Val
  | _, .leaf cls x => some (.int cls x)
  | .one t, .dict kvs =>
    if kvs.isEmpty && t.hasFields then some .none
    else
      -- `_dict_to_obj`
      let enc := isEncDict encParam kvs
      let tv : Option (String × Bool × Ty) :=
        if enc then (encVariant encParam t).map fun nf => (nf.1, true, .struct nf.1 true nf.2)
        else some (t.name, false, t)
      match tv with
      | none => none                          -- no `.encrypted()` on this class
      | some (name, e, t') => (toObjKvs encParam t' kvs).map fun fvs => .obj name e fvs
  | .many _, .dict _ => none                   -- `list[...]` has no `fields()`
  | .many t, .list es => (toObjElems encParam t es).map .list
  | .one _, .list _ => none                     -- `tpm_type.__args__` of a class
termination_by structural _ tree => tree

def toObjKvs (encParam : Ty) (t : Ty) : List (String × Tree) → Option (List (String × Val))
  | [] => some []
  | (k, v) :: rest =>
    match t.attr k with
    | none => none
    | some ft =>
      match toObj encParam ft v, toObjKvs encParam t rest with
      | some ov, some orest => some ((k, ov) :: orest)
      | _, _ => none
termination_by structural kvs => kvs

def toObjElems (encParam : Ty) (t : Ty) : List (Option Tree) → Option (List Val)
  | [] => some []
  | none :: rest => (toObjElems encParam t rest).map fun r => .none :: r
  | some e :: rest =>
    match toObj encParam (.one t) e, toObjElems encParam t rest with
    | some ov, some orest => some (ov :: orest)
    | _, _ => none
termination_by structural es => es
end

/-- an `Any` field: present in the class only if the type map resolves it (otherwise `type_map[...]` raises) -/
def anyField (name : String) (t : Option Ty) (rest : Fields) : Fields :=
  match t with
  | some ty => .cons name .plain ty rest
  | none => rest

/-- `Command` as a dataclass whose `Any` fields are resolved with the decoded command code -/
def cmdTy (tb : MsgTables) (cc : Int) : Ty :=
  .struct "Command" false
    (.cons "tag" .plain (.prim tb.tagCmd) (.cons "commandSize" .plain (.prim tb.cmdSize)
    (.cons "commandCode" .plain (.prim tb.cc) (anyField "handles" (lookupTy tb.cmdHandles cc)
    (.cons "authSize" .plain (.prim tb.authSize) (.cons "authorizationArea" .counted tb.authCmd
    (anyField "parameters" (lookupTy tb.cmdParams cc) .nil)))))))

/-- `Response`, resolved with the caller's command code -/
def rspTy (tb : MsgTables) (cc : Option Int) : Ty :=
  .struct "Response" false
    (.cons "tag" .plain (.prim tb.tagRsp) (.cons "responseSize" .plain (.prim tb.rspSize)
    (.cons "responseCode" .plain (.prim tb.rc) (anyField "handles" (cc.bind (lookupTy tb.rspHandles))
    (.cons "parameterSize" .plain (.prim tb.paramSize) (anyField "parameters" (cc.bind (lookupTy tb.rspParams))
    (.cons "authorizationArea" .counted tb.authRsp .nil)))))))

/-- `events_to_obj(events, command_code=cc)` -/
def e2oTop (tb : MsgTables) (top : Top) (evs : List MEvent) : Option Val :=
  match buildTree evs (.dict []) with
  | none => none
  | some root =>
    match root with
    | .dict rkvs =>
      match kvLookup rkvs "" with
      | none => none                                   -- KeyError: ''
      | some obj =>
        match top with
        | .ty t => toObj tb.encParam (.one t) obj
        | .command =>
          (match obj with
           | .dict kvs =>
             if kvs.isEmpty then some .none else
             -- `command_code = dict_obj["commandCode"]`
             (match kvLookup kvs "commandCode" with
              | some (.leaf _ cc) => toObj tb.encParam (.one (cmdTy tb cc)) obj
              | _ => none)
           | _ => none)
        | .response cc _ =>
          (match obj with
           | .dict kvs => if kvs.isEmpty then some .none else toObj tb.encParam (.one (rspTy tb cc)) obj
           | _ => none)
        | .stream => none
    | _ => none

/-! ## `events_to_objs`: one object per message of a stream -/

/-- `separate_events`: a new group starts at every marshal event at the root path (unless nothing was collected yet) -/
def separateEvents : List Event → List Event → List (List Event)
  | [], cur => if cur.isEmpty then [] else [cur]
  | e :: rest, cur =>
    let isRoot := match e with
      | .marshal m => m.path == rootPath
      | .warning _ => false
    if isRoot && !cur.isEmpty then cur :: separateEvents rest [e] else separateEvents rest (cur ++ [e])

def marshalsOf (es : List Event) : List MEvent :=
  es.filterMap fun e => match e with
    | .marshal m => some m
    | .warning _ => none

/-- `events_to_objs`: commands and responses alternate, each response rebuilt with the code of the command before it;
result = (objects yielded so far, did the generator raise) -/
def e2oStream (tb : MsgTables) : Option Int → List (List Event) → List Val × Bool
  | _, [] => ([], false)
  | none, m :: rest =>
    match e2oTop tb .command (marshalsOf m) with
    | some (.obj n e fs) =>
      -- `command_code = command.commandCode` before the command is yielded
      (match lookupVal fs "commandCode" with
       | some (.int _ cc) => let r := e2oStream tb (some cc) rest; (.obj n e fs :: r.1, r.2)
       | _ => ([], true))
    | _ => ([], true)                                  -- `events_to_obj` raised, or `None.commandCode`
  | some cc, m :: rest =>
    match e2oTop tb (.response (some cc) false) (marshalsOf m) with
    | some rsp => let r := e2oStream tb none rest; (rsp :: r.1, r.2)
    | none => ([], true)
