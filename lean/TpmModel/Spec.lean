import TpmModel.Dec
/-!
# Layer S: what the layout tables dictate for a well-formed encoding

`spec t path sel v = some (bytes, events)`: the value tree `v` *conforms* to layout `t` (read under
selector value `sel` if `t` is a union), and then it has exactly this encoding and this event list.
Each event carries the number of bytes of the encoding that precede its emission (its fields'
bytes), which is what the look-ahead and slicing properties talk about.

Conformance is the TPM 2.0 reading of the tables: integers of the declared width and signedness whose
value is in the declared set; a list has as many elements as the unsigned field directly before it
says; a `TPM2B`'s size equals the byte length of its body (absent body iff size 0); the union member
is the one the selector's value maps to.
-/

abbrev SEv := Nat × MEvent

def shift (k : Nat) (evs : List SEv) : List SEv := evs.map fun e => (e.1 + k, e.2)

def Val.asIntOf (v : Val) (cls : String) : Option Int :=
  match v with
  | .int c x => if c = cls then some x else Option.none
  | _ => Option.none

def Val.asObj (v : Val) (name : String) (enc : Bool) : Option (List (String × Val)) :=
  match v with
  | .obj n e fs => if n = name ∧ e = enc then some fs else Option.none
  | _ => Option.none

def Val.asList (v : Val) : Option (List Val) :=
  match v with
  | .list vs => some vs
  | _ => Option.none

/-- exactly two named fields -/
def asPair (fs : List (String × Val)) (a b : String) : Option (Val × Val) :=
  match fs with
  | [(a', x), (b', y)] => if a' = a ∧ b' = b then some (x, y) else none
  | _ => none

def asSingle (fs : List (String × Val)) (a : String) : Option Val :=
  match fs with
  | [(a', x)] => if a' = a then some x else none
  | _ => none

/-- a primitive value: in the declared set and representable in the declared width -/
def specPrim (p : Prim) (path : Path) (v : Val) : Option (List Byte × List SEv) :=
  match v.asIntOf p.name with
  | none => none
  | some x =>
    if p.isValid x && inRange p.size p.signed x then
      some (intToBytes p.size x, [(p.size, ⟨path, .named p.name false, some x, p.name, p.size⟩)])
    else none

def specRepeat (f : Path → Val → Option (List Byte × List SEv)) (path : Path) :
    List Val → Nat → Option (List Byte × List SEv)
  | [], _ => some ([], [])
  | v :: vs, i =>
    match f (elemPath path i) v with
    | none => none
    | some (b, e) =>
      match specRepeat f path vs (i+1) with
      | none => none
      | some (bs, es) => some (b ++ bs, e ++ shift b.length es)

/-- `list[p]` of exactly `n` elements -/
def specPrimList (p : Prim) (path : Path) (n : Nat) (v : Val) : Option (List Byte × List SEv) :=
  match v.asList with
  | none => none
  | some vs =>
    if vs.length = n then
      (specRepeat (specPrim p) path vs 0).map fun (b, e) => (b, (0, ⟨path, .listOf p.name, none, "", 0⟩) :: e)
    else none

def specListArm (elem : Prim) (n : Option Nat) (path : Path) (v : Val) : Option (List Byte × List SEv) :=
  match n with
  | none => none
  | some k => specPrimList elem path k v

def specFieldWith (g : Path → Option Int → Val → Option (List Byte × List SEv)) (tname : String) :
    FKind → Path → List (String × Val) → Val → Option (List Byte × List SEv)
  | .plain, fpath, _, v => g fpath none v
  | .selected sel, fpath, vals, v =>
    match selOf vals sel with
    | .crash _ => none
    | .sel sv => g fpath sv v
  | .counted, fpath, vals, v =>
    match countOf vals, v.asList with
    | .count c, some es =>
      if es.length = c then
        (specRepeat (fun p v => g p none v) fpath es 0).map fun (b, e) =>
          (b, (0, ⟨fpath, .listOf tname, none, "", 0⟩) :: e)
      else none
    | _, _ => none

mutual
def spec : Ty → Path → Option Int → Val → Option (List Byte × List SEv)
  | .prim p, path, _, v => specPrim p path v
  | .struct name _ fs, path, _, v =>
    match v.asObj name false with
    | none => none
    | some fvs =>
      (specFields fs path [] fvs).map fun (b, e) => (b, (0, ⟨path, .named name false, none, "", 0⟩) :: e)
  | .tpm2bBytes name szName szP bufName elem, path, _, v =>
    match (v.asObj name false).bind (asPair · szName bufName) with
    | none => none
    | some (nv, bv) =>
      match specPrim szP (path ++ [⟨szName, none⟩]) nv, nv.asIntOf szP.name with
      | some (nb, ne), some n =>
        match specPrimList elem (path ++ [⟨bufName, none⟩]) n.toNat bv with
        | none => none
        | some (bb, be) =>
          if 0 < szP.size ∧ 0 ≤ n ∧ n.toNat = bb.length then
            some (nb ++ bb, (0, ⟨path, .named name false, none, "", 0⟩) :: ne ++ shift nb.length be)
          else none
      | _, _ => none
  | .tpm2b name szName szP bufName body, path, _, v =>
    match (v.asObj name false).bind (asPair · szName bufName) with
    | none => none
    | some (nv, bv) =>
      match specPrim szP (path ++ [⟨szName, none⟩]) nv, nv.asIntOf szP.name with
      | some (nb, ne), some n =>
        if n = 0 then
          if bv.isNone ∧ 0 < szP.size then
            some (nb, (0, ⟨path, .named name false, none, "", 0⟩) :: ne ++
              [(nb.length, ⟨path ++ [⟨bufName, none⟩], body.eventTag, none, "", 0⟩)])
          else none
        else
          match spec body (path ++ [⟨bufName, none⟩]) none bv with
          | none => none
          | some (bb, be) =>
            if 0 < szP.size ∧ 0 ≤ n ∧ n.toNat = bb.length then
              some (nb ++ bb, (0, ⟨path, .named name false, none, "", 0⟩) :: ne ++ shift nb.length be)
            else none
      | _, _ => none
  | .union name arms, path, sel, v =>
    match selectArm arms.keys sel with
    | none => none
    | some an =>
      (specArm arms name an path v).map fun (b, e) => (b, (0, ⟨path, .named name false, none, "", 0⟩) :: e)
  | .bad _, _, _, _ => none
termination_by structural t => t

def specArm : Arms → String → String → Path → Val → Option (List Byte × List SEv)
  | .nil, _, _, _, _ => none
  | .consNone an _ rest, un, want, path, v =>
    if an = want then (if v.isNone then some ([], []) else none) else specArm rest un want path v
  | .cons an _ t rest, un, want, path, v =>
    if an = want then
      match (v.asObj un false).bind (asSingle · an) with
      | none => none
      | some av => spec t (path ++ [⟨an, none⟩]) none av
    else specArm rest un want path v
  | .consBytes an _ elem n rest, un, want, path, v =>
    if an = want then
      match (v.asObj un false).bind (asSingle · an) with
      | none => none
      | some av => specListArm elem n (path ++ [⟨an, none⟩]) av
    else specArm rest un want path v
termination_by structural arms => arms

def specFields : Fields → Path → List (String × Val) → List (String × Val) → Option (List Byte × List SEv)
  | .nil, _, _, fvs => if fvs.isEmpty then some ([], []) else none
  | .cons _ _ _ _, _, _, [] => none
  | .cons fname kind t rest, path, vals, (fn, v) :: fvs' =>
    if fn = fname then
      match specFieldWith (fun p sel v => spec t p sel v) t.name kind (path ++ [⟨fname, none⟩]) vals v with
      | none => none
      | some (b, e) =>
        match specFields rest path (vals ++ [(fname, v)]) fvs' with
        | none => none
        | some (bs, es) => some (b ++ bs, e ++ shift b.length es)
    else none
termination_by structural fs => fs
end
