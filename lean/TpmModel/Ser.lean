import TpmModel.Pump
/-! Canonical text forms of observations (shared with the Python harness, see tools/harness/canon.py). -/

def hexDigit (n : Nat) : Char := "0123456789abcdef".toList.getD n '?'

def hexOfBytes (bs : List Byte) : String :=
  String.ofList (bs.flatMap fun b => [hexDigit (b.toNat / 16), hexDigit (b.toNat % 16)])

def hexVal (c : Char) : Option Nat :=
  if '0' ≤ c ∧ c ≤ '9' then some (c.toNat - '0'.toNat)
  else if 'a' ≤ c ∧ c ≤ 'f' then some (c.toNat - 'a'.toNat + 10)
  else if 'A' ≤ c ∧ c ≤ 'F' then some (c.toNat - 'A'.toNat + 10)
  else none

def bytesOfHexAux : List Char → List Byte → Option (List Byte)
  | [], acc => some acc.reverse
  | [_], _ => none
  | a :: b :: rest, acc =>
    match hexVal a, hexVal b with
    | some x, some y => bytesOfHexAux rest (UInt8.ofNat (x * 16 + y) :: acc)
    | _, _ => none

def bytesOfHex (s : String) : Option (List Byte) :=
  if s == "-" then some [] else bytesOfHexAux s.toList []

def pathStr (p : Path) : String := if p == rootPath then "." else p.str

def optIntStr : Option Int → String
  | none => "-"
  | some x => toString x

def Err.cls : Err → String
  | .value .. => "ValueConstraintViolatedError"
  | .valueNone .. => "ValueConstraintViolatedError"
  | .exceeded .. => "SizeConstraintExceededError"
  | .subceeded .. => "SizeConstraintSubceededError"
  | .anticipated .. => "AnticipatedSizeConstraintExceededError"
  | .depleted => "InputStreamBytesDepletedError"
  | .crash c _ => c

def Err.str : Err → String
  | .value p t x => s!"ValueConstraintViolatedError path={pathStr p} type={t} value={x}"
  | .valueNone p t => s!"ValueConstraintViolatedError path={pathStr p} type={t} value=None"
  | .exceeded _ cp m a v b => s!"SizeConstraintExceededError cpath={pathStr cp} max={m} already={a} violator={pathStr v} by={b}"
  | .subceeded _ cp m a => s!"SizeConstraintSubceededError cpath={pathStr cp} max={m} already={a}"
  | .anticipated _ cp m a v x b => s!"AnticipatedSizeConstraintExceededError cpath={pathStr cp} max={m} already={a} violator={pathStr v} value={x} by={b}"
  | .depleted => "InputStreamBytesDepletedError"
  | .crash c _ => s!"crash {c}"

def MEvent.str (e : MEvent) : String :=
  let v := match e.val with | none => "..." | some x => toString x
  let c := if e.vclass == "" then "-" else e.vclass
  s!"{pathStr e.path} {e.ty.str} {v} {c}"

def Event.str (pulls : Nat) : Event → String
  | .marshal e => s!"M {pulls} {e.str}"
  | .warning e => s!"W {pulls} {e.str}"

def allSmallInts : List Val → Option (String × List Byte)
  | [] => Option.none
  | vs =>
    match vs.head! with
    | .int cls _ =>
      let ok := vs.all fun v => match v with
        | .int c x => c == cls && decide (0 ≤ x) && decide (x < 256)
        | _ => false
      if ok then some (cls, vs.map fun v => match v with | .int _ x => UInt8.ofNat x.toNat | _ => 0) else Option.none
    | _ => Option.none

partial def Val.str : Val → String
  | .int cls x => s!"{cls}:{x}"
  | .none => "None"
  | .list vs =>
    match allSmallInts vs with
    | Option.some (cls, bs) => s!"b:{cls}:{hexOfBytes bs}"
    | Option.none => "[" ++ ",".intercalate (vs.map Val.str) ++ "]"
  | .obj n enc fs =>
    let shown := fs.filter fun kv => !kv.2.isNone
    n ++ (if enc then "~enc" else "") ++ "{" ++ ",".intercalate (shown.map fun kv => kv.1 ++ "=" ++ kv.2.str) ++ "}"

def Outcome.str (abort : Bool) (cc : Option Int) : Outcome → String
  | .done v => s!"R done obj={v.str}"
  | .silent => "R done obj=None"
  | .raised e rem => s!"R raised {e.str} rem={hexOfBytes rem}"
  | .depleted => s!"R depleted cc={optIntStr cc}"
  | .superfluous rest v =>
    -- strict mode raises: the object is not delivered
    s!"R superfluous rest={hexOfBytes rest} cc={optIntStr cc} obj={if abort then "None" else v.str}"
  | .crash c _ => s!"R crash {c}"

def Run.lines (abort : Bool) (r : Run) : List String :=
  r.events.map (fun (k, e) => e.str k) ++ [r.outcome.str abort r.cc]
