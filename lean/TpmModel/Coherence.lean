import TpmModel.Message
/-!
# Coherence predicates over the layout tables (C20)

Executable, so that the same predicates are decided by the kernel for the generated tables
(`decide +kernel` in `TpmProofs/Props/C20.lean`) and can be evaluated by the driver.
-/

structure Tables where
  prims : List Prim
  types : List Ty
  structures : List Ty
  cc : List (String × Int)
  cmdHandles : List (Int × Ty)
  cmdParams : List (Int × Ty)
  rspHandles : List (Int × Ty)
  rspParams : List (Int × Ty)
  commandFields : List (String × String)
  responseFields : List (String × String)
  commandSelectors : List (String × String)
  sessionsTag : Int
  rcSuccess : Int
  deriving DecidableEq

/-! ### naming rule, on code points (string functions are far too slow in the kernel) -/

def upperCode (c : Nat) : Nat := if 97 ≤ c ∧ c ≤ 122 then c - 32 else c
/-- drop `_`, upper-case -/
def normCodes (cs : List Nat) : List Nat := (cs.filter (· != 95)).map upperCode

/-- `TPMS_COMMAND_HANDLES_NV_UNDEFINE_SPACE_SPECIAL` is named after `NV_UndefineSpaceSpecial` -/
def namedAfter (pre cc tn : List Nat) : Bool :=
  pre.isPrefixOf tn && normCodes (tn.drop pre.length) == normCodes cc

def distinctInt : List Int → Bool
  | [] => true
  | x :: xs => !(xs.contains x) && distinctInt xs

/-- every command code has exactly one entry (keys distinct, as many entries as command codes, every
command code present), and the entry's class is named after the command -/
def mapOk (pre : List Nat) (cc : List (List Nat × Int)) (m : List (Int × List Nat)) : Bool :=
  distinctInt (m.map (·.1)) && m.length == cc.length &&
  cc.all fun nv =>
    match m.find? (fun kt => kt.1 == nv.2) with
    | some kt => namedAfter pre nv.1 kt.2
    | none => false

def codesOf (s : String) : List Nat := s.toList.map Char.toNat

def Fields.allHandle : Fields → Bool
  | .nil => true
  | .cons _ .plain (.prim p) rest => p.size == 4 && rest.allHandle
  | .cons _ _ _ _ => false

/-- at most three fields, each a 4-byte primitive -/
def handleAreaOk : Ty → Bool
  | .struct _ _ fs => decide (fs.length ≤ 3) && fs.allHandle
  | _ => false

def Ty.isUnsignedPrim : Ty → Bool
  | .prim p => !p.signed
  | _ => false

def VItem.known : VItem → Bool
  | .unknown _ => false
  | _ => true

def Prim.known (p : Prim) : Bool := p.valid.all VItem.known && p.members.all VItem.known

/-- does every value of valid item `it` select a member of a union with these keys? -/
def itemSelects (keys : List (String × Key)) (it : VItem) : Bool :=
  let fb := (selectArm keys none).isSome
  match it with
  | .member _ _ v _ _ => (selectArm keys (some v)).isSome
  | .int v => (selectArm keys (some v)).isSome
  | .range lo hi => fb || (decide (hi - lo ≤ 4096) &&
      (List.range (hi - lo).toNat).all fun i => (selectArm keys (some (lo + i))).isSome)
  | .named _ _ lo hi _ _ _ => fb || (decide (hi - lo ≤ 4096) &&
      (List.range (hi - lo).toNat).all fun i => (selectArm keys (some (lo + i))).isSome)
  | .unknown _ => false

def Ty.unionKeys? : Ty → Option (List (String × Key))
  | .union _ arms => some arms.keys
  | _ => none

/-- earlier primitive fields (name, prim), most recent last -/
abbrev Earlier := List (String × Prim)

def selectorOk (earlier : Earlier) (sel : String) (t : Ty) : Bool :=
  match earlier.find? (·.1 == sel), t.unionKeys? with
  | some (_, p), some keys => p.valid.all (itemSelects keys)
  | _, _ => false

mutual
/-- no untranslatable shape anywhere -/
def Ty.known : Ty → Bool
  | .prim p => p.known
  | .struct _ _ fs => fs.known
  | .tpm2bBytes _ _ szP _ elem => szP.known && elem.known
  | .tpm2b _ _ szP _ body => szP.known && body.known
  | .union _ arms => arms.known
  | .bad _ => false
def Fields.known : Fields → Bool
  | .nil => true
  | .cons _ _ t rest => t.known && rest.known
def Arms.known : Arms → Bool
  | .nil => true
  | .consNone _ _ rest => rest.known
  | .cons _ _ t rest => t.known && rest.known
  | .consBytes _ _ elem _ rest => elem.known && rest.known
end

mutual
/-- every counted list directly follows an unsigned primitive field -/
def Ty.countedOk : Ty → Bool
  | .struct _ _ fs => fs.countedOk false
  | .tpm2b _ _ _ _ body => body.countedOk
  | .union _ arms => arms.countedOk
  | _ => true
def Fields.countedOk : Fields → Bool → Bool
  | .nil, _ => true
  | .cons _ .counted t rest, prevUnsigned => prevUnsigned && t.countedOk && rest.countedOk false
  | .cons _ .plain t rest, _ => t.countedOk && rest.countedOk t.isUnsignedPrim
  | .cons _ (.selected _) t rest, _ => t.countedOk && rest.countedOk false
def Arms.countedOk : Arms → Bool
  | .nil => true
  | .consNone _ _ rest => rest.countedOk
  | .cons _ _ t rest => t.countedOk && rest.countedOk
  | .consBytes _ _ _ _ rest => rest.countedOk
end

mutual
/-- every union field names an earlier primitive field whose every valid value selects a member;
unions occur only as selected fields -/
def Ty.selectorsOk : Ty → Bool
  | .struct _ _ fs => fs.selectorsOk []
  | .tpm2b _ _ _ _ body => body.selectorsOk
  | .union _ arms => arms.selectorsOk
  | _ => true
def Fields.selectorsOk : Fields → Earlier → Bool
  | .nil, _ => true
  | .cons _ (.selected sel) t rest, earlier => selectorOk earlier sel t && t.selectorsOk && rest.selectorsOk earlier
  | .cons f .plain (.prim p) rest, earlier => rest.selectorsOk (earlier ++ [(f, p)])
  | .cons _ _ t rest, earlier => t.unionKeys?.isNone && t.selectorsOk && rest.selectorsOk earlier
def Arms.selectorsOk : Arms → Bool
  | .nil => true
  | .consNone _ _ rest => rest.selectorsOk
  | .cons _ _ t rest => t.unionKeys?.isNone && t.selectorsOk && rest.selectorsOk
  | .consBytes _ _ _ _ rest => rest.selectorsOk
end

def Arms.listSizesOk : Arms → Bool
  | .nil => true
  | .consNone _ _ rest => rest.listSizesOk
  | .cons _ _ _ rest => rest.listSizesOk
  | .consBytes _ _ _ n rest => n.isSome && rest.listSizesOk

mutual
/-- every list-valued member of a union that is reachable from a structure has its fixed length -/
def Ty.listSizeOk : Ty → Bool
  | .struct _ _ fs => fs.listSizeOk
  | .tpm2b _ _ _ _ body => body.listSizeOk
  | _ => true
def Fields.listSizeOk : Fields → Bool
  | .nil => true
  | .cons _ _ (.union _ arms) rest => arms.listSizesOk && arms.listSizeOk && rest.listSizeOk
  | .cons _ _ t rest => t.listSizeOk && rest.listSizeOk
def Arms.listSizeOk : Arms → Bool
  | .nil => true
  | .consNone _ _ rest => rest.listSizeOk
  | .cons _ _ t rest => t.listSizeOk && rest.listSizeOk
  | .consBytes _ _ _ _ rest => rest.listSizeOk
end

def isStructTy : Ty → Bool
  | .struct _ _ _ => true
  | _ => false

def Tables.areas (tb : Tables) : List Ty :=
  (tb.cmdHandles ++ tb.cmdParams ++ tb.rspHandles ++ tb.rspParams).map (·.2)

def expectedCommandFields : List (String × String) :=
  [("tag", "TPMI_ST_COMMAND_TAG"), ("commandSize", "UINT32"), ("commandCode", "TPM_CC"), ("handles", "Any"),
   ("authSize", "UINT32"), ("authorizationArea", "list:TPMS_AUTH_COMMAND"), ("parameters", "Any")]
def expectedResponseFields : List (String × String) :=
  [("tag", "TPM_ST"), ("responseSize", "UINT32"), ("responseCode", "TPM_RC"), ("handles", "Any"),
   ("parameterSize", "UINT32"), ("parameters", "Any"), ("authorizationArea", "list:TPMS_AUTH_RESPONSE")]

/-- the message framing the hand-written `decodeCommand`/`decodeResponse` assume -/
def Tables.framingOk (tb : Tables) : Bool :=
  tb.commandFields == expectedCommandFields && tb.responseFields == expectedResponseFields &&
  tb.commandSelectors == [("handles", "commandCode"), ("parameters", "commandCode")]

def Tables.handlesOk (tb : Tables) : Bool :=
  (tb.cmdHandles ++ tb.rspHandles).all fun kt => handleAreaOk kt.2

def Tables.all (tb : Tables) : List Ty := tb.types
