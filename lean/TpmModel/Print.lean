import TpmModel.Dec
import TpmModel.Prim
/-!
# Printers (C14): `io/pretty/unmarshal.py` and `io/events/unmarshal.py`

Rows are kept structured (type column, indentation depth, name column, hex column, value column); the final
string padding and the colour codes are not modelled.
-/

inductive Row where
  | field (typeName : String) (depth : Nat) (name : String) (hex : List Byte) (value : String)
  /-- `format_info(event)`: the `k`-th info event of the stream (in event order) -/
  | info (k : Nat)
  deriving DecidableEq, Repr

structure PrintEnv where
  /-- class of a primitive value, by name -/
  prim : String → Option Prim
  rc : Nat → Option String
  /-- `TPM_RC.attributes()` rows for a value -/
  rcRows : Nat → List (String × Nat)
  /-- the free-text details of those rows (row name, text up to the colon) -/
  rcDetails : Nat → List (String × String) := fun _ => []

def PathNode.last (p : Path) : String := (p.getLast?.map PathNode.str).getD ""

def typeNameOf (t : TyTag) : String :=
  match t with
  | .named n _ => n
  | .listOf e => "list[" ++ e ++ "]"

/-- `to_bytes(event)` of `io/binary/unmarshal.py` -/
def eventBytes (env : PrintEnv) (m : MEvent) : Except String (List Byte) :=
  match m.val with
  | none => .ok []
  | some x =>
    match env.prim m.vclass with
    | some p => .ok (p.toBytes x)
    | none => .error "AttributeError"

def valueText (env : PrintEnv) (m : MEvent) : String :=
  match m.val with
  | none => ""
  | some x =>
    match env.prim m.vclass with
    | some p => p.format env.rc x
    | none => toString x

/-- `pretty(event)` for a marshal event -/
def prettyRow (env : PrintEnv) (m : MEvent) : Except String Row :=
  (eventBytes env m).map fun bs => .field (typeNameOf m.ty) (m.path.length - 1) ("." ++ PathNode.last m.path) bs (valueText env m)

/-- `pretty_attrs(event)`: one row per field of an attribute word -/
def attrRows (env : PrintEnv) (m : MEvent) : List Row :=
  match m.val, env.prim m.vclass with
  | some x, some p =>
    let masks := match p.flavour with
      | .bitfield => p.masks
      | .rc => env.rcRows x.toNat
      | _ => []
    let details := match p.flavour with
      | .rc => env.rcDetails x.toNat
      | _ => []
    masks.map fun nm =>
      let d := match details.find? (·.1 == nm.1) with
        | some (_, t) => "  " ++ t
        | none => ""
      .field "" m.path.length ("." ++ nm.1) [] (bitsRow (8 * p.size) nm.2 x.toNat ++ d)
  | _, _ => []

def isChild (parent child : Path) : Bool :=
  parent.dropLast == child.dropLast && (parent.getLast?.map (·.name)) == (child.getLast?.map (·.name))

def printable (bs : List Byte) : String :=
  String.ofList (bs.map fun b => if 32 ≤ b ∧ b ≤ 126 then Char.ofNat b.toNat else '.')

/-- the byte-buffer branch of `pretty_list_elems`: fold the children into one row; info events met on the way
are shown after the buffer's row.  Returns the rows, the first non-child event (if any) and the rest. -/
def foldBytes (env : PrintEnv) (parent : MEvent) : List Event → Nat → List Byte → List Row →
    Except String (List Row × Option MEvent × List Event × Nat)
  | [], k, buf, infos =>
    .ok (.field (typeNameOf parent.ty) (parent.path.length - 1) ("." ++ PathNode.last parent.path) buf (printable buf) :: infos.reverse,
         none, [], k)
  | .warning _ :: rest, k, buf, infos => foldBytes env parent rest (k + 1) buf (.info k :: infos)
  | .marshal c :: rest, k, buf, infos =>
    if isChild parent.path c.path then
      match eventBytes env c, c.val with
      | .ok bs, some _ => foldBytes env parent rest k (buf ++ bs) infos
      | _, _ => .error "AttributeError"
    else
      .ok (.field (typeNameOf parent.ty) (parent.path.length - 1) ("." ++ PathNode.last parent.path) buf (printable buf) :: infos.reverse,
           some c, rest, k)

/-- the other branch of `pretty_list_elems` (lists of structures / non-BYTE primitives) -/
def foldElems (env : PrintEnv) (parent : MEvent) : List Event → Nat → Bool → List Row →
    Except String (List Row × Option MEvent × List Event × Nat)
  | [], k, isEmpty, rows =>
    if isEmpty then (prettyRow env parent).map fun r => ((r :: rows).reverse, none, [], k)
    else .ok (rows.reverse, none, [], k)
  | .warning _ :: rest, k, isEmpty, rows => foldElems env parent rest (k + 1) isEmpty (.info k :: rows)
  | .marshal c :: rest, k, isEmpty, rows =>
    if isChild parent.path c.path then
      match prettyRow env c with
      | .ok r => foldElems env parent rest k false (r :: rows)
      | .error e => .error e
    else if isEmpty then (prettyRow env parent).map fun r => ((r :: rows).reverse, some c, rest, k)
    else .ok (rows.reverse, some c, rest, k)

def isListParent (m : MEvent) : Bool :=
  match m.ty, m.val with
  | .listOf _, none => true
  | _, _ => false

def hasAttrs (env : PrintEnv) (m : MEvent) : Bool :=
  match m.val, env.prim m.vclass with
  | some _, some p => (match p.flavour with | .bitfield => true | .rc => true | _ => false)
  | _, _ => false

/-- `pretty_list_elems(parent, events)`: byte buffers are folded, other lists print their elements -/
def foldList (env : PrintEnv) (m : MEvent) (rest : List Event) (k : Nat) :
    Except String (List Row × Option MEvent × List Event × Nat) :=
  match m.ty with
  | .listOf "BYTE" => foldBytes env m rest k [] []
  | _ => foldElems env m rest k true []

/-- `Pretty.unmarshal(events)` -/
def prettyGo (env : PrintEnv) : Nat → List Event → Nat → Except String (List Row)
  | 0, _, _ => .error "ModelError"
  | _, [], _ => .ok []
  | fuel+1, .warning _ :: rest, k => (prettyGo env fuel rest (k + 1)).map fun rs => .info k :: rs
  | fuel+1, .marshal m :: rest, k =>
    if isListParent m then
      match foldList env m rest k with
      | .error e => .error e
      | .ok (rows, none, _, _) => .ok rows
      | .ok (rows, some nxt, rest', k') =>
        -- the event that ended the list is shown as a plain row (it is not examined for being a list itself)
        match prettyRow env nxt with
        | .error e => .error e
        | .ok r =>
          (prettyGo env fuel rest' k').map fun rs =>
            rows ++ [r] ++ (if hasAttrs env nxt then attrRows env nxt else []) ++ rs
    else
      match prettyRow env m with
      | .error e => .error e
      | .ok r => (prettyGo env fuel rest k).map fun rs => [r] ++ (if hasAttrs env m then attrRows env m else []) ++ rs

def prettyRows (env : PrintEnv) (evs : List Event) : Except String (List Row) := prettyGo env (evs.length + 1) evs 0

/-- `Events.unmarshal(events)`: (type column, path, value text) per marshal event, info events as info rows -/
inductive ERow where
  | field (typeName : String) (path : String) (value : String)
  | info (k : Nat)
  deriving DecidableEq, Repr

def eventsRows (env : PrintEnv) : List Event → Nat → List ERow
  | [], _ => []
  | .warning _ :: rest, k => .info k :: eventsRows env rest (k + 1)
  | .marshal m :: rest, k =>
    .field (typeNameOf m.ty) m.path.str (match m.val with | none => "..." | some _ => valueText env m) :: eventsRows env rest k

/-! ## the shape of event streams on which the pretty printer cannot fail (C14) -/

/-- the run of events after a byte-buffer parent that the printer folds into the buffer's row: up to the first marshal event
that is not a child (same parent path, same name), every child carries a value -/
def bytesRun (parent : Path) : List Event → Bool
  | [] => true
  | .warning _ :: rest => bytesRun parent rest
  | .marshal c :: rest => if isChild parent c.path then c.val.isSome && bytesRun parent rest else true

/-- every byte-buffer parent of the stream is followed by such a run -/
def kidsOk : List Event → Bool
  | [] => true
  | .warning _ :: rest => kidsOk rest
  | .marshal p :: rest => (if p.ty = .listOf "BYTE" then bytesRun p.path rest else true) && kidsOk rest

/-- a value event's class is a known primitive class -/
def resolvesB (env : PrintEnv) : Event → Bool
  | .marshal m => m.val.isNone || (env.prim m.vclass).isSome
  | .warning _ => true

def shapedB (env : PrintEnv) (evs : List Event) : Bool := evs.all (resolvesB env) && kidsOk evs

/-- the first marshal event after a list parent that is not one of its children: the event that ends the list's run -/
def firstNonChild (parent : Path) : List Event → Option MEvent
  | [] => none
  | .warning _ :: rest => firstNonChild parent rest
  | .marshal c :: rest => if isChild parent c.path then firstNonChild parent rest else some c

/-- a byte-buffer parent: `list[BYTE]` without a value -/
def isBufParent (m : MEvent) : Bool := isListParent m && decide (m.ty = .listOf "BYTE")

/-- no list's run is ended by a byte-buffer parent (the printer shows the event that ends a run as a plain row without examining
it: a buffer there would be shown byte by byte; another list there - the session area after a response's last buffer - only gets
its own row shown as well) -/
def endsOk : List Event → Bool
  | [] => true
  | .warning _ :: rest => endsOk rest
  | .marshal p :: rest =>
    (if isListParent p then (match firstNonChild p.path rest with | some c => !isBufParent c | none => true) else true) && endsOk rest

/-- what the driver reports per stream (`K` line): the hypothesis of the totality theorem and of `c14_lists_are_blocks` -/
def shownB (env : PrintEnv) (evs : List Event) : Bool := shapedB env evs && endsOk evs

