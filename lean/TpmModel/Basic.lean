/-!
# Basic data of the tpmstream model

Layout tables (`Prim`, `Ty`/`Fields`/`Arms`), events, errors.  No imports outside core, so that the
driver links as a `lean_exe`.
-/

abbrev Byte := UInt8

structure PathNode where
  name : String
  idx : Option Nat := none
  deriving DecidableEq, Repr, Inhabited

abbrev Path := List PathNode

def rootPath : Path := [⟨"", none⟩]

def PathNode.str (n : PathNode) : String :=
  match n.idx with
  | none => n.name
  | some i => n.name ++ "[" ++ toString i ++ "]"

/-- `Path.__repr__`: nodes joined with "." -/
def Path.str (p : Path) : String := ".".intercalate (p.map PathNode.str)

/-- One item of a `ValidValues(...)`, with enum classes flattened into their members in the order
`inspect.getmembers` returns them.  `osize`/`osigned` are the width and signedness of the class that
owns the member (Python's `to_bytes` delegates to it). -/
inductive VItem where
  | range (lo hi : Int)                                   -- `range(lo, hi)`, hi exclusive
  | named (owner base : String) (lo hi : Int) (nibbles : Nat) (osize : Nat) (osigned : Bool)
  | member (owner name : String) (v : Int) (osize : Nat) (osigned : Bool)
  | int (v : Int)
  | unknown (repr : String)
  deriving DecidableEq, Repr, Inhabited

def VItem.has : VItem → Int → Bool
  | .range lo hi, x => decide (lo ≤ x) && decide (x < hi)
  | .named _ _ lo hi _ _ _, x => decide (lo ≤ x) && decide (x < hi)
  | .member _ _ v _ _, x => decide (x = v)
  | .int v, x => decide (x = v)
  | .unknown _, _ => false

inductive Flavour where
  | int        -- `_INT.__init__` (looks the value up in `_valid_values`)
  | enum       -- `@tpm_enum` (`by_value` over the class members)
  | bitfield   -- `@tpm_bitfield()`
  | rc         -- `TPM_RC`
  deriving DecidableEq, Repr, Inhabited

structure Prim where
  name : String
  size : Nat
  signed : Bool
  flavour : Flavour
  /-- flattened `_valid_values._values` -/
  valid : List VItem
  /-- enum flavour: the class members in `by_value` order -/
  members : List VItem
  /-- bitfield flavour: `attributes()` (name, mask) in the order returned -/
  masks : List (String × Nat)
  deriving DecidableEq, Repr, Inhabited

def Prim.isValid (p : Prim) (x : Int) : Bool := p.valid.any (·.has x)

inductive FKind where
  | plain
  | counted                    -- `list[T]`, count = last non-list value decoded so far
  | selected (sel : String)    -- union member, `_selectors[field] = sel`
  deriving DecidableEq, Repr, Inhabited

/-- key of a union arm in `_selected_by` -/
inductive Key where
  | int (v : Int)
  | fallback              -- `None`
  | unmatchable           -- a class object such as `TPM_KEY_BITS`, or no entry at all
  deriving DecidableEq, Repr, Inhabited

mutual
inductive Ty where
  | prim (p : Prim)
  | struct (name : String) (isParams : Bool) (fs : Fields)
  /-- `TPM2B_*` whose second field is `list[elem]` -/
  | tpm2bBytes (name szName : String) (szP : Prim) (bufName : String) (elem : Prim)
  /-- `TPM2B_*` whose second field is a structure -/
  | tpm2b (name szName : String) (szP : Prim) (bufName : String) (body : Ty)
  | union (name : String) (arms : Arms)
  /-- a shape the translator could not classify -/
  | bad (repr : String)
  deriving DecidableEq, Repr
inductive Fields where
  | nil
  | cons (fname : String) (kind : FKind) (t : Ty) (rest : Fields)
  deriving DecidableEq, Repr
inductive Arms where
  | nil
  /-- member of type `None` -/
  | consNone (an : String) (key : Key) (rest : Arms)
  | cons (an : String) (key : Key) (t : Ty) (rest : Arms)
  /-- member of type `list[elem]` with `_list_size[an] = n` (none: no entry) -/
  | consBytes (an : String) (key : Key) (elem : Prim) (n : Option Nat) (rest : Arms)
  deriving DecidableEq, Repr
end

instance : Inhabited Ty := ⟨.bad "default"⟩

def Ty.name : Ty → String
  | .prim p => p.name
  | .struct n _ _ => n
  | .tpm2bBytes n _ _ _ _ => n
  | .tpm2b n _ _ _ _ => n
  | .union n _ => n
  | .bad r => r

def Arms.keys : Arms → List (String × Key)
  | .nil => []
  | .consNone an key rest => (an, key) :: rest.keys
  | .cons an key _ rest => (an, key) :: rest.keys
  | .consBytes an key _ _ rest => (an, key) :: rest.keys

def Fields.names : Fields → List String
  | .nil => []
  | .cons f _ _ rest => f :: rest.names

def Fields.length : Fields → Nat
  | .nil => 0
  | .cons _ _ _ rest => rest.length + 1

/-- declared type of an event -/
inductive TyTag where
  | named (n : String) (enc : Bool)      -- class `n`; `enc`: the synthesized encrypted-parameters variant
  | listOf (elem : String)               -- `list[elem]`
  deriving DecidableEq, Repr, Inhabited

def TyTag.str : TyTag → String
  | .named n false => n
  | .named n true => n ++ "~enc"
  | .listOf e => "list[" ++ e ++ "]"

structure MEvent where
  path : Path
  ty : TyTag
  /-- `none` = `...` -/
  val : Option Int
  /-- class of the value object (primitives only; "" for `...`) -/
  vclass : String
  /-- declared width in bytes of a primitive event's type (0 for `...` events) -/
  width : Nat
  deriving DecidableEq, Repr, Inhabited


inductive Err where
  | value (path : Path) (ty : String) (x : Int)
  /-- a value constraint violated by an absent value (`None`): no command code / selector to look a layout up with -/
  | valueNone (path : Path) (ty : String)
  | exceeded (cid : Nat) (cpath : Path) (max already : Nat) (violator : Path) (by_ : Nat)
  | subceeded (cid : Nat) (cpath : Path) (max already : Nat)
  | anticipated (cid : Nat) (cpath : Path) (max already : Nat) (violator : Path) (v : Nat) (by_ : Nat)
  | depleted
  | crash (pyClass : String) (site : String)
  deriving DecidableEq, Repr, Inhabited

def Err.isCrash : Err → Bool
  | .crash _ _ => true
  | _ => false

inductive Event where
  | marshal (e : MEvent)
  | warning (e : Err)
  deriving DecidableEq, Repr, Inhabited

/-- decoded value / Python object -/
inductive Val where
  | int (cls : String) (x : Int)
  | obj (tyName : String) (enc : Bool) (fields : List (String × Val))
  | list (es : List Val)
  | none
  deriving Repr, Inhabited

def Val.asInt? : Val → Option Int
  | .int _ x => some x
  | _ => Option.none

def Val.isNone : Val → Bool
  | .none => true
  | _ => false

def Val.isList : Val → Bool
  | .list _ => true
  | _ => false

/-! ## big-endian integers -/

def fromBE (bs : List Byte) : Nat := bs.foldl (fun acc b => acc * 256 + b.toNat) 0

def toBE : Nat → Nat → List Byte
  | 0, _ => []
  | k+1, n => toBE k (n / 256) ++ [UInt8.ofNat (n % 256)]

/-- `int.from_bytes(bs, "big", signed=signed)` for `|bs| = size` -/
def intOfBytes (size : Nat) (signed : Bool) (bs : List Byte) : Int :=
  let n := fromBE bs
  if signed && decide (2 ^ (8 * size - 1) ≤ n) then (n : Int) - ((2 ^ (8 * size) : Nat) : Int) else (n : Int)

/-- `x.to_bytes(size, "big", signed=signed)` for in-range `x` (two's complement) -/
def intToBytes (size : Nat) (x : Int) : List Byte :=
  toBE size (x % ((2 ^ (8 * size) : Nat) : Int)).toNat

/-- `Binary.unmarshal` of one event, at the declared width -/
def MEvent.bytes (e : MEvent) : List Byte :=
  match e.val with
  | some x => intToBytes e.width x
  | none => []

def inRange (size : Nat) (signed : Bool) (x : Int) : Bool :=
  if signed then decide (0 < size) && decide (-((2 ^ (8 * size - 1) : Nat) : Int) ≤ x) && decide (x < ((2 ^ (8 * size - 1) : Nat) : Int))
  else decide (0 ≤ x) && decide (x < ((2 ^ (8 * size) : Nat) : Int))

def Prim.ofBytes (p : Prim) (bs : List Byte) : Int := intOfBytes p.size p.signed bs

/-- first item of `valid` (int flavour) that contains `x` — `ValidValues.get` -/
def Prim.getItem (p : Prim) (x : Int) : Option VItem := p.valid.find? (·.has x)

/-- first class member that matches — `tpm_enum.by_value` -/
def Prim.byValue (p : Prim) (x : Int) : Option VItem := p.members.find? (·.has x)

/-- width and signedness Python's `to_bytes` ends up using for value `x` of type `p`:
int flavour delegates to the matched enum instance, everything else uses the type's own. -/
def Prim.wireOf (p : Prim) (x : Int) : Nat × Bool :=
  match p.flavour with
  | .int =>
    match p.getItem x with
    | some (.named _ _ _ _ _ os og) => (os, og)
    | some (.member _ _ _ os og) => (os, og)
    | _ => (p.size, p.signed)
  | _ => (p.size, p.signed)

/-- `value.to_bytes()` of the typed integer, for `x` within the width used -/
def Prim.toBytes (p : Prim) (x : Int) : List Byte := intToBytes (p.wireOf x).1 x
