import TpmModel.Prim
/-! Specification of response-code classification, on bit positions (TPM 2.0 Part 2 §6.6). -/
namespace C18

/-- bits `hi..lo` of `v` as a number -/
def field (v hi lo : Nat) : Nat := (v / 2 ^ lo) % 2 ^ (hi - lo + 1)

/-- The specification's reading (Part 2 §6.6), on bit positions: zero is SUCCESS; neither bit 7 nor
bit 8: a TPM 1.2 code; bit 7 (format) set: format-one, error number in bits 5:0, attributed to
parameter N = bits 11:8 if bit 6 is set, else session N = bits 10:8 if bit 11 is set, else handle
N = bits 10:8; bit 7 clear: vendor-defined if bit 10 is set, else a warning (bit 11 set) or an error
whose number is bits 6:0. -/
def rcSpec (v : Nat) : RcClass :=
  if v = 0 then .success
  else if !v.testBit 7 && !v.testBit 8 then .tpm12
  else if v.testBit 7 then
    .named .fmt1 (field v 5 0)
      (if v.testBit 6 then .parameter (field v 11 8)
       else if v.testBit 11 then .session (field v 10 8)
       else .handle (field v 10 8))
  else if v.testBit 10 then .vendor
  else if v.testBit 11 then .named .fmt0Warn (field v 6 0) .none
  else .named .fmt0Err (field v 6 0) .none

end C18
