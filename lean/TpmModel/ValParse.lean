import TpmModel.Ser
/-! Parser for value trees sent by the harness:
`I(cls,x)` | `N` | `L(v;v;…)` | `O(name,0|1,f=v;f=v;…)` — no spaces. -/

abbrev PR (α : Type) := Option (α × List Char)

def takeUntil (stop : Char → Bool) : List Char → List Char → (List Char × List Char)
  | [], acc => (acc.reverse, [])
  | c :: cs, acc => if stop c then (acc.reverse, c :: cs) else takeUntil stop cs (c :: acc)

def expect (c : Char) : List Char → Option (List Char)
  | d :: cs => if c == d then some cs else none
  | [] => none

mutual
partial def parseVal : List Char → PR Val
  | 'N' :: cs => some (.none, cs)
  | 'I' :: '(' :: cs =>
    let (cls, r) := takeUntil (· == ',') cs []
    match expect ',' r with
    | none => none
    | some r =>
      let (num, r) := takeUntil (· == ')') r []
      match (String.ofList num).toInt?, expect ')' r with
      | some x, some r => some (.int (String.ofList cls) x, r)
      | _, _ => none
  | 'L' :: '(' :: cs => (parseList cs []).map fun (vs, r) => (.list vs, r)
  | 'O' :: '(' :: cs =>
    let (name, r) := takeUntil (· == ',') cs []
    match expect ',' r with
    | some (e :: r) =>
      match expect ',' r with
      | some r => (parseFields r []).map fun (fs, r) => (.obj (String.ofList name) (e == '1') fs, r)
      | none => none
    | _ => none
  | _ => none

partial def parseList : List Char → List Val → PR (List Val)
  | ')' :: cs, acc => some (acc.reverse, cs)
  | ';' :: cs, acc => parseList cs acc
  | cs, acc =>
    match parseVal cs with
    | some (v, r) => parseList r (v :: acc)
    | none => none

partial def parseFields : List Char → List (String × Val) → PR (List (String × Val))
  | ')' :: cs, acc => some (acc.reverse, cs)
  | ';' :: cs, acc => parseFields cs acc
  | cs, acc =>
    let (fname, r) := takeUntil (· == '=') cs []
    match expect '=' r with
    | none => none
    | some r =>
      match parseVal r with
      | some (v, r) => parseFields r ((String.ofList fname, v) :: acc)
      | none => none
end

def parseValStr (s : String) : Option Val :=
  match parseVal s.toList with
  | some (v, []) => some v
  | _ => none
