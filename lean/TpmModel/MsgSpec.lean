import TpmModel.Spec
import TpmModel.Message
/-!
# Layer S for messages: what a well-formed command / response is

A command is: tag (from the tag type's set), commandSize = total length, commandCode with an entry in both command
maps, the handle area of that command, — iff the tag is `SESSIONS` — authSize = byte length of the session area and
at least the sessions themselves (each non-empty), and the parameter area of that command, read with an opaque
first parameter iff some session has `decrypt` set (and the area starts with a TPM2B).
A response is the analogue, with `parameterSize`, the sessions after the parameters, and nothing after the header
when the response code is not SUCCESS.
-/

/-- the handle / parameter area as decoded with encryption flag `enc` -/
def specArea (tb : MsgTables) (enc : Bool) (t : Ty) (path : Path) (v : Val) : Option (List Byte × List SEv) :=
  if enc && t.isParams then
    match encVariant tb.encParam t with
    | none => spec t path none v
    | some (name, fs) =>
      match v.asObj name true with
      | none => none
      | some fvs => (specFields fs path [] fvs).map fun (b, e) => (b, (0, ⟨path, .named name true, none, "", 0⟩) :: e)
  else spec t path none v

/-- one session: conforming, with a non-empty encoding -/
def sessSpec (t : Ty) : Path → Val → Option (List Byte × List SEv) := fun p v =>
  match spec t p none v with
  | some (b, e) => if b.isEmpty then none else some (b, e)
  | none => none

/-- the session area: the sessions one after the other -/
def specSessions (t : Ty) (path : Path) (v : Val) : Option (List Byte × List SEv) :=
  match v.asList with
  | none => none
  | some vs =>
    (specRepeat (sessSpec t) path vs 0).map fun (b, e) =>
      (b, (0, ⟨path, .listOf t.name, none, "", 0⟩) :: e)

structure CmdParts where
  tag : Val
  csz : Val
  ccv : Val
  hv : Val
  /-- `authSize` and `authorizationArea`, present iff the tag is `SESSIONS` -/
  auth : Option (Val × Val)
  pv : Val
  deriving Repr

def CmdParts.toVal (p : CmdParts) : Val :=
  .obj "Command" false
    ([("tag", p.tag), ("commandSize", p.csz), ("commandCode", p.ccv), ("handles", p.hv)] ++
     (match p.auth with
      | some (a, ar) => [("authSize", a), ("authorizationArea", ar)]
      | none => []) ++
     [("parameters", p.pv)])

/-- the session part of a command: (bytes, events, does a session request parameter decryption) -/
def specCmdAuth (tb : MsgTables) (path : Path) (sess : Bool) (auth : Option (Val × Val)) :
    Option (List Byte × List SEv × Bool) :=
  match sess, auth with
  | false, none => some ([], [], false)
  | true, some (asz, area) =>
    match specPrim tb.authSize (path ++ [⟨"authSize", none⟩]) asz,
          specSessions tb.authCmd (path ++ [⟨"authorizationArea", none⟩]) area,
          areaFlag tb.authCmd "decrypt" area with
    | some (ba, ea), some (bs, es), .ok enc =>
      if vInt asz = some (bs.length : Int) then some (ba ++ bs, ea ++ shift ba.length es, enc) else none
    | _, _, _ => none
  | _, _ => none

def specCommand (tb : MsgTables) (path : Path) (p : CmdParts) : Option (List Byte × List SEv) :=
  match specPrim tb.tagCmd (path ++ [⟨"tag", none⟩]) p.tag,
        specPrim tb.cmdSize (path ++ [⟨"commandSize", none⟩]) p.csz,
        specPrim tb.cc (path ++ [⟨"commandCode", none⟩]) p.ccv with
  | some (b1, e1), some (b2, e2), some (b3, e3) =>
    let ccI := (vInt p.ccv).getD 0
    match lookupTy tb.cmdHandles ccI, lookupTy tb.cmdParams ccI with
    | some hty, some pty =>
      match spec hty (path ++ [⟨"handles", none⟩]) none p.hv,
            specCmdAuth tb path (vInt p.tag == some tb.sessionsTag) p.auth with
      | some (b4, e4), some (b5, e5, enc) =>
        match specArea tb enc pty (path ++ [⟨"parameters", none⟩]) p.pv with
        | some (b6, e6) =>
          let bytes := b1 ++ (b2 ++ (b3 ++ (b4 ++ (b5 ++ b6))))
          if vInt p.csz = some (bytes.length : Int) then
            some (bytes,
              (0, ⟨path, .named "Command" false, none, "", 0⟩) ::
                (e1 ++ shift b1.length (e2 ++ shift b2.length (e3 ++ shift b3.length
                  (e4 ++ shift b4.length (e5 ++ shift b5.length e6))))))
          else none
        | none => none
      | _, _ => none
    | _, _ => none
  | _, _, _ => none

/-! ## responses -/

structure RspBody where
  hv : Val
  /-- `parameterSize`, present iff the tag is `SESSIONS` -/
  psz : Option Val
  pv : Val
  /-- the response sessions, present iff the tag is `SESSIONS` -/
  area : Option Val
  deriving Repr

structure RspParts where
  tag : Val
  rsz : Val
  rcv : Val
  /-- everything after the header; absent iff the response code is not SUCCESS -/
  body : Option RspBody
  deriving Repr

def RspParts.toVal (p : RspParts) : Val :=
  .obj "Response" false
    ([("tag", p.tag), ("responseSize", p.rsz), ("responseCode", p.rcv)] ++
     (match p.body with
      | none => []
      | some b =>
        [("handles", b.hv)] ++
        (match b.psz with | some z => [("parameterSize", z)] | none => []) ++
        [("parameters", b.pv)] ++
        (match b.area with | some a => [("authorizationArea", a)] | none => [])))

/-- the part of a successful response after the header: (bytes, events) -/
def specRspBody (tb : MsgTables) (enc : Bool) (hty pty : Ty) (path : Path) (sess : Bool) (b : RspBody) :
    Option (List Byte × List SEv) :=
  match specArea tb enc hty (path ++ [⟨"handles", none⟩]) b.hv,
        specArea tb enc pty (path ++ [⟨"parameters", none⟩]) b.pv with
  | some (b4, e4), some (b6, e6) =>
    match sess, b.psz, b.area with
    | false, none, none => some (b4 ++ b6, e4 ++ shift b4.length e6)
    | true, some psz, some area =>
      match specPrim tb.paramSize (path ++ [⟨"parameterSize", none⟩]) psz,
            specSessions tb.authRsp (path ++ [⟨"authorizationArea", none⟩]) area,
            areaFlag tb.authRsp "encrypt" area with
      | some (bp, ep), some (bs, es), .ok flag =>
        if vInt psz = some (b6.length : Int) ∧ flag = enc then
          some (b4 ++ (bp ++ (b6 ++ bs)), e4 ++ shift b4.length (ep ++ shift bp.length (e6 ++ shift b6.length es)))
        else none
      | _, _, _ => none
    | _, _, _ => none
  | _, _ => none

/-- a well-formed response to command `cc`, decoded with parameter-encryption flag `enc` -/
def specResponse (tb : MsgTables) (cc : Option Int) (enc : Bool) (path : Path) (p : RspParts) :
    Option (List Byte × List SEv) :=
  match specPrim tb.tagRsp (path ++ [⟨"tag", none⟩]) p.tag,
        specPrim tb.rspSize (path ++ [⟨"responseSize", none⟩]) p.rsz,
        specPrim tb.rc (path ++ [⟨"responseCode", none⟩]) p.rcv with
  | some (b1, e1), some (b2, e2), some (b3, e3) =>
    let rest : Option (List Byte × List SEv) :=
      if vInt p.rcv != some tb.rcSuccess then
        match p.body with
        | none => some ([], [])
        | some _ => none
      else
        match p.body, cc.bind (lookupTy tb.rspHandles), cc.bind (lookupTy tb.rspParams) with
        | some b, some hty, some pty => specRspBody tb enc hty pty path (vInt p.tag == some tb.sessionsTag) b
        | _, _, _ => none
    match rest with
    | some (br, er) =>
      let bytes := b1 ++ (b2 ++ (b3 ++ br))
      if vInt p.rsz = some (bytes.length : Int) then
        some (bytes,
          (0, ⟨path, .named "Response" false, none, "", 0⟩) ::
            (e1 ++ shift b1.length (e2 ++ shift b2.length (e3 ++ shift b3.length er))))
      else none
    | none => none
  | _, _, _ => none

/-! ## command/response streams -/

/-- well-formed exchanges one after the other, optionally followed by a command whose response has not arrived: each
response is decoded for its command's code, with the encryption flag its command's sessions request -/
def specStream (tb : MsgTables) (path : Path) (last : Option CmdParts) :
    List (CmdParts × RspParts) → Option (List Byte × List SEv)
  | [] =>
    match last with
    | none => some ([], [])
    | some c =>
      match specCommand tb path c, cmdEncrypt tb c.toVal with
      | some (bc, ec), .ok _ => some (bc, ec)
      | _, _ => none
  | (c, r) :: more =>
    match specCommand tb path c, cmdEncrypt tb c.toVal with
    | some (bc, ec), .ok enc =>
      match specResponse tb (vInt c.ccv) enc path r, specStream tb path last more with
      | some (br, er), some (bm, em) =>
        some (bc ++ (br ++ bm), ec ++ shift bc.length (er ++ shift br.length em))
      | _, _ => none
    | _, _ => none

/-- the root event announcing the next message, emitted when the input ends at a message boundary -/
def streamTail (path : Path) (last : Option CmdParts) : MEvent :=
  ⟨path, .named (match last with | none => "Command" | some _ => "Response") false, none, "", 0⟩

/-! ## reading the parts back out of a decoded message (used by the driver to test `spec*` on real messages) -/

def CmdParts.ofVal (v : Val) : Option CmdParts :=
  match v with
  | .obj "Command" false fs =>
    match lookupVal fs "tag", lookupVal fs "commandSize", lookupVal fs "commandCode", lookupVal fs "handles",
          lookupVal fs "parameters" with
    | some tag, some csz, some ccv, some hv, some pv =>
      some ⟨tag, csz, ccv, hv,
        (match lookupVal fs "authSize", lookupVal fs "authorizationArea" with
         | some a, some ar => some (a, ar)
         | _, _ => none), pv⟩
    | _, _, _, _, _ => none
  | _ => none

def RspParts.ofVal (v : Val) : Option RspParts :=
  match v with
  | .obj "Response" false fs =>
    match lookupVal fs "tag", lookupVal fs "responseSize", lookupVal fs "responseCode" with
    | some tag, some rsz, some rcv =>
      some ⟨tag, rsz, rcv,
        (match lookupVal fs "handles", lookupVal fs "parameters" with
         | some hv, some pv => some ⟨hv, lookupVal fs "parameterSize", pv, lookupVal fs "authorizationArea"⟩
         | _, _ => none)⟩
    | _, _, _ => none
  | _ => none

/-- split a stream into its exchanges by decoding message after message (strict mode); `none` if a message
fails to decode or the stream does not end at a message boundary -/
def streamParts (tb : MsgTables) : Nat → List Byte → Option (List (CmdParts × RspParts) × Option CmdParts)
  | 0, _ => none
  | fuel+1, inp =>
    if inp.isEmpty then some ([], none) else
    match decodeCommand true tb rootPath (initSt inp) with
    | .ok (cv, s) =>
      match CmdParts.ofVal cv, cmdEncrypt tb cv with
      | some c, .ok enc =>
        if s.inp.isEmpty then some ([], some c) else
        match decodeResponse true tb (vInt c.ccv) enc rootPath (initSt s.inp) with
        | .ok (rv, s2) =>
          match RspParts.ofVal rv, streamParts tb fuel s2.inp with
          | some r, some (more, last) => some ((c, r) :: more, last)
          | _, _ => none
        | .error _ => none
      | _, _ => none
    | .error _ => none
