import TpmModel.Basic
/-!
# Implementation model of `io/binary/marshal.py` + `common/constraints.py` (Layer M)

Direct-style rendering of the coroutine walkers.  One Lean function per Python function, same order of
effects.  `abort = true` is strict mode (`abort_on_error=True`), `abort = false` is warn mode.

* A request for a byte (`yield None`) is `take`; with the input exhausted the walker stops with
  `Err.depleted` (in Python the coroutine is simply never resumed and the pump reports depletion).
* `St.out` is the trace of emitted events, each stamped with the number of bytes consumed so far;
  everything the byte pump does (look-ahead, superfluous/depleted, remaining bytes) is a function of
  that trace and the final result (`Pump.lean`).
* Every Python operation that can raise an *internal* error is an explicit `Err.crash` here.
* Obsolete size constraints are removed from the list eagerly (Python removes them lazily at the next
  `bytes_parsed`; nothing reads them in between except the second `assert_done` of a response's
  `responseSize`, which is modelled explicitly).
* Object identity of a `SizeConstraint` is an id: the byte offset at which it was created
  (message start for `commandSize`/`responseSize`, message start + 1 for `authSize`/`parameterSize`,
  offset after the size field for a `TPM2B`).
-/

structure SC where
  id : Nat
  path : Path
  already : Nat
  max : Option Nat
  deriving DecidableEq, Repr, Inhabited

structure St where
  inp : List Byte
  pos : Nat
  out : List (Nat × Event)
  scs : List SC
  deriving Repr, Inhabited

abbrev R (α : Type) := Except (Err × St) (α × St)

@[inline] def R.bind {α β : Type} (r : R α) (f : α → St → R β) : R β :=
  match r with
  | .error e => .error e
  | .ok (a, s) => f a s

@[simp] theorem R.bind_ok {α β : Type} (a : α) (s : St) (f : α → St → R β) :
    R.bind (.ok (a, s)) f = f a s := rfl
@[simp] theorem R.bind_error {α β : Type} (e : Err × St) (f : α → St → R β) :
    R.bind (.error e : R α) f = .error e := rfl

def emit (e : Event) (s : St) : St := { s with out := s.out ++ [(s.pos, e)] }
def emitM (e : MEvent) (s : St) : St := emit (.marshal e) s
def emitW (e : Err) (s : St) : St := emit (.warning e) s

def crash {α : Type} (cls site : String) (s : St) : R α := .error (.crash cls site, s)

/-- `n` × (`yield None`): take `n` bytes; stops with `depleted` (everything consumed) if fewer remain -/
def take (n : Nat) (s : St) : R (List Byte) :=
  if s.inp.length < n then .error (.depleted, { s with inp := [], pos := s.pos + s.inp.length })
  else .ok (s.inp.take n, { s with inp := s.inp.drop n, pos := s.pos + n })

/-- `consume_bytes(n)` -/
def consume (n : Nat) (s : St) : R Unit := (take n s).bind fun _ s => .ok ((), s)

def SC.bump (c : SC) (n : Nat) : SC := { c with already := c.already + n }

def SC.over (c : SC) (n : Nat) : Bool :=
  match c.max with
  | some m => decide (m < c.already + n)
  | none => false

/-- `SizeConstraintList.bytes_parsed(path, size)` (not anticipating): outermost first.  When region `c` is
violated it becomes obsolete, the rest of it (`max - already` bytes) is consumed, the enclosing regions —
already charged `size` — are corrected to have been charged only those consumed bytes, the regions opened
inside `c` end with it, then `SizeConstraintExceededError`. -/
def bpGo (path : Path) (size : Nat) : List SC → List SC → St → R Unit
  | done, [], s => .ok ((), { s with scs := done })
  | done, c :: rest, s =>
    if c.over size then
      let consumed := (c.max.getD 0) - c.already
      let outer := done.map fun d => { d with already := d.already - (size - consumed) }
      (consume consumed { s with scs := outer }).bind fun _ s' =>
        .error (.exceeded c.id c.path (c.max.getD 0) c.already path (c.already + size - (c.max.getD 0)), s')
    else bpGo path size (done ++ [c.bump size]) rest s

def bytesParsed (path : Path) (size : Nat) (s : St) : R Unit := bpGo path size [] s.scs s

/-- the anticipation loop of `set_constraint` over the other constraints -/
def anticipate (vpath : Path) (v : Nat) (selfId : Nat) : List SC → Option Err
  | [] => none
  | c :: rest =>
    if c.id = selfId then anticipate vpath v selfId rest
    else if c.over v then
      some (.anticipated c.id c.path (c.max.getD 0) c.already vpath v (c.already + v - (c.max.getD 0)))
    else anticipate vpath v selfId rest

def anticipateM (abort : Bool) (vpath : Path) (v : Nat) (selfId : Nat) (s : St) : R Unit :=
  match anticipate vpath v selfId s.scs with
  | none => .ok ((), s)
  | some e => if abort then .error (e, s) else .ok ((), emitW e s)

/-- `set_constraint` on a fresh constraint followed by `size_constraints.append(...)` -/
def openRegion (abort : Bool) (id : Nat) (cpath : Path) (n : Nat) (s : St) : R Unit :=
  (anticipateM abort cpath n id s).bind fun _ s =>
    .ok ((), { s with scs := s.scs ++ [⟨id, cpath, 0, some n⟩] })

/-- `set_constraint` on a constraint that is already in the list (`commandSize`, `responseSize`) -/
def setListed (abort : Bool) (id : Nat) (cpath : Path) (n : Nat) (s : St) : R Unit :=
  let s := { s with scs := s.scs.map fun c => if c.id = id then { c with path := cpath, max := some n } else c }
  anticipateM abort cpath n id s

def findSC (id : Nat) (scs : List SC) : Option SC := scs.find? (·.id = id)
def removeSC (id : Nat) (scs : List SC) : List SC := scs.filter (fun c => !(c.id = id))

/-- `SizeConstraint.assert_done` given the constraint's current data (`s.scs`: the list without it).
Warn mode: the padding is charged to the enclosing regions like a field (which may overrun one of them),
then consumed. -/
def assertDoneSC (abort : Bool) (c : SC) (s : St) : R Unit :=
  match c.max with
  | none => crash "AssertionError" "assert_done: size_max is None" s
  | some m =>
    if c.already = m then .ok ((), s)
    else
      let e := Err.subceeded c.id c.path m c.already
      if abort then .error (e, s)
      else
        let s := emitW e s
        if c.already < m then (bytesParsed c.path (m - c.already) s).bind fun _ s => consume (m - c.already) s
        else .ok ((), s)

def assertDone (abort : Bool) (id : Nat) (s : St) : R Unit :=
  match findSC id s.scs with
  | none => crash "ModelError" "assert_done on a constraint that left the list" s
  | some c => assertDoneSC abort c { s with scs := removeSC id s.scs }

/-- `process_primitive` -/
def readPrim (abort : Bool) (p : Prim) (path : Path) (s : St) : R Val :=
  (bytesParsed path p.size s).bind fun _ s =>
  (take p.size s).bind fun bs s =>
    let x := p.ofBytes bs
    let ev : MEvent := ⟨path, .named p.name false, some x, p.name, p.size⟩
    if p.isValid x then .ok (.int p.name x, emitM ev s)
    else if abort then .error (.value path p.name x, s)
    else .ok (.int p.name x, emitW (.value path p.name x) (emitM ev s))

def elemPath (path : Path) (i : Nat) : Path :=
  path.dropLast ++ [⟨(path.getLast?.map (·.name)).getD "", some i⟩]

/-- the element loop of `process_array` -/
def repeatDec (f : Path → St → R Val) (path : Path) : Nat → Nat → St → R (List Val)
  | 0, _, s => .ok ([], s)
  | k+1, i, s =>
    (f (elemPath path i) s).bind fun v s =>
    (repeatDec f path k (i+1) s).bind fun vs s => .ok (v :: vs, s)

/-- `process_array` for `list[p]` -/
def readPrimList (abort : Bool) (p : Prim) (path : Path) (count : Nat) (s : St) : R Val :=
  (repeatDec (readPrim abort p) path count 0 (emitM ⟨path, .listOf p.name, none, "", 0⟩ s)).bind fun vs s =>
    .ok (.list vs, s)

/-- `{v: k for k, v in _selected_by.items()}` then lookup: the last arm with that key, else the last
fallback arm -/
def selectArm (keys : List (String × Key)) (sel : Option Int) : Option String :=
  let byKey := match sel with
    | some sv => keys.reverse.find? (fun (a : String × Key) => a.2 == Key.int sv)
    | none => none
  match byKey with
  | some a => some a.1
  | none => (keys.reverse.find? (fun (a : String × Key) => a.2 == Key.fallback)).map (fun a => a.1)

def lookupVal (vals : List (String × Val)) (n : String) : Option Val :=
  (vals.find? (·.1 == n)).map (·.2)

/-- `[v for v in values.values() if not is_list(type(v))][-1]` -/
def lastNonList (vals : List (String × Val)) : Option Val :=
  (vals.reverse.find? (fun kv => !kv.2.isList)).map (·.2)

inductive CountRes where
  | count (n : Nat)
  | crash (cls : String)

def countOf (vals : List (String × Val)) : CountRes :=
  match lastNonList vals with
  | none => .crash "IndexError"
  | some (.int _ x) => .count x.toNat
  | some _ => .crash "TypeError"

inductive SelRes where
  | sel (v : Option Int)
  | crash (cls : String)

def selOf (vals : List (String × Val)) (n : String) : SelRes :=
  match lookupVal vals n with
  | none => .crash "KeyError"
  | some (.int _ x) => .sel (some x)
  | some .none => .sel none
  | some (.obj _ _ _) => .sel none
  | some (.list _) => .crash "TypeError"

def Ty.eventTag : Ty → TyTag
  | .prim p => .named p.name false
  | t => .named t.name false

def Ty.isStructLike : Ty → Bool
  | .struct _ _ _ => true
  | .tpm2b _ _ _ _ _ => true
  | .tpm2bBytes _ _ _ _ _ => true
  | .union _ _ => true
  | _ => false

/-- `try: … except SizeConstraintExceededError` in the owner of constraint `id`: its own constraint's
overrun is reported as a warning (warn mode) and the owner returns `None`; otherwise continue with `k` -/
def ownCatch (abort : Bool) (id : Nat) (r : R Val) (k : Val → St → R Val) : R Val :=
  match r with
  | .error (.exceeded cid cp m a v b, s) =>
    if abort || cid != id then .error (.exceeded cid cp m a v b, s)
    else .ok (.none, emitW (.exceeded cid cp m a v b) s)
  | .error e => .error e
  | .ok (v, s) => k v s

/-- union member of list type: `count=tpm_type._list_size[field.name]` -/
def readListArm (abort : Bool) (elem : Prim) (n : Option Nat) (path : Path) (s : St) : R Val :=
  match n with
  | none => crash "KeyError" "process_tpmu: no _list_size for a list member" s
  | some k => readPrimList abort elem path k s

/-- one iteration of the field loop of `process_tpms`, for a field whose type is decoded by `d`
(`tname`: the type's name, for the `list[...]` event) -/
def decodeFieldWith (d : Path → Option Int → St → R Val) (tname : String) :
    FKind → Path → List (String × Val) → St → R Val
  | .plain, fpath, _, s => d fpath none s
  | .selected sel, fpath, vals, s =>
    match selOf vals sel with
    | .crash cls => crash cls "process_tpms: selector lookup" s
    | .sel sv => d fpath sv s
  | .counted, fpath, vals, s =>
    match countOf vals with
    | .crash cls => crash cls "process_tpms: count of a list" s
    | .count c =>
      (repeatDec (fun p s => d p none s) fpath c 0
        (emitM ⟨fpath, .listOf tname, none, "", 0⟩ s)).bind fun vs s => .ok (.list vs, s)

mutual
/-- `process(tpm_type, path, selector=sel, …)` for structure types -/
def decode (abort : Bool) : Ty → Path → Option Int → St → R Val
  | .prim p, path, _, s => readPrim abort p path s
  | .struct name _ fs, path, _, s =>
    (decodeFields abort fs path [] (emitM ⟨path, .named name false, none, "", 0⟩ s)).bind fun vals s =>
      .ok (.obj name false vals, s)
  | .tpm2bBytes name szName szP bufName elem, path, _, s =>
    let s := emitM ⟨path, .named name false, none, "", 0⟩ s
    let szPath := path ++ [⟨szName, none⟩]
    (readPrim abort szP szPath s).bind fun nv s =>
      let n := (nv.asInt?.getD 0)
      if n < 0 then crash "AssertionError" "set_constraint: size_max < 0" s else
      let id := s.pos
      (openRegion abort id szPath n.toNat s).bind fun _ s =>
      (readPrimList abort elem (path ++ [⟨bufName, none⟩]) n.toNat s).bind fun bv s =>
      (assertDone abort id s).bind fun _ s =>
        .ok (.obj name false [(szName, nv), (bufName, bv)], s)
  | .tpm2b name szName szP bufName body, path, _, s =>
    let s := emitM ⟨path, .named name false, none, "", 0⟩ s
    let szPath := path ++ [⟨szName, none⟩]
    (readPrim abort szP szPath s).bind fun nv s =>
      let n := (nv.asInt?.getD 0)
      if n < 0 then crash "AssertionError" "set_constraint: size_max < 0" s else
      let id := s.pos
      (openRegion abort id szPath n.toNat s).bind fun _ s =>
        let bpath := path ++ [⟨bufName, none⟩]
        if n = 0 then
          (assertDone abort id (emitM ⟨bpath, body.eventTag, none, "", 0⟩ s)).bind fun _ s =>
            .ok (.obj name false [(szName, nv), (bufName, .none)], s)
        else
          ownCatch abort id (decode abort body bpath none s) fun bv s =>
            (assertDone abort id s).bind fun _ s =>
              .ok (.obj name false [(szName, nv), (bufName, bv)], s)
  | .union name arms, path, sel, s =>
    let s := emitM ⟨path, .named name false, none, "", 0⟩ s
    match selectArm arms.keys sel with
    | none =>
      -- selector selects no member: `ValueConstraintViolatedError` in both modes (the layout is unknowable)
      (match sel with
       | some sv => .error (.value path name sv, s)
       | none => .error (.valueNone path name, s))
    | some an => decodeArm abort arms name an path s
  | .bad r, _, _, s => crash "ModelError" ("untranslatable type " ++ r) s
termination_by structural t => t

/-- `field = next(f for f in fields(tpm_type) if f.name == selectee_name)` and its processing -/
def decodeArm (abort : Bool) : Arms → String → String → Path → St → R Val
  | .nil, _, _, _, s => crash "RuntimeError" "process_tpmu: selected member is not a field" s
  | .consNone an _ rest, un, want, path, s =>
    if an = want then .ok (.none, s) else decodeArm abort rest un want path s
  | .cons an _ t rest, un, want, path, s =>
    if an = want then
      (decode abort t (path ++ [⟨an, none⟩]) none s).bind fun v s => .ok (.obj un false [(an, v)], s)
    else decodeArm abort rest un want path s
  | .consBytes an _ elem n rest, un, want, path, s =>
    if an = want then
      (readListArm abort elem n (path ++ [⟨an, none⟩]) s).bind fun v s => .ok (.obj un false [(an, v)], s)
    else decodeArm abort rest un want path s
termination_by structural arms => arms

/-- the field loop of `process_tpms` -/
def decodeFields (abort : Bool) : Fields → Path → List (String × Val) → St → R (List (String × Val))
  | .nil, _, vals, s => .ok (vals, s)
  | .cons fname kind t rest, path, vals, s =>
    (decodeFieldWith (fun p sel s => decode abort t p sel s) t.name kind (path ++ [⟨fname, none⟩]) vals s).bind fun v s =>
      decodeFields abort rest path (vals ++ [(fname, v)]) s
termination_by structural fs => fs
end
