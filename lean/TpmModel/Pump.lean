import TpmModel.Message
/-!
# The byte pump `marshal()` as a function of the walker's trace

The pump sends one byte, then pulls one byte of look-ahead, then flushes the events the processor
yields.  Everything it observes is determined by the walker's trace (events stamped with the number of
bytes consumed) and final result.
-/

inductive Outcome where
  /-- processor finished, input exhausted: returns the object -/
  | done (v : Val)
  /-- the "root event while depleted" early return (no error, returns `None`) -/
  | silent
  /-- a `ConstraintViolatedError` escaped; `remaining` is its `bytes_remaining` -/
  | raised (e : Err) (remaining : List Byte)
  /-- `InputStreamBytesDepletedError` (strict: raised; warn: final warning) -/
  | depleted
  /-- `InputStreamSuperfluousBytesError(bytes_remaining=rest)` (strict: raised; warn: final warning, returns the object) -/
  | superfluous (rest : List Byte) (v : Val)
  /-- an internal Python error escaped -/
  | crash (cls site : String)
  deriving Repr, Inhabited

structure Run where
  /-- events yielded to the consumer, each with the number of successful `next()` calls on the source so far -/
  events : List (Nat × Event)
  outcome : Outcome
  /-- `command_code` carried by the depleted / superfluous errors -/
  cc : Option Int
  deriving Repr, Inhabited

def isRootEllipsis (e : Event) : Bool :=
  match e with
  | .marshal m => m.path == rootPath && m.val.isNone
  | .warning _ => false

def ccOf (e : Event) (cc : Option Int) : Option Int :=
  match e with
  | .marshal m => if m.path == rootPath ++ [⟨"commandCode", none⟩] then m.val else cc
  | .warning _ => cc

/-- flush the trace; a command/response stream stops silently at a root `...` event emitted with the
input exhausted -/
def pumpEvents (isStream : Bool) (len : Nat) : List (Nat × Event) → List (Nat × Event) → Option Int →
    (List (Nat × Event) × Option Int × Bool)
  | [], acc, cc => (acc, cc, false)
  | (k, e) :: rest, acc, cc =>
    if isStream && k == len && isRootEllipsis e then (acc, cc, true)
    else pumpEvents isStream len rest (acc ++ [(min (k + 1) len, e)]) (ccOf e cc)

/-- was the last thing the processor did before stopping at byte count `k` the consumption of a byte
(or nothing at all)?  Then the pump sees the stop on `processor.send(byte)`; otherwise on a flush. -/
def stoppedOnSend (out : List (Nat × Event)) (k : Nat) : Bool :=
  match out.getLast? with
  | none => true
  | some (kl, _) => decide (kl < k)

def stOf {α : Type} : R α → St
  | .ok (_, s) => s
  | .error (_, s) => s

def resOf : R Val → Except Err Val
  | .ok (v, _) => .ok v
  | .error (e, _) => .error e

/-- how the pump ends, given the walker's final byte count `pos` and result -/
def pumpOutcome (x : List Byte) (pos : Nat) : Except Err Val → Outcome
  | .ok v =>
    -- the processor finished (on a flush or on a byte send): anything left in the source is superfluous
    if pos < x.length then .superfluous (x.drop pos) v
    else .done v
  | .error .depleted => .depleted
  | .error (.crash cls site) => .crash cls site
  | .error e =>
    -- raised on a byte send: the iterator holds the rest; raised on an event pull: the look-ahead byte
    -- (if there is one) has not been consumed and is put back in front of the rest
    .raised e (x.drop pos)

def pump (isStream : Bool) (x : List Byte) (r : R Val) : Run :=
  let pe := pumpEvents isStream x.length (stOf r).out [] none
  ⟨pe.1, if pe.2.2 then .silent else pumpOutcome x (stOf r).pos (resOf r), pe.2.1⟩

/-- `Binary.marshal(tpm_type=…, buffer=x, command_code=…, parameter_encryption=…, abort_on_error=…)`
run to completion -/
def Top.isStream : Top → Bool
  | .stream => true
  | _ => false

def marshalRun (abort : Bool) (tb : MsgTables) (top : Top) (x : List Byte) : Run :=
  pump top.isStream x (runWalker abort tb top x)

/-- the event stream a consumer of `Binary.marshal` sees: in warn mode a final depleted/superfluous problem is
itself a `WarningEvent` -/
def streamOf (abort : Bool) (r : Run) : List Event :=
  r.events.map (·.2) ++ (if abort then [] else match r.outcome with
    | .depleted => [.warning .depleted]
    | .superfluous _ _ => [.warning .depleted]
    | _ => [])
