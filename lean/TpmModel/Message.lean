import TpmModel.Dec
/-!
# `process_command`, `process_response`, `process_command_response_stream`, `process`
-/

structure MsgTables where
  tagCmd : Prim           -- type of `Command.tag`
  cmdSize : Prim          -- `Command.commandSize`
  cc : Prim               -- `Command.commandCode`
  authSize : Prim         -- `Command.authSize`
  authCmd : Ty            -- element type of `Command.authorizationArea`
  tagRsp : Prim
  rspSize : Prim
  rc : Prim
  paramSize : Prim
  authRsp : Ty
  cmdHandles : List (Int × Ty)
  cmdParams : List (Int × Ty)
  rspHandles : List (Int × Ty)
  rspParams : List (Int × Ty)
  encParam : Ty           -- `TPM2B_ENCRYPTED_PARAM`
  sessionsTag : Int       -- `TPM_ST.SESSIONS`
  rcSuccess : Int         -- `TPM_RC.SUCCESS`
  deriving DecidableEq

def lookupTy (m : List (Int × Ty)) (k : Int) : Option Ty := (m.find? (·.1 == k)).map (·.2)

/-- drop `_selectors` (the synthesized type has none): union members are then processed without selector -/
def Fields.dropSelectors : Fields → Fields
  | .nil => .nil
  | .cons f (.selected _) t rest => .cons f .plain t rest.dropSelectors
  | .cons f k t rest => .cons f k t rest.dropSelectors

/-- `TPMS_PARAMS.encrypted()`: the synthesized layout (name, fields), or `none` when the area has no
leading `TPM2B` parameter (the class itself is returned) -/
def encVariant (encParam : Ty) : Ty → Option (String × Fields)
  | .struct name _ (.cons f _ t rest) =>
    if t.name.startsWith "TPM2B" then some (name, .cons f .plain encParam rest.dropSelectors) else none
  | _ => none

def Ty.isParams : Ty → Bool
  | .struct _ p _ => p
  | _ => false

/-- `process(field_type, …, parameter_encryption=enc)` as called for the handle / parameter areas -/
def decodeArea (abort : Bool) (tb : MsgTables) (enc : Bool) (t : Ty) (path : Path) (s : St) : R Val :=
  if enc && t.isParams then
    match encVariant tb.encParam t with
    | none => decode abort t path none s
    | some (name, fs) =>
      (decodeFields abort fs path [] (emitM ⟨path, .named name true, none, "", 0⟩ s)).bind fun vals s =>
        .ok (.obj name true vals, s)
  else decode abort t path none s

/-- the loop of `process_byte_sized_array`: `while c.size_already < c.size_max` -/
def sizedLoop (abort : Bool) (t : Ty) (path : Path) (cid : Nat) : Nat → Nat → List Val → St → R Val
  | 0, _, _, s => crash "ModelError" "process_byte_sized_array: fuel" s
  | fuel+1, i, acc, s =>
    match findSC cid s.scs with
    | none => crash "ModelError" "process_byte_sized_array: constraint left the list" s
    | some c =>
      match c.max with
      | none => crash "TypeError" "process_byte_sized_array: size_max is None" s
      | some m =>
        if c.already < m then
          ownCatch abort cid (decode abort t (elemPath path i) none s) fun v s =>
            sizedLoop abort t path cid fuel (i+1) (acc ++ [v]) s
        else
          (assertDoneSC abort c { s with scs := removeSC cid s.scs }).bind fun _ s => .ok (.list acc, s)

def sizedFuel (cid : Nat) (scs : List SC) : Nat :=
  match findSC cid scs with
  | some c => (c.max.getD 0) - c.already + 2
  | none => 2

/-- `process_byte_sized_array`; also returns the constraint as it was at `assert_done` time -/
def decodeSized (abort : Bool) (t : Ty) (path : Path) (cid : Nat) (s : St) : R Val :=
  let s := emitM ⟨path, .listOf t.name, none, "", 0⟩ s
  -- fuel: every completed element is charged to the region, so the region's remaining size bounds the iterations
  sizedLoop abort t path cid (sizedFuel cid s.scs) 0 [] s

def objField (v : Val) (f : String) : Option Val :=
  match v with
  | .obj _ _ fs => lookupVal fs f
  | _ => none

/-- `Bit.__get__` on an instance: `(value & mask) >> ctz(mask)` is truthy iff `value & mask ≠ 0` -/
def sessionFlag (sessTy : Ty) (flag : String) (sess : Val) : Except String Bool :=
  match sess with
  | .obj _ _ fs =>
    match lookupVal fs "sessionAttributes" with
    | some (.int _ x) =>
      match sessTy with
      | .struct _ _ sfs =>
        let rec findP : Fields → Option Prim
          | .nil => none
          | .cons f _ (.prim p) rest => if f = "sessionAttributes" then some p else findP rest
          | .cons _ _ _ rest => findP rest
        match findP sfs with
        | some p =>
          match p.masks.find? (·.1 == flag) with
          | some (_, m) => .ok (x.toNat &&& m != 0)
          | none => .error "AttributeError"
        | none => .error "AttributeError"
      | _ => .error "AttributeError"
    | _ => .error "AttributeError"
  | _ => .error "AttributeError"

/-- `is_parameter_encryption(authorizationArea=area, for_response=…)`: `any(...)` short-circuits -/
def anyFlag (sessTy : Ty) (flag : String) : List Val → Except String Bool
  | [] => .ok false
  | v :: rest =>
    match sessionFlag sessTy flag v with
    | .error c => .error c
    | .ok true => .ok true
    | .ok false => anyFlag sessTy flag rest

def areaFlag (sessTy : Ty) (flag : String) (area : Val) : Except String Bool :=
  match area with
  | .list vs => anyFlag sessTy flag vs
  | .none => .ok false       -- `if authorizationArea is None: return False`
  | _ => .error "TypeError"

def vInt (v : Val) : Option Int := v.asInt?

/-- `except SizeConstraintExceededError` of `process_command` / `process_response` (two owned ids) -/
def msgCatch (abort : Bool) (id1 id2 : Nat) (name : String) (vals : List (String × Val)) (r : R Val)
    (k : Val → St → R Val) : R Val :=
  match r with
  | .error (.exceeded cid cp m a v b, s) =>
    if abort || (cid != id1 && cid != id2) then .error (.exceeded cid cp m a v b, s)
    else .ok (.obj name false vals, emitW (.exceeded cid cp m a v b) s)
  | .error e => .error e
  | .ok (v, s) => k v s

/-- `process_command` -/
def decodeCommand (abort : Bool) (tb : MsgTables) (path : Path) (s0 : St) : R Val :=
  let cid := s0.pos
  let aid := s0.pos + 1
  let s := emitM ⟨path, .named "Command" false, none, "", 0⟩ { s0 with scs := [⟨cid, [], 0, none⟩] }
  let mc := msgCatch abort cid aid "Command"
  mc [] (readPrim abort tb.tagCmd (path ++ [⟨"tag", none⟩]) s) fun tag s =>
  let vals := [("tag", tag)]
  mc vals (readPrim abort tb.cmdSize (path ++ [⟨"commandSize", none⟩]) s) fun csz s =>
  match vInt csz with
  | none => crash "TypeError" "commandSize" s
  | some n =>
  if n < 0 then crash "AssertionError" "set_constraint: size_max < 0" s else
  (setListed abort cid (path ++ [⟨"commandSize", none⟩]) n.toNat s).bind fun _ s =>
  let vals := vals ++ [("commandSize", csz)]
  mc vals (readPrim abort tb.cc (path ++ [⟨"commandCode", none⟩]) s) fun ccv s =>
  let vals := vals ++ [("commandCode", ccv)]
  let ccI := (vInt ccv).getD 0
  match lookupTy tb.cmdHandles ccI with
  | none => .error (.value (path ++ [⟨"commandCode", none⟩]) tb.cc.name ccI, s)
  | some hty =>
  mc vals (decodeArea abort tb false hty (path ++ [⟨"handles", none⟩]) s) fun hv s =>
  let vals := vals ++ [("handles", hv)]
  -- authSize / authorizationArea only if tag == SESSIONS
  let sessions : St → (List (String × Val) → Bool → St → R Val) → R Val := fun s k =>
    if vInt tag == some tb.sessionsTag then
      mc vals (readPrim abort tb.authSize (path ++ [⟨"authSize", none⟩]) s) fun asz s =>
      match vInt asz with
      | none => crash "TypeError" "authSize" s
      | some an =>
      if an < 0 then crash "AssertionError" "set_constraint: size_max < 0" s else
      (openRegion abort aid (path ++ [⟨"authSize", none⟩]) an.toNat s).bind fun _ s =>
      let vals := vals ++ [("authSize", asz)]
      mc vals (decodeSized abort tb.authCmd (path ++ [⟨"authorizationArea", none⟩]) aid s) fun area s =>
      match areaFlag tb.authCmd "decrypt" area with
      | .error cls => crash cls "is_parameter_encryption" s
      | .ok enc => k (vals ++ [("authorizationArea", area)]) enc s
    else k vals false s
  sessions s fun vals enc s =>
  match lookupTy tb.cmdParams ccI with
  | none => .error (.value (path ++ [⟨"commandCode", none⟩]) tb.cc.name ccI, s)
  | some pty =>
  mc vals (decodeArea abort tb enc pty (path ++ [⟨"parameters", none⟩]) s) fun pv s =>
  let vals := vals ++ [("parameters", pv)]
  (assertDone abort cid s).bind fun _ s => .ok (.obj "Command" false vals, s)

/-- `process_response` -/
def decodeResponse (abort : Bool) (tb : MsgTables) (cc : Option Int) (encFlag : Bool) (path : Path)
    (s0 : St) : R Val :=
  let rid := s0.pos
  let pid := s0.pos + 1
  let s := emitM ⟨path, .named "Response" false, none, "", 0⟩ { s0 with scs := [⟨rid, [], 0, none⟩] }
  let mc := msgCatch abort rid pid "Response"
  mc [] (readPrim abort tb.tagRsp (path ++ [⟨"tag", none⟩]) s) fun tag s =>
  let vals := [("tag", tag)]
  mc vals (readPrim abort tb.rspSize (path ++ [⟨"responseSize", none⟩]) s) fun rsz s =>
  match vInt rsz with
  | none => crash "TypeError" "responseSize" s
  | some n =>
  if n < 0 then crash "AssertionError" "set_constraint: size_max < 0" s else
  (setListed abort rid (path ++ [⟨"responseSize", none⟩]) n.toNat s).bind fun _ s =>
  let vals := vals ++ [("responseSize", rsz)]
  mc vals (readPrim abort tb.rc (path ++ [⟨"responseCode", none⟩]) s) fun rcv s =>
  let vals := vals ++ [("responseCode", rcv)]
  let finish : List (String × Val) → St → R Val := fun vals s =>
    (assertDone abort rid s).bind fun _ s =>
      if s.scs.isEmpty then .ok (.obj "Response" false vals, s)
      else crash "AssertionError" "size_constraints.assert_done()" s
  if vInt rcv != some tb.rcSuccess then finish vals s else
  let sess := vInt tag == some tb.sessionsTag
  match cc.bind (lookupTy tb.rspHandles) with
  | none =>
    -- the command code has no response layouts, or there is none at all: `ValueConstraintViolatedError` in both modes
    .error ((match cc with
      | some c => Err.value (path ++ [⟨"commandCode", none⟩]) tb.cc.name c
      | none => Err.valueNone (path ++ [⟨"commandCode", none⟩]) tb.cc.name), s)
  | some hty =>
  mc vals (decodeArea abort tb encFlag hty (path ++ [⟨"handles", none⟩]) s) fun hv s =>
  let vals := vals ++ [("handles", hv)]
  let psize : St → (List (String × Val) → St → R Val) → R Val := fun s k =>
    if sess then
      mc vals (readPrim abort tb.paramSize (path ++ [⟨"parameterSize", none⟩]) s) fun psz s =>
      match vInt psz with
      | none => crash "TypeError" "parameterSize" s
      | some pn =>
      if pn < 0 then crash "AssertionError" "set_constraint: size_max < 0" s else
      (openRegion abort pid (path ++ [⟨"parameterSize", none⟩]) pn.toNat s).bind fun _ s =>
      k (vals ++ [("parameterSize", psz)]) s
    else k vals s
  psize s fun vals s =>
  match cc.bind (lookupTy tb.rspParams) with
  | none =>
    .error ((match cc with
      | some c => Err.value (path ++ [⟨"commandCode", none⟩]) tb.cc.name c
      | none => Err.valueNone (path ++ [⟨"commandCode", none⟩]) tb.cc.name), s)
  | some pty =>
  -- `parameter_size_constraint.assert_done()` runs inside the same `try` as the parameter area
  mc vals ((decodeArea abort tb encFlag pty (path ++ [⟨"parameters", none⟩]) s).bind fun pv s =>
      if sess then (assertDone abort pid s).bind fun _ s => .ok (pv, s) else .ok (pv, s)) fun pv s =>
  let vals := vals ++ [("parameters", pv)]
  if !sess then finish vals s else
  mc vals (decodeSized abort tb.authRsp (path ++ [⟨"authorizationArea", none⟩]) rid s) fun area s =>
  match areaFlag tb.authRsp "encrypt" area with
  | .error cls => crash cls "is_parameter_encryption" s
  | .ok expected =>
  if expected != encFlag then crash "AssertionError" "process_response: parameter_encryption mismatch" s else
  let vals := vals ++ [("authorizationArea", area)]
  -- the second `response_size_constraint.assert_done()` re-evaluates `size_already == size_max` on the
  -- (unchanged) counters of the already obsolete constraint: the loop above ends only with them equal,
  -- so it is a no-op; then `size_constraints.assert_done()`
  if s.scs.isEmpty then .ok (.obj "Response" false vals, s)
  else crash "AssertionError" "size_constraints.assert_done()" s

inductive Top where
  | ty (t : Ty)
  | command
  | response (cc : Option Int) (enc : Bool)
  | stream

/-- `is_parameter_encryption(command, for_response=True) or None` -/
def cmdEncrypt (tb : MsgTables) (cmd : Val) : Except String Bool :=
  match objField cmd "authorizationArea" with
  | none => .ok false
  | some .none => .ok false
  | some area => areaFlag tb.authCmd "encrypt" area

/-- `process_command_response_stream`: the loop ends when the next message's root event is emitted with
the input exhausted (the pump returns there); in this model the walker simply stops at that point. -/
def decodeStream (abort : Bool) (tb : MsgTables) (path : Path) : Nat → St → R Val
  | 0, s => crash "ModelError" "stream fuel" s
  | fuel+1, s =>
    if s.inp.isEmpty then .ok (.none, emitM ⟨path, .named "Command" false, none, "", 0⟩ s) else
    (decodeCommand abort tb path s).bind fun cmd s =>
    match cmdEncrypt tb cmd with
    | .error cls => crash cls "is_parameter_encryption(command)" s
    | .ok enc =>
    if s.inp.isEmpty then .ok (.none, emitM ⟨path, .named "Response" false, none, "", 0⟩ s) else
    (decodeResponse abort tb ((objField cmd "commandCode").bind vInt) enc path s).bind fun _ s =>
      decodeStream abort tb path fuel s

def initSt (inp : List Byte) : St := ⟨inp, 0, [], []⟩

/-- `process(tpm_type, path=root, command_code=…, parameter_encryption=…)` on a fresh coroutine -/
def runWalker (abort : Bool) (tb : MsgTables) (top : Top) (inp : List Byte) : R Val :=
  match top with
  | .ty t => decode abort t rootPath none (initSt inp)
  | .command => decodeCommand abort tb rootPath (initSt inp)
  | .response cc enc => decodeResponse abort tb cc enc rootPath (initSt inp)
  | .stream => decodeStream abort tb rootPath (inp.length + 1) (initSt inp)
