import TpmModel.Pump
import TpmModel.Front
/-!
# The command line's decision logic (C19): `__main__.py`

`argparse`, file handling, `difflib` and `print` are not modelled; what is modelled is which request is refused,
what is decoded with which arguments, and which types the `type` subcommand lists.
-/

inductive ConvertPlan where
  /-- unknown type / command name, or `--type Response` without `--command`: message on stderr, status ≠ 0 -/
  | refused (why : String)
  /-- `--type X` (X not the stream) together with `--in auto`: RuntimeError -/
  | crashed (cls : String)
  /-- decode `top` in warn mode, print with the chosen output format, status 0 -/
  | run (top : Top)

/-- `convert`: how the arguments are turned into a decode -/
def convertPlan (types : List (String × Ty)) (ccs : List (String × Int)) (fmtIn : String)
    (typeArg cmdArg : Option String) : ConvertPlan :=
  match typeArg with
  | none => .run .stream
  | some tn =>
    if tn == "CommandResponseStream" then .run .stream
    else if fmtIn == "auto" && (tn == "Command" || tn == "Response" || (types.find? (·.1 == tn)).isSome) &&
        !(tn == "Response" && (cmdArg.isNone || (cmdArg.bind fun c => ccs.find? (·.1 == c)).isNone)) then .crashed "RuntimeError"
    else if tn == "Command" then .run .command
    else if tn == "Response" then
      match cmdArg with
      | none => .refused "--type=Response requires --command"
      | some c =>
        match ccs.find? (·.1 == c) with
        | some (_, v) => .run (.response (some v) false)
        | none => .refused "unknown commandCode"
    else
      match types.find? (·.1 == tn) with
      | some (_, t) => .run (.ty t)
      | none => .refused "unknown type"

def ConvertPlan.exitOk : ConvertPlan → Bool
  | .run _ => true
  | _ => false

/-- strict decoding of `x` under `top` completes -/
def accepts (tb : MsgTables) (x : List Byte) (top : Top) : Bool :=
  match (marshalRun true tb top x).outcome with
  | .done _ => true
  | _ => false

/-- `type`: the types (and response command codes) under which the bytes decode strictly -/
def typeListing (tb : MsgTables) (types : List (String × Ty)) (ccs : List (String × Int)) (x : List Byte) : List String :=
  (types.filter fun nt => (match nt.2 with | .union _ _ => false | _ => true) && accepts tb x (.ty nt.2)).map (·.1) ++
  (if accepts tb x .command then ["Command"] else []) ++
  (ccs.filter fun nc => accepts tb x (.response (some nc.2) false)).map fun nc => "Response (TPM_CC." ++ nc.1 ++ ")"
