import TpmModel.Basic
/-!
# Typed integers, attribute words, response codes (C16, C17, C18)

Models of `_INT.__format__`, `tpm_enum.__format__`, `tpm_bitfield.__format__`, `Bit.__get__`,
`pretty_attrs` and `TPM_RC.__format__` / `TPM_RC.attributes`.
-/

/-- what decorates `TPMS_PARAMS.encrypted` -/
inductive CacheCap where
  | absent | unbounded | bounded (n : Nat) | opaque (s : String)
  deriving DecidableEq, Repr

def hexDigitL (n : Nat) : Char := "0123456789abcdef".toList.getD n '?'

def hexDigits : Nat → Nat → List Char
  | 0, _ => []
  | fuel+1, n => if n < 16 then [hexDigitL n] else hexDigits fuel (n / 16) ++ [hexDigitL (n % 16)]

/-- `format(n, "x")` -/
def hexStr (n : Nat) : String := String.ofList (hexDigits (n + 1) n)

/-- `"{:0{w}x}".format(n)` -/
def hexPad (n w : Nat) : String :=
  let d := hexDigits (n + 1) n
  String.ofList (List.replicate (w - d.length) '0' ++ d)

/-- text of the object `ValidValues.get` returns for a value matched by this item -/
def VItem.fmt (it : VItem) (x : Int) : String :=
  match it with
  | .range _ _ => toString x
  | .named owner base lo _ nib _ _ => owner ++ "." ++ base ++ "." ++ hexPad (x - lo).toNat nib
  | .member owner name _ _ _ => owner ++ "." ++ name
  | .int v => toString v
  | .unknown _ => "?"

/-- `(v & mask) >> ctz(mask)`: the loop of `Bit.__get__` (`none`: the loop never ends, mask = 0) -/
def shiftDown : Nat → Nat → Nat → Option Nat
  | 0, _, _ => none
  | fuel+1, bits, mask => if mask % 2 = 1 then some bits else shiftDown fuel (bits / 2) (mask / 2)

def bitGet (v mask : Nat) : Option Nat := shiftDown (mask + 1) (v &&& mask) mask

/-- `tpm_bitfield.__format__` of a runtime instance -/
def bitfieldFormat (name : String) (masks : List (String × Nat)) (x : Nat) : String :=
  " | ".intercalate ((masks.filter fun nm => (bitGet x nm.2).getD 0 != 0).map fun nm => name ++ "." ++ nm.1)

/-! ## TPM_RC -/

structure RcTables where
  consts : List (String × Nat)
  fmt0Err : List (Nat × String)
  fmt0ErrDefault : Option String
  fmt1 : List (Nat × String)
  fmt1Default : Option String
  fmt0Warn : List (Nat × String)
  fmt0WarnDefault : Option String

def RcTables.c (t : RcTables) (n : String) : Nat := ((t.consts.find? (·.1 == n)).map (·.2)).getD 0

/-- the mask / shift constants of `tpm_rc.py` -/
structure RcMasks where
  reserved : Nat
  tpm12 : Nat
  tpm12Code : Nat
  fmt1 : Nat
  fmt1Code : Nat
  fmt1Vendor : Nat
  fmt1Warning : Nat
  fmt1Reserved : Nat
  fmt0Param : Nat
  fmt0Session : Nat
  fmt0Code : Nat
  fmt0ParamNum : Nat
  fmt0HandleNum : Nat
  fmt0SessionNum : Nat
  shiftParam : Nat
  shiftHandle : Nat
  shiftSession : Nat
  deriving DecidableEq, Repr

def RcTables.masks (t : RcTables) : RcMasks :=
  { reserved := t.c "mask_reserved", tpm12 := t.c "mask_tpm12", tpm12Code := t.c "mask_tpm12_code",
    fmt1 := t.c "mask_fmt1", fmt1Code := t.c "mask_fmt1_code", fmt1Vendor := t.c "mask_fmt1_vendor",
    fmt1Warning := t.c "mask_fmt1_spec_warning", fmt1Reserved := t.c "mask_fmt1_reserved",
    fmt0Param := t.c "mask_fmt0_param", fmt0Session := t.c "mask_fmt0_session", fmt0Code := t.c "mask_fmt0_code",
    fmt0ParamNum := t.c "mask_fmt0_param_num", fmt0HandleNum := t.c "mask_fmt0_handle_num",
    fmt0SessionNum := t.c "mask_fmt0_session_num", shiftParam := t.c "shift_fmt0_param_num",
    shiftHandle := t.c "shift_fmt0_handle_num", shiftSession := t.c "shift_fmt0_session_num" }

def bitsSet (v mask : Nat) : Bool := v &&& mask == mask
def bitsUnset (v mask : Nat) : Bool := v &&& mask == 0

inductive RcMap where | fmt0Err | fmt0Warn | fmt1
  deriving DecidableEq, Repr

inductive RcDetail where
  | none
  | parameter (n : Nat) | session (n : Nat) | handle (n : Nat)
  deriving DecidableEq, Repr

/-- classification of a response code, before names are looked up -/
inductive RcClass where
  | success
  | tpm12
  | vendor
  | named (m : RcMap) (code : Nat) (d : RcDetail)
  deriving DecidableEq, Repr

/-- `TPM_RC.__format__`, control flow and mask arithmetic only -/
def rcClassify (m : RcMasks) (v : Nat) : RcClass :=
  if v = 0 then .success
  else if bitsUnset v m.tpm12 then .tpm12
  else if !bitsSet v m.fmt1 then
    if bitsSet v m.fmt1Vendor then .vendor
    else if bitsSet v m.fmt1Warning then .named .fmt0Warn (v &&& m.fmt1Code) .none
    else .named .fmt0Err (v &&& m.fmt1Code) .none
  else
    let d :=
      if bitsSet v m.fmt0Param then .parameter ((v &&& m.fmt0ParamNum) >>> m.shiftParam)
      else if bitsSet v m.fmt0Session then .session ((v &&& m.fmt0SessionNum) >>> m.shiftSession)
      else .handle ((v &&& m.fmt0HandleNum) >>> m.shiftHandle)
    .named .fmt1 (v &&& m.fmt0Code) d

def RcTables.name (t : RcTables) (m : RcMap) (code : Nat) : Option String :=
  let (tab, dflt) := match m with
    | .fmt0Err => (t.fmt0Err, t.fmt0ErrDefault)
    | .fmt0Warn => (t.fmt0Warn, t.fmt0WarnDefault)
    | .fmt1 => (t.fmt1, t.fmt1Default)
  match tab.find? (·.1 == code) with
  | some (_, n) => some n
  | none => dflt

def RcDetail.str : RcDetail → String
  | .none => ""
  | .parameter n => s!" (Parameter No. {n})"
  | .session n => s!" (Session No. {n})"
  | .handle n => s!" (Handle No. {n})"

/-- the text `str(TPM_RC(v))` (`none`: KeyError on a map without default) -/
def rcRender (t : RcTables) (cls : String) : RcClass → Option String
  | .success => some (cls ++ ".SUCCESS")
  | .tpm12 => some (cls ++ ".UNKNOWN (TPM1.2)")
  | .vendor => some (cls ++ ".UNKNOWN (Vendor-defined)")
  | .named m code d => (t.name m code).map fun n => cls ++ "." ++ n ++ d.str

def rcFormat (t : RcTables) (cls : String) (v : Nat) : Option String := rcRender t cls (rcClassify t.masks v)

/-- `TPM_RC.attributes()` before sorting: (name, mask) rows in the order they are appended -/
def rcRowsRaw (m : RcMasks) (v : Nat) : List (String × Nat) :=
  if v = 0 then [] else
  if bitsUnset v m.tpm12 then
    [("reserved0", m.reserved), ("nonFatal", 0x800), ("vendorSpecific", 0x400),
     ("tpm12_signifier", m.tpm12), ("code", m.tpm12Code)]
  else if !bitsSet v m.fmt1 then
    [("reserved0", m.reserved), ("format", m.fmt1), ("version", 0x100),
     ("vendorDefined", m.fmt1Vendor), ("severity", m.fmt1Warning),
     ("reserved1", m.fmt1Reserved), ("code", m.fmt1Code)]
  else
    [("reserved0", m.reserved), ("format", m.fmt1), ("parameterError", m.fmt0Param)] ++
    (if bitsSet v m.fmt0Param then [("parameterNumber", m.fmt0ParamNum)]
     else [("sessionError", m.fmt0Session)] ++
       (if bitsSet v m.fmt0Session then [("sessionNumber", m.fmt0SessionNum)]
        else [("handleNumber", m.fmt0HandleNum)])) ++
    [("code", m.fmt0Code)]

/-- `TPM_RC.attributes()`: sorted by mask, descending (stable) -/
def rcRows (t : RcTables) (v : Nat) : List (String × Nat) :=
  (rcRowsRaw t.masks v).mergeSort (fun a b => a.2 ≥ b.2)

/-- the free-text details `attributes()` attaches to its rows, up to the colon: (row name, text); `none` = KeyError -/
def rcRowDetails (t : RcTables) (v : Nat) : Option (List (String × String)) :=
  let m := t.masks
  if v = 0 then some [] else
  if bitsUnset v m.tpm12 then some [("tpm12_signifier", "TPM 1.2")]
  else if !bitsSet v m.fmt1 then
    let sev := if bitsSet v m.fmt1Warning then "Warning" else "Error"
    if bitsUnset v m.fmt1Vendor then
      (t.name (if bitsSet v m.fmt1Warning then .fmt0Warn else .fmt0Err) (v &&& m.fmt1Code)).map fun n =>
        [("version", "TPM 2.0"), ("severity", sev), ("code", n)]
    else some [("version", "TPM 2.0"), ("severity", sev)]
  else
    let num :=
      if bitsSet v m.fmt0Param then ("parameterNumber", s!"Parameter No. {(v &&& m.fmt0ParamNum) >>> m.shiftParam}")
      else if bitsSet v m.fmt0Session then ("sessionNumber", s!"Session No. {(v &&& m.fmt0SessionNum) >>> m.shiftSession}")
      else ("handleNumber", s!"Handle No. {(v &&& m.fmt0HandleNum) >>> m.shiftHandle}")
    (t.name .fmt1 (v &&& m.fmt0Code)).map fun n => [num, ("code", n)]

/-! ## formatting of typed integers -/

/-- `format(T(x))` / `f"{T(x)}"` (`rc`: supplied by the caller since it needs the RC tables) -/
def Prim.format (p : Prim) (rc : Nat → Option String) (x : Int) : String :=
  match p.flavour with
  | .int =>
    match p.getItem x with
    | some it => it.fmt x
    | none => toString x
  | .enum =>
    match p.byValue x with
    | some (.member _ name _ _ _) => p.name ++ "." ++ name
    | some (.named _ base lo _ nib _ _) => p.name ++ "." ++ base ++ "." ++ hexPad (x - lo).toNat nib
    | _ => p.name ++ ".None"
  | .bitfield => bitfieldFormat p.name p.masks x.toNat
  | .rc => (rc x.toNat).getD "<KeyError>"

/-! ## bit rows of the pretty printer -/

def bitChar (v i : Nat) : Char := if v.testBit i then '1' else '0'

/-- one row of `pretty_attrs`: value bits where the mask has a bit, dots elsewhere, MSB first -/
def bitsRow (width mask v : Nat) : String :=
  String.ofList ((List.range width).reverse.map fun i => if mask.testBit i then bitChar v i else '.')

/-- the masks are pairwise disjoint and together cover exactly the `width` low bits -/
def partitions (masks : List Nat) (width : Nat) : Bool :=
  (List.range width).all (fun i => (masks.filter fun m => m.testBit i).length == 1) &&
  masks.all (fun m => decide (m < 2 ^ width))
