import TpmProofs.E2OMsg
import TpmProofs.MsgPump
/-!
# `events_to_objs` on the events of a well-formed stream: one object per message, in order (C09)
-/

def mEvs (evs : List SEv) : List Event := evs.map fun e => .marshal e.2

def isRootEv (e : Event) : Bool :=
  match e with
  | .marshal m => m.path == rootPath
  | .warning _ => false

theorem separateEvents_cons (e : Event) (rest cur : List Event) :
    separateEvents (e :: rest) cur =
      if isRootEv e && !cur.isEmpty then cur :: separateEvents rest [e] else separateEvents rest (cur ++ [e]) := by
  cases e <;> rfl

/-- events that are not at the root path join the current group -/
theorem separateEvents_absorb : ∀ (g T cur : List Event), (∀ e ∈ g, isRootEv e = false) →
    separateEvents (g ++ T) cur = separateEvents T (cur ++ g)
  | [], T, cur, _ => by simp
  | e :: g, T, cur, h => by
    rw [List.cons_append, separateEvents_cons, h e (List.mem_cons_self ..)]
    simp only [Bool.false_and, Bool.false_eq_true, if_false]
    rw [separateEvents_absorb g T (cur ++ [e]) (fun x hx => h x (List.mem_cons_of_mem _ hx))]
    simp

/-- a message: its root event, then events strictly below the root -/
theorem separateEvents_msg (root : Event) (g T cur : List Event) (hr : isRootEv root = true)
    (hg : ∀ e ∈ g, isRootEv e = false) :
    separateEvents (root :: g ++ T) cur =
      (if cur.isEmpty then [] else [cur]) ++ separateEvents T (root :: g) := by
  rw [List.cons_append, separateEvents_cons, hr]
  cases cur with
  | nil =>
    simp only [List.isEmpty_nil, Bool.not_true, Bool.and_false, Bool.false_eq_true, if_false, List.nil_append, if_true]
    rw [separateEvents_absorb g T [root] hg]; rfl
  | cons c cs =>
    simp only [List.isEmpty_cons, Bool.not_false, Bool.and_true, if_true, Bool.false_eq_true, if_false]
    rw [separateEvents_absorb g T [root] hg]; rfl

theorem deep_not_root {rest : List SEv} (h : Deep (rootPath.length + 1) rest) : ∀ e ∈ mEvs rest, isRootEv e = false := by
  intro e he
  simp only [mEvs, List.mem_map] at he
  obtain ⟨x, hx, rfl⟩ := he
  have := h x hx
  simp only [isRootEv]
  apply beq_false_of_ne
  intro heq
  rw [heq] at this
  simp [rootPath] at this

theorem mEvs_append (a b : List SEv) : mEvs (a ++ b) = mEvs a ++ mEvs b := by simp [mEvs]
theorem mEvs_shift (k : Nat) (a : List SEv) : mEvs (shift k a) = mEvs a := by simp [mEvs, shift]
theorem marshalsOf_mEvs (a : List SEv) : marshalsOf (mEvs a) = a.map (·.2) := by
  simp only [marshalsOf, mEvs, List.filterMap_map]
  induction a with
  | nil => rfl
  | cons e rest ih => rw [List.filterMap_cons, ih]; simp

/-- the objects of a stream: the messages' objects, in order -/
def streamObjs (last : Option CmdParts) : List (CmdParts × RspParts) → List Val
  | [] => match last with
    | none => []
    | some c => [c.toVal]
  | (c, r) :: more => c.toVal :: r.toVal :: streamObjs last more

/-- the groups `separate_events` forms: one per message -/
def streamGroups (tb : MsgTables) (last : Option CmdParts) : List (CmdParts × RspParts) → List (List Event)
  | [] => match last with
    | none => []
    | some c => match specCommand tb rootPath c with
      | some (_, ec) => [mEvs ec]
      | none => []
  | (c, r) :: more =>
    match specCommand tb rootPath c, cmdEncrypt tb c.toVal with
    | some (_, ec), .ok enc =>
      (match specResponse tb (vInt c.ccv) enc rootPath r with
       | some (_, er) => mEvs ec :: mEvs er :: streamGroups tb last more
       | none => [])
    | _, _ => []

theorem cmd_group_ne {tb : MsgTables} {c : CmdParts} {bc : List Byte} {ec : List SEv}
    (h : specCommand tb rootPath c = some (bc, ec)) :
    ∃ rest, mEvs ec = .marshal ⟨rootPath, .named "Command" false, none, "", 0⟩ :: mEvs rest ∧
      ∀ e ∈ mEvs rest, isRootEv e = false := by
  obtain ⟨rest, rfl, hd⟩ := specCommand_shape h
  exact ⟨rest, rfl, deep_not_root hd⟩

theorem rsp_group_ne {tb : MsgTables} {cc : Option Int} {enc : Bool} {r : RspParts} {br : List Byte} {er : List SEv}
    (h : specResponse tb cc enc rootPath r = some (br, er)) :
    ∃ rest, mEvs er = .marshal ⟨rootPath, .named "Response" false, none, "", 0⟩ :: mEvs rest ∧
      ∀ e ∈ mEvs rest, isRootEv e = false := by
  obtain ⟨rest, rfl, hd⟩ := specResponse_shape h
  exact ⟨rest, rfl, deep_not_root hd⟩

theorem separate_stream (tb : MsgTables) (last : Option CmdParts) :
    ∀ (xs : List (CmdParts × RspParts)) (bs : List Byte) (evs : List SEv),
      specStream tb rootPath last xs = some (bs, evs) → ∀ cur : List Event,
      separateEvents (mEvs evs) cur = (if cur.isEmpty then [] else [cur]) ++ streamGroups tb last xs
  | [], bs, evs, h, cur => by
    unfold specStream at h
    cases last with
    | none =>
      simp only [Option.some.injEq, Prod.mk.injEq] at h
      obtain ⟨_, rfl⟩ := h
      simp only [mEvs, List.map_nil, separateEvents, streamGroups, List.append_nil]
    | some c =>
      simp only [] at h
      split at h
      · rename_i bc ec enc hc _
        simp only [Option.some.injEq, Prod.mk.injEq] at h
        obtain ⟨_, rfl⟩ := h
        obtain ⟨rest, hm, hnr⟩ := cmd_group_ne hc
        have := separateEvents_msg (.marshal ⟨rootPath, .named "Command" false, none, "", 0⟩) (mEvs rest) [] cur
          (by simp [isRootEv]) hnr
        rw [List.append_nil] at this
        rw [hm, this, ← hm]
        simp [streamGroups, hc, separateEvents, hm]
      · cases h
  | (c, r) :: more, bs, evs, h, cur => by
    unfold specStream at h
    split at h
    · rename_i bc ec enc hc henc
      split at h
      · rename_i br er bm em hr hm'
        simp only [Option.some.injEq, Prod.mk.injEq] at h
        obtain ⟨_, rfl⟩ := h
        obtain ⟨restc, hmc, hnc⟩ := cmd_group_ne hc
        obtain ⟨restr, hmr, hnrr⟩ := rsp_group_ne hr
        rw [mEvs_append, mEvs_shift, mEvs_append, mEvs_shift, hmc,
          separateEvents_msg (.marshal ⟨rootPath, .named "Command" false, none, "", 0⟩) (mEvs restc) _ cur
            (by simp [isRootEv]) hnc, hmr,
          separateEvents_msg (.marshal ⟨rootPath, .named "Response" false, none, "", 0⟩) (mEvs restr) _ _
            (by simp [isRootEv]) hnrr,
          separate_stream tb last more bm em hm' _]
        simp [streamGroups, hc, henc, hr, hmc, hmr]
      · cases h
    · cases h

theorem specCommand_ccv {tb : MsgTables} {path : Path} {c : CmdParts} {bs : List Byte} {evs : List SEv}
    (h : specCommand tb path c = some (bs, evs)) : ∃ x, c.ccv = .int tb.cc.name x := by
  unfold specCommand at h
  split at h
  · rename_i b1 e1 b2 e2 b3 e3 h1 h2 h3
    unfold specPrim at h3
    split at h3
    · cases h3
    · rename_i x hx
      exact ⟨x, asIntOf_inv hx⟩
  · cases h

theorem e2oTop_response_flag (tb : MsgTables) (cc : Option Int) (e1 e2 : Bool) (evs : List MEvent) :
    e2oTop tb (.response cc e1) evs = e2oTop tb (.response cc e2) evs := by
  simp only [e2oTop]

/-- **C09, objects**: `events_to_objs` of the events of a well-formed stream yields exactly one object per message, in
order — each command, then its response rebuilt with that command's code — and does not raise -/
theorem e2oStream_groups (tb : MsgTables) (hok : tb.eo = true) (last : Option CmdParts) :
    ∀ (xs : List (CmdParts × RspParts)) (bs : List Byte) (evs : List SEv),
      specStream tb rootPath last xs = some (bs, evs) →
      e2oStream tb none (streamGroups tb last xs) = (streamObjs last xs, false)
  | [], bs, evs, h => by
    unfold specStream at h
    cases last with
    | none => simp [streamGroups, streamObjs, e2oStream]
    | some c =>
      simp only [] at h
      split at h
      · rename_i bc ec enc hc _
        obtain ⟨x, hx⟩ := specCommand_ccv hc
        have hobj := cmd_events_to_obj tb hok c bc ec hc
        simp only [streamGroups, hc, streamObjs, e2oStream, marshalsOf_mEvs, hobj]
        simp [CmdParts.toVal, lookupVal, List.find?, hx]
      · cases h
  | (c, r) :: more, bs, evs, h => by
    unfold specStream at h
    split at h
    · rename_i bc ec enc hc henc
      split at h
      · rename_i br er bm em hr hm'
        obtain ⟨x, hx⟩ := specCommand_ccv hc
        have hobj := cmd_events_to_obj tb hok c bc ec hc
        have hv : vInt c.ccv = some x := by rw [hx]; rfl
        rw [hv] at hr
        have hrobj := rsp_events_to_obj tb hok (some x) enc r br er hr
        rw [e2oTop_response_flag tb (some x) enc false] at hrobj
        have ih := e2oStream_groups tb hok last more bm em hm'
        simp only [streamGroups, hc, henc, hv, hr, streamObjs, e2oStream, marshalsOf_mEvs, hobj]
        simp [CmdParts.toVal, lookupVal, List.find?, hx, hrobj, ih]
      · cases h
    · cases h
