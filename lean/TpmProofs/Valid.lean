import TpmProofs.Trace
import TpmProofs.Modes
/-!
# Strict mode only ever shows fields whose values are in their declared sets (C04)

`VE s r`: every field event emitted by a strict-mode step carries a value that is valid for its declared type — the
walker checks a value before it emits the event, and stops at the first one that fails.  So when a strict decode
raises `ValueConstraintViolatedError`, none of the fields shown before is an offender: the error is about the first
offending field in wire order.
-/

/-- a field event with a value shows a value valid for a primitive type of that name and width -/
def ValidEv (e : Event) : Prop :=
  match e with
  | .marshal m => ∀ y, m.val = some y → ∃ p : Prim, m.vclass = p.name ∧ m.width = p.size ∧ p.isValid y = true
  | .warning _ => False

def VE {α : Type} (s : St) (r : R α) : Prop :=
  ∃ new, (stOf r).out = s.out ++ new ∧ ∀ ke ∈ new, ValidEv ke.2

theorem ve_quiet {α : Type} {s : St} {r : R α} (h : (stOf r).out = s.out) : VE s r :=
  ⟨[], by simp [h], by intro ke hke; cases hke⟩

theorem VE.bind {α β : Type} {s : St} {r : R α} {f : α → St → R β} (h : VE s r)
    (hf : ∀ a t, r = .ok (a, t) → VE t (f a t)) : VE s (r.bind f) := by
  cases r with
  | error e => obtain ⟨e, t⟩ := e; exact h
  | ok at' =>
    obtain ⟨a, t⟩ := at'
    obtain ⟨n1, h1, m1⟩ := h
    obtain ⟨n2, h2, m2⟩ := hf a t rfl
    refine ⟨n1 ++ n2, by simp only [R.bind_ok]; rw [h2]; simp only [stOf] at h1; rw [h1, List.append_assoc], ?_⟩
    intro ke hke
    simp only [List.mem_append] at hke
    rcases hke with hke | hke
    · exact m1 ke hke
    · exact m2 ke hke

theorem VE.of_emit {α : Type} {s : St} (e : Event) (he : ValidEv e) {r : R α} (h : VE (emit e s) r) : VE s r := by
  obtain ⟨n, h1, m⟩ := h
  refine ⟨(s.pos, e) :: n, by rw [h1]; simp [emit], ?_⟩
  intro ke hke
  simp only [List.mem_cons] at hke
  rcases hke with rfl | hke
  · exact he
  · exact m ke hke

theorem VE.of_emitS {α : Type} {s : St} (m : MEvent) (hm : m.val = none) {r : R α} (h : VE (emitM m s) r) : VE s r :=
  VE.of_emit (.marshal m) (by intro y hy; rw [hm] at hy; cases hy) h

theorem VE.of_scs {α : Type} {s : St} (scs : List SC) {r : R α} (h : VE { s with scs := scs } r) : VE s r := h

theorem take_ve (n : Nat) (s : St) : VE s (take n s) := by
  unfold take; split <;> exact ve_quiet rfl

theorem consume_ve (n : Nat) (s : St) : VE s (consume n s) := by
  unfold consume; exact (take_ve n s).bind fun _ t _ => ve_quiet rfl

theorem bpGo_ve (path : Path) (size : Nat) : ∀ (todo done : List SC) (s : St), VE s (bpGo path size done todo s) := by
  intro todo
  induction todo with
  | nil => intro done s; exact ve_quiet rfl
  | cons c rest ih =>
    intro done s
    unfold bpGo
    split
    · exact VE.of_scs _ ((consume_ve _ _).bind fun _ t _ => ve_quiet rfl)
    · exact ih _ _

theorem readPrim_ve (p : Prim) (path : Path) (s : St) : VE s (readPrim true p path s) := by
  unfold readPrim
  refine (bpGo_ve _ _ s.scs [] s).bind fun _ t _ => (take_ve _ t).bind fun bs t2 _ => ?_
  simp only [if_true]
  split
  · rename_i hv
    exact VE.of_emit _ (by intro y hy; simp only [Option.some.injEq] at hy; subst hy; exact ⟨p, rfl, rfl, hv⟩) (ve_quiet rfl)
  · exact ve_quiet rfl

theorem anticipateM_ve (vpath : Path) (v id : Nat) (s : St) : VE s (anticipateM true vpath v id s) := by
  unfold anticipateM
  split
  · exact ve_quiet rfl
  · simp only [if_true]; exact ve_quiet rfl

theorem openRegion_ve (id : Nat) (cpath : Path) (n : Nat) (s : St) : VE s (openRegion true id cpath n s) := by
  unfold openRegion
  exact (anticipateM_ve _ _ _ s).bind fun _ t _ => ve_quiet rfl

theorem setListed_ve (id : Nat) (cpath : Path) (n : Nat) (s : St) : VE s (setListed true id cpath n s) := by
  unfold setListed
  exact VE.of_scs _ (anticipateM_ve _ _ _ _)

theorem assertDoneSC_ve (c : SC) (s : St) : VE s (assertDoneSC true c s) := by
  unfold assertDoneSC
  split
  · exact ve_quiet rfl
  · split
    · exact ve_quiet rfl
    · simp only [if_true]; exact ve_quiet rfl

theorem assertDone_ve (id : Nat) (s : St) : VE s (assertDone true id s) := by
  unfold assertDone
  split
  · exact ve_quiet rfl
  · exact VE.of_scs _ (assertDoneSC_ve _ _)

theorem ownCatch_ve (id : Nat) {s : St} {r : R Val} (k : Val → St → R Val) (hr : VE s r)
    (hk : ∀ v t, r = .ok (v, t) → VE t (k v t)) : VE s (ownCatch true id r k) := by
  rw [ownCatch_strict']; exact hr.bind hk

theorem msgCatch_ve (id1 id2 : Nat) (name : String) (vals : List (String × Val)) {s : St} {r : R Val}
    (k : Val → St → R Val) (hr : VE s r) (hk : ∀ v t, r = .ok (v, t) → VE t (k v t)) :
    VE s (msgCatch true id1 id2 name vals r k) := by
  rw [msgCatch_strict']; exact hr.bind hk

/-! ## the walkers -/

theorem repeatDec_ve (f : Path → St → R Val) (hf : ∀ p s, VE s (f p s)) (path : Path) :
    ∀ (n i : Nat) (s : St), VE s (repeatDec f path n i s) := by
  intro n
  induction n with
  | zero => intro i s; exact ve_quiet rfl
  | succ m ih =>
    intro i s
    unfold repeatDec
    exact (hf _ s).bind fun v t _ => (ih (i+1) t).bind fun vs t2 _ => ve_quiet rfl

theorem readPrimList_ve (p : Prim) (path : Path) (n : Nat) (s : St) : VE s (readPrimList true p path n s) := by
  unfold readPrimList
  apply VE.of_emitS ⟨path, .listOf p.name, none, "", 0⟩ rfl
  exact (repeatDec_ve _ (fun q s => readPrim_ve p q s) path n 0 _).bind fun vs t _ => ve_quiet rfl

theorem readListArm_ve (elem : Prim) (n : Option Nat) (path : Path) (s : St) : VE s (readListArm true elem n path s) := by
  unfold readListArm
  cases n with
  | none => exact ve_quiet rfl
  | some k => exact readPrimList_ve elem path k s

theorem fieldWith_ve (d : Path → Option Int → St → R Val) (hd : ∀ p sel s, VE s (d p sel s)) (tname : String)
    (kind : FKind) (fpath : Path) (vals : List (String × Val)) (s : St) :
    VE s (decodeFieldWith d tname kind fpath vals s) := by
  cases kind with
  | plain => exact hd _ _ _
  | selected sel =>
    simp only [decodeFieldWith]
    split
    · exact ve_quiet rfl
    · exact hd _ _ _
  | counted =>
    simp only [decodeFieldWith]
    split
    · exact ve_quiet rfl
    · apply VE.of_emitS ⟨fpath, .listOf tname, none, "", 0⟩ rfl
      exact (repeatDec_ve _ (fun p s => hd p none s) fpath _ 0 _).bind fun vs t _ => ve_quiet rfl

mutual
theorem decode_ve : (t : Ty) → ∀ (path : Path) (sel : Option Int) (s : St), VE s (decode true t path sel s)
  | .prim p, path, sel, s => by simp only [decode]; exact readPrim_ve p path s
  | .struct name isP fs, path, sel, s => by
    simp only [decode]
    apply VE.of_emitS ⟨path, .named name false, none, "", 0⟩ rfl
    exact (fields_ve fs path [] _).bind fun vals t _ => ve_quiet rfl
  | .tpm2bBytes name szName szP bufName elem, path, sel, s => by
    simp only [decode]
    apply VE.of_emitS ⟨path, .named name false, none, "", 0⟩ rfl
    refine (readPrim_ve szP _ _).bind fun nv s1 _ => ?_
    split
    · exact ve_quiet rfl
    · refine (openRegion_ve _ _ _ s1).bind fun _ s2 _ => ?_
      refine (readPrimList_ve elem _ _ s2).bind fun bv s3 _ => ?_
      exact (assertDone_ve _ s3).bind fun _ s4 _ => ve_quiet rfl
  | .tpm2b name szName szP bufName body, path, sel, s => by
    simp only [decode]
    apply VE.of_emitS ⟨path, .named name false, none, "", 0⟩ rfl
    refine (readPrim_ve szP _ _).bind fun nv s1 _ => ?_
    split
    · exact ve_quiet rfl
    · refine (openRegion_ve _ _ _ s1).bind fun _ s2 _ => ?_
      split
      · apply VE.of_emitS ⟨path ++ [⟨bufName, none⟩], body.eventTag, none, "", 0⟩ rfl
        exact (assertDone_ve _ _).bind fun _ s4 _ => ve_quiet rfl
      · exact ownCatch_ve _ _ (decode_ve body _ none s2) fun bv s3 _ =>
          (assertDone_ve _ s3).bind fun _ s4 _ => ve_quiet rfl
  | .union name arms, path, sel, s => by
    simp only [decode]
    apply VE.of_emitS ⟨path, .named name false, none, "", 0⟩ rfl
    split
    · split
      · exact ve_quiet rfl
      · exact ve_quiet rfl
    · exact arm_ve arms name _ path _
  | .bad r, path, sel, s => by simp only [decode]; exact ve_quiet rfl

theorem arm_ve : (arms : Arms) → ∀ (un want : String) (path : Path) (s : St), VE s (decodeArm true arms un want path s)
  | .nil, un, want, path, s => by simp only [decodeArm]; exact ve_quiet rfl
  | .consNone an key rest, un, want, path, s => by
    simp only [decodeArm]
    split
    · exact ve_quiet rfl
    · exact arm_ve rest un want path s
  | .cons an key t rest, un, want, path, s => by
    simp only [decodeArm]
    split
    · exact (decode_ve t _ none s).bind fun v t' _ => ve_quiet rfl
    · exact arm_ve rest un want path s
  | .consBytes an key elem n rest, un, want, path, s => by
    simp only [decodeArm]
    split
    · exact (readListArm_ve elem n _ s).bind fun v t' _ => ve_quiet rfl
    · exact arm_ve rest un want path s

theorem fields_ve : (fs : Fields) → ∀ (path : Path) (vals : List (String × Val)) (s : St),
    VE s (decodeFields true fs path vals s)
  | .nil, path, vals, s => by simp only [decodeFields]; exact ve_quiet rfl
  | .cons fname kind t rest, path, vals, s => by
    simp only [decodeFields]
    exact (fieldWith_ve _ (fun p sel s => decode_ve t p sel s) t.name kind _ vals s).bind fun v t' _ =>
      fields_ve rest path _ t'
end

theorem decodeArea_ve (tb : MsgTables) (enc : Bool) (t : Ty) (path : Path) (s : St) :
    VE s (decodeArea true tb enc t path s) := by
  unfold decodeArea
  split
  · split
    · exact decode_ve t path none s
    · apply VE.of_emitS ⟨path, .named _ true, none, "", 0⟩ rfl
      exact (fields_ve _ path [] _).bind fun vals t' _ => ve_quiet rfl
  · exact decode_ve t path none s

theorem sizedLoop_ve (t : Ty) (path : Path) (cid : Nat) : ∀ (fuel i : Nat) (acc : List Val) (s : St),
    VE s (sizedLoop true t path cid fuel i acc s) := by
  intro fuel
  induction fuel with
  | zero => intro i acc s; exact ve_quiet rfl
  | succ n ih =>
    intro i acc s
    unfold sizedLoop
    split
    · exact ve_quiet rfl
    · split
      · exact ve_quiet rfl
      · split
        · exact ownCatch_ve _ _ (decode_ve t _ none s) fun v t' _ => ih _ _ t'
        · exact (VE.of_scs _ (assertDoneSC_ve _ _)).bind fun _ t' _ => ve_quiet rfl

theorem decodeSized_ve (t : Ty) (path : Path) (cid : Nat) (s : St) : VE s (decodeSized true t path cid s) := by
  unfold decodeSized
  apply VE.of_emitS ⟨path, .listOf t.name, none, "", 0⟩ rfl
  exact sizedLoop_ve t path cid _ 0 [] _

macro "ve_step" : tactic => `(tactic| first
  | (with_reducible refine msgCatch_ve _ _ _ _ _ ?_ (fun _ _ _ => ?_))
  | (with_reducible refine VE.bind ?_ (fun _ _ _ => ?_))
  | split
  | exact ve_quiet rfl | exact ve_quiet rfl
  | exact ve_quiet rfl
  | exact readPrim_ve _ _ _ | exact decodeArea_ve _ _ _ _ _ | exact decodeSized_ve _ _ _ _
  | exact assertDone_ve _ _ | exact openRegion_ve _ _ _ _ | exact setListed_ve _ _ _ _)

theorem decodeCommand_ve (tb : MsgTables) (path : Path) (s0 : St) : VE s0 (decodeCommand true tb path s0) := by
  unfold decodeCommand
  simp only []
  apply VE.of_scs [⟨s0.pos, [], 0, none⟩]
  apply VE.of_emitS ⟨path, .named "Command" false, none, "", 0⟩ rfl
  repeat' ve_step

set_option maxHeartbeats 1000000 in
theorem decodeResponse_ve (tb : MsgTables) (cc : Option Int) (enc : Bool) (path : Path) (s0 : St) :
    VE s0 (decodeResponse true tb cc enc path s0) := by
  unfold decodeResponse
  simp only []
  apply VE.of_scs [⟨s0.pos, [], 0, none⟩]
  apply VE.of_emitS ⟨path, .named "Response" false, none, "", 0⟩ rfl
  repeat' ve_step

theorem decodeStream_ve (tb : MsgTables) (path : Path) : ∀ (fuel : Nat) (s : St), VE s (decodeStream true tb path fuel s) := by
  intro fuel
  induction fuel with
  | zero => intro s; exact ve_quiet rfl
  | succ n ih =>
    intro s
    unfold decodeStream
    split
    · exact VE.of_emitS ⟨path, .named "Command" false, none, "", 0⟩ rfl (ve_quiet rfl)
    · refine (decodeCommand_ve tb path s).bind fun cmd s1 _ => ?_
      split
      · exact ve_quiet rfl
      · split
        · exact VE.of_emitS ⟨path, .named "Response" false, none, "", 0⟩ rfl (ve_quiet rfl)
        · exact (decodeResponse_ve tb _ _ path s1).bind fun _ s2 _ => ih s2


/-- **every strict run**: all fields shown carry valid values -/
theorem runWalker_ve (tb : MsgTables) (top : Top) (x : List Byte) :
    ∀ ke ∈ (stOf (runWalker true tb top x)).out, ValidEv ke.2 := by
  have h : VE (initSt x) (runWalker true tb top x) := by
    unfold runWalker
    cases top with
    | ty t => exact decode_ve t rootPath none _
    | command => exact decodeCommand_ve tb rootPath _
    | response cc enc => exact decodeResponse_ve tb cc enc rootPath _
    | stream => exact decodeStream_ve tb rootPath _ _
  obtain ⟨new, h1, m⟩ := h
  rw [h1]; simpa [initSt] using m
