import TpmProofs.SpecPaths
/-!
# The events of `spec t path …` all lie under `path`

`Under path evs`: `path` is a prefix of every event's path.  Elements of a list at `path` carry the index in the last
node, so the events of a list lie under `path.dropLast` only.
-/

def Under (path : Path) (evs : List SEv) : Prop := ∀ e ∈ evs, path <+: e.2.path

theorem Under.nil (p : Path) : Under p [] := by intro e he; cases he

theorem Under.cons {p : Path} {e : SEv} {evs : List SEv} (h1 : p <+: e.2.path) (h2 : Under p evs) :
    Under p (e :: evs) := by
  intro x hx
  cases hx with
  | head => exact h1
  | tail _ h => exact h2 x h

theorem Under.append {p : Path} {a b : List SEv} (h1 : Under p a) (h2 : Under p b) : Under p (a ++ b) := by
  intro x hx
  rcases List.mem_append.mp hx with h | h
  · exact h1 x h
  · exact h2 x h

theorem Under.shift {p : Path} {a : List SEv} (k : Nat) (h : Under p a) : Under p (shift k a) := by
  intro x hx
  simp only [_root_.shift, List.mem_map] at hx
  obtain ⟨y, hy, rfl⟩ := hx
  exact h y hy

theorem Under.mono {p q : Path} {a : List SEv} (hpq : q <+: p) (h : Under p a) : Under q a :=
  fun e he => List.IsPrefix.trans hpq (h e he)

theorem prefix_snoc (p : Path) (x : PathNode) : p <+: p ++ [x] := List.prefix_append p [x]

theorem dropLast_prefix' (p : Path) : p.dropLast <+: p := List.dropLast_prefix p

theorem dropLast_prefix_elemPath (p : Path) (i : Nat) : p.dropLast <+: elemPath p i := by
  unfold elemPath; exact List.prefix_append _ _

theorem specPrim_under {p : Prim} {path : Path} {v : Val} {bs : List Byte} {evs : List SEv}
    (h : specPrim p path v = some (bs, evs)) : Under path evs := by
  unfold specPrim at h
  split at h
  · simp at h
  · split at h
    · simp only [Option.some.injEq, Prod.mk.injEq] at h
      obtain ⟨_, rfl⟩ := h
      exact Under.cons (List.prefix_refl _) (Under.nil _)
    · simp at h

theorem specRepeat_under (f : Path → Val → Option (List Byte × List SEv))
    (hf : ∀ p v bs evs, f p v = some (bs, evs) → Under p evs) (path : Path) :
    ∀ (vs : List Val) (i : Nat) (bs : List Byte) (evs : List SEv), specRepeat f path vs i = some (bs, evs) →
      Under path.dropLast evs
  | [], i, bs, evs, h => by
    simp only [specRepeat, Option.some.injEq, Prod.mk.injEq] at h
    obtain ⟨_, rfl⟩ := h
    exact Under.nil _
  | v :: vs, i, bs, evs, h => by
    simp only [specRepeat] at h
    split at h
    · simp at h
    · rename_i b e hfe
      split at h
      · simp at h
      · rename_i bs' es' hrest
        simp only [Option.some.injEq, Prod.mk.injEq] at h
        obtain ⟨_, rfl⟩ := h
        exact Under.append (Under.mono (dropLast_prefix_elemPath path i) (hf _ _ _ _ hfe))
          (Under.shift _ (specRepeat_under f hf path vs (i+1) bs' es' hrest))

theorem specPrimList_under {p : Prim} {path : Path} {n : Nat} {v : Val} {bs : List Byte} {evs : List SEv}
    (h : specPrimList p path n v = some (bs, evs)) : Under path.dropLast evs := by
  unfold specPrimList at h
  split at h
  · simp at h
  · split at h
    · simp only [Option.map_eq_some_iff] at h
      obtain ⟨⟨b, e⟩, hr, heq⟩ := h
      simp only [Prod.mk.injEq] at heq
      obtain ⟨_, rfl⟩ := heq
      exact Under.cons (dropLast_prefix' _) (specRepeat_under _ (fun _ _ _ _ h => specPrim_under h) path _ 0 b e hr)
    · simp at h

theorem specFieldWith_under (g : Path → Option Int → Val → Option (List Byte × List SEv))
    (hg : ∀ p sel v bs evs, g p sel v = some (bs, evs) → Under p evs) (tname : String) (kind : FKind)
    (fpath : Path) (vals : List (String × Val)) (v : Val) (bs : List Byte) (evs : List SEv)
    (h : specFieldWith g tname kind fpath vals v = some (bs, evs)) : Under fpath.dropLast evs := by
  cases kind with
  | plain => exact Under.mono (dropLast_prefix' _) (hg _ _ _ _ _ h)
  | selected sel =>
    simp only [specFieldWith] at h
    split at h
    · simp at h
    · exact Under.mono (dropLast_prefix' _) (hg _ _ _ _ _ h)
  | counted =>
    simp only [specFieldWith] at h
    split at h
    · split at h
      · simp only [Option.map_eq_some_iff] at h
        obtain ⟨⟨b, e⟩, hr, heq⟩ := h
        simp only [Prod.mk.injEq] at heq
        obtain ⟨_, rfl⟩ := heq
        exact Under.cons (dropLast_prefix' _)
          (specRepeat_under _ (fun p v bs evs h => hg p none v bs evs h) fpath _ 0 b e hr)
      · simp at h
    · simp at h

theorem under_snoc_dropLast {path : Path} {x : PathNode} {evs : List SEv} (h : Under (path ++ [x]).dropLast evs) :
    Under path evs := by
  simpa using h

mutual
theorem spec_under : (t : Ty) → ∀ (path : Path) (sel : Option Int) (v : Val) (bs : List Byte) (evs : List SEv),
    spec t path sel v = some (bs, evs) → Under path evs
  | .prim p, path, sel, v, bs, evs, h => by
    simp only [spec] at h
    exact specPrim_under h
  | .struct name isP fs, path, sel, v, bs, evs, h => by
    simp only [spec] at h
    split at h
    · simp at h
    · simp only [Option.map_eq_some_iff] at h
      obtain ⟨⟨b, e⟩, hr, heq⟩ := h
      simp only [Prod.mk.injEq] at heq
      obtain ⟨_, rfl⟩ := heq
      exact Under.cons (List.prefix_refl _) (specFields_under fs path _ _ b e hr)
  | .tpm2bBytes name szName szP bufName elem, path, sel, v, bs, evs, h => by
    simp only [spec] at h
    split at h
    · simp at h
    · split at h
      · rename_i nb ne n hsz _
        split at h
        · simp at h
        · rename_i bb be hl
          split at h
          · simp only [Option.some.injEq, Prod.mk.injEq] at h
            obtain ⟨_, rfl⟩ := h
            exact Under.cons (List.prefix_refl _) (Under.append (Under.mono (prefix_snoc _ _) (specPrim_under hsz))
              (Under.shift _ (under_snoc_dropLast (specPrimList_under hl))))
          · simp at h
      · simp at h
  | .tpm2b name szName szP bufName body, path, sel, v, bs, evs, h => by
    simp only [spec] at h
    split at h
    · simp at h
    · split at h
      · rename_i nb ne n hsz _
        split at h
        · split at h
          · simp only [Option.some.injEq, Prod.mk.injEq] at h
            obtain ⟨_, rfl⟩ := h
            exact Under.cons (List.prefix_refl _) (Under.append (Under.mono (prefix_snoc _ _) (specPrim_under hsz))
              (Under.cons (prefix_snoc _ _) (Under.nil _)))
          · simp at h
        · split at h
          · simp at h
          · rename_i bb be hb
            split at h
            · simp only [Option.some.injEq, Prod.mk.injEq] at h
              obtain ⟨_, rfl⟩ := h
              exact Under.cons (List.prefix_refl _) (Under.append (Under.mono (prefix_snoc _ _) (specPrim_under hsz))
                (Under.shift _ (Under.mono (prefix_snoc _ _) (spec_under body _ none _ bb be hb))))
            · simp at h
      · simp at h
  | .union name arms, path, sel, v, bs, evs, h => by
    simp only [spec] at h
    split at h
    · simp at h
    · simp only [Option.map_eq_some_iff] at h
      obtain ⟨⟨b, e⟩, hr, heq⟩ := h
      simp only [Prod.mk.injEq] at heq
      obtain ⟨_, rfl⟩ := heq
      exact Under.cons (List.prefix_refl _) (specArm_under arms _ _ path v b e hr)
  | .bad _, path, sel, v, bs, evs, h => by simp [spec] at h

theorem specArm_under : (arms : Arms) → ∀ (un want : String) (path : Path) (v : Val) (bs : List Byte) (evs : List SEv),
    specArm arms un want path v = some (bs, evs) → Under path evs
  | .nil, un, want, path, v, bs, evs, h => by simp [specArm] at h
  | .consNone an _ rest, un, want, path, v, bs, evs, h => by
    simp only [specArm] at h
    split at h
    · split at h
      · simp only [Option.some.injEq, Prod.mk.injEq] at h
        obtain ⟨_, rfl⟩ := h
        exact Under.nil _
      · simp at h
    · exact specArm_under rest un want path v bs evs h
  | .cons an _ t rest, un, want, path, v, bs, evs, h => by
    simp only [specArm] at h
    split at h
    · split at h
      · simp at h
      · exact Under.mono (prefix_snoc _ _) (spec_under t _ none _ bs evs h)
    · exact specArm_under rest un want path v bs evs h
  | .consBytes an _ elem n rest, un, want, path, v, bs, evs, h => by
    simp only [specArm] at h
    split at h
    · split at h
      · simp at h
      · cases n with
        | none => simp [specListArm] at h
        | some k => exact under_snoc_dropLast (specPrimList_under (by simpa [specListArm] using h))
    · exact specArm_under rest un want path v bs evs h

theorem specFields_under : (fs : Fields) → ∀ (path : Path) (vals fvs : List (String × Val)) (bs : List Byte) (evs : List SEv),
    specFields fs path vals fvs = some (bs, evs) → Under path evs
  | .nil, path, vals, fvs, bs, evs, h => by
    simp only [specFields] at h
    split at h
    · simp only [Option.some.injEq, Prod.mk.injEq] at h
      obtain ⟨_, rfl⟩ := h
      exact Under.nil _
    · simp at h
  | .cons fname kind t rest, path, vals, [], bs, evs, h => by simp [specFields] at h
  | .cons fname kind t rest, path, vals, (fn, v) :: fvs', bs, evs, h => by
    simp only [specFields] at h
    split at h
    · split at h
      · simp at h
      · rename_i b e hf
        split at h
        · simp at h
        · rename_i bs' es' hr
          simp only [Option.some.injEq, Prod.mk.injEq] at h
          obtain ⟨_, rfl⟩ := h
          exact Under.append
            (under_snoc_dropLast (specFieldWith_under _ (fun p sel v bs evs h => spec_under t p sel v bs evs h) _ _ _ _ _ _ _ hf))
            (Under.shift _ (specFields_under rest path _ fvs' bs' es' hr))
    · simp at h
end
