import TpmProofs.MsgOk
import TpmProofs.SpecPaths
import TpmProofs.PumpFacts
/-!
# What `Binary.marshal` shows of a well-formed command, response or stream

The walker-level theorems of `MsgOk` are pushed through the byte pump: the events, in order, each with the
number of bytes pulled from the source when it is yielded (one byte of look-ahead, never past the end), and
how the run ends.
-/

/-- the events a consumer sees for a trace: pull count = bytes consumed + the look-ahead byte, capped by the input -/
def shown (len : Nat) (tr : List (Nat × Event)) : List (Nat × Event) := tr.map fun ke => (min (ke.1 + 1) len, ke.2)

/-- the command code the pump remembers after a trace -/
def ccAfter (tr : List (Nat × Event)) (cc : Option Int) : Option Int := tr.foldl (fun c ke => ccOf ke.2 c) cc

theorem pumpEvents_all (isStream : Bool) (len : Nat) : ∀ (out acc : List (Nat × Event)) (cc : Option Int),
    (∀ ke ∈ out, (isStream && ke.1 == len && isRootEllipsis ke.2) = false) →
    pumpEvents isStream len out acc cc = (acc ++ shown len out, ccAfter out cc, false)
  | [], acc, cc, _ => by simp [pumpEvents, shown, ccAfter]
  | (k, e) :: rest, acc, cc, h => by
    have h0 := h (k, e) (by simp)
    simp only at h0
    unfold pumpEvents
    simp only [h0, Bool.false_eq_true, if_false]
    rw [pumpEvents_all isStream len rest _ _ (fun ke hke => h ke (by simp [hke]))]
    simp [shown, ccAfter]

theorem pumpEvents_stop (len : Nat) (out : List (Nat × Event)) (e : Event) (acc : List (Nat × Event)) (cc : Option Int)
    (h : ∀ ke ∈ out, (ke.1 == len && isRootEllipsis ke.2) = false) (he : isRootEllipsis e = true) :
    pumpEvents true len (out ++ [(len, e)]) acc cc = (acc ++ shown len out, ccAfter out cc, true) := by
  induction out generalizing acc cc with
  | nil => simp [pumpEvents, he, shown, ccAfter]
  | cons x rest ih =>
    obtain ⟨k, e'⟩ := x
    have h0 := h (k, e') (by simp)
    simp only at h0
    simp only [List.cons_append]
    unfold pumpEvents
    simp only [Bool.true_and, h0, Bool.false_eq_true, if_false]
    rw [ih _ _ (fun ke hke => h ke (by simp [hke]))]
    simp [shown, ccAfter]

/-- how a run that is not a stream ends: as the walker's result dictates -/
theorem outcome_nonstream (tb : MsgTables) (top : Top) (hs : top.isStream = false) (x : List Byte) :
    (marshalRun true tb top x).outcome =
      pumpOutcome x (stOf (runWalker true tb top x)).pos (resOf (runWalker true tb top x)) := by
  simp only [marshalRun, pump, hs]
  rw [pumpEvents_all false _ _ _ _ (by intro ke _; simp)]
  simp

/-! ## single messages -/

theorem command_run (tb : MsgTables) (p : CmdParts) (bs : List Byte) (evs : List SEv) (htb : 0 < tb.tagCmd.size)
    (h : specCommand tb rootPath p = some (bs, evs)) :
    marshalRun true tb .command bs =
      ⟨shown bs.length (stamp 0 evs), .done p.toVal, ccAfter (stamp 0 evs) none⟩ := by
  have hw := decodeCommand_ok tb rootPath p bs evs htb h [] 0 [] []
  simp only [List.append_nil, Nat.zero_add, List.nil_append] at hw
  simp only [marshalRun, runWalker, initSt, Top.isStream, pump, hw, stOf, resOf]
  rw [pumpEvents_all false _ _ _ _ (by intro ke _; simp)]
  simp [pumpOutcome]

theorem response_run (tb : MsgTables) (cc : Option Int) (enc : Bool) (p : RspParts) (bs : List Byte) (evs : List SEv)
    (htb : 0 < tb.tagRsp.size) (h : specResponse tb cc enc rootPath p = some (bs, evs)) :
    marshalRun true tb (.response cc enc) bs =
      ⟨shown bs.length (stamp 0 evs), .done p.toVal, ccAfter (stamp 0 evs) none⟩ := by
  have hw := decodeResponse_ok tb cc enc rootPath p bs evs htb h [] 0 [] []
  simp only [List.append_nil, Nat.zero_add, List.nil_append] at hw
  simp only [marshalRun, runWalker, initSt, Top.isStream, pump, hw, stOf, resOf]
  rw [pumpEvents_all false _ _ _ _ (by intro ke _; simp)]
  simp [pumpOutcome]

/-! ## where the root events of a stream sit -/

theorem specArea_deep {tb : MsgTables} {enc : Bool} {t : Ty} {path : Path} {v : Val} {bs : List Byte} {evs : List SEv}
    (h : specArea tb enc t path v = some (bs, evs)) : Deep path.length evs := by
  unfold specArea at h
  split at h
  · split at h
    · exact spec_deep _ _ _ _ _ _ h
    · split at h
      · simp at h
      · simp only [Option.map_eq_some_iff] at h
        obtain ⟨⟨b, e⟩, hr, heq⟩ := h
        simp only [Prod.mk.injEq] at heq
        obtain ⟨_, rfl⟩ := heq
        exact Deep.cons (Nat.le_refl _) (specFields_deep _ _ _ _ _ _ hr)
  · exact spec_deep _ _ _ _ _ _ h

theorem sessSpec_deep (t : Ty) (p : Path) (v : Val) (bs : List Byte) (evs : List SEv)
    (h : sessSpec t p v = some (bs, evs)) : Deep p.length evs := by
  unfold sessSpec at h
  split at h
  · rename_i b e hs
    split at h
    · simp at h
    · simp only [Option.some.injEq, Prod.mk.injEq] at h
      obtain ⟨_, rfl⟩ := h
      exact spec_deep _ _ _ _ _ _ hs
  · simp at h

theorem specSessions_deep {t : Ty} {path : Path} {v : Val} {bs : List Byte} {evs : List SEv}
    (h : specSessions t path v = some (bs, evs)) : Deep path.length evs := by
  unfold specSessions at h
  split at h
  · simp at h
  · simp only [Option.map_eq_some_iff] at h
    obtain ⟨⟨b, e⟩, hr, heq⟩ := h
    simp only [Prod.mk.injEq] at heq
    obtain ⟨_, rfl⟩ := heq
    exact Deep.cons (Nat.le_refl _) (specRepeat_deep _ (sessSpec_deep t) path _ 0 b e hr)

theorem deep_snoc {path : Path} {x : PathNode} {evs : List SEv} (h : Deep (path ++ [x]).length evs) :
    Deep (path.length + 1) evs := by simpa using h

theorem specCmdAuth_deep {tb : MsgTables} {path : Path} {sess : Bool} {auth : Option (Val × Val)} {bs : List Byte}
    {evs : List SEv} {enc : Bool} (h : specCmdAuth tb path sess auth = some (bs, evs, enc)) :
    Deep (path.length + 1) evs := by
  unfold specCmdAuth at h
  split at h
  · simp only [Option.some.injEq, Prod.mk.injEq] at h
    obtain ⟨_, rfl, _⟩ := h
    exact Deep.nil _
  · split at h
    · rename_i ba ea bsess es enc' ha hs hflag
      split at h
      · simp only [Option.some.injEq, Prod.mk.injEq] at h
        obtain ⟨_, rfl, _⟩ := h
        exact Deep.append (deep_snoc (specPrim_deep ha)) (Deep.shift _ (deep_snoc (specSessions_deep hs)))
      · simp at h
    · simp at h
  · simp at h

/-- a command's events: its root event at offset 0, everything else strictly below its path -/
theorem specCommand_shape {tb : MsgTables} {path : Path} {p : CmdParts} {bs : List Byte} {evs : List SEv}
    (h : specCommand tb path p = some (bs, evs)) :
    ∃ rest, evs = (0, ⟨path, .named "Command" false, none, "", 0⟩) :: rest ∧ Deep (path.length + 1) rest := by
  unfold specCommand at h
  split at h
  · rename_i b1 e1 b2 e2 b3 e3 h1 h2 h3
    simp only [] at h
    split at h
    · split at h
      · rename_i b4 e4 b5 e5 enc h4 h5
        split at h
        · rename_i b6 e6 h6
          split at h
          · simp only [Option.some.injEq, Prod.mk.injEq] at h
            obtain ⟨_, rfl⟩ := h
            refine ⟨_, rfl, ?_⟩
            exact Deep.append (deep_snoc (specPrim_deep h1)) (Deep.shift _ (Deep.append (deep_snoc (specPrim_deep h2))
              (Deep.shift _ (Deep.append (deep_snoc (specPrim_deep h3)) (Deep.shift _ (Deep.append
                (deep_snoc (spec_deep _ _ _ _ _ _ h4)) (Deep.shift _ (Deep.append (specCmdAuth_deep h5)
                  (Deep.shift _ (deep_snoc (specArea_deep h6)))))))))))
          · simp at h
        · simp at h
      · simp at h
    · simp at h
  · simp at h

theorem specRspBody_deep {tb : MsgTables} {enc : Bool} {hty pty : Ty} {path : Path} {sess : Bool} {b : RspBody}
    {bs : List Byte} {evs : List SEv} (h : specRspBody tb enc hty pty path sess b = some (bs, evs)) :
    Deep (path.length + 1) evs := by
  unfold specRspBody at h
  split at h
  · rename_i b4 e4 b6 e6 h4 h6
    split at h
    · simp only [Option.some.injEq, Prod.mk.injEq] at h
      obtain ⟨_, rfl⟩ := h
      exact Deep.append (deep_snoc (specArea_deep h4)) (Deep.shift _ (deep_snoc (specArea_deep h6)))
    · split at h
      · rename_i bp ep bsess es flag hp hs hflag
        split at h
        · simp only [Option.some.injEq, Prod.mk.injEq] at h
          obtain ⟨_, rfl⟩ := h
          exact Deep.append (deep_snoc (specArea_deep h4)) (Deep.shift _ (Deep.append (deep_snoc (specPrim_deep hp))
            (Deep.shift _ (Deep.append (deep_snoc (specArea_deep h6)) (Deep.shift _ (deep_snoc (specSessions_deep hs)))))))
        · simp at h
      · simp at h
    · simp at h
  · simp at h

theorem specResponse_shape {tb : MsgTables} {cc : Option Int} {enc : Bool} {path : Path} {p : RspParts} {bs : List Byte}
    {evs : List SEv} (h : specResponse tb cc enc path p = some (bs, evs)) :
    ∃ rest, evs = (0, ⟨path, .named "Response" false, none, "", 0⟩) :: rest ∧ Deep (path.length + 1) rest := by
  unfold specResponse at h
  split at h
  · rename_i b1 e1 b2 e2 b3 e3 h1 h2 h3
    simp only [] at h
    split at h
    · rename_i br er hrest
      split at h
      · simp only [Option.some.injEq, Prod.mk.injEq] at h
        obtain ⟨_, rfl⟩ := h
        refine ⟨_, rfl, ?_⟩
        have hr : Deep (path.length + 1) er := by
          split at hrest
          · split at hrest
            · simp only [Option.some.injEq, Prod.mk.injEq] at hrest
              obtain ⟨_, rfl⟩ := hrest
              exact Deep.nil _
            · simp at hrest
          · split at hrest
            · exact specRspBody_deep hrest
            · simp at hrest
        exact Deep.append (deep_snoc (specPrim_deep h1)) (Deep.shift _ (Deep.append (deep_snoc (specPrim_deep h2))
          (Deep.shift _ (Deep.append (deep_snoc (specPrim_deep h3)) (Deep.shift _ hr)))))
      · simp at h
    · simp at h
  · simp at h

/-- in a stream's event list every event is strictly below the stream's path or sits strictly before the end -/
def Inner (n len : Nat) (evs : List SEv) : Prop := ∀ e ∈ evs, n < e.2.path.length ∨ e.1 < len

theorem Inner.of_deep {n len : Nat} {evs : List SEv} (h : Deep (n + 1) evs) : Inner n len evs :=
  fun e he => Or.inl (h e he)

theorem Inner.append {n len : Nat} {a b : List SEv} (h1 : Inner n len a) (h2 : Inner n len b) : Inner n len (a ++ b) := by
  intro x hx
  simp only [List.mem_append] at hx
  rcases hx with hx | hx
  · exact h1 x hx
  · exact h2 x hx

theorem Inner.shift {n len k : Nat} {a : List SEv} (h : Inner n len a) : Inner n (len + k) (shift k a) := by
  intro x hx
  simp only [_root_.shift, List.mem_map] at hx
  obtain ⟨y, hy, rfl⟩ := hx
  rcases h y hy with h | h
  · exact Or.inl h
  · exact Or.inr (by simp; omega)

theorem Inner.mono {n len len' : Nat} {a : List SEv} (hl : len ≤ len') (h : Inner n len a) : Inner n len' a := by
  intro x hx
  rcases h x hx with h | h
  · exact Or.inl h
  · exact Or.inr (by omega)

theorem Inner.msg {n len : Nat} {m : MEvent} {rest : List SEv} (hlen : 0 < len) (h : Deep (n + 1) rest) :
    Inner n len ((0, m) :: rest) := by
  intro x hx
  simp only [List.mem_cons] at hx
  rcases hx with rfl | hx
  · exact Or.inr hlen
  · exact Or.inl (h x hx)

theorem specStream_inner (tb : MsgTables) (path : Path) (last : Option CmdParts) (hc : 0 < tb.tagCmd.size)
    (hr : 0 < tb.tagRsp.size) :
    ∀ (xs : List (CmdParts × RspParts)) (bs : List Byte) (evs : List SEv), specStream tb path last xs = some (bs, evs) →
      Inner path.length bs.length evs
  | [], bs, evs, h => by
    unfold specStream at h
    cases last with
    | none =>
      simp only [Option.some.injEq, Prod.mk.injEq] at h
      obtain ⟨rfl, rfl⟩ := h
      intro e he; cases he
    | some c =>
      simp only at h
      split at h
      · rename_i bc ec enc hcmd henc
        simp only [Option.some.injEq, Prod.mk.injEq] at h
        obtain ⟨rfl, rfl⟩ := h
        obtain ⟨rest, rfl, hd⟩ := specCommand_shape hcmd
        exact Inner.msg (specCommand_pos hc hcmd) hd
      · simp at h
  | (c, r) :: more, bs, evs, h => by
    unfold specStream at h
    split at h
    · rename_i bc ec enc hcmd henc
      split at h
      · rename_i br er bm em hrsp hmore
        simp only [Option.some.injEq, Prod.mk.injEq] at h
        obtain ⟨rfl, rfl⟩ := h
        obtain ⟨rc, rfl, hdc⟩ := specCommand_shape hcmd
        obtain ⟨rr, rfl, hdr⟩ := specResponse_shape hrsp
        have hposc := specCommand_pos hc hcmd
        have hposr := specResponse_pos hr hrsp
        have ih := specStream_inner tb path last hc hr more bm em hmore
        simp only [List.length_append]
        refine Inner.append (Inner.mono (by omega) (Inner.msg hposc hdc)) ?_
        have h2 : Inner path.length (br.length + bm.length)
            ((0, ⟨path, .named "Response" false, none, "", 0⟩) :: rr ++ shift br.length em) :=
          Inner.append (Inner.mono (by omega) (Inner.msg hposr hdr))
            (by have := Inner.shift (k := br.length) ih; rwa [Nat.add_comm] at this)
        have := Inner.shift (k := bc.length) h2
        rwa [Nat.add_comm] at this
      · simp at h
    · simp at h

/-! ## the stream through the pump -/

theorem stream_run (tb : MsgTables) (last : Option CmdParts) (xs : List (CmdParts × RspParts)) (bs : List Byte)
    (evs : List SEv) (hc : 0 < tb.tagCmd.size) (hr : 0 < tb.tagRsp.size)
    (h : specStream tb rootPath last xs = some (bs, evs)) :
    marshalRun true tb .stream bs = ⟨shown bs.length (stamp 0 evs), .silent, ccAfter (stamp 0 evs) none⟩ := by
  have hw := decodeStream_ok tb rootPath last hc hr xs bs evs h (bs.length + 1)
    (by have := specStream_len tb rootPath last hc xs bs evs h; omega) 0 [] []
  simp only [Nat.zero_add, List.nil_append] at hw
  simp only [marshalRun, runWalker, initSt, Top.isStream, pump, hw, stOf, resOf]
  have hin := specStream_inner tb rootPath last hc hr xs bs evs h
  rw [pumpEvents_stop bs.length (stamp 0 evs) _ [] none (by
    intro ke hke
    simp only [stamp, List.mem_map] at hke
    obtain ⟨e, he, rfl⟩ := hke
    rcases hin e he with hlt | hlt
    · have : (e.2.path == rootPath) = false := by
        apply beq_false_of_ne
        intro heq; rw [heq] at hlt; simp [rootPath] at hlt
      simp [isRootEllipsis, this]
    · have : (0 + e.1 == bs.length) = false := by
        apply beq_false_of_ne; omega
      simp only [this, Bool.false_and]) (by cases last <;> simp [streamTail, isRootEllipsis])]
  simp
