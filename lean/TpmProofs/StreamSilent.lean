import TpmProofs.ShapeMsg
import TpmProofs.StreamFacts
/-!
# The pump ends a stream run silently only if the stream walker ended cleanly (C05)

The pump stops silently at a root `...` event stamped with the input length.  Inside a message such an event is only the
message's first event, stamped with the position the message starts at — which is before the end of the input, because the loop
starts a message only when input is left.  So a root event stamped with the input length is the loop's own announcement of the
next message, after which the walker returns.
-/

/-- in the events of one message decoded from `s`, a root `...` event is stamped `s.pos` -/
def RootsAt (p : Nat) (new : List (Nat × Event)) : Prop := ∀ ke ∈ new, isRootEllipsis ke.2 = true → ke.1 = p

theorem msg_roots {r : R Val} {s : St} {okc : MEvent → Prop} (htr : Tr (GM1 okc rootPath) s r) (hacct : Acct s r) :
    ∃ new, (stOf r).out = s.out ++ new ∧ RootsAt s.pos new := by
  obtain ⟨new, o1, hgm⟩ := htr
  obtain ⟨new', off, o2, _, _, hst, _⟩ := hacct
  have : new = new' := List.append_cancel_left (o1.symm.trans o2)
  subst this
  refine ⟨new, o1, ?_⟩
  obtain ⟨_, m0, E', hE, hm0, hrest⟩ := hgm
  cases new with
  | nil => simp at hE
  | cons ke0 rest =>
    simp only [List.map_cons, List.cons.injEq] at hE
    intro ke hke hroot
    rcases List.mem_cons.mp hke with rfl | hke
    · -- the first event: stamped with the start position plus its own (no) bytes
      obtain ⟨k, e⟩ := ke
      simp only [Stamped] at hst
      have hb : e.bytes = [] := by
        cases e with
        | warning w => simp [isRootEllipsis] at hroot
        | marshal m =>
          simp only [isRootEllipsis, Bool.and_eq_true, Option.isNone_iff_eq_none] at hroot
          simp [Event.bytes, MEvent.bytes, hroot.2]
      rw [hst.1, hb]; simp
    · exfalso
      obtain ⟨k, e⟩ := ke
      cases e with
      | warning w => simp [isRootEllipsis] at hroot
      | marshal m =>
        have hmem : Event.marshal m ∈ E' := by rw [← hE.2]; exact List.mem_map_of_mem (f := (·.2)) hke
        simp only [isRootEllipsis, Bool.and_eq_true, beq_iff_eq] at hroot
        exact hrest m hmem hroot.1

/-- no root `...` event is stamped `L` -/
def NoRootAt (L : Nat) (new : List (Nat × Event)) : Prop := ∀ ke ∈ new, isRootEllipsis ke.2 = true → ke.1 < L

theorem NoRootAt.append {L : Nat} {a b : List (Nat × Event)} (ha : NoRootAt L a) (hb : NoRootAt L b) : NoRootAt L (a ++ b) := by
  intro ke hke
  rcases List.mem_append.mp hke with h | h
  · exact ha ke h
  · exact hb ke h

theorem NoRootAt.of_roots {L p : Nat} {new : List (Nat × Event)} (h : RootsAt p new) (hp : p < L) : NoRootAt L new :=
  fun ke hke hr => by rw [h ke hke hr]; exact hp

/-- the stream loop: either it returns, and then its last event is the only root `...` event stamped with the end of the input;
or it fails, and then there is no such event at all -/
theorem decodeStream_roots {okc : MEvent → Prop} {pk : Prim → Bool} (hpk : PrimLink true pk okc) (tb : MsgTables)
    (hs : tb.shapeOk pk = true) (hw : tb.wf = true) :
    ∀ (fuel : Nat) (s : St), ∃ new, (stOf (decodeStream true tb rootPath fuel s)).out = s.out ++ new ∧
      ((∃ v t, decodeStream true tb rootPath fuel s = .ok (v, t)) ∨ NoRootAt (s.pos + s.inp.length) new) := by
  intro fuel
  induction fuel with
  | zero => intro s; exact ⟨[], by simp [decodeStream, crash, stOf], Or.inr (fun ke hke => by cases hke)⟩
  | succ n ih =>
    intro s
    unfold decodeStream
    by_cases he : s.inp.isEmpty = true
    · rw [if_pos he]
      exact ⟨[(s.pos, .marshal ⟨rootPath, .named "Command" false, none, "", 0⟩)], rfl, Or.inl ⟨_, _, rfl⟩⟩
    · rw [if_neg he]
      have hpos : 0 < s.inp.length := by
        cases hi : s.inp with
        | nil => rw [hi] at he; simp at he
        | cons a l => simp
      obtain ⟨newc, oc, rc⟩ := msg_roots (decodeCommand_gd true hpk tb hs rootPath s) (decodeCommand_acct tb rootPath s)
      have hnc : NoRootAt (s.pos + s.inp.length) newc := NoRootAt.of_roots rc (by omega)
      cases hc : decodeCommand true tb rootPath s with
      | error e =>
        obtain ⟨e, t⟩ := e
        rw [hc] at oc
        exact ⟨newc, by simpa [R.bind, stOf] using oc, Or.inr hnc⟩
      | ok vs =>
        obtain ⟨cmd, s1⟩ := vs
        rw [hc] at oc
        simp only [stOf] at oc
        obtain ⟨p, bs, evs, _, _, hi1, hp1, _, _⟩ := decodeCommand_sound tb hw rootPath s s1 cmd hc
        have hL : s1.pos + s1.inp.length = s.pos + s.inp.length := by rw [hp1, hi1]; simp; omega
        simp only [R.bind]
        split
        · exact ⟨newc, by simpa [crash, stOf] using oc, Or.inr hnc⟩
        · by_cases he1 : s1.inp.isEmpty = true
          · rw [if_pos he1]
            exact ⟨newc ++ [(s1.pos, .marshal ⟨rootPath, .named "Response" false, none, "", 0⟩)],
              by simp [stOf, emitM, emit, oc], Or.inl ⟨_, _, rfl⟩⟩
          · rw [if_neg he1]
            have hpos1 : 0 < s1.inp.length := by
              cases hi : s1.inp with
              | nil => rw [hi] at he1; simp at he1
              | cons a l => simp
            rename_i enc _
            obtain ⟨newr, or', rr⟩ := msg_roots (decodeResponse_gd true hpk tb hs ((objField cmd "commandCode").bind vInt) enc rootPath s1)
              (decodeResponse_acct tb _ enc rootPath s1)
            have hnr : NoRootAt (s.pos + s.inp.length) newr := NoRootAt.of_roots rr (by omega)
            cases hr : decodeResponse true tb ((objField cmd "commandCode").bind vInt) enc rootPath s1 with
            | error e =>
              obtain ⟨e, t⟩ := e
              rw [hr] at or'
              refine ⟨newc ++ newr, ?_, Or.inr (hnc.append hnr)⟩
              simp only [stOf] at or' ⊢
              rw [or', oc, List.append_assoc]
            | ok vs2 =>
              obtain ⟨rsp, s2⟩ := vs2
              rw [hr] at or'
              simp only [stOf] at or'
              obtain ⟨p2, bs2, evs2, _, _, hi2, hp2, _, _⟩ := decodeResponse_sound tb hw _ enc rootPath s1 s2 rsp hr
              have hL2 : s2.pos + s2.inp.length = s.pos + s.inp.length := by rw [← hL, hp2, hi2]; simp; omega
              obtain ⟨newt, ot, rt⟩ := ih s2
              refine ⟨newc ++ newr ++ newt, ?_, ?_⟩
              · rw [ot, or', oc]; simp [List.append_assoc]
              · rcases rt with hok | hno
                · exact Or.inl hok
                · rw [hL2] at hno
                  exact Or.inr ((hnc.append hnr).append hno)

/-- **the pump ends a stream run silently only if the stream walker returned** -/
theorem silent_walker_ok {okc : MEvent → Prop} {pk : Prim → Bool} (hpk : PrimLink true pk okc) (tb : MsgTables)
    (hs : tb.shapeOk pk = true) (hw : tb.wf = true) (x : List Byte)
    (h : (marshalRun true tb .stream x).outcome = .silent) : ∃ v s', runWalker true tb .stream x = .ok (v, s') := by
  have hflag : (stOf (runWalker true tb .stream x)).out.any (fun ke => ke.1 == x.length && isRootEllipsis ke.2) = true := by
    have := (pumpEvents_stream x.length (stOf (runWalker true tb .stream x)).out [] none).2
    by_cases hf : (pumpEvents true x.length (stOf (runWalker true tb .stream x)).out [] none).2.2 = true
    · rw [this] at hf; exact hf
    · exfalso
      simp only [marshalRun, pump, Top.isStream, hf, Bool.false_eq_true, if_false] at h
      exact pumpOutcome_ne_silent _ _ _ h
  obtain ⟨new, o, hcase⟩ := decodeStream_roots hpk tb hs hw (x.length + 1) (initSt x)
  rcases hcase with hok | hno
  · simpa [runWalker] using hok
  · exfalso
    simp only [runWalker] at hflag
    rw [o] at hflag
    simp only [initSt, List.nil_append, List.any_eq_true, Bool.and_eq_true, beq_iff_eq] at hflag
    obtain ⟨ke, hke, hk, hroot⟩ := hflag
    have := hno ke hke hroot
    simp only [initSt, List.length_nil, Nat.zero_add] at this
    omega
