import TpmProofs.Shape
import TpmProofs.ShapeMsg
/-!
# No list's run in a decoder stream is ended by a byte-buffer parent (`endsOk`, C14), either mode, every input

`endsOk` (TpmModel/Print.lean) is the hypothesis of `c14_buffers_are_blocks`.  It is proved of the decoder here.  The static reason
(`Ty.eoOk`, decided by the kernel on the regenerated tables): a `list[BYTE]` field is never the first field of a list element, is
always directly preceded by a plain primitive field of the same structure (its length), and no union with a byte-array member is a
list element.  The dynamic part is compositional like `Shape.lean`; the path facts come from `decode_gd` & co.
-/

/-! ## static side conditions -/

def isBufField (k : FKind) (t : Ty) : Bool := k == .counted && t.name == "BYTE"

def Fields.headMayBuf : Fields → Bool
  | .nil => false
  | .cons _ k t _ => isBufField k t

def Arms.noByteArm : Arms → Bool
  | .nil => true
  | .consNone _ _ rest => rest.noByteArm
  | .cons _ _ _ rest => rest.noByteArm
  | .consBytes _ _ elem _ rest => elem.name != "BYTE" && rest.noByteArm

/-- as a list element: the event after the element's own event is not a byte-buffer parent -/
def Ty.elemOk : Ty → Bool
  | .struct _ _ fs => !fs.headMayBuf
  | .union _ arms => arms.noByteArm
  | _ => true

mutual
def Ty.eoOk : Ty → Bool
  | .prim _ => true
  | .struct _ _ fs => fs.eoOk
  | .tpm2bBytes _ _ _ _ _ => true
  | .tpm2b _ _ _ _ body => body.eoOk
  | .union _ arms => arms.eoOk
  | .bad _ => true
def Fields.eoOk : Fields → Bool
  | .nil => true
  | .cons _ k t rest =>
    t.eoOk && (k != .counted || t.elemOk) && (!rest.headMayBuf || (t.isPrimTy && k == .plain)) && rest.eoOk
def Arms.eoOk : Arms → Bool
  | .nil => true
  | .consNone _ _ rest => rest.eoOk
  | .cons _ _ t rest => t.eoOk && rest.eoOk
  | .consBytes _ _ _ _ rest => rest.eoOk
end

def Ty.areaEo (t : Ty) (encParam : Ty) : Bool :=
  t.eoOk &&
  (match encVariant encParam t with
   | some (_, fs) => fs.eoOk
   | none => true)

def MsgTables.eoOk (tb : MsgTables) : Bool :=
  tb.authCmd.eoOk && tb.authCmd.elemOk && tb.authRsp.eoOk && tb.authRsp.elemOk &&
  (tb.cmdHandles ++ tb.cmdParams ++ tb.rspHandles ++ tb.rspParams).all fun kt => kt.2.areaEo tb.encParam

/-! ## list lemmas -/

def firstM : List Event → Option MEvent
  | [] => none
  | .warning _ :: r => firstM r
  | .marshal m :: _ => some m

def headBuf (E : List Event) : Bool :=
  match firstM E with
  | some c => isBufParent c
  | none => false

def noLP (E : List Event) : Prop := ∀ p, .marshal p ∈ E → isListParent p = false

theorem firstM_append : ∀ (A B : List Event), firstM (A ++ B) = match firstM A with | some c => some c | none => firstM B
  | [], B => by simp [firstM]
  | .warning _ :: A, B => by simp only [List.cons_append, firstM]; exact firstM_append A B
  | .marshal m :: A, B => by simp [firstM]

theorem firstM_gw : ∀ (W : List Event), GW W → firstM W = none
  | [], _ => rfl
  | .warning _ :: W, h => by
    simp only [firstM]; exact firstM_gw W (fun e he => h e (List.mem_cons_of_mem _ he))
  | .marshal m :: W, h => by have := h (.marshal m) (List.mem_cons_self ..); simp [isWarn] at this

theorem firstM_mem : ∀ (E : List Event) (c : MEvent), firstM E = some c → .marshal c ∈ E
  | [], c, h => by simp [firstM] at h
  | .warning _ :: E, c, h => List.mem_cons_of_mem _ (firstM_mem E c (by simpa [firstM] using h))
  | .marshal m :: E, c, h => by simp only [firstM, Option.some.injEq] at h; subst h; exact List.mem_cons_self ..

theorem firstNonChild_append (P : Path) : ∀ (A B : List Event),
    firstNonChild P (A ++ B) = match firstNonChild P A with | some c => some c | none => firstNonChild P B
  | [], B => by simp [firstNonChild]
  | .warning _ :: A, B => by simp only [List.cons_append, firstNonChild]; exact firstNonChild_append P A B
  | .marshal m :: A, B => by
    simp only [List.cons_append, firstNonChild]
    split
    · exact firstNonChild_append P A B
    · rfl

theorem firstNonChild_mem (P : Path) : ∀ (E : List Event) (c : MEvent), firstNonChild P E = some c → .marshal c ∈ E
  | [], c, h => by simp [firstNonChild] at h
  | .warning _ :: E, c, h => List.mem_cons_of_mem _ (firstNonChild_mem P E c (by simpa [firstNonChild] using h))
  | .marshal m :: E, c, h => by
    simp only [firstNonChild] at h
    split at h
    · exact List.mem_cons_of_mem _ (firstNonChild_mem P E c h)
    · simp only [Option.some.injEq] at h; subst h; exact List.mem_cons_self ..

theorem firstNonChild_nonchild (P : Path) : ∀ (B : List Event), (∀ m, .marshal m ∈ B → isChild P m.path = false) →
    firstNonChild P B = firstM B
  | [], _ => rfl
  | .warning _ :: B, h => by
    simp only [firstNonChild, firstM]
    exact firstNonChild_nonchild P B (fun m hm => h m (List.mem_cons_of_mem _ hm))
  | .marshal m :: B, h => by
    simp [firstNonChild, firstM, h m (List.mem_cons_self ..)]

theorem headBuf_of_firstM {E : List Event} {c : MEvent} (h : firstM E = some c) (hb : headBuf E = false) : isBufParent c = false := by
  simpa [headBuf, h] using hb

theorem headBuf_gw {W : List Event} (h : GW W) : headBuf W = false := by simp [headBuf, firstM_gw W h]

theorem headBuf_append (A B : List Event) : headBuf (A ++ B) = (match firstM A with | some c => isBufParent c | none => headBuf B) := by
  simp only [headBuf, firstM_append]
  cases firstM A <;> rfl

theorem noLP.of_gw {W : List Event} (h : GW W) : noLP W := fun p hp => (gw_no_marshal h p hp).elim
theorem noLP.append {A B : List Event} (ha : noLP A) (hb : noLP B) : noLP (A ++ B) := by
  intro p hp
  rcases List.mem_append.mp hp with h | h
  · exact ha p h
  · exact hb p h
theorem noLP.of_av {E : List Event} (h : AV E) : noLP E := by
  intro p hp
  have := h p hp
  cases hv : p.val with
  | none => simp [hv] at this
  | some v => cases hty : p.ty <;> simp [isListParent, hv, hty]

theorem isBufParent_valued {c : MEvent} (h : c.val.isSome = true) : isBufParent c = false := by
  cases hv : c.val with
  | none => simp [hv] at h
  | some v => cases hty : c.ty <;> simp [isBufParent, isListParent, hv, hty]

theorem isBufParent_named {c : MEvent} {n : String} {b : Bool} (h : c.ty = .named n b) : isBufParent c = false := by
  simp [isBufParent, isListParent, h]

theorem endsOk_append_gen : ∀ (A B : List Event), endsOk A = true → endsOk B = true →
    (∀ p, .marshal p ∈ A → isListParent p = true → ∀ c, firstNonChild p.path B = some c → isBufParent c = false) →
    endsOk (A ++ B) = true
  | [], B, _, hb, _ => by simpa using hb
  | .warning _ :: A, B, ha, hb, h => by
    simp only [List.cons_append, endsOk] at ha ⊢
    exact endsOk_append_gen A B ha hb (fun p hp => h p (List.mem_cons_of_mem _ hp))
  | .marshal p :: A, B, ha, hb, h => by
    simp only [List.cons_append, endsOk, Bool.and_eq_true] at ha ⊢
    refine ⟨?_, endsOk_append_gen A B ha.2 hb (fun q hq => h q (List.mem_cons_of_mem _ hq))⟩
    have h1 := ha.1
    by_cases hl : isListParent p = true
    · simp only [hl, if_true] at h1 ⊢
      rw [firstNonChild_append]
      cases hf : firstNonChild p.path A with
      | some c => simpa [hf] using h1
      | none =>
        simp only []
        cases hf2 : firstNonChild p.path B with
        | none => rfl
        | some c => simp [h p (List.mem_cons_self ..) hl c hf2]
    · simp [hl]

theorem endsOk_noLP : ∀ (E : List Event), noLP E → endsOk E = true
  | [], _ => rfl
  | .warning _ :: E, h => by simp only [endsOk]; exact endsOk_noLP E (fun p hp => h p (List.mem_cons_of_mem _ hp))
  | .marshal p :: E, h => by
    simp only [endsOk, Bool.and_eq_true]
    exact ⟨by simp [h p (List.mem_cons_self ..)], endsOk_noLP E (fun q hq => h q (List.mem_cons_of_mem _ hq))⟩

theorem endsOk_gw {W : List Event} (h : GW W) : endsOk W = true := endsOk_noLP W (noLP.of_gw h)

/-- appending events that are non-children of every list event before them -/
theorem endsOk_append_nc (A B : List Event) (ha : endsOk A = true) (hb : endsOk B = true)
    (hnc : ∀ p, .marshal p ∈ A → isListParent p = true → ∀ c, .marshal c ∈ B → isChild p.path c.path = false)
    (hh : headBuf B = true → noLP A) : endsOk (A ++ B) = true := by
  apply endsOk_append_gen A B ha hb
  intro p hp hl c hc
  rw [firstNonChild_nonchild p.path B (hnc p hp hl)] at hc
  cases hbuf : headBuf B with
  | false => exact headBuf_of_firstM hc hbuf
  | true => have := hh hbuf p hp; rw [this] at hl; cases hl

theorem endsOk_append_noLP (A B : List Event) (ha : noLP A) (hb : endsOk B = true) : endsOk (A ++ B) = true :=
  endsOk_append_gen A B (endsOk_noLP A ha) hb (fun p hp hl => by rw [ha p hp] at hl; cases hl)

theorem endsOk_append_gw (A W : List Event) (ha : endsOk A = true) (hw : GW W) : endsOk (A ++ W) = true :=
  endsOk_append_gen A W ha (endsOk_gw hw) (fun p _ _ c hc => (gw_no_marshal hw c (firstNonChild_mem _ _ _ hc)).elim)

/-- a list event followed by valued events only (a byte buffer or another list of primitives) -/
theorem endsOk_list_av (p : MEvent) (X : List Event) (h : AV X) : endsOk (.marshal p :: X) = true := by
  simp only [endsOk, Bool.and_eq_true]
  refine ⟨?_, endsOk_noLP X (noLP.of_av h)⟩
  split
  · split
    · rename_i c hc
      simp [isBufParent_valued (h c (firstNonChild_mem _ _ _ hc))]
    · rfl
  · rfl

theorem isChild_deeper (π : Path) (a b c : PathNode) (r : Path) : isChild (π ++ [a]) (π ++ b :: c :: r) = false := by
  unfold isChild
  have h1 : (π ++ [a]).dropLast = π := by simp
  have h2 : (π ++ b :: c :: r).dropLast = π ++ b :: (c :: r).dropLast := by
    rw [List.dropLast_append_of_ne_nil (by simp)]
    simp [List.dropLast]
  rw [h1, h2]
  have : (π == π ++ b :: (c :: r).dropLast) = false := by
    apply beq_false_of_ne
    intro h
    have := congrArg List.length h
    simp at this
  simp [this]

theorem firstNonChild_head (P : Path) : ∀ (E : List Event) (c : MEvent), firstM E = some c → isChild P c.path = false →
    firstNonChild P E = some c
  | [], c, h, _ => by simp [firstM] at h
  | .warning _ :: E, c, h, hc => by simp only [firstNonChild]; exact firstNonChild_head P E c (by simpa [firstM] using h) hc
  | .marshal m :: E, c, h, hc => by
    simp only [firstM, Option.some.injEq] at h; subst h
    simp [firstNonChild, hc]

theorem firstNonChild_none_of_firstM (P : Path) : ∀ (E : List Event), firstM E = none → firstNonChild P E = none
  | [], _ => rfl
  | .warning _ :: E, h => by simp only [firstNonChild]; exact firstNonChild_none_of_firstM P E (by simpa [firstM] using h)
  | .marshal m :: E, h => by simp [firstM] at h

theorem headBuf_av {E : List Event} (h : AV E) : headBuf E = false := by
  unfold headBuf
  split
  · rename_i c hc
    exact isBufParent_valued (h c (firstM_mem _ _ hc))
  · rfl

/-! ## result-aware chaining -/

def R.isOk {α : Type} (r : R α) : Prop := ∃ a t, r = .ok (a, t)

theorem R.not_isOk_error {α : Type} (e : Err × St) : ¬ (R.isOk (.error e : R α)) := by
  rintro ⟨a, t, h⟩; cases h

theorem R.not_isOk_crash {α : Type} (c m : String) (s : St) : ¬ (R.isOk (crash c m s : R α)) := by
  rintro ⟨a, t, h⟩; cases h

theorem Tr.bindQ {α β : Type} {P1 : List Event → Prop} {Q Q2 : R β → List Event → Prop} {s : St} {r : R α} {f : α → St → R β}
    (h : Tr P1 s r) (hf : ∀ a t, r = .ok (a, t) → Tr (Q2 (f a t)) t (f a t)) (h1 : ∀ e E, P1 E → Q (.error e) E)
    (h12 : ∀ (r' : R β) E1 E2, R.isOk r → P1 E1 → Q2 r' E2 → Q r' (E1 ++ E2)) :
    Tr (Q (r.bind f)) s (r.bind f) := by
  cases r with
  | error e => obtain ⟨e, t⟩ := e; exact h.mono (h1 _)
  | ok at' =>
    obtain ⟨a, t⟩ := at'
    obtain ⟨n1, o1, p1⟩ := h
    obtain ⟨n2, o2, p2⟩ := hf a t rfl
    refine ⟨n1 ++ n2, ?_, by rw [List.map_append]; exact h12 _ _ _ ⟨a, t, rfl⟩ p1 p2⟩
    simp only [R.bind_ok]
    rw [o2]
    simp only [stOf] at o1
    rw [o1, List.append_assoc]

/-! ## the predicates -/

/-- events of `decode t σ`: no list's run is ended by a buffer; the first event is no buffer; if the decode completes it showed
something; as a list element (`elemOk`) the first event outside the element's own slot is no buffer; a primitive shows no list -/
def DE (t : Ty) (ok : Prop) (σ : Path) (E : List Event) : Prop :=
  endsOk E = true ∧ headBuf E = false ∧ (ok → (firstM E).isSome = true) ∧
  (t.elemOk = true → ∀ P : Path, (∀ b r, isChild P (σ ++ b :: r) = false) → ∀ c, firstNonChild P E = some c → isBufParent c = false) ∧
  (t.isPrimTy = true → noLP E)

def FW (k : FKind) (t : Ty) (ok : Prop) (E : List Event) : Prop :=
  endsOk E = true ∧ (headBuf E = true → isBufField k t = true) ∧ (ok → (firstM E).isSome = true) ∧
  ((t.isPrimTy && k == .plain) = true → noLP E)

def FE (fs : Fields) (E : List Event) : Prop := endsOk E = true ∧ (headBuf E = true → fs.headMayBuf = true)

def AE (arms : Arms) (E : List Event) : Prop := endsOk E = true ∧ (arms.noByteArm = true → headBuf E = false)

def RE (P : Path) (E : List Event) : Prop :=
  endsOk E = true ∧ headBuf E = false ∧ (∀ c, firstNonChild P E = some c → isBufParent c = false)

/-- a list of primitives: `endsOk`, and a buffer only if the element type is `BYTE` -/
def EL (name : String) (E : List Event) : Prop := endsOk E = true ∧ (name ≠ "BYTE" → headBuf E = false)

/-- one primitive: valued events at `σ`, one of them if the read completes -/
def PRm (ok : Prop) (σ : Path) (E : List Event) : Prop :=
  AV E ∧ (∀ m, .marshal m ∈ E → m.path = σ) ∧ (ok → (firstM E).isSome = true)

/-- the events after a `TPM2B`'s own event: the size field first -/
def TB (σ : Path) (E : List Event) : Prop :=
  endsOk E = true ∧ (∀ c, firstM E = some c → c.val.isSome = true ∧ ∃ b, c.path = σ ++ [b])

section
variable (abort : Bool)

theorem PRm.gw_append {ok : Prop} {σ : Path} {W E : List Event} (hw : GW W) (h : PRm ok σ E) : PRm ok σ (W ++ E) := by
  refine ⟨(AV.of_gw hw).append h.1, fun m hm => ?_, fun hok => ?_⟩
  · rcases List.mem_append.mp hm with h' | h'
    · exact (gw_no_marshal hw m h').elim
    · exact h.2.1 m h'
  · rw [firstM_append, firstM_gw _ hw]; exact h.2.2 hok

theorem PRm.of_gw_err {α : Type} {σ : Path} {W : List Event} (e : Err × St) (hw : GW W) : PRm (R.isOk (.error e : R α)) σ W :=
  ⟨AV.of_gw hw, fun m hm => (gw_no_marshal hw m hm).elim, fun hok => (R.not_isOk_error _ hok).elim⟩

theorem readPrim_prm (p : Prim) (σ : Path) (s : St) : Tr (PRm (R.isOk (readPrim abort p σ s)) σ) s (readPrim abort p σ s) := by
  unfold readPrim
  refine Tr.bindQ (Q := fun r' => PRm (R.isOk r') σ) (Q2 := fun r' => PRm (R.isOk r') σ) (bytesParsed_gw σ p.size s) (fun _ t _ => ?_)
    (fun e E hE => PRm.of_gw_err e hE) (fun r' E1 E2 _ h1 h2 => PRm.gw_append h1 h2)
  refine Tr.bindQ (Q := fun r' => PRm (R.isOk r') σ) (Q2 := fun r' => PRm (R.isOk r') σ) (take_gw p.size t) (fun bs t2 _ => ?_)
    (fun e E hE => PRm.of_gw_err e hE) (fun r' E1 E2 _ h1 h2 => PRm.gw_append h1 h2)
  simp only []
  have hev : ∀ ok : Prop, PRm ok σ [.marshal ⟨σ, .named p.name false, some (p.ofBytes bs), p.name, p.size⟩] := fun ok =>
    ⟨fun m hm => by cases List.mem_singleton.mp hm; rfl, fun m hm => by cases List.mem_singleton.mp hm; rfl, fun _ => rfl⟩
  split
  · exact Tr.ok_emit1 _ _ _ (hev _)
  · split
    · exact Tr.err_nil _ _ (PRm.of_gw_err _ GW.nil)
    · refine Tr.ok_emit2 _ _ _ _ ⟨fun m hm => ?_, fun m hm => ?_, fun _ => rfl⟩
      · simp only [List.mem_cons, List.not_mem_nil, or_false] at hm
        rcases hm with hm | hm
        · cases hm; rfl
        · cases hm
      · simp only [List.mem_cons, List.not_mem_nil, or_false] at hm
        rcases hm with hm | hm
        · cases hm; rfl
        · cases hm

theorem RE.nil (P : Path) : RE P [] := ⟨rfl, rfl, fun c h => by simp [firstNonChild] at h⟩

/-- the ok-free part of `DE` for a list element -/
def DEe (σ : Path) (E : List Event) : Prop :=
  endsOk E = true ∧ headBuf E = false ∧
  (∀ P : Path, (∀ b r, isChild P (σ ++ b :: r) = false) → ∀ c, firstNonChild P E = some c → isBufParent c = false)

theorem DE.toDEe {t : Ty} {ok : Prop} {σ : Path} {E : List Event} (h : DE t ok σ E) (he : t.elemOk = true) : DEe σ E :=
  ⟨h.1, h.2.1, h.2.2.2.1 he⟩

variable {okc : MEvent → Prop}

/-- the element loop -/
theorem repeatDec_eo (d : Path → St → R Val) (π : Path) (f : String)
    (hd : ∀ i s, Tr (fun E => DEe (π ++ [⟨f, some i⟩]) E ∧ GD okc (π ++ [⟨f, some i⟩]) E) s (d (π ++ [⟨f, some i⟩]) s)) :
    ∀ (n i : Nat) (s : St), Tr (fun E => RE (π ++ [⟨f, none⟩]) E ∧ GR okc π f i E) s (repeatDec d (π ++ [⟨f, none⟩]) n i s) := by
  intro n
  induction n with
  | zero => intro i s; exact Tr.ok_nil _ _ ⟨RE.nil _, GR.of_gw π f i GW.nil⟩
  | succ k ih =>
    intro i s
    unfold repeatDec
    rw [elemPath_snoc']
    have key : ∀ E1 E2, (DEe (π ++ [⟨f, some i⟩]) E1 ∧ GD okc (π ++ [⟨f, some i⟩]) E1) →
        (RE (π ++ [⟨f, none⟩]) E2 ∧ GR okc π f (i + 1) E2) → (RE (π ++ [⟨f, none⟩]) (E1 ++ E2) ∧ GR okc π f i (E1 ++ E2)) := by
      intro E1 E2 h1 h2
      refine ⟨⟨?_, ?_, ?_⟩, GR.cons h1.2 h2.2⟩
      · apply endsOk_append_nc E1 E2 h1.1.1 h2.1.1
        · intro p hp hl c hc
          obtain ⟨⟨r, hpp, hlr⟩, _⟩ := h1.2.1 p hp
          obtain ⟨⟨j, r', hj, hcp, _⟩, _⟩ := h2.2.1 c hc
          cases r with
          | nil =>
            exfalso
            have := hlr rfl
            cases hty : p.ty with
            | named a b => simp [isListParent, hty] at hl
            | listOf nm => exact this nm hty
          | cons y ys =>
            rw [hpp, hcp]
            have : π ++ [(⟨f, some i⟩ : PathNode)] ++ y :: ys = π ++ ⟨f, some i⟩ :: y :: ys := by simp
            rw [this]
            exact isChild_false_idx π f i j y ys r' (by omega)
        · intro hb; rw [h2.1.2.1] at hb; cases hb
      · rw [headBuf_append]
        cases hf : firstM E1 with
        | none => simpa using h2.1.2.1
        | some c => simpa using headBuf_of_firstM hf h1.1.2.1
      · intro c hc
        rw [firstNonChild_append] at hc
        cases hf : firstNonChild (π ++ [⟨f, none⟩]) E1 with
        | some c' =>
          rw [hf] at hc
          simp only [Option.some.injEq] at hc; subst hc
          refine h1.1.2.2 _ (fun b r => ?_) _ hf
          have : π ++ [(⟨f, some i⟩ : PathNode)] ++ b :: r = π ++ ⟨f, some i⟩ :: b :: r := by simp
          rw [this]
          exact isChild_deeper π _ _ _ _
        | none =>
          rw [hf] at hc
          exact h2.1.2.2 c hc
    refine (hd i s).bind (fun v t _ => ?_) (fun E h => ?_) key
    · refine (ih (i + 1) t).bind (P2 := fun E => E = []) (fun vs t2 _ => Tr.ok_nil _ _ rfl) (fun _ h => h) (fun E1 E2 h1 h2 => ?_)
      subst h2; simpa using h1
    · have := key E [] h ⟨RE.nil _, GR.of_gw π f (i + 1) GW.nil⟩
      simpa using this

/-- a list event followed by the events of its elements -/
theorem list_endsOk (π : Path) (f : String) (tn : String) (E : List Event) (h : RE (π ++ [⟨f, none⟩]) E) :
    endsOk (.marshal ⟨π ++ [⟨f, none⟩], .listOf tn, none, "", 0⟩ :: E) = true := by
  simp only [endsOk, Bool.and_eq_true]
  refine ⟨?_, h.1⟩
  simp only [isListParent, if_true]
  split
  · rename_i c hc
    simp [h.2.2 c hc]
  · rfl

theorem readPrimList_el (p : Prim) (path : Path) (n : Nat) (s : St) : Tr (EL p.name) s (readPrimList abort p path n s) := by
  unfold readPrimList
  refine Tr.of_emit (P := AV) (.marshal ⟨path, .listOf p.name, none, "", 0⟩) ?_ (fun E hE => ⟨endsOk_list_av _ E hE, fun hn => ?_⟩)
  · exact (repeatDec_av _ _ (fun q s => readPrim_av abort p q s) n 0 _).bind (fun vs t _ => Tr.ok_nil _ _ AV.nil)
      (fun _ h => h) (fun _ _ h1 h2 => h1.append h2)
  · simp [headBuf, firstM, isBufParent, hn]
end

/-! ## fields, and the walkers by mutual induction -/

def EO (E : List Event) : Prop := endsOk E = true

theorem EO.gw_bind {α β : Type} {s : St} {r : R α} {f : α → St → R β} (h : Tr GW s r) (hf : ∀ a t, r = .ok (a, t) → Tr EO t (f a t)) :
    Tr EO s (r.bind f) :=
  h.bind hf (fun _ h1 => endsOk_gw h1) (fun E1 E2 h1 h2 => endsOk_append_noLP E1 E2 (noLP.of_gw h1) h2)

theorem EO.bind_gw {α β : Type} {s : St} {r : R α} {f : α → St → R β} (h : Tr EO s r) (hf : ∀ a t, r = .ok (a, t) → Tr GW t (f a t)) :
    Tr EO s (r.bind f) :=
  h.bind hf (fun _ h1 => h1) (fun E1 E2 h1 h2 => endsOk_append_gw E1 E2 h1 h2)

theorem eventTag_notLP (body : Ty) (p : Path) : isListParent ⟨p, body.eventTag, none, "", 0⟩ = false := by
  cases body <;> rfl

theorem gn_nonchild {okc : MEvent → Prop} {π : Path} {N1 N2 : List String} {A B : List Event} (h1 : GN okc π N1 A) (h2 : GN okc π N2 B)
    (hd : ∀ g ∈ N1, g ∉ N2) : ∀ p, .marshal p ∈ A → ∀ c, .marshal c ∈ B → isChild p.path c.path = false := by
  intro p hp c hc
  obtain ⟨⟨f, i, r, hf, hpp⟩, _⟩ := h1.1 p hp
  obtain ⟨⟨g, j, r', hg, hcp⟩, _⟩ := h2.1 c hc
  rw [hpp, hcp]
  exact isChild_false_names π f g i j r r' (fun heq => hd f hf (heq ▸ hg))

/-- below the own event of a structure / union: the first event outside a slot that holds `σ` is the first event -/
theorem below_first {okc : MEvent → Prop} {σ : Path} {N : List String} {F : List Event} (hg : GN okc σ N F) (hb : headBuf F = false)
    (P : Path) (hP : ∀ b r, isChild P (σ ++ b :: r) = false) (c : MEvent) (hc : firstNonChild P F = some c) : isBufParent c = false := by
  rw [firstNonChild_nonchild P F (fun m hm => by
    obtain ⟨⟨g, i, r, _, hpp⟩, _⟩ := hg.1 m hm
    rw [hpp]; exact hP _ _)] at hc
  exact headBuf_of_firstM hc hb

theorem own_event_de (t : Ty) (ok : Prop) (σ : Path) (name : String) (enc : Bool) (F : List Event) (he : endsOk F = true)
    (hel : t.elemOk = true → ∀ P : Path, (∀ b r, isChild P (σ ++ b :: r) = false) → ∀ c, firstNonChild P F = some c → isBufParent c = false)
    (hp : t.isPrimTy = false) : DE t ok σ (.marshal ⟨σ, .named name enc, none, "", 0⟩ :: F) := by
  refine ⟨by simpa [endsOk, isListParent] using he, by simp [headBuf, firstM, isBufParent, isListParent], fun _ => by simp [firstM], ?_,
    fun h => by rw [hp] at h; cases h⟩
  intro hel' P hP c hc
  simp only [firstNonChild] at hc
  split at hc
  · exact hel hel' P hP c hc
  · simp only [Option.some.injEq] at hc; subst hc
    exact isBufParent_named rfl

section
variable {okc : MEvent → Prop} {pk : Prim → Bool} (abort : Bool)

theorem decodeFieldWith_eo (d : Path → Option Int → St → R Val) (t : Ty)
    (hd : ∀ σ sel s, Tr (DE t (R.isOk (d σ sel s)) σ) s (d σ sel s)) (hgd : ∀ σ sel s, Tr (GD okc σ) s (d σ sel s))
    (kind : FKind) (hk : kind = .counted → t.elemOk = true) (π : Path) (f : String) (vals : List (String × Val)) (s : St) :
    Tr (FW kind t (R.isOk (decodeFieldWith d t.name kind (π ++ [⟨f, none⟩]) vals s))) s
      (decodeFieldWith d t.name kind (π ++ [⟨f, none⟩]) vals s) := by
  have crashFW : ∀ (k : FKind) (ok : Prop), (ok → False) → FW k t ok [] := fun k ok hok =>
    ⟨rfl, fun h => (by simp [headBuf, firstM] at h), fun h => (hok h).elim, fun _ p hp => (by cases hp)⟩
  cases kind with
  | plain =>
    simp only [decodeFieldWith]
    exact (hd _ none s).mono (fun E h => ⟨h.1, fun hb => (by rw [h.2.1] at hb; cases hb), h.2.2.1, fun hp => h.2.2.2.2 (by
      simp only [Bool.and_eq_true] at hp; exact hp.1)⟩)
  | selected sel =>
    simp only [decodeFieldWith]
    split
    · exact Tr.crash_nil _ _ _ (crashFW _ _ (R.not_isOk_crash _ _ _))
    · exact (hd _ _ s).mono (fun E h => ⟨h.1, fun hb => (by rw [h.2.1] at hb; cases hb), h.2.2.1, fun hp => (by simp at hp)⟩)
  | counted =>
    simp only [decodeFieldWith]
    split
    · exact Tr.crash_nil _ _ _ (crashFW _ _ (R.not_isOk_crash _ _ _))
    · rename_i c _
      refine Tr.of_emit (P := RE (π ++ [⟨f, none⟩])) (.marshal ⟨π ++ [⟨f, none⟩], .listOf t.name, none, "", 0⟩) ?_ (fun E hE => ?_)
      · refine (repeatDec_eo (okc := okc) _ π f (fun i s => ((hd _ none s).mono (fun E h => h.toDEe (hk rfl))).and (hgd _ none s)) c 0 _).bind
          (P2 := fun E => E = []) (fun vs t _ => Tr.ok_nil _ _ rfl) (fun _ h => h.1) (fun E1 E2 h1 h2 => by subst h2; simpa using h1.1)
      · refine ⟨list_endsOk π f t.name E hE, fun hb => ?_, fun _ => by simp [firstM], fun hp => by simp at hp⟩
        simp only [headBuf, firstM, isBufParent, isListParent, Bool.true_and, decide_eq_true_eq, TyTag.listOf.injEq] at hb
        simp [isBufField, hb]

mutual
theorem decode_eo (hpk : PrimLink abort pk okc) : (t : Ty) → t.eoOk = true → t.shapeOk pk = true → ∀ (σ : Path) (sel : Option Int) (s : St),
    Tr (DE t (R.isOk (decode abort t σ sel s)) σ) s (decode abort t σ sel s)
  | .prim p, _, _, σ, sel, s => by
    simp only [decode]
    exact (readPrim_prm abort p σ s).mono (fun E h =>
      ⟨endsOk_noLP E (noLP.of_av h.1), headBuf_av h.1, h.2.2,
        fun _ P _ c hc => isBufParent_valued (h.1 c (firstNonChild_mem _ _ _ hc)), fun _ => noLP.of_av h.1⟩)
  | .struct name isP fs, he, h, σ, sel, s => by
    simp only [Ty.shapeOk, Bool.and_eq_true, decide_eq_true_eq] at h
    simp only [Ty.eoOk] at he
    simp only [decode]
    refine Tr.of_emit (P := fun F => FE fs F ∧ GN okc σ fs.names F) (.marshal ⟨σ, .named name false, none, "", 0⟩) ?_ (fun F hF => ?_)
    · exact ((decodeFields_eo hpk fs he h.1 h.2 σ [] _).and (decodeFields_gn abort hpk fs h.1 h.2 σ [] _)).bind
        (P2 := fun E => E = []) (fun vals t _ => Tr.ok_nil _ _ rfl) (fun _ hh => hh) (fun E1 E2 h1 h2 => by subst h2; simpa using h1)
    · refine own_event_de _ _ σ name false F hF.1.1 (fun hel P hP c hc => ?_) rfl
      refine below_first hF.2 ?_ P hP c hc
      cases hb : headBuf F with
      | false => rfl
      | true => have := hF.1.2 hb; simp [Ty.elemOk, this] at hel
  | .tpm2bBytes name szName szP bufName elem, he, h, σ, sel, s => by
    simp only [decode]
    refine Tr.of_emit (P := TB σ) (.marshal ⟨σ, .named name false, none, "", 0⟩) ?_ (fun F hF => ?_)
    · refine Tr.bindQ (Q := fun _ => TB σ) (Q2 := fun _ => EO) (readPrim_prm abort szP _ _) (fun nv t _ => ?_)
        (fun e E hE => ⟨endsOk_noLP E (noLP.of_av hE.1), fun c hc => ⟨hE.1 c (firstM_mem _ _ hc), _, hE.2.1 c (firstM_mem _ _ hc)⟩⟩)
        (fun r' E1 E2 hok h1 h2 => ⟨endsOk_append_noLP E1 E2 (noLP.of_av h1.1) h2, fun c hc => ?_⟩)
      · split
        · exact Tr.crash_nil _ _ _ rfl
        · refine EO.gw_bind (openRegion_gw abort _ _ _ t) (fun _ t2 _ => ?_)
          refine EO.bind_gw ((readPrimList_el abort elem _ _ t2).mono (fun _ hh => hh.1)) (fun bv t3 _ => ?_)
          exact (assertDone_gw abort _ t3).bind (fun _ t4 _ => Tr.ok_nil _ _ GW.nil) (fun _ hh => hh) (fun _ _ h1 h2 => h1.append h2)
      · have hm := h1.2.2 hok
        rw [firstM_append] at hc
        cases hf : firstM E1 with
        | none => rw [hf] at hm; cases hm
        | some c0 =>
          rw [hf] at hc; simp only [Option.some.injEq] at hc; subst hc
          exact ⟨h1.1 _ (firstM_mem _ _ hf), _, h1.2.1 _ (firstM_mem _ _ hf)⟩
    · refine own_event_de _ _ σ name false F hF.1 (fun _ P hP c hc => ?_) rfl
      cases hf : firstM F with
      | none => rw [firstNonChild_none_of_firstM P F hf] at hc; cases hc
      | some c0 =>
        obtain ⟨hv, b, hpath⟩ := hF.2 c0 hf
        rw [firstNonChild_head P F c0 hf (by rw [hpath]; exact hP b [])] at hc
        simp only [Option.some.injEq] at hc; subst hc
        exact isBufParent_valued hv
  | .tpm2b name szName szP bufName body, he, h, σ, sel, s => by
    simp only [Ty.shapeOk, Bool.and_eq_true, decide_eq_true_eq] at h
    simp only [Ty.eoOk] at he
    simp only [decode]
    refine Tr.of_emit (P := TB σ) (.marshal ⟨σ, .named name false, none, "", 0⟩) ?_ (fun F hF => ?_)
    · refine Tr.bindQ (Q := fun _ => TB σ) (Q2 := fun _ => EO) (readPrim_prm abort szP _ _) (fun nv t _ => ?_)
        (fun e E hE => ⟨endsOk_noLP E (noLP.of_av hE.1), fun c hc => ⟨hE.1 c (firstM_mem _ _ hc), _, hE.2.1 c (firstM_mem _ _ hc)⟩⟩)
        (fun r' E1 E2 hok h1 h2 => ⟨endsOk_append_noLP E1 E2 (noLP.of_av h1.1) h2, fun c hc => ?_⟩)
      · split
        · exact Tr.crash_nil _ _ _ rfl
        · refine EO.gw_bind (openRegion_gw abort _ _ _ t) (fun _ t2 _ => ?_)
          split
          · refine Tr.of_emit (P := GW) (.marshal ⟨σ ++ [⟨bufName, none⟩], body.eventTag, none, "", 0⟩) ?_ (fun W hW => ?_)
            · exact (assertDone_gw abort _ _).bind (fun _ t4 _ => Tr.ok_nil _ _ GW.nil) (fun _ hh => hh) (fun _ _ h1 h2 => h1.append h2)
            · show endsOk _ = true
              simp only [endsOk, eventTag_notLP, Bool.and_eq_true]
              exact ⟨by simp, endsOk_gw hW⟩
          · refine Tr.ownCatch (P1 := EO) (P2 := GW) abort _ ((decode_eo hpk body he h.2 _ none t2).mono (fun _ hh => hh.1))
              (fun bv t3 _ => (assertDone_gw abort _ t3).bind (fun _ t4 _ => Tr.ok_nil _ _ GW.nil) (fun _ hh => hh)
                (fun _ _ h1 h2 => h1.append h2))
              (fun _ hh => hh) (fun E w hh => endsOk_append_gw E _ hh (GW.cons_w w GW.nil)) (fun E1 E2 h1 h2 => endsOk_append_gw E1 E2 h1 h2)
      · have hm := h1.2.2 hok
        rw [firstM_append] at hc
        cases hf : firstM E1 with
        | none => rw [hf] at hm; cases hm
        | some c0 =>
          rw [hf] at hc; simp only [Option.some.injEq] at hc; subst hc
          exact ⟨h1.1 _ (firstM_mem _ _ hf), _, h1.2.1 _ (firstM_mem _ _ hf)⟩
    · refine own_event_de _ _ σ name false F hF.1 (fun _ P hP c hc => ?_) rfl
      cases hf : firstM F with
      | none => rw [firstNonChild_none_of_firstM P F hf] at hc; cases hc
      | some c0 =>
        obtain ⟨hv, b, hpath⟩ := hF.2 c0 hf
        rw [firstNonChild_head P F c0 hf (by rw [hpath]; exact hP b [])] at hc
        simp only [Option.some.injEq] at hc; subst hc
        exact isBufParent_valued hv
  | .union name arms, he, h, σ, sel, s => by
    simp only [Ty.shapeOk] at h
    simp only [Ty.eoOk] at he
    simp only [decode]
    split
    · refine Tr.of_emit (P := fun E => E = []) (.marshal ⟨σ, .named name false, none, "", 0⟩) ?_ (fun F hF => ?_)
      · split
        · exact Tr.err_nil _ _ rfl
        · exact Tr.err_nil _ _ rfl
      · subst hF
        exact own_event_de _ _ σ name false [] rfl (fun _ P _ c hc => by simp [firstNonChild] at hc) rfl
    · rename_i an _
      refine Tr.of_emit (P := fun A => AE arms A ∧ GN okc σ [an] A) (.marshal ⟨σ, .named name false, none, "", 0⟩)
        ((decodeArm_eo hpk arms he h name an σ _).and (decodeArm_gn abort hpk arms h name an σ _)) (fun A hA => ?_)
      exact own_event_de _ _ σ name false A hA.1.1 (fun hel P hP c hc => below_first hA.2 (hA.1.2 hel) P hP c hc) rfl
  | .bad _, _, _, σ, sel, s => by
    simp only [decode]
    exact Tr.crash_nil _ _ _ ⟨rfl, rfl, fun hok => (R.not_isOk_crash _ _ _ hok).elim, fun _ P _ c hc => (by simp [firstNonChild] at hc),
      fun _ p hp => (by cases hp)⟩

theorem decodeArm_eo (hpk : PrimLink abort pk okc) : (arms : Arms) → arms.eoOk = true → arms.shapeOk pk = true →
    ∀ (un want : String) (σ : Path) (s : St), Tr (AE arms) s (decodeArm abort arms un want σ s)
  | .nil, _, _, un, want, σ, s => by
    simp only [decodeArm]
    exact Tr.crash_nil _ _ _ ⟨rfl, fun _ => rfl⟩
  | .consNone an k rest, he, h, un, want, σ, s => by
    simp only [Arms.shapeOk] at h
    simp only [Arms.eoOk] at he
    simp only [decodeArm]
    split
    · exact Tr.ok_nil _ _ ⟨rfl, fun _ => rfl⟩
    · exact (decodeArm_eo hpk rest he h un want σ s).mono (fun E hh => ⟨hh.1, fun hn => hh.2 (by simpa [Arms.noByteArm] using hn)⟩)
  | .cons an k t rest, he, h, un, want, σ, s => by
    simp only [Arms.shapeOk, Bool.and_eq_true] at h
    simp only [Arms.eoOk, Bool.and_eq_true] at he
    simp only [decodeArm]
    split
    · exact (decode_eo hpk t he.1 h.1 _ none s).bind (P2 := fun E => E = []) (fun v t2 _ => Tr.ok_nil _ _ rfl)
        (fun E hh => ⟨hh.1, fun _ => hh.2.1⟩) (fun E1 E2 h1 h2 => by subst h2; simpa using ⟨h1.1, fun _ => h1.2.1⟩)
    · exact (decodeArm_eo hpk rest he.2 h.2 un want σ s).mono (fun E hh => ⟨hh.1, fun hn => hh.2 (by simpa [Arms.noByteArm] using hn)⟩)
  | .consBytes an k elem n rest, he, h, un, want, σ, s => by
    simp only [Arms.shapeOk, Bool.and_eq_true] at h
    simp only [Arms.eoOk] at he
    simp only [decodeArm]
    have conv : ∀ E, EL elem.name E → AE (.consBytes an k elem n rest) E := fun E hh =>
      ⟨hh.1, fun hn => hh.2 (by
        simp only [Arms.noByteArm, Bool.and_eq_true, bne_iff_ne, ne_eq] at hn
        exact hn.1)⟩
    split
    · refine Tr.bind (P1 := EL elem.name) (P2 := fun E => E = []) ?_ (fun v t2 _ => Tr.ok_nil _ _ rfl) conv
        (fun E1 E2 h1 h2 => by subst h2; simpa using conv E1 h1)
      unfold readListArm
      split
      · exact Tr.crash_nil _ _ _ ⟨rfl, fun _ => rfl⟩
      · exact readPrimList_el abort elem _ _ s
    · exact (decodeArm_eo hpk rest he h.2 un want σ s).mono (fun E hh => ⟨hh.1, fun hn => hh.2 (by
        simp only [Arms.noByteArm, Bool.and_eq_true] at hn; exact hn.2)⟩)

theorem decodeFields_eo (hpk : PrimLink abort pk okc) : (fs : Fields) → fs.eoOk = true → fs.shapeOk pk = true → fs.names.Nodup →
    ∀ (π : Path) (vals : List (String × Val)) (s : St), Tr (FE fs) s (decodeFields abort fs π vals s)
  | .nil, _, _, _, π, vals, s => by
    simp only [decodeFields]
    exact Tr.ok_nil _ _ ⟨rfl, fun h => by simp [headBuf, firstM] at h⟩
  | .cons fname kind t rest, he, h, hnd, π, vals, s => by
    simp only [Fields.shapeOk, Bool.and_eq_true] at h
    simp only [Fields.eoOk, Bool.and_eq_true, Bool.or_eq_true, bne_iff_ne, ne_eq, Bool.not_eq_true'] at he
    simp only [Fields.names, List.nodup_cons] at hnd
    simp only [decodeFields]
    have hb : kind = .counted → t.name = "BYTE" → ∀ σ sel s, Tr AV s (decode abort t σ sel s) := by
      intro hk hn σ sel s
      subst hk
      cases t with
      | prim p => simp only [decode]; exact readPrim_av abort p σ s
      | struct _ _ _ => simp [Ty.isPrimTy, hn] at h
      | tpm2b _ _ _ _ _ => simp [Ty.isPrimTy, hn] at h
      | tpm2bBytes _ _ _ _ _ => simp [Ty.isPrimTy, hn] at h
      | union _ _ => simp [Ty.isPrimTy, hn] at h
      | bad _ => simp [Ty.isPrimTy, hn] at h
    have hk : kind = .counted → t.elemOk = true := by
      intro hk
      rcases he.1.1.2 with h' | h'
      · exact absurd hk h'
      · exact h'
    refine Tr.bindQ (Q := fun _ => FE (.cons fname kind t rest)) (Q2 := fun _ => fun E => FE rest E ∧ GN okc π rest.names E)
      ((decodeFieldWith_eo (fun p sel s => decode abort t p sel s) t (fun σ sel s => decode_eo hpk t he.1.1.1 h.1.1 σ sel s)
          (fun σ sel s => decode_gd abort hpk t h.1.1 σ sel s) kind hk π fname vals s).and
        (decodeFieldWith_gn (fun p sel s => decode abort t p sel s) t.name (fun σ sel s => decode_gd abort hpk t h.1.1 σ sel s)
          kind hb π fname vals s))
      (fun v t2 _ => (decodeFields_eo hpk rest he.2 h.2 hnd.2 π (vals ++ [(fname, v)]) t2).and
        (decodeFields_gn abort hpk rest h.2 hnd.2 π (vals ++ [(fname, v)]) t2))
      (fun e E hE => ⟨hE.1.1, fun hbuf => by simpa [Fields.headMayBuf] using hE.1.2.1 hbuf⟩)
      (fun r' E1 E2 hok h1 h2 => ⟨?_, fun hbuf => ?_⟩)
    · apply endsOk_append_nc E1 E2 h1.1.1 h2.1.1
      · intro p hp _ c hc
        exact gn_nonchild h1.2 h2.2 (fun g hg hg2 => by
          simp only [List.mem_singleton] at hg
          subst hg
          exact hnd.1 hg2) p hp c hc
      · intro hbuf
        have := h2.1.2 hbuf
        rcases he.1.2 with h' | h'
        · rw [this] at h'; cases h'
        · exact h1.1.2.2.2 (by simp only [Bool.and_eq_true]; exact h')
    · have hm := h1.1.2.2.1 hok
      rw [headBuf_append] at hbuf
      cases hf : firstM E1 with
      | none => rw [hf] at hm; cases hm
      | some c0 =>
        rw [hf] at hbuf
        have : headBuf E1 = true := by simp only [headBuf, hf]; exact hbuf
        simpa [Fields.headMayBuf] using h1.1.2.1 this
end
end

/-! ## areas, session lists, messages, streams -/

theorem RE.of_gw (P : Path) {W : List Event} (h : GW W) : RE P W :=
  ⟨endsOk_gw h, headBuf_gw h, fun c hc => (gw_no_marshal h c (firstNonChild_mem _ _ _ hc)).elim⟩

/-- one element (`DEe`, under its own slot), then later elements -/
theorem RE.cons {okc : MEvent → Prop} {π : Path} {f : String} {i : Nat} {E1 E2 : List Event}
    (h1 : DEe (π ++ [⟨f, some i⟩]) E1 ∧ GD okc (π ++ [⟨f, some i⟩]) E1) (h2 : RE (π ++ [⟨f, none⟩]) E2 ∧ GR okc π f (i + 1) E2) :
    RE (π ++ [⟨f, none⟩]) (E1 ++ E2) ∧ GR okc π f i (E1 ++ E2) := by
  refine ⟨⟨?_, ?_, ?_⟩, GR.cons h1.2 h2.2⟩
  · apply endsOk_append_nc E1 E2 h1.1.1 h2.1.1
    · intro p hp hl c hc
      obtain ⟨⟨r, hpp, hlr⟩, _⟩ := h1.2.1 p hp
      obtain ⟨⟨j, r', hj, hcp, _⟩, _⟩ := h2.2.1 c hc
      cases r with
      | nil =>
        exfalso
        have := hlr rfl
        cases hty : p.ty with
        | named a b => simp [isListParent, hty] at hl
        | listOf nm => exact this nm hty
      | cons y ys =>
        rw [hpp, hcp]
        have : π ++ [(⟨f, some i⟩ : PathNode)] ++ y :: ys = π ++ ⟨f, some i⟩ :: y :: ys := by simp
        rw [this]
        exact isChild_false_idx π f i j y ys r' (by omega)
    · intro hb; rw [h2.1.2.1] at hb; cases hb
  · rw [headBuf_append]
    cases hf : firstM E1 with
    | none => simpa using h2.1.2.1
    | some c => simpa using headBuf_of_firstM hf h1.1.2.1
  · intro c hc
    rw [firstNonChild_append] at hc
    cases hf : firstNonChild (π ++ [⟨f, none⟩]) E1 with
    | some c' =>
      rw [hf] at hc
      simp only [Option.some.injEq] at hc; subst hc
      refine h1.1.2.2 _ (fun b r => ?_) _ hf
      have : π ++ [(⟨f, some i⟩ : PathNode)] ++ b :: r = π ++ ⟨f, some i⟩ :: b :: r := by simp
      rw [this]
      exact isChild_deeper π _ _ _ _
    | none =>
      rw [hf] at hc
      exact h2.1.2.2 c hc

/-- message fields: in their slots, `endsOk`, not starting with a buffer -/
def ME (okc : MEvent → Prop) (π : Path) (N : List String) (E : List Event) : Prop :=
  GN okc π N E ∧ endsOk E = true ∧ headBuf E = false

theorem ME.of_gw {okc : MEvent → Prop} (π : Path) (N : List String) {E : List Event} (h : GW E) : ME okc π N E :=
  ⟨GN.of_gw π N h, endsOk_gw h, headBuf_gw h⟩

theorem ME.mono {okc : MEvent → Prop} {π : Path} {N N' : List String} {E : List Event} (h : ME okc π N E) (hs : ∀ g ∈ N, g ∈ N') :
    ME okc π N' E := ⟨h.1.mono hs, h.2⟩

theorem ME.append {okc : MEvent → Prop} {π : Path} {N1 N2 : List String} {E1 E2 : List Event} (h1 : ME okc π N1 E1) (h2 : ME okc π N2 E2)
    (hd : ∀ g ∈ N1, g ∉ N2) : ME okc π (N1 ++ N2) (E1 ++ E2) := by
  refine ⟨h1.1.append h2.1 hd, ?_, ?_⟩
  · exact endsOk_append_nc E1 E2 h1.2.1 h2.2.1 (fun p hp _ c hc => gn_nonchild h1.1 h2.1 hd p hp c hc)
      (fun hb => by rw [h2.2.2] at hb; cases hb)
  · rw [headBuf_append]
    cases hf : firstM E1 with
    | none => simpa using h2.2.2
    | some c => simpa using headBuf_of_firstM hf h1.2.2

/-- a message: `GM`, `endsOk`, not starting with a buffer -/
def MS (okc : MEvent → Prop) (σ : Path) (E : List Event) : Prop := GM okc σ E ∧ endsOk E = true ∧ headBuf E = false

theorem MS.root {okc : MEvent → Prop} {σ : Path} {N : List String} (name : String) {E : List Event} (h : ME okc σ N E) :
    MS okc σ (.marshal ⟨σ, .named name false, none, "", 0⟩ :: E) :=
  ⟨⟨GD.of_parent ⟨σ, .named name false, none, "", 0⟩ rfl (fun n => named_ne_list _ _ n) rfl h.1, Or.inr ⟨_, _, rfl, rfl⟩⟩,
    by simpa [endsOk, isListParent] using h.2.1, by simp [headBuf, firstM, isBufParent, isListParent]⟩

theorem MS.append {okc : MEvent → Prop} {σ : Path} (hσ : σ ≠ []) {E1 E2 : List Event} (h1 : MS okc σ E1) (h2 : MS okc σ E2) :
    MS okc σ (E1 ++ E2) := by
  refine ⟨h1.1.append hσ h2.1, ?_, ?_⟩
  · apply endsOk_append_gen E1 E2 h1.2.1 h2.2.1
    intro p hp hl c hc
    rcases h2.1.2 with rfl | ⟨m0, E', rfl, hm0⟩
    · simp [firstNonChild] at hc
    · obtain ⟨⟨r, hpp, hlr⟩, _⟩ := h1.1.1.1 p hp
      have hr : r ≠ [] := by
        intro hr
        cases hty : p.ty with
        | named a b => simp [isListParent, hty] at hl
        | listOf nm => exact hlr hr nm hty
      have hlen : 2 ≤ p.path.length ∧ σ.length < p.path.length := by
        rw [hpp, List.length_append]
        have : 0 < r.length := List.length_pos_iff.mpr hr
        have : 0 < σ.length := List.length_pos_iff.mpr hσ
        omega
      simp only [firstNonChild, hm0, isChild_false_shorter p.path σ hlen.1 hlen.2] at hc
      simp only [Bool.false_eq_true, if_false, Option.some.injEq] at hc
      subst hc
      have := h2.2.2
      simpa [headBuf, firstM] using this
  · rw [headBuf_append]
    cases hf : firstM E1 with
    | none => simpa using h2.2.2
    | some c => simpa using headBuf_of_firstM hf h1.2.2

section
variable {okc : MEvent → Prop} {pk : Prim → Bool} (abort : Bool)

theorem Tr.msgCatch_me {π : Path} {n : String} {N2 : List String} {s : St} {r : R Val} {k : Val → St → R Val}
    (id1 id2 : Nat) (name : String) (vals : List (String × Val)) (h : Tr (ME okc π [n]) s r)
    (hk : ∀ v t, r = .ok (v, t) → Tr (ME okc π N2) t (k v t)) (hn : n ∉ N2) :
    Tr (ME okc π (n :: N2)) s (_root_.msgCatch abort id1 id2 name vals r k) := by
  have hd : ∀ g ∈ [n], g ∉ N2 := fun g hg => by rw [List.mem_singleton.mp hg]; exact hn
  refine Tr.msgCatch abort id1 id2 name vals h hk (fun _ h1 => h1.mono (fun g hg => ?_)) (fun E w h1 => ?_)
    (fun _ _ h1 h2 => h1.append h2 hd)
  · rw [List.mem_singleton.mp hg]; exact List.mem_cons_self ..
  · have := h1.append (ME.of_gw (okc := okc) π N2 (GW.cons_w w GW.nil)) hd
    exact this

theorem Tr.me_weaken {α : Type} {π : Path} {N N' : List String} {s : St} {r : R α} (h : Tr (ME okc π N) s r)
    (hs : ∀ g ∈ N, g ∈ N') : Tr (ME okc π N') s r := h.mono (fun _ hh => hh.mono hs)

theorem Tr.bind_gw_me {α β : Type} {π : Path} {N : List String} {s : St} {r : R α} {f : α → St → R β}
    (h : Tr GW s r) (hf : ∀ a t, r = .ok (a, t) → Tr (ME okc π N) t (f a t)) : Tr (ME okc π N) s (r.bind f) :=
  h.bind hf (fun _ h1 => ME.of_gw π N h1) (fun _ _ h1 h2 => by
    have := (ME.of_gw (okc := okc) π [] h1).append h2 (fun g hg => by cases hg)
    simpa using this)

theorem Tr.bind_me_gw {α β : Type} {π : Path} {N : List String} {s : St} {r : R α} {f : α → St → R β}
    (h : Tr (ME okc π N) s r) (hf : ∀ a t, r = .ok (a, t) → Tr GW t (f a t)) : Tr (ME okc π N) s (r.bind f) :=
  h.bind hf (fun _ h1 => h1) (fun _ _ h1 h2 => by
    have := h1.append (ME.of_gw (okc := okc) π [] h2) (fun g _ hg => by cases hg)
    simpa using this)

theorem field_prim_me (hpk : PrimLink abort pk okc) (p : Prim) (hp : pk p = true) (π : Path) (n : String) (s : St) :
    Tr (ME okc π [n]) s (readPrim abort p (π ++ [⟨n, none⟩]) s) :=
  ((field_prim abort hpk p hp π n s).and (readPrim_prm abort p _ s)).mono
    (fun E h => ⟨h.1, endsOk_noLP E (noLP.of_av h.2.1), headBuf_av h.2.1⟩)

theorem decodeArea_eo (hpk : PrimLink abort pk okc) (tb : MsgTables) (enc : Bool) (t : Ty)
    (ht : t.areaOk pk tb.encParam = true ∧ t.areaEo tb.encParam = true) (σ : Path) (s : St) :
    Tr (fun E => endsOk E = true ∧ headBuf E = false) s (decodeArea abort tb enc t σ s) := by
  obtain ⟨ht, hte⟩ := ht
  simp only [Ty.areaOk, Bool.and_eq_true] at ht
  simp only [Ty.areaEo, Bool.and_eq_true] at hte
  unfold decodeArea
  split
  · split
    · exact (decode_eo abort hpk t hte.1 ht.1 σ none s).mono (fun _ hh => ⟨hh.1, hh.2.1⟩)
    · rename_i name fs hv
      rw [hv] at ht hte
      simp only [Bool.and_eq_true, decide_eq_true_eq] at ht
      refine Tr.of_emit (P := FE fs) (.marshal ⟨σ, .named name true, none, "", 0⟩) ?_ (fun F hF => ?_)
      · exact (decodeFields_eo abort hpk fs hte.2 ht.2.1 ht.2.2 σ [] _).bind (P2 := fun E => E = []) (fun vals t2 _ => Tr.ok_nil _ _ rfl)
          (fun _ hh => hh) (fun E1 E2 h1 h2 => by subst h2; simpa using h1)
      · exact ⟨by simpa [endsOk, isListParent] using hF.1, by simp [headBuf, firstM, isBufParent, isListParent]⟩
  · exact (decode_eo abort hpk t hte.1 ht.1 σ none s).mono (fun _ hh => ⟨hh.1, hh.2.1⟩)

theorem field_area_me (hpk : PrimLink abort pk okc) (tb : MsgTables) (enc : Bool) (t : Ty)
    (ht : t.areaOk pk tb.encParam = true ∧ t.areaEo tb.encParam = true) (π : Path) (n : String) (s : St) :
    Tr (ME okc π [n]) s (decodeArea abort tb enc t (π ++ [⟨n, none⟩]) s) :=
  ((field_area abort hpk tb enc t ht.1 π n s).and (decodeArea_eo abort hpk tb enc t ht _ s)).mono (fun _ h => ⟨h.1, h.2.1, h.2.2⟩)

theorem sizedLoop_eo (hpk : PrimLink abort pk okc) (t : Ty) (ht : t.shapeOk pk = true) (hte : t.eoOk = true) (hel : t.elemOk = true)
    (π : Path) (f : String) (cid : Nat) :
    ∀ (fuel i : Nat) (acc : List Val) (s : St),
      Tr (fun E => RE (π ++ [⟨f, none⟩]) E ∧ GR okc π f i E) s (sizedLoop abort t (π ++ [⟨f, none⟩]) cid fuel i acc s) := by
  intro fuel
  induction fuel with
  | zero => intro i acc s; exact Tr.crash_nil _ _ _ ⟨RE.of_gw _ GW.nil, GR.of_gw π f i GW.nil⟩
  | succ n ih =>
    intro i acc s
    unfold sizedLoop
    split
    · exact Tr.crash_nil _ _ _ ⟨RE.of_gw _ GW.nil, GR.of_gw π f i GW.nil⟩
    · split
      · exact Tr.crash_nil _ _ _ ⟨RE.of_gw _ GW.nil, GR.of_gw π f i GW.nil⟩
      · split
        · rw [elemPath_snoc']
          refine Tr.ownCatch abort cid
            (((decode_eo abort hpk t hte ht _ none s).mono (fun E h => h.toDEe hel)).and (decode_gd abort hpk t ht _ none s))
            (fun v t2 _ => ih (i + 1) (acc ++ [v]) t2)
            (fun E h => ?_) (fun E w h => ?_) (fun E1 E2 h1 h2 => RE.cons h1 h2)
          · have := RE.cons (E2 := []) h ⟨RE.of_gw _ GW.nil, GR.of_gw π f (i + 1) GW.nil⟩
            simpa using this
          · exact RE.cons h ⟨RE.of_gw _ (GW.cons_w w GW.nil), GR.of_gw π f (i + 1) (GW.cons_w w GW.nil)⟩
        · refine Tr.of_scs (removeSC cid s.scs) ?_
          exact ((assertDoneSC_gw abort _ _).bind (fun _ t2 _ => Tr.ok_nil _ _ GW.nil) (fun _ h => h)
            (fun _ _ h1 h2 => h1.append h2)).mono (fun _ h => ⟨RE.of_gw _ h, GR.of_gw π f i h⟩)

theorem decodeSized_me (hpk : PrimLink abort pk okc) (t : Ty) (ht : t.shapeOk pk = true) (hn : t.name ≠ "BYTE") (hte : t.eoOk = true)
    (hel : t.elemOk = true) (π : Path) (f : String) (cid : Nat) (s : St) :
    Tr (ME okc π [f]) s (decodeSized abort t (π ++ [⟨f, none⟩]) cid s) := by
  refine ((decodeSized_gn abort hpk t ht hn π f cid s).and ?_).mono (fun _ h => ⟨h.1, h.2⟩)
  unfold decodeSized
  refine Tr.of_emit (P := RE (π ++ [⟨f, none⟩])) (.marshal ⟨π ++ [⟨f, none⟩], .listOf t.name, none, "", 0⟩)
    ((sizedLoop_eo abort hpk t ht hte hel π f cid _ 0 [] _).mono (fun _ h => h.1)) (fun E hE => ?_)
  exact ⟨list_endsOk π f t.name E hE, by simp [headBuf, firstM, isBufParent, hn]⟩

theorem lookupTy_areaBoth {tb : MsgTables} (h : tb.shapeOk pk = true) (he : tb.eoOk = true) {k : Int} {t : Ty}
    (hl : lookupTy tb.cmdHandles k = some t ∨ lookupTy tb.cmdParams k = some t ∨ lookupTy tb.rspHandles k = some t ∨
      lookupTy tb.rspParams k = some t) : t.areaOk pk tb.encParam = true ∧ t.areaEo tb.encParam = true := by
  refine ⟨lookupTy_areaOk h hl, ?_⟩
  unfold MsgTables.eoOk at he
  simp only [Bool.and_eq_true, List.all_eq_true, List.mem_append] at he
  have hall := he.2
  have mem : ∀ {m : List (Int × Ty)}, lookupTy m k = some t → ∃ k', (k', t) ∈ m := by
    intro m hm
    unfold lookupTy at hm
    simp only [Option.map_eq_some_iff] at hm
    obtain ⟨⟨k', t'⟩, hf, rfl⟩ := hm
    exact ⟨k', List.mem_of_find?_eq_some hf⟩
  rcases hl with hl | hl | hl | hl <;> obtain ⟨k', hm⟩ := mem hl
  · exact hall (k', t) (Or.inl (Or.inl (Or.inl hm)))
  · exact hall (k', t) (Or.inl (Or.inl (Or.inr hm)))
  · exact hall (k', t) (Or.inl (Or.inr hm))
  · exact hall (k', t) (Or.inr hm)

theorem decodeCommand_ms (hpk : PrimLink abort pk okc) (tb : MsgTables) (h : tb.shapeOk pk = true) (he0 : tb.eoOk = true) (σ : Path) (s0 : St) :
    Tr (MS okc σ) s0 (decodeCommand abort tb σ s0) := by
  have he := he0
  unfold MsgTables.eoOk at he
  simp only [Bool.and_eq_true] at he
  have h' := h
  unfold MsgTables.shapeOk at h'
  simp only [Bool.and_eq_true, decide_eq_true_eq] at h'
  obtain ⟨⟨⟨⟨⟨⟨⟨⟨⟨⟨⟨⟨oTag, oCsz⟩, oCc⟩, oAsz⟩, _⟩, _⟩, _⟩, _⟩, sAuth⟩, nAuth⟩, _⟩, _⟩, _⟩ := h'
  unfold decodeCommand
  refine Tr.of_scs [⟨s0.pos, [], 0, none⟩] ?_
  refine Tr.of_emit (P := ME okc σ ["tag", "commandSize", "commandCode", "handles", "authSize", "authorizationArea", "parameters"])
    (.marshal ⟨σ, .named "Command" false, none, "", 0⟩) ?_ (fun E hE => MS.root "Command" hE)
  refine Tr.msgCatch_me abort _ _ _ _ (field_prim_me abort hpk _ oTag σ "tag" _) (fun tag s1 _ => ?_) (by decide)
  refine Tr.msgCatch_me abort _ _ _ _ (field_prim_me abort hpk _ oCsz σ "commandSize" _) (fun csz s2 _ => ?_) (by decide)
  split
  · exact Tr.crash_nil _ _ _ (ME.of_gw σ _ GW.nil)
  · split
    · exact Tr.crash_nil _ _ _ (ME.of_gw σ _ GW.nil)
    · refine Tr.bind_gw_me (setListed_gw abort _ _ _ s2) (fun _ s3 _ => ?_)
      refine Tr.msgCatch_me abort _ _ _ _ (field_prim_me abort hpk _ oCc σ "commandCode" _) (fun ccv s4 _ => ?_) (by decide)
      simp only []
      split
      · exact Tr.err_nil _ _ (ME.of_gw σ _ GW.nil)
      · rename_i hty hlh
        refine Tr.msgCatch_me abort _ _ _ _ (field_area_me abort hpk tb false hty (lookupTy_areaBoth h he0 (Or.inl hlh)) σ "handles" _)
          (fun hv s5 _ => ?_) (by decide)
        -- parameters (last slot), whatever was decided about the sessions
        have params : ∀ (vals : List (String × Val)) (enc : Bool) (s : St),
            Tr (ME okc σ ["parameters"]) s
              (match lookupTy tb.cmdParams ((vInt ccv).getD 0) with
               | none => .error (.value (σ ++ [⟨"commandCode", none⟩]) tb.cc.name ((vInt ccv).getD 0), s)
               | some pty =>
                 msgCatch abort s0.pos (s0.pos + 1) "Command" vals
                   (decodeArea abort tb enc pty (σ ++ [⟨"parameters", none⟩]) s) fun pv s =>
                   (assertDone abort s0.pos s).bind fun _ s => .ok (.obj "Command" false (vals ++ [("parameters", pv)]), s)) := by
          intro vals enc s
          split
          · exact Tr.err_nil _ _ (ME.of_gw σ _ GW.nil)
          · rename_i pty hlp
            refine Tr.msgCatch_me (N2 := []) abort _ _ _ _
              (field_area_me abort hpk tb enc pty (lookupTy_areaBoth h he0 (Or.inr (Or.inl hlp))) σ "parameters" s)
              (fun pv t _ => ?_) (by simp)
            exact (assertDone_gw abort _ t).bind (fun _ t2 _ => Tr.ok_nil _ _ GW.nil) (fun _ hh => ME.of_gw σ [] hh)
              (fun _ _ h1 h2 => ME.of_gw σ [] (h1.append h2))
        split
        · refine Tr.msgCatch_me abort _ _ _ _ (field_prim_me abort hpk _ oAsz σ "authSize" _) (fun asz s6 _ => ?_) (by decide)
          split
          · exact Tr.crash_nil _ _ _ (ME.of_gw σ _ GW.nil)
          · split
            · exact Tr.crash_nil _ _ _ (ME.of_gw σ _ GW.nil)
            · refine Tr.bind_gw_me (openRegion_gw abort _ _ _ s6) (fun _ s7 _ => ?_)
              refine Tr.msgCatch_me abort _ _ _ _ (decodeSized_me abort hpk tb.authCmd sAuth nAuth he.1.1.1.1 he.1.1.1.2 σ "authorizationArea" _ s7)
                (fun area s8 _ => ?_) (by decide)
              split
              · exact Tr.crash_nil _ _ _ (ME.of_gw σ _ GW.nil)
              · exact params _ _ s8
        · exact (params _ false s5).me_weaken (fun g hg => by
            simp only [List.mem_singleton] at hg; subst hg; simp)


theorem decodeResponse_ms (hpk : PrimLink abort pk okc) (tb : MsgTables) (h : tb.shapeOk pk = true) (he0 : tb.eoOk = true) (cc : Option Int) (encFlag : Bool) (σ : Path) (s0 : St) :
    Tr (MS okc σ) s0 (decodeResponse abort tb cc encFlag σ s0) := by
  have he := he0
  unfold MsgTables.eoOk at he
  simp only [Bool.and_eq_true] at he
  have h' := h
  unfold MsgTables.shapeOk at h'
  simp only [Bool.and_eq_true, decide_eq_true_eq] at h'
  obtain ⟨⟨⟨⟨⟨⟨⟨⟨⟨⟨⟨⟨_, _⟩, _⟩, _⟩, oTag⟩, oRsz⟩, oRc⟩, oPsz⟩, _⟩, _⟩, sAuth⟩, nAuth⟩, _⟩ := h'
  -- the end of a response: warnings only
  have fin : ∀ (N : List String) (vals : List (String × Val)) (s : St),
      Tr (ME okc σ N) s ((assertDone abort s0.pos s).bind fun _ s =>
        if s.scs.isEmpty then (.ok (Val.obj "Response" false vals, s) : R Val)
        else crash "AssertionError" "size_constraints.assert_done()" s) := by
    intro N vals s
    refine ((assertDone_gw abort _ s).bind (fun _ t _ => ?_) (fun _ hh => hh) (fun _ _ h1 h2 => h1.append h2)).mono
      (fun _ hh => ME.of_gw σ N hh)
    split
    · exact Tr.ok_nil _ _ GW.nil
    · exact Tr.crash_nil _ _ _ GW.nil
  unfold decodeResponse
  refine Tr.of_scs [⟨s0.pos, [], 0, none⟩] ?_
  refine Tr.of_emit (P := ME okc σ ["tag", "responseSize", "responseCode", "handles", "parameterSize", "parameters", "authorizationArea"])
    (.marshal ⟨σ, .named "Response" false, none, "", 0⟩) ?_ (fun E hE => MS.root "Response" hE)
  refine Tr.msgCatch_me abort _ _ _ _ (field_prim_me abort hpk _ oTag σ "tag" _) (fun tag s1 _ => ?_) (by decide)
  refine Tr.msgCatch_me abort _ _ _ _ (field_prim_me abort hpk _ oRsz σ "responseSize" _) (fun rsz s2 _ => ?_) (by decide)
  split
  · exact Tr.crash_nil _ _ _ (ME.of_gw σ _ GW.nil)
  · split
    · exact Tr.crash_nil _ _ _ (ME.of_gw σ _ GW.nil)
    · refine Tr.bind_gw_me (setListed_gw abort _ _ _ s2) (fun _ s3 _ => ?_)
      refine Tr.msgCatch_me abort _ _ _ _ (field_prim_me abort hpk _ oRc σ "responseCode" _) (fun rcv s4 _ => ?_) (by decide)
      simp only []
      split
      · exact fin _ _ _
      · split
        · exact Tr.err_nil _ _ (ME.of_gw σ _ GW.nil)
        · rename_i hty hlh
          have hhty : (hty.areaOk pk tb.encParam = true ∧ hty.areaEo tb.encParam = true) := by
            cases cc with
            | none => simp at hlh
            | some c => exact lookupTy_areaBoth h he0 (Or.inr (Or.inr (Or.inl (by simpa using hlh))))
          refine Tr.msgCatch_me abort _ _ _ _ (field_area_me abort hpk tb encFlag hty hhty σ "handles" _) (fun hv s5 _ => ?_) (by decide)
          split
          · refine Tr.msgCatch_me abort _ _ _ _ (field_prim_me abort hpk _ oPsz σ "parameterSize" _) (fun psz s6 _ => ?_) (by decide)
            split
            · exact Tr.crash_nil _ _ _ (ME.of_gw σ _ GW.nil)
            · split
              · exact Tr.crash_nil _ _ _ (ME.of_gw σ _ GW.nil)
              · refine Tr.bind_gw_me (openRegion_gw abort _ _ _ s6) (fun _ s7 _ => ?_)
                split
                · exact Tr.err_nil _ _ (ME.of_gw σ _ GW.nil)
                · rename_i pty hlp
                  have hpty : (pty.areaOk pk tb.encParam = true ∧ pty.areaEo tb.encParam = true) := by
                    cases cc with
                    | none => simp at hlp
                    | some c => exact lookupTy_areaBoth h he0 (Or.inr (Or.inr (Or.inr (by simpa using hlp))))
                  refine Tr.msgCatch_me abort _ _ _ _ ?_ (fun pv t _ => ?_) (by decide)
                  · refine Tr.bind_me_gw (field_area_me abort hpk tb encFlag pty hpty σ "parameters" _) (fun pv t _ => ?_)
                    first
                    | exact (assertDone_gw abort _ t).bind (fun _ t2 _ => Tr.ok_nil _ _ GW.nil) (fun _ hh => hh)
                        (fun _ _ h1 h2 => h1.append h2)
                    | exact Tr.ok_nil _ _ GW.nil
                  · split
                    · exact fin _ _ _
                    · refine Tr.msgCatch_me (N2 := []) abort _ _ _ _
                        (decodeSized_me abort hpk tb.authRsp sAuth nAuth he.1.1.2 he.1.2 σ "authorizationArea" _ t) (fun area t2 _ => ?_) (by simp)
                      split
                      · exact Tr.crash_nil _ _ _ (ME.of_gw σ _ GW.nil)
                      · split
                        · exact Tr.crash_nil _ _ _ (ME.of_gw σ _ GW.nil)
                        · split
                          · exact Tr.ok_nil _ _ (ME.of_gw σ _ GW.nil)
                          · exact Tr.crash_nil _ _ _ (ME.of_gw σ _ GW.nil)
          · refine Tr.me_weaken (N := ["parameters", "authorizationArea"]) ?_ (fun g hg => by
              simp only [List.mem_cons, List.not_mem_nil, or_false] at hg
              rcases hg with rfl | rfl <;> simp)
            split
            · exact Tr.err_nil _ _ (ME.of_gw σ _ GW.nil)
            · rename_i pty hlp
              have hpty : (pty.areaOk pk tb.encParam = true ∧ pty.areaEo tb.encParam = true) := by
                cases cc with
                | none => simp at hlp
                | some c => exact lookupTy_areaBoth h he0 (Or.inr (Or.inr (Or.inr (by simpa using hlp))))
              refine Tr.msgCatch_me abort _ _ _ _ ?_ (fun pv t _ => ?_) (by decide)
              · refine Tr.bind_me_gw (field_area_me abort hpk tb encFlag pty hpty σ "parameters" _) (fun pv t _ => ?_)
                first
                | exact (assertDone_gw abort _ t).bind (fun _ t2 _ => Tr.ok_nil _ _ GW.nil) (fun _ hh => hh)
                    (fun _ _ h1 h2 => h1.append h2)
                | exact Tr.ok_nil _ _ GW.nil
              · split
                · exact fin _ _ _
                · refine Tr.msgCatch_me (N2 := []) abort _ _ _ _
                    (decodeSized_me abort hpk tb.authRsp sAuth nAuth he.1.1.2 he.1.2 σ "authorizationArea" _ t) (fun area t2 _ => ?_) (by simp)
                  split
                  · exact Tr.crash_nil _ _ _ (ME.of_gw σ _ GW.nil)
                  · split
                    · exact Tr.crash_nil _ _ _ (ME.of_gw σ _ GW.nil)
                    · split
                      · exact Tr.ok_nil _ _ (ME.of_gw σ _ GW.nil)
                      · exact Tr.crash_nil _ _ _ (ME.of_gw σ _ GW.nil)


theorem decodeStream_ms (hpk : PrimLink abort pk okc) (tb : MsgTables) (h : tb.shapeOk pk = true) (he : tb.eoOk = true) (σ : Path) (hσ : σ ≠ []) :
    ∀ (fuel : Nat) (s : St), Tr (MS okc σ) s (decodeStream abort tb σ fuel s) := by
  have hnil : MS okc σ [] := ⟨⟨GD.of_gw σ GW.nil, Or.inl rfl⟩, rfl, rfl⟩
  have hroot : ∀ (name : String), MS okc σ [.marshal ⟨σ, .named name false, none, "", 0⟩] := fun name =>
    MS.root (N := []) name (ME.of_gw σ [] GW.nil)
  intro fuel
  induction fuel with
  | zero => intro s; exact Tr.crash_nil _ _ _ hnil
  | succ n ih =>
    intro s
    unfold decodeStream
    split
    · exact Tr.ok_emit1 _ _ _ (hroot _)
    · refine (decodeCommand_ms abort hpk tb h he σ s).bind (fun cmd t _ => ?_) (fun _ hh => hh)
        (fun _ _ h1 h2 => h1.append hσ h2)
      split
      · exact Tr.crash_nil _ _ _ hnil
      · split
        · exact Tr.ok_emit1 _ _ _ (hroot _)
        · exact (decodeResponse_ms abort hpk tb h he _ _ σ t).bind (fun _ t2 _ => ih t2) (fun _ hh => hh)
            (fun _ _ h1 h2 => h1.append hσ h2)

/-- **every run of every top-level decode, in either mode, on every input: no list's run is ended by a byte-buffer parent** -/
theorem runWalker_endsOk (hpk : PrimLink abort pk okc) (tb : MsgTables) (h : tb.shapeOk pk = true) (he : tb.eoOk = true) (top : Top)
    (htop : ∀ t, top = .ty t → t.shapeOk pk = true ∧ t.eoOk = true) (x : List Byte) :
    Tr (fun E => endsOk E = true) (initSt x) (runWalker abort tb top x) := by
  unfold runWalker
  cases top with
  | ty t => exact (decode_eo abort hpk t (htop t rfl).2 (htop t rfl).1 rootPath none _).mono (fun _ hh => hh.1)
  | command => exact (decodeCommand_ms abort hpk tb h he rootPath _).mono (fun _ hh => hh.2.1)
  | response cc enc => exact (decodeResponse_ms abort hpk tb h he cc enc rootPath _).mono (fun _ hh => hh.2.1)
  | stream => exact (decodeStream_ms abort hpk tb h he rootPath (by simp [rootPath]) _ _).mono (fun _ hh => hh.2.1)
end
