import TpmProofs.DecodeSound
import TpmProofs.MsgOk
/-!
# Soundness of acceptance for commands and responses

The converse of `decodeCommand_ok` / `decodeResponse_ok`: whatever the strict walker accepts as a command (response)
is well-formed in the sense of `specCommand` (`specResponse`): `commandSize`, `authSize`, `responseSize`,
`parameterSize` and every nested `TPM2B` size equal the length of what they govern, sessions are present iff the
tag says so, values are in their sets — and the bytes consumed / events emitted are exactly the dictated ones.
-/

/-- encodings of this layout are never empty (sufficient syntactic condition): a non-empty integer or a
size-prefixed buffer with a non-empty size field … -/
def Ty.nonEmptyLeaf : Ty → Bool
  | .prim p => decide (0 < p.size)
  | .tpm2b _ _ szP _ _ => decide (0 < szP.size)
  | .tpm2bBytes _ _ szP _ _ => decide (0 < szP.size)
  | _ => false

/-- … or a structure that starts with one -/
def Ty.nonEmpty : Ty → Bool
  | .struct _ _ (.cons _ .plain t _) => t.nonEmptyLeaf
  | t => t.nonEmptyLeaf

theorem isEmpty_false_of_length {bs : List Byte} (h : 0 < bs.length) : bs.isEmpty = false := by
  cases bs with
  | nil => simp at h
  | cons => rfl

theorem spec_nonEmptyLeaf {t : Ty} (hne : t.nonEmptyLeaf = true) {path : Path} {sel : Option Int} {v : Val} {bs : List Byte}
    {evs : List SEv} (h : spec t path sel v = some (bs, evs)) : 0 < bs.length := by
  cases t with
  | prim p =>
    simp only [Ty.nonEmptyLeaf, decide_eq_true_eq] at hne
    simp only [spec] at h
    have := specPrim_length h
    omega
  | tpm2b name szName szP bufName body =>
    simp only [Ty.nonEmptyLeaf, decide_eq_true_eq] at hne
    simp only [spec] at h
    split at h
    · simp at h
    · split at h
      · rename_i nb ne n hsz _
        have hl := specPrim_length hsz
        split at h
        · split at h
          · simp only [Option.some.injEq, Prod.mk.injEq] at h
            obtain ⟨rfl, _⟩ := h; omega
          · simp at h
        · split at h
          · simp at h
          · split at h
            · simp only [Option.some.injEq, Prod.mk.injEq] at h
              obtain ⟨rfl, _⟩ := h
              simp only [List.length_append]; omega
            · simp at h
      · simp at h
  | tpm2bBytes name szName szP bufName elem =>
    simp only [Ty.nonEmptyLeaf, decide_eq_true_eq] at hne
    simp only [spec] at h
    split at h
    · simp at h
    · split at h
      · rename_i nb ne n hsz _
        have hl := specPrim_length hsz
        split at h
        · simp at h
        · split at h
          · simp only [Option.some.injEq, Prod.mk.injEq] at h
            obtain ⟨rfl, _⟩ := h
            simp only [List.length_append]; omega
          · simp at h
      · simp at h
  | struct => simp [Ty.nonEmptyLeaf] at hne
  | union => simp [Ty.nonEmptyLeaf] at hne
  | bad => simp [Ty.nonEmptyLeaf] at hne

theorem spec_nonEmpty {t : Ty} (hne : t.nonEmpty = true) {path : Path} {sel : Option Int} {v : Val} {bs : List Byte}
    {evs : List SEv} (h : spec t path sel v = some (bs, evs)) : bs.isEmpty = false := by
  cases t with
  | struct name isP fs =>
    cases fs with
    | nil => simp [Ty.nonEmpty, Ty.nonEmptyLeaf] at hne
    | cons fname kind ft rest =>
      cases kind with
      | plain =>
        simp only [Ty.nonEmpty] at hne
        simp only [spec] at h
        split at h
        · simp at h
        · rename_i fvs _
          simp only [Option.map_eq_some_iff] at h
          obtain ⟨⟨b, e⟩, hf, heq⟩ := h
          simp only [Prod.mk.injEq] at heq
          obtain ⟨rfl, _⟩ := heq
          cases fvs with
          | nil => simp [specFields] at hf
          | cons fv fvs' =>
            obtain ⟨fn, fvv⟩ := fv
            simp only [specFields] at hf
            split at hf
            · split at hf
              · simp at hf
              · rename_i b1 e1 h1
                split at hf
                · simp at hf
                · simp only [Option.some.injEq, Prod.mk.injEq] at hf
                  obtain ⟨rfl, _⟩ := hf
                  simp only [specFieldWith] at h1
                  have := spec_nonEmptyLeaf hne h1
                  exact isEmpty_false_of_length (by simp only [List.length_append]; omega)
            · simp at hf
      | selected => simp [Ty.nonEmpty, Ty.nonEmptyLeaf] at hne
      | counted => simp [Ty.nonEmpty, Ty.nonEmptyLeaf] at hne
  | prim p => exact isEmpty_false_of_length (spec_nonEmptyLeaf (by simpa [Ty.nonEmpty] using hne) h)
  | tpm2b => exact isEmpty_false_of_length (spec_nonEmptyLeaf (by simpa [Ty.nonEmpty] using hne) h)
  | tpm2bBytes => exact isEmpty_false_of_length (spec_nonEmptyLeaf (by simpa [Ty.nonEmpty] using hne) h)
  | union => simp [Ty.nonEmpty, Ty.nonEmptyLeaf] at hne
  | bad => simp [Ty.nonEmpty, Ty.nonEmptyLeaf] at hne

/-! ## areas and the session loop -/

theorem dropSelectors_wf : (fs : Fields) → fs.wf = true → fs.dropSelectors.wf = true
  | .nil, _ => rfl
  | .cons f kind t rest, h => by
    simp only [Fields.wf, Bool.and_eq_true] at h
    cases kind <;> simp [Fields.dropSelectors, Fields.wf, h.1, dropSelectors_wf rest h.2]

theorem encVariant_wf {encParam t : Ty} {name : String} {fs : Fields} (he : encParam.wf = true) (ht : t.wf = true)
    (h : encVariant encParam t = some (name, fs)) : fs.wf = true := by
  cases t with
  | struct n p fields =>
    cases fields with
    | nil => simp [encVariant] at h
    | cons f kind ft rest =>
      simp only [encVariant] at h
      split at h
      · simp only [Option.some.injEq, Prod.mk.injEq] at h
        obtain ⟨_, rfl⟩ := h
        simp only [Ty.wf, Fields.wf, Bool.and_eq_true] at ht
        simp [Fields.wf, he, dropSelectors_wf rest ht.2]
      · simp at h
  | _ => simp [encVariant] at h

theorem decodeArea_sound (tb : MsgTables) (enc : Bool) (t : Ty) (hwt : t.wf = true) (hwe : tb.encParam.wf = true)
    (path : Path) (s s' : St) (v : Val) (hfresh : Fresh s.scs s.pos)
    (h : decodeArea true tb enc t path s = .ok (v, s')) : Snd (specArea tb enc t path v) s s' := by
  unfold decodeArea at h
  unfold specArea
  by_cases hc : (enc && t.isParams) = true
  · simp only [hc, if_true] at h ⊢
    cases henc : encVariant tb.encParam t with
    | none =>
      simp only [henc] at h ⊢
      exact decode_sound t hwt path none s s' v hfresh h
    | some nf =>
      obtain ⟨name, fs⟩ := nf
      simp only [henc] at h ⊢
      obtain ⟨vals, s1, h1, h⟩ := bind_ok_inv h
      simp only [Except.ok.injEq, Prod.mk.injEq] at h
      obtain ⟨rfl, rfl⟩ := h
      obtain ⟨fvs, hout, b, e, hg, i1, p1, o1, c1⟩ := fields_sound fs (encVariant_wf hwe hwt henc) path [] _ _ vals
        (by simpa [emitM, emit] using hfresh) h1
      simp only [List.nil_append] at hout
      subst hout
      refine ⟨b, (0, ⟨path, .named name true, none, "", 0⟩) :: e, ?_, ?_, ?_, ?_, ?_⟩
      · simp [Val.asObj, hg]
      · simpa [emitM, emit] using i1
      · simpa [emitM, emit] using p1
      · rw [o1]; simp [emitM, emit, stamp_cons]
      · simpa [emitM, emit] using c1
  · simp only [hc, Bool.false_eq_true, if_false] at h ⊢
    exact decode_sound t hwt path none s s' v hfresh h

theorem sizedLoop_sound (t : Ty) (hwt : t.wf = true) (hne : t.nonEmpty = true) (path : Path) (cid : Nat) :
    ∀ (fuel i : Nat) (acc : List Val) (pre : List SC) (c : SC) (m : Nat) (s s' : St) (v : Val),
    s.scs = pre ++ [c] → c.id = cid → (∀ d ∈ pre, d.id ≠ cid) → c.max = some m → Fresh s.scs s.pos →
    sizedLoop true t path cid fuel i acc s = .ok (v, s') →
    ∃ vs bs evs, v = .list (acc ++ vs) ∧ specRepeat (sessSpec t) path vs i = some (bs, evs) ∧
      c.already + bs.length = m ∧ s.inp = bs ++ s'.inp ∧ s'.pos = s.pos + bs.length ∧
      s'.out = s.out ++ stamp s.pos evs ∧ s'.scs = bump pre bs.length := by
  intro fuel
  induction fuel with
  | zero => intro i acc pre c m s s' v _ _ _ _ _ h; simp [sizedLoop, crash] at h
  | succ n ih =>
    intro i acc pre c m s s' v hscs hc hpre hm hfresh h
    unfold sizedLoop at h
    rw [hscs, findSC_last cid pre c hc hpre] at h
    simp only [hm, ownCatch_strict] at h
    by_cases hlt : c.already < m
    · rw [if_pos hlt] at h
      obtain ⟨ev, s1, h1, h⟩ := bind_ok_inv h
      obtain ⟨b, e, hspec, i1, p1, o1, c1⟩ := decode_sound t hwt _ none s s1 ev hfresh h1
      have hs1 : s1.scs = bump pre b.length ++ [c.bump b.length] := by rw [c1, hscs]; exact bump_append _ _ _
      have hfresh1 : Fresh s1.scs s1.pos := by rw [c1, p1]; exact fresh_bump hfresh
      obtain ⟨vs, bs', es', hv, hrep, hlen, i2, p2, o2, c2⟩ := ih (i+1) (acc ++ [ev]) (bump pre b.length) (c.bump b.length) m s1 s' v
        hs1 (by simpa [SC.bump] using hc) (bump_ids hpre) (by simpa [SC.bump] using hm) hfresh1 h
      refine ⟨ev :: vs, b ++ bs', e ++ shift b.length es', by rw [hv]; simp, ?_, ?_, ?_, ?_, ?_, ?_⟩
      · simp [specRepeat, sessSpec, hspec, spec_nonEmpty hne hspec, hrep]
      · simp only [SC.bump] at hlen; rw [List.length_append]; omega
      · rw [i1, i2, List.append_assoc]
      · rw [p2, p1, List.length_append]; omega
      · rw [o2, o1, p1, stamp_append, stamp_shift, List.append_assoc]
      · rw [c2, bump_bump, List.length_append]
    · rw [if_neg hlt] at h
      obtain ⟨_, s1, h1, h⟩ := bind_ok_inv h
      simp only [Except.ok.injEq, Prod.mk.injEq] at h
      obtain ⟨rfl, rfl⟩ := h
      rw [removeSC_last cid pre c hc hpre] at h1
      unfold assertDoneSC at h1
      simp only [hm] at h1
      split at h1
      · rename_i heq
        simp only [Except.ok.injEq, Prod.mk.injEq, true_and] at h1
        subst h1
        exact ⟨[], [], [], by simp, by simp [specRepeat], by simpa using heq, by simp, by simp, by simp, by simp⟩
      · simp at h1

theorem decodeSized_sound (t : Ty) (hwt : t.wf = true) (hne : t.nonEmpty = true) (path : Path) (cid : Nat)
    (pre : List SC) (c : SC) (m : Nat) (s s' : St) (v : Val)
    (hscs : s.scs = pre ++ [c]) (hc : c.id = cid) (hpre : ∀ d ∈ pre, d.id ≠ cid) (hm : c.max = some m)
    (hfresh : Fresh s.scs s.pos) (h : decodeSized true t path cid s = .ok (v, s')) :
    ∃ bs evs, specSessions t path v = some (bs, evs) ∧ c.already + bs.length = m ∧ s.inp = bs ++ s'.inp ∧
      s'.pos = s.pos + bs.length ∧ s'.out = s.out ++ stamp s.pos evs ∧ s'.scs = bump pre bs.length := by
  unfold decodeSized at h
  obtain ⟨vs, bs, evs, hv, hrep, hlen, i1, p1, o1, c1⟩ := sizedLoop_sound t hwt hne path cid _ 0 [] pre c m _ s' v
    (by simpa [emitM, emit] using hscs) hc hpre hm (by simpa [emitM, emit] using hfresh) h
  simp only [List.nil_append] at hv
  subst hv
  refine ⟨bs, (0, ⟨path, .listOf t.name, none, "", 0⟩) :: evs, ?_, hlen, ?_, ?_, ?_, ?_⟩
  · simp [specSessions, Val.asList, hrep]
  · simpa [emitM, emit] using i1
  · simpa [emitM, emit] using p1
  · rw [o1]; simp [emitM, emit, stamp_cons]
  · exact c1

/-! ## commands -/

def MsgTables.wf (tb : MsgTables) : Bool :=
  tb.tagCmd.wf && decide (0 < tb.tagCmd.size) && tb.cmdSize.wf && tb.cc.wf && tb.authSize.wf &&
  tb.authCmd.wf && tb.authCmd.nonEmpty &&
  tb.tagRsp.wf && decide (0 < tb.tagRsp.size) && tb.rspSize.wf && tb.rc.wf && tb.paramSize.wf &&
  tb.authRsp.wf && tb.authRsp.nonEmpty && tb.encParam.wf &&
  tb.cmdHandles.all (·.2.wf) && tb.cmdParams.all (·.2.wf) && tb.rspHandles.all (·.2.wf) && tb.rspParams.all (·.2.wf)

theorem lookupTy_wf {m : List (Int × Ty)} (h : m.all (·.2.wf) = true) {k : Int} {t : Ty} (hl : lookupTy m k = some t) :
    t.wf = true := by
  unfold lookupTy at hl
  simp only [Option.map_eq_some_iff] at hl
  obtain ⟨⟨k', t'⟩, hf, rfl⟩ := hl
  have := List.mem_of_find?_eq_some hf
  exact List.all_eq_true.mp h _ this

theorem msgCatch_strict (id1 id2 : Nat) (name : String) (vals : List (String × Val)) (r : R Val) (g : Val → St → R Val) :
    msgCatch true id1 id2 name vals r g = r.bind g := by
  unfold msgCatch
  cases r with
  | error e => obtain ⟨e, s⟩ := e; cases e <;> simp [R.bind]
  | ok v => obtain ⟨v, s⟩ := v; simp [R.bind]

theorem setListed_ok_inv {id : Nat} {cpath : Path} {n : Nat} {s s' : St} (h : setListed true id cpath n s = .ok ((), s')) :
    s' = { s with scs := s.scs.map fun c => if c.id = id then { c with path := cpath, max := some n } else c } := by
  unfold setListed anticipateM at h
  simp only [] at h
  split at h
  · simp only [Except.ok.injEq, Prod.mk.injEq, true_and] at h; exact h.symm
  · simp at h

theorem vInt_int (cls : String) (x : Int) : vInt (.int cls x) = some x := rfl

theorem toNat_cast {n : Int} (h : ¬ n < 0) : (n.toNat : Int) = n := by omega

theorem shift_zero (evs : List SEv) : shift 0 evs = evs := by simp [shift]

theorem fresh_one (c : SC) (pos : Nat) (h : c.id ≤ pos) : Fresh [c] pos := by
  intro d hd; simp only [List.mem_singleton] at hd; subst hd; exact h

theorem decodeCommand_sound (tb : MsgTables) (hw : tb.wf = true) (path : Path) (s0 s' : St) (v : Val)
    (h : decodeCommand true tb path s0 = .ok (v, s')) :
    ∃ p bs evs, v = p.toVal ∧ specCommand tb path p = some (bs, evs) ∧ s0.inp = bs ++ s'.inp ∧
      s'.pos = s0.pos + bs.length ∧ s'.out = s0.out ++ stamp s0.pos evs ∧ s'.scs = [] := by
  simp only [MsgTables.wf, Bool.and_eq_true, decide_eq_true_eq] at hw
  obtain ⟨⟨⟨⟨⟨⟨⟨⟨⟨⟨⟨⟨⟨⟨⟨⟨⟨⟨wTag, hTagPos⟩, wCsz⟩, wCc⟩, wAsz⟩, wAuth⟩, neAuth⟩, _⟩, _⟩, _⟩, _⟩, _⟩, _⟩, _⟩, wEnc⟩, wCH⟩, wCP⟩, _⟩, _⟩ := hw
  unfold decodeCommand at h
  simp only [msgCatch_strict] at h
  -- tag
  obtain ⟨tag, s1, h1, h⟩ := bind_ok_inv h
  obtain ⟨b1, e1, g1, i1, p1, o1, c1⟩ := readPrim_sound wTag h1
  simp only [emitM, emit] at i1 p1 o1 c1
  have l1 := specPrim_length g1
  -- commandSize
  obtain ⟨csz, s2, h2, h⟩ := bind_ok_inv h
  obtain ⟨b2, e2, g2, i2, p2, o2, c2⟩ := readPrim_sound wCsz h2
  obtain ⟨n, rfl, _, _, _, _⟩ := specPrim_inv g2
  rw [vInt_int] at h
  simp only [] at h
  by_cases hn0 : n < 0
  · rw [if_pos hn0] at h; simp [crash] at h
  · rw [if_neg hn0] at h
    obtain ⟨_, s3, h3, h⟩ := bind_ok_inv h
    have hs3 := setListed_ok_inv h3
    have e3i : s3.inp = s2.inp := by rw [hs3]
    have e3p : s3.pos = s2.pos := by rw [hs3]
    have e3o : s3.out = s2.out := by rw [hs3]
    have e3c : s3.scs = [⟨s0.pos, path ++ [⟨"commandSize", none⟩], b1.length + b2.length, some n.toNat⟩] := by
      rw [hs3, c2, c1]; simp [bump, SC.bump]
    -- commandCode
    obtain ⟨ccv, s4, h4, h⟩ := bind_ok_inv h
    obtain ⟨b3, e3, g3, i4, p4, o4, c4⟩ := readPrim_sound wCc h4
    obtain ⟨xc, rfl, _, _, _, _⟩ := specPrim_inv g3
    simp only [vInt_int, Option.getD_some] at h
    cases hh : lookupTy tb.cmdHandles xc with
    | none => simp [hh] at h
    | some hty =>
      simp only [hh] at h
      -- handles
      obtain ⟨hv, s5, h5, h⟩ := bind_ok_inv h
      have p4' : s4.pos = s0.pos + b1.length + b2.length + b3.length := by rw [p4, e3p, p2, p1]
      have hfr4 : Fresh s4.scs s4.pos := by
        rw [c4, e3c]; simp only [bump, List.map_cons, List.map_nil, SC.bump]
        exact fresh_one _ _ (by simp only []; omega)
      obtain ⟨b4, e4, g4, i5, p5, o5, c5⟩ := decodeArea_sound tb false hty (lookupTy_wf wCH hh) wEnc _ s4 s5 hv hfr4 h5
      have g4' : spec hty (path ++ [⟨"handles", none⟩]) none hv = some (b4, e4) := by simpa [specArea] using g4
      have hfr5 : Fresh s5.scs s5.pos := by rw [c5, p5]; exact fresh_bump hfr4
      have c5' : s5.scs = [⟨s0.pos, path ++ [⟨"commandSize", none⟩], b1.length + b2.length + b3.length + b4.length, some n.toNat⟩] := by
        rw [c5, c4, e3c]; simp [bump, SC.bump]
      have p5' : s5.pos = s0.pos + b1.length + b2.length + b3.length + b4.length := by
        rw [p5, p4']
      -- tail: parameters and the final assert_done, from any state with the one region
      have tail : ∀ (vals : List (String × Val)) (enc : Bool) (s6 : St) (a6 : Nat),
          s6.scs = [(⟨s0.pos, path ++ [⟨"commandSize", none⟩], a6, some n.toNat⟩ : SC)] → s0.pos ≤ s6.pos →
          (match lookupTy tb.cmdParams xc with
            | none => (.error (.value (path ++ [(⟨"commandCode", none⟩ : PathNode)]) tb.cc.name xc, s6) : R Val)
            | some pty =>
              (decodeArea true tb enc pty (path ++ [(⟨"parameters", none⟩ : PathNode)]) s6).bind fun pv s =>
              (assertDone true s0.pos s).bind fun _ s => .ok (.obj "Command" false (vals ++ [("parameters", pv)]), s)) = .ok (v, s') →
          ∃ pty pv b6 e6, lookupTy tb.cmdParams xc = some pty ∧ v = .obj "Command" false (vals ++ [("parameters", pv)]) ∧
            specArea tb enc pty (path ++ [(⟨"parameters", none⟩ : PathNode)]) pv = some (b6, e6) ∧ a6 + b6.length = n.toNat ∧
            s6.inp = b6 ++ s'.inp ∧ s'.pos = s6.pos + b6.length ∧ s'.out = s6.out ++ stamp s6.pos e6 ∧ s'.scs = [] := by
        intro vals enc s6 a6 hscs hpos ht
        cases hp : lookupTy tb.cmdParams xc with
        | none => simp [hp] at ht
        | some pty =>
          simp only [hp] at ht
          obtain ⟨pv, s7, h7, ht⟩ := bind_ok_inv ht
          obtain ⟨b6, e6, g6, i7, p7, o7, c7⟩ := decodeArea_sound tb enc pty (lookupTy_wf wCP hp) wEnc _ s6 s7 pv
            (by rw [hscs]; exact fresh_one _ _ hpos) h7
          obtain ⟨_, s8, h8, ht⟩ := bind_ok_inv ht
          simp only [Except.ok.injEq, Prod.mk.injEq] at ht
          obtain ⟨rfl, rfl⟩ := ht
          have hs7 : s7.scs = [] ++ [(⟨s0.pos, path ++ [⟨"commandSize", none⟩], a6 + b6.length, some n.toNat⟩ : SC)] := by
            rw [c7, hscs]; simp [bump, SC.bump]
          obtain ⟨hfull, hs8⟩ := assertDone_last_inv hs7 rfl (by intro d hd; cases hd) h8
          simp only [Option.some.injEq] at hfull
          refine ⟨pty, pv, b6, e6, rfl, rfl, g6, hfull.symm, ?_, ?_, ?_, ?_⟩
          · rw [hs8]; exact i7
          · rw [hs8]; exact p7
          · rw [hs8]; exact o7
          · rw [hs8]
      have i5' : s0.inp = b1 ++ (b2 ++ (b3 ++ (b4 ++ s5.inp))) := by
        rw [i1, i2, ← e3i, i4, i5]
      have o5' : s5.out = s0.out ++ stamp s0.pos ((0, ⟨path, .named "Command" false, none, "", 0⟩) ::
          (e1 ++ shift b1.length (e2 ++ shift b2.length (e3 ++ shift b3.length e4)))) := by
        rw [o5, o4, e3o, o2, o1, p4', e3p, p2, p1]
        simp [stamp_cons, stamp_append, stamp_shift, Nat.add_assoc, List.append_assoc]
      by_cases hsess : (vInt tag == some tb.sessionsTag) = true
      · -- with sessions
        rw [if_pos hsess] at h
        obtain ⟨asz, s6, h6, h⟩ := bind_ok_inv h
        obtain ⟨ba, ea, ga, i6, p6, o6, c6⟩ := readPrim_sound wAsz h6
        obtain ⟨an, rfl, _, _, _, _⟩ := specPrim_inv ga
        rw [vInt_int] at h
        simp only [] at h
        by_cases han0 : an < 0
        · rw [if_pos han0] at h; simp [crash] at h
        · rw [if_neg han0] at h
          obtain ⟨_, s7, h7, h⟩ := bind_ok_inv h
          have hs7 := openRegion_ok_inv h7
          obtain ⟨area, s8, h8, h⟩ := bind_ok_inv h
          have c6' : s6.scs = [(⟨s0.pos, path ++ [⟨"commandSize", none⟩],
              b1.length + b2.length + b3.length + b4.length + ba.length, some n.toNat⟩ : SC)] := by
            rw [c6, c5']; simp [bump, SC.bump]
          have p6' : s6.pos = s0.pos + b1.length + b2.length + b3.length + b4.length + ba.length := by rw [p6, p5']
          have hs7scs : s7.scs = [(⟨s0.pos, path ++ [⟨"commandSize", none⟩],
              b1.length + b2.length + b3.length + b4.length + ba.length, some n.toNat⟩ : SC)] ++
              [(⟨s0.pos + 1, path ++ [⟨"authSize", none⟩], 0, some an.toNat⟩ : SC)] := by rw [hs7, c6']
          have e7i : s7.inp = s6.inp := by rw [hs7]
          have e7p : s7.pos = s6.pos := by rw [hs7]
          have e7o : s7.out = s6.out := by rw [hs7]
          have hfr7 : Fresh s7.scs s7.pos := by
            rw [hs7scs, e7p, p6']
            intro d hd
            simp only [List.mem_append, List.mem_singleton] at hd
            rcases hd with rfl | rfl <;> simp only [] <;> omega
          obtain ⟨bs, es, gs, hlen, i8, p8, o8, c8⟩ := decodeSized_sound tb.authCmd wAuth neAuth _ (s0.pos + 1) _ _ an.toNat
            s7 s8 area hs7scs rfl (by intro d hd; simp only [List.mem_singleton] at hd; subst hd; simp) rfl hfr7 h8
          have hlen' : bs.length = an.toNat := by simpa using hlen
          cases hflag : areaFlag tb.authCmd "decrypt" area with
          | error cls => simp [hflag, crash] at h
          | ok enc =>
            simp only [hflag] at h
            have c8' : s8.scs = [(⟨s0.pos, path ++ [⟨"commandSize", none⟩],
                b1.length + b2.length + b3.length + b4.length + ba.length + bs.length, some n.toNat⟩ : SC)] := by
              rw [c8]; simp [bump, SC.bump]
            obtain ⟨pty, pv, b6, e6, hp, hv', g6, hfull, i9, p9, o9, c9⟩ := tail _ enc s8 _ c8'
              (by rw [p8, e7p, p6']; omega) h
            refine ⟨⟨tag, .int tb.cmdSize.name n, .int tb.cc.name xc, hv, some (.int tb.authSize.name an, area), pv⟩,
              b1 ++ (b2 ++ (b3 ++ (b4 ++ ((ba ++ bs) ++ b6)))),
              (0, ⟨path, .named "Command" false, none, "", 0⟩) ::
                (e1 ++ shift b1.length (e2 ++ shift b2.length (e3 ++ shift b3.length
                  (e4 ++ shift b4.length ((ea ++ shift ba.length es) ++ shift (ba ++ bs).length e6))))), ?_, ?_, ?_, ?_, ?_, c9⟩
            · rw [hv']; simp [CmdParts.toVal]
            · have hauth : specCmdAuth tb path true (some (.int tb.authSize.name an, area)) =
                  some (ba ++ bs, ea ++ shift ba.length es, enc) := by
                simp only [specCmdAuth, ga, gs, hflag, vInt_int]
                have : an = (bs.length : Int) := by clear hlen; omega
                simp [this]
              have hfull' : b1.length + b2.length + b3.length + b4.length + ba.length + bs.length + b6.length = n.toNat := hfull
              have hsz : (n : Int) = ((b1 ++ (b2 ++ (b3 ++ (b4 ++ ((ba ++ bs) ++ b6))))).length : Int) := by
                simp only [List.length_append]; omega
              simp only [specCommand, g1, g2, g3, vInt_int, Option.getD_some, hh, hp, g4', hsess, hauth, g6]
              simp [hsz]
            · rw [i5', i6, ← e7i, i8, i9]; simp [List.append_assoc]
            · rw [p9, p8, e7p, p6']; simp only [List.length_append]; omega
            · rw [o9, o8, e7o, o6, o5', p8, e7p, p6', p5']
              simp [stamp_cons, stamp_append, stamp_shift, Nat.add_assoc, List.append_assoc]
      · -- no sessions
        rw [if_neg hsess] at h
        obtain ⟨pty, pv, b6, e6, hp, hv', g6, hfull, i9, p9, o9, c9⟩ := tail _ false s5 _ c5' (by rw [p5']; omega) h
        have hsess' : (vInt tag == some tb.sessionsTag) = false := by simpa using hsess
        refine ⟨⟨tag, .int tb.cmdSize.name n, .int tb.cc.name xc, hv, none, pv⟩,
          b1 ++ (b2 ++ (b3 ++ (b4 ++ ([] ++ b6)))),
          (0, ⟨path, .named "Command" false, none, "", 0⟩) ::
            (e1 ++ shift b1.length (e2 ++ shift b2.length (e3 ++ shift b3.length
              (e4 ++ shift b4.length ([] ++ shift 0 e6))))), ?_, ?_, ?_, ?_, ?_, c9⟩
        · rw [hv']; simp [CmdParts.toVal]
        · have hsz : (n : Int) = ((b1 ++ (b2 ++ (b3 ++ (b4 ++ ([] ++ b6))))).length : Int) := by
            simp only [List.length_append, List.length_nil]; omega
          simp only [specCommand, g1, g2, g3, vInt_int, Option.getD_some, hh, hp, g4', hsess', specCmdAuth, g6]
          simp [hsz]
        · rw [i5', i9]; simp [List.append_assoc]
        · rw [p9, p5']; simp only [List.length_append, List.length_nil]; omega
        · rw [o9, o5', p5']
          simp [stamp_cons, stamp_append, stamp_shift, shift_zero, Nat.add_assoc, List.append_assoc]

/-! ## responses -/

theorem decodeResponse_sound (tb : MsgTables) (hw : tb.wf = true) (cc : Option Int) (enc : Bool) (path : Path)
    (s0 s' : St) (v : Val) (h : decodeResponse true tb cc enc path s0 = .ok (v, s')) :
    ∃ p bs evs, v = p.toVal ∧ specResponse tb cc enc path p = some (bs, evs) ∧ s0.inp = bs ++ s'.inp ∧
      s'.pos = s0.pos + bs.length ∧ s'.out = s0.out ++ stamp s0.pos evs ∧ s'.scs = [] := by
  simp only [MsgTables.wf, Bool.and_eq_true, decide_eq_true_eq] at hw
  obtain ⟨⟨⟨⟨⟨⟨⟨⟨⟨⟨⟨⟨⟨⟨⟨⟨⟨⟨_, _⟩, _⟩, _⟩, _⟩, _⟩, _⟩, wTag⟩, hTagPos⟩, wRsz⟩, wRc⟩, wPsz⟩, wAuth⟩, neAuth⟩, wEnc⟩, _⟩, _⟩, wRH⟩, wRP⟩ := hw
  unfold decodeResponse at h
  simp only [msgCatch_strict] at h
  obtain ⟨tag, s1, h1, h⟩ := bind_ok_inv h
  obtain ⟨b1, e1, g1, i1, p1, o1, c1⟩ := readPrim_sound wTag h1
  simp only [emitM, emit] at i1 p1 o1 c1
  have l1 := specPrim_length g1
  obtain ⟨rsz, s2, h2, h⟩ := bind_ok_inv h
  obtain ⟨b2, e2, g2, i2, p2, o2, c2⟩ := readPrim_sound wRsz h2
  obtain ⟨n, rfl, _, _, _, _⟩ := specPrim_inv g2
  rw [vInt_int] at h
  simp only [] at h
  by_cases hn0 : n < 0
  · rw [if_pos hn0] at h; simp [crash] at h
  · rw [if_neg hn0] at h
    obtain ⟨_, s3, h3, h⟩ := bind_ok_inv h
    have hs3 := setListed_ok_inv h3
    have e3i : s3.inp = s2.inp := by rw [hs3]
    have e3p : s3.pos = s2.pos := by rw [hs3]
    have e3o : s3.out = s2.out := by rw [hs3]
    have e3c : s3.scs = [(⟨s0.pos, path ++ [⟨"responseSize", none⟩], b1.length + b2.length, some n.toNat⟩ : SC)] := by
      rw [hs3, c2, c1]; simp [bump, SC.bump]
    obtain ⟨rcv, s4, h4, h⟩ := bind_ok_inv h
    obtain ⟨b3, e3, g3, i4, p4, o4, c4⟩ := readPrim_sound wRc h4
    have p4' : s4.pos = s0.pos + b1.length + b2.length + b3.length := by rw [p4, e3p, p2, p1]
    have c4' : s4.scs = [(⟨s0.pos, path ++ [⟨"responseSize", none⟩], b1.length + b2.length + b3.length, some n.toNat⟩ : SC)] := by
      rw [c4, e3c]; simp [bump, SC.bump]
    have i4' : s0.inp = b1 ++ (b2 ++ (b3 ++ s4.inp)) := by rw [i1, i2, ← e3i, i4]
    have o4' : s4.out = s0.out ++ stamp s0.pos ((0, ⟨path, .named "Response" false, none, "", 0⟩) ::
        (e1 ++ shift b1.length (e2 ++ shift b2.length e3))) := by
      rw [o4, e3o, o2, o1, e3p, p2, p1]
      simp [stamp_cons, stamp_append, stamp_shift, Nat.add_assoc, List.append_assoc]
    -- the common end: the response-size region closes exactly full and nothing is left open
    have finish : ∀ (vals : List (String × Val)) (s6 : St) (a6 : Nat),
        s6.scs = [(⟨s0.pos, path ++ [⟨"responseSize", none⟩], a6, some n.toNat⟩ : SC)] →
        ((assertDone true s0.pos s6).bind fun _ s =>
          if s.scs.isEmpty then (.ok (.obj "Response" false vals, s) : R Val)
          else crash "AssertionError" "size_constraints.assert_done()" s) = .ok (v, s') →
        v = .obj "Response" false vals ∧ a6 = n.toNat ∧ s' = { s6 with scs := [] } := by
      intro vals s6 a6 hscs hf
      obtain ⟨_, s7, h7, hf⟩ := bind_ok_inv hf
      have hs6 : s6.scs = [] ++ [(⟨s0.pos, path ++ [⟨"responseSize", none⟩], a6, some n.toNat⟩ : SC)] := by rw [hscs]; rfl
      obtain ⟨hfull, hs7⟩ := assertDone_last_inv hs6 rfl (by intro d hd; cases hd) h7
      simp only [Option.some.injEq] at hfull
      rw [hs7] at hf
      simp only [List.isEmpty_nil, if_true, Except.ok.injEq, Prod.mk.injEq] at hf
      exact ⟨hf.1.symm, hfull.symm, hf.2.symm⟩
    by_cases hrc : (vInt rcv != some tb.rcSuccess) = true
    · -- failed response: header only
      rw [if_pos hrc] at h
      obtain ⟨hv', hfull, hs'⟩ := finish _ s4 _ c4' h
      refine ⟨⟨tag, .int tb.rspSize.name n, rcv, none⟩, b1 ++ (b2 ++ (b3 ++ [])),
        (0, ⟨path, .named "Response" false, none, "", 0⟩) :: (e1 ++ shift b1.length (e2 ++ shift b2.length (e3 ++ shift b3.length []))),
        ?_, ?_, ?_, ?_, ?_, ?_⟩
      · rw [hv']; simp [RspParts.toVal]
      · have hsz : (n : Int) = ((b1 ++ (b2 ++ (b3 ++ []))).length : Int) := by
          simp only [List.length_append, List.length_nil]; omega
        simp only [specResponse, g1, g2, g3, hrc, if_true, vInt_int]
        simp [hsz]
      · rw [hs']; simp only []; rw [i4']; simp
      · rw [hs']; simp only []; rw [p4']; simp only [List.length_append, List.length_nil]; omega
      · rw [hs']; simp only []; rw [o4']; simp [shift]
      · rw [hs']
    · rw [if_neg hrc] at h
      have hrc' : (vInt rcv != some tb.rcSuccess) = false := by simpa using hrc
      cases hh : cc.bind (lookupTy tb.rspHandles) with
      | none => simp [hh, crash] at h
      | some hty =>
        simp only [hh] at h
        have whty : hty.wf = true := by
          cases cc with
          | none => simp at hh
          | some c => exact lookupTy_wf wRH (by simpa using hh)
        obtain ⟨hv, s5, h5, h⟩ := bind_ok_inv h
        have hfr4 : Fresh s4.scs s4.pos := by rw [c4']; exact fresh_one _ _ (by simp only []; omega)
        obtain ⟨b4, e4, g4, i5, p5, o5, c5⟩ := decodeArea_sound tb enc hty whty wEnc _ s4 s5 hv hfr4 h5
        have p5' : s5.pos = s0.pos + b1.length + b2.length + b3.length + b4.length := by rw [p5, p4']
        have c5' : s5.scs = [(⟨s0.pos, path ++ [⟨"responseSize", none⟩], b1.length + b2.length + b3.length + b4.length, some n.toNat⟩ : SC)] := by
          rw [c5, c4']; simp [bump, SC.bump]
        have i5' : s0.inp = b1 ++ (b2 ++ (b3 ++ (b4 ++ s5.inp))) := by rw [i4', i5]
        have o5' : s5.out = s0.out ++ stamp s0.pos ((0, ⟨path, .named "Response" false, none, "", 0⟩) ::
            (e1 ++ shift b1.length (e2 ++ shift b2.length (e3 ++ shift b3.length e4)))) := by
          rw [o5, o4', p4']
          simp [stamp_cons, stamp_append, stamp_shift, Nat.add_assoc, List.append_assoc]
        cases hp : cc.bind (lookupTy tb.rspParams) with
        | none => 
          by_cases hsess : (vInt tag == some tb.sessionsTag) = true
          · simp only [hsess, if_true] at h
            obtain ⟨psz, s6, h6, h⟩ := bind_ok_inv h
            obtain ⟨bp, ep, gp, _, _, _, _⟩ := readPrim_sound wPsz h6
            obtain ⟨pn, rfl, _, _, _, _⟩ := specPrim_inv gp
            rw [vInt_int] at h
            simp only [] at h
            by_cases hpn0 : pn < 0
            · rw [if_pos hpn0] at h; simp [crash] at h
            · rw [if_neg hpn0] at h
              obtain ⟨_, s7, h7, h⟩ := bind_ok_inv h
              simp [hp, crash] at h
          · simp only [hsess, Bool.false_eq_true, if_false] at h
            simp [hp, crash] at h
        | some pty =>
          have wpty : pty.wf = true := by
            cases cc with
            | none => simp at hp
            | some c => exact lookupTy_wf wRP (by simpa using hp)
          by_cases hsess : (vInt tag == some tb.sessionsTag) = true
          · -- with sessions: parameterSize, parameters (region closes), sessions up to responseSize
            simp only [hsess, if_true, hp, Bool.not_true, Bool.false_eq_true, if_false] at h
            obtain ⟨psz, s6, h6, h⟩ := bind_ok_inv h
            obtain ⟨bp, ep, gp, i6, p6, o6, c6⟩ := readPrim_sound wPsz h6
            obtain ⟨pn, rfl, _, _, _, _⟩ := specPrim_inv gp
            rw [vInt_int] at h
            simp only [] at h
            by_cases hpn0 : pn < 0
            · rw [if_pos hpn0] at h; simp [crash] at h
            · rw [if_neg hpn0] at h
              obtain ⟨_, s7, h7, h⟩ := bind_ok_inv h
              have hs7 := openRegion_ok_inv h7
              have p6' : s6.pos = s0.pos + b1.length + b2.length + b3.length + b4.length + bp.length := by rw [p6, p5']
              have c6' : s6.scs = [(⟨s0.pos, path ++ [⟨"responseSize", none⟩],
                  b1.length + b2.length + b3.length + b4.length + bp.length, some n.toNat⟩ : SC)] := by
                rw [c6, c5']; simp [bump, SC.bump]
              have hs7scs : s7.scs = [(⟨s0.pos, path ++ [⟨"responseSize", none⟩],
                  b1.length + b2.length + b3.length + b4.length + bp.length, some n.toNat⟩ : SC)] ++
                  [(⟨s0.pos + 1, path ++ [⟨"parameterSize", none⟩], 0, some pn.toNat⟩ : SC)] := by rw [hs7, c6']
              have e7i : s7.inp = s6.inp := by rw [hs7]
              have e7p : s7.pos = s6.pos := by rw [hs7]
              have e7o : s7.out = s6.out := by rw [hs7]
              have hfr7 : Fresh s7.scs s7.pos := by
                rw [hs7scs, e7p, p6']
                intro d hd
                simp only [List.mem_append, List.mem_singleton] at hd
                rcases hd with rfl | rfl <;> simp only [] <;> omega
              obtain ⟨pv, s8, h8, h⟩ := bind_ok_inv h
              obtain ⟨pv', s8a, h8a, h8⟩ := bind_ok_inv h8
              obtain ⟨b6, e6, g6, i8, p8, o8, c8⟩ := decodeArea_sound tb enc pty wpty wEnc _ s7 s8a pv' hfr7 h8a
              obtain ⟨_, s8b, h8b, h8⟩ := bind_ok_inv h8
              simp only [Except.ok.injEq, Prod.mk.injEq] at h8
              obtain ⟨rfl, rfl⟩ := h8
              have hs8a : s8a.scs = [(⟨s0.pos, path ++ [⟨"responseSize", none⟩],
                  b1.length + b2.length + b3.length + b4.length + bp.length + b6.length, some n.toNat⟩ : SC)] ++
                  [(⟨s0.pos + 1, path ++ [⟨"parameterSize", none⟩], 0 + b6.length, some pn.toNat⟩ : SC)] := by
                rw [c8, hs7scs]; simp [bump, SC.bump]
              obtain ⟨hpfull, hs8b⟩ := assertDone_last_inv hs8a rfl
                (by intro d hd; simp only [List.mem_singleton] at hd; subst hd; simp) h8b
              simp only [Nat.zero_add, Option.some.injEq] at hpfull
              -- sessions, governed by responseSize itself
              obtain ⟨area, s9, h9, h⟩ := bind_ok_inv h
              have hs8scs : s8b.scs = [] ++ [(⟨s0.pos, path ++ [⟨"responseSize", none⟩],
                  b1.length + b2.length + b3.length + b4.length + bp.length + b6.length, some n.toNat⟩ : SC)] := by
                rw [hs8b]; rfl
              have e8i : s8b.inp = s8a.inp := by rw [hs8b]
              have e8p : s8b.pos = s8a.pos := by rw [hs8b]
              have e8o : s8b.out = s8a.out := by rw [hs8b]
              have hfr8 : Fresh s8b.scs s8b.pos := by
                rw [hs8scs, e8p, p8, e7p, p6']; exact fresh_one _ _ (by simp only []; omega)
              obtain ⟨bs, es, gs, hlen, i9, p9, o9, c9⟩ := decodeSized_sound tb.authRsp wAuth neAuth _ s0.pos _ _ n.toNat
                s8b s9 area hs8scs rfl (by intro d hd; cases hd) rfl hfr8 h9
              have hlen' : b1.length + b2.length + b3.length + b4.length + bp.length + b6.length + bs.length = n.toNat := by
                simpa using hlen
              cases hflag : areaFlag tb.authRsp "encrypt" area with
              | error cls => simp [hflag, crash] at h
              | ok expected =>
                simp only [hflag] at h
                by_cases hexp : (expected != enc) = true
                · rw [if_pos hexp] at h; simp [crash] at h
                · rw [if_neg hexp] at h
                  have hexp' : expected = enc := by simpa using hexp
                  have hs9 : s9.scs = [] := by rw [c9]; rfl
                  rw [hs9] at h
                  simp only [List.isEmpty_nil, if_true, Except.ok.injEq, Prod.mk.injEq] at h
                  obtain ⟨rfl, rfl⟩ := h
                  refine ⟨⟨tag, .int tb.rspSize.name n, rcv, some ⟨hv, some (.int tb.paramSize.name pn), pv', some area⟩⟩,
                    b1 ++ (b2 ++ (b3 ++ (b4 ++ (bp ++ (b6 ++ bs))))),
                    (0, ⟨path, .named "Response" false, none, "", 0⟩) ::
                      (e1 ++ shift b1.length (e2 ++ shift b2.length (e3 ++ shift b3.length
                        (e4 ++ shift b4.length (ep ++ shift bp.length (e6 ++ shift b6.length es)))))),
                    ?_, ?_, ?_, ?_, ?_, hs9⟩
                  · simp [RspParts.toVal]
                  · have hsz : (n : Int) = ((b1 ++ (b2 ++ (b3 ++ (b4 ++ (bp ++ (b6 ++ bs)))))).length : Int) := by
                      simp only [List.length_append]; clear hlen; omega
                    have hpz : pn = (b6.length : Int) := by omega
                    simp only [specResponse, g1, g2, g3, hrc', Bool.false_eq_true, if_false, vInt_int, hh, hp,
                      specRspBody, g4, g6, hsess, gp, gs, hflag]
                    simp [hsz, hpz, hexp']
                  · rw [i5', i6, ← e7i, i8, ← e8i, i9]; simp [List.append_assoc]
                  · rw [p9, e8p, p8, e7p, p6']; simp only [List.length_append]; omega
                  · rw [o9, e8o, o8, e7o, o6, o5', e8p, p8, e7p, p6', p5']
                    simp [stamp_cons, stamp_append, stamp_shift, Nat.add_assoc, List.append_assoc]
          · -- no sessions
            have hsess' : (vInt tag == some tb.sessionsTag) = false := by simpa using hsess
            simp only [hsess', Bool.false_eq_true, if_false, hp, Bool.not_false, if_true] at h
            obtain ⟨pv, s8, h8, h⟩ := bind_ok_inv h
            obtain ⟨pv', s8a, h8a, h8⟩ := bind_ok_inv h8
            simp only [Except.ok.injEq, Prod.mk.injEq] at h8
            obtain ⟨rfl, rfl⟩ := h8
            have hfr5 : Fresh s5.scs s5.pos := by rw [c5']; exact fresh_one _ _ (by simp only []; omega)
            obtain ⟨b6, e6, g6, i8, p8, o8, c8⟩ := decodeArea_sound tb enc pty wpty wEnc _ s5 s8a pv' hfr5 h8a
            have c8' : s8a.scs = [(⟨s0.pos, path ++ [⟨"responseSize", none⟩],
                b1.length + b2.length + b3.length + b4.length + b6.length, some n.toNat⟩ : SC)] := by
              rw [c8, c5']; simp [bump, SC.bump]
            obtain ⟨hv', hfull, hs'⟩ := finish _ s8a _ c8' h
            refine ⟨⟨tag, .int tb.rspSize.name n, rcv, some ⟨hv, none, pv', none⟩⟩,
              b1 ++ (b2 ++ (b3 ++ (b4 ++ b6))),
              (0, ⟨path, .named "Response" false, none, "", 0⟩) ::
                (e1 ++ shift b1.length (e2 ++ shift b2.length (e3 ++ shift b3.length (e4 ++ shift b4.length e6)))),
              ?_, ?_, ?_, ?_, ?_, ?_⟩
            · rw [hv']; simp [RspParts.toVal]
            · have hsz : (n : Int) = ((b1 ++ (b2 ++ (b3 ++ (b4 ++ b6)))).length : Int) := by
                simp only [List.length_append]; omega
              simp only [specResponse, g1, g2, g3, hrc', Bool.false_eq_true, if_false, vInt_int, hh, hp,
                specRspBody, g4, g6, hsess']
              simp [hsz]
            · rw [hs']; simp only []; rw [i5', i8]; simp [List.append_assoc]
            · rw [hs']; simp only []; rw [p8, p5']; simp only [List.length_append]; omega
            · rw [hs']; simp only []; rw [o8, o5', p5']
              simp [stamp_cons, stamp_append, stamp_shift, Nat.add_assoc, List.append_assoc]
            · rw [hs']

/-! ## streams: a clean end only at a message boundary of a well-formed stream -/

theorem isEmpty_eq_nil {l : List Byte} (h : l.isEmpty = true) : l = [] := by
  cases l with
  | nil => rfl
  | cons => simp at h

theorem decodeStream_sound (tb : MsgTables) (hw : tb.wf = true) (path : Path) :
    ∀ (fuel : Nat) (s s' : St) (v : Val), decodeStream true tb path fuel s = .ok (v, s') →
    ∃ xs last bs evs, specStream tb path last xs = some (bs, evs) ∧ s.inp = bs ∧ s'.inp = [] ∧
      s'.pos = s.pos + bs.length ∧
      s'.out = s.out ++ stamp s.pos evs ++ [(s.pos + bs.length, .marshal (streamTail path last))] := by
  intro fuel
  induction fuel with
  | zero => intro s s' v h; simp [decodeStream, crash] at h
  | succ n ih =>
    intro s s' v h
    unfold decodeStream at h
    by_cases he : s.inp.isEmpty = true
    · rw [if_pos he] at h
      simp only [Except.ok.injEq, Prod.mk.injEq] at h
      obtain ⟨_, rfl⟩ := h
      have := isEmpty_eq_nil he
      exact ⟨[], none, [], [], by simp [specStream], this, by simp [emitM, emit, this], by simp [emitM, emit],
        by simp [emitM, emit, streamTail]⟩
    · rw [if_neg he] at h
      obtain ⟨cmd, s1, h1, h⟩ := bind_ok_inv h
      obtain ⟨p, bc, ec, rfl, gc, i1, p1, o1, c1⟩ := decodeCommand_sound tb hw path s s1 _ h1
      cases henc : cmdEncrypt tb p.toVal with
      | error cls => simp [henc, crash] at h
      | ok enc =>
        simp only [henc] at h
        by_cases he1 : s1.inp.isEmpty = true
        · rw [if_pos he1] at h
          simp only [Except.ok.injEq, Prod.mk.injEq] at h
          obtain ⟨_, rfl⟩ := h
          have hnil := isEmpty_eq_nil he1
          refine ⟨[], some p, bc, ec, by simp [specStream, gc, henc], by rw [i1, hnil]; simp,
            by simp [emitM, emit, hnil], by simp [emitM, emit, p1], ?_⟩
          simp [emitM, emit, o1, p1, streamTail]
        · rw [if_neg he1] at h
          obtain ⟨rsp, s2, h2, h⟩ := bind_ok_inv h
          rw [objField_cc, Option.bind_some] at h2
          obtain ⟨r, br, er, _, gr, i2, p2, o2, c2⟩ := decodeResponse_sound tb hw (vInt p.ccv) enc path s1 s2 rsp h2
          obtain ⟨xs, last, bm, em, gm, i3, i3', p3, o3⟩ := ih s2 s' v h
          refine ⟨(p, r) :: xs, last, bc ++ (br ++ bm), ec ++ shift bc.length (er ++ shift br.length em), ?_, ?_, i3', ?_, ?_⟩
          · simp [specStream, gc, henc, gr, gm]
          · rw [i1, i2, i3]
          · rw [p3, p2, p1]; simp only [List.length_append]; omega
          · rw [o3, o2, o1, p2, p1]
            simp [stamp_append, stamp_shift, Nat.add_assoc, List.append_assoc]
