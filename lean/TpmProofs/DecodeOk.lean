import TpmModel.Spec
import TpmProofs.BE
/-!
# `decode_ok`: strict decoding of any conforming encoding

For every layout `t` (not only the ones in today's tables), every conforming value tree, every
continuation `rest`, every position, every trace so far and every stack of enclosing regions with
enough room: the strict-mode walker returns exactly the value, leaves exactly `rest`, has emitted
exactly the dictated events (each stamped with the bytes consumed when it was emitted), and has
charged every enclosing region exactly the length of the encoding.
-/

def bump (scs : List SC) (n : Nat) : List SC := scs.map (·.bump n)

/-- every enclosing region has room for `n` more bytes -/
def Room (scs : List SC) (n : Nat) : Prop := ∀ c ∈ scs, ∀ m, c.max = some m → c.already + n ≤ m

/-- constraint ids (creation offsets) are not ahead of the current position -/
def Fresh (scs : List SC) (pos : Nat) : Prop := ∀ c ∈ scs, c.id ≤ pos

def stamp (pos : Nat) (evs : List SEv) : List (Nat × Event) := evs.map fun e => (pos + e.1, .marshal e.2)

/-- state after decoding an encoding of length `n` with events `evs` from position `pos` -/
def post (rest : List Byte) (pos : Nat) (out : List (Nat × Event)) (evs : List SEv) (scs : List SC) (n : Nat) : St :=
  ⟨rest, pos + n, out ++ stamp pos evs, bump scs n⟩

@[simp] theorem bump_zero (scs : List SC) : bump scs 0 = scs := by
  simp [bump, SC.bump]
theorem bump_bump (scs : List SC) (a b : Nat) : bump (bump scs a) b = bump scs (a + b) := by
  simp [bump, SC.bump, List.map_map, Function.comp_def, Nat.add_assoc]
theorem bump_append (scs : List SC) (c : SC) (k : Nat) : bump (scs ++ [c]) k = bump scs k ++ [c.bump k] := by
  simp [bump]

theorem room_bump {scs : List SC} {a b : Nat} (h : Room scs (a + b)) : Room (bump scs a) b := by
  intro c hc m hm
  simp only [bump, List.mem_map] at hc
  obtain ⟨c0, hc0, rfl⟩ := hc
  have := h c0 hc0 m (by simpa [SC.bump] using hm)
  simp only [SC.bump]; omega
theorem room_mono {scs : List SC} {a b : Nat} (h : Room scs b) (hab : a ≤ b) : Room scs a := by
  intro c hc m hm; have := h c hc m hm; omega
theorem room_append {scs : List SC} {id : Nat} {cpath : Path} {n : Nat} (h : Room scs n) :
    Room (scs ++ [⟨id, cpath, 0, some n⟩]) n := by
  intro c hc m hm
  simp only [List.mem_append, List.mem_singleton] at hc
  rcases hc with hc | rfl
  · exact h c hc m hm
  · simp at hm ⊢; omega

theorem fresh_bump {scs : List SC} {pos k : Nat} (h : Fresh scs pos) : Fresh (bump scs k) (pos + k) := by
  intro c hc
  simp only [bump, List.mem_map] at hc
  obtain ⟨c0, hc0, rfl⟩ := hc
  have := h c0 hc0
  simp only [SC.bump]; omega
theorem fresh_mono {scs : List SC} {p q : Nat} (h : Fresh scs p) (hpq : p ≤ q) : Fresh scs q := by
  intro c hc; have := h c hc; omega
theorem fresh_append {scs : List SC} {pos : Nat} {c : SC} (h : Fresh scs pos) (hc : c.id ≤ pos) :
    Fresh (scs ++ [c]) pos := by
  intro d hd
  simp only [List.mem_append, List.mem_singleton] at hd
  rcases hd with hd | rfl
  · exact h d hd
  · exact hc

@[simp] theorem stamp_nil (pos : Nat) : stamp pos [] = [] := rfl
theorem stamp_append (pos : Nat) (a b : List SEv) : stamp pos (a ++ b) = stamp pos a ++ stamp pos b := by
  simp [stamp]
theorem stamp_shift (pos k : Nat) (evs : List SEv) : stamp pos (shift k evs) = stamp (pos + k) evs := by
  simp [stamp, shift, List.map_map, Function.comp_def]
  intro a b _; omega
theorem stamp_cons (pos : Nat) (e : SEv) (evs : List SEv) :
    stamp pos (e :: evs) = (pos + e.1, .marshal e.2) :: stamp pos evs := rfl

theorem over_false {c : SC} {n : Nat} (h : ∀ m, c.max = some m → c.already + n ≤ m) : c.over n = false := by
  unfold SC.over
  cases hm : c.max with
  | none => rfl
  | some m => have := h m hm; simp; omega

theorem bpGo_ok (path : Path) (n : Nat) : ∀ (scs done : List SC) (s : St), Room scs n →
    bpGo path n done scs s = .ok ((), { s with scs := done ++ bump scs n }) := by
  intro scs
  induction scs with
  | nil => intro done s _; simp [bpGo, bump]
  | cons c rest ih =>
    intro done s h
    have hc : c.over n = false := over_false (h c (by simp))
    have hr : Room rest n := fun d hd => h d (by simp [hd])
    simp only [bpGo, hc, Bool.false_eq_true, if_false]
    rw [ih _ _ hr]
    simp [bump]

theorem bytesParsed_ok (path : Path) (n : Nat) (inp : List Byte) (pos : Nat) (out : List (Nat × Event))
    (scs : List SC) (h : Room scs n) :
    bytesParsed path n ⟨inp, pos, out, scs⟩ = .ok ((), ⟨inp, pos, out, bump scs n⟩) := by
  simp [bytesParsed, bpGo_ok path n scs [] _ h]

theorem take_ok (bs rest : List Byte) (pos : Nat) (out : List (Nat × Event)) (scs : List SC) :
    take bs.length ⟨bs ++ rest, pos, out, scs⟩ = .ok (bs, ⟨rest, pos + bs.length, out, scs⟩) := by
  simp [take]

theorem anticipate_none (vpath : Path) (n id : Nat) : ∀ scs : List SC, Room scs n →
    anticipate vpath n id scs = none := by
  intro scs
  induction scs with
  | nil => intro _; rfl
  | cons c rest ih =>
    intro h
    have hc : c.over n = false := over_false (h c (by simp))
    have hr : Room rest n := fun d hd => h d (by simp [hd])
    simp only [anticipate, hc, ih hr]
    split <;> simp

theorem openRegion_ok (id : Nat) (cpath : Path) (n : Nat) (inp : List Byte) (pos : Nat)
    (out : List (Nat × Event)) (scs : List SC) (h : Room scs n) :
    openRegion true id cpath n ⟨inp, pos, out, scs⟩ =
      .ok ((), ⟨inp, pos, out, scs ++ [⟨id, cpath, 0, some n⟩]⟩) := by
  simp [openRegion, anticipateM, anticipate_none cpath n id scs h]

theorem findSC_append_new (id : Nat) (c : SC) (scs : List SC) (hid : c.id = id) (h : ∀ d ∈ scs, d.id ≠ id) :
    findSC id (scs ++ [c]) = some c := by
  induction scs with
  | nil => simp [findSC, hid]
  | cons d rest ih =>
    have hd : d.id ≠ id := h d (by simp)
    have := ih (fun e he => h e (by simp [he]))
    simp only [findSC, List.cons_append, List.find?_cons, hd, decide_false] at this ⊢
    exact this

theorem removeSC_append_new (id : Nat) (c : SC) (scs : List SC) (hid : c.id = id) (h : ∀ d ∈ scs, d.id ≠ id) :
    removeSC id (scs ++ [c]) = scs := by
  induction scs with
  | nil => simp [removeSC, hid]
  | cons d rest ih =>
    have hd : d.id ≠ id := h d (by simp)
    have := ih (fun e he => h e (by simp [he]))
    simp only [removeSC, List.cons_append, List.filter_cons, hd, decide_false, Bool.not_false, if_true] at this ⊢
    rw [this]

theorem assertDone_ok (id : Nat) (cpath : Path) (n : Nat) (inp : List Byte) (pos : Nat)
    (out : List (Nat × Event)) (scs : List SC) (h : ∀ d ∈ scs, d.id ≠ id) :
    assertDone true id ⟨inp, pos, out, scs ++ [⟨id, cpath, n, some n⟩]⟩ = .ok ((), ⟨inp, pos, out, scs⟩) := by
  simp [assertDone, findSC_append_new id ⟨id, cpath, n, some n⟩ scs rfl h,
    removeSC_append_new id ⟨id, cpath, n, some n⟩ scs rfl h, assertDoneSC]

theorem ids_ne_of_fresh {scs : List SC} {pos k j : Nat} (h : Fresh scs pos) (hk : 0 < k) :
    ∀ d ∈ bump scs j, d.id ≠ pos + k := by
  intro d hd
  simp only [bump, List.mem_map] at hd
  obtain ⟨c0, hc0, rfl⟩ := hd
  have := h c0 hc0
  simp only [SC.bump]; omega

/-! ## inversion lemmas for the projections used by `spec` -/

theorem asIntOf_inv {v : Val} {cls : String} {x : Int} (h : v.asIntOf cls = some x) : v = .int cls x := by
  unfold Val.asIntOf at h
  split at h
  · split at h <;> simp_all
  · simp at h
theorem asObj_inv {v : Val} {name : String} {enc : Bool} {fs : List (String × Val)}
    (h : v.asObj name enc = some fs) : v = .obj name enc fs := by
  unfold Val.asObj at h
  split at h
  · split at h
    · rename_i hne; obtain ⟨rfl, rfl⟩ := hne; simp_all
    · simp at h
  · simp at h
theorem asList_inv {v : Val} {vs : List Val} (h : v.asList = some vs) : v = .list vs := by
  unfold Val.asList at h
  split at h <;> simp_all
theorem isNone_inv {v : Val} (h : v.isNone = true) : v = .none := by
  unfold Val.isNone at h
  split at h <;> simp_all
theorem asPair_inv {fs : List (String × Val)} {a b : String} {x y : Val} (h : asPair fs a b = some (x, y)) :
    fs = [(a, x), (b, y)] := by
  unfold asPair at h
  split at h
  · split at h
    · rename_i hab; obtain ⟨rfl, rfl⟩ := hab; simp_all
    · simp at h
  · simp at h
theorem asSingle_inv {fs : List (String × Val)} {a : String} {x : Val} (h : asSingle fs a = some x) :
    fs = [(a, x)] := by
  unfold asSingle at h
  split at h
  · split at h <;> simp_all
  · simp at h

theorem specPrim_inv {p : Prim} {path : Path} {v : Val} {bs : List Byte} {evs : List SEv}
    (h : specPrim p path v = some (bs, evs)) :
    ∃ x, v = .int p.name x ∧ p.isValid x = true ∧ inRange p.size p.signed x = true ∧
      bs = intToBytes p.size x ∧ evs = [(p.size, ⟨path, .named p.name false, some x, p.name, p.size⟩)] := by
  unfold specPrim at h
  split at h
  · simp at h
  · rename_i x hx
    split at h
    · rename_i hc
      simp only [Bool.and_eq_true] at hc
      simp only [Option.some.injEq, Prod.mk.injEq] at h
      exact ⟨x, asIntOf_inv hx, hc.1, hc.2, h.1.symm, h.2.symm⟩
    · simp at h

theorem specPrim_length {p : Prim} {path : Path} {v : Val} {bs : List Byte} {evs : List SEv}
    (h : specPrim p path v = some (bs, evs)) : bs.length = p.size := by
  obtain ⟨x, _, _, _, rfl, _⟩ := specPrim_inv h
  exact intToBytes_length _ _

theorem readPrim_spec {p : Prim} {path : Path} {v : Val} {bs : List Byte} {evs : List SEv}
    (h : specPrim p path v = some (bs, evs)) (rest : List Byte) (pos : Nat) (out : List (Nat × Event))
    (scs : List SC) (hroom : Room scs bs.length) :
    readPrim true p path ⟨bs ++ rest, pos, out, scs⟩ = .ok (v, post rest pos out evs scs bs.length) := by
  have hlen := specPrim_length h
  obtain ⟨x, rfl, hv, hr, rfl, rfl⟩ := specPrim_inv h
  rw [hlen] at hroom
  unfold readPrim
  rw [bytesParsed_ok _ _ _ _ _ _ hroom]
  simp only [R.bind_ok]
  have := take_ok (intToBytes p.size x) rest pos out (bump scs p.size)
  rw [hlen] at this
  rw [this]
  simp only [R.bind_ok, Prim.ofBytes, intOfBytes_intToBytes _ _ _ hr, hv, if_true]
  simp [post, stamp, emitM, emit, hlen]

/-! ## lists -/

theorem repeat_ok (f : Path → St → R Val) (g : Path → Val → Option (List Byte × List SEv))
    (hfg : ∀ p v bs evs, g p v = some (bs, evs) → ∀ rest pos out scs, Room scs bs.length → Fresh scs pos →
      f p ⟨bs ++ rest, pos, out, scs⟩ = .ok (v, post rest pos out evs scs bs.length))
    (path : Path) : ∀ (vs : List Val) (i : Nat) (bs : List Byte) (evs : List SEv),
    specRepeat g path vs i = some (bs, evs) → ∀ rest pos out scs, Room scs bs.length → Fresh scs pos →
    repeatDec f path vs.length i ⟨bs ++ rest, pos, out, scs⟩ = .ok (vs, post rest pos out evs scs bs.length) := by
  intro vs
  induction vs with
  | nil =>
    intro i bs evs h rest pos out scs _ _
    simp only [specRepeat, Option.some.injEq, Prod.mk.injEq] at h
    obtain ⟨rfl, rfl⟩ := h
    simp [repeatDec, post]
  | cons v vs ih =>
    intro i bs evs h rest pos out scs hroom hfresh
    simp only [specRepeat] at h
    split at h
    · simp at h
    · rename_i b e hb
      split at h
      · simp at h
      · rename_i bs' es' hrest
        simp only [Option.some.injEq, Prod.mk.injEq] at h
        obtain ⟨rfl, rfl⟩ := h
        simp only [List.length_cons, repeatDec, List.append_assoc]
        have hroom1 : Room scs b.length := room_mono hroom (by simp)
        rw [hfg _ _ _ _ hb _ _ _ _ hroom1 hfresh]
        simp only [post, R.bind_ok]
        have hroom2 : Room (bump scs b.length) bs'.length := room_bump (by simpa using hroom)
        rw [ih _ _ _ hrest _ _ _ _ hroom2 (fresh_bump hfresh)]
        simp [post, bump_bump, List.append_assoc, stamp_append, stamp_shift, Nat.add_assoc]

theorem readPrimList_spec {p : Prim} {path : Path} {n : Nat} {v : Val} {bs : List Byte} {evs : List SEv}
    (h : specPrimList p path n v = some (bs, evs)) (rest : List Byte) (pos : Nat) (out : List (Nat × Event))
    (scs : List SC) (hroom : Room scs bs.length) (hfresh : Fresh scs pos) :
    readPrimList true p path n ⟨bs ++ rest, pos, out, scs⟩ = .ok (v, post rest pos out evs scs bs.length) := by
  unfold specPrimList at h
  split at h
  · simp at h
  · rename_i vs hvs
    obtain rfl := asList_inv hvs
    split at h
    · rename_i hn
      cases hrep : specRepeat (specPrim p) path vs 0 with
      | none => simp [hrep] at h
      | some r =>
        obtain ⟨b, e⟩ := r
        simp only [hrep, Option.map_some, Option.some.injEq, Prod.mk.injEq] at h
        obtain ⟨rfl, rfl⟩ := h
        have := repeat_ok (readPrim true p) (specPrim p)
          (fun q v bs evs hq rest pos out scs hr _ => readPrim_spec hq rest pos out scs hr)
          path vs 0 b e hrep rest pos (out ++ [(pos, .marshal ⟨path, .listOf p.name, none, "", 0⟩)]) scs hroom hfresh
        subst hn
        simp only [readPrimList, emitM, emit, this, R.bind_ok, post]
        simp [stamp_cons, stamp]
    · simp at h

theorem fieldWith_ok (d : Path → Option Int → St → R Val) (g : Path → Option Int → Val → Option (List Byte × List SEv))
    (hdg : ∀ p sel v bs evs, g p sel v = some (bs, evs) → ∀ rest pos out scs, Room scs bs.length → Fresh scs pos →
      d p sel ⟨bs ++ rest, pos, out, scs⟩ = .ok (v, post rest pos out evs scs bs.length))
    (tname : String) : (kind : FKind) → ∀ (fpath : Path) (vals : List (String × Val))
    (v : Val) (bs : List Byte) (evs : List SEv),
    specFieldWith g tname kind fpath vals v = some (bs, evs) → ∀ (rest : List Byte) (pos : Nat) (out : List (Nat × Event)) (scs : List SC),
    Room scs bs.length → Fresh scs pos →
    decodeFieldWith d tname kind fpath vals ⟨bs ++ rest, pos, out, scs⟩ = .ok (v, post rest pos out evs scs bs.length)
  | .plain, fpath, vals, v, bs, evs, h, rest, pos, out, scs, hroom, hfresh => by
    simp only [specFieldWith] at h
    simpa [decodeFieldWith] using hdg fpath none v bs evs h rest pos out scs hroom hfresh
  | .selected sel, fpath, vals, v, bs, evs, h, rest, pos, out, scs, hroom, hfresh => by
    simp only [specFieldWith] at h
    split at h
    · simp at h
    · rename_i sv hsel
      simpa [decodeFieldWith, hsel] using hdg fpath sv v bs evs h rest pos out scs hroom hfresh
  | .counted, fpath, vals, v, bs, evs, h, rest, pos, out, scs, hroom, hfresh => by
    simp only [specFieldWith] at h
    split at h
    · rename_i c es hcount hlist
      obtain rfl := asList_inv hlist
      split at h
      · rename_i hc
        cases hrep : specRepeat (fun p v => g p none v) fpath es 0 with
        | none => simp [hrep] at h
        | some rr =>
          obtain ⟨bb, ee⟩ := rr
          simp only [hrep, Option.map_some, Option.some.injEq, Prod.mk.injEq] at h
          obtain ⟨rfl, rfl⟩ := h
          have := repeat_ok (fun p s => d p none s) (fun p v => g p none v)
            (fun p v bs evs h rest pos out scs hroom hfresh => hdg p none v bs evs h rest pos out scs hroom hfresh)
            fpath es 0 bb ee hrep rest pos (out ++ [(pos, .marshal ⟨fpath, .listOf tname, none, "", 0⟩)]) scs hroom hfresh
          subst hc
          simp only [decodeFieldWith, hcount, emitM, emit, this, R.bind_ok, post]
          simp [stamp_cons]
      · simp at h
    · simp at h

/-! ## the walker -/

mutual
theorem decode_ok : (t : Ty) → ∀ (path : Path) (sel : Option Int) (v : Val) (bs : List Byte) (evs : List SEv),
    spec t path sel v = some (bs, evs) → ∀ (rest : List Byte) (pos : Nat) (out : List (Nat × Event)) (scs : List SC),
    Room scs bs.length → Fresh scs pos →
    decode true t path sel ⟨bs ++ rest, pos, out, scs⟩ = .ok (v, post rest pos out evs scs bs.length)
  | .prim p, path, sel, v, bs, evs, h, rest, pos, out, scs, hroom, _ => by
    simp only [spec] at h
    simp only [decode]
    exact readPrim_spec h rest pos out scs hroom
  | .struct name isP fs, path, sel, v, bs, evs, h, rest, pos, out, scs, hroom, hfresh => by
    simp only [spec] at h
    split at h
    · simp at h
    · rename_i fvs hobj
      obtain rfl := asObj_inv hobj
      cases hf : specFields fs path [] fvs with
      | none => simp [hf] at h
      | some r =>
        obtain ⟨b, e⟩ := r
        simp only [hf, Option.map_some, Option.some.injEq, Prod.mk.injEq] at h
        obtain ⟨rfl, rfl⟩ := h
        have := fields_ok fs path [] fvs b e hf rest pos
          (out ++ [(pos, .marshal ⟨path, .named name false, none, "", 0⟩)]) scs hroom hfresh
        simp only [decode, emitM, emit, this, R.bind_ok, post]
        simp [stamp_cons]
  | .tpm2bBytes name szName szP bufName elem, path, sel, v, bs, evs, h, rest, pos, out, scs, hroom, hfresh => by
    simp only [spec] at h
    split at h
    · simp at h
    · rename_i nv bv hpair
      cases hobj : v.asObj name false with
      | none => simp [hobj] at hpair
      | some fs =>
        simp only [hobj, Option.bind_some] at hpair
        obtain rfl := asObj_inv hobj
        obtain rfl := asPair_inv hpair
        split at h
        · rename_i nb ne n hsz hn
          split at h
          · simp at h
          · rename_i bb be hbody
            split at h
            · rename_i hc
              obtain ⟨hpos, hn0, hnl⟩ := hc
              simp only [Option.some.injEq, Prod.mk.injEq] at h
              obtain ⟨rfl, rfl⟩ := h
              have hnblen := specPrim_length hsz
              simp only [List.length_append] at hroom
              have hroom1 : Room scs nb.length := room_mono hroom (by omega)
              have hroom2 : Room (bump scs nb.length) bb.length := room_bump hroom
              have hnv : nv.asInt?.getD 0 = n := by
                rw [asIntOf_inv hn]; rfl
              simp only [decode, emitM, emit, List.append_assoc]
              rw [readPrim_spec hsz (bb ++ rest) pos _ scs hroom1]
              simp only [R.bind_ok, post, hnv, if_neg (show ¬ n < 0 by omega), hnl]
              rw [openRegion_ok _ _ _ _ _ _ _ hroom2]
              simp only [R.bind_ok]
              have hfr : Fresh (bump scs nb.length ++ [⟨pos + nb.length, path ++ [⟨szName, none⟩], 0, some bb.length⟩])
                  (pos + nb.length) := fresh_append (fresh_bump hfresh) (Nat.le_refl _)
              rw [hnl] at hbody
              rw [readPrimList_spec hbody rest _ _ _ (room_append hroom2) hfr]
              simp only [R.bind_ok, post, bump_append, SC.bump, Nat.zero_add]
              rw [assertDone_ok _ _ _ _ _ _ _ (by
                rw [bump_bump]
                exact ids_ne_of_fresh hfresh (by omega))]
              simp [bump_bump, stamp_cons, stamp_append, stamp_shift, Nat.add_assoc, List.append_assoc]
            · simp at h
        · simp at h
  | .tpm2b name szName szP bufName body, path, sel, v, bs, evs, h, rest, pos, out, scs, hroom, hfresh => by
    simp only [spec] at h
    split at h
    · simp at h
    · rename_i nv bv hpair
      cases hobj : v.asObj name false with
      | none => simp [hobj] at hpair
      | some fs =>
        simp only [hobj, Option.bind_some] at hpair
        obtain rfl := asObj_inv hobj
        obtain rfl := asPair_inv hpair
        split at h
        · rename_i nb ne n hsz hn
          have hnblen := specPrim_length hsz
          have hnv : nv.asInt?.getD 0 = n := by
            rw [asIntOf_inv hn]; rfl
          split at h
          · -- n = 0
            rename_i hn0
            split at h
            · rename_i hc
              obtain ⟨hnone, hpos⟩ := hc
              obtain rfl := isNone_inv hnone
              simp only [Option.some.injEq, Prod.mk.injEq] at h
              obtain ⟨rfl, rfl⟩ := h
              have hroom2 : Room (bump scs nb.length) 0 := room_bump (by simpa using hroom)
              simp only [decode, emitM, emit]
              rw [readPrim_spec hsz rest pos _ scs hroom]
              simp only [R.bind_ok, post, hnv, hn0, Int.lt_irrefl, if_false, Int.toNat_zero, if_true]
              rw [openRegion_ok _ _ _ _ _ _ _ hroom2]
              simp only [R.bind_ok]
              rw [assertDone_ok _ _ _ _ _ _ _ (ids_ne_of_fresh hfresh (by omega))]
              simp [stamp_cons, stamp_append, stamp, Nat.add_assoc]
            · simp at h
          · rename_i hn0
            split at h
            · simp at h
            · rename_i bb be hbody
              split at h
              · rename_i hc
                obtain ⟨hpos, hnn, hnl⟩ := hc
                simp only [Option.some.injEq, Prod.mk.injEq] at h
                obtain ⟨rfl, rfl⟩ := h
                simp only [List.length_append] at hroom
                have hroom1 : Room scs nb.length := room_mono hroom (by omega)
                have hroom2 : Room (bump scs nb.length) bb.length := room_bump hroom
                simp only [decode, emitM, emit, List.append_assoc]
                rw [readPrim_spec hsz (bb ++ rest) pos _ scs hroom1]
                simp only [R.bind_ok, post, hnv, if_neg (show ¬ n < 0 by omega), hnl, if_neg hn0]
                rw [openRegion_ok _ _ _ _ _ _ _ hroom2]
                simp only [R.bind_ok]
                have hfr : Fresh (bump scs nb.length ++ [⟨pos + nb.length, path ++ [⟨szName, none⟩], 0, some bb.length⟩])
                    (pos + nb.length) := fresh_append (fresh_bump hfresh) (Nat.le_refl _)
                rw [decode_ok body _ none bv bb be hbody rest _ _ _ (room_append hroom2) hfr]
                simp only [ownCatch, post, bump_append, SC.bump, Nat.zero_add]
                rw [assertDone_ok _ _ _ _ _ _ _ (by
                  rw [bump_bump]
                  exact ids_ne_of_fresh hfresh (by omega))]
                simp [bump_bump, stamp_cons, stamp_append, stamp_shift, Nat.add_assoc, List.append_assoc]
              · simp at h
        · simp at h
  | .union name arms, path, sel, v, bs, evs, h, rest, pos, out, scs, hroom, hfresh => by
    simp only [spec] at h
    split at h
    · simp at h
    · rename_i an han
      cases ha : specArm arms name an path v with
      | none => simp [ha] at h
      | some r =>
        obtain ⟨b, e⟩ := r
        simp only [ha, Option.map_some, Option.some.injEq, Prod.mk.injEq] at h
        obtain ⟨rfl, rfl⟩ := h
        have := arm_ok arms name an path v b e ha rest pos
          (out ++ [(pos, .marshal ⟨path, .named name false, none, "", 0⟩)]) scs hroom hfresh
        simp only [decode, emitM, emit, han, this, post]
        simp [stamp_cons]
  | .bad r, path, sel, v, bs, evs, h, rest, pos, out, scs, hroom, hfresh => by
    simp [spec] at h

theorem arm_ok : (arms : Arms) → ∀ (un want : String) (path : Path) (v : Val) (bs : List Byte) (evs : List SEv),
    specArm arms un want path v = some (bs, evs) → ∀ (rest : List Byte) (pos : Nat) (out : List (Nat × Event)) (scs : List SC),
    Room scs bs.length → Fresh scs pos →
    decodeArm true arms un want path ⟨bs ++ rest, pos, out, scs⟩ = .ok (v, post rest pos out evs scs bs.length)
  | .nil, un, want, path, v, bs, evs, h, rest, pos, out, scs, hroom, hfresh => by simp [specArm] at h
  | .consNone an key arms, un, want, path, v, bs, evs, h, rest, pos, out, scs, hroom, hfresh => by
    by_cases heq : an = want
    · subst heq
      simp only [specArm, if_true] at h
      split at h
      · rename_i hn
        obtain rfl := isNone_inv hn
        simp only [Option.some.injEq, Prod.mk.injEq] at h
        obtain ⟨rfl, rfl⟩ := h
        simp [decodeArm, post]
      · simp at h
    · have h' : specArm arms un want path v = some (bs, evs) := by
        simpa [specArm, heq] using h
      simpa [decodeArm, heq] using arm_ok arms un want path v bs evs h' rest pos out scs hroom hfresh
  | .cons an key t arms, un, want, path, v, bs, evs, h, rest, pos, out, scs, hroom, hfresh => by
    by_cases heq : an = want
    · subst heq
      simp only [specArm, if_true] at h
      split at h
      · simp at h
      · rename_i av hav
        cases hobj : v.asObj un false with
        | none => simp [hobj] at hav
        | some fs =>
          simp only [hobj, Option.bind_some] at hav
          obtain rfl := asObj_inv hobj
          obtain rfl := asSingle_inv hav
          have := decode_ok t _ none av bs evs h rest pos out scs hroom hfresh
          simp [decodeArm, this, post]
    · have h' : specArm arms un want path v = some (bs, evs) := by
        simpa [specArm, heq] using h
      simpa [decodeArm, heq] using arm_ok arms un want path v bs evs h' rest pos out scs hroom hfresh
  | .consBytes an key elem n arms, un, want, path, v, bs, evs, h, rest, pos, out, scs, hroom, hfresh => by
    by_cases heq : an = want
    · subst heq
      simp only [specArm, if_true] at h
      split at h
      · simp at h
      · rename_i av hav
        cases hobj : v.asObj un false with
        | none => simp [hobj] at hav
        | some fs =>
          simp only [hobj, Option.bind_some] at hav
          obtain rfl := asObj_inv hobj
          obtain rfl := asSingle_inv hav
          cases n with
          | none => simp [specListArm] at h
          | some k =>
            simp only [specListArm] at h
            have := readPrimList_spec h rest pos out scs hroom hfresh
            simp [decodeArm, readListArm, this, post]
    · have h' : specArm arms un want path v = some (bs, evs) := by
        simpa [specArm, heq] using h
      simpa [decodeArm, heq] using arm_ok arms un want path v bs evs h' rest pos out scs hroom hfresh

theorem fields_ok : (fs : Fields) → ∀ (path : Path) (vals : List (String × Val))
    (fvs : List (String × Val)) (bs : List Byte) (evs : List SEv),
    specFields fs path vals fvs = some (bs, evs) → ∀ (rest : List Byte) (pos : Nat) (out : List (Nat × Event)) (scs : List SC),
    Room scs bs.length → Fresh scs pos →
    decodeFields true fs path vals ⟨bs ++ rest, pos, out, scs⟩ = .ok (vals ++ fvs, post rest pos out evs scs bs.length)
  | .nil, path, vals, fvs, bs, evs, h, rest, pos, out, scs, hroom, hfresh => by
    simp only [specFields] at h
    split at h
    · rename_i he
      simp only [Option.some.injEq, Prod.mk.injEq] at h
      obtain ⟨rfl, rfl⟩ := h
      have : fvs = [] := by simpa using he
      subst this
      simp [decodeFields, post]
    · simp at h
  | .cons fname kind t fs, path, vals, fvs, bs, evs, h, rest, pos, out, scs, hroom, hfresh => by
    cases fvs with
    | nil => simp [specFields] at h
    | cons fv fvs =>
      obtain ⟨fn, v⟩ := fv
      simp only [specFields] at h
      split at h
      · rename_i hfn
        subst hfn
        cases hf : specFieldWith (fun p sel v => spec t p sel v) t.name kind (path ++ [⟨fn, none⟩]) vals v with
        | none => simp [hf] at h
        | some r1 =>
          obtain ⟨b1, e1⟩ := r1
          simp only [hf] at h
          split at h
          · simp at h
          · rename_i b2 e2 hrest
            simp only [Option.some.injEq, Prod.mk.injEq] at h
            obtain ⟨rfl, rfl⟩ := h
            have hroom1 : Room scs b1.length := room_mono hroom (by simp)
            have hroom2 : Room (bump scs b1.length) b2.length := room_bump (by simpa using hroom)
            have h1 := fieldWith_ok (fun p sel s => decode true t p sel s) (fun p sel v => spec t p sel v)
              (fun p sel v bs evs h rest pos out scs hr hf => decode_ok t p sel v bs evs h rest pos out scs hr hf)
              t.name kind _ vals v b1 e1 hf (b2 ++ rest) pos out scs hroom1 hfresh
            simp only [decodeFields, List.append_assoc, h1, post, R.bind_ok]
            have := fields_ok fs path (vals ++ [(fn, v)]) fvs b2 e2 hrest rest (pos + b1.length)
              (out ++ stamp pos e1) (bump scs b1.length) hroom2 (fresh_bump hfresh)
            rw [this]
            simp [post, bump_bump, List.append_assoc, stamp_append, stamp_shift, Nat.add_assoc]
      · simp at h
end
