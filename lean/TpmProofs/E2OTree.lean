import TpmModel.E2O
import TpmProofs.SpecUnder
/-!
# `_events_to_dict`: how a run of events that all lie under one node builds that node's subtree

* `ins_new_key` / `ins_new_idx`: the first event that touches a node creates it (dict entry appended / list extended by one).
* `descend_key` / `descend_idx`: events whose paths all start with an existing node only change that node's subtree, and do
  there what the events with the first path node stripped do to the subtree on its own.
* `BuildsAt nd T evs`: started in a dict where `nd` is new, `evs` leave that dict with the one extra entry / element `T`.
-/

/-! ## association lists -/

theorem kvLookup_nil (k : String) : kvLookup [] k = none := rfl

theorem kvLookup_cons (k' : String) (v' : Tree) (rest : List (String × Tree)) (k : String) :
    kvLookup ((k', v') :: rest) k = if k' == k then some v' else kvLookup rest k := by
  unfold kvLookup
  simp only [List.find?_cons]
  cases h : (k' == k) <;> simp

theorem kvLookup_append_fresh (kvs : List (String × Tree)) (k : String) (v : Tree) (k2 : String)
    (h : kvLookup kvs k2 = none) : kvLookup (kvs ++ [(k, v)]) k2 = if k == k2 then some v else none := by
  induction kvs with
  | nil => simp [kvLookup_cons, kvLookup_nil]
  | cons hd tl ih =>
    obtain ⟨k', v'⟩ := hd
    rw [kvLookup_cons] at h
    rw [List.cons_append, kvLookup_cons]
    cases hk : (k' == k2)
    · rw [hk] at h; simp only [Bool.false_eq_true, if_false] at h ⊢; exact ih h
    · rw [hk] at h; simp at h

theorem kvLookup_append_self (kvs : List (String × Tree)) (k : String) (v : Tree)
    (h : kvLookup kvs k = none) : kvLookup (kvs ++ [(k, v)]) k = some v := by
  rw [kvLookup_append_fresh kvs k v k h]; simp

theorem kvLookup_append_other (kvs : List (String × Tree)) (k : String) (v : Tree) (k2 : String)
    (h : kvLookup kvs k2 = none) (hne : k ≠ k2) : kvLookup (kvs ++ [(k, v)]) k2 = none := by
  rw [kvLookup_append_fresh kvs k v k2 h]; simp [hne]

theorem kvSet_fresh (kvs : List (String × Tree)) (k : String) (v : Tree) (h : kvLookup kvs k = none) :
    kvSet kvs k v = kvs ++ [(k, v)] := by
  induction kvs with
  | nil => rfl
  | cons hd tl ih =>
    obtain ⟨k', v'⟩ := hd
    rw [kvLookup_cons] at h
    cases hk : (k' == k)
    · rw [hk] at h; simp only [Bool.false_eq_true, if_false] at h
      simp only [kvSet, hk, Bool.false_eq_true, if_false, List.cons_append, ih h]
    · rw [hk] at h; simp at h

theorem kvLookup_kvSet_self (kvs : List (String × Tree)) (k : String) (v : Tree) :
    kvLookup (kvSet kvs k v) k = some v := by
  induction kvs with
  | nil => simp [kvSet, kvLookup_cons]
  | cons hd tl ih =>
    obtain ⟨k', v'⟩ := hd
    cases hk : (k' == k)
    · simp only [kvSet, hk, Bool.false_eq_true, if_false, kvLookup_cons, ih]
    · simp only [kvSet, hk, if_true, kvLookup_cons]

theorem kvSet_kvSet (kvs : List (String × Tree)) (k : String) (v w : Tree) :
    kvSet (kvSet kvs k v) k w = kvSet kvs k w := by
  induction kvs with
  | nil => simp [kvSet]
  | cons hd tl ih =>
    obtain ⟨k', v'⟩ := hd
    cases hk : (k' == k)
    · simp only [kvSet, hk, Bool.false_eq_true, if_false, ih]
    · simp only [kvSet, hk, if_true]

theorem kvSet_append_fresh (kvs : List (String × Tree)) (k : String) (v w : Tree) (h : kvLookup kvs k = none) :
    kvSet (kvs ++ [(k, v)]) k w = kvs ++ [(k, w)] := by
  rw [← kvSet_fresh kvs k v h, kvSet_kvSet, kvSet_fresh kvs k w h]

/-! ## one event -/

theorem ins_nil (t d : Tree) : ins t [] d = some t := by
  cases t <;> rfl

theorem ins_new_key (kvs : List (String × Tree)) (nd : PathNode) (d : Tree) (hidx : nd.idx = none)
    (hf : kvLookup kvs nd.name = none) : ins (.dict kvs) [nd] d = some (.dict (kvs ++ [(nd.name, d)])) := by
  simp only [ins, hidx, hf, List.isEmpty_nil, if_true, Option.map_some, kvSet_fresh kvs nd.name d hf]

theorem ins_new_idx (kvs : List (String × Tree)) (nd : PathNode) (d : Tree) (i : Nat) (es : List (Option Tree))
    (hidx : nd.idx = some i) (hl : kvLookup kvs nd.name = some (.list es)) (hlen : es.length = i) :
    ins (.dict kvs) [nd] d = some (.dict (kvSet kvs nd.name (.list (es ++ [some d])))) := by
  have hpad : padTo es i = es ++ [none] := by
    unfold padTo
    rw [if_pos (by omega)]
    have : i + 1 - es.length = 1 := by omega
    rw [this]; rfl
  have hget : (es ++ [none])[i]? = some (none : Option Tree) := by
    rw [← hlen]; simp
  have hset : (es ++ [none]).set i (some d) = es ++ [some d] := by
    rw [← hlen]; simp
  simp only [ins, hidx, hl, Option.getD_some, hpad, hget, List.isEmpty_nil, if_true, Option.getD_none,
    Option.map_some, hset]

/-! ## stripping the first path nodes -/

def stripE (k : Nat) (e : MEvent) : MEvent := { e with path := e.path.drop k }

def strip (k : Nat) (evs : List MEvent) : List MEvent := evs.map (stripE k)

/-- the events of a spec run, with the first `k` path nodes removed -/
def sstrip (k : Nat) (evs : List SEv) : List MEvent := evs.map fun e => stripE k e.2

theorem leafOf_stripE (k : Nat) (e : MEvent) : leafOf (stripE k e) = leafOf e := rfl

theorem sstrip_nil (k : Nat) : sstrip k [] = [] := rfl

theorem sstrip_cons (k : Nat) (e : SEv) (evs : List SEv) : sstrip k (e :: evs) = stripE k e.2 :: sstrip k evs := rfl

theorem sstrip_append (k : Nat) (a b : List SEv) : sstrip k (a ++ b) = sstrip k a ++ sstrip k b := by
  simp [sstrip]

theorem sstrip_shift (k n : Nat) (a : List SEv) : sstrip k (shift n a) = sstrip k a := by
  simp [sstrip, shift]

theorem strip_sstrip (j k : Nat) (a : List SEv) : strip j (sstrip k a) = sstrip (k + j) a := by
  simp only [strip, sstrip, List.map_map]
  apply List.map_congr_left
  intro e _
  simp [stripE, List.drop_drop]

/-- every event's path starts with node `nd` -/
def Heads (nd : PathNode) (evs : List MEvent) : Prop := ∀ e ∈ evs, ∃ q, e.path = nd :: q

theorem under_heads {pre : Path} {nd : PathNode} {evs : List SEv} (h : Under (pre ++ [nd]) evs) :
    Heads nd (sstrip pre.length evs) := by
  intro e he
  simp only [sstrip, List.mem_map] at he
  obtain ⟨x, hx, rfl⟩ := he
  obtain ⟨q, hq⟩ := h x hx
  refine ⟨q, ?_⟩
  simp [stripE, ← hq]

/-! ## runs of events -/

theorem buildTree_append (a b : List MEvent) (r : Tree) :
    buildTree (a ++ b) r = (buildTree a r).bind (buildTree b) := by
  induction a generalizing r with
  | nil => simp [buildTree]
  | cons e rest ih =>
    simp only [List.cons_append, buildTree]
    cases ins r e.path (leafOf e) with
    | none => simp
    | some r1 => simp [ih]

theorem kvSet_same (kvs : List (String × Tree)) (k : String) (c : Tree) (h : kvLookup kvs k = some c) :
    kvSet kvs k c = kvs := by
  induction kvs with
  | nil => simp [kvLookup_nil] at h
  | cons hd tl ih =>
    obtain ⟨k', v'⟩ := hd
    rw [kvLookup_cons] at h
    cases hk : (k' == k)
    · rw [hk] at h; simp only [Bool.false_eq_true, if_false] at h
      simp only [kvSet, hk, Bool.false_eq_true, if_false, ih h]
    · rw [hk] at h; simp only [if_true, Option.some.injEq] at h
      simp only [kvSet, hk, if_true, h]

theorem ins_key_cons (kvs : List (String × Tree)) (nd : PathNode) (q : Path) (d child : Tree) (hidx : nd.idx = none)
    (hl : kvLookup kvs nd.name = some child) :
    ins (.dict kvs) (nd :: q) d = (ins child q d).map fun c => .dict (kvSet kvs nd.name c) := by
  simp only [ins, hidx, hl]

theorem descend_key (nd : PathNode) (hidx : nd.idx = none) :
    ∀ (evs : List MEvent) (kvs : List (String × Tree)) (child : Tree), Heads nd evs →
      kvLookup kvs nd.name = some child →
      buildTree evs (.dict kvs) = (buildTree (strip 1 evs) child).map fun c => .dict (kvSet kvs nd.name c)
  | [], kvs, child, _, hl => by
    simp only [buildTree, strip, List.map_nil, Option.map_some, kvSet_same kvs nd.name child hl]
  | e :: rest, kvs, child, hh, hl => by
    obtain ⟨q, hq⟩ := hh e (List.mem_cons_self ..)
    have hrest : Heads nd rest := fun x hx => hh x (List.mem_cons_of_mem _ hx)
    simp only [buildTree, strip, List.map_cons, hq, ins_key_cons kvs nd q _ child hidx hl]
    have hsp : (stripE 1 e).path = q := by simp [stripE, hq]
    rw [hsp, leafOf_stripE]
    cases hi : ins child q (leafOf e) with
    | none => simp
    | some c =>
      simp only [Option.map_some, Option.bind_some]
      have := descend_key nd hidx rest (kvSet kvs nd.name c) c hrest (kvLookup_kvSet_self kvs nd.name c)
      rw [this]
      simp only [strip, kvSet_kvSet]

theorem ins_idx_cons (kvs : List (String × Tree)) (nd : PathNode) (q : Path) (d cur : Tree) (i : Nat)
    (es : List (Option Tree)) (hidx : nd.idx = some i) (hl : kvLookup kvs nd.name = some (.list es))
    (hcur : es[i]? = some (some cur)) :
    ins (.dict kvs) (nd :: q) d =
      (ins cur q d).map fun c => .dict (kvSet kvs nd.name (.list (es.set i (some c)))) := by
  have hlt : i < es.length := by
    rcases Nat.lt_or_ge i es.length with h | h
    · exact h
    · rw [List.getElem?_eq_none h] at hcur; cases hcur
  have hpad : padTo es i = es := by
    unfold padTo
    rw [if_pos (by omega)]
    have : i + 1 - es.length = 0 := by omega
    rw [this]; simp
  simp only [ins, hidx, hl, Option.getD_some, hpad, hcur]

theorem descend_idx (nd : PathNode) (i : Nat) (hidx : nd.idx = some i) :
    ∀ (evs : List MEvent) (kvs : List (String × Tree)) (es : List (Option Tree)) (cur : Tree), Heads nd evs →
      kvLookup kvs nd.name = some (.list es) → es[i]? = some (some cur) →
      buildTree evs (.dict kvs) =
        (buildTree (strip 1 evs) cur).map fun c => .dict (kvSet kvs nd.name (.list (es.set i (some c))))
  | [], kvs, es, cur, _, hl, hcur => by
    have hset : es.set i (some cur) = es := by
      apply List.ext_getElem?
      intro j
      by_cases hj : i = j
      · subst hj
        have hlt : i < es.length := by
          rcases Nat.lt_or_ge i es.length with h | h
          · exact h
          · rw [List.getElem?_eq_none h] at hcur; cases hcur
        rw [List.getElem?_set_self hlt, hcur]
      · rw [List.getElem?_set_ne hj]
    simp only [buildTree, strip, List.map_nil, Option.map_some, hset, kvSet_same kvs nd.name _ hl]
  | e :: rest, kvs, es, cur, hh, hl, hcur => by
    obtain ⟨q, hq⟩ := hh e (List.mem_cons_self ..)
    have hrest : Heads nd rest := fun x hx => hh x (List.mem_cons_of_mem _ hx)
    have hlt : i < es.length := by
      rcases Nat.lt_or_ge i es.length with h | h
      · exact h
      · rw [List.getElem?_eq_none h] at hcur; cases hcur
    simp only [buildTree, strip, List.map_cons, hq, ins_idx_cons kvs nd q _ cur i es hidx hl hcur]
    have hsp : (stripE 1 e).path = q := by simp [stripE, hq]
    rw [hsp, leafOf_stripE]
    cases hi : ins cur q (leafOf e) with
    | none => simp
    | some c =>
      simp only [Option.map_some, Option.bind_some]
      have := descend_idx nd i hidx rest (kvSet kvs nd.name (.list (es.set i (some c)))) (es.set i (some c)) c hrest
        (kvLookup_kvSet_self kvs nd.name _) (by simp [hlt])
      rw [this]
      simp only [strip, kvSet_kvSet, List.set_set]

/-! ## a node and everything below it -/

/-- started in a dict where node `nd` is new (no such key / the list at that key ends right before that index), the events
leave the dict with exactly one more entry / element: `T` -/
def BuildsAt (nd : PathNode) (T : Tree) (evs : List MEvent) : Prop :=
  (nd.idx = none → ∀ kvs, kvLookup kvs nd.name = none →
      buildTree evs (.dict kvs) = some (.dict (kvs ++ [(nd.name, T)]))) ∧
  (∀ i, nd.idx = some i → ∀ kvs es, kvLookup kvs nd.name = some (.list es) → es.length = i →
      buildTree evs (.dict kvs) = some (.dict (kvSet kvs nd.name (.list (es ++ [some T])))))

/-- the first event creates the node as `T0`, the others (all below the node) turn `T0` into `T` -/
theorem buildsAt_node (nd : PathNode) (e : MEvent) (rest : List MEvent) (T : Tree) (hp : e.path = [nd])
    (hh : Heads nd rest) (hb : buildTree (strip 1 rest) (leafOf e) = some T) : BuildsAt nd T (e :: rest) := by
  constructor
  · intro hidx kvs hf
    simp only [buildTree, hp, ins_new_key kvs nd _ hidx hf, Option.bind_some]
    rw [descend_key nd hidx rest _ (leafOf e) hh (kvLookup_append_self kvs nd.name _ hf), hb]
    simp only [Option.map_some, kvSet_append_fresh kvs nd.name _ _ hf]
  · intro i hidx kvs es hl hlen
    simp only [buildTree, hp, ins_new_idx kvs nd _ i es hidx hl hlen, Option.bind_some]
    rw [descend_idx nd i hidx rest _ (es ++ [some (leafOf e)]) (leafOf e) hh (kvLookup_kvSet_self kvs nd.name _)
      (by rw [← hlen]; simp), hb]
    simp only [Option.map_some, kvSet_kvSet]
    rw [← hlen]; simp

/-- a single leaf event -/
theorem buildsAt_leaf (nd : PathNode) (e : MEvent) (hp : e.path = [nd]) : BuildsAt nd (leafOf e) [e] :=
  buildsAt_node nd e [] (leafOf e) hp (by intro x hx; cases hx) (by simp [strip, buildTree])
