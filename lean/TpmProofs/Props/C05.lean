import TpmProofs.PumpFacts
import TpmProofs.DecodeOk
/-!
# C05 — input length mismatches are reported as depleted / superfluous, never absorbed

Facts that hold for every layout and EVERY input in strict mode (from the byte accounting of the walker
and the definition of the pump), plus the surplus theorem for conforming encodings.
-/
namespace C05

theorem pumpOutcome_superfluous {x : List Byte} {pos : Nat} {res : Except Err Val}
    {rest : List Byte} {v : Val} (h : pumpOutcome x pos res = .superfluous rest v) :
    res = .ok v ∧ pos < x.length ∧ rest = x.drop pos := by
  unfold pumpOutcome at h
  split at h
  · split at h
    · rename_i hlt; simp only [Outcome.superfluous.injEq] at h; exact ⟨by rw [h.2], hlt, h.1.symm⟩
    · simp at h
  · simp at h
  · simp at h
  · simp at h

theorem pumpOutcome_depleted {x : List Byte} {pos : Nat} {res : Except Err Val}
    (h : pumpOutcome x pos res = .depleted) : res = .error .depleted := by
  unfold pumpOutcome at h
  split at h
  · split at h <;> simp at h
  · rfl
  · simp at h
  · simp at h

/-- **never absorbed (surplus)**: when strict decoding reports superfluous bytes, the input is exactly the
bytes of the emitted fields followed by exactly the reported surplus, and the surplus is not empty -/
theorem c05_superfluous_exact (tb : MsgTables) (top : Top) (x : List Byte) (rest : List Byte) (v : Val)
    (h : (marshalRun true tb top x).outcome = .superfluous rest v) :
    x = evsBytes (marshalRun true tb top x).evs ++ rest ∧ rest ≠ [] := by
  have hacct := runWalker_acct tb top x
  unfold marshalRun pump at h ⊢
  generalize runWalker true tb top x = w at h hacct ⊢
  obtain ⟨new, off, h1, h2, h3, h4, h5⟩ := hacct
  simp only [] at h ⊢
  by_cases hstop : (pumpEvents top.isStream x.length (stOf w).out [] none).2.2 = true
  · simp [hstop] at h
  · simp only [hstop] at h
    obtain ⟨hres, hlt, hrest⟩ := pumpOutcome_superfluous h
    have hoff : off = [] := h5 (resOf_ok hres)
    subst hoff
    simp only [initSt, List.nil_append, List.append_nil, List.length_nil, Nat.add_zero, Nat.zero_add] at h1 h2 h3
    have hspec := pumpEvents_spec _ x.length (stOf w).out [] none (by simpa using hstop)
    simp only [List.nil_append] at hspec
    have hdrop : x.drop (stOf w).pos = (stOf w).inp := by
      conv => lhs; rw [h2, h3]
      exact List.drop_left' rfl
    rw [h1] at hspec
    simp only [Run.evs, h1, hspec, List.map_map, Function.comp_def]
    have := evBytes_eq new
    refine ⟨by rw [hrest, hdrop, ← this]; exact h2, ?_⟩
    rw [hrest, hdrop]
    intro hnil
    rw [hnil, List.append_nil] at h2
    rw [h2] at hlt; omega

/-- **never absorbed (complete)**: an input that strict decoding accepts is consumed entirely by the
emitted fields -/
theorem c05_done_exact (tb : MsgTables) (top : Top) (x : List Byte) (v : Val)
    (h : (marshalRun true tb top x).outcome = .done v) :
    evsBytes (marshalRun true tb top x).evs = x := done_facts tb top x v h

/-- `take` reports depletion only after consuming everything that was there -/
theorem take_depleted (n : Nat) (s s' : St) (h : take n s = .error (.depleted, s')) : s'.inp = [] := by
  unfold take at h
  split at h
  · simp only [Except.error.injEq, Prod.mk.injEq, true_and] at h; subst h; rfl
  · simp at h

/-- the command code reported with depleted / superfluous is the value of the last `commandCode` event
shown (none if none was) -/
theorem c05_cc (isStream : Bool) (len : Nat) : ∀ (out acc : List (Nat × Event)) (cc : Option Int),
    (pumpEvents isStream len out acc cc).2.2 = false →
    (pumpEvents isStream len out acc cc).2.1 = out.foldl (fun c ke => ccOf ke.2 c) cc := by
  intro out
  induction out with
  | nil => intro acc cc _; rfl
  | cons x rest ih =>
    intro acc cc h
    obtain ⟨k, e⟩ := x
    unfold pumpEvents at h ⊢
    split
    · rename_i hc; simp [hc] at h
    · rename_i hc
      simp only [hc, Bool.false_eq_true, if_false] at h
      rw [ih _ _ h]; rfl

/-- **surplus after a well-formed value**: for every layout and conforming value with a non-empty event
list ending at the end of the encoding, appending any non-empty suffix makes the walker stop with the
suffix untouched; the pump then reports exactly that suffix -/
theorem c05_surplus_walker (t : Ty) (v : Val) (bs : List Byte) (evs : List SEv)
    (h : spec t rootPath none v = some (bs, evs)) (suffix : List Byte) (tb : MsgTables) :
    runWalker true tb (.ty t) (bs ++ suffix) = .ok (v, ⟨suffix, bs.length, stamp 0 evs, []⟩) := by
  have := decode_ok t rootPath none v bs evs h suffix 0 [] [] (by intro c hc; cases hc) (by intro c hc; cases hc)
  simpa [runWalker, initSt, post, bump] using this

end C05
