import TpmProofs.PumpFacts
import TpmProofs.DecodeOk
import TpmProofs.TruncPump
import TpmProofs.Props.MsgWF
/-!
# C05 — input length mismatches are reported as depleted / superfluous, never absorbed

Facts that hold for every layout and EVERY input in strict mode (from the byte accounting of the walker
and the definition of the pump), plus the surplus theorem for conforming encodings.
-/
namespace C05

theorem pumpOutcome_superfluous {x : List Byte} {pos : Nat} {res : Except Err Val}
    {rest : List Byte} {v : Val} (h : pumpOutcome x pos res = .superfluous rest v) :
    res = .ok v ∧ pos < x.length ∧ rest = x.drop pos := by
  unfold pumpOutcome at h
  split at h
  · split at h
    · rename_i hlt; simp only [Outcome.superfluous.injEq] at h; exact ⟨by rw [h.2], hlt, h.1.symm⟩
    · simp at h
  · simp at h
  · simp at h
  · simp at h

theorem pumpOutcome_depleted {x : List Byte} {pos : Nat} {res : Except Err Val}
    (h : pumpOutcome x pos res = .depleted) : res = .error .depleted := by
  unfold pumpOutcome at h
  split at h
  · split at h <;> simp at h
  · rfl
  · simp at h
  · simp at h

/-- **never absorbed (surplus)**: when strict decoding reports superfluous bytes, the input is exactly the
bytes of the emitted fields followed by exactly the reported surplus, and the surplus is not empty -/
theorem c05_superfluous_exact (tb : MsgTables) (top : Top) (x : List Byte) (rest : List Byte) (v : Val)
    (h : (marshalRun true tb top x).outcome = .superfluous rest v) :
    x = evsBytes (marshalRun true tb top x).evs ++ rest ∧ rest ≠ [] := by
  have hacct := runWalker_acct tb top x
  unfold marshalRun pump at h ⊢
  generalize runWalker true tb top x = w at h hacct ⊢
  obtain ⟨new, off, h1, h2, h3, h4, h5⟩ := hacct
  simp only [] at h ⊢
  by_cases hstop : (pumpEvents top.isStream x.length (stOf w).out [] none).2.2 = true
  · simp [hstop] at h
  · simp only [hstop] at h
    obtain ⟨hres, hlt, hrest⟩ := pumpOutcome_superfluous h
    have hoff : off = [] := h5 (resOf_ok hres)
    subst hoff
    simp only [initSt, List.nil_append, List.append_nil, List.length_nil, Nat.add_zero, Nat.zero_add] at h1 h2 h3
    have hspec := pumpEvents_spec _ x.length (stOf w).out [] none (by simpa using hstop)
    simp only [List.nil_append] at hspec
    have hdrop : x.drop (stOf w).pos = (stOf w).inp := by
      conv => lhs; rw [h2, h3]
      exact List.drop_left' rfl
    rw [h1] at hspec
    simp only [Run.evs, h1, hspec, List.map_map, Function.comp_def]
    have := evBytes_eq new
    refine ⟨by rw [hrest, hdrop, ← this]; exact h2, ?_⟩
    rw [hrest, hdrop]
    intro hnil
    rw [hnil, List.append_nil] at h2
    rw [h2] at hlt; omega

/-- **never absorbed (complete)**: an input that strict decoding accepts is consumed entirely by the
emitted fields -/
theorem c05_done_exact (tb : MsgTables) (top : Top) (x : List Byte) (v : Val)
    (h : (marshalRun true tb top x).outcome = .done v) :
    evsBytes (marshalRun true tb top x).evs = x := done_facts tb top x v h

/-- `take` reports depletion only after consuming everything that was there -/
theorem take_depleted (n : Nat) (s s' : St) (h : take n s = .error (.depleted, s')) : s'.inp = [] := by
  unfold take at h
  split at h
  · simp only [Except.error.injEq, Prod.mk.injEq, true_and] at h; subst h; rfl
  · simp at h

/-- the command code reported with depleted / superfluous is the value of the last `commandCode` event
shown (none if none was) -/
theorem c05_cc (isStream : Bool) (len : Nat) : ∀ (out acc : List (Nat × Event)) (cc : Option Int),
    (pumpEvents isStream len out acc cc).2.2 = false →
    (pumpEvents isStream len out acc cc).2.1 = out.foldl (fun c ke => ccOf ke.2 c) cc := by
  intro out
  induction out with
  | nil => intro acc cc _; rfl
  | cons x rest ih =>
    intro acc cc h
    obtain ⟨k, e⟩ := x
    unfold pumpEvents at h ⊢
    split
    · rename_i hc; simp [hc] at h
    · rename_i hc
      simp only [hc, Bool.false_eq_true, if_false] at h
      rw [ih _ _ h]; rfl

/-- **surplus after a well-formed value**: for every layout and conforming value with a non-empty event
list ending at the end of the encoding, appending any non-empty suffix makes the walker stop with the
suffix untouched; the pump then reports exactly that suffix -/
theorem c05_surplus_walker (t : Ty) (v : Val) (bs : List Byte) (evs : List SEv)
    (h : spec t rootPath none v = some (bs, evs)) (suffix : List Byte) (tb : MsgTables) :
    runWalker true tb (.ty t) (bs ++ suffix) = .ok (v, ⟨suffix, bs.length, stamp 0 evs, []⟩) := by
  have := decode_ok t rootPath none v bs evs h suffix 0 [] [] (by intro c hc; cases hc) (by intro c hc; cases hc)
  simpa [runWalker, initSt, post, bump] using this

/-! ## truncation (every input, every layout, every top but the stream loop) -/

/-- **C05, truncated input, any input**: if strict decoding of `x` consumes more than `k` bytes — whether it then
accepts `x` or rejects it — then decoding the first `k` bytes of `x` (including `k = 0`, the empty input) raises
`InputStreamBytesDepletedError` after showing exactly the events the run on `x` emits up to byte count `k`, i.e. the
events of every field that is complete within the prefix, in order; the error carries the command code of the last
`.commandCode` event among them (`c05_cc`) -/
theorem c05_truncated (tb : MsgTables) (top : Top) (hs : top.isStream = false) (x : List Byte) (k : Nat)
    (hk : k < consumed tb top x) :
    marshalRun true tb top (x.take k) =
      ⟨shown (x.take k).length ((traceOf tb top x).filter fun ke => ke.1 ≤ k), .depleted,
       ccAfter ((traceOf tb top x).filter fun ke => ke.1 ≤ k) none⟩ :=
  truncated_run tb top hs x k hk

/-- cutting the input anywhere beyond what the decoder consumes changes the walker's result in nothing but the
bytes left over -/
theorem c05_cut_beyond (tb : MsgTables) (top : Top) (hs : top.isStream = false) (x : List Byte) (k : Nat)
    (hk : consumed tb top x ≤ k) :
    runWalker true tb top (x.take k) = (runWalker true tb top x).mapSt (cutSt (k - consumed tb top x)) :=
  truncated_beyond tb top hs x k hk

theorem filter_stamp (k : Nat) (evs : List SEv) :
    (stamp 0 evs).filter (fun ke => decide (ke.1 ≤ k)) = stamp 0 (evs.filter fun e => decide (e.1 ≤ k)) := by
  induction evs with
  | nil => rfl
  | cons e rest ih =>
    simp only [stamp, List.map_cons, List.filter_cons, Nat.zero_add] at ih ⊢
    split <;> simp [ih]

/-- **every truncation point of every well-formed structure**: for every layout, every conforming value and every
`k` below the length of its encoding, strict decoding of the first `k` bytes shows exactly the dictated events with
offset ≤ `k` and raises depleted -/
theorem c05_truncated_type (t : Ty) (v : Val) (bs : List Byte) (evs : List SEv) (tb : MsgTables)
    (h : spec t rootPath none v = some (bs, evs)) (k : Nat) (hk : k < bs.length) :
    marshalRun true tb (.ty t) (bs.take k) =
      ⟨shown k (stamp 0 (evs.filter fun e => decide (e.1 ≤ k))), .depleted,
       ccAfter (stamp 0 (evs.filter fun e => decide (e.1 ≤ k))) none⟩ := by
  have hw : runWalker true tb (.ty t) bs = .ok (v, ⟨[], bs.length, stamp 0 evs, []⟩) := by
    have := decode_ok t rootPath none v bs evs h [] 0 [] [] (by intro c hc; cases hc) (by intro c hc; cases hc)
    simpa [runWalker, initSt, post, bump] using this
  have hc : consumed tb (.ty t) bs = bs.length := by simp [consumed, hw, stOf]
  have ht : traceOf tb (.ty t) bs = stamp 0 evs := by simp [traceOf, hw, stOf]
  have := truncated_run tb (.ty t) rfl bs k (by omega)
  rw [ht, filter_stamp] at this
  rw [this]
  congr 2
  simp; omega

/-- … of every well-formed command … -/
theorem c05_truncated_command (p : CmdParts) (bs : List Byte) (evs : List SEv)
    (h : specCommand Generated.msgTables rootPath p = some (bs, evs)) (k : Nat) (hk : k < bs.length) :
    marshalRun true Generated.msgTables .command (bs.take k) =
      ⟨shown k (stamp 0 (evs.filter fun e => decide (e.1 ≤ k))), .depleted,
       ccAfter (stamp 0 (evs.filter fun e => decide (e.1 ≤ k))) none⟩ := by
  have hw := decodeCommand_ok Generated.msgTables rootPath p bs evs MsgWF.tag_sizes.1 h [] 0 [] []
  simp only [List.append_nil, Nat.zero_add, List.nil_append] at hw
  have hc : consumed Generated.msgTables .command bs = bs.length := by simp [consumed, runWalker, initSt, hw, stOf]
  have ht : traceOf Generated.msgTables .command bs = stamp 0 evs := by simp [traceOf, runWalker, initSt, hw, stOf]
  have := truncated_run Generated.msgTables .command rfl bs k (by omega)
  rw [ht, filter_stamp] at this
  rw [this]
  congr 2
  simp; omega

/-- … and of every well-formed response, for every command code and encryption flag -/
theorem c05_truncated_response (cc : Option Int) (enc : Bool) (p : RspParts) (bs : List Byte) (evs : List SEv)
    (h : specResponse Generated.msgTables cc enc rootPath p = some (bs, evs)) (k : Nat) (hk : k < bs.length) :
    marshalRun true Generated.msgTables (.response cc enc) (bs.take k) =
      ⟨shown k (stamp 0 (evs.filter fun e => decide (e.1 ≤ k))), .depleted,
       ccAfter (stamp 0 (evs.filter fun e => decide (e.1 ≤ k))) none⟩ := by
  have hw := decodeResponse_ok Generated.msgTables cc enc rootPath p bs evs MsgWF.tag_sizes.2 h [] 0 [] []
  simp only [List.append_nil, Nat.zero_add, List.nil_append] at hw
  have hc : consumed Generated.msgTables (.response cc enc) bs = bs.length := by
    simp [consumed, runWalker, initSt, hw, stOf]
  have ht : traceOf Generated.msgTables (.response cc enc) bs = stamp 0 evs := by
    simp [traceOf, runWalker, initSt, hw, stOf]
  have := truncated_run Generated.msgTables (.response cc enc) rfl bs k (by omega)
  rw [ht, filter_stamp] at this
  rw [this]
  congr 2
  simp; omega

end C05
