import TpmProofs.Trace
import TpmProofs.Props.MsgWF
/-!
# C09 — a command/response stream decodes as its messages decoded one by one
-/
namespace C09

/-- one round of the stream loop is: decode a command where the previous message ended, then decode a
response under that command's code and the `encrypt` flag of its sessions, then continue — message
boundaries are taken from the messages themselves (the state is simply threaded through) -/
theorem c09_stream_step (abort : Bool) (tb : MsgTables) (path : Path) (fuel : Nat) (s s1 s2 : St) (cmd rsp : Val) (enc : Bool)
    (h0 : s.inp.isEmpty = false)
    (hc : decodeCommand abort tb path s = .ok (cmd, s1)) (he : cmdEncrypt tb cmd = .ok enc) (h1 : s1.inp.isEmpty = false)
    (hr : decodeResponse abort tb ((objField cmd "commandCode").bind vInt) enc path s1 = .ok (rsp, s2)) :
    decodeStream abort tb path (fuel + 1) s = decodeStream abort tb path fuel s2 := by
  conv => lhs; unfold decodeStream
  simp [h0, hc, he, h1, hr, R.bind]

/-- the stream ends cleanly exactly at a message boundary: with the input exhausted before a command or
before a response, the walker stops after the next root event (which the pump does not show) -/
theorem c09_stream_end (abort : Bool) (tb : MsgTables) (path : Path) (fuel : Nat) (s : St) (h0 : s.inp.isEmpty = true) :
    decodeStream abort tb path (fuel + 1) s = .ok (.none, emitM ⟨path, .named "Command" false, none, "", 0⟩ s) := by
  unfold decodeStream; simp [h0]

end C09
