import TpmProofs.PumpFacts
/-!
# C02 — re-encoding the events of a decodable input reproduces the input bytes

`Event.bytes` is `Binary.unmarshal` of one event: the big-endian two's-complement bytes of a primitive
event at its declared width, nothing for structural events and warnings.
-/
namespace C02

/-- **C02 (strict)**: for every layout, every command code / flag and EVERY input that strict decoding
accepts, concatenating the re-encoded events yields the input byte for byte. -/
theorem c02_strict (tb : MsgTables) (top : Top) (x : List Byte) (v : Val)
    (h : (marshalRun true tb top x).outcome = .done v) :
    evsBytes (marshalRun true tb top x).evs = x := done_facts tb top x v h

/-- **C02 (slices)**: each event re-encodes to exactly the slice of the input at the offset given by the
bytes of the events before it; structural events re-encode to nothing (their slice is empty). -/
theorem c02_slices (tb : MsgTables) (top : Top) (x : List Byte) (v : Val)
    (h : (marshalRun true tb top x).outcome = .done v)
    (pre : List Event) (e : Event) (post : List Event) (hd : (marshalRun true tb top x).evs = pre ++ e :: post) :
    e.bytes = (x.drop (evsBytes pre).length).take e.bytes.length := by
  have := c02_strict tb top x v h
  rw [hd] at this
  have hx : x = evsBytes pre ++ (e.bytes ++ evsBytes post) := by
    rw [← this]; simp [evsBytes]
  rw [hx, List.drop_left' rfl, List.take_left' rfl]

/-- structural events and warnings re-encode to nothing -/
theorem c02_structural (m : MEvent) (h : m.val = none) : (Event.marshal m).bytes = [] := by
  simp [Event.bytes, MEvent.bytes, h]
theorem c02_warning (e : Err) : (Event.warning e).bytes = [] := rfl

/-- a primitive event re-encodes to exactly its declared width -/
theorem c02_width (m : MEvent) (x : Int) (h : m.val = some x) : (Event.marshal m).bytes.length = m.width := by
  simp [Event.bytes, MEvent.bytes, h, intToBytes_length]

/-- the walker stamps every primitive event with its type's declared width and the decoded integer:
re-encoding a just-decoded field gives back the bytes it was decoded from -/
theorem c02_field (size : Nat) (signed : Bool) (bs : List Byte) (h : bs.length = size) :
    intToBytes size (intOfBytes size signed bs) = bs := intToBytes_intOfBytes size signed bs h

end C02
