import TpmProofs.DecodeOk
import TpmProofs.Props.C08
/-!
# C03 — strict mode accepts an input only if every size field is exact

The three detection points, as theorems about the constraint machinery (any stack of regions):
* a size that cannot fit in an enclosing region is reported when that size is read (`anticipated`),
* a field that would cross a region's end is reported before it is consumed (`exceeded`,
  see also `C08.c08_skip_exceeded`),
* a region that ends short is reported when its last field is done (`subceeded`),
each naming the violated size field's path, its limit, the bytes counted so far and the offending
field / excess; and the positive direction: exact sizes pass every check (`decode_ok`).
-/
namespace C03

/-- the first (outermost) enclosing region that a size `v` just read at `vpath` cannot fit into is
reported, with that region's path, limit, counted bytes, the size field and its value, and the excess -/
theorem c03_anticipated (vpath : Path) (v id : Nat) (pre : List SC) (c : SC) (post : List SC) (s : St) (m : Nat)
    (hpre : Room pre v) (hid : c.id ≠ id) (hm : c.max = some m) (hover : m < c.already + v)
    (hpreid : ∀ d ∈ pre, d.id ≠ id) :
    anticipateM true vpath v id { s with scs := pre ++ c :: post } =
      .error (.anticipated c.id c.path m c.already vpath v (c.already + v - m), { s with scs := pre ++ c :: post }) := by
  have : anticipate vpath v id (pre ++ c :: post) =
      some (.anticipated c.id c.path m c.already vpath v (c.already + v - m)) := by
    induction pre with
    | nil => simp [anticipate, hid, SC.over, hm, hover]
    | cons d rest ih =>
      have hd : d.over v = false := over_false (hpre d (by simp))
      have hdi : d.id ≠ id := hpreid d (by simp)
      simp only [List.cons_append, anticipate, hdi, if_false, hd, Bool.false_eq_true]
      exact ih (fun e he => hpre e (by simp [he])) (fun e he => hpreid e (by simp [he]))
  simp [anticipateM, this]

/-- a field of width `size` at `path` that would cross the end of the first (outermost) violated region is
reported before it is consumed: only the rest of that region is taken from the input, not the field -/
theorem c03_exceeded (path : Path) (size : Nat) (pre : List SC) (c : SC) (post : List SC) (s : St) (m : Nat)
    (hpre : Room pre size) (hm : c.max = some m) (hover : m < c.already + size) (hlen : m - c.already ≤ s.inp.length) :
    ∃ scs', bytesParsed path size { s with scs := pre ++ c :: post } =
      .error (.exceeded c.id c.path m c.already path (c.already + size - m),
        { s with scs := scs', inp := s.inp.drop (m - c.already), pos := s.pos + (m - c.already) }) := by
  unfold bytesParsed
  simp only []
  suffices h : ∀ done, ∃ scs', bpGo path size done (pre ++ c :: post) { s with scs := pre ++ c :: post } =
      .error (.exceeded c.id c.path m c.already path (c.already + size - m),
        { s with scs := scs', inp := s.inp.drop (m - c.already), pos := s.pos + (m - c.already) }) from h []
  induction pre with
  | nil =>
    intro done
    have := C08.c08_skip_exceeded path size c post done { s with scs := c :: post } m hm hover hlen
    exact ⟨_, by simpa using this⟩
  | cons d rest ih =>
    intro done
    have hd : d.over size = false := over_false (hpre d (by simp))
    have hr : Room rest size := fun e he => hpre e (by simp [he])
    simp only [List.cons_append, bpGo, hd, Bool.false_eq_true, if_false]
    -- the state's own `scs` field is irrelevant to `bpGo` (it works on the explicit lists)
    obtain ⟨scs', h⟩ := ih hr (done ++ [d.bump size])
    refine ⟨scs', ?_⟩
    rw [← h]
    exact bpGo_state_irrel path size _ _ _ _ _
where
  bpGo_state_irrel (path : Path) (size : Nat) : ∀ (todo done : List SC) (s : St) (a b : List SC),
      bpGo path size done todo { s with scs := a } = bpGo path size done todo { s with scs := b } := by
    intro todo
    induction todo with
    | nil => intro done s a b; simp [bpGo]
    | cons c rest ih =>
      intro done s a b
      simp only [bpGo]
      split
      · rfl
      · exact ih _ _ _ _

/-- a region that ends short is reported when its last field is done, naming its path, limit and count -/
theorem c03_subceeded (c : SC) (s : St) (m : Nat) (hm : c.max = some m) (hne : c.already ≠ m) :
    assertDoneSC true c s = .error (.subceeded c.id c.path m c.already, s) := by
  simp [assertDoneSC, hm, hne]

/-- an exact region passes its end check silently -/
theorem c03_exact_ok (abort : Bool) (c : SC) (s : St) (m : Nat) (hm : c.max = some m) (he : c.already = m) :
    assertDoneSC abort c s = .ok ((), s) := by
  simp [assertDoneSC, hm, he]

end C03
