import TpmProofs.DecodeOk
import TpmProofs.DecodeSound
import TpmProofs.MsgPump
import TpmModel.Generated.Types
import TpmProofs.Props.C08
/-!
# C03 — strict mode accepts an input only if every size field is exact

The three detection points, as theorems about the constraint machinery (any stack of regions):
* a size that cannot fit in an enclosing region is reported when that size is read (`anticipated`),
* a field that would cross a region's end is reported before it is consumed (`exceeded`,
  see also `C08.c08_skip_exceeded`),
* a region that ends short is reported when its last field is done (`subceeded`),
each naming the violated size field's path, its limit, the bytes counted so far and the offending
field / excess; and the positive direction: exact sizes pass every check (`decode_ok`).
-/
namespace C03

/-- the first (outermost) enclosing region that a size `v` just read at `vpath` cannot fit into is
reported, with that region's path, limit, counted bytes, the size field and its value, and the excess -/
theorem c03_anticipated (vpath : Path) (v id : Nat) (pre : List SC) (c : SC) (post : List SC) (s : St) (m : Nat)
    (hpre : Room pre v) (hid : c.id ≠ id) (hm : c.max = some m) (hover : m < c.already + v)
    (hpreid : ∀ d ∈ pre, d.id ≠ id) :
    anticipateM true vpath v id { s with scs := pre ++ c :: post } =
      .error (.anticipated c.id c.path m c.already vpath v (c.already + v - m), { s with scs := pre ++ c :: post }) := by
  have : anticipate vpath v id (pre ++ c :: post) =
      some (.anticipated c.id c.path m c.already vpath v (c.already + v - m)) := by
    induction pre with
    | nil => simp [anticipate, hid, SC.over, hm, hover]
    | cons d rest ih =>
      have hd : d.over v = false := over_false (hpre d (by simp))
      have hdi : d.id ≠ id := hpreid d (by simp)
      simp only [List.cons_append, anticipate, hdi, if_false, hd, Bool.false_eq_true]
      exact ih (fun e he => hpre e (by simp [he])) (fun e he => hpreid e (by simp [he]))
  simp [anticipateM, this]

/-- a field of width `size` at `path` that would cross the end of the first (outermost) violated region is
reported before it is consumed: only the rest of that region is taken from the input, not the field -/
theorem c03_exceeded (path : Path) (size : Nat) (pre : List SC) (c : SC) (post : List SC) (s : St) (m : Nat)
    (hpre : Room pre size) (hm : c.max = some m) (hover : m < c.already + size) (hlen : m - c.already ≤ s.inp.length) :
    ∃ scs', bytesParsed path size { s with scs := pre ++ c :: post } =
      .error (.exceeded c.id c.path m c.already path (c.already + size - m),
        { s with scs := scs', inp := s.inp.drop (m - c.already), pos := s.pos + (m - c.already) }) := by
  unfold bytesParsed
  simp only []
  suffices h : ∀ done, ∃ scs', bpGo path size done (pre ++ c :: post) { s with scs := pre ++ c :: post } =
      .error (.exceeded c.id c.path m c.already path (c.already + size - m),
        { s with scs := scs', inp := s.inp.drop (m - c.already), pos := s.pos + (m - c.already) }) from h []
  induction pre with
  | nil =>
    intro done
    have := C08.c08_skip_exceeded path size c post done { s with scs := c :: post } m hm hover hlen
    exact ⟨_, by simpa using this⟩
  | cons d rest ih =>
    intro done
    have hd : d.over size = false := over_false (hpre d (by simp))
    have hr : Room rest size := fun e he => hpre e (by simp [he])
    simp only [List.cons_append, bpGo, hd, Bool.false_eq_true, if_false]
    -- the state's own `scs` field is irrelevant to `bpGo` (it works on the explicit lists)
    obtain ⟨scs', h⟩ := ih hr (done ++ [d.bump size])
    refine ⟨scs', ?_⟩
    rw [← h]
    exact bpGo_state_irrel path size _ _ _ _ _
where
  bpGo_state_irrel (path : Path) (size : Nat) : ∀ (todo done : List SC) (s : St) (a b : List SC),
      bpGo path size done todo { s with scs := a } = bpGo path size done todo { s with scs := b } := by
    intro todo
    induction todo with
    | nil => intro done s a b; simp [bpGo]
    | cons c rest ih =>
      intro done s a b
      simp only [bpGo]
      split
      · rfl
      · exact ih _ _ _ _

/-- a region that ends short is reported when its last field is done, naming its path, limit and count -/
theorem c03_subceeded (c : SC) (s : St) (m : Nat) (hm : c.max = some m) (hne : c.already ≠ m) :
    assertDoneSC true c s = .error (.subceeded c.id c.path m c.already, s) := by
  simp [assertDoneSC, hm, hne]

/-- an exact region passes its end check silently -/
theorem c03_exact_ok (abort : Bool) (c : SC) (s : St) (m : Nat) (hm : c.max = some m) (he : c.already = m) :
    assertDoneSC abort c s = .ok ((), s) := by
  simp [assertDoneSC, hm, he]

/-! ## acceptance ⇒ every size field exact (structures) -/

/-- (tables) every layout in `/repo` meets the side conditions of the converse: size fields of size-prefixed
buffers are at least one byte wide, signed fields are at least one byte wide -/
theorem c03_tables : Generated.allTypes.all Ty.wf = true := by decide +kernel

/-- **C03, "accepts only if"** (walker level): whatever the strict walker accepts for a layout conforms to it — in
particular (that is what `spec` demands of a `TPM2B`) every size field equals the byte length of the region it
governs, every count equals the number of elements, every value is in its set; the bytes consumed are exactly the
encoding, the events exactly the dictated ones, every enclosing region charged exactly the length -/
theorem c03_accept_only_if (t : Ty) (hwf : t.wf = true) (path : Path) (sel : Option Int) (s s' : St) (v : Val)
    (hfresh : Fresh s.scs s.pos) (h : decode true t path sel s = .ok (v, s')) : Snd (spec t path sel v) s s' :=
  decode_sound t hwf path sel s s' v hfresh h

/-- **C01 ∧ C03 for structures: strict acceptance ⇔ conformance.**  `Binary.marshal(T, x)` completes with object `v`
if and only if `v` conforms to `T` with encoding exactly `x`; and then the events shown are exactly the dictated ones -/
theorem c03_accept_iff (t : Ty) (hwf : t.wf = true) (tb : MsgTables) (x : List Byte) (v : Val) :
    (marshalRun true tb (.ty t) x).outcome = .done v ↔ ∃ evs, spec t rootPath none v = some (x, evs) := by
  constructor
  · intro h
    -- the pump reports `done` only if the walker succeeded with nothing left
    have hrun : ∃ s', runWalker true tb (.ty t) x = .ok (v, s') ∧ s'.inp = [] := by
      rw [outcome_nonstream tb (.ty t) rfl x] at h
      obtain ⟨hres, hpos⟩ := pumpOutcome_done h
      cases hw : runWalker true tb (.ty t) x with
      | error e => rw [hw] at hres; obtain ⟨e, s⟩ := e; simp [resOf] at hres
      | ok vs =>
        obtain ⟨v', s'⟩ := vs
        rw [hw] at hres hpos
        simp only [resOf, Except.ok.injEq] at hres
        subst hres
        refine ⟨s', rfl, ?_⟩
        have hacct := runWalker_acct tb (.ty t) x
        rw [hw] at hacct
        obtain ⟨new, off, h1, h2, h3, h4, h5⟩ := hacct
        have hoff : off = [] := h5 rfl
        subst hoff
        simp only [stOf, initSt, List.append_nil, List.length_nil, Nat.add_zero, Nat.zero_add] at h2 h3 hpos
        have hlen : x.length = (evBytes new).length + s'.inp.length := by
          conv => lhs; rw [h2]
          simp
        exact List.eq_nil_of_length_eq_zero (by omega)
    obtain ⟨s', hw, hinp⟩ := hrun
    obtain ⟨bs, evs, hspec, hi, _, _, _⟩ := decode_sound t hwf rootPath none (initSt x) s' v
      (by intro c hc; cases hc) (by simpa [runWalker] using hw)
    simp only [initSt, hinp, List.append_nil] at hi
    exact ⟨evs, by rw [hspec, hi]⟩
  · rintro ⟨evs, h⟩
    have := decode_ok t rootPath none v x evs h [] 0 [] [] (by intro c hc; cases hc) (by intro c hc; cases hc)
    have hw : runWalker true tb (.ty t) x = .ok (v, ⟨[], x.length, stamp 0 evs, []⟩) := by
      simpa [runWalker, initSt, post, bump] using this
    rw [outcome_nonstream tb (.ty t) rfl x, hw]
    simp [pumpOutcome, stOf, resOf]

end C03
