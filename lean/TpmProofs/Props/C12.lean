import TpmModel.Cache
import TpmModel.Generated.Misc
import TpmModel.Pump
/-!
# C12 — decoding is a pure function of its arguments

Everything in the decoder model is a function of its arguments (`marshalRun : … → Run`) except the
identity of the synthesized encrypted-parameter types, which comes from the cache.  With an unbounded
cache every request for a class gets the same identity, no matter which other requests (of other,
possibly interleaved decodes) come before or in between.
-/
namespace C12

/-- (tables, from the source text of `params_common.py`) the cache is unbounded -/
theorem c12_capacity : Generated.cacheCapacity = .unbounded := by decide

def Inv (c : Cache) : Prop :=
  c.cap = .unbounded ∧ (∀ e ∈ c.entries, e.2 < c.next) ∧
  (∀ a b, a ∈ c.entries → b ∈ c.entries → a.1 = b.1 → a.2 = b.2)

/-- identity the cache has committed to for a class, if any -/
def Cache.known (c : Cache) (cls : String) : Option Nat := (c.entries.find? (·.1 == cls)).map (·.2)

theorem find_mem {l : List (String × Nat)} {cls : String} {e : String × Nat}
    (h : l.find? (·.1 == cls) = some e) : e ∈ l ∧ e.1 = cls := by
  have h1 := List.mem_of_find?_eq_some h
  have h2 := List.find?_some h
  exact ⟨h1, by simpa using h2⟩

/-- one request: the invariant is kept, what was known stays known with the same identity, and the class
requested is known afterwards with the identity returned -/
theorem get_step (c : Cache) (cls : String) (h : Inv c) :
    Inv (c.get cls).2 ∧ Cache.known (c.get cls).2 cls = some (c.get cls).1 ∧
    (∀ k id, Cache.known c k = some id → Cache.known (c.get cls).2 k = some id) := by
  obtain ⟨hcap, hlt, huniq⟩ := h
  unfold Cache.get
  simp only [hcap]
  cases hf : c.entries.find? (·.1 == cls) with
  | some e =>
    obtain ⟨k, id⟩ := e
    simp only []
    exact ⟨⟨hcap, hlt, huniq⟩, by simp [Cache.known, hf], fun _ _ h => h⟩
  | none =>
    simp only []
    refine ⟨⟨rfl, ?_, ?_⟩, by simp [Cache.known], ?_⟩
    · intro e he
      show e.2 < c.next + 1
      simp only [List.mem_cons] at he
      rcases he with rfl | he
      · simp
      · have := hlt e he; omega
    · intro a b ha hb hab
      simp only [List.mem_cons] at ha hb
      have hnone : ∀ e ∈ c.entries, e.1 ≠ cls := by
        intro e he heq
        have := List.find?_eq_none.mp hf e he
        simp [heq] at this
      rcases ha with rfl | ha <;> rcases hb with rfl | hb
      · rfl
      · exact absurd hab.symm (hnone b hb)
      · exact absurd hab (hnone a ha)
      · exact huniq a b ha hb hab
    · intro k id hk
      unfold Cache.known at hk ⊢
      by_cases hkc : k = cls
      · subst hkc; simp [hf] at hk
      · have : ¬ ((cls == k) = true) := by simpa using fun h => hkc h.symm
        simp only [List.find?_cons, this]
        exact hk

/-- **C12**: with an unbounded cache, along ANY history of requests (any number of decodes, sequential or
interleaved step-wise in any schedule) once a class has been given an identity, every later request for it
returns the same identity -/
theorem c12_stable : ∀ (hist : List String) (c : Cache), Inv c → ∀ (cls : String) (id : Nat),
    Cache.known c cls = some id → ∀ p ∈ Cache.run c hist, p.1 = cls → p.2 = id := by
  intro hist
  induction hist with
  | nil => intro c _ cls id _ p hp; simp [Cache.run] at hp
  | cons k rest ih =>
    intro c hinv cls id hknown p hp hcls
    obtain ⟨hinv', hk', hmono⟩ := get_step c k hinv
    simp only [Cache.run, List.mem_cons] at hp
    rcases hp with rfl | hp
    · simp only at hcls
      subst hcls
      have := hmono _ _ hknown
      rw [hk'] at this
      exact (Option.some.inj this)
    · exact ih _ hinv' cls id (hmono _ _ hknown) p hp hcls

/-- … in particular two requests for the same class anywhere in a history starting from the empty cache
return the same identity: the synthesized layout is the same type every time -/
theorem c12 (hist : List String) (p q : String × Nat)
    (hp : p ∈ Cache.run (Cache.init .unbounded) hist) (hq : q ∈ Cache.run (Cache.init .unbounded) hist)
    (h : p.1 = q.1) : p.2 = q.2 := by
  -- generalise over the starting cache
  suffices gen : ∀ (hist : List String) (c : Cache), Inv c → ∀ p q, p ∈ Cache.run c hist → q ∈ Cache.run c hist →
      p.1 = q.1 → p.2 = q.2 from
    gen hist _ ⟨rfl, by simp [Cache.init], by simp [Cache.init]⟩ p q hp hq h
  intro hist
  induction hist with
  | nil => intro c _ p q hp; simp [Cache.run] at hp
  | cons k rest ih =>
    intro c hinv p q hp hq hpq
    obtain ⟨hinv', hk', _⟩ := get_step c k hinv
    simp only [Cache.run, List.mem_cons] at hp hq
    rcases hp with rfl | hp <;> rcases hq with rfl | hq
    · rfl
    · exact (c12_stable rest _ hinv' k _ hk' q hq hpq.symm).symm
    · exact c12_stable rest _ hinv' k _ hk' p hp hpq
    · exact ih _ hinv' p q hp hq hpq

/-- why the capacity matters: with `lru_cache(maxsize=1)` the history A, B, A gives A two identities -/
theorem c12_bounded_counterexample :
    Cache.run (Cache.init (.bounded 1)) ["A", "B", "A"] = [("A", 0), ("B", 1), ("A", 2)] := by decide

/-- the rest of a decode is a function: equal arguments give equal runs (events, outcome, command code) -/
theorem c12_function (abort : Bool) (tb : MsgTables) (top : Top) (x y : List Byte) (h : x = y) :
    marshalRun abort tb top x = marshalRun abort tb top y := by rw [h]

end C12
