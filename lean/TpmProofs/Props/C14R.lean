import TpmProofs.Props.C14W
import TpmProofs.Props.C14E
/-!
# C14: which rows stand for which events

The stream is cut into *blocks* by a function of the events alone (`blocksOf`): a warning, a byte-buffer parent with the run of
children and warnings that follows it, another list parent with its run, or any other event.  The blocks partition the stream
(`c14_blocks_partition`), and whenever the pretty printer returns rows they are exactly the rendering of the blocks in order
(`c14_rows_are_blocks`), where the rendering (`Block.render`) reads like the property:

* a warning          → one info row;
* any other event    → one row (`plainRow`: type, depth, name, its bytes, its value text), then its bit rows if it is an attribute word;
* a byte buffer      → ONE row holding the bytes of all its children, then one info row per warning met on the way;
* another list       → one row per event of its run, in event order: the element events that carry the parent's own path and name
                       (for a list of primitives all elements; for a list of structures the first element's structure event — the
                       run ends at that element's first field and what follows is shown event by event) and the warnings met;
                       the parent itself is shown (last) only when the run has no element event.

The event that ends a list's run is shown as a plain row even when it is a list parent itself: this is what the code does
(`pretty_list_elems` returns it and `unmarshal` prints it without looking at it again) and the model keeps it.  It happens in
decoder streams: the session area (`list[TPMS_AUTH_…]`) directly follows the buffer of a last `TPM2B` parameter, and its own row
is then shown although it has elements.  What must not stand there is a byte buffer (it would be shown byte by byte):
`c14_buffers_are_blocks` shows every byte-buffer parent heads a buffer block on streams satisfying `endsOk`, which is evaluated
on every stream of every run (model side and, independently, on the implementation's events).
-/
namespace C14

inductive Block where
  | info (w : Err)
  | plain (m : MEvent)
  | buffer (p : MEvent) (run : List Event)
  | elems (p : MEvent) (run : List Event)

def Block.events : Block → List Event
  | .info w => [.warning w]
  | .plain m => [.marshal m]
  | .buffer p run => .marshal p :: run
  | .elems p run => .marshal p :: run

/-- events that belong to the run after a list parent: warnings, and marshal events with the parent's path and name -/
def inRun (parent : Path) : Event → Bool
  | .warning _ => true
  | .marshal c => isChild parent c.path

def blocksGo : Nat → List Event → List Block
  | 0, _ => []
  | _+1, [] => []
  | f+1, .warning w :: rest => .info w :: blocksGo f rest
  | f+1, .marshal m :: rest =>
    if isListParent m then
      let run := rest.takeWhile (inRun m.path)
      let b := if m.ty = .listOf "BYTE" then Block.buffer m run else Block.elems m run
      match rest.dropWhile (inRun m.path) with
      | .marshal c :: rest' => b :: .plain c :: blocksGo f rest'
      | _ => [b]
    else .plain m :: blocksGo f rest

def blocksOf (evs : List Event) : List Block := blocksGo (evs.length + 1) evs

/-- the row of an event shown on its own -/
def plainRow (env : PrintEnv) (m : MEvent) : Row :=
  .field (typeNameOf m.ty) (m.path.length - 1) ("." ++ PathNode.last m.path) (evBytesE env (.marshal m)) (valueText env m)

/-- the row of a byte buffer -/
def bufRow (p : MEvent) (buf : List Byte) : Row :=
  .field (typeNameOf p.ty) (p.path.length - 1) ("." ++ PathNode.last p.path) buf (printable buf)

def kidsOf (run : List Event) : List MEvent :=
  run.filterMap fun e => match e with
    | .marshal c => some c
    | .warning _ => none

/-- one row per element event and per warning of a run, in order -/
def renderRun (env : PrintEnv) : List Event → Nat → List Row
  | [], _ => []
  | .warning _ :: r, k => .info k :: renderRun env r (k + 1)
  | .marshal c :: r, k => plainRow env c :: renderRun env r k

def Block.render (env : PrintEnv) (k : Nat) : Block → List Row
  | .info _ => [.info k]
  | .plain m => plainRow env m :: (if hasAttrs env m then attrRows env m else [])
  | .buffer p run => bufRow p (streamBytes env run) :: (List.range' k (nWarn run)).map Row.info
  | .elems p run => if (kidsOf run).isEmpty then renderRun env run k ++ [plainRow env p] else renderRun env run k

def render (env : PrintEnv) : Nat → List Block → List Row
  | _, [] => []
  | k, b :: bs => b.render env k ++ render env (k + nWarn b.events) bs

/-! ### the blocks partition the stream -/

theorem takeWhile_dropWhile {α} (p : α → Bool) (l : List α) : l.takeWhile p ++ l.dropWhile p = l :=
  List.takeWhile_append_dropWhile

theorem blocksGo_partition : ∀ (fuel : Nat) (evs : List Event), evs.length < fuel →
    (blocksGo fuel evs).flatMap Block.events = evs := by
  intro fuel
  induction fuel with
  | zero => intro evs h; omega
  | succ n ih =>
    intro evs h
    cases evs with
    | nil => simp [blocksGo]
    | cons e rest =>
      simp only [List.length_cons] at h
      cases e with
      | warning w =>
        simp only [blocksGo, List.flatMap_cons, Block.events, List.cons_append, List.nil_append]
        rw [ih rest (by omega)]
      | marshal m =>
        simp only [blocksGo]
        split
        · have hsplit := takeWhile_dropWhile (inRun m.path) rest
          have hlen : (rest.dropWhile (inRun m.path)).length ≤ rest.length := (List.dropWhile_sublist (inRun m.path)).length_le
          have hb : ∀ run, (if m.ty = .listOf "BYTE" then Block.buffer m run else Block.elems m run).events = .marshal m :: run := by
            intro run; split <;> rfl
          split
          · rename_i c rest' hd
            rw [hd] at hsplit hlen
            simp only [List.length_cons] at hlen
            rw [List.flatMap_cons, hb, List.flatMap_cons, ih rest' (by omega)]
            simp only [Block.events, List.cons_append, List.nil_append]
            rw [hsplit]
          · rename_i hd
            have : rest.dropWhile (inRun m.path) = [] := by
              cases hdw : rest.dropWhile (inRun m.path) with
              | nil => rfl
              | cons x xs =>
                cases x with
                | marshal c => exact absurd hdw (hd c xs)
                | warning w =>
                  have := List.head_dropWhile_not (inRun m.path) (l := rest) (by simp [hdw])
                  simp [hdw, inRun] at this
            rw [this, List.append_nil] at hsplit
            rw [List.flatMap_cons, hb, hsplit]
            simp
        · simp only [List.flatMap_cons, Block.events, List.cons_append, List.nil_append]
          rw [ih rest (by omega)]

/-- **the blocks partition the stream**: every event lies in exactly one block, in order -/
theorem c14_blocks_partition (evs : List Event) : (blocksOf evs).flatMap Block.events = evs :=
  blocksGo_partition _ evs (by omega)

/-! ### the rows of a successful print are the rendering of the blocks -/

theorem prettyRow_eq {env : PrintEnv} {m : MEvent} {r : Row} (h : prettyRow env m = .ok r) : r = plainRow env m := by
  unfold prettyRow at h
  cases hb : eventBytes env m with
  | error e => simp [hb, Except.map] at h
  | ok bs => simp only [hb, Except.map, Except.ok.injEq] at h; subst h; simp [plainRow, evBytesE, hb]

theorem nWarn_cons_w (w : Err) (r : List Event) : nWarn (.warning w :: r) = nWarn r + 1 := by simp [nWarn]
theorem nWarn_cons_m (c : MEvent) (r : List Event) : nWarn (.marshal c :: r) = nWarn r := by simp [nWarn]

theorem foldBytes_rows (env : PrintEnv) (parent : MEvent) : ∀ (evs : List Event) (k : Nat) (buf : List Byte)
    (infos rows : List Row) (nxt : Option MEvent) (rest : List Event) (k' : Nat),
    foldBytes env parent evs k buf infos = .ok (rows, nxt, rest, k') →
    rows = bufRow parent (buf ++ streamBytes env (evs.takeWhile (inRun parent.path))) ::
        (infos.reverse ++ (List.range' k (nWarn (evs.takeWhile (inRun parent.path)))).map Row.info) ∧
      evs.dropWhile (inRun parent.path) = nxtL nxt ++ rest ∧
      k' = k + nWarn (evs.takeWhile (inRun parent.path)) := by
  intro evs
  induction evs with
  | nil =>
    intro k buf infos rows nxt rest k' h
    simp only [foldBytes, Except.ok.injEq, Prod.mk.injEq] at h
    obtain ⟨rfl, rfl, rfl, rfl⟩ := h
    simp [bufRow, streamBytes, nWarn, nxtL]
  | cons e evs ih =>
    intro k buf infos rows nxt rest k' h
    cases e with
    | warning w =>
      simp only [foldBytes] at h
      obtain ⟨h1, h2, h3⟩ := ih _ _ _ _ _ _ _ h
      have ht : (Event.warning w :: evs).takeWhile (inRun parent.path) = .warning w :: evs.takeWhile (inRun parent.path) := by
        simp [List.takeWhile_cons, inRun]
      have hd : (Event.warning w :: evs).dropWhile (inRun parent.path) = evs.dropWhile (inRun parent.path) := by
        simp [List.dropWhile_cons, inRun]
      rw [ht, hd, nWarn_cons_w]
      refine ⟨?_, h2, by omega⟩
      rw [h1]
      simp [streamBytes, evBytesE, List.range'_succ]
    | marshal c =>
      simp only [foldBytes] at h
      split at h
      · rename_i hc
        have ht : (Event.marshal c :: evs).takeWhile (inRun parent.path) = .marshal c :: evs.takeWhile (inRun parent.path) := by
          simp [List.takeWhile_cons, inRun, hc]
        have hd : (Event.marshal c :: evs).dropWhile (inRun parent.path) = evs.dropWhile (inRun parent.path) := by
          simp [List.dropWhile_cons, inRun, hc]
        cases hb : eventBytes env c with
        | error e => simp [hb] at h
        | ok bs =>
          cases hv : c.val with
          | none => simp [hb, hv] at h
          | some x =>
            simp only [hb, hv] at h
            obtain ⟨h1, h2, h3⟩ := ih _ _ _ _ _ _ _ h
            rw [ht, hd, nWarn_cons_m]
            refine ⟨?_, h2, h3⟩
            rw [h1]
            simp [streamBytes, evBytesE, hb, List.append_assoc]
      · rename_i hc
        have ht : (Event.marshal c :: evs).takeWhile (inRun parent.path) = [] := by
          simp [List.takeWhile_cons, inRun, hc]
        have hd : (Event.marshal c :: evs).dropWhile (inRun parent.path) = .marshal c :: evs := by
          simp [List.dropWhile_cons, inRun, hc]
        simp only [Except.ok.injEq, Prod.mk.injEq] at h
        obtain ⟨rfl, rfl, rfl, rfl⟩ := h
        rw [ht, hd]
        simp [bufRow, streamBytes, nWarn, nxtL]

theorem foldElems_rows (env : PrintEnv) (parent : MEvent) : ∀ (evs : List Event) (k : Nat) (isEmpty : Bool)
    (acc rows : List Row) (nxt : Option MEvent) (rest : List Event) (k' : Nat),
    foldElems env parent evs k isEmpty acc = .ok (rows, nxt, rest, k') →
    rows = acc.reverse ++ renderRun env (evs.takeWhile (inRun parent.path)) k ++
        (if isEmpty && (kidsOf (evs.takeWhile (inRun parent.path))).isEmpty then [plainRow env parent] else []) ∧
      evs.dropWhile (inRun parent.path) = nxtL nxt ++ rest ∧
      k' = k + nWarn (evs.takeWhile (inRun parent.path)) := by
  intro evs
  induction evs with
  | nil =>
    intro k isEmpty acc rows nxt rest k' h
    simp only [foldElems] at h
    split at h
    · rename_i he
      cases hr : prettyRow env parent with
      | error e => simp [hr, Except.map] at h
      | ok r =>
        simp only [hr, Except.map, Except.ok.injEq, Prod.mk.injEq] at h
        obtain ⟨rfl, rfl, rfl, rfl⟩ := h
        simp [renderRun, kidsOf, nWarn, nxtL, he, prettyRow_eq hr]
    · rename_i he
      simp only [Except.ok.injEq, Prod.mk.injEq] at h
      obtain ⟨rfl, rfl, rfl, rfl⟩ := h
      simp [renderRun, kidsOf, nWarn, nxtL, he]
  | cons e evs ih =>
    intro k isEmpty acc rows nxt rest k' h
    cases e with
    | warning w =>
      simp only [foldElems] at h
      obtain ⟨h1, h2, h3⟩ := ih _ _ _ _ _ _ _ h
      have ht : (Event.warning w :: evs).takeWhile (inRun parent.path) = .warning w :: evs.takeWhile (inRun parent.path) := by
        simp [List.takeWhile_cons, inRun]
      have hd : (Event.warning w :: evs).dropWhile (inRun parent.path) = evs.dropWhile (inRun parent.path) := by
        simp [List.dropWhile_cons, inRun]
      rw [ht, hd, nWarn_cons_w]
      refine ⟨?_, h2, by omega⟩
      rw [h1]
      simp [renderRun, kidsOf]
    | marshal c =>
      simp only [foldElems] at h
      split at h
      · rename_i hc
        have ht : (Event.marshal c :: evs).takeWhile (inRun parent.path) = .marshal c :: evs.takeWhile (inRun parent.path) := by
          simp [List.takeWhile_cons, inRun, hc]
        have hd : (Event.marshal c :: evs).dropWhile (inRun parent.path) = evs.dropWhile (inRun parent.path) := by
          simp [List.dropWhile_cons, inRun, hc]
        cases hr : prettyRow env c with
        | error e => simp [hr] at h
        | ok r =>
          simp only [hr] at h
          obtain ⟨h1, h2, h3⟩ := ih _ _ _ _ _ _ _ h
          rw [ht, hd, nWarn_cons_m]
          refine ⟨?_, h2, h3⟩
          rw [h1]
          simp [renderRun, kidsOf, prettyRow_eq hr]
      · rename_i hc
        have ht : (Event.marshal c :: evs).takeWhile (inRun parent.path) = [] := by
          simp [List.takeWhile_cons, inRun, hc]
        have hd : (Event.marshal c :: evs).dropWhile (inRun parent.path) = .marshal c :: evs := by
          simp [List.dropWhile_cons, inRun, hc]
        rw [ht, hd]
        split at h
        · rename_i he
          cases hr : prettyRow env parent with
          | error e => simp [hr, Except.map] at h
          | ok r =>
            simp only [hr, Except.map, Except.ok.injEq, Prod.mk.injEq] at h
            obtain ⟨rfl, rfl, rfl, rfl⟩ := h
            simp [renderRun, kidsOf, nWarn, nxtL, he, prettyRow_eq hr]
        · rename_i he
          simp only [Except.ok.injEq, Prod.mk.injEq] at h
          obtain ⟨rfl, rfl, rfl, rfl⟩ := h
          simp [renderRun, kidsOf, nWarn, nxtL, he]

theorem foldList_rows (env : PrintEnv) (m : MEvent) (rest : List Event) (k : Nat) (frows : List Row) (nxt : Option MEvent)
    (rest' : List Event) (k' : Nat) (h : foldList env m rest k = .ok (frows, nxt, rest', k')) :
    frows = (if m.ty = .listOf "BYTE" then Block.buffer m (rest.takeWhile (inRun m.path))
        else Block.elems m (rest.takeWhile (inRun m.path))).render env k ∧
      rest.dropWhile (inRun m.path) = nxtL nxt ++ rest' ∧ k' = k + nWarn (rest.takeWhile (inRun m.path)) := by
  unfold foldList at h
  split at h
  · rename_i e heq
    obtain ⟨h1, h2, h3⟩ := foldBytes_rows env m rest k [] [] frows nxt rest' k' h
    refine ⟨?_, h2, h3⟩
    rw [if_pos heq, h1]
    simp [Block.render]
  · rename_i hne
    obtain ⟨h1, h2, h3⟩ := foldElems_rows env m rest k true [] frows nxt rest' k' h
    refine ⟨?_, h2, h3⟩
    have : ¬ m.ty = .listOf "BYTE" := fun heq => hne heq
    rw [if_neg this, h1]
    simp only [Block.render, List.reverse_nil, List.nil_append, Bool.true_and]
    split <;> simp

theorem prettyGo_blocks (env : PrintEnv) : ∀ (fuel : Nat) (evs : List Event) (k : Nat) (rows : List Row),
    prettyGo env fuel evs k = .ok rows → rows = render env k (blocksGo fuel evs) := by
  intro fuel
  induction fuel with
  | zero => intro evs k rows h; simp [prettyGo] at h
  | succ n ih =>
    intro evs k rows h
    cases evs with
    | nil =>
      simp only [prettyGo, Except.ok.injEq] at h
      subst h; simp [blocksGo, render]
    | cons e rest =>
      cases e with
      | warning w =>
        simp only [prettyGo] at h
        cases hg : prettyGo env n rest (k + 1) with
        | error e => simp [hg, Except.map] at h
        | ok rs =>
          simp only [hg, Except.map, Except.ok.injEq] at h
          subst h
          simp only [blocksGo, render, Block.render, Block.events, List.cons_append, List.nil_append]
          rw [ih rest (k + 1) rs hg]
          simp [nWarn]
      | marshal m =>
        simp only [prettyGo] at h
        split at h
        · rename_i hlp
          cases hf : foldList env m rest k with
          | error e => simp [hf] at h
          | ok res =>
            obtain ⟨frows, nxt, rest', k'⟩ := res
            obtain ⟨h1, h2, h3⟩ := foldList_rows env m rest k frows nxt rest' k' hf
            have hbw : ∀ run, nWarn (if m.ty = .listOf "BYTE" then Block.buffer m run else Block.elems m run).events = nWarn run := by
              intro run; split <;> simp [Block.events, nWarn]
            simp only [hf] at h
            simp only [blocksGo, hlp, if_true]
            cases nxt with
            | none =>
              simp only [Except.ok.injEq] at h
              subst h
              have hr' : rest' = [] := by
                unfold foldList at hf
                split at hf
                · obtain ⟨c, _, _, _, h4⟩ := foldBytes_hex env m rest k [] [] frows none rest' k' (by intro r hr; cases hr) hf
                  exact h4 rfl
                · obtain ⟨c, _, _, _, h4⟩ := foldElems_hex env m hlp rest k true [] frows none rest' k' hf
                  exact h4 rfl
              rw [hr'] at h2
              simp only [nxtL, List.append_nil] at h2
              rw [h2]
              simp [render, h1]
            | some c =>
              simp only [] at h
              cases hrw : prettyRow env c with
              | error e => simp [hrw] at h
              | ok r =>
                cases hg : prettyGo env n rest' k' with
                | error e => simp [hrw, hg, Except.map] at h
                | ok rs =>
                  simp only [hrw, hg, Except.map, Except.ok.injEq] at h
                  subst h
                  simp only [nxtL, List.cons_append, List.nil_append] at h2
                  rw [h2]
                  have hbw' := hbw (rest.takeWhile (inRun m.path))
                  generalize (if m.ty = TyTag.listOf "BYTE" then Block.buffer m (rest.takeWhile (inRun m.path))
                    else Block.elems m (rest.takeWhile (inRun m.path))) = b at h1 hbw' ⊢
                  simp only [render]
                  rw [hbw', show ∀ x, (Block.plain c).render env x =
                      plainRow env c :: (if hasAttrs env c then attrRows env c else []) from fun _ => rfl,
                    show nWarn (Block.plain c).events = 0 from by simp [Block.events, nWarn],
                    ih rest' k' rs hg, prettyRow_eq hrw, h1, h3]
                  simp
        · rename_i hlp
          cases hrw : prettyRow env m with
          | error e => simp [hrw] at h
          | ok r =>
            cases hg : prettyGo env n rest k with
            | error e => simp [hrw, hg, Except.map] at h
            | ok rs =>
              simp only [hrw, hg, Except.map, Except.ok.injEq] at h
              subst h
              simp only [blocksGo, hlp]
              simp only [Bool.false_eq_true, ↓reduceIte, render, Block.render, Block.events]
              rw [ih rest k rs hg, prettyRow_eq hrw]
              simp [nWarn]

/-- **C14 (rows ↔ events)**: whenever the pretty printer returns rows, they are the rendering of the stream's blocks, block by
block in event order: one row per event shown on its own (plus its bit rows), one row per byte buffer holding the bytes of all its
children, one info row per warning -/
theorem c14_rows_are_blocks (env : PrintEnv) (evs : List Event) (rows : List Row) (h : prettyRows env evs = .ok rows) :
    rows = render env 0 (blocksOf evs) :=
  prettyGo_blocks env _ evs 0 rows h

/-- the run of a list block holds only warnings and element events of that list -/
theorem run_inRun (p : Path) : ∀ (rest : List Event) (e : Event), e ∈ rest.takeWhile (inRun p) → inRun p e = true
  | [], e, h => by simp at h
  | x :: xs, e, h => by
    rw [List.takeWhile_cons] at h
    split at h
    · rename_i hx
      rcases List.mem_cons.mp h with rfl | h'
      · exact hx
      · exact run_inRun p xs e h'
    · simp at h

/-! ### every byte-buffer parent heads a buffer block -/

theorem firstNonChild_drop (p : Path) : ∀ (rest : List Event) (c : MEvent) (rest' : List Event),
    rest.dropWhile (inRun p) = .marshal c :: rest' → firstNonChild p rest = some c
  | [], c, rest', h => by simp at h
  | .warning w :: r, c, rest', h => by
    have hd : (Event.warning w :: r).dropWhile (inRun p) = r.dropWhile (inRun p) := by simp [List.dropWhile_cons, inRun]
    rw [hd] at h
    simp only [firstNonChild]
    exact firstNonChild_drop p r c rest' h
  | .marshal x :: r, c, rest', h => by
    simp only [firstNonChild]
    split
    · rename_i hc
      have hd : (Event.marshal x :: r).dropWhile (inRun p) = r.dropWhile (inRun p) := by simp [List.dropWhile_cons, inRun, hc]
      rw [hd] at h
      exact firstNonChild_drop p r c rest' h
    · rename_i hc
      have hd : (Event.marshal x :: r).dropWhile (inRun p) = .marshal x :: r := by simp [List.dropWhile_cons, inRun, hc]
      rw [hd] at h
      simp only [List.cons.injEq, Event.marshal.injEq] at h
      rw [h.1]

theorem endsOk_suffix : ∀ (a b : List Event), endsOk (a ++ b) = true → endsOk b = true
  | [], b, h => h
  | .warning _ :: a, b, h => endsOk_suffix a b (by simpa [endsOk] using h)
  | .marshal m :: a, b, h => by
    simp only [List.cons_append, endsOk, Bool.and_eq_true] at h
    exact endsOk_suffix a b h.2

theorem blocksGo_lists : ∀ (fuel : Nat) (evs : List Event), endsOk evs = true →
    ∀ b ∈ blocksGo fuel evs, ∀ m, b = .plain m → isBufParent m = false := by
  intro fuel
  induction fuel with
  | zero => intro evs _ b hb; simp [blocksGo] at hb
  | succ n ih =>
    intro evs he b hb m hm
    cases evs with
    | nil => simp [blocksGo] at hb
    | cons e rest =>
      cases e with
      | warning w =>
        simp only [blocksGo, List.mem_cons] at hb
        rcases hb with rfl | hb
        · cases hm
        · exact ih rest (by simpa [endsOk] using he) b hb m hm
      | marshal p =>
        simp only [endsOk, Bool.and_eq_true] at he
        obtain ⟨he1, he2⟩ := he
        simp only [blocksGo] at hb
        split at hb
        · rename_i hlp
          have hb0 : ∀ run, (if p.ty = .listOf "BYTE" then Block.buffer p run else Block.elems p run) ≠ .plain m := by
            intro run; split <;> simp
          split at hb
          · rename_i c rest' hd
            simp only [List.mem_cons] at hb
            rcases hb with rfl | rfl | hb
            · exact absurd hm (hb0 _)
            · simp only [Block.plain.injEq] at hm
              subst hm
              rw [if_pos hlp, firstNonChild_drop p.path rest c rest' hd] at he1
              simpa using he1
            · have hsplit := takeWhile_dropWhile (inRun p.path) rest
              rw [hd] at hsplit
              have h1 : endsOk (Event.marshal c :: rest') = true := endsOk_suffix _ _ (by rw [hsplit]; exact he2)
              simp only [endsOk, Bool.and_eq_true] at h1
              exact ih rest' h1.2 b hb m hm
          · simp only [List.mem_singleton] at hb
            subst hb
            exact absurd hm (hb0 _)
        · rename_i hlp
          simp only [List.mem_cons] at hb
          rcases hb with rfl | hb
          · simp only [Block.plain.injEq] at hm
            subst hm
            have : isListParent p = false := by simpa using hlp
            simp [isBufParent, this]
          · exact ih rest he2 b hb m hm

/-- **C14 (every byte buffer is one row)**: on a stream where no list's run is ended by a byte-buffer parent (`endsOk`, evaluated
on every stream of every run on both sides, `K` line), the events shown on their own are never byte-buffer parents: every byte
buffer heads a buffer block, i.e. is ONE row holding all its bytes -/
theorem c14_buffers_are_blocks (evs : List Event) (h : endsOk evs = true) :
    ∀ b ∈ blocksOf evs, ∀ m, b = .plain m → isBufParent m = false :=
  blocksGo_lists _ evs h

/-! ### not vacuous: the `TPML_DIGEST_VALUES` example has a list block (its run is the first element's structure
event: the run ends at that element's first field, and what follows is shown event by event), a byte-buffer block whose run is the
20 digest bytes, and events shown on their own; its 30 events give 9 rows (the list parent is hidden, 21 events share one row) -/

set_option maxRecDepth 100000 in
example : ((blocksOf exampleStream).any fun b => match b with
      | .buffer _ run => run.length == 20
      | _ => false) = true ∧
    ((blocksOf exampleStream).any fun b => match b with
      | .elems _ run => (kidsOf run).length == 1
      | _ => false) = true ∧
    (render tableEnv 0 (blocksOf exampleStream)).length = 9 ∧ endsOk exampleStream = true := by decide +kernel

/-- a stream `endsOk` rules out: an empty list directly followed by a byte buffer, whose bytes the printer then shows one per row
(a list of structures there is accepted: the session area after a response's last buffer) -/
example : endsOk [.marshal ⟨rootPath ++ [⟨"a", none⟩], .listOf "X", none, "", 0⟩,
    .marshal ⟨rootPath ++ [⟨"b", none⟩], .listOf "BYTE", none, "", 0⟩] = false := by decide +kernel

set_option maxRecDepth 100000 in
example : prettyRows tableEnv exampleStream = .ok (render tableEnv 0 (blocksOf exampleStream)) := by
  obtain ⟨rows, h⟩ := c14_total_b tableEnv exampleStream (by decide +kernel)
  rw [h, c14_rows_are_blocks _ _ _ h]

end C14
