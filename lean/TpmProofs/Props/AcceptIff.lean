import TpmProofs.MsgSound
import TpmProofs.MsgPump
import TpmProofs.Props.MsgWF
import TpmProofs.Props.C03
import TpmProofs.Props.C01
import TpmProofs.Props.C04
import TpmProofs.Props.C09
/-!
# Strict acceptance ⇔ well-formedness, for commands, responses and streams (C01, C03, C04, C05)

Over the regenerated tables.  `⇐` is `decodeCommand_ok` & co. (every well-formed message is accepted with exactly the
dictated events); `⇒` is `decodeCommand_sound` & co. (whatever is accepted is well-formed: every size field equals
the length of what it governs, every value is in its declared set, sessions iff the tag says so …).
-/
namespace AcceptIff

/-- (tables) the side conditions of the converse hold of the layouts in `/repo`: non-empty tag fields, size fields of
buffers and signed fields at least one byte wide, sessions never empty -/
theorem tables_wf : Generated.msgTables.wf = true := by decide +kernel

theorem walker_done {tb : MsgTables} {top : Top} (hs : top.isStream = false) {x : List Byte} {v : Val}
    (h : (marshalRun true tb top x).outcome = .done v) :
    ∃ s', runWalker true tb top x = .ok (v, s') ∧ s'.inp = [] := by
  rw [outcome_nonstream tb top hs x] at h
  obtain ⟨hres, hpos⟩ := pumpOutcome_done h
  cases hw : runWalker true tb top x with
  | error e => rw [hw] at hres; obtain ⟨e, s⟩ := e; simp [resOf] at hres
  | ok vs =>
    obtain ⟨v', s'⟩ := vs
    rw [hw] at hres hpos
    simp only [resOf, Except.ok.injEq] at hres
    subst hres
    refine ⟨s', rfl, ?_⟩
    have hacct := runWalker_acct tb top x
    rw [hw] at hacct
    obtain ⟨new, off, h1, h2, h3, h4, h5⟩ := hacct
    have hoff : off = [] := h5 rfl
    subst hoff
    simp only [stOf, initSt, List.append_nil, List.length_nil, Nat.add_zero, Nat.zero_add] at h2 h3 hpos
    have hlen : x.length = (evBytes new).length + s'.inp.length := by
      conv => lhs; rw [h2]
      simp
    exact List.eq_nil_of_length_eq_zero (by omega)

/-- **commands: accepted ⇔ well-formed** -/
theorem command_accept_iff (x : List Byte) (v : Val) :
    (marshalRun true Generated.msgTables .command x).outcome = .done v ↔
      ∃ p evs, v = p.toVal ∧ specCommand Generated.msgTables rootPath p = some (x, evs) := by
  constructor
  · intro h
    obtain ⟨s', hw, hinp⟩ := walker_done rfl h
    obtain ⟨p, bs, evs, hv, hspec, hi, _, _, _⟩ := decodeCommand_sound Generated.msgTables tables_wf rootPath (initSt x) s' v
      (by simpa [runWalker] using hw)
    simp only [initSt, hinp, List.append_nil] at hi
    exact ⟨p, evs, hv, by rw [hspec, hi]⟩
  · rintro ⟨p, evs, rfl, h⟩
    rw [MsgWF.c01_command p x evs h]

/-- **responses: accepted ⇔ well-formed**, for every command code and encryption flag -/
theorem response_accept_iff (cc : Option Int) (enc : Bool) (x : List Byte) (v : Val) :
    (marshalRun true Generated.msgTables (.response cc enc) x).outcome = .done v ↔
      ∃ p evs, v = p.toVal ∧ specResponse Generated.msgTables cc enc rootPath p = some (x, evs) := by
  constructor
  · intro h
    obtain ⟨s', hw, hinp⟩ := walker_done rfl h
    obtain ⟨p, bs, evs, hv, hspec, hi, _, _, _⟩ := decodeResponse_sound Generated.msgTables tables_wf cc enc rootPath (initSt x) s' v
      (by simpa [runWalker] using hw)
    simp only [initSt, hinp, List.append_nil] at hi
    exact ⟨p, evs, hv, by rw [hspec, hi]⟩
  · rintro ⟨p, evs, rfl, h⟩
    rw [MsgWF.c01_response cc enc p x evs h]

/-- **structures: accepted ⇔ conforming** (every layout of `/repo`) -/
theorem type_accept_iff (t : Ty) (ht : t ∈ Generated.allTypes) (x : List Byte) (v : Val) :
    (marshalRun true Generated.msgTables (.ty t) x).outcome = .done v ↔ ∃ evs, spec t rootPath none v = some (x, evs) :=
  C03.c03_accept_iff t (List.all_eq_true.mp C03.c03_tables t ht) Generated.msgTables x v

/-- **streams: the stream loop ends cleanly ⇔ the input is a sequence of well-formed exchanges**, each response
well-formed for its command's code and the encryption flag its command's sessions request, optionally followed by a
well-formed command — i.e. a stream ends cleanly only at a message boundary (C05), and then its events are exactly
the messages' events one after the other (C09) -/
theorem stream_accept_iff (x : List Byte) :
    (∃ v s', runWalker true Generated.msgTables .stream x = .ok (v, s')) ↔
      ∃ xs last evs, specStream Generated.msgTables rootPath last xs = some (x, evs) := by
  constructor
  · rintro ⟨v, s', h⟩
    obtain ⟨xs, last, bs, evs, hspec, hi, _, _, _⟩ := decodeStream_sound Generated.msgTables tables_wf rootPath _ (initSt x) s' v
      (by simpa [runWalker] using h)
    simp only [initSt] at hi
    exact ⟨xs, last, evs, by rw [hspec, hi]⟩
  · rintro ⟨xs, last, evs, h⟩
    have hlen := specStream_len Generated.msgTables rootPath last MsgWF.tag_sizes.1 xs x evs h
    have := decodeStream_ok Generated.msgTables rootPath last MsgWF.tag_sizes.1 MsgWF.tag_sizes.2 xs x evs h
      (x.length + 1) (by omega) 0 [] []
    exact ⟨_, _, by simpa [runWalker, initSt] using this⟩

end AcceptIff
