import TpmProofs.PumpFacts
import TpmProofs.DecodeOk
/-!
# C07 — warn mode and strict mode agree up to the first problem
-/
namespace C07

/-- the pump treats the two modes alike: which events are shown, their pull counts and the tracked
command code depend only on the walker's trace, not on the mode -/
theorem c07_pump_events_mode_free (x : List Byte) (isStream : Bool) (r1 r2 : R Val) (h : (stOf r1).out = (stOf r2).out) :
    (pump isStream x r1).events = (pump isStream x r2).events ∧ (pump isStream x r1).cc = (pump isStream x r2).cc := by
  unfold pump; simp [h]

/-- per field: a primitive with a valid value behaves identically in both modes (same value, same event,
same state); with an out-of-range value strict mode raises the error without the event, warn mode emits
the offending event followed by a warning carrying the same error -/
theorem c07_prim (p : Prim) (path : Path) (s : St) :
    (∀ v s', readPrim true p path s = .ok (v, s') → readPrim false p path s = .ok (v, s')) ∧
    (∀ x s', readPrim true p path s = .error (.value path p.name x, s') →
      readPrim false p path s = .ok (.int p.name x,
        emitW (.value path p.name x) (emitM ⟨path, .named p.name false, some x, p.name, p.size⟩ s'))) := by
  unfold readPrim
  constructor
  · intro v s' h
    cases hb : bytesParsed path p.size s with
    | error e => simp [hb, R.bind] at h
    | ok as =>
      obtain ⟨u, s1⟩ := as
      simp only [hb, R.bind_ok] at h ⊢
      cases ht : take p.size s1 with
      | error e => simp [ht, R.bind] at h
      | ok bs =>
        obtain ⟨bs, s2⟩ := bs
        simp only [ht, R.bind_ok] at h ⊢
        by_cases hv : p.isValid (p.ofBytes bs) = true
        · simpa [hv] using h
        · simp [hv] at h
  · intro x s' h
    cases hb : bytesParsed path p.size s with
    | error e =>
      obtain ⟨e, se⟩ := e
      simp only [hb, R.bind_error, Except.error.injEq, Prod.mk.injEq] at h
      -- a value error cannot come out of bytes_parsed
      unfold bytesParsed at hb
      exact absurd h.1 (by
        intro hval
        have := bpGo_no_value path p.size s.scs [] s e se hb
        exact this _ _ _ hval)
    | ok as =>
      obtain ⟨u, s1⟩ := as
      simp only [hb, R.bind_ok] at h ⊢
      cases ht : take p.size s1 with
      | error e =>
        obtain ⟨e, se⟩ := e
        simp only [ht, R.bind_error, Except.error.injEq, Prod.mk.injEq] at h
        unfold take at ht
        split at ht
        · simp only [Except.error.injEq, Prod.mk.injEq] at ht
          rw [← ht.1] at h; simp at h
        · simp at ht
      | ok bs =>
        obtain ⟨bs, s2⟩ := bs
        simp only [ht, R.bind_ok] at h ⊢
        by_cases hv : p.isValid (p.ofBytes bs) = true
        · simp [hv] at h
        · simp only [hv, Bool.false_eq_true, if_false, if_true, Except.error.injEq, Prod.mk.injEq, Err.value.injEq, true_and] at h
          obtain ⟨hx, hs⟩ := h
          subst hx hs
          simp [hv]
where
  bpGo_no_value (path : Path) (size : Nat) : ∀ (todo done : List SC) (s : St) (e : Err) (se : St),
      bpGo path size done todo s = .error (e, se) → ∀ p t x, e ≠ .value p t x := by
    intro todo
    induction todo with
    | nil => intro done s e se h; simp [bpGo] at h
    | cons c rest ih =>
      intro done s e se h
      unfold bpGo at h
      split at h
      · simp only [] at h
        have hdep : ∀ (n : Nat) (st : St) (e2 : Err) (s2 : St), consume n st = .error (e2, s2) → e2 = .depleted := by
          intro n st e2 s2 hc
          unfold consume take at hc
          split at hc
          · simp only [R.bind_error, Except.error.injEq, Prod.mk.injEq] at hc; exact hc.1.symm
          · simp [R.bind] at hc
        revert h
        generalize hr : consume _ _ = r
        cases r with
        | error e2 =>
          obtain ⟨e2, s2⟩ := e2
          have := hdep _ _ _ _ hr
          subst this
          simp only [R.bind_error, Except.error.injEq, Prod.mk.injEq]
          rintro ⟨rfl, _⟩ p t x hval
          simp at hval
        | ok a =>
          obtain ⟨a, s2⟩ := a
          simp only [R.bind_ok, Except.error.injEq, Prod.mk.injEq]
          rintro ⟨rfl, _⟩ p t x hval
          simp at hval
      · exact ih _ _ _ _ h

end C07
