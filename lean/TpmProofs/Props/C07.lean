import TpmProofs.PumpFacts
import TpmProofs.DecodeOk
import TpmProofs.Modes
/-!
# C07 — warn mode and strict mode agree up to the first problem
-/
namespace C07

/-- the pump treats the two modes alike: which events are shown, their pull counts and the tracked
command code depend only on the walker's trace, not on the mode -/
theorem c07_pump_events_mode_free (x : List Byte) (isStream : Bool) (r1 r2 : R Val) (h : (stOf r1).out = (stOf r2).out) :
    (pump isStream x r1).events = (pump isStream x r2).events ∧ (pump isStream x r1).cc = (pump isStream x r2).cc := by
  unfold pump; simp [h]

/-- per field: a primitive with a valid value behaves identically in both modes (same value, same event,
same state); with an out-of-range value strict mode raises the error without the event, warn mode emits
the offending event followed by a warning carrying the same error -/
theorem c07_prim (p : Prim) (path : Path) (s : St) :
    (∀ v s', readPrim true p path s = .ok (v, s') → readPrim false p path s = .ok (v, s')) ∧
    (∀ x s', readPrim true p path s = .error (.value path p.name x, s') →
      readPrim false p path s = .ok (.int p.name x,
        emitW (.value path p.name x) (emitM ⟨path, .named p.name false, some x, p.name, p.size⟩ s'))) := by
  unfold readPrim
  constructor
  · intro v s' h
    cases hb : bytesParsed path p.size s with
    | error e => simp [hb, R.bind] at h
    | ok as =>
      obtain ⟨u, s1⟩ := as
      simp only [hb, R.bind_ok] at h ⊢
      cases ht : take p.size s1 with
      | error e => simp [ht, R.bind] at h
      | ok bs =>
        obtain ⟨bs, s2⟩ := bs
        simp only [ht, R.bind_ok] at h ⊢
        by_cases hv : p.isValid (p.ofBytes bs) = true
        · simpa [hv] using h
        · simp [hv] at h
  · intro x s' h
    cases hb : bytesParsed path p.size s with
    | error e =>
      obtain ⟨e, se⟩ := e
      simp only [hb, R.bind_error, Except.error.injEq, Prod.mk.injEq] at h
      -- a value error cannot come out of bytes_parsed
      unfold bytesParsed at hb
      exact absurd h.1 (by
        intro hval
        have := bpGo_no_value path p.size s.scs [] s e se hb
        exact this _ _ _ hval)
    | ok as =>
      obtain ⟨u, s1⟩ := as
      simp only [hb, R.bind_ok] at h ⊢
      cases ht : take p.size s1 with
      | error e =>
        obtain ⟨e, se⟩ := e
        simp only [ht, R.bind_error, Except.error.injEq, Prod.mk.injEq] at h
        unfold take at ht
        split at ht
        · simp only [Except.error.injEq, Prod.mk.injEq] at ht
          rw [← ht.1] at h; simp at h
        · simp at ht
      | ok bs =>
        obtain ⟨bs, s2⟩ := bs
        simp only [ht, R.bind_ok] at h ⊢
        by_cases hv : p.isValid (p.ofBytes bs) = true
        · simp [hv] at h
        · simp only [hv, Bool.false_eq_true, if_false, if_true, Except.error.injEq, Prod.mk.injEq, Err.value.injEq, true_and] at h
          obtain ⟨hx, hs⟩ := h
          subst hx hs
          simp [hv]
where
  bpGo_no_value (path : Path) (size : Nat) : ∀ (todo done : List SC) (s : St) (e : Err) (se : St),
      bpGo path size done todo s = .error (e, se) → ∀ p t x, e ≠ .value p t x := by
    intro todo
    induction todo with
    | nil => intro done s e se h; simp [bpGo] at h
    | cons c rest ih =>
      intro done s e se h
      unfold bpGo at h
      split at h
      · simp only [] at h
        have hdep : ∀ (n : Nat) (st : St) (e2 : Err) (s2 : St), consume n st = .error (e2, s2) → e2 = .depleted := by
          intro n st e2 s2 hc
          unfold consume take at hc
          split at hc
          · simp only [R.bind_error, Except.error.injEq, Prod.mk.injEq] at hc; exact hc.1.symm
          · simp [R.bind] at hc
        revert h
        generalize hr : consume _ _ = r
        cases r with
        | error e2 =>
          obtain ⟨e2, s2⟩ := e2
          have := hdep _ _ _ _ hr
          subst this
          simp only [R.bind_error, Except.error.injEq, Prod.mk.injEq]
          rintro ⟨rfl, _⟩ p t x hval
          simp at hval
        | ok a =>
          obtain ⟨a, s2⟩ := a
          simp only [R.bind_ok, Except.error.injEq, Prod.mk.injEq]
          rintro ⟨rfl, _⟩ p t x hval
          simp at hval
      · exact ih _ _ _ _ h

/-! ## whole runs: every layout, every top (type / command / response / stream), EVERY input -/

/-- **strict succeeds ⇒ warn mode does exactly the same**: whenever the strict walker finishes without an error (the
input is then accepted, or reported as superfluous, or a stream ends cleanly), the warn-mode run is identical — the
same events with the same pull counts, the same outcome, no warning -/
theorem c07_strict_ok (tb : MsgTables) (top : Top) (x : List Byte) (v : Val) (t : St)
    (h : runWalker true tb top x = .ok (v, t)) : marshalRun false tb top x = marshalRun true tb top x := by
  have hrel := runWalker_mrel tb top x
  rw [h] at hrel
  simp only [MRel] at hrel
  simp only [marshalRun, h, hrel]

/-- **up to the first problem**: if strict mode raises a constraint error `e` after the trace `t.out`, then warn mode
either raises the very same error in the same state (the two errors it cannot continue after: a command code without
layouts, a selector without union member) or its trace is `t.out`, then — for a value error — the offending event,
then the warning carrying exactly `e`, then whatever follows.  `t.out` contains no warning (`c07_strict_no_warning`),
so that warning is warn mode's first. -/
theorem c07_first_problem (tb : MsgTables) (top : Top) (x : List Byte) (e : Err) (t : St)
    (h : runWalker true tb top x = .error (e, t)) (hp : e.isProblem = true) :
    runWalker false tb top x = .error (e, t) ∨ FirstW e t (stOf (runWalker false tb top x)).out := by
  have hrel := runWalker_mrel tb top x
  rw [h] at hrel
  simp only [MRel] at hrel
  rcases hrel with hrel | ⟨_, hrel⟩
  · exact Or.inl hrel
  · exact Or.inr hrel

/-- strict mode's other ways to stop — input depleted, internal error — are warn mode's too, in the same state -/
theorem c07_same_stop (tb : MsgTables) (top : Top) (x : List Byte) (e : Err) (t : St)
    (h : runWalker true tb top x = .error (e, t)) (hp : e.isProblem = false) :
    runWalker false tb top x = .error (e, t) := by
  have hrel := runWalker_mrel tb top x
  rw [h] at hrel
  simp only [MRel] at hrel
  rcases hrel with hrel | ⟨hp', _⟩
  · exact hrel
  · rw [hp] at hp'; cases hp'

/-- strict mode never emits a warning -/
theorem c07_strict_no_warning (tb : MsgTables) (top : Top) (x : List Byte) :
    ∀ ke ∈ (stOf (runWalker true tb top x)).out, ke.2.isMarshal = true := runWalker_nw tb top x

/-- **no warning ⇒ strict accepts**: if the warn-mode walker finishes without an error and its trace contains no
warning, the strict walker finishes with the same result -/
theorem c07_no_warning (tb : MsgTables) (top : Top) (x : List Byte) (v : Val) (t : St)
    (h : runWalker false tb top x = .ok (v, t)) (hnw : ∀ ke ∈ t.out, ke.2.isMarshal = true) :
    runWalker true tb top x = .ok (v, t) := by
  have hrel := runWalker_mrel tb top x
  cases hs : runWalker true tb top x with
  | ok vs =>
    obtain ⟨v', t'⟩ := vs
    rw [hs] at hrel
    simp only [MRel] at hrel
    rw [h] at hrel
    exact hrel.symm ▸ rfl
  | error es =>
    obtain ⟨e, t'⟩ := es
    rw [hs] at hrel
    simp only [MRel] at hrel
    rcases hrel with hrel | ⟨_, hw⟩
    · rw [h] at hrel; cases hrel
    · rw [h] at hw
      simp only [stOf] at hw
      exfalso
      rcases hw with ⟨rest, hw⟩ | ⟨ev, xx, rest, hw, _, _⟩
      · have := hnw (t'.pos, .warning e) (by rw [hw]; simp)
        simp [Event.isMarshal] at this
      · have := hnw (t'.pos, .warning e) (by rw [hw]; simp)
        simp [Event.isMarshal] at this

end C07
