import TpmProofs.EndsOk
import TpmProofs.Props.C14S
/-!
# C14 — every byte buffer of every decoder stream is ONE row (either mode, every input)

`c14_buffers_are_blocks` (Props/C14R.lean) needs `endsOk`: no list's run is ended by a byte-buffer parent.  Until session 3 that
hypothesis was evaluated on every stream of every run; here it is a theorem about the decoder (`TpmProofs/EndsOk.lean`,
`runWalker_endsOk`) for every layout table meeting a static condition that the kernel decides on the regenerated tables
(`c14_ends_tables`): a `list[BYTE]` field is directly preceded by a plain primitive field of its structure, is not the first field
of a list element, and no union with a byte-array member is a list element.
-/

namespace C14

theorem endsOk_prefix : ∀ (A B : List Event), endsOk (A ++ B) = true → endsOk A = true
  | [], _, _ => rfl
  | .warning _ :: A, B, h => by
    simp only [List.cons_append, endsOk] at h ⊢
    exact endsOk_prefix A B h
  | .marshal p :: A, B, h => by
    simp only [List.cons_append, endsOk, Bool.and_eq_true] at h ⊢
    refine ⟨?_, endsOk_prefix A B h.2⟩
    have h1 := h.1
    by_cases hl : isListParent p = true
    · simp only [hl, if_true] at h1 ⊢
      rw [firstNonChild_append] at h1
      cases hf : firstNonChild p.path A with
      | some c => simpa [hf] using h1
      | none => rfl
    · simp [hl]

/-- the (kernel-checked) static condition on the regenerated tables -/
theorem c14_ends_tables : Generated.msgTables.eoOk = true ∧ Generated.allTypes.all Ty.eoOk = true := by
  constructor <;> decide +kernel

/-- **for every layout table meeting the side conditions, every top-level decode, either mode and EVERY input: in the event stream a
consumer sees, no list's run is ended by a byte-buffer parent** -/
theorem decoder_endsOk (env : PrintEnv) (abort : Bool) (tb : MsgTables)
    (h : tb.shapeOk (fun p => (env.prim p.name).isSome) = true) (he : tb.eoOk = true) (top : Top)
    (htop : ∀ t, top = .ty t → t.shapeOk (fun p => (env.prim p.name).isSome) = true ∧ t.eoOk = true) (x : List Byte) :
    endsOk (streamOf abort (marshalRun abort tb top x)) = true := by
  have hpk : PrimLink abort (fun p => (env.prim p.name).isSome) (fun m => (env.prim m.vclass).isSome = true) :=
    fun p hp σ x _ => hp
  obtain ⟨new, ho, heo⟩ := runWalker_endsOk abort hpk tb h he top htop x
  simp only [initSt, List.nil_append] at ho
  obtain ⟨suffix, hsplit⟩ := run_evs_prefix abort tb top x
  rw [ho] at hsplit
  have hk : endsOk ((marshalRun abort tb top x).events.map (·.2)) = true :=
    endsOk_prefix _ suffix (by rw [hsplit]; exact heo)
  have hW : GW (if abort then [] else match (marshalRun abort tb top x).outcome with
      | .depleted => [Event.warning .depleted]
      | .superfluous _ _ => [Event.warning .depleted]
      | _ => []) := by
    split
    · exact GW.nil
    · split <;> first | exact GW.cons_w _ GW.nil | exact GW.nil
  unfold streamOf
  exact endsOk_append_gw _ _ hk hW

/-- **C14 (every byte buffer is one row), for the decoder's streams**: for every layout of `/repo` (and the command, response and
stream decoders), either mode and EVERY byte string, in the blocks the pretty printer forms from the decoded stream the events shown
on their own are never byte-buffer parents: every byte buffer heads a buffer block, i.e. is one row holding all its bytes -/
theorem c14_decoder_buffers (abort : Bool) (top : Top) (htop : ∀ t, top = .ty t → t ∈ Generated.allTypes) (x : List Byte) :
    ∀ b ∈ blocksOf (streamOf abort (marshalRun abort Generated.msgTables top x)), ∀ m, b = .plain m → isBufParent m = false :=
  c14_buffers_are_blocks _ (decoder_endsOk tableEnv abort Generated.msgTables c14_shape_tables.1 c14_ends_tables.1 top
    (fun t ht => ⟨List.all_eq_true.mp c14_shape_tables.2 t (htop t ht), List.all_eq_true.mp c14_ends_tables.2 t (htop t ht)⟩) x)

/-- everything the driver's `K` line reports (`shownB`) is a theorem for decoder streams -/
theorem c14_decoder_shown (abort : Bool) (top : Top) (htop : ∀ t, top = .ty t → t ∈ Generated.allTypes) (x : List Byte) :
    shownB tableEnv (streamOf abort (marshalRun abort Generated.msgTables top x)) = true := by
  unfold shownB
  rw [decoder_shaped tableEnv abort Generated.msgTables c14_shape_tables.1 top
    (fun t ht => List.all_eq_true.mp c14_shape_tables.2 t (htop t ht)) x]
  exact decoder_endsOk tableEnv abort Generated.msgTables c14_shape_tables.1 c14_ends_tables.1 top
    (fun t ht => ⟨List.all_eq_true.mp c14_shape_tables.2 t (htop t ht), List.all_eq_true.mp c14_ends_tables.2 t (htop t ht)⟩) x

private def pr (n : String) (k : Nat) : Prim := { (default : Prim) with name := n, size := k }

/-- the static condition is not vacuous: a layout it rules out — a list of bytes directly after a list of integers — and one it
accepts (`TPMS_PCR_SELECTION`-like: hash, sizeofSelect, pcrSelect) -/
example :
    (Ty.struct "X" false (.cons "n" .plain (.prim (pr "UINT8" 1)) (.cons "a" .counted (.prim (pr "UINT8" 1))
      (.cons "b" .counted (.prim (pr "BYTE" 1)) .nil)))).eoOk = false ∧
    (Ty.struct "Y" false (.cons "hash" .plain (.prim (pr "UINT16" 2)) (.cons "sizeofSelect" .plain (.prim (pr "UINT8" 1))
      (.cons "pcrSelect" .counted (.prim (pr "BYTE" 1)) .nil)))).eoOk = true := by
  decide +kernel

end C14
