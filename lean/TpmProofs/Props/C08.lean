import TpmProofs.PumpFacts
import TpmProofs.Props.C07
import TpmProofs.Props.C06
import TpmProofs.DecodeOk
/-!
# C08 — warn mode reports problems as warnings and keeps decoding

Proved here: the two recovery steps do what the statement says (skip exactly to the end the violated size
field declares; pad exactly to it).  The whole-run statements are monitored (see the check).
-/
namespace C08

/-- overrun: when a field of width `size` would cross the end of region `c` (`already + size > max`),
the walker consumes exactly the `max - already` bytes that remain of the region — decoding resumes at the
end the size field declares — and reports `exceeded` naming the region, its limit, the bytes counted so far,
the violator and the excess; the enclosing regions (`done`, already charged `size`) end up charged exactly
the consumed bytes, and the regions nested in `c` (`rest`) end with it -/
theorem c08_skip_exceeded (path : Path) (size : Nat) (c : SC) (rest done : List SC) (s : St) (m : Nat)
    (hm : c.max = some m) (hover : m < c.already + size) (hlen : m - c.already ≤ s.inp.length) :
    bpGo path size done (c :: rest) s =
      .error (.exceeded c.id c.path m c.already path (c.already + size - m),
        { s with scs := done.map (fun d => { d with already := d.already - (size - (m - c.already)) }),
                 inp := s.inp.drop (m - c.already), pos := s.pos + (m - c.already) }) := by
  have ho : c.over size = true := by simp [SC.over, hm, hover]
  have hnlt : ¬ (s.inp.length < m - c.already) := by omega
  simp [bpGo, ho, hm, consume, take, hnlt, R.bind]

/-- shortfall: when a region ends short (`already < max`), warn mode reports `subceeded`, charges the
`max - already` bytes of padding to the enclosing regions (here: they have room) and consumes exactly
those bytes — decoding resumes at the end the size field declares -/
theorem c08_pad_subceeded (c : SC) (s : St) (m : Nat) (hm : c.max = some m) (hlt : c.already < m)
    (hlen : m - c.already ≤ s.inp.length) (hroom : Room s.scs (m - c.already)) :
    assertDoneSC false c s =
      .ok ((), { s with out := s.out ++ [(s.pos, .warning (.subceeded c.id c.path m c.already))],
                        inp := s.inp.drop (m - c.already), pos := s.pos + (m - c.already),
                        scs := bump s.scs (m - c.already) }) := by
  have hne : c.already ≠ m := by omega
  have hnlt : ¬ (s.inp.length < m - c.already) := by omega
  have hb := bytesParsed_ok c.path (m - c.already) s.inp s.pos
    (s.out ++ [(s.pos, .warning (.subceeded c.id c.path m c.already))]) s.scs hroom
  simp [assertDoneSC, hm, hne, hlt, emitW, emit, hb, consume, take, hnlt, R.bind]

end C08
