import TpmProofs.PumpFacts
import TpmProofs.Props.MsgWF
import TpmProofs.TruncPump
/-!
# C10 — decoding is incremental: one byte of look-ahead, prefix-stable, source-agnostic
-/
namespace C10

/-- **look-ahead** (stronger than stated: every input, not only well-formed ones and their prefixes):
whenever strict decoding emits an event it has pulled at most one byte beyond the bytes of the fields
emitted so far. -/
theorem c10_lookahead (tb : MsgTables) (top : Top) (x : List Byte)
    (pre : List (Nat × Event)) (pe : Nat × Event) (post : List (Nat × Event))
    (h : (marshalRun true tb top x).events = pre ++ pe :: post) :
    pe.1 ≤ (evsBytes ((pre ++ [pe]).map (·.2))).length + 1 := lookahead_facts tb top x pre pe post h

/-- the pump never pulls more than the input holds -/
theorem c10_pulls_bounded (isStream : Bool) (len : Nat) : ∀ (out acc : List (Nat × Event)) (cc : Option Int),
    (∀ ke ∈ acc, ke.1 ≤ len) → ∀ ke ∈ (pumpEvents isStream len out acc cc).1, ke.1 ≤ len := by
  intro out
  induction out with
  | nil => intro acc cc h; simpa [pumpEvents] using h
  | cons x rest ih =>
    intro acc cc h
    obtain ⟨k, e⟩ := x
    unfold pumpEvents
    split
    · exact h
    · apply ih
      intro ke hke
      simp only [List.mem_append, List.mem_singleton] at hke
      rcases hke with hke | rfl
      · exact h ke hke
      · exact Nat.min_le_right _ _

/-- **source independence**: the pump uses its byte source only through `next`; a source is a state
machine `next : σ → Option (Byte × σ)`, and draining it gives the list the decode is a function of. -/
def drain {σ : Type} (next : σ → Option (Byte × σ)) : Nat → σ → List Byte
  | 0, _ => []
  | fuel+1, s => match next s with
    | none => []
    | some (b, s') => b :: drain next fuel s'

/-- decoding from any source = decoding the list of bytes it yields (by definition of the model's
`marshalSrc`; the content is that nothing else of the source is observable) -/
def marshalSrc {σ : Type} (abort : Bool) (tb : MsgTables) (top : Top) (next : σ → Option (Byte × σ)) (fuel : Nat) (s : σ) : Run :=
  marshalRun abort tb top (drain next fuel s)

theorem c10_source {σ τ : Type} (abort : Bool) (tb : MsgTables) (top : Top)
    (n1 : σ → Option (Byte × σ)) (n2 : τ → Option (Byte × τ)) (f1 f2 : Nat) (s1 : σ) (s2 : τ)
    (h : drain n1 f1 s1 = drain n2 f2 s2) :
    marshalSrc abort tb top n1 f1 s1 = marshalSrc abort tb top n2 f2 s2 := by
  unfold marshalSrc; rw [h]

/-- **prefix stability**, every input: the events shown while decoding the first `k` bytes of `x` are a prefix of the
events shown while decoding `x` — a consumer that has seen the events for a prefix never has to retract one when
more bytes arrive (pull counts aside; everything but the stream loop, which looks at the end of the input) -/
theorem c10_prefix_stable (tb : MsgTables) (top : Top) (hs : top.isStream = false) (x : List Byte) (k : Nat) :
    (marshalRun true tb top (x.take k)).evs <+: (marshalRun true tb top x).evs :=
  prefix_stable tb top hs x k

/-- … and they are exactly the events of the fields complete within the prefix -/
theorem c10_prefix_exact (tb : MsgTables) (top : Top) (hs : top.isStream = false) (x : List Byte) (k : Nat)
    (hk : k < consumed tb top x) :
    (marshalRun true tb top (x.take k)).evs = ((traceOf tb top x).filter fun ke => ke.1 ≤ k).map (·.2) := by
  rw [truncated_run tb top hs x k hk]
  simp [Run.evs, shown, List.map_map, Function.comp_def]

end C10
