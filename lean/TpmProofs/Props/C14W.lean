import TpmProofs.Props.C14
/-!
# C14: every warning is shown as exactly one row, in order

The pretty printer numbers the info rows by the position of their warning among the warnings of the stream; whenever it
returns rows, the info rows are exactly `0, 1, …, n-1` in this order, `n` the number of warnings — also for warnings that
arrive while a byte buffer is being folded (they are shown right after the buffer's row, still in order).
-/
namespace C14

def infoIdx (rows : List Row) : List Nat :=
  rows.filterMap fun r => match r with
    | .info k => some k
    | .field .. => none

def nWarn (evs : List Event) : Nat :=
  evs.countP fun e => match e with
    | .warning _ => true
    | .marshal _ => false

theorem infoIdx_append (a b : List Row) : infoIdx (a ++ b) = infoIdx a ++ infoIdx b := by simp [infoIdx]
theorem infoIdx_field (t : String) (d : Nat) (n : String) (h : List Byte) (v : String) (rs : List Row) :
    infoIdx (.field t d n h v :: rs) = infoIdx rs := by simp [infoIdx]
theorem infoIdx_info (k : Nat) (rs : List Row) : infoIdx (.info k :: rs) = k :: infoIdx rs := by simp [infoIdx]
theorem nWarn_append (a b : List Event) : nWarn (a ++ b) = nWarn a + nWarn b := by simp [nWarn]
theorem nWarn_nxtL (n : Option MEvent) : nWarn (nxtL n) = 0 := by cases n <;> simp [nWarn, nxtL]

theorem prettyRow_noinfo {env : PrintEnv} {m : MEvent} {r : Row} (h : prettyRow env m = .ok r) : infoIdx [r] = [] := by
  unfold prettyRow at h
  cases hb : eventBytes env m with
  | error e => simp [hb, Except.map] at h
  | ok bs =>
    simp only [hb, Except.map, Except.ok.injEq] at h
    subst h
    rfl

theorem attrRows_noinfo (env : PrintEnv) (m : MEvent) : infoIdx (attrRows env m) = [] := by
  unfold attrRows
  split
  · simp [infoIdx, List.filterMap_map]
  · rfl

theorem foldBytes_info (env : PrintEnv) (parent : MEvent) : ∀ (evs : List Event) (k : Nat) (buf : List Byte)
    (infos rows : List Row) (nxt : Option MEvent) (rest : List Event) (k' : Nat),
    foldBytes env parent evs k buf infos = .ok (rows, nxt, rest, k') →
    ∃ consumed, evs = consumed ++ nxtL nxt ++ rest ∧ k' = k + nWarn consumed ∧
      infoIdx rows = infoIdx infos.reverse ++ List.range' k (nWarn consumed) := by
  intro evs
  induction evs with
  | nil =>
    intro k buf infos rows nxt rest k' h
    simp only [foldBytes, Except.ok.injEq, Prod.mk.injEq] at h
    obtain ⟨rfl, rfl, rfl, rfl⟩ := h
    exact ⟨[], by simp [nxtL], by simp [nWarn], by simp [infoIdx_field, nWarn]⟩
  | cons e evs ih =>
    intro k buf infos rows nxt rest k' h
    cases e with
    | warning w =>
      simp only [foldBytes] at h
      obtain ⟨consumed, h1, h2, h3⟩ := ih _ _ _ _ _ _ _ h
      refine ⟨.warning w :: consumed, by simp [h1], by simp [nWarn] at h2 ⊢; omega, ?_⟩
      rw [h3]
      have : nWarn (Event.warning w :: consumed) = nWarn consumed + 1 := by simp [nWarn]
      rw [this, List.reverse_cons, infoIdx_append, List.append_assoc]
      congr 1
    | marshal c =>
      simp only [foldBytes] at h
      split at h
      · cases hb : eventBytes env c with
        | error e => simp [hb] at h
        | ok bs =>
          cases hv : c.val with
          | none => simp [hb, hv] at h
          | some x =>
            simp only [hb, hv] at h
            obtain ⟨consumed, h1, h2, h3⟩ := ih _ _ _ _ _ _ _ h
            exact ⟨.marshal c :: consumed, by simp [h1], by simp [nWarn] at h2 ⊢; exact h2, by
              rw [h3]; simp [nWarn]⟩
      · simp only [Except.ok.injEq, Prod.mk.injEq] at h
        obtain ⟨rfl, rfl, rfl, rfl⟩ := h
        exact ⟨[], by simp [nxtL], by simp [nWarn], by simp [infoIdx_field, nWarn]⟩

theorem foldElems_info (env : PrintEnv) (parent : MEvent) : ∀ (evs : List Event) (k : Nat) (isEmpty : Bool)
    (acc rows : List Row) (nxt : Option MEvent) (rest : List Event) (k' : Nat),
    foldElems env parent evs k isEmpty acc = .ok (rows, nxt, rest, k') →
    ∃ consumed, evs = consumed ++ nxtL nxt ++ rest ∧ k' = k + nWarn consumed ∧
      infoIdx rows = infoIdx acc.reverse ++ List.range' k (nWarn consumed) := by
  intro evs
  induction evs with
  | nil =>
    intro k isEmpty acc rows nxt rest k' h
    simp only [foldElems] at h
    split at h
    · cases hr : prettyRow env parent with
      | error e => simp [hr, Except.map] at h
      | ok r =>
        simp only [hr, Except.map, Except.ok.injEq, Prod.mk.injEq] at h
        obtain ⟨rfl, rfl, rfl, rfl⟩ := h
        refine ⟨[], by simp [nxtL], by simp [nWarn], ?_⟩
        have := prettyRow_noinfo hr
        simp only [List.reverse_cons, infoIdx_append, this, nWarn, List.countP_nil, List.range'_zero, List.append_nil]
    · simp only [Except.ok.injEq, Prod.mk.injEq] at h
      obtain ⟨rfl, rfl, rfl, rfl⟩ := h
      exact ⟨[], by simp [nxtL], by simp [nWarn], by simp [nWarn]⟩
  | cons e evs ih =>
    intro k isEmpty acc rows nxt rest k' h
    cases e with
    | warning w =>
      simp only [foldElems] at h
      obtain ⟨consumed, h1, h2, h3⟩ := ih _ _ _ _ _ _ _ h
      refine ⟨.warning w :: consumed, by simp [h1], by simp [nWarn] at h2 ⊢; omega, ?_⟩
      rw [h3]
      have : nWarn (Event.warning w :: consumed) = nWarn consumed + 1 := by simp [nWarn]
      rw [this, List.reverse_cons, infoIdx_append, List.append_assoc]
      congr 1
    | marshal c =>
      simp only [foldElems] at h
      split at h
      · cases hr : prettyRow env c with
        | error e => simp [hr] at h
        | ok r =>
          simp only [hr] at h
          obtain ⟨consumed, h1, h2, h3⟩ := ih _ _ _ _ _ _ _ h
          refine ⟨.marshal c :: consumed, by simp [h1], by simp [nWarn] at h2 ⊢; exact h2, ?_⟩
          rw [h3]
          have := prettyRow_noinfo hr
          simp only [List.reverse_cons, infoIdx_append, this, List.append_nil]
          simp [nWarn]
      · split at h
        · cases hr : prettyRow env parent with
          | error e => simp [hr, Except.map] at h
          | ok r =>
            simp only [hr, Except.map, Except.ok.injEq, Prod.mk.injEq] at h
            obtain ⟨rfl, rfl, rfl, rfl⟩ := h
            refine ⟨[], by simp [nxtL], by simp [nWarn], ?_⟩
            have := prettyRow_noinfo hr
            simp only [List.reverse_cons, infoIdx_append, this, nWarn, List.countP_nil, List.range'_zero, List.append_nil]
        · simp only [Except.ok.injEq, Prod.mk.injEq] at h
          obtain ⟨rfl, rfl, rfl, rfl⟩ := h
          exact ⟨[], by simp [nxtL], by simp [nWarn], by simp [nWarn]⟩

theorem range'_append' (k a b : Nat) : List.range' k a ++ List.range' (k + a) b = List.range' k (a + b) := by
  simp

theorem prettyGo_info (env : PrintEnv) : ∀ (fuel : Nat) (evs : List Event) (k : Nat) (rows : List Row),
    prettyGo env fuel evs k = .ok rows → infoIdx rows = List.range' k (nWarn evs) := by
  intro fuel
  induction fuel with
  | zero => intro evs k rows h; simp [prettyGo] at h
  | succ n ih =>
    intro evs k rows h
    cases evs with
    | nil =>
      simp only [prettyGo, Except.ok.injEq] at h
      subst h; simp [infoIdx, nWarn]
    | cons e rest =>
      cases e with
      | warning w =>
        simp only [prettyGo] at h
        cases hg : prettyGo env n rest (k + 1) with
        | error e => simp [hg, Except.map] at h
        | ok rs =>
          simp only [hg, Except.map, Except.ok.injEq] at h
          subst h
          rw [infoIdx_info, ih rest (k + 1) rs hg]
          have : nWarn (Event.warning w :: rest) = nWarn rest + 1 := by simp [nWarn]
          rw [this, List.range'_succ]
      | marshal m =>
        simp only [prettyGo] at h
        split at h
        · -- list parent
          rename_i hlp
          cases hf : foldList env m rest k with
          | error e => simp [hf] at h
          | ok res =>
            obtain ⟨frows, nxt, rest', k'⟩ := res
            have hinfo : ∃ consumed, rest = consumed ++ nxtL nxt ++ rest' ∧ k' = k + nWarn consumed ∧
                infoIdx frows = List.range' k (nWarn consumed) := by
              unfold foldList at hf
              split at hf
              · obtain ⟨c, h1, h2, h3⟩ := foldBytes_info env m rest k [] [] frows nxt rest' k' hf
                exact ⟨c, h1, h2, by simpa [infoIdx] using h3⟩
              · obtain ⟨c, h1, h2, h3⟩ := foldElems_info env m rest k true [] frows nxt rest' k' hf
                exact ⟨c, h1, h2, by simpa [infoIdx] using h3⟩
            obtain ⟨consumed, h1, h2, h3⟩ := hinfo
            have hw : nWarn (Event.marshal m :: rest) = nWarn consumed + nWarn rest' := by
              rw [h1]; simp [nWarn, nxtL]
              cases nxt <;> simp [nxtL]
            simp only [hf] at h
            cases nxt with
            | none =>
              simp only [Except.ok.injEq] at h
              subst h
              have hr' : rest' = [] := by
                unfold foldList at hf
                split at hf
                · obtain ⟨c, _, _, _, h4⟩ := foldBytes_hex env m rest k [] [] frows none rest' k' (by intro r hr; cases hr) hf
                  exact h4 rfl
                · obtain ⟨c, _, _, _, h4⟩ := foldElems_hex env m hlp rest k true [] frows none rest' k' hf
                  exact h4 rfl
              rw [h3, hw, hr']; simp [nWarn]
            | some c =>
              simp only [] at h
              cases hrw : prettyRow env c with
              | error e => simp [hrw] at h
              | ok r =>
                cases hg : prettyGo env n rest' k' with
                | error e => simp [hrw, hg, Except.map] at h
                | ok rs =>
                  simp only [hrw, hg, Except.map, Except.ok.injEq] at h
                  subst h
                  have hattr : infoIdx (if hasAttrs env c then attrRows env c else []) = [] := by
                    split
                    · exact attrRows_noinfo env c
                    · rfl
                  rw [infoIdx_append, infoIdx_append, infoIdx_append, h3, prettyRow_noinfo hrw, hattr,
                    ih rest' k' rs hg, h2, hw]
                  simp only [List.append_nil]
                  exact range'_append' k _ _
        · cases hrw : prettyRow env m with
          | error e => simp [hrw] at h
          | ok r =>
            cases hg : prettyGo env n rest k with
            | error e => simp [hrw, hg, Except.map] at h
            | ok rs =>
              simp only [hrw, hg, Except.map, Except.ok.injEq] at h
              subst h
              have hattr : infoIdx (if hasAttrs env m then attrRows env m else []) = [] := by
                split
                · exact attrRows_noinfo env m
                · rfl
              rw [infoIdx_append, infoIdx_append, prettyRow_noinfo hrw, hattr, ih rest k rs hg]
              simp [nWarn]

/-- **C14 (warnings)**: whenever the pretty printer returns rows, its info rows are exactly `0, 1, …, n-1`, in this order, where
`n` is the number of warnings in the stream: every warning is shown exactly once, in event order -/
theorem c14_warnings_once (env : PrintEnv) (evs : List Event) (rows : List Row) (h : prettyRows env evs = .ok rows) :
    infoIdx rows = List.range (nWarn evs) := by
  have := prettyGo_info env _ evs 0 rows h
  rw [this, List.range_eq_range']

end C14
