import TpmProofs.WarnNC
import TpmProofs.Props.C06
import TpmProofs.Props.C08W
/-!
# C08 — warn mode never aborts with an internal error

`Props/C08W.lean` shows that no *size* error leaves a warn-mode decode; it left internal errors (the model's `crash`: an
AssertionError / TypeError / KeyError / IndexError / RuntimeError / NameError escaping from the package, or a loop that never
ends) as a possible outcome, excluded only by the monitor.  Here they are excluded by theorem (`TpmProofs/WarnNC.lean`), under the same
kernel-decided side conditions on the regenerated tables as for strict mode (`C06.c06_tables`, `C06.c06_msg_tables`):

* every non-union layout of /repo, EVERY byte string: the warn-mode decode never ends in an internal error;
* commands: likewise;
* responses — ANY command code (also none, also one without layouts), either flag — and streams: the only internal error is
  the `assert` that compares the caller's response-encryption flag with the response's own session attributes (the known finding,
  which strict mode shares).

The proof characterises the state after every successful warn-mode step directly (strict mode gets it from soundness; warn mode
accepts non-conforming input): the regions found are left, each charged exactly the bytes consumed — across reported overruns
(the skipped tail is charged to the enclosing regions), shortfalls (the padding is charged) and bad values — so `assert_done`
always finds its region, the session loop's bound is never hit (each completed session is charged ≥ 1 byte to its region),
and the stream loop terminates (`pos + |inp|` is conserved, each message consumes ≥ 1 byte); sessions decoded in warn mode still
carry the attribute word `is_parameter_encryption` looks up; an abandoned session area is `None`.

Together with `c08_no_escape_*`: whatever leaves a warn-mode decode is `depleted` (shown as the final warning), one of the two
value errors after which the layout is unknowable, or that one assertion.
-/
namespace C08

/-- a crash outcome can only come from a crash of the walker (either mode) -/
theorem crash_from_walker (abort : Bool) (tb : MsgTables) (top : Top) (x : List Byte) (c m : String)
    (h : (marshalRun abort tb top x).outcome = .crash c m) : ∃ s, runWalker abort tb top x = .error (.crash c m, s) := by
  unfold marshalRun pump at h
  simp only [] at h
  split at h
  · cases h
  · cases hw : runWalker abort tb top x with
    | ok vs =>
      obtain ⟨v, s⟩ := vs
      rw [hw] at h
      have : pumpOutcome x s.pos (.ok v) = .crash c m := h
      unfold pumpOutcome at this
      simp only [] at this
      split at this <;> cases this
    | error es =>
      obtain ⟨e, s⟩ := es
      rw [hw] at h
      have h' : pumpOutcome x s.pos (.error e) = .crash c m := h
      cases e with
      | crash c' m' =>
        simp only [pumpOutcome, Outcome.crash.injEq] at h'
        obtain ⟨rfl, rfl⟩ := h'
        exact ⟨s, rfl⟩
      | depleted => simp [pumpOutcome] at h'
      | exceeded => simp [pumpOutcome] at h'
      | anticipated => simp [pumpOutcome] at h'
      | subceeded => simp [pumpOutcome] at h'
      | value => simp [pumpOutcome] at h'
      | valueNone => simp [pumpOutcome] at h'

/-- **structures**: for every non-union layout of /repo and EVERY byte string, the warn-mode decode never ends in an internal error -/
theorem c08_warn_no_crash_type (t : Ty) (ht : t ∈ Generated.allTypes) (hu : t.isUnion = false) (tb : MsgTables) (x : List Byte) :
    ∀ c m, (marshalRun false tb (.ty t) x).outcome ≠ .crash c m := by
  intro c m h
  have hmem : t ∈ Generated.allTypes.filter fun t => !t.isUnion := by simp [List.mem_filter, ht, hu]
  have := List.all_eq_true.mp C06.c06_tables t hmem
  simp only [Bool.and_eq_true] at this
  obtain ⟨⟨hwf, htot⟩, hok⟩ := this
  obtain ⟨s, hs⟩ := crash_from_walker _ _ _ _ _ _ h
  exact runWalker_ncw_ty tb t hwf htot hok x c m s hs

/-- **commands**: every byte string decoded as a command in warn mode — no internal error -/
theorem c08_warn_no_crash_command (x : List Byte) : ∀ c m, (marshalRun false Generated.msgTables .command x).outcome ≠ .crash c m := by
  intro c m h
  obtain ⟨s, hs⟩ := crash_from_walker _ _ _ _ _ _ h
  exact runWalker_ncw_command Generated.msgTables C06.c06_msg_tables.1 x c m s hs

/-- **responses** (any command code — also none, also one without layouts — and either flag) and **streams**: the only internal
error a warn-mode decode can end in is the known assertion -/
theorem c08_warn_crash_msg (top : Top) (hm : ∀ t, top ≠ .ty t) (x : List Byte) (c m : String)
    (h : (marshalRun false Generated.msgTables top x).outcome = .crash c m) : isMismatch c m := by
  obtain ⟨s, hs⟩ := crash_from_walker _ _ _ _ _ _ h
  exact runWalker_ncxw Generated.msgTables C06.c06_msg_tables.1 top (fun t ht => absurd ht (hm t)) x c m s hs

/-- **what can leave a warn-mode decode of a message at all** (commands, responses, streams; every input): a result
(`done`, `silent`, `superfluous`), `depleted`, one of the two value errors after which the layout is unknowable, or the known
assertion — nothing else -/
theorem c08_warn_outcomes (top : Top) (hm : ∀ t, top ≠ .ty t) (x : List Byte) :
    match (marshalRun false Generated.msgTables top x).outcome with
    | .raised e _ => e.isValueErr = true
    | .crash c m => isMismatch c m
    | _ => True := by
  cases h : (marshalRun false Generated.msgTables top x).outcome with
  | raised e rem => exact c08_no_escape_msg top hm x e rem h
  | crash c m => exact c08_warn_crash_msg top hm x c m h
  | _ => trivial

/-- non-vacuity of the side conditions: the tables have layouts and command codes to speak about -/
example : 0 < (Generated.allTypes.filter fun t => !t.isUnion).length ∧ 0 < Generated.msgTables.cmdHandles.length := by decide +kernel

end C08
