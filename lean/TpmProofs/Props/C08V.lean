import TpmProofs.ValueWarn
import TpmProofs.Props.C04
/-!
# C08 / C07 — in warn mode every out-of-range value is shown and then reported, directly and exactly once

For every layout of /repo, commands, responses (any command code, either flag), streams and EVERY input, the trace of the
warn-mode decode is *well annotated* (`Annot`, TpmProofs/ValueWarn.lean) with respect to the regenerated primitive table:
reading it from the left, it consists of structure events, field events whose value is in the declared set of the event's class,
field events whose value is not — each directly followed by the warning about exactly that field (same path, class, integer) —
and warnings of the other kinds.  Hence

* `c08_value_warning_follows_its_field`: a `ValueConstraintViolatedError` warning never stands anywhere but directly behind the
  event of the field it names, and that field's value really is outside the declared set;
* `c08_offending_field_is_warned`: a field event with a value outside the declared set of its class is always directly followed by
  its warning — "one warning directly after each offending event", at every position of every run, not only at the first problem
  (C07 proves the first).

Together with `C02.c02_warn_value_only` (a run that reports only such warnings re-encodes to the input) and `c08_tiling` (each
field's bytes are the next input bytes at the declared width) this is the value-only clause of C08, short of an equality with a
separately defined lenient interpreter: the fields shown are the input read field by field, every field is shown whether or not its
value is allowed, and the disallowed ones are marked one by one.
-/
namespace C08

/-- (tables) every primitive type any layout of /repo or the message framing mentions is the table's entry for its name -/
theorem c08_value_tables :
    Generated.msgTables.pk (kn C04.tablePrim) = true ∧ Generated.allTypes.all (Ty.pk (kn C04.tablePrim)) = true := by
  constructor <;> decide +kernel

/-- **the warn-mode trace is well annotated** -/
theorem c08_annotated (top : Top) (htop : ∀ t, top = .ty t → t ∈ Generated.allTypes) (x : List Byte) :
    Annot C04.tablePrim ((stOf (runWalker false Generated.msgTables top x)).out.map (·.2)) :=
  runWalker_vw Generated.msgTables c08_value_tables.1 top
    (fun t ht => List.all_eq_true.mp c08_value_tables.2 t (htop t ht)) x

/-- a value warning stands directly behind the event of the field it names; that field holds exactly the reported integer, and
the integer is outside the declared set of the field's class -/
theorem c08_value_warning_follows_its_field (top : Top) (htop : ∀ t, top = .ty t → t ∈ Generated.allTypes) (x : List Byte)
    (pre post : List Event) (pa : Path) (c : String) (v : Int)
    (h : (stOf (runWalker false Generated.msgTables top x)).out.map (·.2) = pre ++ .warning (.value pa c v) :: post) :
    ∃ pre' m p, pre = pre' ++ [.marshal m] ∧ m.path = pa ∧ m.vclass = c ∧ m.val = some v ∧
      C04.tablePrim c = some p ∧ p.isValid v = false :=
  (c08_annotated top htop x).warning_follows pre pa c v post h

/-- a field event whose value is outside the declared set of its class is directly followed by the warning about exactly it -/
theorem c08_offending_field_is_warned (top : Top) (htop : ∀ t, top = .ty t → t ∈ Generated.allTypes) (x : List Byte)
    (pre post : List Event) (m : MEvent) (v : Int) (p : Prim)
    (h : (stOf (runWalker false Generated.msgTables top x)).out.map (·.2) = pre ++ .marshal m :: post)
    (hv : m.val = some v) (hk : C04.tablePrim m.vclass = some p) (hb : p.isValid v = false) :
    ∃ post', post = .warning (.value m.path m.vclass v) :: post' :=
  (c08_annotated top htop x).offender_warned pre m v p post h hv hk hb

/-- not vacuous: a Startup command whose `startupType` is 0x42 — the warn-mode trace holds a value warning (kernel-evaluated) -/
example : ((stOf (runWalker false Generated.msgTables .command
      [0x80, 0x01, 0x00, 0x00, 0x00, 0x0c, 0x00, 0x00, 0x01, 0x44, 0x00, 0x42])).out.map (·.2)).any
    (fun e => match e with | .warning (.value _ _ 0x42) => true | _ => false) = true := by decide +kernel

end C08
