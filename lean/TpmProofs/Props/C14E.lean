import TpmProofs.Props.C14
import TpmProofs.Props.C01
import TpmModel.Generated.Prims
/-!
# C14: the totality theorem is not vacuous

The events of the `TPML_DIGEST_VALUES` example (a null arm and a SHA-1 arm whose 20 bytes are folded into one buffer row)
form a shaped stream over the regenerated primitive table, so `c14_total_b` applies and the printer returns rows.
-/
namespace C14

def tableEnv : PrintEnv :=
  { prim := fun n => Generated.allPrims.find? (·.name == n), rc := fun _ => none, rcRows := fun _ => [] }

def exampleStream : List Event :=
  match spec Generated.T_TPML_DIGEST_VALUES rootPath none C01.exampleDigests with
  | some (_, evs) => evs.map fun e => .marshal e.2
  | none => []

set_option maxRecDepth 100000 in
example : exampleStream.length = 30 ∧ (exampleStream.any fun e => match e with
      | .marshal m => decide (m.ty = .listOf "BYTE")
      | _ => false) = true ∧ shapedB tableEnv exampleStream = true := by decide +kernel

example : ∃ rows, prettyRows tableEnv exampleStream = .ok rows :=
  c14_total_b tableEnv exampleStream (by decide +kernel)

/-- a stream the hypothesis rules out: a byte-buffer parent directly followed by a child without a value -/
example : shapedB tableEnv [.marshal ⟨rootPath ++ [⟨"buffer", none⟩], .listOf "BYTE", none, "", 0⟩,
    .marshal ⟨rootPath ++ [⟨"buffer", some 0⟩], .named "X" false, none, "", 0⟩] = false := by decide +kernel

end C14
