import TpmModel.Front
import TpmModel.Generated.Misc
import TpmModel.Pinned.Misc
import TpmProofs.Props.C10
/-!
# C15 — hex, swtpm-log, pcapng and auto inputs decode like the bytes they carry

The front-ends only turn their input into a byte stream that is handed to `Binary.marshal`; by source
independence (C10) the events are then those of decoding the carried bytes.  So the statements here are
about the byte streams.
-/
namespace C15

/-! ### hex text -/

def nonWs (b : Byte) : Bool := !isWs b

theorem hexGo_filter : ∀ (s : List Byte) (st : Option Byte) (acc : List Byte),
    hexGo s st acc = hexGo (s.filter nonWs) st acc := by
  intro s
  induction s with
  | nil => intro st acc; rfl
  | cons b rest ih =>
    intro st acc
    by_cases hb : isWs b = true
    · have : (b :: rest).filter nonWs = rest.filter nonWs := by simp [nonWs, hb]
      rw [this, ← ih]
      cases st <;> simp [hexGo, hb]
    · have hb' : isWs b = false := by simpa using hb
      have : (b :: rest).filter nonWs = b :: rest.filter nonWs := by simp [nonWs, hb']
      rw [this]
      cases st with
      | none => simp only [hexGo, hb', Bool.false_eq_true, if_false]; exact ih _ _
      | some h =>
        simp only [hexGo, hb', Bool.false_eq_true, if_false]
        split
        · exact ih _ _
        · rfl

/-- **whitespace is irrelevant**: arbitrary ASCII whitespace before, between, inside and after pairs does
not change the result — the text decodes exactly like the text with all whitespace removed -/
theorem c15_hex_whitespace (s : List Byte) : hexParse s = hexParse (s.filter nonWs) := hexGo_filter s none []

/-- the strict reading of a whitespace-free text: pairs of hex digits -/
def pairs : List Byte → Option (List Byte)
  | [] => some []
  | [_] => none
  | h :: l :: rest =>
    match hexDigitVal h, hexDigitVal l, pairs rest with
    | some x, some y, some bs => some (UInt8.ofNat (x * 16 + y) :: bs)
    | _, _, _ => none

theorem hexGo_pairs : ∀ (n : Nat) (t : List Byte), t.length ≤ n → (∀ b ∈ t, isWs b = false) → ∀ (acc bs : List Byte),
    (hexGo t none acc = .ok bs ↔ ∃ ps, pairs t = some ps ∧ bs = acc.reverse ++ ps) := by
  intro n
  induction n with
  | zero =>
    intro t hl _ acc bs
    have : t = [] := List.eq_nil_of_length_eq_zero (by omega)
    subst this
    simp [hexGo, pairs, eq_comm]
  | succ n ih =>
    intro t hl hws acc bs
    match t with
    | [] => simp [hexGo, pairs, eq_comm]
    | [h] =>
      have := hws h (by simp)
      simp [hexGo, pairs, this]
    | h :: l :: rest =>
      have h1 := hws h (by simp)
      have h2 := hws l (by simp)
      have hr : ∀ b ∈ rest, isWs b = false := fun b hb => hws b (by simp [hb])
      simp only [hexGo, h1, h2, Bool.false_eq_true, if_false, pairs]
      cases hx : hexDigitVal h <;> cases hy : hexDigitVal l <;> simp only []
      · simp
      · simp
      · simp
      · rename_i x y
        rw [ih rest (by simp at hl; omega) hr]
        cases hp : pairs rest with
        | none => simp
        | some ps => simp [List.reverse_cons, List.append_assoc]

/-- **only hex pairs are accepted**: a text is decoded to `bs` exactly when, after removing whitespace, it is
a sequence of hex-digit pairs spelling `bs` (any letter case); anything else is a `ValueError` -/
theorem c15_hex_iff (s : List Byte) (bs : List Byte) :
    hexParse s = .ok bs ↔ pairs (s.filter nonWs) = some bs := by
  rw [c15_hex_whitespace]
  unfold hexParse
  have hws : ∀ b ∈ s.filter nonWs, isWs b = false := by
    intro b hb; have := (List.mem_filter.mp hb).2; simpa [nonWs] using this
  rw [hexGo_pairs _ _ (Nat.le_refl _) hws]
  simp [eq_comm]

/-- a hex text never yields anything but `ok` or `ValueError` -/
theorem c15_hex_total (s : List Byte) : (∃ bs, hexParse s = .ok bs) ∨ (∃ bs, hexParse s = .valueError bs) := by
  cases h : hexParse s with
  | ok bs => exact Or.inl ⟨bs, rfl⟩
  | valueError bs => exact Or.inr ⟨bs, rfl⟩

def hexChar (n : Nat) (upper : Bool) : Byte :=
  if n < 10 then UInt8.ofNat (48 + n) else if upper then UInt8.ofNat (55 + n) else UInt8.ofNat (87 + n)

theorem hexDigitVal_hexChar : ∀ (n : Nat), n < 16 → ∀ u, hexDigitVal (hexChar n u) = some n := by
  decide

/-- rendering of bytes as hex pairs with a free choice of letter case per digit -/
def renderPairs : List (Byte × Bool × Bool) → List Byte
  | [] => []
  | (b, u1, u2) :: rest => hexChar (b.toNat / 16) u1 :: hexChar (b.toNat % 16) u2 :: renderPairs rest

theorem pairs_render : ∀ items : List (Byte × Bool × Bool), pairs (renderPairs items) = some (items.map (·.1)) := by
  intro items
  induction items with
  | nil => rfl
  | cons it rest ih =>
    obtain ⟨b, u1, u2⟩ := it
    have hb := b.toNat_lt
    simp only [renderPairs, pairs, hexDigitVal_hexChar _ (show b.toNat / 16 < 16 by omega),
      hexDigitVal_hexChar _ (show b.toNat % 16 < 16 by omega), ih, List.map_cons]
    congr 2
    apply UInt8.toNat_inj.mp
    simp; omega

/-- **every rendering decodes to the bytes it carries**: any text whose whitespace-free content is the
pairwise rendering of `bs` (any letter case per digit, whitespace anywhere) decodes to `bs` -/
theorem c15_hex_render (s : List Byte) (items : List (Byte × Bool × Bool)) (h : s.filter nonWs = renderPairs items) :
    hexParse s = .ok (items.map (·.1)) := by
  rw [c15_hex_iff, h, pairs_render]

/-! ### pcapng payloads -/

/-- runt packets (fewer than 10 bytes, including empty ones) carry nothing -/
theorem c15_pcap_runt (p : List Byte) (h : p.length < 10) : trimPayload p = none := by simp [trimPayload, h]

/-- a packet whose own size field (bytes 2..6, big-endian) says `n` carries its first `n` bytes (all of it when
the size field equals its length) -/
theorem c15_pcap_trim (p : List Byte) (h : 10 ≤ p.length) :
    trimPayload p = some (p.take (fromBE ((p.drop 2).take 4))) := by
  have hn : ¬ p.length < 10 := by omega
  simp only [trimPayload, hn, if_false]
  split
  · rfl
  · rename_i heq
    have : fromBE ((p.drop 2).take 4) = p.length := by simpa using heq
    rw [this, List.take_length]

theorem c15_pcap_concat (ps : List (List Byte)) : pcapBytes ps = (ps.filterMap trimPayload).flatten := rfl

/-! ### auto-detection -/

theorem c15_auto (a b : Byte) (rest : List Byte) :
    autoDetect (a :: b :: rest) =
      some (if a = 0x0a ∧ b = 0x0d then .pcapng
            else if (hexDigitVal a).isSome ∧ (hexDigitVal b).isSome then .hex else .binary) := by
  unfold autoDetect
  by_cases h1 : a = 0x0a <;> by_cases h2 : b = 0x0d <;> simp [h1, h2] <;> split <;> rfl

/-- TPM messages start with 0x80 0x01 / 0x80 0x02: never mistaken for hex or pcapng -/
theorem c15_auto_binary (t : Byte) (rest : List Byte) : autoDetect (0x80 :: t :: rest) = some .binary := by
  unfold autoDetect; simp [hexDigitVal]

/-! ### swtpm log: constants -/

/-- (tables) the scanner's markers and alphabets are the pinned ones -/
theorem c15_swtpm_consts : Generated.swtpmConsts = Pinned.swtpmConsts ∧
    Generated.swtpmConsts.cmdMarker = [83, 87, 84, 80, 77, 95, 73, 79] ∧ Generated.swtpmConsts.ctrlMarker = [67, 116, 114, 108] ∧
    Generated.swtpmConsts.validHex = [48, 49, 50, 51, 52, 53, 54, 55, 56, 57, 65, 66, 67, 68, 69, 70] ∧
    Generated.swtpmConsts.validWs = [32, 13, 10] := ⟨rfl, rfl, rfl, rfl, rfl⟩

end C15

namespace C15
/-! ### swtpm log: the documented layout -/

/-- the scanner's constants as in the specification of the format -/
def std : SwtpmConsts :=
  ⟨[83, 87, 84, 80, 77, 95, 73, 79], [67, 116, 114, 108],
   [48, 49, 50, 51, 52, 53, 54, 55, 56, 57, 65, 66, 67, 68, 69, 70], [32, 13, 10]⟩

theorem std_eq : Generated.swtpmConsts = std := rfl

def upperHex (n : Nat) : Byte := if n < 10 then UInt8.ofNat (48 + n) else UInt8.ofNat (55 + n)

/-- payload: upper-case hex pairs, each preceded by any amount of blanks / CR / LF -/
def renderU : List (List Byte × Byte) → List Byte
  | [] => []
  | (ws, b) :: rest => ws ++ upperHex (b.toNat / 16) :: upperHex (b.toNat % 16) :: renderU rest

def wsOk (ws : List Byte) : Prop := ∀ b ∈ ws, b = 32 ∨ b = 13 ∨ b = 10

/-- free text is skipped while looking for the command marker -/
theorem skipText (text rest v acc : List Byte) (h : ∀ b ∈ text, b ≠ 83) :
    swGo std (text ++ rest) .wantMarker [] v acc = swGo std rest .wantMarker [] v acc := by
  induction text with
  | nil => rfl
  | cons b t ih =>
    have hb : b ≠ 83 := h b (by simp)
    have : ¬ ((83 : Byte) = b) := fun e => hb e.symm
    simp only [List.cons_append, swGo, std, List.length_nil, List.drop_zero, List.head?_cons, beq_iff_eq,
      Option.some.injEq, this, if_false]
    exact ih (fun c hc => h c (by simp [hc]))

theorem marker (rest v acc : List Byte) :
    swGo std ([83, 87, 84, 80, 77, 95, 73, 79] ++ rest) .wantMarker [] v acc = swGo std rest .wantStart [] v acc := by
  simp [swGo, std]

theorem markerTail (rest v acc : List Byte) :
    swGo std ([87, 84, 80, 77, 95, 73, 79] ++ rest) .wantMarker [83] v acc = swGo std rest .wantStart [] v acc := by
  simp [swGo, std]

theorem headerTail (tail rest m v acc : List Byte) (h : ∀ b ∈ tail, b ≠ 10) :
    swGo std (tail ++ 10 :: rest) .wantStart m v acc = swGo std rest .wantHigh m v acc := by
  induction tail with
  | nil => simp [swGo]
  | cons b t ih =>
    have hb : b ≠ 10 := h b (by simp)
    simp only [List.cons_append, swGo, beq_iff_eq, hb, if_false]
    exact ih (fun c hc => h c (by simp [hc]))

theorem skipWs (ws rest m acc : List Byte) (h : wsOk ws) :
    swGo std (ws ++ rest) .wantHigh m [] acc = swGo std rest .wantHigh m [] acc := by
  induction ws with
  | nil => rfl
  | cons b t ih =>
    have hb := h b (by simp)
    have hc : std.validWs.contains b = true := by
      rcases hb with rfl | rfl | rfl <;> decide
    simp only [List.cons_append, swGo, hc, if_true]
    exact ih (fun c hc => h c (by simp [hc]))

theorem upperHex_facts : ∀ n, n < 16 →
    std.validWs.contains (upperHex n) = false ∧ (std.cmdMarker.head? == some (upperHex n)) = false ∧
    std.validHex.contains (upperHex n) = true ∧ upperHex n ≠ 116 ∧ upperHexVal (upperHex n) = n := by decide

theorem onePair (b : Byte) (rest acc : List Byte) :
    swGo std (upperHex (b.toNat / 16) :: upperHex (b.toNat % 16) :: rest) .wantHigh [] [] acc =
      swGo std rest .wantHigh [] [] (b :: acc) := by
  have hb := b.toNat_lt
  obtain ⟨h1, h2, h3, _, h5⟩ := upperHex_facts (b.toNat / 16) (by omega)
  obtain ⟨_, _, g3, g4, g5⟩ := upperHex_facts (b.toNat % 16) (by omega)
  have hne : ((std.ctrlMarker.drop 1).head? == some (upperHex (b.toNat % 16))) = false := by
    simp only [std, List.drop_succ_cons, List.drop_zero, List.head?_cons, beq_eq_false_iff_ne, ne_eq, Option.some.injEq]
    exact fun e => g4 e.symm
  simp only [swGo, h1, h2, h3, g3, hne, Bool.false_eq_true, if_false, Bool.and_false, Bool.not_true, List.nil_append,
    List.cons_append, List.foldl_cons, List.foldl_nil, h5, g5, Nat.zero_mul, Nat.zero_add]
  have : UInt8.ofNat (b.toNat / 16 * 16 + b.toNat % 16) = b := by
    apply UInt8.toNat_inj.mp
    simp; omega
  rw [this]

theorem payload : ∀ (items : List (List Byte × Byte)) (rest acc : List Byte), (∀ it ∈ items, wsOk it.1) →
    swGo std (renderU items ++ rest) .wantHigh [] [] acc =
      swGo std rest .wantHigh [] [] ((items.map (·.2)).reverse ++ acc) := by
  intro items
  induction items with
  | nil => intro rest acc _; rfl
  | cons it t ih =>
    intro rest acc h
    obtain ⟨ws, b⟩ := it
    simp only [renderU, List.append_assoc, List.cons_append]
    rw [skipWs ws _ [] acc (h (ws, b) (by simp)), onePair, ih _ _ (fun i hi => h i (by simp [hi]))]
    simp

/-- one section of a log after the free-text preamble -/
inductive Section where
  /-- `SWTPM_IO<tail>\n<payload>`: e.g. tail = "_Read: length 10" -/
  | io (lead tail : List Byte) (payload : List (List Byte × Byte))
  /-- `Ctrl<text>`: a control-channel section (header and hex data), ignored -/
  | ctrl (lead text : List Byte)

def Section.render : Section → List Byte
  | .io lead tail p => lead ++ std.cmdMarker ++ tail ++ 10 :: renderU p
  | .ctrl lead text => lead ++ std.ctrlMarker ++ text

def Section.ok : Section → Prop
  | .io lead tail p => wsOk lead ∧ (∀ b ∈ tail, b ≠ 10) ∧ ∀ it ∈ p, wsOk it.1
  | .ctrl lead text => wsOk lead ∧ ∀ b ∈ text, b ≠ 83

def Section.bytes : Section → List Byte
  | .io _ _ p => p.map (·.2)
  | .ctrl _ _ => []

def renderAll (secs : List Section) (trail : List Byte) : List Byte := (secs.flatMap Section.render) ++ trail

theorem wsOk_noS {ws : List Byte} (h : wsOk ws) : ∀ b ∈ ws, b ≠ 83 := by
  intro b hb; rcases h b hb with rfl | rfl | rfl <;> decide

/-- scanning from either mode — looking for a marker in text, or reading payload bytes — yields exactly the
SWTPM_IO payloads, in order -/
theorem scan : ∀ (secs : List Section) (trail acc : List Byte), (∀ s ∈ secs, s.ok) → wsOk trail →
    swGo std (renderAll secs trail) .wantMarker [] [] acc = .ok (acc.reverse ++ secs.flatMap Section.bytes) ∧
    swGo std (renderAll secs trail) .wantHigh [] [] acc = .ok (acc.reverse ++ secs.flatMap Section.bytes) := by
  intro secs
  induction secs with
  | nil =>
    intro trail acc _ ht
    simp only [renderAll, List.flatMap_nil, List.nil_append, List.append_nil]
    constructor
    · have := skipText trail [] [] acc (wsOk_noS ht)
      simp only [List.append_nil] at this
      rw [this]; simp [swGo]
    · have := skipWs trail [] [] acc ht
      simp only [List.append_nil] at this
      rw [this]; simp [swGo]
  | cons s rest ih =>
    intro trail acc hs ht
    have hrest : ∀ x ∈ rest, x.ok := fun x hx => hs x (by simp [hx])
    have hsok := hs s (by simp)
    have hra : renderAll (s :: rest) trail = s.render ++ renderAll rest trail := by
      simp [renderAll, List.append_assoc]
    rw [hra]
    cases s with
    | io lead tail p =>
      obtain ⟨hl, htl, hp⟩ := hsok
      obtain ⟨_, ihP⟩ := ih trail ((p.map (·.2)).reverse ++ acc) hrest ht
      have hfin : acc.reverse ++ (Section.io lead tail p :: rest).flatMap Section.bytes =
          ((p.map (·.2)).reverse ++ acc).reverse ++ rest.flatMap Section.bytes := by
        simp [Section.bytes, List.append_assoc]
      simp only [Section.render, List.append_assoc, List.cons_append]
      constructor
      · rw [skipText lead _ [] acc (wsOk_noS hl)]
        show swGo std ([83, 87, 84, 80, 77, 95, 73, 79] ++ _) _ _ _ _ = _
        rw [marker, headerTail tail _ [] [] acc htl, payload p _ acc hp, ihP, hfin]
      · rw [skipWs lead _ [] acc hl]
        show swGo std (83 :: ([87, 84, 80, 77, 95, 73, 79] ++ _)) _ _ _ _ = _
        have : swGo std (83 :: ([87, 84, 80, 77, 95, 73, 79] ++ (tail ++ 10 :: (renderU p ++ renderAll rest trail)))) .wantHigh [] [] acc =
            swGo std ([87, 84, 80, 77, 95, 73, 79] ++ (tail ++ 10 :: (renderU p ++ renderAll rest trail))) .wantMarker [83] [] acc := by
          simp [swGo, std]
        rw [this, markerTail, headerTail tail _ [] [] acc htl, payload p _ acc hp, ihP, hfin]
    | ctrl lead text =>
      obtain ⟨hl, htx⟩ := hsok
      obtain ⟨ihT, _⟩ := ih trail acc hrest ht
      have hfin : acc.reverse ++ (Section.ctrl lead text :: rest).flatMap Section.bytes =
          acc.reverse ++ rest.flatMap Section.bytes := by simp [Section.bytes]
      simp only [Section.render, List.append_assoc]
      constructor
      · rw [skipText lead _ [] acc (wsOk_noS hl)]
        show swGo std ([67, 116, 114, 108] ++ _) _ _ _ _ = _
        rw [skipText [67, 116, 114, 108] _ [] acc (by decide), skipText text _ [] acc htx, ihT, hfin]
      · rw [skipWs lead _ [] acc hl]
        show swGo std (67 :: 116 :: ([114, 108] ++ _)) _ _ _ _ = _
        have : swGo std (67 :: 116 :: ([114, 108] ++ (text ++ renderAll rest trail))) .wantHigh [] [] acc =
            swGo std ([114, 108] ++ (text ++ renderAll rest trail)) .wantMarker [] [] acc := by
          simp [swGo, std]
        rw [this, skipText [114, 108] _ [] acc (by decide), skipText text _ [] acc htx, ihT, hfin]

/-- **swtpm log in its documented layout**: free text without an `S`, then control-channel and SWTPM_IO
sections of upper-case hex lines (any blanks / line ends between pairs): only the SWTPM_IO payloads count -/
theorem c15_swtpm_render (preamble : List Byte) (secs : List Section) (trail : List Byte)
    (hp : ∀ b ∈ preamble, b ≠ 83) (hs : ∀ s ∈ secs, s.ok) (ht : wsOk trail) :
    swtpmParse Generated.swtpmConsts (preamble ++ renderAll secs trail) = .ok (secs.flatMap Section.bytes) := by
  rw [std_eq]
  unfold swtpmParse
  rw [skipText preamble _ [] [] hp]
  simpa using (scan secs trail [] hs ht).1

end C15
