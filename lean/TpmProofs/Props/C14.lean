import TpmModel.Print
/-!
# C14 — the printers show every event and every byte exactly once, in order

`prettyRows` is the model of `Pretty.unmarshal` (tied to the code by a both-mode differential run over the
event streams of well-formed and malformed inputs).  Theorems below hold for EVERY event list on which
the printer does not fail, and totality is shown for every list whose value events resolve to a known
primitive class and whose byte-buffer children carry values (which is what the decoder emits).
-/
def Row.hex : Row → List Byte
  | .field _ _ _ h _ => h
  | .info _ => []

namespace C14

def rowsHex (rows : List Row) : List Byte := rows.flatMap Row.hex

/-- the event that ended a list fold, as a list -/
def nxtL : Option MEvent → List Event
  | some c => [.marshal c]
  | none => []
@[simp] theorem nxtL_none : nxtL none = [] := rfl
@[simp] theorem nxtL_some (c : MEvent) : nxtL (some c) = [.marshal c] := rfl

/-- bytes of one event as `Binary.unmarshal` gives them (nothing for `...` events and warnings) -/
def evBytesE (env : PrintEnv) : Event → List Byte
  | .marshal m => match eventBytes env m with | .ok bs => bs | .error _ => []
  | .warning _ => []

def streamBytes (env : PrintEnv) (evs : List Event) : List Byte := evs.flatMap (evBytesE env)

@[simp] theorem rowsHex_nil : rowsHex [] = [] := rfl
theorem rowsHex_append (a b : List Row) : rowsHex (a ++ b) = rowsHex a ++ rowsHex b := by simp [rowsHex]
theorem rowsHex_cons (r : Row) (rs : List Row) : rowsHex (r :: rs) = r.hex ++ rowsHex rs := by simp [rowsHex]

theorem prettyRow_hex {env : PrintEnv} {m : MEvent} {r : Row} (h : prettyRow env m = .ok r) :
    r.hex = evBytesE env (.marshal m) := by
  unfold prettyRow at h
  cases hb : eventBytes env m with
  | error e => simp [hb, Except.map] at h
  | ok bs => simp only [hb, Except.map, Except.ok.injEq] at h; subst h; simp [Row.hex, evBytesE, hb]

/-- **indentation and value column**: a row's indentation is the depth of its event's path, its value column the
value's text form (empty for `...`), its type column the declared type, its name the last path node -/
theorem c14_row_columns {env : PrintEnv} {m : MEvent} {r : Row} (h : prettyRow env m = .ok r) :
    ∃ bs, r = .field (typeNameOf m.ty) (m.path.length - 1) ("." ++ PathNode.last m.path) bs (valueText env m) := by
  unfold prettyRow at h
  cases hb : eventBytes env m with
  | error e => simp [hb, Except.map] at h
  | ok bs => simp only [hb, Except.map, Except.ok.injEq] at h; exact ⟨bs, h.symm⟩

theorem attrRows_hex (env : PrintEnv) (m : MEvent) : rowsHex (attrRows env m) = [] := by
  unfold attrRows
  split
  · simp [rowsHex, Row.hex, List.flatMap_map]
  · rfl

def infoOnly (rows : List Row) : Prop := ∀ r, r ∈ rows → r.hex = []

theorem rowsHex_infoOnly {rows : List Row} (h : infoOnly rows) : rowsHex rows = [] := by
  induction rows with
  | nil => rfl
  | cons r rs ih =>
    rw [rowsHex_cons, h r (by simp), ih (fun x hx => h x (by simp [hx]))]; rfl

theorem parent_bytes (env : PrintEnv) (m : MEvent) (h : isListParent m = true) : evBytesE env (.marshal m) = [] := by
  unfold isListParent at h
  have hv : m.val = none := by
    split at h
    · rename_i hv; simpa using hv
    · simp at h
  simp [evBytesE, eventBytes, hv]

/-- folding a byte buffer: the buffer row holds exactly the bytes of the children it swallowed -/
theorem foldBytes_hex (env : PrintEnv) (parent : MEvent) : ∀ (evs : List Event) (k : Nat) (buf : List Byte)
    (infos rows : List Row) (nxt : Option MEvent) (rest : List Event) (k' : Nat), infoOnly infos →
    foldBytes env parent evs k buf infos = .ok (rows, nxt, rest, k') →
    ∃ consumed, evs = consumed ++ nxtL nxt ++ rest ∧
      rowsHex rows = buf ++ streamBytes env consumed ∧ rest.length ≤ evs.length ∧ (nxt = none → rest = []) := by
  intro evs
  induction evs with
  | nil =>
    intro k buf infos rows nxt rest k' hi h
    simp only [foldBytes, Except.ok.injEq, Prod.mk.injEq] at h
    obtain ⟨rfl, rfl, rfl, _⟩ := h
    refine ⟨[], by simp, ?_, by simp, fun _ => rfl⟩
    rw [rowsHex_cons, rowsHex_infoOnly (fun r hr => hi r (by simpa using hr))]
    simp [Row.hex, streamBytes]
  | cons e evs ih =>
    intro k buf infos rows nxt rest k' hi h
    cases e with
    | warning w =>
      simp only [foldBytes] at h
      obtain ⟨consumed, h1, h2, h3, h4⟩ := ih _ _ _ _ _ _ _ (by
        intro r hr; simp only [List.mem_cons] at hr
        rcases hr with rfl | hr
        · rfl
        · exact hi r hr) h
      exact ⟨.warning w :: consumed, by simp [h1], by simp [h2, streamBytes, evBytesE], by simp; omega, h4⟩
    | marshal c =>
      simp only [foldBytes] at h
      split at h
      · -- a child
        cases hb : eventBytes env c with
        | error e => simp [hb] at h
        | ok bs =>
          cases hv : c.val with
          | none => simp [hb, hv] at h
          | some x =>
            simp only [hb, hv] at h
            obtain ⟨consumed, h1, h2, h3, h4⟩ := ih _ _ _ _ _ _ _ hi h
            refine ⟨.marshal c :: consumed, by simp [h1], ?_, by simp; omega, h4⟩
            simp [h2, streamBytes, evBytesE, hb, List.append_assoc]
      · simp only [Except.ok.injEq, Prod.mk.injEq] at h
        obtain ⟨rfl, rfl, rfl, _⟩ := h
        refine ⟨[], by simp, ?_, by simp, by simp⟩
        rw [rowsHex_cons, rowsHex_infoOnly (fun r hr => hi r (by simpa using hr))]
        simp [Row.hex, streamBytes]

/-- folding a list of elements: child rows carry their own bytes, the parent row (shown only for an empty
list) carries none -/
theorem foldElems_hex (env : PrintEnv) (parent : MEvent) (hp : isListParent parent = true) : ∀ (evs : List Event) (k : Nat) (isEmpty : Bool)
    (acc rows : List Row) (nxt : Option MEvent) (rest : List Event) (k' : Nat),
    foldElems env parent evs k isEmpty acc = .ok (rows, nxt, rest, k') →
    ∃ consumed, evs = consumed ++ nxtL nxt ++ rest ∧
      rowsHex rows = rowsHex acc.reverse ++ streamBytes env consumed ∧ rest.length ≤ evs.length ∧ (nxt = none → rest = []) := by
  have hparent : ∀ r, prettyRow env parent = .ok r → r.hex = [] := by
    intro r hr; rw [prettyRow_hex hr, parent_bytes env parent hp]
  intro evs
  induction evs with
  | nil =>
    intro k isEmpty acc rows nxt rest k' h
    simp only [foldElems] at h
    split at h
    · cases hr : prettyRow env parent with
      | error e => simp [hr, Except.map] at h
      | ok r =>
        simp only [hr, Except.map, Except.ok.injEq, Prod.mk.injEq] at h
        obtain ⟨rfl, rfl, rfl, _⟩ := h
        exact ⟨[], by simp, by simp [rowsHex_append, rowsHex_cons, hparent r hr, streamBytes], by simp, fun _ => rfl⟩
    · simp only [Except.ok.injEq, Prod.mk.injEq] at h
      obtain ⟨rfl, rfl, rfl, _⟩ := h
      exact ⟨[], by simp, by simp [streamBytes], by simp, fun _ => rfl⟩
  | cons e evs ih =>
    intro k isEmpty acc rows nxt rest k' h
    cases e with
    | warning w =>
      simp only [foldElems] at h
      obtain ⟨consumed, h1, h2, h3, h4⟩ := ih _ _ _ _ _ _ _ h
      exact ⟨.warning w :: consumed, by simp [h1],
        by simp [h2, streamBytes, evBytesE, rowsHex_append, rowsHex_cons, Row.hex], by simp; omega, h4⟩
    | marshal c =>
      simp only [foldElems] at h
      split at h
      · cases hr : prettyRow env c with
        | error e => simp [hr] at h
        | ok r =>
          simp only [hr] at h
          obtain ⟨consumed, h1, h2, h3, h4⟩ := ih _ _ _ _ _ _ _ h
          refine ⟨.marshal c :: consumed, by simp [h1], ?_, by simp; omega, h4⟩
          simp [h2, streamBytes, rowsHex_append, rowsHex_cons, prettyRow_hex hr, List.append_assoc]
      · split at h
        · cases hr : prettyRow env parent with
          | error e => simp [hr, Except.map] at h
          | ok r =>
            simp only [hr, Except.map, Except.ok.injEq, Prod.mk.injEq] at h
            obtain ⟨rfl, rfl, rfl, _⟩ := h
            exact ⟨[], by simp, by simp [rowsHex_append, rowsHex_cons, hparent r hr, streamBytes], by simp, by simp⟩
        · simp only [Except.ok.injEq, Prod.mk.injEq] at h
          obtain ⟨rfl, rfl, rfl, _⟩ := h
          exact ⟨[], by simp, by simp [streamBytes], by simp, by simp⟩

theorem streamBytes_append (env : PrintEnv) (a b : List Event) : streamBytes env (a ++ b) = streamBytes env a ++ streamBytes env b := by
  simp [streamBytes]

/-- **hex column**: whenever the pretty printer succeeds, the hex column concatenated over all rows is exactly
the concatenation of the re-encoded events (`Binary.unmarshal`), i.e. the bytes of the decoded fields — every
byte shown exactly once, in order -/
theorem c14_hex (env : PrintEnv) : ∀ (fuel : Nat) (evs : List Event) (k : Nat) (rows : List Row),
    prettyGo env fuel evs k = .ok rows → rowsHex rows = streamBytes env evs := by
  intro fuel
  induction fuel with
  | zero => intro evs k rows h; simp [prettyGo] at h
  | succ n ih =>
    intro evs k rows h
    cases evs with
    | nil => simp only [prettyGo, Except.ok.injEq] at h; subst h; rfl
    | cons e rest =>
      cases e with
      | warning w =>
        simp only [prettyGo] at h
        cases hr : prettyGo env n rest (k + 1) with
        | error e => simp [hr, Except.map] at h
        | ok rs =>
          simp only [hr, Except.map, Except.ok.injEq] at h
          subst h
          simp [rowsHex_cons, Row.hex, ih _ _ _ hr, streamBytes, evBytesE]
      | marshal m =>
        simp only [prettyGo] at h
        split at h
        · rename_i hlp
          -- list parent: its own event re-encodes to nothing
          have hm : evBytesE env (.marshal m) = [] := parent_bytes env m hlp
          have hfold : ∀ frows nxt rest' k', foldList env m rest k = .ok (frows, nxt, rest', k') →
              ∃ consumed, rest = consumed ++ nxtL nxt ++ rest' ∧
                rowsHex frows = streamBytes env consumed ∧ (nxt = none → rest' = []) := by
            intro frows nxt rest' k' hf
            unfold foldList at hf
            split at hf
            · obtain ⟨c, h1, h2, _, h4⟩ := foldBytes_hex env m rest k [] [] frows nxt rest' k' (by intro r hr; cases hr) hf
              exact ⟨c, h1, by simpa using h2, h4⟩
            · obtain ⟨c, h1, h2, _, h4⟩ := foldElems_hex env m hlp rest k true [] frows nxt rest' k' hf
              exact ⟨c, h1, by simpa using h2, h4⟩
          generalize foldList env m rest k = folded at hfold h
          cases folded with
          | error e => simp at h
          | ok t =>
            obtain ⟨frows, nxt, rest', k'⟩ := t
            obtain ⟨consumed, h1, h2, h3⟩ := hfold _ _ _ _ rfl
            cases nxt with
            | none =>
              simp only [Except.ok.injEq] at h
              subst h
              have := h3 rfl
              subst this
              simp only [List.append_nil] at h1
              subst h1
              simp [h2, streamBytes, hm]
            | some c =>
              simp only [] at h
              cases hr : prettyRow env c with
              | error e => simp [hr] at h
              | ok r =>
                cases hg : prettyGo env n rest' k' with
                | error e => simp [hr, hg, Except.map] at h
                | ok rs =>
                  simp only [hr, hg, Except.map, Except.ok.injEq] at h
                  subst h
                  have hattr : rowsHex (if hasAttrs env c then attrRows env c else []) = [] := by
                    split
                    · exact attrRows_hex env c
                    · rfl
                  simp only [rowsHex_append, rowsHex_cons, rowsHex_nil, List.append_nil, h2, prettyRow_hex hr, hattr,
                    ih _ _ _ hg]
                  rw [h1]
                  simp [streamBytes, hm, List.append_assoc]
        · cases hr : prettyRow env m with
          | error e => simp [hr] at h
          | ok r =>
            cases hg : prettyGo env n rest k with
            | error e => simp [hr, hg, Except.map] at h
            | ok rs =>
              simp only [hr, hg, Except.map, Except.ok.injEq] at h
              subst h
              have hattr : rowsHex (if hasAttrs env m then attrRows env m else []) = [] := by
                split
                · exact attrRows_hex env m
                · rfl
              simp [rowsHex_append, rowsHex_cons, prettyRow_hex hr, hattr, ih _ _ _ hg, streamBytes]

end C14

namespace C14

theorem c14_hex_top (env : PrintEnv) (evs : List Event) (rows : List Row) (h : prettyRows env evs = .ok rows) :
    rowsHex rows = streamBytes env evs := c14_hex env _ evs 0 rows h

/-! ### totality -/

/-- a value event resolves to a known primitive class -/
def Resolves (env : PrintEnv) : Event → Prop
  | .marshal m => m.val = none ∨ ∃ p, env.prim m.vclass = some p
  | .warning _ => True

/-- what the decoder emits: every value event has a known class, and the events that directly follow a byte-buffer parent as
its children are value events -/
structure Shaped (env : PrintEnv) (evs : List Event) : Prop where
  resolves : ∀ e ∈ evs, Resolves env e
  kids : kidsOk evs = true

theorem eventBytes_ok {env : PrintEnv} {m : MEvent} (h : Resolves env (.marshal m)) : ∃ bs, eventBytes env m = .ok bs := by
  unfold eventBytes
  cases hv : m.val with
  | none => exact ⟨[], rfl⟩
  | some x =>
    rcases h with h | ⟨p, hp⟩
    · simp [hv] at h
    · exact ⟨p.toBytes x, by simp [hp]⟩

theorem prettyRow_ok {env : PrintEnv} {m : MEvent} (h : Resolves env (.marshal m)) : ∃ r, prettyRow env m = .ok r := by
  obtain ⟨bs, hb⟩ := eventBytes_ok h
  unfold prettyRow
  rw [hb]
  exact ⟨_, rfl⟩

theorem foldBytes_total (env : PrintEnv) (parent : MEvent) : ∀ (evs : List Event) (k : Nat) (buf : List Byte) (infos : List Row),
    (∀ e ∈ evs, Resolves env e) → bytesRun parent.path evs = true →
    ∃ r, foldBytes env parent evs k buf infos = .ok r := by
  intro evs
  induction evs with
  | nil => intro k buf infos _ _; exact ⟨_, rfl⟩
  | cons e rest ih =>
    intro k buf infos hr hk
    have hr' : ∀ e ∈ rest, Resolves env e := fun x hx => hr x (by simp [hx])
    cases e with
    | warning w => simp only [foldBytes]; exact ih _ _ _ hr' (by simpa [bytesRun] using hk)
    | marshal c =>
      simp only [foldBytes]
      split
      · rename_i hc
        obtain ⟨bs, hb⟩ := eventBytes_ok (hr (.marshal c) (by simp))
        simp only [bytesRun, hc, if_true, Bool.and_eq_true] at hk
        cases hcv : c.val with
        | none => rw [hcv] at hk; simp at hk
        | some x => simp only [hb]; exact ih _ _ _ hr' hk.2
      · exact ⟨_, rfl⟩

theorem foldElems_total (env : PrintEnv) (parent : MEvent) (hp : Resolves env (.marshal parent)) : ∀ (evs : List Event) (k : Nat) (isEmpty : Bool)
    (acc : List Row), (∀ e ∈ evs, Resolves env e) → ∃ r, foldElems env parent evs k isEmpty acc = .ok r := by
  obtain ⟨pr, hpr⟩ := prettyRow_ok hp
  intro evs
  induction evs with
  | nil =>
    intro k isEmpty acc _
    simp only [foldElems]
    split
    · rw [hpr]; exact ⟨_, rfl⟩
    · exact ⟨_, rfl⟩
  | cons e rest ih =>
    intro k isEmpty acc hr
    have hr' : ∀ e ∈ rest, Resolves env e := fun x hx => hr x (by simp [hx])
    cases e with
    | warning w => simp only [foldElems]; exact ih _ _ _ hr'
    | marshal c =>
      simp only [foldElems]
      split
      · obtain ⟨r, hrw⟩ := prettyRow_ok (hr (.marshal c) (by simp))
        simp only [hrw]; exact ih _ _ _ hr'
      · split
        · rw [hpr]; exact ⟨_, rfl⟩
        · exact ⟨_, rfl⟩

/-- the list fold returns a suffix of what it was given (so the printer makes progress) and keeps the stream's
events: the next event and the rest are events of the stream -/
theorem fold_suffix (env : PrintEnv) (m : MEvent) (rest : List Event) (k : Nat) (frows : List Row) (nxt : Option MEvent)
    (rest' : List Event) (k' : Nat) (h : foldList env m rest k = .ok (frows, nxt, rest', k')) :
    rest'.length ≤ rest.length ∧ (∀ e ∈ rest', e ∈ rest) ∧ (∀ c, nxt = some c → .marshal c ∈ rest) ∧
      ∃ consumed, rest = consumed ++ nxtL nxt ++ rest' := by
  have key : ∃ consumed, rest = consumed ++ nxtL nxt ++ rest' ∧ rest'.length ≤ rest.length := by
    unfold foldList at h
    split at h
    · obtain ⟨cons, h1, _, h3, _⟩ := foldBytes_hex env m rest k [] [] frows nxt rest' k' (by intro r hr; cases hr) h
      exact ⟨cons, h1, h3⟩
    · exact foldElems_struct env m rest k true [] frows nxt rest' k' h
  obtain ⟨consumed, h1, h2⟩ := key
  refine ⟨h2, ?_, ?_, consumed, h1⟩
  · intro e he; rw [h1]; simp [he]
  · intro c hc; subst hc; rw [h1]; simp
where
  foldElems_struct (env : PrintEnv) (parent : MEvent) : ∀ (evs : List Event) (k : Nat) (isEmpty : Bool)
      (acc rows : List Row) (nxt : Option MEvent) (rest : List Event) (k' : Nat),
      foldElems env parent evs k isEmpty acc = .ok (rows, nxt, rest, k') →
      ∃ consumed, evs = consumed ++ nxtL nxt ++ rest ∧ rest.length ≤ evs.length := by
    intro evs
    induction evs with
    | nil =>
      intro k isEmpty acc rows nxt rest k' h
      simp only [foldElems] at h
      split at h
      · cases hr : prettyRow env parent with
        | error e => simp [hr, Except.map] at h
        | ok r =>
          simp only [hr, Except.map, Except.ok.injEq, Prod.mk.injEq] at h
          obtain ⟨_, rfl, rfl, _⟩ := h
          exact ⟨[], by simp, by simp⟩
      · simp only [Except.ok.injEq, Prod.mk.injEq] at h
        obtain ⟨_, rfl, rfl, _⟩ := h
        exact ⟨[], by simp, by simp⟩
    | cons e evs ih =>
      intro k isEmpty acc rows nxt rest k' h
      cases e with
      | warning w =>
        simp only [foldElems] at h
        obtain ⟨consumed, h1, h3⟩ := ih _ _ _ _ _ _ _ h
        exact ⟨.warning w :: consumed, by simp [h1], by simp; omega⟩
      | marshal c =>
        simp only [foldElems] at h
        split at h
        · cases hr : prettyRow env c with
          | error e => simp [hr] at h
          | ok r =>
            simp only [hr] at h
            obtain ⟨consumed, h1, h3⟩ := ih _ _ _ _ _ _ _ h
            exact ⟨.marshal c :: consumed, by simp [h1], by simp; omega⟩
        · split at h
          · cases hr : prettyRow env parent with
            | error e => simp [hr, Except.map] at h
            | ok r =>
              simp only [hr, Except.map, Except.ok.injEq, Prod.mk.injEq] at h
              obtain ⟨_, rfl, rfl, _⟩ := h
              exact ⟨[], by simp, by simp⟩
          · simp only [Except.ok.injEq, Prod.mk.injEq] at h
            obtain ⟨_, rfl, rfl, _⟩ := h
            exact ⟨[], by simp, by simp⟩

theorem kidsOk_suffix : ∀ (a b : List Event), kidsOk (a ++ b) = true → kidsOk b = true
  | [], b, h => h
  | .warning _ :: a, b, h => kidsOk_suffix a b (by simpa [kidsOk] using h)
  | .marshal p :: a, b, h => kidsOk_suffix a b (by
      simp only [List.cons_append, kidsOk, Bool.and_eq_true] at h
      exact h.2)

/-- **termination without error**: on every shaped event stream the pretty printer returns rows -/
theorem c14_total (env : PrintEnv) : ∀ (fuel : Nat) (evs : List Event) (k : Nat), evs.length < fuel →
    (∀ e ∈ evs, Resolves env e) → kidsOk evs = true →
    ∃ rows, prettyGo env fuel evs k = .ok rows := by
  intro fuel
  induction fuel with
  | zero => intro evs k h; omega
  | succ n ih =>
    intro evs k hlen hr hk
    cases evs with
    | nil => exact ⟨[], rfl⟩
    | cons e rest =>
      have hr' : ∀ e ∈ rest, Resolves env e := fun x hx => hr x (by simp [hx])
      have hl' : rest.length < n := by simp at hlen; omega
      cases e with
      | warning w =>
        obtain ⟨rs, h⟩ := ih rest (k + 1) hl' hr' (by simpa [kidsOk] using hk)
        simp only [prettyGo, h]
        exact ⟨_, rfl⟩
      | marshal m =>
        simp only [kidsOk, Bool.and_eq_true] at hk
        simp only [prettyGo]
        split
        · -- list parent
          have hfold : ∃ r, foldList env m rest k = .ok r := by
            unfold foldList
            split
            · rename_i hty
              exact foldBytes_total env m rest k [] [] hr' (by simpa [hty] using hk.1)
            · exact foldElems_total env m (hr (.marshal m) (by simp)) rest k true [] hr'
          obtain ⟨⟨frows, nxt, rest', k'⟩, hf⟩ := hfold
          obtain ⟨hlen', hsub, hnxt, consumed, hsplit⟩ := fold_suffix env m rest k frows nxt rest' k' hf
          simp only [hf]
          cases nxt with
          | none => exact ⟨_, rfl⟩
          | some c =>
            simp only []
            obtain ⟨r, hrw⟩ := prettyRow_ok (hr' (.marshal c) (hnxt c rfl))
            obtain ⟨rs, hgo⟩ := ih rest' k' (by omega) (fun e he => hr' e (hsub e he))
              (kidsOk_suffix (consumed ++ nxtL (some c)) rest' (by rw [← hsplit]; exact hk.2))
            simp only [hrw, hgo]
            exact ⟨_, rfl⟩
        · obtain ⟨r, hrw⟩ := prettyRow_ok (hr (.marshal m) (by simp))
          obtain ⟨rs, hgo⟩ := ih rest k hl' hr' hk.2
          simp only [hrw, hgo]
          exact ⟨_, rfl⟩

theorem c14_total_top (env : PrintEnv) (evs : List Event) (h : Shaped env evs) : ∃ rows, prettyRows env evs = .ok rows :=
  c14_total env _ evs 0 (Nat.lt_succ_self _) h.resolves h.kids

theorem shaped_of_b {env : PrintEnv} {evs : List Event} (h : shapedB env evs = true) : Shaped env evs := by
  simp only [shapedB, Bool.and_eq_true, List.all_eq_true] at h
  refine ⟨fun e he => ?_, h.2⟩
  have := h.1 e he
  cases e with
  | warning w => trivial
  | marshal m =>
    simp only [resolvesB, Bool.or_eq_true, Option.isNone_iff_eq_none, Option.isSome_iff_exists] at this
    exact this

/-- the computable form: `shapedB` is what the driver evaluates on every decoded stream (the `K` line of `PRINT`) -/
theorem c14_total_b (env : PrintEnv) (evs : List Event) (h : shapedB env evs = true) : ∃ rows, prettyRows env evs = .ok rows :=
  c14_total_top env evs (shaped_of_b h)

/-- the events printer is a total function by construction: one row per event, in order -/
theorem c14_events_rows (env : PrintEnv) : ∀ (evs : List Event) (k : Nat), (eventsRows env evs k).length = evs.length := by
  intro evs
  induction evs with
  | nil => intro k; rfl
  | cons e rest ih => intro k; cases e <;> simp [eventsRows, ih]

end C14
