import TpmProofs.Warn
import TpmProofs.WarnAcct
import TpmProofs.Props.AcceptIff
import TpmProofs.Props.C08
import TpmProofs.Props.C02
/-!
# C08 — warn mode keeps decoding: no size error ever aborts a warn-mode decode

For every layout of /repo, every command code and flag, streams included, and EVERY input: a warn-mode decode ends with a
result (possibly with surplus), with `depleted`, with one of the two value errors after which the layout is unknowable
(a command code without layouts, a selector without union member), or with an internal error (a `.crash` outcome: the
absence of internal errors is a theorem for strict mode only — C06 — and for warn mode it is monitored on the real code and
tied by correspondence, not proved) — never with a size error: every overrun, shortfall and anticipation is delivered as a warning
(`TpmProofs/Warn.lean`: each region's owner catches the overrun of its own region; what was opened inside an overrun
region ends with it; `assert_done` pads and goes on).
-/
namespace C08

theorem raised_from_walker (abort : Bool) (tb : MsgTables) (top : Top) (x : List Byte) (e : Err) (rem : List Byte)
    (h : (marshalRun abort tb top x).outcome = .raised e rem) : ∃ s, runWalker abort tb top x = .error (e, s) := by
  unfold marshalRun pump at h
  simp only [] at h
  split at h
  · cases h
  · cases hw : runWalker abort tb top x with
    | ok vs =>
      obtain ⟨v, s⟩ := vs
      rw [hw] at h
      have : pumpOutcome x s.pos (.ok v) = .raised e rem := h
      unfold pumpOutcome at this
      simp only [] at this
      split at this <;> cases this
    | error es =>
      obtain ⟨e', s⟩ := es
      rw [hw] at h
      have h' : pumpOutcome x s.pos (.error e') = .raised e rem := h
      cases e' with
      | crash c' m' => simp [pumpOutcome] at h'
      | depleted => simp [pumpOutcome] at h'
      | exceeded => simp only [pumpOutcome, Outcome.raised.injEq] at h'; exact ⟨s, by rw [h'.1]⟩
      | anticipated => simp only [pumpOutcome, Outcome.raised.injEq] at h'; exact ⟨s, by rw [h'.1]⟩
      | subceeded => simp only [pumpOutcome, Outcome.raised.injEq] at h'; exact ⟨s, by rw [h'.1]⟩
      | value => simp only [pumpOutcome, Outcome.raised.injEq] at h'; exact ⟨s, by rw [h'.1]⟩
      | valueNone => simp only [pumpOutcome, Outcome.raised.injEq] at h'; exact ⟨s, by rw [h'.1]⟩

/-- **no size error escapes in warn mode** — commands, responses (every command code, either flag), streams -/
theorem c08_no_escape_msg (top : Top) (hm : ∀ t, top ≠ .ty t) (x : List Byte) (e : Err) (rem : List Byte)
    (h : (marshalRun false Generated.msgTables top x).outcome = .raised e rem) : e.isValueErr = true := by
  obtain ⟨s, hs⟩ := raised_from_walker _ _ _ _ _ _ h
  have := runWalker_wm Generated.msgTables AcceptIff.tables_wf top (fun t ht => absurd ht (hm t)) x
  rw [hs] at this
  rcases this with rfl | h' | ⟨c, m, rfl⟩
  · -- depleted is not reported as `raised`
    exfalso
    unfold marshalRun pump at h
    simp only [hs] at h
    split at h
    · cases h
    · simp [pumpOutcome, resOf] at h
  · exact h'
  · exfalso
    unfold marshalRun pump at h
    simp only [hs] at h
    split at h
    · cases h
    · simp [pumpOutcome, resOf] at h

/-- … and every structure layout of /repo -/
theorem c08_no_escape_type (t : Ty) (ht : t ∈ Generated.allTypes) (tb : MsgTables) (x : List Byte) (e : Err) (rem : List Byte)
    (h : (marshalRun false tb (.ty t) x).outcome = .raised e rem) : e.isValueErr = true := by
  obtain ⟨s, hs⟩ := raised_from_walker _ _ _ _ _ _ h
  have hwf := List.all_eq_true.mp C03.c03_tables t ht
  have := decode_wi t hwf rootPath none (initSt x) (by intro c hc; cases hc)
  have hs' : decode false t rootPath none (initSt x) = .error (e, s) := by simpa [runWalker] using hs
  rw [hs'] at this
  rcases this.2 with rfl | h' | ⟨c, m, rfl⟩ | ⟨cid, cp, m, a, v, b, rfl, pre, c', post, hdec, _⟩
  · exfalso
    unfold marshalRun pump at h
    simp only [hs] at h
    split at h
    · cases h
    · simp [pumpOutcome, resOf] at h
  · exact h'
  · exfalso
    unfold marshalRun pump at h
    simp only [hs] at h
    split at h
    · cases h
    · simp [pumpOutcome, resOf] at h
  · simp [initSt] at hdec

/-- **tiling** (every layout, every top, EVERY input): the input of a warn-mode decode is, in order, one segment per event
shown — for a field exactly the bytes of its value at the declared width, for an `exceeded` warning the skipped rest of
the overrun region (exactly `max − already` bytes: decoding resumes at the end the violated size field declares), for a
`subceeded` warning the padding up to the declared end (at most `max − already`), nothing for any other warning — then
(only if the decode stopped with an error) the bytes consumed on the way to that error, then what was not consumed.
So every input byte is shown in a field, skipped as the reported tail of a region, or left over. -/
theorem c08_tiling (tb : MsgTables) (top : Top) (x : List Byte) :
    ∃ segs off, Segs (stOf (runWalker false tb top x)).out segs ∧
      x = segs.flatten ++ off ++ (stOf (runWalker false tb top x)).inp ∧
      (isOkR (runWalker false tb top x) = true → off = []) := by
  obtain ⟨new, segs, off, h1, h2, h3, h4, _⟩ := runWalker_acctw tb top x
  simp only [initSt, List.nil_append] at h1 h3
  exact ⟨segs, off, by rw [h1]; exact h2, h3, h4⟩

end C08

namespace C02

theorem segs_value_only : ∀ {new : List (Nat × Event)} {segs : List (List Byte)}, Segs new segs →
    (∀ ke ∈ new, ∀ e, ke.2 = .warning e → e.isValueErr = true) → segs.flatten = evBytes new
  | _, _, .nil, _ => rfl
  | _, _, @Segs.cons ke seg evs segs hseg hrest, hv => by
    have ih := segs_value_only hrest (fun ke' hke' => hv ke' (by simp [hke']))
    have hk := hv ke (by simp)
    obtain ⟨k, e⟩ := ke
    simp only [List.flatten_cons, evBytes, List.flatMap_cons] at ih ⊢
    rw [ih]
    congr 1
    cases e with
    | marshal m => simpa [SegOf, Event.bytes] using hseg
    | warning w =>
      have := hk w rfl
      cases w <;> simp [Err.isValueErr] at this <;> simpa [SegOf, Event.bytes] using hseg

/-- **C02 in warn mode**: whenever a warn-mode decode runs to the end of the input and the only problems it reports are
out-of-range values, concatenating the re-encoded events yields the input byte for byte -/
theorem c02_warn_value_only (tb : MsgTables) (top : Top) (x : List Byte) (v : Val) (t : St)
    (h : runWalker false tb top x = .ok (v, t)) (hin : t.inp = [])
    (hval : ∀ ke ∈ t.out, ∀ e, ke.2 = .warning e → e.isValueErr = true) : evBytes t.out = x := by
  obtain ⟨new, segs, off, h1, h2, h3, h4, _⟩ := runWalker_acctw tb top x
  rw [h] at h1 h3 h4
  simp only [stOf, initSt, List.nil_append] at h1 h3
  have hoff : off = [] := h4 rfl
  subst hoff
  rw [h1] at hval
  rw [h1, ← segs_value_only h2 hval, h3, hin]
  simp

end C02
