import TpmProofs.Shift
import TpmModel.Generated.Cmd
import TpmProofs.StreamSilent
import TpmProofs.PosInp
import TpmProofs.Props.C14S
import TpmProofs.MsgPump
import TpmProofs.WarnNC
import TpmProofs.MsgNoCrash
import TpmProofs.Props.C06
/-!
# C09 — a stream of ARBITRARY messages decodes as its messages decoded one by one (either mode)

`Props/MsgWF.lean` (`c09_stream`) proves the pairing for sequences of *well-formed* exchanges in strict mode.  Here the statement is
freed from well-formedness and from the mode: take any byte strings `c₁, r₁, …, cₙ, rₙ`; decode each command and each response ON
ITS OWN bytes from a fresh state — the response under its command's code and the encrypt flag of its command's sessions (`runMsgs`);
if each of those decodes completes and consumes exactly its bytes (in warn mode that includes malformed messages whose problems
are reported as warnings), then the stream decode of `c₁ r₁ … cₙ rₙ` is the chain of those decodes: the same events in the same
order, stamped with the running offset (region ids inside warnings move along), followed by the clean stop.

From `TpmProofs/Shift.lean`: for every walker, either mode, the run from a state that lies `d` bytes further into a longer input is
the shifted run — unless the run ends for lack of input (`decode_sh`, `decodeCommand_sh`, `decodeResponse_sh`; an equation, proved
like the re-rooting equation).
-/
namespace C09

theorem c09_stream_of_arbitrary_messages (abort : Bool) (msgs : List (List Byte × List Byte)) (pos' : Nat) (out' : List (Nat × Event))
    (h : runMsgs abort Generated.msgTables rootPath msgs 0 [] = some (pos', out')) :
    ∃ scs', runWalker abort Generated.msgTables .stream (flat msgs) =
      .ok (.none, ⟨[], pos', out' ++ [(pos', .marshal ⟨rootPath, .named "Command" false, none, "", 0⟩)], scs'⟩) := by
  have hlen : msgs.length < (flat msgs).length + 1 := by
    -- every exchange accepted by `runMsgs` is non-empty
    have : ∀ (ms : List (List Byte × List Byte)) p o p' o', runMsgs abort Generated.msgTables rootPath ms p o = some (p', o') →
        ms.length ≤ (flat ms).length := by
      intro ms
      induction ms with
      | nil => intro p o p' o' _; simp
      | cons cr rest ih =>
        intro p o p' o' hh
        obtain ⟨c, r⟩ := cr
        simp only [runMsgs] at hh
        split at hh
        · cases hh
        · rename_i hne
          simp only [Bool.or_eq_true, not_or, Bool.not_eq_true] at hne
          have hc : 0 < c.length := by
            cases c with
            | nil => simp at hne
            | cons a t => simp
          split at hh
          · split at hh
            · cases hh
            · split at hh
              · cases hh
              · split at hh
                · split at hh
                  · cases hh
                  · have := ih _ _ _ _ hh
                    simp only [flat, List.map_cons, List.flatten_cons, List.length_append, List.length_cons] at this ⊢
                    omega
                · cases hh
          · cases hh
    have := this msgs 0 [] pos' out' h
    omega
  obtain ⟨scs', hs⟩ := stream_is_chain abort Generated.msgTables rootPath msgs 0 [] [] pos' out' h ((flat msgs).length + 1) hlen
  exact ⟨scs', by simpa [runWalker, initSt] using hs⟩

/-- not vacuous (kernel-evaluated): a Startup command with an out-of-range `startupType` and its response, in warn mode — a malformed
exchange that `c09_stream` does not cover — chain -/
example : (runMsgs false Generated.msgTables rootPath
    [([0x80, 0x01, 0, 0, 0, 0x0c, 0, 0, 0x01, 0x44, 0, 0x42], [0x80, 0x01, 0, 0, 0, 0x0a, 0, 0, 0, 0])] 0 []).isSome = true := by
  decide +kernel

end C09

/-! ### what the consumer of `Binary.marshal` sees: the chain, then a clean end -/

namespace C09

theorem decodeCommand_head (abort : Bool) (tb : MsgTables) (path : Path) (s0 : St) :
    Grow (emitM ⟨path, .named "Command" false, none, "", 0⟩ { s0 with scs := [⟨s0.pos, [], 0, none⟩] }) (decodeCommand abort tb path s0) := by
  unfold decodeCommand
  simp only []
  repeat' grow_step

theorem decodeResponse_head (abort : Bool) (tb : MsgTables) (cc : Option Int) (enc : Bool) (path : Path) (s0 : St) :
    Grow (emitM ⟨path, .named "Response" false, none, "", 0⟩ { s0 with scs := [⟨s0.pos, [], 0, none⟩] }) (decodeResponse abort tb cc enc path s0) := by
  unfold decodeResponse
  simp only []
  repeat' grow_step

/-- in the trace of one message decoded on its own, the only root event is the first one, stamped 0 -/
theorem roots0 {r : R Val} {x : List Byte} {ev : MEvent} {scs : List SC}
    (hgm : Tr (GM1 C14.ClassOk rootPath) (initSt x) r) (hhead : Grow (emitM ev { initSt x with scs := scs }) r) :
    RootsAt 0 (stOf r).out := by
  obtain ⟨new, o1, _, m0, E', hE, _, hrest⟩ := hgm
  obtain ⟨more, o2⟩ := hhead
  simp only [initSt, List.nil_append] at o1
  simp only [emitM, emit, initSt, List.nil_append] at o2
  rw [o1] at o2 ⊢
  intro ke hke hroot
  rw [o2] at hke
  rcases List.mem_cons.mp hke with rfl | hke
  · rfl
  · exfalso
    obtain ⟨k, e⟩ := ke
    cases e with
    | warning w => simp [isRootEllipsis] at hroot
    | marshal m =>
      have hmem : Event.marshal m ∈ E' := by
        have : new.map (·.2) = Event.marshal ev :: more.map (·.2) := by rw [o2]; rfl
        rw [this] at hE
        simp only [List.cons.injEq] at hE
        rw [← hE.2]
        exact List.mem_map_of_mem (f := (·.2)) hke
      simp only [isRootEllipsis, Bool.and_eq_true, beq_iff_eq] at hroot
      exact hrest m hmem hroot.1

theorem shOut_roots {p : Nat} {o : List (Nat × Event)} (h : RootsAt 0 o) : RootsAt p (shOut p o) := by
  intro ke hke hroot
  simp only [shOut, List.mem_map] at hke
  obtain ⟨ke0, hk0, rfl⟩ := hke
  have : isRootEllipsis ke0.2 = true := by
    cases he : ke0.2 with
    | warning w => simp [he, shEv, isRootEllipsis] at hroot
    | marshal m => simpa [he, shEv] using hroot
  simp [h ke0 hk0 this]

/-- the chain ends at the end of the input, and no root event inside it is stamped with the end of the input -/
theorem chain_inv (abort : Bool) : ∀ (msgs : List (List Byte × List Byte)) (pos : Nat) (out : List (Nat × Event)) (pos' : Nat)
    (out' : List (Nat × Event)), runMsgs abort Generated.msgTables rootPath msgs pos out = some (pos', out') →
    pos' = pos + (flat msgs).length ∧ (NoRootAt (pos + (flat msgs).length) out → NoRootAt pos' out') := by
  intro msgs
  induction msgs with
  | nil =>
    intro pos out pos' out' h
    simp only [runMsgs, Option.some.injEq, Prod.mk.injEq] at h
    obtain ⟨rfl, rfl⟩ := h
    exact ⟨by simp [flat], fun hn => by simpa [flat] using hn⟩
  | cons cr rest ih =>
    intro pos out pos' out' h
    obtain ⟨c, r⟩ := cr
    simp only [runMsgs] at h
    split at h
    · cases h
    · rename_i hne
      simp only [Bool.or_eq_true, not_or, Bool.not_eq_true] at hne
      split at h
      · rename_i cv tc hcmd
        split at h
        · cases h
        · rename_i htc
          split at h
          · cases h
          · rename_i enc henc
            split at h
            · rename_i rv tr hrsp
              split at h
              · cases h
              · rename_i htr
                have htc' : tc.inp = [] := by simpa using htc
                have htr' : tr.inp = [] := by simpa using htr
                have hcpos : tc.pos = c.length := by
                  have := decodeCommand_pi abort Generated.msgTables rootPath (initSt c)
                  rw [hcmd] at this
                  simp only [PI, stOf, initSt, htc'] at this
                  simpa using this
                have hrpos : tr.pos = r.length := by
                  have := decodeResponse_pi abort Generated.msgTables ((objField cv "commandCode").bind vInt) enc rootPath (initSt r)
                  rw [hrsp] at this
                  simp only [PI, stOf, initSt, htr'] at this
                  simpa using this
                have hc0 : 0 < c.length := by cases c with | nil => simp at hne | cons a t => simp
                have hr0 : 0 < r.length := by cases r with | nil => simp at hne | cons a t => simp
                have hflat : (flat ((c, r) :: rest)).length = c.length + r.length + (flat rest).length := by
                  simp [flat, Nat.add_assoc]
                obtain ⟨hp, hn⟩ := ih _ _ _ _ h
                refine ⟨by rw [hp, hcpos, hrpos, hflat]; omega, fun hno => ?_⟩
                have hL : pos + tc.pos + tr.pos + (flat rest).length = pos + (flat ((c, r) :: rest)).length := by
                  rw [hcpos, hrpos, hflat]; omega
                have hcr : RootsAt 0 tc.out := by
                  have h1 := decodeCommand_gd abort (C14.class_link abort) Generated.msgTables C04.c04_tables.1 rootPath (initSt c)
                  have h2 := decodeCommand_head abort Generated.msgTables rootPath (initSt c)
                  rw [hcmd] at h1 h2
                  exact roots0 h1 h2
                have hrr : RootsAt 0 tr.out := by
                  have h1 := decodeResponse_gd abort (C14.class_link abort) Generated.msgTables C04.c04_tables.1
                    ((objField cv "commandCode").bind vInt) enc rootPath (initSt r)
                  have h2 := decodeResponse_head abort Generated.msgTables ((objField cv "commandCode").bind vInt) enc rootPath (initSt r)
                  rw [hrsp] at h1 h2
                  exact roots0 h1 h2
                apply hn
                rw [hL]
                exact (hno.append (NoRootAt.of_roots (shOut_roots hcr) (by omega))).append
                  (NoRootAt.of_roots (shOut_roots hrr) (by rw [hcpos]; omega))
            · cases h
      · cases h

/-- **what `Binary.marshal` shows for a stream of arbitrary messages, either mode**: exactly the chain of the messages' own events
(with the pump's pull counts), then a clean end -/
theorem c09_stream_run (abort : Bool) (msgs : List (List Byte × List Byte)) (pos' : Nat) (out' : List (Nat × Event))
    (h : runMsgs abort Generated.msgTables rootPath msgs 0 [] = some (pos', out')) :
    (marshalRun abort Generated.msgTables .stream (flat msgs)).events = shown (flat msgs).length out' ∧
    (marshalRun abort Generated.msgTables .stream (flat msgs)).outcome = .silent := by
  obtain ⟨scs', hw⟩ := c09_stream_of_arbitrary_messages abort msgs pos' out' h
  obtain ⟨hp, hn⟩ := chain_inv abort msgs 0 [] pos' out' h
  simp only [Nat.zero_add] at hp hn
  have hno : NoRootAt pos' out' := hn (by intro ke hke; cases hke)
  have hstop := pumpEvents_stop (flat msgs).length out' (.marshal ⟨rootPath, .named "Command" false, none, "", 0⟩) [] none
    (by
      intro ke hke
      by_cases hr : isRootEllipsis ke.2 = true
      · have := hno ke hke hr
        have : (ke.1 == (flat msgs).length) = false := by rw [← hp]; simpa using Nat.ne_of_lt this
        simp [this]
      · simp [hr])
    (by simp [isRootEllipsis, rootPath])
  unfold marshalRun pump
  rw [hw]
  simp only [stOf, Top.isStream, hp] at hstop ⊢
  rw [hstop]
  simp

end C09

/-! ### the first message whose own decode fails decides the stream -/

namespace C09

/-- **a stream is decoded message by message up to and including the first message that fails (command)**: after any exchanges
that decode on their own, a command whose own decode ends in an error other than running out of input makes the stream decode end in
exactly that error (paths as they are, region ids moved by the offset), with the chain's events followed by that command's own
events — whatever bytes follow the command -/
theorem c09_first_failing_command (abort : Bool) (msgs : List (List Byte × List Byte)) (c y : List Byte) (pos' : Nat)
    (out' : List (Nat × Event)) (h : runMsgs abort Generated.msgTables rootPath msgs 0 [] = some (pos', out'))
    (e : Err) (t : St) (hc : decodeCommand abort Generated.msgTables rootPath (initSt c) = .error (e, t)) (hnd : e ≠ .depleted)
    (hne : c ≠ []) :
    ∃ t', runWalker abort Generated.msgTables .stream (flat msgs ++ (c ++ y)) = .error (shErr pos' e, t') ∧
      t'.out = out' ++ shOut pos' t.out := by
  simpa [runWalker] using stream_fails_at_command abort Generated.msgTables rootPath msgs c y pos' out' h e t hc hnd hne

/-- … and for a response (decoded under its command's code and encrypt flag) -/
theorem c09_first_failing_response (abort : Bool) (msgs : List (List Byte × List Byte)) (c r y : List Byte) (pos' : Nat)
    (out' : List (Nat × Event)) (h : runMsgs abort Generated.msgTables rootPath msgs 0 [] = some (pos', out'))
    (cv : Val) (tc : St) (hc : decodeCommand abort Generated.msgTables rootPath (initSt c) = .ok (cv, tc)) (htc : tc.inp = [])
    (hne : c ≠ []) (enc : Bool) (henc : cmdEncrypt Generated.msgTables cv = .ok enc) (e : Err) (t : St)
    (hr : decodeResponse abort Generated.msgTables ((objField cv "commandCode").bind vInt) enc rootPath (initSt r) = .error (e, t))
    (hnd : e ≠ .depleted) (hner : r ≠ []) :
    ∃ t', runWalker abort Generated.msgTables .stream (flat msgs ++ (c ++ (r ++ y))) = .error (shErr (tc.pos + pos') e, t') ∧
      t'.out = out' ++ shOut pos' tc.out ++ shOut (tc.pos + pos') t.out := by
  simpa [runWalker] using
    stream_fails_at_response abort Generated.msgTables rootPath msgs c r y pos' out' h cv tc hc htc hne enc henc e t hr hnd hner

/-- not vacuous (kernel-evaluated): in strict mode the Startup command with `startupType = 0x42` fails on its own with a value error -/
example : (match decodeCommand true Generated.msgTables rootPath (initSt [0x80, 0x01, 0, 0, 0, 0x0c, 0, 0, 0x01, 0x44, 0, 0x42]) with
    | .error (.value _ _ _, _) => true
    | _ => false) = true := by
  decide +kernel

end C09

/-! ### every stream, no hypothesis -/

namespace C09

/-- **C09 for EVERY input, either mode**: the stream decode of any byte string — well-formed or not, complete or cut short, whatever
its outcome — is the iteration of its messages' own decodes (`iterMsgs`, TpmProofs/Shift.lean): the next command decoded on its own
from a fresh state on the remaining input, its response decoded on its own on what the command left, under the command's code and
the encrypt flag of the command's sessions, and so on — same outcome, same final position, same events in the same order (stamps,
and region ids inside warnings and errors, moved to where the message stands).  Message boundaries are what each decode leaves. -/
theorem c09_every_stream (abort : Bool) (x : List Byte) :
    projR (runWalker abort Generated.msgTables .stream x) = iterMsgs abort Generated.msgTables rootPath (x.length + 1) x 0 [] := by
  simpa [runWalker, initSt] using stream_is_iteration abort Generated.msgTables rootPath (x.length + 1) x 0 [] []

/-- not vacuous, and the iteration computes (kernel-evaluated): a Startup exchange followed by a command cut short after its tag ends
`depleted` at offset 24 in strict mode -/
example : (match iterMsgs true Generated.msgTables rootPath 30
      [0x80, 0x01, 0, 0, 0, 0x0c, 0, 0, 0x01, 0x44, 0, 0, 0x80, 0x01, 0, 0, 0, 0x0a, 0, 0, 0, 0, 0x80, 0x01] 0 [] with
    | .error (.depleted, p, _) => p
    | _ => 0) = 24 := by
  decide +kernel

end C09

/-! ### … and what the consumer of `Binary.marshal` sees of it -/

namespace C09

/-- the byte pump on what a run shows (outcome, final position, trace); a stream decode that completes returns no value -/
def pumpP (x : List Byte) (p : Except (Err × Nat × List (Nat × Event)) (Nat × List (Nat × Event))) : Run :=
  match p with
  | .ok (pos, out) =>
    let pe := pumpEvents true x.length out [] none
    ⟨pe.1, if pe.2.2 then .silent else pumpOutcome x pos (.ok .none), pe.2.1⟩
  | .error (e, pos, out) =>
    let pe := pumpEvents true x.length out [] none
    ⟨pe.1, if pe.2.2 then .silent else pumpOutcome x pos (.error e), pe.2.1⟩

theorem decodeStream_none (abort : Bool) (tb : MsgTables) (path : Path) :
    ∀ (fuel : Nat) (s : St) (v : Val) (t : St), decodeStream abort tb path fuel s = .ok (v, t) → v = .none := by
  intro fuel
  induction fuel with
  | zero => intro s v t h; simp [decodeStream, crash] at h
  | succ n ih =>
    intro s v t h
    rw [decodeStream] at h
    split at h
    · simp only [Except.ok.injEq, Prod.mk.injEq] at h; exact h.1.symm
    · cases hc : decodeCommand abort tb path s with
      | error e => rw [hc] at h; simp [R.bind] at h
      | ok ct =>
        obtain ⟨cmd, s1⟩ := ct
        rw [hc] at h
        simp only [R.bind_ok] at h
        split at h
        · simp [crash] at h
        · split at h
          · simp only [Except.ok.injEq, Prod.mk.injEq] at h; exact h.1.symm
          · cases hr : decodeResponse abort tb ((objField cmd "commandCode").bind vInt) _ path s1 with
            | error e => rw [hr] at h; simp [R.bind] at h
            | ok rt =>
              obtain ⟨rv, s2⟩ := rt
              rw [hr] at h
              simp only [R.bind_ok] at h
              exact ih _ _ _ h

/-- **what `Binary.marshal` shows for EVERY stream input, either mode**: the byte pump applied to the iteration of the messages' own
decodes — events with their pull counts, outcome (clean end, depleted, an error of a message moved to where it stands), command code -/
theorem c09_every_stream_run (abort : Bool) (x : List Byte) :
    marshalRun abort Generated.msgTables .stream x = pumpP x (iterMsgs abort Generated.msgTables rootPath (x.length + 1) x 0 []) := by
  rw [← c09_every_stream]
  unfold marshalRun pump pumpP projR
  cases h : runWalker abort Generated.msgTables .stream x with
  | error es =>
    obtain ⟨e, s⟩ := es
    simp only [stOf, resOf, Top.isStream]
    by_cases hb : (pumpEvents true x.length s.out [] none).2.2 = true <;> simp [hb]
  | ok vs =>
    obtain ⟨v, s⟩ := vs
    have hv : v = .none := by
      unfold runWalker at h
      exact decodeStream_none abort Generated.msgTables rootPath _ _ _ _ h
    subst hv
    simp only [stOf, resOf, Top.isStream]
    by_cases hb : (pumpEvents true x.length s.out [] none).2.2 = true <;> simp [hb]

end C09

namespace C09

/-- the iteration never runs out of fuel and never ends in an internal error of its own: the only internal error it can report is
the known assertion of `process_response` (either mode, every input) — so `c09_every_stream` describes every stream decode by
outcomes the decoder documents -/
theorem c09_iteration_total (abort : Bool) (x : List Byte) (c m : String) (p : Nat) (o : List (Nat × Event))
    (h : iterMsgs abort Generated.msgTables rootPath (x.length + 1) x 0 [] = .error (.crash c m, p, o)) : isMismatch c m := by
  rw [← c09_every_stream] at h
  have hncx : NCX (runWalker abort Generated.msgTables .stream x) := by
    unfold runWalker
    cases abort with
    | true => exact decodeStream_ncx Generated.msgTables C06.c06_msg_tables.1 C06.c06_msg_tables.2 rootPath _ _ (by simp [initSt])
    | false => exact decodeStream_ncxw Generated.msgTables C06.c06_msg_tables.1 rootPath _ _ (by simp [initSt])
  cases hr : runWalker abort Generated.msgTables .stream x with
  | ok vs => rw [hr] at h; obtain ⟨v, s⟩ := vs; simp [projR] at h
  | error es =>
    obtain ⟨e, s⟩ := es
    rw [hr] at h
    simp only [projR, Except.error.injEq, Prod.mk.injEq] at h
    exact hncx c m s (by rw [hr, h.1])

end C09
