import TpmProofs.Shift
import TpmModel.Generated.Cmd
/-!
# C09 — a stream of ARBITRARY messages decodes as its messages decoded one by one (either mode)

`Props/MsgWF.lean` (`c09_stream`) proves the pairing for sequences of *well-formed* exchanges in strict mode.  Here the statement is
freed from well-formedness and from the mode: take any byte strings `c₁, r₁, …, cₙ, rₙ`; decode each command and each response ON
ITS OWN bytes from a fresh state — the response under its command's code and the encrypt flag of its command's sessions (`runMsgs`);
if each of those decodes completes and consumes exactly its bytes (in warn mode that includes malformed messages whose problems
are reported as warnings), then the stream decode of `c₁ r₁ … cₙ rₙ` is the chain of those decodes: the same events in the same
order, stamped with the running offset (region ids inside warnings move along), followed by the clean stop.

From `TpmProofs/Shift.lean`: for every walker, either mode, the run from a state that lies `d` bytes further into a longer input is
the shifted run — unless the run ends for lack of input (`decode_sh`, `decodeCommand_sh`, `decodeResponse_sh`; an equation, proved
like the re-rooting equation).
-/
namespace C09

theorem c09_stream_of_arbitrary_messages (abort : Bool) (msgs : List (List Byte × List Byte)) (pos' : Nat) (out' : List (Nat × Event))
    (h : runMsgs abort Generated.msgTables rootPath msgs 0 [] = some (pos', out')) :
    ∃ scs', runWalker abort Generated.msgTables .stream (flat msgs) =
      .ok (.none, ⟨[], pos', out' ++ [(pos', .marshal ⟨rootPath, .named "Command" false, none, "", 0⟩)], scs'⟩) := by
  have hlen : msgs.length < (flat msgs).length + 1 := by
    -- every exchange accepted by `runMsgs` is non-empty
    have : ∀ (ms : List (List Byte × List Byte)) p o p' o', runMsgs abort Generated.msgTables rootPath ms p o = some (p', o') →
        ms.length ≤ (flat ms).length := by
      intro ms
      induction ms with
      | nil => intro p o p' o' _; simp
      | cons cr rest ih =>
        intro p o p' o' hh
        obtain ⟨c, r⟩ := cr
        simp only [runMsgs] at hh
        split at hh
        · cases hh
        · rename_i hne
          simp only [Bool.or_eq_true, not_or, Bool.not_eq_true] at hne
          have hc : 0 < c.length := by
            cases c with
            | nil => simp at hne
            | cons a t => simp
          split at hh
          · split at hh
            · cases hh
            · split at hh
              · cases hh
              · split at hh
                · split at hh
                  · cases hh
                  · have := ih _ _ _ _ hh
                    simp only [flat, List.map_cons, List.flatten_cons, List.length_append, List.length_cons] at this ⊢
                    omega
                · cases hh
          · cases hh
    have := this msgs 0 [] pos' out' h
    omega
  obtain ⟨scs', hs⟩ := stream_is_chain abort Generated.msgTables rootPath msgs 0 [] [] pos' out' h ((flat msgs).length + 1) hlen
  exact ⟨scs', by simpa [runWalker, initSt] using hs⟩

/-- not vacuous (kernel-evaluated): a Startup command with an out-of-range `startupType` and its response, in warn mode — a malformed
exchange that `c09_stream` does not cover — chain -/
example : (runMsgs false Generated.msgTables rootPath
    [([0x80, 0x01, 0, 0, 0, 0x0c, 0, 0, 0x01, 0x44, 0, 0x42], [0x80, 0x01, 0, 0, 0, 0x0a, 0, 0, 0, 0])] 0 []).isSome = true := by
  decide +kernel

end C09
