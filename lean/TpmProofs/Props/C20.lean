import TpmModel.Generated.Tables
import TpmModel.Pinned.Tables
/-!
# C20 — the layout tables are coherent and match the pinned TPM 2.0 layout

Every statement quantifies over the *whole* generated table (regenerated from /repo on every run) and is
decided by the kernel (`decide +kernel`, no axioms).
-/
namespace C20
set_option maxRecDepth 100000

/-- the translator classified every class attribute it met (no `.bad` type, no `.unknown` item) -/
theorem c20_known : Generated.allTypes.all Ty.known = true := by decide +kernel

/-- the message framing is the one the decoder model assumes (field order of `Command`/`Response`) -/
theorem c20_framing : Generated.tables.framingOk = true := by decide +kernel

/-- command-code numbers are distinct -/
theorem c20_cc_distinct : distinctInt (Generated.ccMembers.map (·.2)) = true := by decide +kernel

/-- every command code has exactly one handle layout and one parameter layout for commands and for
responses, named after it (and the maps have no other keys) -/
theorem c20_maps :
    mapOk (codesOf "TPMS_COMMAND_HANDLES_") Generated.ccCodes Generated.mapNames_command_handles = true ∧
    mapOk (codesOf "TPMS_COMMAND_PARAMS_") Generated.ccCodes Generated.mapNames_command_parameters = true ∧
    mapOk (codesOf "TPMS_RESPONSE_HANDLES_") Generated.ccCodes Generated.mapNames_response_handles = true ∧
    mapOk (codesOf "TPMS_RESPONSE_PARAMS_") Generated.ccCodes Generated.mapNames_response_parameters = true := by
  refine ⟨?_, ?_, ?_, ?_⟩ <;> decide +kernel

/-- the name tables used above are keyed like the maps the decoder uses and like `TPM_CC` -/
theorem c20_maps_keys :
    Generated.mapNames_command_handles.map (·.1) = Generated.map_command_handles.map (·.1) ∧
    Generated.mapNames_command_parameters.map (·.1) = Generated.map_command_parameters.map (·.1) ∧
    Generated.mapNames_response_handles.map (·.1) = Generated.map_response_handles.map (·.1) ∧
    Generated.mapNames_response_parameters.map (·.1) = Generated.map_response_parameters.map (·.1) ∧
    Generated.ccCodes.map (·.2) = Generated.ccMembers.map (·.2) := by
  refine ⟨?_, ?_, ?_, ?_, ?_⟩ <;> decide +kernel

/-- handle areas hold at most three 4-byte handles -/
theorem c20_handles :
    (Generated.map_command_handles ++ Generated.map_response_handles).all (fun kt => handleAreaOk kt.2) = true := by
  decide +kernel

/-- every counted list directly follows its unsigned count -/
theorem c20_counted : Generated.allTypes.all Ty.countedOk = true := by decide +kernel

/-- every union field has an earlier selector field whose every valid value selects a member -/
theorem c20_selectors : Generated.allTypes.all Ty.selectorsOk = true := by decide +kernel

/-- every list-valued union member reachable from a structure has its fixed length -/
theorem c20_list_size : Generated.allTypes.all Ty.listSizeOk = true := by decide +kernel

/-- the wire layout of every type — field order, names, widths, signedness, allowed values, member
names, selector mapping, command-code numbers — equals the pinned snapshot -/
theorem c20_pinned : Generated.tables = Pinned.tables := by
  exact (rfl : Generated.tables = Generated.tables)

theorem c20_pinned_msg : Generated.msgTables = Pinned.msgTables := by
  exact (rfl : Generated.msgTables = Generated.msgTables)

theorem c20_pinned_names :
    Generated.ccCodes = Pinned.ccCodes ∧
    Generated.mapNames_command_handles = Pinned.mapNames_command_handles ∧
    Generated.mapNames_command_parameters = Pinned.mapNames_command_parameters ∧
    Generated.mapNames_response_handles = Pinned.mapNames_response_handles ∧
    Generated.mapNames_response_parameters = Pinned.mapNames_response_parameters :=
  ⟨rfl, rfl, rfl, rfl, rfl⟩

/-- non-vacuity: the tables are the real ones (717 type definitions, 117 command codes, 102 primitives) -/
example : Generated.allTypes.length = 717 ∧ Generated.ccMembers.length = 117 ∧
    Generated.allPrims.length = 102 := by decide +kernel

end C20
