import TpmProofs.Lenient
import TpmProofs.Props.C08V
import TpmProofs.Modes
import TpmProofs.MsgOk
import TpmProofs.Props.AcceptIff
/-!
# C08 — the value-only clause: warn mode = the lenient field-by-field interpretation + one warning after each offending field

*Lenient interpretation* = strict decoding under the same tables with every declared set widened to "any integer of the field's
width" (`MsgTables.relax` / `Ty.relax`: structure, names, widths, signedness, selectors, counts, command-code maps untouched).  It accepts
an input exactly when the input's sizes, counts and selectors are consistent — i.e. when out-of-range values are the only thing
that can be wrong with it.

For every layout of /repo, commands, responses (any command code, either flag), streams and EVERY input that the lenient
interpretation accepts (`TpmProofs/Lenient.lean`, a simulation between the two runs; no side conditions on the tables):

* `c08_lenient_object`: warn mode returns the same object and consumes the same input;
* `c08_lenient_events`: the warn-mode trace with its value warnings erased IS the lenient trace (same events, same stamps);
* `c08_lenient_only_value_warnings`: the only warnings warn mode emits are value warnings;
* with `C08V`: each of them stands directly behind the event of the field it names, and every field with a disallowed value has one.

That is the statement "when the only problems are out-of-range field values the events equal the lenient field-by-field
interpretation with one warning directly after each offending event".
-/
namespace C08

theorem c08_lenient (top : Top) (x : List Byte) (v : Val) (t' : St)
    (h : runWalker true Generated.msgTables.relax top.relax x = .ok (v, t')) :
    ∃ t, runWalker false Generated.msgTables top x = .ok (v, t) ∧ t'.out = eraseVW t.out ∧ t'.inp = t.inp ∧ t'.pos = t.pos :=
  runWalker_sim Generated.msgTables top x v t' h

/-- same object, same input consumed -/
theorem c08_lenient_object (top : Top) (x : List Byte) (v : Val) (t' : St)
    (h : runWalker true Generated.msgTables.relax top.relax x = .ok (v, t')) :
    ∃ t, runWalker false Generated.msgTables top x = .ok (v, t) ∧ t.inp = t'.inp := by
  obtain ⟨t, ht, _, hi, _⟩ := c08_lenient top x v t' h
  exact ⟨t, ht, hi.symm⟩

/-- the warn-mode trace without its value warnings is the lenient trace -/
theorem c08_lenient_events (top : Top) (x : List Byte) (v : Val) (t' : St)
    (h : runWalker true Generated.msgTables.relax top.relax x = .ok (v, t')) :
    eraseVW (stOf (runWalker false Generated.msgTables top x)).out = (stOf (runWalker true Generated.msgTables.relax top.relax x)).out := by
  obtain ⟨t, ht, ho, _, _⟩ := c08_lenient top x v t' h
  rw [ht, h]; exact ho.symm

/-- … and there are no other warnings in it -/
theorem c08_lenient_only_value_warnings (top : Top) (x : List Byte) (v : Val) (t' : St)
    (h : runWalker true Generated.msgTables.relax top.relax x = .ok (v, t')) :
    ∀ ke ∈ (stOf (runWalker false Generated.msgTables top x)).out, ∀ w, ke.2 = .warning w → ∃ pa c y, w = .value pa c y := by
  obtain ⟨t, ht, ho, _, _⟩ := c08_lenient top x v t' h
  rw [ht]
  intro ke hke w hw
  simp only [stOf] at hke
  -- if `ke` were not a value warning it would survive the erasure and be a warning in a strict trace
  by_cases hv : isVW ke.2 = true
  · rw [hw] at hv
    cases w <;> simp [isVW] at hv
    exact ⟨_, _, _, rfl⟩
  · have hmem : ke ∈ eraseVW t.out := by
      simp only [eraseVW, List.mem_filter]
      exact ⟨hke, by simpa using hv⟩
    rw [← ho] at hmem
    have hnw := runWalker_nw Generated.msgTables.relax top.relax x ke (by rw [h]; exact hmem)
    rw [hw] at hnw
    simp [Event.isMarshal] at hnw

/-! ### what "the lenient interpretation accepts" means, in terms of the specification

Over the relaxed tables acceptance is well-formedness with respect to the *relaxed* specification: every size field equals the
length of what it governs, every count the number of elements, selectors pick a member, sessions iff the tag says so — and no
condition on the values. -/

/-- (tables) the relaxed tables meet the side conditions of the soundness theorems -/
theorem relaxed_tables_wf : Generated.msgTables.relax.wf = true := by decide +kernel

/-- **commands**: the lenient interpretation accepts `x` (and consumes it) iff `x` is a well-formed command of the relaxed specification -/
theorem c08_lenient_command_iff (x : List Byte) (v : Val) :
    (∃ s', runWalker true Generated.msgTables.relax .command x = .ok (v, s') ∧ s'.inp = []) ↔
      ∃ p evs, v = p.toVal ∧ specCommand Generated.msgTables.relax rootPath p = some (x, evs) := by
  constructor
  · rintro ⟨s', hw, hinp⟩
    obtain ⟨p, bs, evs, hv, hspec, hi, _, _, _⟩ := decodeCommand_sound Generated.msgTables.relax relaxed_tables_wf rootPath (initSt x) s' v
      (by simpa [runWalker] using hw)
    simp only [initSt, hinp, List.append_nil] at hi
    exact ⟨p, evs, hv, by rw [hspec, hi]⟩
  · rintro ⟨p, evs, rfl, h⟩
    have := decodeCommand_ok Generated.msgTables.relax rootPath p x evs (by decide) h [] 0 [] []
    exact ⟨_, by simpa [runWalker, initSt] using this, rfl⟩

/-- **responses** (any command code, either flag): likewise -/
theorem c08_lenient_response_iff (cc : Option Int) (enc : Bool) (x : List Byte) (v : Val) :
    (∃ s', runWalker true Generated.msgTables.relax (.response cc enc) x = .ok (v, s') ∧ s'.inp = []) ↔
      ∃ p evs, v = p.toVal ∧ specResponse Generated.msgTables.relax cc enc rootPath p = some (x, evs) := by
  constructor
  · rintro ⟨s', hw, hinp⟩
    obtain ⟨p, bs, evs, hv, hspec, hi, _, _, _⟩ := decodeResponse_sound Generated.msgTables.relax relaxed_tables_wf cc enc rootPath (initSt x) s' v
      (by simpa [runWalker] using hw)
    simp only [initSt, hinp, List.append_nil] at hi
    exact ⟨p, evs, hv, by rw [hspec, hi]⟩
  · rintro ⟨p, evs, rfl, h⟩
    have := decodeResponse_ok Generated.msgTables.relax cc enc rootPath p x evs (by decide) h [] 0 [] []
    exact ⟨_, by simpa [runWalker, initSt] using this, rfl⟩

/-- not vacuous: the lenient interpretation accepts the Startup command whose `startupType` is 0x42 (strict decoding under the
real tables rejects it), kernel-evaluated -/
example : (match runWalker true Generated.msgTables.relax Top.command.relax
      [0x80, 0x01, 0x00, 0x00, 0x00, 0x0c, 0x00, 0x00, 0x01, 0x44, 0x00, 0x42] with
    | .ok _ => true | .error _ => false) = true ∧
    (match runWalker true Generated.msgTables Top.command
      [0x80, 0x01, 0x00, 0x00, 0x00, 0x0c, 0x00, 0x00, 0x01, 0x44, 0x00, 0x42] with
    | .ok _ => true | .error _ => false) = false := by decide +kernel

end C08
