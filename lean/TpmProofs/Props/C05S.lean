import TpmProofs.TruncStreamPump
import TpmProofs.Props.AcceptIff
import TpmProofs.Props.C05
import TpmProofs.Props.C10
import TpmProofs.StreamSilent
import TpmProofs.Props.C04
/-!
# C05 / C10 for command/response streams: a stream cut anywhere

The stream loop looks at the end of its input, so these are separate from the theorems for structures, commands and
responses (`C05.c05_truncated`, `C10.c10_prefix_stable`).  Every input, every cut point.
-/

namespace C05

/-- **C05, truncated stream, any input**: if strict decoding of the stream `x` consumes more than `k` bytes — whether it then
ends cleanly, or rejects `x` — decoding the first `k` bytes ends with `InputStreamBytesDepletedError`, or silently when the
cut falls exactly where the run on `x` starts its next message; it has then shown exactly the events the run on `x` emits up
to byte count `k` (the fields that are complete within the prefix, in order), minus the announcement of the message that would
start at the cut.  (That a stream run ends silently *only* at a message boundary of a well-formed stream is
`c05_stream_silent_iff` below.) -/
theorem c05_stream_truncated (x : List Byte) (k : Nat) (hk : k < consumed Generated.msgTables .stream x) :
    ((marshalRun true Generated.msgTables .stream (x.take k)).outcome = .depleted ∨
     (marshalRun true Generated.msgTables .stream (x.take k)).outcome = .silent) ∧
    (marshalRun true Generated.msgTables .stream (x.take k)).evs =
      (beforeStop k ((traceOf Generated.msgTables .stream x).filter fun ke => ke.1 ≤ k)).map (·.2) :=
  stream_truncated Generated.msgTables AcceptIff.tables_wf x k hk

/-- the walker on the prefix: stopped after exactly the `k` bytes, with exactly the full run's events up to that count -/
theorem c05_stream_walker (x : List Byte) (k : Nat) (hk : k < consumed Generated.msgTables .stream x) :
    ∃ t, (runWalker true Generated.msgTables .stream (x.take k) = .error (.depleted, t) ∨
          runWalker true Generated.msgTables .stream (x.take k) = .ok (.none, t)) ∧ t.inp = [] ∧ t.pos = k ∧
      t.out = (traceOf Generated.msgTables .stream x).filter fun ke => ke.1 ≤ k :=
  truncated_stream_walker Generated.msgTables AcceptIff.tables_wf x k hk

/-- non-vacuity: a `TPM2_Startup` command (12 bytes) is consumed entirely by the stream decoder -/
example : consumed Generated.msgTables .stream [0x80, 0x01, 0, 0, 0, 0x0c, 0, 0, 0x01, 0x44, 0, 0] = 12 := by
  decide +kernel

/-- **C05, a stream may end cleanly only at a message boundary** (every input): a strict stream decode ends without an error
— silently — if and only if the input is a sequence of well-formed exchanges, each response well-formed for its command's code
and encryption flag, optionally followed by one well-formed command -/
theorem c05_stream_silent_iff (x : List Byte) :
    (marshalRun true Generated.msgTables .stream x).outcome = .silent ↔
      ∃ xs last evs, specStream Generated.msgTables rootPath last xs = some (x, evs) := by
  constructor
  · intro h
    exact (AcceptIff.stream_accept_iff x).mp
      (silent_walker_ok C04.strict_link Generated.msgTables C04.c04_tables.1 AcceptIff.tables_wf x h)
  · rintro ⟨xs, last, evs, h⟩
    rw [MsgWF.c09_stream last xs x evs h]

end C05

namespace C10

/-- **C10, prefix stability for streams**: for every input and every cut point, the events shown for the first `k` bytes of a
stream are a prefix of the events shown for the whole stream -/
theorem c10_stream_prefix_stable (x : List Byte) (k : Nat) :
    (marshalRun true Generated.msgTables .stream (x.take k)).evs <+: (marshalRun true Generated.msgTables .stream x).evs :=
  stream_prefix_stable Generated.msgTables AcceptIff.tables_wf x k

end C10
