import TpmProofs.DecodeOk
import TpmModel.Pump
import TpmModel.Generated.Tables
import TpmProofs.Props.MsgWF
/-!
# C01 — well-formed encodings decode to exactly the field-by-field event sequence

`spec` (TpmModel/Spec.lean) is the reading of the layout tables: a value tree conforms to a layout iff
`spec` is `some`, and then it has exactly one encoding and one event list.  The theorems say that the
strict-mode walker, for *every* layout expressible in the table datatype (not just today's 717), every
conforming value, every continuation and every stack of enclosing regions with room, produces exactly
those events and that value and consumes exactly that encoding.
-/
namespace C01

/-- walker level, any context (continuation `rest`, position, trace so far, enclosing regions) -/
theorem c01_walker (t : Ty) (path : Path) (sel : Option Int) (v : Val) (bs : List Byte) (evs : List SEv)
    (h : spec t path sel v = some (bs, evs)) (rest : List Byte) (pos : Nat) (out : List (Nat × Event))
    (scs : List SC) (hroom : Room scs bs.length) (hfresh : Fresh scs pos) :
    decode true t path sel ⟨bs ++ rest, pos, out, scs⟩ = .ok (v, post rest pos out evs scs bs.length) :=
  decode_ok t path sel v bs evs h rest pos out scs hroom hfresh

/-- top level: `process(T, root)` on exactly the encoding returns the value, the dictated events (stamped
with the number of bytes consumed when each was emitted), nothing left over, no region left open -/
theorem c01_top (t : Ty) (v : Val) (bs : List Byte) (evs : List SEv)
    (h : spec t rootPath none v = some (bs, evs)) (tb : MsgTables) :
    runWalker true tb (.ty t) bs = .ok (v, ⟨[], bs.length, stamp 0 evs, []⟩) := by
  have := decode_ok t rootPath none v bs evs h [] 0 [] [] (by intro c hc; cases hc) (by intro c hc; cases hc)
  simpa [runWalker, initSt, post, bump] using this

/-- non-vacuity: over the real (regenerated) tables, a `TPML_DIGEST_VALUES` with a null arm and a SHA-1
arm conforms, and its encoding and events are what one expects (28 bytes, 30 events) -/
def exampleDigests : Val := .obj "TPML_DIGEST_VALUES" false
  [("count", .int "UINT32" 2),
   ("digests", .list [
      .obj "TPMT_HA" false [("hashAlg", .int "TPMI_ALG_HASH" 16), ("digest", .none)],
      .obj "TPMT_HA" false [("hashAlg", .int "TPMI_ALG_HASH" 4),
        ("digest", .obj "TPMU_HA" false [("sha1", .list ((List.range 20).map fun (i : Nat) => Val.int "BYTE" (i : Int)))])]])]

set_option maxRecDepth 100000 in
example : ((spec Generated.T_TPML_DIGEST_VALUES rootPath none exampleDigests).map
    (fun be => (be.1.length, be.2.length))) = some (28, 30) := by decide +kernel

-- … and the walker model, run by the kernel on that encoding, ends with nothing left and 30 events
set_option maxRecDepth 100000 in
example : (match spec Generated.T_TPML_DIGEST_VALUES rootPath none exampleDigests with
    | some (bs, _) => (match runWalker true Generated.msgTables (.ty Generated.T_TPML_DIGEST_VALUES) bs with
        | .ok (_, s) => (s.inp.length, s.out.length) | _ => (1, 0))
    | none => (2, 0)) = (0, 30) := by decide +kernel

end C01
