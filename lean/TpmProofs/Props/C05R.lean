import TpmProofs.Reroot
import TpmProofs.Props.C14S
/-!
# C05 / C10 / C09 below a caller-supplied root path: `Binary.marshal(..., root_path=R)`

`TpmModel/Root.lean` models the run with the walker started at `R` and the pump recognising the root event and the command code
relative to `R` (the behaviour after the repair 7ba2aa4).  `TpmProofs/Reroot.lean` proves, as an equation for every walker, that
re-rooting commutes with decoding; here it is instantiated for the tables of /repo: **for every layout, command, response and
stream, either mode, every root `R` and EVERY input, the observation below `R` is the default-root observation with `R` put in
place of the root** — same events (paths re-rooted), same pull counts, same outcome (a stream ends silently below `R` exactly when it
does at the default root; depleted / superfluous / raised alike, error paths re-rooted), same command code.  So every theorem about
`marshalRun` (C01–C13) carries over to any root path.
-/
namespace C05

theorem rooted_trace (abort : Bool) (top : Top) (htop : ∀ t, top = .ty t → t ∈ Generated.allTypes) (x : List Byte) :
    Rooted (stOf (runWalker abort Generated.msgTables top x)).out := by
  obtain ⟨new, ho, hgd⟩ := runWalker_gd abort (C14.class_link abort) Generated.msgTables C04.c04_tables.1 top
    (fun t ht => List.all_eq_true.mp C04.c04_tables.2 t (htop t ht)) x
  simp only [initSt, List.nil_append] at ho
  intro ke hke m hm
  rw [ho] at hke
  have : Event.marshal m ∈ new.map (·.2) := by rw [← hm]; exact List.mem_map_of_mem hke
  obtain ⟨⟨r, hr, _⟩, _⟩ := hgd.1 m this
  exact ⟨r, hr⟩

/-- **the observation below any root is the default-root observation, re-rooted** -/
theorem c05_root_path (abort : Bool) (top : Top) (htop : ∀ t, top = .ty t → t ∈ Generated.allTypes) (Rt : Path) (x : List Byte) :
    marshalRunAt abort Generated.msgTables top Rt x = mapRun (rr Rt) (marshalRun abort Generated.msgTables top x) :=
  marshalRunAt_rr abort Generated.msgTables top Rt x (rooted_trace abort top htop x)

/-- in particular the outcome: a stream below `R` ends cleanly exactly when it does at the default root -/
theorem c05_root_path_silent (abort : Bool) (Rt : Path) (x : List Byte) :
    (marshalRunAt abort Generated.msgTables .stream Rt x).outcome = .silent ↔
      (marshalRun abort Generated.msgTables .stream x).outcome = .silent := by
  rw [c05_root_path abort .stream (fun t ht => by cases ht) Rt x]
  simp only [mapRun]
  cases (marshalRun abort Generated.msgTables .stream x).outcome <;> simp [mapOutcome]

/-- not vacuous: a Startup command and its response as a stream below the root `.log.entry` end silently (kernel-evaluated) -/
example : (match (marshalRunAt true Generated.msgTables .stream (rootPath ++ [⟨"log", none⟩, ⟨"entry", none⟩])
      [0x80, 0x01, 0, 0, 0, 0x0c, 0, 0, 0x01, 0x44, 0, 0, 0x80, 0x01, 0, 0, 0, 0x0a, 0, 0, 0, 0]).outcome with
    | .silent => true | _ => false) = true := by decide +kernel

end C05
