import TpmModel.Prim
import TpmModel.Generated.Prims
import TpmModel.Generated.Misc
import TpmProofs.BE
/-!
# C16 — protocol integers carry their value, width, validity and name faithfully
-/
namespace C16

/-! ### byte form: big-endian two's complement of the declared width -/

/-- width: every typed integer serialises to exactly the declared number of bytes -/
theorem c16_width (size : Nat) (x : Int) : (intToBytes size x).length = size := intToBytes_length size x

/-- decoding the byte form gives the integer back, for every integer representable in the width
(both signednesses, every width) -/
theorem c16_roundtrip (size : Nat) (signed : Bool) (x : Int) (h : inRange size signed x = true) :
    intOfBytes size signed (intToBytes size x) = x := intOfBytes_intToBytes size signed x h

/-- and every byte string of the declared width is the byte form of the integer it decodes to -/
theorem c16_roundtrip_bytes (size : Nat) (signed : Bool) (bs : List Byte) (h : bs.length = size) :
    intToBytes size (intOfBytes size signed bs) = bs := intToBytes_intOfBytes size signed bs h

def itemOwnerAgrees (size : Nat) (signed : Bool) : VItem → Bool
  | .named _ _ _ _ _ os og => os == size && og == signed
  | .member _ _ _ os og => os == size && og == signed
  | _ => true

/-- the enum classes a type's values are looked up in have the type's own width and signedness
(Python's `to_bytes` delegates to the looked-up instance) -/
def ownersAgree (p : Prim) : Bool := p.valid.all (itemOwnerAgrees p.size p.signed)

/-- (tables) … which holds for all 102 primitive types in `/repo` -/
theorem c16_owners_tables : Generated.allPrims.all ownersAgree = true := by decide +kernel

/-- so the byte form Python produces (with its delegation) is the declared-width encoding -/
theorem c16_toBytes_declared (p : Prim) (x : Int) (h : ownersAgree p = true) :
    p.toBytes x = intToBytes p.size x := by
  unfold Prim.toBytes Prim.wireOf
  cases hf : p.flavour <;> simp only []
  cases hg : p.getItem x with
  | none => rfl
  | some it =>
    have hmem : it ∈ p.valid := List.mem_of_find?_eq_some hg
    have := List.all_eq_true.mp h it hmem
    cases it <;> simp_all [itemOwnerAgrees]

/-! ### validity: membership in the declared set -/

/-- the declared set of a type, as a predicate on integers -/
def declared (p : Prim) (x : Int) : Prop :=
  ∃ it ∈ p.valid, match it with
    | .range lo hi => lo ≤ x ∧ x < hi
    | .named _ _ lo hi _ _ _ => lo ≤ x ∧ x < hi
    | .member _ _ v _ _ => x = v
    | .int v => x = v
    | .unknown _ => False

/-- a typed value is reported valid exactly when the integer belongs to the declared set —
for every integer, not only those representable in the width -/
theorem c16_valid_iff (p : Prim) (x : Int) : p.isValid x = true ↔ declared p x := by
  unfold Prim.isValid declared
  rw [List.any_eq_true]
  constructor
  · rintro ⟨it, hm, hh⟩
    refine ⟨it, hm, ?_⟩
    cases it <;> simp_all [VItem.has]
  · rintro ⟨it, hm, hh⟩
    refine ⟨it, hm, ?_⟩
    cases it <;> simp_all [VItem.has]

def itemWithin (size : Nat) (signed : Bool) : VItem → Bool
  | .range lo hi => decide (hi ≤ lo) || (inRange size signed lo && inRange size signed (hi - 1))
  | .named _ _ lo hi _ _ _ => decide (hi ≤ lo) || (inRange size signed lo && inRange size signed (hi - 1))
  | .member _ _ v _ _ => inRange size signed v
  | .int v => inRange size signed v
  | .unknown _ => false

/-- (tables) every declared value of every type is representable in the type's width -/
theorem c16_declared_fit_tables :
    Generated.allPrims.all (fun p => p.valid.all (itemWithin p.size p.signed)) = true := by decide +kernel

theorem inRange_between (size : Nat) (signed : Bool) (lo hi x : Int)
    (hlo : inRange size signed lo = true) (hhi : inRange size signed hi = true) (h1 : lo ≤ x) (h2 : x ≤ hi) :
    inRange size signed x = true := by
  unfold inRange at *
  cases signed <;> simp_all <;> omega

/-- a valid value never overflows `to_bytes` -/
theorem c16_valid_fits (p : Prim) (x : Int) (ht : p.valid.all (itemWithin p.size p.signed) = true)
    (hv : p.isValid x = true) : inRange p.size p.signed x = true := by
  unfold Prim.isValid at hv
  rw [List.any_eq_true] at hv
  obtain ⟨it, hm, hh⟩ := hv
  have hw := List.all_eq_true.mp ht it hm
  cases it with
  | range lo hi =>
    simp only [VItem.has, Bool.and_eq_true, decide_eq_true_eq] at hh
    simp only [itemWithin, Bool.or_eq_true, decide_eq_true_eq, Bool.and_eq_true] at hw
    rcases hw with hw | hw
    · omega
    · exact inRange_between _ _ lo (hi - 1) x hw.1 hw.2 hh.1 (by omega)
  | named o b lo hi n os og =>
    simp only [VItem.has, Bool.and_eq_true, decide_eq_true_eq] at hh
    simp only [itemWithin, Bool.or_eq_true, decide_eq_true_eq, Bool.and_eq_true] at hw
    rcases hw with hw | hw
    · omega
    · exact inRange_between _ _ lo (hi - 1) x hw.1 hw.2 hh.1 (by omega)
  | member o n v os og =>
    simp only [VItem.has, decide_eq_true_eq] at hh
    subst hh; exact hw
  | int v =>
    simp only [VItem.has, decide_eq_true_eq] at hh
    subst hh; exact hw
  | unknown r => simp [VItem.has] at hh

/-! ### text form -/

/-- enumeration types: the text form is the name of the first declared member with that value
(aliases such as `SHA`/`SHA1` resolve to the first), `Type.None` when there is none -/
theorem c16_format_enum_member (p : Prim) (rc : Nat → Option String) (x : Int) (o n : String) (v : Int)
    (os : Nat) (og : Bool) (hf : p.flavour = .enum) (hm : p.byValue x = some (.member o n v os og)) :
    p.format rc x = p.name ++ "." ++ n := by
  simp [Prim.format, hf, hm]

/-- named handle ranges: range name plus the zero-padded hexadecimal offset -/
theorem c16_format_int_named (p : Prim) (rc : Nat → Option String) (x : Int) (o b : String) (lo hi : Int)
    (nib os : Nat) (og : Bool) (hf : p.flavour = .int) (hm : p.getItem x = some (.named o b lo hi nib os og)) :
    p.format rc x = o ++ "." ++ b ++ "." ++ hexPad (x - lo).toNat nib := by
  simp [Prim.format, hf, hm, VItem.fmt]

theorem c16_format_int_member (p : Prim) (rc : Nat → Option String) (x : Int) (o n : String) (v : Int)
    (os : Nat) (og : Bool) (hf : p.flavour = .int) (hm : p.getItem x = some (.member o n v os og)) :
    p.format rc x = o ++ "." ++ n := by
  simp [Prim.format, hf, hm, VItem.fmt]

/-- `hexPad` has at least the requested number of digits -/
theorem hexPad_length (n w : Nat) : w ≤ (hexPad n w).length := by
  unfold hexPad
  simp only [String.length_ofList, List.length_append, List.length_replicate]
  omega

/-! ### operators -/

def binOps : List String :=
  ["add", "sub", "mul", "truediv", "floordiv", "mod", "divmod", "pow", "lshift", "rshift", "and", "xor", "or"]
def cmpOps : List String := ["lt", "le", "eq", "ne", "gt", "ge"]

/-- what the Python data model means by each dunder: `__op__(self, other)` is `self ⟨op⟩ other`,
`__rop__(self, other)` is `other ⟨op⟩ self` -/
def expectedOps : List (String × String × String × Bool) :=
  [("__int__", "int", "self", true), ("__index__", "int", "self", true)] ++
  binOps.flatMap (fun o => [("__" ++ o ++ "__", o, "self_other", true), ("__r" ++ o ++ "__", o, "other_self", true)]) ++
  cmpOps.map (fun o => ("__" ++ o ++ "__", o, "self_other", true)) ++
  [("__hash__", "hash", "self", true), ("__str__", "str", "self", true), ("__repr__", "repr", "self", true)]

/-- (tables, from the source text of `numeric()`) every dunder the decorator installs applies the
plain-integer operator to `int(self)` and the other operand, in the operand order its name says;
none is missing, none is opaque -/
theorem c16_ops : Generated.numericOps = expectedOps := by decide +kernel

/-- non-vacuity -/
example : Generated.allPrims.length = 102 ∧ (Generated.P_TPM_HANDLE.isValid 0x40000001 = true) ∧
    (Generated.P_INT8.toBytes (-3) = [0xfd]) := by decide +kernel

end C16
