import TpmProofs.StreamFacts
import TpmProofs.Props.C08W
/-!
# C02 for command/response streams

`C02.c02_strict` speaks about runs with outcome `.done`; a stream run never has that outcome (a cleanly ending stream stops
silently at the announcement of the next message), so streams get their own statement.
-/
namespace C02

/-- **C02 (streams)**: for EVERY input, whenever strict decoding of a command/response stream ends without an error (silently),
concatenating the re-encoded events yields the input byte for byte -/
theorem c02_stream (tb : MsgTables) (x : List Byte) (h : (marshalRun true tb .stream x).outcome = .silent) :
    evsBytes (marshalRun true tb .stream x).evs = x := silent_facts tb x h

/-- each event of such a run re-encodes to exactly the slice of the input at its offset -/
theorem c02_stream_slices (tb : MsgTables) (x : List Byte) (h : (marshalRun true tb .stream x).outcome = .silent)
    (pre : List Event) (e : Event) (post : List Event) (hd : (marshalRun true tb .stream x).evs = pre ++ e :: post) :
    e.bytes = (x.drop (evsBytes pre).length).take e.bytes.length := by
  have := c02_stream tb x h
  rw [hd] at this
  have hx : x = evsBytes pre ++ (e.bytes ++ evsBytes post) := by
    rw [← this]; simp [evsBytes]
  rw [hx, List.drop_left' rfl, List.take_left' rfl]

/-- non-vacuity: a `TPM2_Startup` command followed by its response, decoded as a stream, ends silently -/
example : (match (marshalRun true Generated.msgTables .stream
    [0x80, 0x01, 0, 0, 0, 0x0c, 0, 0, 0x01, 0x44, 0, 0, 0x80, 0x01, 0, 0, 0, 0x0a, 0, 0, 0, 0]).outcome with
    | .silent => true
    | _ => false) = true := by
  decide +kernel

end C02
