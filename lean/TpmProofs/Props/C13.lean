import TpmProofs.PumpFacts
/-!
# C13 — a constraint error accounts for every input byte
-/
namespace C13

/-- **C13**: for every layout and EVERY input on which strict decoding raises a constraint-violation
error (value, exceeded, subceeded, anticipated — also one raised by an un-owned region), the input is
exactly: the bytes of the emitted fields, then the bytes consumed without an event (the bad field, or the
skipped rest of the overrun region), then the error's remaining bytes; and the remaining bytes are exactly
the suffix the decoder had not consumed. Nothing is duplicated or dropped — wherever the problem is
detected, including on the very last byte (`rem = []`). -/
theorem c13 (tb : MsgTables) (top : Top) (x : List Byte) (e : Err) (rem : List Byte)
    (h : (marshalRun true tb top x).outcome = .raised e rem) :
    ∃ off, x = evsBytes (marshalRun true tb top x).evs ++ off ++ rem ∧
      rem = (stOf (runWalker true tb top x)).inp := raised_facts tb top x e rem h

/-- the remaining bytes are a suffix of the input, determined by the number of consumed bytes -/
theorem c13_suffix (tb : MsgTables) (top : Top) (x : List Byte) (e : Err) (rem : List Byte)
    (h : (marshalRun true tb top x).outcome = .raised e rem) :
    rem = x.drop (x.length - rem.length) := by
  obtain ⟨off, hx, _⟩ := c13 tb top x e rem h
  generalize evsBytes (marshalRun true tb top x).evs = E at hx
  subst hx
  exact (List.drop_left' (by simp [List.length_append]; omega)).symm

end C13
