import TpmProofs.TruncPump
import TpmModel.Generated.Cmd
/-!
# C03 / C04 — the outcome of a strict decode is decided by the bytes consumed up to that point

"Strict mode raises at a point where the inconsistency is *decidable*": whatever strict decoding of a structure, command or response
ends with — the object, or an error with all its details — having consumed `u` bytes, it ends the same way, with the same events
before it and the same state (but for the unread rest), on EVERY input that agrees with `x` on its first `u` bytes, unless the run
on `x` stopped for lack of input.  So the verdict never depends on bytes the decoder has not looked at: an error is raised on the
evidence of the consumed prefix alone, and nothing behind that prefix can withdraw it or turn an accepted value into a rejected one
(only add surplus).  From the truncation relation `TRB` (TpmProofs/Trunc.lean).

This is the "decidable" half of C03's *earliest point* clause; that no shorter prefix already decides the verdict (the "earliest"
half) is not a theorem — it is monitored (fault enumeration with the expected error per fault).
-/
namespace C03

/-- forget the unread rest of the input -/
def noRest {α : Type} (r : R α) : R α := r.mapSt (cutSt 0)

theorem mapSt_cut_cut {α : Type} (r : R α) (j : Nat) : (r.mapSt (cutSt j)).mapSt (cutSt 0) = r.mapSt (cutSt 0) := by
  cases r with
  | ok vs => obtain ⟨v, s⟩ := vs; simp [R.mapSt, cutSt]
  | error es => obtain ⟨e, s⟩ := es; simp [R.mapSt, cutSt]

theorem c03_decided_by_consumed_prefix (tb : MsgTables) (top : Top) (hs : top.isStream = false) (x x' : List Byte)
    (hnd : ∀ t, runWalker true tb top x ≠ .error (.depleted, t))
    (hpre : x'.take (stOf (runWalker true tb top x)).pos = x.take (stOf (runWalker true tb top x)).pos) :
    noRest (runWalker true tb top x') = noRest (runWalker true tb top x) := by
  -- the run on the consumed prefix of x is the run on x with the rest cut off
  obtain ⟨_, _, _, _, h1, _⟩ := runWalker_tr tb top hs x (stOf (runWalker true tb top x)).pos
  have hu : used (initSt x) (runWalker true tb top x) ≤ (stOf (runWalker true tb top x)).pos := by simp [used, initSt]
  have e1 := h1 hu
  -- the same prefix is a prefix of x'
  obtain ⟨_, _, _, _, g1, g2⟩ := runWalker_tr tb top hs x' (stOf (runWalker true tb top x)).pos
  rw [hpre, e1] at g1 g2
  by_cases hle : used (initSt x') (runWalker true tb top x') ≤ (stOf (runWalker true tb top x)).pos
  · have := g1 hle
    unfold noRest
    rw [← mapSt_cut_cut (runWalker true tb top x') _, ← this, mapSt_cut_cut]
  · -- x' would consume more: then the run on the common prefix ends `depleted`, but it is the run on x, which does not
    exfalso
    obtain ⟨t, ht, _⟩ := g2 (by omega)
    cases hr : runWalker true tb top x with
    | ok vs => obtain ⟨v, s⟩ := vs; rw [hr] at ht; simp [R.mapSt] at ht
    | error es =>
      obtain ⟨e, s⟩ := es
      rw [hr] at ht
      simp only [R.mapSt, Except.error.injEq, Prod.mk.injEq] at ht
      exact hnd s (by rw [hr, ht.1])

/-- not vacuous (kernel-evaluated): a Startup command with a bad `startupType` is rejected, not for lack of input -/
example : (match runWalker true Generated.msgTables .command [0x80, 0x01, 0, 0, 0, 0x0c, 0, 0, 0x01, 0x44, 0, 0x42] with
    | .error (.depleted, _) => false | .error _ => true | .ok _ => false) = true := by decide +kernel

end C03
