import TpmProofs.E2OStream
import TpmProofs.Props.C11E
import TpmProofs.Props.C09
/-!
# C09, second sentence: a decoded stream turned into objects gives one object per message, in order

`e2oStream` / `separateEvents` model `events_to_objs` / `separate_events` (`common/object.py`), tied to the code by the `E2OS`
correspondence.
-/

namespace C09

theorem evs_shown (n : Nat) (evs : List SEv) (o : Outcome) (cc : Option Int) :
    (⟨shown n (stamp 0 evs), o, cc⟩ : Run).evs = mEvs evs := by
  simp [Run.evs, shown, stamp, mEvs, List.map_map, Function.comp_def]

/-- **C09 (objects)**: for every stream that is a sequence of well-formed exchanges (optionally ending with a command whose
response has not arrived): `events_to_objs` of the events the strict stream decode shows yields exactly the messages' objects,
one per message, in order — each response rebuilt with the code of the command immediately before it — and does not raise -/
theorem c09_objects (last : Option CmdParts) (xs : List (CmdParts × RspParts)) (bs : List Byte) (evs : List SEv)
    (h : specStream Generated.msgTables rootPath last xs = some (bs, evs)) :
    e2oStream Generated.msgTables none (separateEvents (marshalRun true Generated.msgTables .stream bs).evs []) =
      (streamObjs last xs, false) := by
  rw [MsgWF.c09_stream last xs bs evs h, evs_shown, separate_stream _ last xs bs evs h []]
  simp only [List.isEmpty_nil, if_true, List.nil_append]
  exact e2oStream_groups _ C11.c11_e2o_msg_tables last xs bs evs h

/-- with `stream_accept_iff`: whenever the strict stream decode ends cleanly, the objects are the messages' objects -/
theorem c09_objects_of_accepted (x : List Byte) (hrun : ∃ v s', runWalker true Generated.msgTables .stream x = .ok (v, s')) :
    ∃ xs last, e2oStream Generated.msgTables none (separateEvents (marshalRun true Generated.msgTables .stream x).evs []) =
      (streamObjs last xs, false) ∧ (streamObjs last xs).length = 2 * xs.length + (if last.isSome then 1 else 0) := by
  obtain ⟨xs, last, evs, h⟩ := (AcceptIff.stream_accept_iff x).mp hrun
  refine ⟨xs, last, c09_objects last xs x evs h, ?_⟩
  clear h hrun
  induction xs with
  | nil => cases last <;> simp [streamObjs]
  | cons cr more ih => obtain ⟨c, r⟩ := cr; simp only [streamObjs, List.length_cons, ih]; omega

end C09
