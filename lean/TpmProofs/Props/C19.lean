import TpmModel.Cli
import TpmProofs.PumpFacts
import TpmProofs.Props.C02
import TpmProofs.Props.C11
/-!
# C19 — the command line is a faithful front-end to the decoder (decision logic)

`argparse`, files, `difflib` and `print` are outside the model: that part is tied by running the real command
line as a subprocess and comparing with the library (see the check).  Proved here: which requests are refused, and
what `type` lists.
-/
namespace C19

/-- a request is carried out (status 0) only if the type is known, and a response comes with a known command -/
theorem c19_refuse (types : List (String × Ty)) (ccs : List (String × Int)) (fmtIn : String) (tn : String) (cmd : Option String)
    (hty : tn ≠ "CommandResponseStream" ∧ tn ≠ "Command" ∧ tn ≠ "Response" ∧ (types.find? (·.1 == tn)) = none) :
    (convertPlan types ccs fmtIn (some tn) cmd).exitOk = false := by
  obtain ⟨h1, h2, h3, h4⟩ := hty
  have e1 : (tn == "CommandResponseStream") = false := by simpa using h1
  have e2 : (tn == "Command") = false := by simpa using h2
  have e3 : (tn == "Response") = false := by simpa using h3
  simp [convertPlan, e1, e2, e3, h4, ConvertPlan.exitOk]

theorem c19_refuse_response (types : List (String × Ty)) (ccs : List (String × Int)) (fmtIn : String) (cmd : Option String)
    (h : cmd = none ∨ ∃ c, cmd = some c ∧ ccs.find? (·.1 == c) = none) :
    (convertPlan types ccs fmtIn (some "Response") cmd).exitOk = false := by
  rcases h with rfl | ⟨c, rfl, hc⟩
  · simp [convertPlan, ConvertPlan.exitOk]
  · simp [convertPlan, hc, ConvertPlan.exitOk]

/-- without `--type` the input is decoded as a command/response stream -/
theorem c19_default (types : List (String × Ty)) (ccs : List (String × Int)) (fmtIn : String) (cmd : Option String) :
    convertPlan types ccs fmtIn none cmd = .run .stream := rfl

/-- `type` lists a structure type exactly when strict decoding of the bytes under it completes -/
theorem c19_type (tb : MsgTables) (types : List (String × Ty)) (ccs : List (String × Int)) (x : List Byte) (n : String)
    (hn : n ≠ "Command" ∧ ¬ n.startsWith "Response (") (hccs : ∀ nc ∈ ccs, ("Response (TPM_CC." ++ nc.1 ++ ")").startsWith "Response (" = true) :
    n ∈ typeListing tb types ccs x ↔
      ∃ t, (n, t) ∈ types ∧ (match t with | .union _ _ => false | _ => true) = true ∧
        ∃ v, (marshalRun true tb (.ty t) x).outcome = .done v := by
  unfold typeListing
  simp only [List.mem_append, List.mem_map, List.mem_filter, Bool.and_eq_true]
  constructor
  · rintro ((⟨⟨n', t⟩, ⟨hm, hu, hacc⟩, rfl⟩ | h2) | ⟨nc, ⟨hm, _⟩, rfl⟩)
    · refine ⟨t, hm, hu, ?_⟩
      unfold accepts at hacc
      cases ho : (marshalRun true tb (.ty t) x).outcome <;> simp_all
    · by_cases hc : accepts tb x .command = true
      · simp only [hc, if_true, List.mem_singleton] at h2; exact absurd h2 hn.1
      · simp only [hc, Bool.false_eq_true, if_false, List.not_mem_nil] at h2
    · exact absurd (hccs nc hm) (by simpa using hn.2)
  · rintro ⟨t, hm, hu, v, hv⟩
    exact Or.inl (Or.inl ⟨(n, t), ⟨hm, hu, by simp [accepts, hv]⟩, rfl⟩)

/-- whatever `type` lists was consumed completely by the emitted fields (nothing absorbed) -/
theorem c19_type_exact (tb : MsgTables) (t : Ty) (x : List Byte) (v : Val) (h : (marshalRun true tb (.ty t) x).outcome = .done v) :
    evsBytes (marshalRun true tb (.ty t) x).evs = x := done_facts tb (.ty t) x v h

end C19
