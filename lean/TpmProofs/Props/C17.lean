import TpmModel.Prim
import TpmModel.Generated.Prims
/-!
# C17 — attribute words decompose into fields that partition their bits
-/
namespace C17

def isBitfield (p : Prim) : Bool := match p.flavour with | .bitfield => true | _ => false

/-- (tables) for every attribute type the named fields' masks are pairwise disjoint and together cover
every bit of the word; decided by the kernel over the masks regenerated from `/repo` -/
theorem c17_partition_tables :
    (Generated.allPrims.filter isBitfield).all (fun p => partitions (p.masks.map (·.2)) (8 * p.size)) = true := by
  decide +kernel

/-- (tables) no field has an empty mask (the accessor loop would not terminate) -/
theorem c17_masks_nonzero :
    (Generated.allPrims.filter isBitfield).all (fun p => p.masks.all (fun nm => nm.2 != 0)) = true := by
  decide +kernel

/-- number of trailing zero bits, defined by the same halving as the accessor -/
def ctz : Nat → Nat → Nat
  | 0, _ => 0
  | fuel+1, m => if m % 2 = 1 then 0 else 1 + ctz fuel (m / 2)

theorem shiftDown_spec : ∀ (fuel bits mask : Nat), mask ≠ 0 → mask < 2 ^ fuel →
    shiftDown fuel bits mask = some (bits / 2 ^ ctz fuel mask) := by
  intro fuel
  induction fuel with
  | zero => intro bits mask h0 hlt; simp at hlt; omega
  | succ n ih =>
    intro bits mask h0 hlt
    unfold shiftDown ctz
    by_cases hodd : mask % 2 = 1
    · simp [hodd]
    · simp only [hodd, if_false]
      have h1 : mask / 2 ≠ 0 := by omega
      have h2 : mask / 2 < 2 ^ n := by
        rw [Nat.pow_succ] at hlt; omega
      rw [ih (bits / 2) (mask / 2) h1 h2, Nat.div_div_eq_div_mul, Nat.pow_add, Nat.pow_one, Nat.mul_comm]

theorem lt_two_pow_succ (m : Nat) : m < 2 ^ (m + 1) := by
  have := Nat.lt_two_pow_self (n := m)
  calc m < 2 ^ m := this
    _ ≤ 2 ^ (m + 1) := Nat.pow_le_pow_right (by decide) (by omega)

/-- **accessor**: for a non-empty mask the field accessor returns exactly that field's bits,
right-aligned: `(v &&& mask) >>> ctz mask` -/
theorem c17_accessor (v mask : Nat) (h : mask ≠ 0) :
    bitGet v mask = some ((v &&& mask) >>> ctz (mask + 1) mask) := by
  unfold bitGet
  rw [shiftDown_spec (mask + 1) (v &&& mask) mask h (lt_two_pow_succ mask), Nat.shiftRight_eq_div_pow]

/-- character shown at bit position `i` of a field's row -/
def rowChar (mask v i : Nat) : Char := if mask.testBit i then bitChar v i else '.'

theorem bitChar_ne_dot (v i : Nat) : bitChar v i ≠ '.' := by
  unfold bitChar; split <;> decide

/-- **overlay**: if the masks partition the word then at every bit position exactly one row shows a
digit, that digit is the value's bit, and all other rows show a dot — overlaying the rows reproduces
the binary value with no bit shown twice or hidden -/
theorem c17_overlay (masks : List Nat) (w v i : Nat) (hp : partitions masks w = true) (hi : i < w) :
    (masks.filter (fun m => rowChar m v i != '.')).length = 1 ∧
    ∀ m ∈ masks, rowChar m v i = '.' ∨ rowChar m v i = bitChar v i := by
  unfold partitions at hp
  simp only [Bool.and_eq_true, List.all_eq_true, List.mem_range, beq_iff_eq] at hp
  have h1 := hp.1 i hi
  constructor
  · have : (masks.filter fun m => rowChar m v i != '.') = masks.filter fun m => m.testBit i := by
      apply List.filter_congr
      intro m _
      unfold rowChar
      by_cases hm : m.testBit i
      · simp [hm, bitChar_ne_dot]
      · simp [hm]
    rw [this]; exact h1
  · intro m _
    unfold rowChar
    by_cases hm : m.testBit i <;> simp [hm]

/-- the row string is `rowChar` at each position, most significant bit first -/
theorem c17_row (width mask v : Nat) :
    bitsRow width mask v = String.ofList ((List.range width).reverse.map (rowChar mask v)) := rfl

/-- non-vacuity: `TPMA_SESSION` (7 fields over 8 bits) is one of the tables, and its `decrypt` accessor
on 0x61 gives 1 -/
example : (Generated.P_TPMA_SESSION.masks.map (·.2)) = [1, 2, 4, 0x18, 0x20, 0x40, 0x80] ∧
    bitGet 0x61 0x20 = some 1 ∧ bitGet 0x58 0x18 = some 3 := by decide +kernel

end C17
