import TpmProofs.MsgPump
import TpmModel.Generated.Cmd
/-!
# Well-formed commands, responses and streams over the regenerated tables (C01, C09, C10)

`specCommand` / `specResponse` / `specStream` (TpmModel/MsgSpec.lean) say what a well-formed message is: header fields
from their sets, every size field equal to the length of what it covers, handle and parameter areas conforming to
the layouts the command code selects, sessions present iff the tag says so, the first parameter opaque iff a session
asks for it.  For EVERY such message — any command code, any number of sessions, any nesting depth, any length — the
strict decoder yields exactly the dictated events in order, each after pulling exactly one byte more than it has
consumed (capped at the end), returns the dictated object, and ends without error.
-/
namespace MsgWF

theorem tag_sizes : 0 < Generated.msgTables.tagCmd.size ∧ 0 < Generated.msgTables.tagRsp.size := by decide

/-- **C01 for commands** (walker level, any context) -/
theorem c01_command_walker (path : Path) (p : CmdParts) (bs : List Byte) (evs : List SEv)
    (h : specCommand Generated.msgTables path p = some (bs, evs)) (rest : List Byte) (pos : Nat)
    (out : List (Nat × Event)) (scs0 : List SC) :
    decodeCommand true Generated.msgTables path ⟨bs ++ rest, pos, out, scs0⟩ =
      .ok (p.toVal, ⟨rest, pos + bs.length, out ++ stamp pos evs, []⟩) :=
  decodeCommand_ok _ path p bs evs tag_sizes.1 h rest pos out scs0

/-- **C01 for commands** (what `Binary.marshal(Command, bs)` shows) -/
theorem c01_command (p : CmdParts) (bs : List Byte) (evs : List SEv)
    (h : specCommand Generated.msgTables rootPath p = some (bs, evs)) :
    marshalRun true Generated.msgTables .command bs =
      ⟨shown bs.length (stamp 0 evs), .done p.toVal, ccAfter (stamp 0 evs) none⟩ :=
  command_run _ p bs evs tag_sizes.1 h

/-- **C01 for responses**, for every command code and encryption flag -/
theorem c01_response (cc : Option Int) (enc : Bool) (p : RspParts) (bs : List Byte) (evs : List SEv)
    (h : specResponse Generated.msgTables cc enc rootPath p = some (bs, evs)) :
    marshalRun true Generated.msgTables (.response cc enc) bs =
      ⟨shown bs.length (stamp 0 evs), .done p.toVal, ccAfter (stamp 0 evs) none⟩ :=
  response_run _ cc enc p bs evs tag_sizes.2 h

/-- **C09**: a stream of well-formed exchanges (optionally ending with a command whose response is missing) decodes
to the concatenation of the events of its messages, each response read under its command's code and the encryption
flag its command's sessions request, offsets continuing across message boundaries, and ends silently -/
theorem c09_stream (last : Option CmdParts) (xs : List (CmdParts × RspParts)) (bs : List Byte) (evs : List SEv)
    (h : specStream Generated.msgTables rootPath last xs = some (bs, evs)) :
    marshalRun true Generated.msgTables .stream bs =
      ⟨shown bs.length (stamp 0 evs), .silent, ccAfter (stamp 0 evs) none⟩ :=
  stream_run _ last xs bs evs tag_sizes.1 tag_sizes.2 h

/-- the stream's events are the messages' events: unfolding one exchange -/
theorem c09_stream_cons (c : CmdParts) (r : RspParts) (more : List (CmdParts × RspParts)) (last : Option CmdParts)
    (bc br bm : List Byte) (ec er em : List SEv) (enc : Bool)
    (hc : specCommand Generated.msgTables rootPath c = some (bc, ec))
    (he : cmdEncrypt Generated.msgTables c.toVal = .ok enc)
    (hr : specResponse Generated.msgTables (vInt c.ccv) enc rootPath r = some (br, er))
    (hm : specStream Generated.msgTables rootPath last more = some (bm, em)) :
    specStream Generated.msgTables rootPath last ((c, r) :: more) =
      some (bc ++ (br ++ bm), ec ++ shift bc.length (er ++ shift br.length em)) := by
  simp [specStream, hc, he, hr, hm]

/-- **C10 for well-formed messages**: every event is yielded after pulling at most one byte beyond what it has
consumed, and never beyond the end of the input -/
theorem c10_shown (len : Nat) (tr : List (Nat × Event)) (k : Nat) (e : Event) (h : (k, e) ∈ shown len tr) :
    ∃ c, (c, e) ∈ tr ∧ k = min (c + 1) len := by
  simp only [shown, List.mem_map] at h
  obtain ⟨⟨c, e'⟩, hm, heq⟩ := h
  simp only [Prod.mk.injEq] at heq
  obtain ⟨rfl, rfl⟩ := heq
  exact ⟨c, hm, rfl⟩

/-! ## non-vacuity: real messages over the real tables (checked by the kernel) -/

/-- `TPM2_StirRandom` with one session that has `decrypt` set: the parameter area is opaque -/
def exCmd : CmdParts :=
  { tag := .int "TPMI_ST_COMMAND_TAG" 32770, csz := .int "UINT32" 29, ccv := .int "TPM_CC" 326,
    hv := .obj "TPMS_COMMAND_HANDLES_STIR_RANDOM" false [],
    auth := some (.int "UINT32" 9,
      .list [.obj "TPMS_AUTH_COMMAND" false
        [("sessionHandle", .int "TPMI_SH_AUTH_SESSION" 33554432),
         ("nonce", .obj "TPM2B_NONCE" false [("size", .int "UINT16" 0), ("buffer", .list [])]),
         ("sessionAttributes", .int "TPMA_SESSION" 32),
         ("hmac", .obj "TPM2B_AUTH" false [("size", .int "UINT16" 0), ("buffer", .list [])])]]),
    pv := .obj "TPMS_COMMAND_PARAMS_STIR_RANDOM" true
      [("inData", .obj "TPM2B_ENCRYPTED_PARAM" false
        [("size", .int "UINT16" 4),
         ("encryptedParam", .list [.int "BYTE" 222, .int "BYTE" 173, .int "BYTE" 190, .int "BYTE" 239])])] }

/-- a `TPM2_GetRandom` response with an `encrypt` session: `parameterSize`, opaque first parameter, one session -/
def exRsp : RspParts :=
  { tag := .int "TPM_ST" 32770, rsz := .int "UINT32" 29, rcv := .int "TPM_RC" 0,
    body := some
      { hv := .obj "TPMS_RESPONSE_HANDLES_GET_RANDOM" false [],
        psz := some (.int "UINT32" 10),
        pv := .obj "TPMS_RESPONSE_PARAMS_GET_RANDOM" true
          [("randomBytes", .obj "TPM2B_ENCRYPTED_PARAM" false
            [("size", .int "UINT16" 8),
             ("encryptedParam", .list ((List.range 8).map fun (i : Nat) => Val.int "BYTE" ((i : Int) + 1)))])],
        area := some (.list [.obj "TPMS_AUTH_RESPONSE" false
          [("nonce", .obj "TPM2B_NONCE" false [("size", .int "UINT16" 0), ("buffer", .list [])]),
           ("sessionAttributes", .int "TPMA_SESSION" 64),
           ("hmac", .obj "TPM2B_AUTH" false [("size", .int "UINT16" 0), ("buffer", .list [])])]]) } }

set_option maxRecDepth 100000 in
example : ((specCommand Generated.msgTables rootPath exCmd).map fun be => (be.1.length, be.2.length)) = some (29, 24) := by
  decide +kernel

set_option maxRecDepth 100000 in
example : ((specResponse Generated.msgTables (some 379) true rootPath exRsp).map fun be => (be.1.length, be.2.length)).isSome = true := by
  decide +kernel

end MsgWF
