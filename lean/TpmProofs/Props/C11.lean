import TpmModel.Obj
import TpmModel.Generated.Types
import TpmProofs.DecodeOk
/-!
# C11 — events and Python objects convert into each other without loss

`o2e` is the model of `obj_to_events` (tied to the code by correspondence on objects of every type).
The theorem: for every layout meeting the (table-checked) side conditions and every conforming value, turning
the object back into events reproduces exactly the event list the layout dictates — which, by C01, is the
decoded event list; by C02 re-encoding it yields the original bytes.  Absent parts (null union arm, empty
size-prefixed structure) are the marker events, nothing more.
-/
namespace C11

/-- events for a value held in a slot of declared type `t`: `None` is the slot's "empty" marker -/
def o2eV (t : Ty) (v : Val) (path : Path) : List MEvent :=
  if v.isNone then [⟨path, t.eventTag, none, "", 0⟩] else o2e t v path

def Arms.hasNone : Arms → Bool
  | .nil => false
  | .consNone _ _ _ => true
  | .cons _ _ _ rest => Arms.hasNone rest
  | .consBytes _ _ _ _ rest => Arms.hasNone rest

def Arms.names : Arms → List String
  | .nil => []
  | .consNone an _ rest => an :: Arms.names rest
  | .cons an _ _ rest => an :: Arms.names rest
  | .consBytes an _ _ _ rest => an :: Arms.names rest

/-- can a slot of this type hold `None`? -/
def Ty.nullable : Ty → Bool
  | .union _ arms => Arms.hasNone arms
  | _ => false

def isUnionTy : Ty → Bool
  | .union _ _ => true
  | _ => false

mutual
/-- side conditions under which `obj_to_events` (which looks fields up by name and hard-codes a skip list) is
faithful: field / member names are unique, `size` ≠ buffer name, union members are not unions themselves, and no
nullable slot carries one of the skip-list names -/
def Ty.o2eOk : Ty → Bool
  | .prim _ => true
  | .struct _ _ fs => fs.names.Nodup && Fields.o2eOk fs
  | .tpm2bBytes _ sz _ buf _ => sz != buf
  | .tpm2b _ sz _ buf body => sz != buf && !o2eSkip.contains buf && !isUnionTy body && Ty.o2eOk body
  | .union _ arms => (Arms.names arms).Nodup && Arms.o2eOk arms
  | .bad _ => false
def Fields.o2eOk : Fields → Bool
  | .nil => true
  | .cons f kind t rest => !(o2eSkip.contains f && Ty.nullable t) && !(kind == .counted && isUnionTy t) && Ty.o2eOk t && Fields.o2eOk rest
def Arms.o2eOk : Arms → Bool
  | .nil => true
  | .consNone _ _ rest => Arms.o2eOk rest
  | .cons _ _ t rest => !isUnionTy t && Ty.o2eOk t && Arms.o2eOk rest
  | .consBytes _ _ _ _ rest => Arms.o2eOk rest
end

/-- (tables) every layout in `/repo` meets the side conditions -/
theorem c11_tables : Generated.allTypes.all Ty.o2eOk = true := by decide +kernel

/-! ### lemmas -/

theorem map_snd_shift (k : Nat) (es : List SEv) : (shift k es).map (·.2) = es.map (·.2) := by
  simp [shift, List.map_map, Function.comp_def]

theorem o2eList_ok (f : Val → Path → List MEvent) (g : Path → Val → Option (List Byte × List SEv))
    (hfg : ∀ p v b e, g p v = some (b, e) → f v p = e.map (·.2)) (path : Path) :
    ∀ (vs : List Val) (i : Nat) (bs : List Byte) (evs : List SEv), specRepeat g path vs i = some (bs, evs) →
    o2eList f path vs i = evs.map (·.2) := by
  intro vs
  induction vs with
  | nil => intro i bs evs h; simp only [specRepeat, Option.some.injEq, Prod.mk.injEq] at h; obtain ⟨_, rfl⟩ := h; rfl
  | cons v vs ih =>
    intro i bs evs h
    simp only [specRepeat] at h
    split at h
    · simp at h
    · rename_i b e hb
      split at h
      · simp at h
      · rename_i bs' es' hrest
        simp only [Option.some.injEq, Prod.mk.injEq] at h
        obtain ⟨_, rfl⟩ := h
        simp [o2eList, hfg _ _ _ _ hb, ih _ _ _ hrest, map_snd_shift]

theorem leaf_ok {p : Prim} {path : Path} {v : Val} {bs : List Byte} {evs : List SEv}
    (h : specPrim p path v = some (bs, evs)) : leafEvents p.size v path = evs.map (·.2) ∧ v.isNone = false ∧ v.isList = false := by
  obtain ⟨x, rfl, _, _, _, rfl⟩ := specPrim_inv h
  exact ⟨rfl, rfl, rfl⟩

theorem primList_ok {p : Prim} {path : Path} {n : Nat} {v : Val} {bs : List Byte} {evs : List SEv}
    (h : specPrimList p path n v = some (bs, evs)) : primListEvents p v path = evs.map (·.2) ∧ ∃ vs, v = .list vs := by
  unfold specPrimList at h
  split at h
  · simp at h
  · rename_i vs hvs
    obtain rfl := asList_inv hvs
    split at h
    · cases hrep : specRepeat (specPrim p) path vs 0 with
      | none => simp [hrep] at h
      | some r =>
        obtain ⟨b, e⟩ := r
        simp only [hrep, Option.map_some, Option.some.injEq, Prod.mk.injEq] at h
        obtain ⟨_, rfl⟩ := h
        refine ⟨?_, vs, rfl⟩
        have := o2eList_ok (leafEvents p.size) (specPrim p) (fun q v b e hq => (leaf_ok hq).1) path vs 0 b e hrep
        simp [primListEvents, this]
    · simp at h

theorem lookup_append_new (done : List (String × Val)) (n : String) (v : Val) (rest : List (String × Val))
    (h : n ∉ done.map (·.1)) : lookupVal (done ++ (n, v) :: rest) n = some v := by
  induction done with
  | nil => simp [lookupVal]
  | cons d ds ih =>
    have hd : d.1 ≠ n := by intro e; apply h; simp [e]
    have hds : n ∉ ds.map (·.1) := by intro e; apply h; simp [e]
    have := ih hds
    have hb : (d.1 == n) = false := by simpa using hd
    unfold lookupVal at this ⊢
    rw [List.cons_append, List.find?_cons, hb]
    exact this

theorem armsShape : (arms : Arms) → ∀ (name an : String) (path : Path) (v : Val) (r : List Byte × List SEv),
    specArm arms name an path v = some r → v.isList = false ∧ (v.isNone = true → Arms.hasNone arms = true)
  | .nil, name, an, path, v, r, h => by simp [specArm] at h
  | .consNone a k rest, name, an, path, v, r, h => by
    simp only [specArm] at h
    split at h
    · split at h
      · rename_i hn; obtain rfl := isNone_inv hn; exact ⟨rfl, fun _ => rfl⟩
      · simp at h
    · exact ⟨(armsShape rest name an path v r h).1, fun _ => rfl⟩
  | .cons a k t rest, name, an, path, v, r, h => by
    simp only [specArm] at h
    split at h
    · split at h
      · simp at h
      · rename_i av hav
        cases hobj : v.asObj name false with
        | none => simp [hobj] at hav
        | some fs => obtain rfl := asObj_inv hobj; exact ⟨rfl, fun hn => by simp [Val.isNone] at hn⟩
    · exact ⟨(armsShape rest name an path v r h).1, fun hn => by simpa [Arms.hasNone] using (armsShape rest name an path v r h).2 hn⟩
  | .consBytes a k e n rest, name, an, path, v, r, h => by
    simp only [specArm] at h
    split at h
    · split at h
      · simp at h
      · rename_i av hav
        cases hobj : v.asObj name false with
        | none => simp [hobj] at hav
        | some fs => obtain rfl := asObj_inv hobj; exact ⟨rfl, fun hn => by simp [Val.isNone] at hn⟩
    · exact ⟨(armsShape rest name an path v r h).1, fun hn => by simpa [Arms.hasNone] using (armsShape rest name an path v r h).2 hn⟩

/-- shape of a conforming value: never a list (lists only occur in counted slots), `None` only for a union whose
selected member carries nothing -/
theorem spec_shape : ∀ (t : Ty) (path : Path) (sel : Option Int) (v : Val) (bs : List Byte) (evs : List SEv),
    spec t path sel v = some (bs, evs) → v.isList = false ∧ (v.isNone = true → Ty.nullable t = true) := by
  intro t path sel v bs evs h
  cases t with
  | prim p => simp only [spec] at h; have := leaf_ok h; exact ⟨this.2.2, fun hn => by simp [this.2.1] at hn⟩
  | struct name isP fs =>
    simp only [spec] at h
    split at h
    · simp at h
    · rename_i fvs hobj; obtain rfl := asObj_inv hobj; exact ⟨rfl, fun hn => by simp [Val.isNone] at hn⟩
  | tpm2bBytes name szName szP bufName elem =>
    simp only [spec] at h
    split at h
    · simp at h
    · rename_i nv bv hpair
      cases hobj : v.asObj name false with
      | none => simp [hobj] at hpair
      | some fs => obtain rfl := asObj_inv hobj; exact ⟨rfl, fun hn => by simp [Val.isNone] at hn⟩
  | tpm2b name szName szP bufName body =>
    simp only [spec] at h
    split at h
    · simp at h
    · rename_i nv bv hpair
      cases hobj : v.asObj name false with
      | none => simp [hobj] at hpair
      | some fs => obtain rfl := asObj_inv hobj; exact ⟨rfl, fun hn => by simp [Val.isNone] at hn⟩
  | union name arms =>
    simp only [spec] at h
    split at h
    · simp at h
    · rename_i an han
      cases ha : specArm arms name an path v with
      | none => simp [ha] at h
      | some r =>
        exact ⟨(armsShape arms name an path v r ha).1, fun hn => by simpa [Ty.nullable] using (armsShape arms name an path v r ha).2 hn⟩
  | bad r => simp [spec] at h

theorem nullable_union {t : Ty} (h : Ty.nullable t = true) : isUnionTy t = true := by
  cases t <;> simp_all [Ty.nullable, isUnionTy]

theorem o2eV_of_not_none {t : Ty} {v : Val} {path : Path} (h : v.isNone = false) : o2eV t v path = o2e t v path := by
  simp [o2eV, h]

/-- one declared field, given the statement for its type -/
theorem fieldWith_o2e (t : Ty) (fname : String) (kind : FKind) (path : Path) (vals : List (String × Val)) (v : Val)
    (b : List Byte) (e : List SEv)
    (hIH : ∀ p sel v b e, spec t p sel v = some (b, e) → o2eV t v p = e.map (·.2))
    (hskip : (o2eSkip.contains fname && Ty.nullable t) = false) (hcnt : (kind == .counted && isUnionTy t) = false)
    (h : specFieldWith (fun p sel v => spec t p sel v) t.name kind (path ++ [⟨fname, none⟩]) vals v = some (b, e)) :
    o2eFieldWith (fun v p => o2e t v p) t.eventTag t.name false kind fname (some v) path = e.map (·.2) := by
  have plainCase : ∀ sel, spec t (path ++ [⟨fname, none⟩]) sel v = some (b, e) →
      o2eFieldWith (fun v p => o2e t v p) t.eventTag t.name false kind fname (some v) path = e.map (·.2) := by
    intro sel hs
    obtain ⟨hl, hn⟩ := spec_shape t _ sel v b e hs
    have := hIH _ sel v b e hs
    cases v with
    | none =>
      have hnul := hn rfl
      have hsk : o2eSkip.contains fname = false := by simpa [hnul] using hskip
      have hsk' : ¬ (fname ∈ o2eSkip) := by simpa using hsk
      simpa [o2eFieldWith, hsk', o2eV, Val.isNone] using this
    | list vs => simp [Val.isList] at hl
    | int c x => simpa [o2eFieldWith, o2eV, Val.isNone] using this
    | obj n en fs => simpa [o2eFieldWith, o2eV, Val.isNone] using this
  cases kind with
  | plain => simp only [specFieldWith] at h; exact plainCase none h
  | selected s =>
    simp only [specFieldWith] at h
    split at h
    · simp at h
    · rename_i sv _; exact plainCase sv h
  | counted =>
    simp only [specFieldWith] at h
    split at h
    · rename_i c es hcount hlist
      obtain rfl := asList_inv hlist
      split at h
      · cases hrep : specRepeat (fun p v => spec t p none v) (path ++ [⟨fname, none⟩]) es 0 with
        | none => simp [hrep] at h
        | some rr =>
          obtain ⟨bb, ee⟩ := rr
          simp only [hrep, Option.map_some, Option.some.injEq, Prod.mk.injEq] at h
          obtain ⟨_, rfl⟩ := h
          have hnu : isUnionTy t = false := by simpa using hcnt
          have hel : ∀ p v b e, (fun p v => spec t p none v) p v = some (b, e) → (fun v p => o2e t v p) v p = e.map (·.2) := by
            intro p v b e hs
            have hnn : v.isNone = false := by
              cases hvn : v.isNone with
              | false => rfl
              | true =>
                have := nullable_union ((spec_shape t p none v b e hs).2 hvn)
                rw [hnu] at this; exact absurd this (by simp)
            show o2e t v p = e.map (·.2)
            rw [← o2eV_of_not_none hnn]; exact hIH p none v b e hs
          have := o2eList_ok _ _ hel (path ++ [⟨fname, none⟩]) es 0 bb ee hrep
          simp [o2eFieldWith, this]
      · simp at h
    · simp at h

theorem o2eArms_absent : (arms : Arms) → ∀ (want : String) (av : Val) (path : Path), want ∉ Arms.names arms →
    o2eArms arms [(want, av)] path = []
  | .nil, _, _, _, _ => rfl
  | .consNone an k rest, want, av, path, h => by
    simp only [o2eArms]; exact o2eArms_absent rest want av path (by intro hh; apply h; simp [Arms.names, hh])
  | .cons an k t rest, want, av, path, h => by
    have hne : (want == an) = false := by
      simp only [beq_eq_false_iff_ne, ne_eq]; intro e; apply h; simp [Arms.names, e]
    simp only [o2eArms, lookupVal, List.find?_cons, hne, List.find?_nil, Option.map_none, o2eFieldWith, Bool.true_or, if_true,
      List.nil_append]
    exact o2eArms_absent rest want av path (by intro hh; apply h; simp [Arms.names, hh])
  | .consBytes an k e n rest, want, av, path, h => by
    have hne : (want == an) = false := by
      simp only [beq_eq_false_iff_ne, ne_eq]; intro e; apply h; simp [Arms.names, e]
    simp only [o2eArms, lookupVal, List.find?_cons, hne, List.find?_nil, Option.map_none, List.nil_append]
    exact o2eArms_absent rest want av path (by intro hh; apply h; simp [Arms.names, hh])

theorem specArm_none : (arms : Arms) → ∀ (un want : String) (path : Path) (b : List Byte) (e : List SEv),
    specArm arms un want path .none = some (b, e) → e = []
  | .nil, _, _, _, _, _, h => by simp [specArm] at h
  | .consNone an k rest, un, want, path, b, e, h => by
    simp only [specArm] at h
    split at h
    · simp only [Val.isNone, if_true, Option.some.injEq, Prod.mk.injEq] at h; exact h.2.symm
    · exact specArm_none rest un want path b e h
  | .cons an k t rest, un, want, path, b, e, h => by
    simp only [specArm] at h
    split at h
    · simp [Val.asObj] at h
    · exact specArm_none rest un want path b e h
  | .consBytes an k el n rest, un, want, path, b, e, h => by
    simp only [specArm] at h
    split at h
    · simp [Val.asObj] at h
    · exact specArm_none rest un want path b e h

theorem specArm_obj : (arms : Arms) → ∀ (un want : String) (path : Path) (v : Val) (r : List Byte × List SEv),
    specArm arms un want path v = some r → v.isNone = false → ∃ av, v = .obj un false [(want, av)]
  | .nil, _, _, _, _, _, h, _ => by simp [specArm] at h
  | .consNone an k rest, un, want, path, v, r, h, hn => by
    simp only [specArm] at h
    split at h
    · simp [hn] at h
    · exact specArm_obj rest un want path v r h hn
  | .cons an k t rest, un, want, path, v, r, h, hn => by
    simp only [specArm] at h
    split at h
    · rename_i heq
      split at h
      · simp at h
      · rename_i av hav
        cases hobj : v.asObj un false with
        | none => simp [hobj] at hav
        | some fs =>
          simp only [hobj, Option.bind_some] at hav
          obtain rfl := asObj_inv hobj
          obtain rfl := asSingle_inv hav
          exact ⟨av, by rw [heq]⟩
    · exact specArm_obj rest un want path v r h hn
  | .consBytes an k el n rest, un, want, path, v, r, h, hn => by
    simp only [specArm] at h
    split at h
    · rename_i heq
      split at h
      · simp at h
      · rename_i av hav
        cases hobj : v.asObj un false with
        | none => simp [hobj] at hav
        | some fs =>
          simp only [hobj, Option.bind_some] at hav
          obtain rfl := asObj_inv hobj
          obtain rfl := asSingle_inv hav
          exact ⟨av, by rw [heq]⟩
    · exact specArm_obj rest un want path v r h hn

theorem names_map (l : List (String × Val)) (n : String) (v : Val) :
    (l ++ [(n, v)]).map (·.1) = l.map (·.1) ++ [n] := by simp

mutual
/-- **C11 (object → events)**: for every layout meeting the side conditions and every conforming value, turning the
object back into events gives exactly the event list the layout dictates for it (same length, paths, declared
types, values, value classes, widths); an absent part is its single marker event -/
theorem c11_obj_to_events : (t : Ty) → Ty.o2eOk t = true → ∀ (path : Path) (sel : Option Int) (v : Val) (bs : List Byte)
    (evs : List SEv), spec t path sel v = some (bs, evs) → o2eV t v path = evs.map (·.2)
  | .prim p, _, path, sel, v, bs, evs, h => by
    simp only [spec] at h
    obtain ⟨h1, h2, _⟩ := leaf_ok h
    simp [o2eV, h2, o2e, h1]
  | .struct name isP fs, hok, path, sel, v, bs, evs, h => by
    simp only [spec] at h
    split at h
    · simp at h
    · rename_i fvs hobj
      obtain rfl := asObj_inv hobj
      cases hf : specFields fs path [] fvs with
      | none => simp [hf] at h
      | some r =>
        obtain ⟨b, e⟩ := r
        simp only [hf, Option.map_some, Option.some.injEq, Prod.mk.injEq] at h
        obtain ⟨_, rfl⟩ := h
        simp only [Ty.o2eOk, Bool.and_eq_true, decide_eq_true_eq] at hok
        have := c11_fields fs hok.2 path [] [] fvs b e hf hok.1 (by simp)
        simp only [List.nil_append] at this
        simp [o2eV, Val.isNone, o2e, objFields, this]
  | .tpm2bBytes name szName szP bufName elem, hok, path, sel, v, bs, evs, h => by
    simp only [spec] at h
    split at h
    · simp at h
    · rename_i nv bv hpair
      cases hobj : v.asObj name false with
      | none => simp [hobj] at hpair
      | some fs =>
        simp only [hobj, Option.bind_some] at hpair
        obtain rfl := asObj_inv hobj
        obtain rfl := asPair_inv hpair
        split at h
        · rename_i nb ne n hsz hn
          split at h
          · simp at h
          · rename_i bb be hbody
            split at h
            · simp only [Option.some.injEq, Prod.mk.injEq] at h
              obtain ⟨_, rfl⟩ := h
              have hne : (bufName == szName) = false := by
                simp only [Ty.o2eOk, bne_iff_ne, ne_eq] at hok
                simpa using fun e => hok e.symm
              have hne2 : (szName == bufName) = false := by
                simp only [Ty.o2eOk, bne_iff_ne, ne_eq] at hok
                simpa using hok
              obtain ⟨l1, l2, l3⟩ := leaf_ok hsz
              obtain ⟨p1, vs, rfl⟩ := primList_ok hbody
              have hnv : ∀ c x, nv = Val.int c x → o2eFieldWith (leafEvents szP.size) (.named szP.name false) szP.name false .plain szName (some nv) path
                  = leafEvents szP.size nv (path ++ [⟨szName, none⟩]) := by
                intro c x e; subst e; rfl
              obtain ⟨x, hx, _⟩ := specPrim_inv hsz
              simp only [o2eV, Val.isNone, Bool.false_eq_true, if_false, o2e, objFields, lookupVal, List.find?_cons, beq_self_eq_true,
                Option.map_some, hne, hne2, List.find?_nil, hnv _ _ hx, l1, p1, List.map_cons, List.map_append, map_snd_shift]
              simp
            · simp at h
        · simp at h
  | .tpm2b name szName szP bufName body, hok, path, sel, v, bs, evs, h => by
    simp only [spec] at h
    split at h
    · simp at h
    · rename_i nv bv hpair
      cases hobj : v.asObj name false with
      | none => simp [hobj] at hpair
      | some fs =>
        simp only [hobj, Option.bind_some] at hpair
        obtain rfl := asObj_inv hobj
        obtain rfl := asPair_inv hpair
        simp only [Ty.o2eOk, Bool.and_eq_true, bne_iff_ne, ne_eq, Bool.not_eq_true'] at hok
        obtain ⟨⟨⟨hne0, hskip⟩, hnu⟩, hbok⟩ := hok
        have hne : (bufName == szName) = false := by simpa using fun e => hne0 e.symm
        have hne2 : (szName == bufName) = false := by simpa using hne0
        have hskip' : ¬ (bufName ∈ o2eSkip) := by simpa using hskip
        split at h
        · rename_i nb ne n hsz hn
          obtain ⟨l1, l2, l3⟩ := leaf_ok hsz
          obtain ⟨x, hx, _⟩ := specPrim_inv hsz
          have hnv : o2eFieldWith (leafEvents szP.size) (.named szP.name false) szP.name false .plain szName (some nv) path
              = leafEvents szP.size nv (path ++ [⟨szName, none⟩]) := by subst hx; rfl
          split at h
          · -- n = 0: absent body
            split at h
            · rename_i hc
              obtain rfl := isNone_inv hc.1
              simp only [Option.some.injEq, Prod.mk.injEq] at h
              obtain ⟨_, rfl⟩ := h
              rw [hx] at l1 hnv
              simp only [o2eV, Val.isNone, Bool.false_eq_true, if_false, o2e, objFields, lookupVal, List.find?_cons, beq_self_eq_true,
                Option.map_some, hne, hne2, List.find?_nil, hx, hnv, l1, List.map_cons, List.map_append]
              simp [o2eFieldWith, hskip']
            · simp at h
          · split at h
            · simp at h
            · rename_i bb be hbody
              split at h
              · simp only [Option.some.injEq, Prod.mk.injEq] at h
                obtain ⟨_, rfl⟩ := h
                have ih := c11_obj_to_events body hbok (path ++ [⟨bufName, none⟩]) none bv bb be hbody
                obtain ⟨hl, hnn⟩ := spec_shape body _ none bv bb be hbody
                have hbn : bv.isNone = false := by
                  cases hvn : bv.isNone with
                  | false => rfl
                  | true => have := nullable_union (hnn hvn); rw [hnu] at this; exact absurd this (by simp)
                have hbf : o2eFieldWith (fun v p => o2e body v p) body.eventTag body.name false .plain bufName (some bv) path
                    = o2e body bv (path ++ [⟨bufName, none⟩]) := by
                  cases bv <;> simp_all [o2eFieldWith, Val.isNone, Val.isList]
                rw [o2eV_of_not_none hbn] at ih
                simp only [o2eV, Val.isNone, Bool.false_eq_true, if_false, o2e, objFields, lookupVal, List.find?_cons, beq_self_eq_true,
                  Option.map_some, hne, hne2, List.find?_nil, hnv, l1, hbf, ih, List.map_cons, List.map_append, map_snd_shift]
                simp
              · simp at h
        · simp at h
  | .union name arms, hok, path, sel, v, bs, evs, h => by
    simp only [spec] at h
    split at h
    · simp at h
    · rename_i an han
      cases ha : specArm arms name an path v with
      | none => simp [ha] at h
      | some r =>
        obtain ⟨b, e⟩ := r
        simp only [ha, Option.map_some, Option.some.injEq, Prod.mk.injEq] at h
        obtain ⟨_, rfl⟩ := h
        simp only [Ty.o2eOk, Bool.and_eq_true, decide_eq_true_eq] at hok
        cases hvn : v.isNone with
        | true =>
          obtain rfl := isNone_inv hvn
          have := specArm_none arms name an path b e ha
          subst this
          simp [o2eV, Val.isNone, Ty.eventTag, Ty.name]
        | false =>
          obtain ⟨av, rfl⟩ := specArm_obj arms name an path v (b, e) ha hvn
          have := c11_arms arms hok.2 name an path av b e ha hok.1
          simp [o2eV, Val.isNone, o2e, objFields, this]
  | .bad r, _, path, sel, v, bs, evs, h => by simp [spec] at h

theorem c11_arms : (arms : Arms) → Arms.o2eOk arms = true → ∀ (un want : String) (path : Path) (av : Val) (bs : List Byte) (evs : List SEv),
    specArm arms un want path (.obj un false [(want, av)]) = some (bs, evs) → (Arms.names arms).Nodup →
    o2eArms arms [(want, av)] path = evs.map (·.2)
  | .nil, _, un, want, path, av, bs, evs, h, _ => by simp [specArm] at h
  | .consNone an k rest, hok, un, want, path, av, bs, evs, h, hnd => by
    simp only [specArm] at h
    split at h
    · simp [Val.isNone] at h
    · simp only [Arms.names, List.nodup_cons] at hnd
      simp only [Arms.o2eOk] at hok
      simp only [o2eArms]
      exact c11_arms rest hok un want path av bs evs h hnd.2
  | .cons an k t rest, hok, un, want, path, av, bs, evs, h, hnd => by
    simp only [Arms.names, List.nodup_cons] at hnd
    simp only [Arms.o2eOk, Bool.and_eq_true, Bool.not_eq_true'] at hok
    obtain ⟨⟨hnu, htok⟩, hrok⟩ := hok
    simp only [specArm] at h
    split at h
    · rename_i heq
      subst heq
      simp only [Val.asObj, and_self, if_true, Option.bind_some, asSingle] at h
      have ih := c11_obj_to_events t htok (path ++ [⟨an, none⟩]) none av bs evs h
      obtain ⟨hl, hnn⟩ := spec_shape t _ none av bs evs h
      have hbn : av.isNone = false := by
        cases hvn : av.isNone with
        | false => rfl
        | true => have := nullable_union (hnn hvn); rw [hnu] at this; exact absurd this (by simp)
      rw [o2eV_of_not_none hbn] at ih
      have hbf : o2eFieldWith (fun v p => o2e t v p) t.eventTag t.name true .plain an (some av) path = o2e t av (path ++ [⟨an, none⟩]) := by
        cases av <;> simp_all [o2eFieldWith, Val.isNone, Val.isList]
      simp only [o2eArms, lookupVal, List.find?_cons, beq_self_eq_true, Option.map_some, hbf, ih, o2eArms_absent rest an av path hnd.1,
        List.append_nil]
    · rename_i hne
      have hb : (want == an) = false := by simpa using fun e => hne e.symm
      simp only [o2eArms, lookupVal, List.find?_cons, hb, List.find?_nil, Option.map_none, o2eFieldWith, Bool.true_or, if_true,
        List.nil_append]
      exact c11_arms rest hrok un want path av bs evs h hnd.2
  | .consBytes an k el n rest, hok, un, want, path, av, bs, evs, h, hnd => by
    simp only [Arms.names, List.nodup_cons] at hnd
    simp only [Arms.o2eOk] at hok
    simp only [specArm] at h
    split at h
    · rename_i heq
      subst heq
      simp only [Val.asObj, and_self, if_true, Option.bind_some, asSingle] at h
      cases n with
      | none => simp [specListArm] at h
      | some kk =>
        simp only [specListArm] at h
        obtain ⟨p1, vs, rfl⟩ := primList_ok h
        simp only [o2eArms, lookupVal, List.find?_cons, beq_self_eq_true, Option.map_some, p1, o2eArms_absent rest an _ path hnd.1,
          List.append_nil]
    · rename_i hne
      have hb : (want == an) = false := by simpa using fun e => hne e.symm
      simp only [o2eArms, lookupVal, List.find?_cons, hb, List.find?_nil, Option.map_none, List.nil_append]
      exact c11_arms rest hok un want path av bs evs h hnd.2

theorem c11_fields : (fs : Fields) → Fields.o2eOk fs = true → ∀ (path : Path) (vals done fvs : List (String × Val)) (bs : List Byte)
    (evs : List SEv), specFields fs path vals fvs = some (bs, evs) → fs.names.Nodup → (∀ n ∈ fs.names, n ∉ done.map (·.1)) →
    o2eFields fs (done ++ fvs) path = evs.map (·.2)
  | .nil, _, path, vals, done, fvs, bs, evs, h, _, _ => by
    simp only [specFields] at h
    split at h
    · simp only [Option.some.injEq, Prod.mk.injEq] at h; obtain ⟨_, rfl⟩ := h; rfl
    · simp at h
  | .cons fname kind t rest, hok, path, vals, done, fvs, bs, evs, h, hnd, hdone => by
    cases fvs with
    | nil => simp [specFields] at h
    | cons fv fvs' =>
      obtain ⟨fn, v⟩ := fv
      simp only [specFields] at h
      split at h
      · rename_i hfn
        subst hfn
        cases hf : specFieldWith (fun p sel v => spec t p sel v) t.name kind (path ++ [⟨fn, none⟩]) vals v with
        | none => simp [hf] at h
        | some r1 =>
          obtain ⟨b1, e1⟩ := r1
          simp only [hf] at h
          split at h
          · simp at h
          · rename_i b2 e2 hrest
            simp only [Option.some.injEq, Prod.mk.injEq] at h
            obtain ⟨_, rfl⟩ := h
            simp only [Fields.names, List.nodup_cons] at hnd
            simp only [Fields.o2eOk, Bool.and_eq_true, Bool.not_eq_true'] at hok
            obtain ⟨⟨⟨hskip, hcnt⟩, htok⟩, hrok⟩ := hok
            have hlook : lookupVal (done ++ (fn, v) :: fvs') fn = some v :=
              lookup_append_new done fn v fvs' (hdone fn (by simp [Fields.names]))
            have h1 := fieldWith_o2e t fn kind path vals v b1 e1
              (fun p sel v b e hs => c11_obj_to_events t htok p sel v b e hs) hskip hcnt hf
            have h2 := c11_fields rest hrok path (vals ++ [(fn, v)]) (done ++ [(fn, v)]) fvs' b2 e2 hrest hnd.2 (by
              intro n hn
              rw [names_map]
              intro hmem
              simp only [List.mem_append, List.mem_singleton] at hmem
              rcases hmem with hmem | rfl
              · exact hdone n (by simp [Fields.names, hn]) hmem
              · exact hnd.1 hn)
            have happ : (done ++ [(fn, v)]) ++ fvs' = done ++ (fn, v) :: fvs' := by simp
            rw [happ] at h2
            simp only [o2eFields, hlook, h1, h2, List.map_append, map_snd_shift]
      · simp at h
end

end C11

namespace C11

/-- end to end, for every layout meeting the side conditions: decoding a well-formed encoding returns the value,
and turning that object back into events reproduces exactly the events the decoder emitted -/
theorem c11_roundtrip (t : Ty) (hok : Ty.o2eOk t = true) (v : Val) (bs : List Byte) (evs : List SEv)
    (h : spec t rootPath none v = some (bs, evs)) (tb : MsgTables) :
    ∃ s, runWalker true tb (.ty t) bs = .ok (v, s) ∧ s.inp = [] ∧
      s.out.map (·.2) = (o2eV t v rootPath).map Event.marshal := by
  have hd := decode_ok t rootPath none v bs evs h [] 0 [] [] (by intro c hc; cases hc) (by intro c hc; cases hc)
  refine ⟨_, by simpa [runWalker, initSt] using hd, rfl, ?_⟩
  rw [c11_obj_to_events t hok rootPath none v bs evs h]
  simp [post, stamp, List.map_map, Function.comp_def]

end C11
