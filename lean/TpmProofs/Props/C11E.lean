import TpmProofs.E2OSpec
import TpmProofs.Props.C11
import TpmProofs.Props.AcceptIff
/-!
# C11, the clause "the object returned by the decoder equals the object rebuilt from the emitted events"

`e2oTop` is the model of `events_to_obj` (`common/object.py`: `_events_to_dict`, then `_to_obj`), tied to the code by the
`E2O` correspondence.  For every layout meeting the side conditions `Ty.eo` (checked for every layout of `/repo` by
`c11_e2o_tables`) and every input the decoder accepts: rebuilding an object from the emitted events gives exactly the
object the decoder returned.
-/

namespace C11

/-- (tables) every layout in `/repo` meets the side conditions of `events_to_obj` -/
theorem c11_e2o_tables :
    Generated.allTypes.all (Ty.eo (encBuf Generated.msgTables.encParam)) = true := by decide +kernel

/-- the key that marks an encrypted parameter area is the one the side conditions speak about -/
theorem c11_e2o_enckey : encBuf Generated.msgTables.encParam = "encryptedParam" := by decide +kernel

/-- **events → object, on the dictated events**: for every layout meeting the side conditions and every conforming value,
`events_to_obj` of the value's events is the value -/
theorem c11_events_to_obj (tb : MsgTables) (t : Ty) (hok : t.eo (encBuf tb.encParam) = true) (v : Val) (bs : List Byte)
    (evs : List SEv) (h : spec t rootPath none v = some (bs, evs)) :
    e2oTop tb (.ty t) (evs.map (·.2)) = some v := by
  obtain ⟨T, hT, hTo, _⟩ := spec_builds tb.encParam t hok [] ⟨"", none⟩ none v bs evs h
  have hb := hT.1 rfl [] (kvLookup_nil _)
  have hs : sstrip ([] : Path).length evs = evs.map (·.2) := by
    simp [sstrip, stripE]
  rw [hs] at hb
  simp only [e2oTop, hb, List.nil_append, kvLookup_cons, beq_self_eq_true, if_true, hTo]

/-- **C11 (decoder object = object rebuilt from the events)**, every layout of `/repo`, every input: if the strict decoder
accepts `x` as a `t` and returns `v`, then `events_to_obj` of the marshal events it emitted is `v` -/
theorem c11_decoder_object_is_rebuilt (t : Ty) (ht : t ∈ Generated.allTypes) (x : List Byte) (v : Val)
    (h : (marshalRun true Generated.msgTables (.ty t) x).outcome = .done v) :
    ∃ evs, spec t rootPath none v = some (x, evs) ∧
      runWalker true Generated.msgTables (.ty t) x = .ok (v, ⟨[], x.length, stamp 0 evs, []⟩) ∧
      e2oTop Generated.msgTables (.ty t) (evs.map (·.2)) = some v := by
  obtain ⟨evs, hs⟩ := (AcceptIff.type_accept_iff t ht x v).mp h
  exact ⟨evs, hs, C01.c01_top t v x evs hs _,
    c11_events_to_obj Generated.msgTables t (List.all_eq_true.mp c11_e2o_tables t ht) v x evs hs⟩

/-- non-vacuity: the `TPML_DIGEST_VALUES` example (null arm and SHA-1 arm) is rebuilt from its 30 events -/
example : ∃ bs evs, spec Generated.T_TPML_DIGEST_VALUES rootPath none C01.exampleDigests = some (bs, evs) ∧ evs.length = 30 ∧
    e2oTop Generated.msgTables (.ty Generated.T_TPML_DIGEST_VALUES) (evs.map (·.2)) = some C01.exampleDigests := by
  obtain ⟨bs, evs, h, hl⟩ : ∃ bs evs, spec Generated.T_TPML_DIGEST_VALUES rootPath none C01.exampleDigests = some (bs, evs) ∧
      evs.length = 30 := by
    cases hs : spec Generated.T_TPML_DIGEST_VALUES rootPath none C01.exampleDigests with
    | none => exact absurd hs (by decide +kernel)
    | some r => exact ⟨r.1, r.2, rfl, by
        have : (spec Generated.T_TPML_DIGEST_VALUES rootPath none C01.exampleDigests).map (·.2.length) = some 30 := by decide +kernel
        rw [hs] at this; simpa using this⟩
  exact ⟨bs, evs, h, hl, c11_events_to_obj _ _ (List.all_eq_true.mp c11_e2o_tables _ (by decide +kernel)) _ _ _ h⟩

end C11
