import TpmProofs.E2OSpec
import TpmProofs.E2OMsg
import TpmProofs.Props.C11
import TpmProofs.Props.AcceptIff
/-!
# C11, the clause "the object returned by the decoder equals the object rebuilt from the emitted events"

`e2oTop` is the model of `events_to_obj` (`common/object.py`: `_events_to_dict`, then `_to_obj`), tied to the code by the
`E2O` correspondence.  For every layout meeting the side conditions `Ty.eo` (checked for every layout of `/repo` by
`c11_e2o_tables`) and every input the decoder accepts: rebuilding an object from the emitted events gives exactly the
object the decoder returned.
-/

namespace C11

/-- (tables) every layout in `/repo` meets the side conditions of `events_to_obj` -/
theorem c11_e2o_tables :
    Generated.allTypes.all (Ty.eo (encBuf Generated.msgTables.encParam)) = true := by decide +kernel

/-- the key that marks an encrypted parameter area is the one the side conditions speak about -/
theorem c11_e2o_enckey : encBuf Generated.msgTables.encParam = "encryptedParam" := by decide +kernel

/-- **events → object, on the dictated events**: for every layout meeting the side conditions and every conforming value,
`events_to_obj` of the value's events is the value -/
theorem c11_events_to_obj (tb : MsgTables) (t : Ty) (hok : t.eo (encBuf tb.encParam) = true) (v : Val) (bs : List Byte)
    (evs : List SEv) (h : spec t rootPath none v = some (bs, evs)) :
    e2oTop tb (.ty t) (evs.map (·.2)) = some v := by
  obtain ⟨T, hT, hTo, _⟩ := spec_builds tb.encParam t hok [] ⟨"", none⟩ none v bs evs h
  have hb := hT.1 rfl [] (kvLookup_nil _)
  have hs : sstrip ([] : Path).length evs = evs.map (·.2) := by
    simp [sstrip, stripE]
  rw [hs] at hb
  simp only [e2oTop, hb, List.nil_append, kvLookup_cons, beq_self_eq_true, if_true, hTo]

/-- **C11 (decoder object = object rebuilt from the events)**, every layout of `/repo`, every input: if the strict decoder
accepts `x` as a `t` and returns `v`, then `events_to_obj` of the marshal events it emitted is `v` -/
theorem c11_decoder_object_is_rebuilt (t : Ty) (ht : t ∈ Generated.allTypes) (x : List Byte) (v : Val)
    (h : (marshalRun true Generated.msgTables (.ty t) x).outcome = .done v) :
    ∃ evs, spec t rootPath none v = some (x, evs) ∧
      runWalker true Generated.msgTables (.ty t) x = .ok (v, ⟨[], x.length, stamp 0 evs, []⟩) ∧
      e2oTop Generated.msgTables (.ty t) (evs.map (·.2)) = some v := by
  obtain ⟨evs, hs⟩ := (AcceptIff.type_accept_iff t ht x v).mp h
  exact ⟨evs, hs, C01.c01_top t v x evs hs _,
    c11_events_to_obj Generated.msgTables t (List.all_eq_true.mp c11_e2o_tables t ht) v x evs hs⟩

/-! ### whole runs: the events the consumer sees -/

/-- the `MarshalEvent`s among the events a run yields (what `events_to_obj` keeps) -/
def marshalEvents (r : Run) : List MEvent :=
  r.events.filterMap fun ke => match ke.2 with
    | .marshal m => some m
    | .warning _ => none

theorem marshalEvents_shown (n : Nat) (evs : List SEv) (o : Outcome) (cc : Option Int) :
    marshalEvents ⟨shown n (stamp 0 evs), o, cc⟩ = evs.map (·.2) := by
  simp only [marshalEvents, shown, stamp, List.filterMap_map]
  induction evs with
  | nil => rfl
  | cons e rest ih =>
    rw [List.filterMap_cons, ih]
    simp

theorem type_run (tb : MsgTables) (t : Ty) (v : Val) (bs : List Byte) (evs : List SEv)
    (h : spec t rootPath none v = some (bs, evs)) :
    marshalRun true tb (.ty t) bs = ⟨shown bs.length (stamp 0 evs), .done v, ccAfter (stamp 0 evs) none⟩ := by
  have hw := C01.c01_top t v bs evs h tb
  simp only [marshalRun, Top.isStream, pump, hw, stOf, resOf]
  rw [pumpEvents_all false _ _ _ _ (by intro ke _; simp)]
  simp [pumpOutcome]

/-- (tables) the message tables of `/repo` meet the side conditions (handle / parameter layouts of every command, their
`.encrypted()` variants, the session layouts, the shape of `TPM2B_ENCRYPTED_PARAM`) -/
theorem c11_e2o_msg_tables : Generated.msgTables.eo = true := by decide +kernel

/-- **C11, structures**: whenever strict decoding of `x` as a `t` completes with object `v`, `events_to_obj` of the marshal
events the run yielded is `v` (every layout of `/repo`, every input) -/
theorem c11_type_rebuilt (t : Ty) (ht : t ∈ Generated.allTypes) (x : List Byte) (v : Val)
    (h : (marshalRun true Generated.msgTables (.ty t) x).outcome = .done v) :
    e2oTop Generated.msgTables (.ty t) (marshalEvents (marshalRun true Generated.msgTables (.ty t) x)) = some v := by
  obtain ⟨evs, hs⟩ := (AcceptIff.type_accept_iff t ht x v).mp h
  rw [type_run _ t v x evs hs, marshalEvents_shown]
  exact c11_events_to_obj Generated.msgTables t (List.all_eq_true.mp c11_e2o_tables t ht) v x evs hs

/-- **C11, commands**: whenever strict decoding of `x` as a command completes with object `v`, `events_to_obj` of the
marshal events the run yielded is `v` — sessions, empty session areas and encrypted parameter areas included -/
theorem c11_command_rebuilt (x : List Byte) (v : Val)
    (h : (marshalRun true Generated.msgTables .command x).outcome = .done v) :
    e2oTop Generated.msgTables .command (marshalEvents (marshalRun true Generated.msgTables .command x)) = some v := by
  obtain ⟨p, evs, rfl, hs⟩ := (AcceptIff.command_accept_iff x v).mp h
  rw [MsgWF.c01_command p x evs hs, marshalEvents_shown]
  exact cmd_events_to_obj Generated.msgTables c11_e2o_msg_tables p x evs hs

/-- **C11, responses**: the same for every command code and parameter-encryption flag (failed responses, responses with and
without sessions, encrypted parameter areas) -/
theorem c11_response_rebuilt (cc : Option Int) (enc : Bool) (x : List Byte) (v : Val)
    (h : (marshalRun true Generated.msgTables (.response cc enc) x).outcome = .done v) :
    e2oTop Generated.msgTables (.response cc enc)
      (marshalEvents (marshalRun true Generated.msgTables (.response cc enc) x)) = some v := by
  obtain ⟨p, evs, rfl, hs⟩ := (AcceptIff.response_accept_iff cc enc x v).mp h
  rw [MsgWF.c01_response cc enc p x evs hs, marshalEvents_shown]
  exact rsp_events_to_obj Generated.msgTables c11_e2o_msg_tables cc enc p x evs hs

/-- non-vacuity: the `TPML_DIGEST_VALUES` example (null arm and SHA-1 arm) is rebuilt from its 30 events -/
example : ∃ bs evs, spec Generated.T_TPML_DIGEST_VALUES rootPath none C01.exampleDigests = some (bs, evs) ∧ evs.length = 30 ∧
    e2oTop Generated.msgTables (.ty Generated.T_TPML_DIGEST_VALUES) (evs.map (·.2)) = some C01.exampleDigests := by
  obtain ⟨bs, evs, h, hl⟩ : ∃ bs evs, spec Generated.T_TPML_DIGEST_VALUES rootPath none C01.exampleDigests = some (bs, evs) ∧
      evs.length = 30 := by
    cases hs : spec Generated.T_TPML_DIGEST_VALUES rootPath none C01.exampleDigests with
    | none => exact absurd hs (by decide +kernel)
    | some r => exact ⟨r.1, r.2, rfl, by
        have : (spec Generated.T_TPML_DIGEST_VALUES rootPath none C01.exampleDigests).map (·.2.length) = some 30 := by decide +kernel
        rw [hs] at this; simpa using this⟩
  exact ⟨bs, evs, h, hl, c11_events_to_obj _ _ (List.all_eq_true.mp c11_e2o_tables _ (by decide +kernel)) _ _ _ h⟩

set_option maxRecDepth 100000 in
/-- non-vacuity: the `TPM2_StirRandom` command with a `decrypt` session (opaque parameter area) is accepted, and its object is
rebuilt from its events, `.encrypted()` variant included -/
example : ∃ bs evs, specCommand Generated.msgTables rootPath MsgWF.exCmd = some (bs, evs) ∧
    e2oTop Generated.msgTables .command (evs.map (·.2)) = some MsgWF.exCmd.toVal := by
  cases hs : specCommand Generated.msgTables rootPath MsgWF.exCmd with
  | none =>
    have : (specCommand Generated.msgTables rootPath MsgWF.exCmd).isSome = true := by decide +kernel
    rw [hs] at this; cases this
  | some r => exact ⟨r.1, r.2, rfl, cmd_events_to_obj _ c11_e2o_msg_tables _ _ _ hs⟩

set_option maxRecDepth 100000 in
/-- non-vacuity: the `TPM2_GetRandom` response with an `encrypt` session -/
example : ∃ bs evs, specResponse Generated.msgTables (some 379) true rootPath MsgWF.exRsp = some (bs, evs) ∧
    e2oTop Generated.msgTables (.response (some 379) true) (evs.map (·.2)) = some MsgWF.exRsp.toVal := by
  cases hs : specResponse Generated.msgTables (some 379) true rootPath MsgWF.exRsp with
  | none =>
    have : (specResponse Generated.msgTables (some 379) true rootPath MsgWF.exRsp).isSome = true := by decide +kernel
    rw [hs] at this; cases this
  | some r => exact ⟨r.1, r.2, rfl, rsp_events_to_obj _ c11_e2o_msg_tables _ _ _ _ _ hs⟩

end C11
