import TpmModel.RcSpec
import TpmModel.Generated.Misc
import TpmModel.Pinned.Misc
/-!
# C18 — response codes are classified and named by the TPM 2.0 format rules

`rcSpec` is the TPM 2.0 Part 2 §6.6 rule stated on bit positions.  `rcClassify` is the model of
`TPM_RC.__format__` (mask arithmetic with the constants regenerated from `tpm_rc.py`).
The equality is proved for *every* natural number, by reducing both sides to the low twelve bits
(lemmas about `&&&`/`testBit`/`%`) and deciding the 4096 residues in the kernel.
-/
namespace C18

/-- the constants of TPM 2.0 Part 2, Table 14/15 -/
def stdMasks : RcMasks :=
  { reserved := 0xFFFFF000, tpm12 := 0x180, tpm12Code := 0x7F, fmt1 := 0x80, fmt1Code := 0x7F,
    fmt1Vendor := 0x400, fmt1Warning := 0x800, fmt1Reserved := 0x200, fmt0Param := 0x40,
    fmt0Session := 0x800, fmt0Code := 0x3F, fmt0ParamNum := 0xF00, fmt0HandleNum := 0x700,
    fmt0SessionNum := 0x700, shiftParam := 8, shiftHandle := 8, shiftSession := 8 }

/-- (tables) the constants in `/repo`'s `tpm_rc.py` are the specification's -/
theorem c18_masks : Generated.rcTables.masks = stdMasks := by decide +kernel

theorem and_low (v m : Nat) (hm : m < 4096) : v &&& m = (v % 4096) &&& m := by
  apply Nat.eq_of_testBit_eq
  intro i
  simp only [Nat.testBit_and]
  by_cases hi : i < 12
  · have : (v % 4096).testBit i = v.testBit i := by
      have : (4096 : Nat) = 2 ^ 12 := by decide
      rw [this, Nat.testBit_mod_two_pow]; simp [hi]
    rw [this]
  · have : m.testBit i = false := by
      apply Nat.testBit_lt_two_pow
      calc m < 4096 := hm
        _ = 2 ^ 12 := by decide
        _ ≤ 2 ^ i := Nat.pow_le_pow_right (by decide) (by omega)
    simp [this]

theorem testBit_low (v i : Nat) (hi : i < 12) : v.testBit i = (v % 4096).testBit i := by
  have : (4096 : Nat) = 2 ^ 12 := by decide
  rw [this, Nat.testBit_mod_two_pow]; simp [hi]

theorem field_low (v hi lo : Nat) (h : hi < 12) (hl : lo ≤ hi) : field v hi lo = field (v % 4096) hi lo := by
  unfold field
  have h12 : 12 = lo + (12 - lo) := by omega
  have h4096 : (4096 : Nat) = 2 ^ lo * 2 ^ (12 - lo) := by
    calc (4096 : Nat) = 2 ^ 12 := by decide
      _ = 2 ^ (lo + (12 - lo)) := by rw [← h12]
      _ = 2 ^ lo * 2 ^ (12 - lo) := Nat.pow_add ..
  have hdvd : 2 ^ (hi - lo + 1) ∣ 2 ^ (12 - lo) := Nat.pow_dvd_pow 2 (by omega)
  rw [h4096, Nat.mod_mul_right_div_self, Nat.mod_mod_of_dvd _ hdvd]

/-- both sides only look at the low twelve bits (as long as those are not all zero) -/
theorem classify_low (v : Nat) (h : v % 4096 ≠ 0) : rcClassify stdMasks v = rcClassify stdMasks (v % 4096) := by
  have hv : v ≠ 0 := by intro h0; simp [h0] at h
  unfold rcClassify bitsSet bitsUnset
  simp only [hv, h, if_false, stdMasks]
  have e1 := and_low v 0x180 (by decide); have e2 := and_low v 0x80 (by decide)
  have e3 := and_low v 0x400 (by decide); have e4 := and_low v 0x800 (by decide)
  have e5 := and_low v 0x7F (by decide); have e6 := and_low v 0x40 (by decide)
  have e7 := and_low v 0xF00 (by decide); have e8 := and_low v 0x700 (by decide)
  have e9 := and_low v 0x3F (by decide)
  simp only [e1, e2, e3, e4, e5, e6, e7, e8, e9]
  rfl

theorem spec_low (v : Nat) (h : v % 4096 ≠ 0) : rcSpec v = rcSpec (v % 4096) := by
  have hv : v ≠ 0 := by intro h0; simp [h0] at h
  unfold rcSpec
  simp only [hv, h, if_false]
  have t7 := testBit_low v 7 (by decide); have t8 := testBit_low v 8 (by decide)
  have t6 := testBit_low v 6 (by decide); have t10 := testBit_low v 10 (by decide)
  have t11 := testBit_low v 11 (by decide)
  have f1 := field_low v 5 0 (by decide) (by decide); have f2 := field_low v 11 8 (by decide) (by decide)
  have f3 := field_low v 10 8 (by decide) (by decide); have f4 := field_low v 6 0 (by decide) (by decide)
  simp only [t7, t8, t6, t10, t11, f1, f2, f3, f4, Nat.mod_mod]

/-- all 4096 residues, decided by the kernel -/
theorem classify_table : (List.range 4096).all (fun w => rcClassify stdMasks w == rcSpec w) = true := by
  decide +kernel

/-- **C18 (format)**: for every response code whose low twelve bits are not all zero, and for zero,
the classification computed by the mask arithmetic of `TPM_RC.__format__` is the one the
specification's bit layout dictates — whatever the reserved high bits are. -/
theorem c18_format (v : Nat) (h : v = 0 ∨ v % 4096 ≠ 0) : rcClassify stdMasks v = rcSpec v := by
  rcases h with rfl | h
  · rfl
  · rw [classify_low v h, spec_low v h]
    have hlt : v % 4096 < 4096 := Nat.mod_lt _ (by decide)
    have := List.all_eq_true.mp classify_table (v % 4096) (List.mem_range.mpr hlt)
    simpa using this

/-- for the code in `/repo` (constants regenerated on every run) -/
theorem c18_format_repo (v : Nat) (h : v = 0 ∨ v % 4096 ≠ 0) : rcClassify Generated.rcTables.masks v = rcSpec v := by
  rw [c18_masks]; exact c18_format v h

/-- the result does not depend on the reserved high bits -/
theorem c18_high_bits (v : Nat) (h : v % 4096 ≠ 0) : rcClassify stdMasks v = rcClassify stdMasks (v % 4096) :=
  classify_low v h

/-! ### bit rows -/

/-- the four row layouts a TPM 2.0 code can get -/
def rowsFmt0 : List (String × Nat) :=
  [("reserved0", 0xFFFFF000), ("format", 0x80), ("version", 0x100), ("vendorDefined", 0x400),
   ("severity", 0x800), ("reserved1", 0x200), ("code", 0x7F)]
def rowsParam : List (String × Nat) :=
  [("reserved0", 0xFFFFF000), ("format", 0x80), ("parameterError", 0x40), ("parameterNumber", 0xF00), ("code", 0x3F)]
def rowsSession : List (String × Nat) :=
  [("reserved0", 0xFFFFF000), ("format", 0x80), ("parameterError", 0x40), ("sessionError", 0x800),
   ("sessionNumber", 0x700), ("code", 0x3F)]
def rowsHandle : List (String × Nat) :=
  [("reserved0", 0xFFFFF000), ("format", 0x80), ("parameterError", 0x40), ("sessionError", 0x800),
   ("handleNumber", 0x700), ("code", 0x3F)]

/-- the rows carry the same classification as the text: which layout is shown is determined by the class -/
def rowsOfClass : RcClass → List (String × Nat)
  | .success => []
  | .tpm12 => []
  | .vendor => rowsFmt0
  | .named .fmt0Err _ _ => rowsFmt0
  | .named .fmt0Warn _ _ => rowsFmt0
  | .named .fmt1 _ (.parameter _) => rowsParam
  | .named .fmt1 _ (.session _) => rowsSession
  | .named .fmt1 _ _ => rowsHandle

theorem rows_table : (List.range 4096).all (fun w =>
    (w == 0 || (!w.testBit 7 && !w.testBit 8)) || rcRowsRaw stdMasks w == rowsOfClass (rcClassify stdMasks w)) = true := by
  decide +kernel

theorem rows_low (v : Nat) (h : v % 4096 ≠ 0) : rcRowsRaw stdMasks v = rcRowsRaw stdMasks (v % 4096) := by
  have hv : v ≠ 0 := by intro h0; simp [h0] at h
  unfold rcRowsRaw bitsSet bitsUnset
  simp only [hv, h, if_false, stdMasks]
  have e1 := and_low v 0x180 (by decide); have e2 := and_low v 0x80 (by decide)
  have e3 := and_low v 0x40 (by decide); have e4 := and_low v 0x800 (by decide)
  simp only [e1, e2, e3, e4]
  rfl

/-- **C18 (rows)**: for every TPM 2.0 code (bit 7 or bit 8 set), the rows `attributes()` builds are the
layout that belongs to the code's classification … -/
theorem c18_rows_class (v : Nat) (h : v.testBit 7 = true ∨ v.testBit 8 = true) :
    rcRowsRaw stdMasks v = rowsOfClass (rcClassify stdMasks v) := by
  have h' : (v % 4096).testBit 7 = true ∨ (v % 4096).testBit 8 = true := by
    rw [← testBit_low v 7 (by decide), ← testBit_low v 8 (by decide)]; exact h
  have hne : v % 4096 ≠ 0 := by
    intro h0; rw [h0] at h'; simp at h'
  rw [rows_low v hne, classify_low v hne]
  have hlt : v % 4096 < 4096 := Nat.mod_lt _ (by decide)
  have := List.all_eq_true.mp rows_table (v % 4096) (List.mem_range.mpr hlt)
  simp only [Bool.or_eq_true, beq_iff_eq, Bool.and_eq_true, Bool.not_eq_true'] at this
  rcases this with (h0 | ⟨h7, h8⟩) | h3
  · exact absurd h0 hne
  · rcases h' with h' | h' <;> simp_all
  · exact h3

/-- … and each of those layouts partitions the 32-bit word: no bit shown twice, none hidden -/
theorem c18_rows_partition :
    partitions (rowsFmt0.map (·.2)) 32 = true ∧ partitions (rowsParam.map (·.2)) 32 = true ∧
    partitions (rowsSession.map (·.2)) 32 = true ∧ partitions (rowsHandle.map (·.2)) 32 = true := by
  refine ⟨?_, ?_, ?_, ?_⟩ <;> decide +kernel

/-- (tables) the name maps are the pinned ones (names, numbers, defaults) -/
theorem c18_names_pinned :
    Generated.rcTables.fmt0Err = Pinned.rcTables.fmt0Err ∧ Generated.rcTables.fmt0Warn = Pinned.rcTables.fmt0Warn ∧
    Generated.rcTables.fmt1 = Pinned.rcTables.fmt1 ∧
    Generated.rcTables.fmt0ErrDefault = Pinned.rcTables.fmt0ErrDefault ∧
    Generated.rcTables.fmt0WarnDefault = Pinned.rcTables.fmt0WarnDefault ∧
    Generated.rcTables.fmt1Default = Pinned.rcTables.fmt1Default := ⟨rfl, rfl, rfl, rfl, rfl, rfl⟩

/-- non-vacuity: `TPM_RC_VALUE | P | 1` = 0x1C4 is format-one error 4 on parameter 1; 0x922 is warning 0x22 -/
example : rcSpec 0x1C4 = .named .fmt1 4 (.parameter 1) ∧ rcSpec 0x922 = .named .fmt0Warn 0x22 .none ∧
    rcSpec 0xFFFF0984 = .named .fmt1 4 (.session 1) := by decide

end C18

/-! ### the rows' free-text details carry the classification of the text form -/

namespace C18

theorem single_bit (v k : Nat) : v &&& 2 ^ k = 0 ∨ v &&& 2 ^ k = 2 ^ k := by
  cases h : v.testBit k
  · left
    apply Nat.eq_of_testBit_eq
    intro j
    simp only [Nat.testBit_and, Nat.testBit_two_pow, Nat.zero_testBit, Bool.and_eq_false_imp, decide_eq_false_iff_not]
    intro hj hkj
    subst hkj
    rw [h] at hj; cases hj
  · right
    apply Nat.eq_of_testBit_eq
    intro j
    simp only [Nat.testBit_and, Nat.testBit_two_pow]
    by_cases hkj : k = j
    · subst hkj; simp [h]
    · simp [hkj]

theorem unset_of_not_set (v k : Nat) (h : bitsSet v (2 ^ k) = false) : bitsUnset v (2 ^ k) = true := by
  unfold bitsSet at h
  unfold bitsUnset
  rcases single_bit v k with h0 | h1
  · simp [h0]
  · simp [h1] at h

/-- the number the text form shows for a format-one code is the detail of the corresponding number row -/
def detailIn (d : RcDetail) (ds : List (String × String)) : Prop :=
  match d with
  | .none => True
  | .parameter k => ("parameterNumber", s!"Parameter No. {k}") ∈ ds
  | .session k => ("sessionNumber", s!"Session No. {k}") ∈ ds
  | .handle k => ("handleNumber", s!"Handle No. {k}") ∈ ds

/-- **C18 (row details)**: for every table with the specification's masks and every code that the text form names (class
`named m code d`): the `code` row's detail is the very name the text form shows, and the parameter / session / handle number of
the text form is the detail of the corresponding number row — the rows carry the same classification as the text -/
theorem c18_row_details (t : RcTables) (hm : t.masks = stdMasks) (v : Nat) (m : RcMap) (code : Nat) (d : RcDetail)
    (h : rcClassify t.masks v = .named m code d) :
    match t.name m code with
    | none => rcRowDetails t v = none
    | some nm => ∃ ds, rcRowDetails t v = some ds ∧ ("code", nm) ∈ ds ∧
        detailIn d ds := by
  unfold rcClassify at h
  unfold rcRowDetails
  split at h
  · cases h
  · rename_i hv
    simp only [hv, if_false]
    split at h
    · cases h
    · rename_i h12
      simp only [h12, Bool.false_eq_true, if_false]
      split at h
      · rename_i hf
        simp only [hf, if_true]
        split at h
        · cases h
        · rename_i hvend
          have hvu : bitsUnset v t.masks.fmt1Vendor = true := by
            rw [hm] at hvend ⊢
            exact unset_of_not_set v 10 (by simpa [stdMasks] using hvend)
          simp only [hvu, if_true]
          split at h
          · rename_i hw
            simp only [RcClass.named.injEq] at h
            obtain ⟨rfl, rfl, rfl⟩ := h
            simp only [hw, if_true]
            cases t.name .fmt0Warn (v &&& t.masks.fmt1Code) with
            | none => rfl
            | some nm => exact ⟨_, rfl, by simp, trivial⟩
          · rename_i hw
            simp only [RcClass.named.injEq] at h
            obtain ⟨rfl, rfl, rfl⟩ := h
            simp only [hw, Bool.false_eq_true, if_false]
            cases t.name .fmt0Err (v &&& t.masks.fmt1Code) with
            | none => rfl
            | some nm => exact ⟨_, rfl, by simp, trivial⟩
      · rename_i hf
        simp only [hf, Bool.false_eq_true, if_false]
        simp only [RcClass.named.injEq] at h
        obtain ⟨rfl, rfl, hd⟩ := h
        cases t.name .fmt1 (v &&& t.masks.fmt0Code) with
        | none => rfl
        | some nm =>
          refine ⟨_, rfl, by simp, ?_⟩
          by_cases hp : bitsSet v t.masks.fmt0Param = true
          · simp only [hp, if_true] at hd ⊢
            subst hd
            simp [detailIn]
          · simp only [hp, Bool.false_eq_true, if_false] at hd ⊢
            by_cases hs : bitsSet v t.masks.fmt0Session = true
            · simp only [hs, if_true] at hd ⊢
              subst hd
              simp [detailIn]
            · simp only [hs, Bool.false_eq_true, if_false] at hd ⊢
              subst hd
              simp [detailIn]

/-- over the tables of `/repo` -/
theorem c18_row_details_repo (v : Nat) (m : RcMap) (code : Nat) (d : RcDetail)
    (h : rcClassify Generated.rcTables.masks v = .named m code d) :
    match Generated.rcTables.name m code with
    | none => rcRowDetails Generated.rcTables v = none
    | some nm => ∃ ds, rcRowDetails Generated.rcTables v = some ds ∧ ("code", nm) ∈ ds ∧
        detailIn d ds :=
  c18_row_details Generated.rcTables c18_masks v m code d h

end C18
