import TpmProofs.PumpFacts
import TpmProofs.Props.C10
import TpmProofs.NoCrash
import TpmProofs.MsgNoCrash
import TpmModel.Generated.Cmd
import TpmProofs.MsgPump
import TpmModel.Generated.Types
/-!
# C06 — decoding arbitrary bytes terminates with a documented outcome

Termination: every function of the model is total (structural recursion over the layout; the two loops
carry fuel bounded by the input length), so `marshalRun` is a total function: for every input it returns
a `Run` whose outcome is one of the constructors of `Outcome`.  Internal Python errors are the explicit
`Outcome.crash` constructor.  For every non-union layout of /repo they are unreachable, on every input
(`c06_no_crash_type`, from `decode_nc` in TpmProofs/NoCrash.lean and the kernel-decided side conditions `c06_tables`);
for whole commands it is unreachable too (`c06_no_crash_command`), and for responses and streams the only internal error
left is the `assert` comparing the caller's parameter-encryption flag with the response's session attributes
(`c06_response`, `c06_stream`, from TpmProofs/MsgNoCrash.lean) — the known finding.
-/
namespace C06

/-- the pump never pulls more bytes than the source holds -/
theorem c06_pulls_le (abort : Bool) (tb : MsgTables) (top : Top) (x : List Byte) :
    ∀ ke ∈ (marshalRun abort tb top x).events, ke.1 ≤ x.length := by
  unfold marshalRun pump
  exact C10.c10_pulls_bounded _ _ _ [] none (by intro ke h; cases h)

/-- every run ends in exactly one of: done / silent stream end / a constraint error with remaining
bytes / depleted / superfluous / internal error — the last being the only undocumented one -/
theorem c06_pump_total (abort : Bool) (tb : MsgTables) (top : Top) (x : List Byte) :
    (∃ v, (marshalRun abort tb top x).outcome = .done v) ∨ (marshalRun abort tb top x).outcome = .silent ∨
    (∃ e rem, (marshalRun abort tb top x).outcome = .raised e rem) ∨ (marshalRun abort tb top x).outcome = .depleted ∨
    (∃ r v, (marshalRun abort tb top x).outcome = .superfluous r v) ∨
    (∃ c s, (marshalRun abort tb top x).outcome = .crash c s) := by
  cases h : (marshalRun abort tb top x).outcome with
  | done v => exact Or.inl ⟨v, rfl⟩
  | silent => exact Or.inr (Or.inl rfl)
  | raised e rem => exact Or.inr (Or.inr (Or.inl ⟨e, rem, rfl⟩))
  | depleted => exact Or.inr (Or.inr (Or.inr (Or.inl rfl)))
  | superfluous r v => exact Or.inr (Or.inr (Or.inr (Or.inr (Or.inl ⟨r, v, rfl⟩))))
  | crash c s => exact Or.inr (Or.inr (Or.inr (Or.inr (Or.inr ⟨c, s, rfl⟩))))

def _root_.Ty.isUnion : Ty → Bool
  | .union _ _ => true
  | _ => false

/-- (tables) every non-union layout of /repo meets the static side conditions of crash-freedom: counts are read from an
integer field, selectors name an earlier integer field, unions decoded without a selector have a fallback member, list
members have a declared size, size fields are unsigned and at least one byte wide -/
theorem c06_tables : (Generated.allTypes.filter fun t => !t.isUnion).all (fun t => t.wf && t.total && t.okNoSel) = true := by
  decide +kernel

/-- a run whose walker result is no crash does not end in `crash` -/
theorem outcome_no_crash (tb : MsgTables) (top : Top) (hs : top.isStream = false) (x : List Byte)
    (h : NC (runWalker true tb top x)) : ∀ c m, (marshalRun true tb top x).outcome ≠ .crash c m := by
  intro c m
  rw [outcome_nonstream tb top hs x]
  cases hw : runWalker true tb top x with
  | ok vs =>
    obtain ⟨v, s⟩ := vs
    show pumpOutcome x s.pos (.ok v) ≠ _
    unfold pumpOutcome
    simp only []
    by_cases hlt : s.pos < x.length
    · rw [if_pos hlt]; intro hh; cases hh
    · rw [if_neg hlt]; intro hh; cases hh
  | error es =>
    obtain ⟨e, s⟩ := es
    have hne := h
    rw [hw] at hne
    show pumpOutcome x s.pos (.error e) ≠ _
    cases e with
    | crash c' m' => exact absurd rfl (hne c' m' s)
    | depleted => simp [pumpOutcome]
    | exceeded => simp [pumpOutcome]
    | anticipated => simp [pumpOutcome]
    | subceeded => simp [pumpOutcome]
    | value => simp [pumpOutcome]
    | valueNone => simp [pumpOutcome]

/-- **C06 for structures**: for every non-union layout of /repo and EVERY byte string, strict decoding ends with the
object, with one of the documented errors (a constraint violation, input depleted, input superfluous) — never with an
internal error -/
theorem c06_no_crash_type (t : Ty) (ht : t ∈ Generated.allTypes) (hu : t.isUnion = false) (tb : MsgTables) (x : List Byte) :
    ∀ c m, (marshalRun true tb (.ty t) x).outcome ≠ .crash c m := by
  have hmem : t ∈ Generated.allTypes.filter fun t => !t.isUnion := by simp [List.mem_filter, ht, hu]
  have := List.all_eq_true.mp c06_tables t hmem
  simp only [Bool.and_eq_true] at this
  obtain ⟨⟨hwf, htot⟩, hok⟩ := this
  exact outcome_no_crash tb (.ty t) rfl x
    (by simpa [runWalker] using decode_nc t hwf htot rootPath none (initSt x) (fun _ => hok) (by intro c hc; cases hc))

/-- (tables) the message tables of /repo meet the static side conditions: unsigned size fields, session layouts with the
attribute bits `is_parameter_encryption` looks up, every handle / parameter area (also in its encrypted variant)
crash-free, every command code has response layouts -/
theorem c06_msg_tables : Generated.msgTables.total = true ∧ Generated.msgTables.paired = true := by decide +kernel

/-- a crash outcome can only come from a crash of the walker -/
theorem crash_from_walker (tb : MsgTables) (top : Top) (x : List Byte) (c m : String)
    (h : (marshalRun true tb top x).outcome = .crash c m) : ∃ s, runWalker true tb top x = .error (.crash c m, s) := by
  unfold marshalRun pump at h
  simp only [] at h
  split at h
  · cases h
  · cases hw : runWalker true tb top x with
    | ok vs =>
      obtain ⟨v, s⟩ := vs
      rw [hw] at h
      have : pumpOutcome x s.pos (.ok v) = .crash c m := h
      unfold pumpOutcome at this
      simp only [] at this
      split at this <;> cases this
    | error es =>
      obtain ⟨e, s⟩ := es
      rw [hw] at h
      have h' : pumpOutcome x s.pos (.error e) = .crash c m := h
      cases e with
      | crash c' m' =>
        simp only [pumpOutcome, Outcome.crash.injEq] at h'
        obtain ⟨rfl, rfl⟩ := h'
        exact ⟨s, rfl⟩
      | depleted => simp [pumpOutcome] at h'
      | exceeded => simp [pumpOutcome] at h'
      | anticipated => simp [pumpOutcome] at h'
      | subceeded => simp [pumpOutcome] at h'
      | value => simp [pumpOutcome] at h'
      | valueNone => simp [pumpOutcome] at h'

/-- **C06 for commands**: every byte string decoded as a command ends with the object or a documented error -/
theorem c06_no_crash_command (x : List Byte) : ∀ c m, (marshalRun true Generated.msgTables .command x).outcome ≠ .crash c m := by
  intro c m h
  obtain ⟨s, hs⟩ := crash_from_walker _ _ _ _ _ h
  exact decodeCommand_nc Generated.msgTables c06_msg_tables.1 rootPath (initSt x) c m s (by simpa [runWalker] using hs)

/-- **C06 for responses**, every command code of /repo and either flag: the only internal error is the known one -/
theorem c06_response (cc : Int) (hcc : cc ∈ Generated.msgTables.cmdHandles.map (·.1)) (enc : Bool) (x : List Byte) (c m : String)
    (h : (marshalRun true Generated.msgTables (.response (some cc) enc) x).outcome = .crash c m) : isMismatch c m := by
  obtain ⟨s, hs⟩ := crash_from_walker _ _ _ _ _ h
  obtain ⟨⟨k, t⟩, hmem, rfl⟩ := List.mem_map.mp hcc
  have hpair := List.all_eq_true.mp c06_msg_tables.2 _ hmem
  simp only [Bool.and_eq_true] at hpair
  exact decodeResponse_ncx Generated.msgTables c06_msg_tables.1 (some k) enc rootPath (initSt x) (by simpa using hpair)
    c m s (by simpa [runWalker] using hs)

/-- **C06 for streams**: likewise -/
theorem c06_stream (x : List Byte) (c m : String)
    (h : (marshalRun true Generated.msgTables .stream x).outcome = .crash c m) : isMismatch c m := by
  obtain ⟨s, hs⟩ := crash_from_walker _ _ _ _ _ h
  exact decodeStream_ncx Generated.msgTables c06_msg_tables.1 c06_msg_tables.2 rootPath (x.length + 1) (initSt x)
    (by simp [initSt]) c m s (by simpa [runWalker] using hs)

end C06
