import TpmProofs.PumpFacts
import TpmProofs.Props.C10
/-!
# C06 — decoding arbitrary bytes terminates with a documented outcome

Termination: every function of the model is total (structural recursion over the layout; the two loops
carry fuel bounded by the input length), so `marshalRun` is a total function: for every input it returns
a `Run` whose outcome is one of the constructors of `Outcome`.  Internal Python errors are the explicit
`Outcome.crash` constructor; that they are unreachable for the current tables is *monitored* on the
implementation (and the model corresponds on every input tried), not yet proved.
-/
namespace C06

/-- the pump never pulls more bytes than the source holds -/
theorem c06_pulls_le (abort : Bool) (tb : MsgTables) (top : Top) (x : List Byte) :
    ∀ ke ∈ (marshalRun abort tb top x).events, ke.1 ≤ x.length := by
  unfold marshalRun pump
  exact C10.c10_pulls_bounded _ _ _ [] none (by intro ke h; cases h)

/-- every run ends in exactly one of: done / silent stream end / a constraint error with remaining
bytes / depleted / superfluous / internal error — the last being the only undocumented one -/
theorem c06_pump_total (abort : Bool) (tb : MsgTables) (top : Top) (x : List Byte) :
    (∃ v, (marshalRun abort tb top x).outcome = .done v) ∨ (marshalRun abort tb top x).outcome = .silent ∨
    (∃ e rem, (marshalRun abort tb top x).outcome = .raised e rem) ∨ (marshalRun abort tb top x).outcome = .depleted ∨
    (∃ r v, (marshalRun abort tb top x).outcome = .superfluous r v) ∨
    (∃ c s, (marshalRun abort tb top x).outcome = .crash c s) := by
  cases h : (marshalRun abort tb top x).outcome with
  | done v => exact Or.inl ⟨v, rfl⟩
  | silent => exact Or.inr (Or.inl rfl)
  | raised e rem => exact Or.inr (Or.inr (Or.inl ⟨e, rem, rfl⟩))
  | depleted => exact Or.inr (Or.inr (Or.inr (Or.inl rfl)))
  | superfluous r v => exact Or.inr (Or.inr (Or.inr (Or.inr (Or.inl ⟨r, v, rfl⟩))))
  | crash c s => exact Or.inr (Or.inr (Or.inr (Or.inr (Or.inr ⟨c, s, rfl⟩))))

end C06
