import TpmProofs.ShapeMsg
import TpmProofs.Props.C14E
import TpmProofs.Props.C14W
import TpmProofs.Props.C14R
import TpmProofs.MsgPump
import TpmProofs.Props.C04
import TpmProofs.Props.C16
import TpmProofs.Props.C02S
/-!
# C14: every event stream the decoder produces — in either mode, on every input — is shaped, so the printers cannot fail on it
-/

namespace C14

theorem pumpEvents_prefix (isStream : Bool) (len : Nat) : ∀ (out acc : List (Nat × Event)) (cc : Option Int),
    ∃ pre, pre <+: out ∧ (pumpEvents isStream len out acc cc).1 = acc ++ shown len pre
  | [], acc, cc => ⟨[], List.prefix_refl _, by simp [pumpEvents, shown]⟩
  | (k, e) :: rest, acc, cc => by
    unfold pumpEvents
    split
    · exact ⟨[], List.nil_prefix, by simp [shown]⟩
    · obtain ⟨pre, hp, he⟩ := pumpEvents_prefix isStream len rest (acc ++ [(min (k + 1) len, e)]) (ccOf e cc)
      exact ⟨(k, e) :: pre, List.cons_prefix_cons.mpr ⟨rfl, hp⟩, by rw [he]; simp [shown]⟩

/-- the events a run shows are a prefix of the walker's trace -/
theorem run_evs_prefix (abort : Bool) (tb : MsgTables) (top : Top) (x : List Byte) :
    (marshalRun abort tb top x).events.map (·.2) <+: (stOf (runWalker abort tb top x)).out.map (·.2) := by
  simp only [marshalRun, pump]
  obtain ⟨pre, hp, he⟩ := pumpEvents_prefix top.isStream x.length (stOf (runWalker abort tb top x)).out [] none
  rw [he]
  simp only [List.nil_append, shown, List.map_map]
  exact List.IsPrefix.map _ hp

/-- **C14 for the decoder**: for every layout table meeting the (kernel-checked) side conditions, every top-level decode, either
mode and EVERY input, the event stream a consumer sees is shaped: every value is of a primitive class the printers know, and the
events that directly follow a byte-buffer event as its children carry values -/
theorem decoder_shaped (env : PrintEnv) (abort : Bool) (tb : MsgTables)
    (h : tb.shapeOk (fun p => (env.prim p.name).isSome) = true) (top : Top)
    (htop : ∀ t, top = .ty t → t.shapeOk (fun p => (env.prim p.name).isSome) = true) (x : List Byte) :
    shapedB env (streamOf abort (marshalRun abort tb top x)) = true := by
  have hpk : PrimLink abort (fun p => (env.prim p.name).isSome) (fun m => (env.prim m.vclass).isSome = true) :=
    fun p hp σ x _ => hp
  obtain ⟨new, ho, hgd⟩ := runWalker_gd abort hpk tb h top htop x
  simp only [initSt, List.nil_append] at ho
  obtain ⟨suffix, hsplit⟩ := run_evs_prefix abort tb top x
  rw [ho] at hsplit
  -- the shown events
  have hk : kidsOk ((marshalRun abort tb top x).events.map (·.2)) = true :=
    kidsOk_prefix _ suffix (by rw [hsplit]; exact hgd.2)
  have hr : ∀ e ∈ (marshalRun abort tb top x).events.map (·.2), resolvesB env e = true := by
    intro e he
    cases e with
    | warning w => rfl
    | marshal m =>
      have hm : .marshal m ∈ new.map (·.2) := by rw [← hsplit]; exact List.mem_append_left _ he
      have := (hgd.1 m hm).2
      simp only [resolvesB, Bool.or_eq_true]
      cases hv : m.val with
      | none => left; rfl
      | some y => right; exact this (by rw [hv]; rfl)
  -- the final warning of a warn-mode run
  have hW : GW (if abort then [] else match (marshalRun abort tb top x).outcome with
      | .depleted => [Event.warning .depleted]
      | .superfluous _ _ => [Event.warning .depleted]
      | _ => []) := by
    split
    · exact GW.nil
    · split <;> first | exact GW.cons_w _ GW.nil | exact GW.nil
  unfold streamOf shapedB
  simp only [Bool.and_eq_true, List.all_eq_true]
  refine ⟨fun e he => ?_, kidsOk_append _ _ hk (kidsOk_gw _ hW) (fun p _ _ => bytesRun_gw _ _ hW)⟩
  rcases List.mem_append.mp he with he | he
  · exact hr e he
  · have := hW e he
    cases e with
    | warning w => rfl
    | marshal m => simp [isWarn] at this

/-- the printers' environment over the regenerated primitive table (the one `tableEnv` of the non-vacuity file) -/
theorem c14_shape_tables :
    Generated.msgTables.shapeOk (fun p => (tableEnv.prim p.name).isSome) = true ∧
    Generated.allTypes.all (Ty.shapeOk fun p => (tableEnv.prim p.name).isSome) = true := by
  constructor <;> decide +kernel

/-- **C14, totality for the decoder's streams**: for every layout of `/repo` (and the command, response and stream decoders),
either mode and EVERY byte string, pretty-printing the event stream that decoding yields returns rows -/
theorem c14_decoder_total (abort : Bool) (top : Top) (htop : ∀ t, top = .ty t → t ∈ Generated.allTypes) (x : List Byte) :
    ∃ rows, prettyRows tableEnv (streamOf abort (marshalRun abort Generated.msgTables top x)) = .ok rows :=
  c14_total_b tableEnv _ (decoder_shaped tableEnv abort Generated.msgTables c14_shape_tables.1 top
    (fun t ht => List.all_eq_true.mp c14_shape_tables.2 t (htop t ht)) x)

/-- **C14, rows ↔ events for the decoder's streams**: for every layout, either mode and EVERY byte string, the printer's rows are
the rendering of the blocks of the decoded stream (`C14R`): one row per event shown on its own, one row per byte buffer holding
all its bytes, one info row per warning, in event order -/
theorem c14_decoder_rows (abort : Bool) (top : Top) (htop : ∀ t, top = .ty t → t ∈ Generated.allTypes) (x : List Byte) :
    prettyRows tableEnv (streamOf abort (marshalRun abort Generated.msgTables top x)) =
      .ok (render tableEnv 0 (blocksOf (streamOf abort (marshalRun abort Generated.msgTables top x)))) := by
  obtain ⟨rows, h⟩ := c14_decoder_total abort top htop x
  rw [h, c14_rows_are_blocks _ _ _ h]

/-! ### the hex column is the input -/

/-- a field event's class is a primitive type of the table and the event carries that type's name and width (either mode) -/
def ClassOk (m : MEvent) : Prop :=
  ∃ p, C04.tablePrim m.vclass = some p ∧ m.ty = .named p.name false ∧ m.width = p.size

theorem class_link (abort : Bool) : PrimLink abort C04.knownPrim ClassOk := fun p hp σ x _ =>
  ⟨p, by simpa [C04.knownPrim] using hp, rfl, rfl⟩

/-- every field event a consumer sees, in either mode and for every input, is of a table class with that class's width -/
theorem decoder_classes (abort : Bool) (top : Top) (htop : ∀ t, top = .ty t → t ∈ Generated.allTypes) (x : List Byte) :
    ∀ m, .marshal m ∈ streamOf abort (marshalRun abort Generated.msgTables top x) → m.val.isSome = true → ClassOk m := by
  obtain ⟨new, ho, hgd⟩ := runWalker_gd abort (class_link abort) Generated.msgTables C04.c04_tables.1 top
    (fun t ht => List.all_eq_true.mp C04.c04_tables.2 t (htop t ht)) x
  simp only [initSt, List.nil_append] at ho
  obtain ⟨suffix, hsplit⟩ := run_evs_prefix abort Generated.msgTables top x
  rw [ho] at hsplit
  intro m hm hv
  unfold streamOf at hm
  rcases List.mem_append.mp hm with hm | hm
  · exact (hgd.1 m (by rw [← hsplit]; exact List.mem_append_left _ hm)).2 hv
  · exfalso
    split at hm
    · cases hm
    · split at hm <;> simp at hm

/-- for such events the printers' own re-encoding (`to_bytes` with its delegation to the looked-up class) is the declared-width
encoding of the value: the bytes `Binary.unmarshal` and C02/C13 speak about -/
theorem streamBytes_eq (evs : List Event) (h : ∀ m, .marshal m ∈ evs → m.val.isSome = true → ClassOk m) :
    streamBytes tableEnv evs = evsBytes evs := by
  induction evs with
  | nil => rfl
  | cons e rest ih =>
    have ih' := ih (fun m hm => h m (List.mem_cons_of_mem _ hm))
    simp only [streamBytes, evsBytes, List.flatMap_cons] at ih' ⊢
    rw [ih']
    congr 1
    cases e with
    | warning w => rfl
    | marshal m =>
      simp only [evBytesE, Event.bytes, MEvent.bytes, eventBytes]
      cases hv : m.val with
      | none => rfl
      | some y =>
        obtain ⟨p, hp, _, hw⟩ := h m (List.mem_cons_self ..) (by rw [hv]; rfl)
        have hp' : tableEnv.prim m.vclass = some p := hp
        simp only [hp', hw]
        have hmem : p ∈ Generated.allPrims := List.mem_of_find?_eq_some hp
        exact C16.c16_toBytes_declared p y (List.all_eq_true.mp C16.c16_owners_tables p hmem)

/-- **C14, hex column** for the decoder's streams: in either mode and for every input, the pretty printer returns rows whose
hex column, concatenated, is exactly the declared-width encoding of the fields shown -/
theorem c14_decoder_hex (abort : Bool) (top : Top) (htop : ∀ t, top = .ty t → t ∈ Generated.allTypes) (x : List Byte) :
    ∃ rows, prettyRows tableEnv (streamOf abort (marshalRun abort Generated.msgTables top x)) = .ok rows ∧
      rowsHex rows = evsBytes (streamOf abort (marshalRun abort Generated.msgTables top x)) := by
  obtain ⟨rows, hr⟩ := c14_decoder_total abort top htop x
  exact ⟨rows, hr, by rw [c14_hex_top _ _ _ hr, streamBytes_eq _ (decoder_classes abort top htop x)]⟩

/-- … which is the whole input whenever strict decoding accepts it (structures, commands, responses: `done`; streams: `silent`) -/
theorem c14_accepted_hex_is_input (top : Top) (htop : ∀ t, top = .ty t → t ∈ Generated.allTypes) (x : List Byte)
    (hacc : (∃ v, (marshalRun true Generated.msgTables top x).outcome = .done v) ∨
      (top = .stream ∧ (marshalRun true Generated.msgTables top x).outcome = .silent)) :
    ∃ rows, prettyRows tableEnv (streamOf true (marshalRun true Generated.msgTables top x)) = .ok rows ∧ rowsHex rows = x := by
  obtain ⟨rows, hr, hx⟩ := c14_decoder_hex true top htop x
  refine ⟨rows, hr, ?_⟩
  rw [hx]
  have hs : streamOf true (marshalRun true Generated.msgTables top x) = (marshalRun true Generated.msgTables top x).evs := by
    simp [streamOf, Run.evs]
  rw [hs]
  rcases hacc with ⟨v, hd⟩ | ⟨rfl, hsil⟩
  · exact C02.c02_strict _ top x v hd
  · exact C02.c02_stream _ x hsil

end C14
