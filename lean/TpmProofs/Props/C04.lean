import TpmProofs.DecodeOk
import TpmProofs.Props.C16
/-!
# C04 — strict mode rejects exactly the inputs containing an out-of-range value
-/
namespace C04

/-- a primitive field inside regions with room: strict decoding raises `ValueConstraintViolatedError`
naming the field's path, declared type and the integer — with no event for it — exactly when the integer
is outside the declared set … -/
theorem c04_prim_reject (p : Prim) (path : Path) (bs rest : List Byte) (pos : Nat) (out : List (Nat × Event))
    (scs : List SC) (hlen : bs.length = p.size) (hroom : Room scs p.size) (hbad : p.isValid (p.ofBytes bs) = false) :
    readPrim true p path ⟨bs ++ rest, pos, out, scs⟩ =
      .error (.value path p.name (p.ofBytes bs), ⟨rest, pos + p.size, out, bump scs p.size⟩) := by
  unfold readPrim
  rw [bytesParsed_ok _ _ _ _ _ _ hroom]
  have := take_ok bs rest pos out (bump scs p.size)
  rw [hlen] at this
  simp [this, hbad]

/-- … and otherwise emits exactly one event carrying that integer -/
theorem c04_prim_accept (p : Prim) (path : Path) (bs rest : List Byte) (pos : Nat) (out : List (Nat × Event))
    (scs : List SC) (hlen : bs.length = p.size) (hroom : Room scs p.size) (hok : p.isValid (p.ofBytes bs) = true) :
    readPrim true p path ⟨bs ++ rest, pos, out, scs⟩ =
      .ok (.int p.name (p.ofBytes bs),
        ⟨rest, pos + p.size, out ++ [(pos + p.size, .marshal ⟨path, .named p.name false, some (p.ofBytes bs), p.name, p.size⟩)],
          bump scs p.size⟩) := by
  unfold readPrim
  rw [bytesParsed_ok _ _ _ _ _ _ hroom]
  have := take_ok bs rest pos out (bump scs p.size)
  rw [hlen] at this
  simp [this, hok, emitM, emit]

end C04
