import TpmProofs.DecodeOk
import TpmProofs.Props.C16
import TpmProofs.ShapeMsg
import TpmModel.Generated.Prims
import TpmModel.Generated.Types
import TpmModel.Generated.Cmd
import TpmProofs.Props.C07
/-!
# C04 — strict mode rejects exactly the inputs containing an out-of-range value
-/
namespace C04

/-- a primitive field inside regions with room: strict decoding raises `ValueConstraintViolatedError`
naming the field's path, declared type and the integer — with no event for it — exactly when the integer
is outside the declared set … -/
theorem c04_prim_reject (p : Prim) (path : Path) (bs rest : List Byte) (pos : Nat) (out : List (Nat × Event))
    (scs : List SC) (hlen : bs.length = p.size) (hroom : Room scs p.size) (hbad : p.isValid (p.ofBytes bs) = false) :
    readPrim true p path ⟨bs ++ rest, pos, out, scs⟩ =
      .error (.value path p.name (p.ofBytes bs), ⟨rest, pos + p.size, out, bump scs p.size⟩) := by
  unfold readPrim
  rw [bytesParsed_ok _ _ _ _ _ _ hroom]
  have := take_ok bs rest pos out (bump scs p.size)
  rw [hlen] at this
  simp [this, hbad]

/-- … and otherwise emits exactly one event carrying that integer -/
theorem c04_prim_accept (p : Prim) (path : Path) (bs rest : List Byte) (pos : Nat) (out : List (Nat × Event))
    (scs : List SC) (hlen : bs.length = p.size) (hroom : Room scs p.size) (hok : p.isValid (p.ofBytes bs) = true) :
    readPrim true p path ⟨bs ++ rest, pos, out, scs⟩ =
      .ok (.int p.name (p.ofBytes bs),
        ⟨rest, pos + p.size, out ++ [(pos + p.size, .marshal ⟨path, .named p.name false, some (p.ofBytes bs), p.name, p.size⟩)],
          bump scs p.size⟩) := by
  unfold readPrim
  rw [bytesParsed_ok _ _ _ _ _ _ hroom]
  have := take_ok bs rest pos out (bump scs p.size)
  rw [hlen] at this
  simp [this, hok, emitM, emit]

/-! ### first offender: every field a strict decode shows is valid for its declared type -/

/-- the primitive type of that class name in the regenerated table -/
def tablePrim (n : String) : Option Prim := Generated.allPrims.find? (·.name == n)

/-- what a shown field event says: its class is a primitive type of the table, the event's declared type and width are that
type's, and the value is in that type's declared set -/
def FieldOk (m : MEvent) : Prop :=
  ∃ p, tablePrim m.vclass = some p ∧ m.ty = .named p.name false ∧ m.width = p.size ∧ ∀ y, m.val = some y → p.isValid y = true

/-- (decidable side condition) the table's entry for this primitive's name is this primitive -/
def knownPrim (p : Prim) : Bool := decide (tablePrim p.name = some p)

theorem strict_link : PrimLink true knownPrim FieldOk := fun p hp σ x hv =>
  ⟨p, by simpa [knownPrim] using hp, rfl, rfl, fun y hy => by
    simp only [Option.some.injEq] at hy
    subst hy
    exact hv rfl⟩

/-- (tables) every primitive type used by any layout of `/repo` or by the message framing is the table's entry for its name
(and the structural side conditions of the path discipline hold) -/
theorem c04_tables :
    Generated.msgTables.shapeOk knownPrim = true ∧ Generated.allTypes.all (Ty.shapeOk knownPrim) = true := by
  constructor <;> decide +kernel

/-- **first offender** (every layout of /repo, commands, responses, streams, EVERY input): every field event a strict decode
emits with a value carries a value that is valid for the primitive type the tables declare under the event's class name — the
walker validates before it emits and stops at the first failure.  So when strict decoding raises
`ValueConstraintViolatedError`, no field shown before it is an offender (and by C02 the fields shown tile the input up to the
offending one): the error is about the first out-of-range field in wire order, and no event is emitted for it
(`c04_prim_reject`, `c04_prim_error_is_invalid`). -/
theorem c04_shown_fields_valid (top : Top) (htop : ∀ t, top = .ty t → t ∈ Generated.allTypes) (x : List Byte) :
    ∀ ke ∈ (stOf (runWalker true Generated.msgTables top x)).out, ∀ m, ke.2 = .marshal m → m.val.isSome = true → FieldOk m := by
  obtain ⟨new, ho, hgd⟩ := runWalker_gd true strict_link Generated.msgTables c04_tables.1 top
    (fun t ht => List.all_eq_true.mp c04_tables.2 t (htop t ht)) x
  simp only [initSt, List.nil_append] at ho
  intro ke hke m hm hv
  rw [ho] at hke
  have : Event.marshal m ∈ new.map (·.2) := by
    rw [← hm]; exact List.mem_map_of_mem hke
  exact (hgd.1 m this).2 hv


/-- the value error raised for a primitive field names that field's path, its declared type and the decoded integer,
and that integer is outside the declared set -/
theorem c04_prim_error_is_invalid (p : Prim) (path : Path) (s t : St) (pa : Path) (c : String) (x : Int)
    (h : readPrim true p path s = .error (.value pa c x, t)) : pa = path ∧ c = p.name ∧ p.isValid x = false := by
  unfold readPrim at h
  cases hb : bytesParsed path p.size s with
  | error et =>
    obtain ⟨e, t'⟩ := et
    rw [hb] at h
    simp only [R.bind_error, Except.error.injEq, Prod.mk.injEq] at h
    exfalso
    have := bytesParsed_wi_val path p.size s e t' hb
    exact this pa c x h.1
  | ok ut =>
    obtain ⟨_, s1⟩ := ut
    rw [hb] at h
    simp only [R.bind_ok] at h
    cases ht : take p.size s1 with
    | error et =>
      obtain ⟨e, t'⟩ := et
      rw [ht] at h
      unfold take at ht
      split at ht
      · simp only [Except.error.injEq, Prod.mk.injEq] at ht
        simp only [R.bind_error, Except.error.injEq, Prod.mk.injEq] at h
        rw [← ht.1] at h; simp at h
      · simp at ht
    | ok bt =>
      obtain ⟨bs, s2⟩ := bt
      rw [ht] at h
      simp only [R.bind_ok, if_true] at h
      split at h
      · simp at h
      · rename_i hv
        simp only [Except.error.injEq, Prod.mk.injEq, Err.value.injEq] at h
        obtain ⟨⟨rfl, rfl, rfl⟩, _⟩ := h
        exact ⟨rfl, rfl, by simpa using hv⟩
where
  bytesParsed_wi_val (path : Path) (size : Nat) (s : St) (e : Err) (t : St) (h : bytesParsed path size s = .error (e, t)) :
      ∀ pa c x, e ≠ .value pa c x := by
    intro pa c x he
    subst he
    have := C07.c07_prim.bpGo_no_value path size s.scs [] s _ t h
    exact this pa c x rfl

end C04
