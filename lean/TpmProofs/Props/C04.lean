import TpmProofs.DecodeOk
import TpmProofs.Props.C16
import TpmProofs.Valid
import TpmProofs.Props.C07
/-!
# C04 — strict mode rejects exactly the inputs containing an out-of-range value
-/
namespace C04

/-- a primitive field inside regions with room: strict decoding raises `ValueConstraintViolatedError`
naming the field's path, declared type and the integer — with no event for it — exactly when the integer
is outside the declared set … -/
theorem c04_prim_reject (p : Prim) (path : Path) (bs rest : List Byte) (pos : Nat) (out : List (Nat × Event))
    (scs : List SC) (hlen : bs.length = p.size) (hroom : Room scs p.size) (hbad : p.isValid (p.ofBytes bs) = false) :
    readPrim true p path ⟨bs ++ rest, pos, out, scs⟩ =
      .error (.value path p.name (p.ofBytes bs), ⟨rest, pos + p.size, out, bump scs p.size⟩) := by
  unfold readPrim
  rw [bytesParsed_ok _ _ _ _ _ _ hroom]
  have := take_ok bs rest pos out (bump scs p.size)
  rw [hlen] at this
  simp [this, hbad]

/-- … and otherwise emits exactly one event carrying that integer -/
theorem c04_prim_accept (p : Prim) (path : Path) (bs rest : List Byte) (pos : Nat) (out : List (Nat × Event))
    (scs : List SC) (hlen : bs.length = p.size) (hroom : Room scs p.size) (hok : p.isValid (p.ofBytes bs) = true) :
    readPrim true p path ⟨bs ++ rest, pos, out, scs⟩ =
      .ok (.int p.name (p.ofBytes bs),
        ⟨rest, pos + p.size, out ++ [(pos + p.size, .marshal ⟨path, .named p.name false, some (p.ofBytes bs), p.name, p.size⟩)],
          bump scs p.size⟩) := by
  unfold readPrim
  rw [bytesParsed_ok _ _ _ _ _ _ hroom]
  have := take_ok bs rest pos out (bump scs p.size)
  rw [hlen] at this
  simp [this, hok, emitM, emit]

/-- **first offender** (every layout, every top, EVERY input): every field a strict decode shows carries a value valid for its
declared type — the walker validates before it emits and stops at the first failure.  So when strict decoding raises
`ValueConstraintViolatedError`, no field shown before it is an offender (and by C02 the fields shown tile the input up to
the offending one): the error is about the first out-of-range field in wire order, and no event is emitted for it
(`c04_prim_reject`). -/
theorem c04_shown_fields_valid (tb : MsgTables) (top : Top) (x : List Byte) :
    ∀ ke ∈ (stOf (runWalker true tb top x)).out, ValidEv ke.2 := runWalker_ve tb top x

/-- the value error raised for a primitive field names that field's path, its declared type and the decoded integer,
and that integer is outside the declared set -/
theorem c04_prim_error_is_invalid (p : Prim) (path : Path) (s t : St) (pa : Path) (c : String) (x : Int)
    (h : readPrim true p path s = .error (.value pa c x, t)) : pa = path ∧ c = p.name ∧ p.isValid x = false := by
  unfold readPrim at h
  cases hb : bytesParsed path p.size s with
  | error et =>
    obtain ⟨e, t'⟩ := et
    rw [hb] at h
    simp only [R.bind_error, Except.error.injEq, Prod.mk.injEq] at h
    exfalso
    have := bytesParsed_wi_val path p.size s e t' hb
    exact this pa c x h.1
  | ok ut =>
    obtain ⟨_, s1⟩ := ut
    rw [hb] at h
    simp only [R.bind_ok] at h
    cases ht : take p.size s1 with
    | error et =>
      obtain ⟨e, t'⟩ := et
      rw [ht] at h
      unfold take at ht
      split at ht
      · simp only [Except.error.injEq, Prod.mk.injEq] at ht
        simp only [R.bind_error, Except.error.injEq, Prod.mk.injEq] at h
        rw [← ht.1] at h; simp at h
      · simp at ht
    | ok bt =>
      obtain ⟨bs, s2⟩ := bt
      rw [ht] at h
      simp only [R.bind_ok, if_true] at h
      split at h
      · simp at h
      · rename_i hv
        simp only [Except.error.injEq, Prod.mk.injEq, Err.value.injEq] at h
        obtain ⟨⟨rfl, rfl, rfl⟩, _⟩ := h
        exact ⟨rfl, rfl, by simpa using hv⟩
where
  bytesParsed_wi_val (path : Path) (size : Nat) (s : St) (e : Err) (t : St) (h : bytesParsed path size s = .error (e, t)) :
      ∀ pa c x, e ≠ .value pa c x := by
    intro pa c x he
    subst he
    have := C07.c07_prim.bpGo_no_value path size s.scs [] s _ t h
    exact this pa c x rfl

end C04
