import TpmProofs.DecodeSound
import TpmModel.Pump
/-!
# Position and remaining input move together

`PI s r`: in every step of every walker, in either mode, whatever the outcome, `pos + |inp|` stays what it was — the
position counts exactly the input bytes taken.  (Only `take` touches either, and it moves both.)  Used to turn "the position
advanced" into "the input got shorter" (termination of the stream loop in warn mode).
-/

def PI {α : Type} (s : St) (r : R α) : Prop := (stOf r).pos + (stOf r).inp.length = s.pos + s.inp.length

theorem PI.ok {α : Type} (s : St) (a : α) : PI s (.ok (a, s) : R α) := rfl
theorem PI.err {α : Type} (s : St) (e : Err) : PI s (.error (e, s) : R α) := rfl
theorem PI.crash {α : Type} (s : St) (c m : String) : PI s (crash c m s : R α) := rfl

theorem PI.bind {α β : Type} {s : St} {r : R α} {f : α → St → R β} (h : PI s r)
    (hf : ∀ a t, r = .ok (a, t) → PI t (f a t)) : PI s (r.bind f) := by
  cases r with
  | error e => obtain ⟨e, t⟩ := e; exact h
  | ok at' =>
    obtain ⟨a, t⟩ := at'
    have := hf a t rfl
    simp only [PI, stOf, R.bind_ok] at h this ⊢
    omega

/-- the state may be changed in `out` and `scs` at will -/
theorem PI.of_eq {α : Type} {s s' : St} {r : R α} (h : PI s' r) (hp : s'.pos = s.pos) (hi : s'.inp = s.inp) : PI s r := by
  simp only [PI] at h ⊢; rw [h, hp, hi]

theorem take_pi (n : Nat) (s : St) : PI s (take n s) := by
  unfold take
  split
  · simp [PI, stOf]
  · rename_i h
    simp only [PI, stOf, List.length_drop]
    omega

theorem consume_pi (n : Nat) (s : St) : PI s (consume n s) := by
  unfold consume; exact (take_pi n s).bind fun _ t _ => PI.ok _ _

theorem bpGo_pi (path : Path) (size : Nat) : ∀ (todo done : List SC) (s : St), PI s (bpGo path size done todo s) := by
  intro todo
  induction todo with
  | nil => intro done s; simp [bpGo, PI, stOf]
  | cons c rest ih =>
    intro done s
    unfold bpGo
    split
    · exact PI.of_eq ((consume_pi _ _).bind fun _ t _ => PI.err _ _) rfl rfl
    · exact ih _ _

theorem bytesParsed_pi (path : Path) (size : Nat) (s : St) : PI s (bytesParsed path size s) := bpGo_pi path size s.scs [] s

theorem readPrim_pi (abort : Bool) (p : Prim) (path : Path) (s : St) : PI s (readPrim abort p path s) := by
  unfold readPrim
  refine (bytesParsed_pi path p.size s).bind fun _ t _ => (take_pi p.size t).bind fun bs t2 _ => ?_
  simp only []
  split
  · exact PI.of_eq (PI.ok _ _) rfl rfl
  · split
    · exact PI.err _ _
    · exact PI.of_eq (PI.ok _ _) rfl rfl

theorem anticipateM_pi (abort : Bool) (vpath : Path) (v id : Nat) (s : St) : PI s (anticipateM abort vpath v id s) := by
  unfold anticipateM
  split
  · exact PI.ok _ _
  · split
    · exact PI.err _ _
    · exact PI.of_eq (PI.ok _ _) rfl rfl

theorem openRegion_pi (abort : Bool) (id : Nat) (cpath : Path) (n : Nat) (s : St) : PI s (openRegion abort id cpath n s) := by
  unfold openRegion
  exact (anticipateM_pi abort cpath n id s).bind fun _ t _ => PI.of_eq (PI.ok _ _) rfl rfl

theorem setListed_pi (abort : Bool) (id : Nat) (cpath : Path) (n : Nat) (s : St) : PI s (setListed abort id cpath n s) := by
  unfold setListed
  exact PI.of_eq (anticipateM_pi abort cpath n id _) rfl rfl

theorem assertDoneSC_pi (abort : Bool) (c : SC) (s : St) : PI s (assertDoneSC abort c s) := by
  unfold assertDoneSC
  split
  · exact PI.crash _ _ _
  · split
    · exact PI.ok _ _
    · simp only []
      split
      · exact PI.err _ _
      · split
        · exact PI.of_eq ((bytesParsed_pi _ _ _).bind fun _ t _ => consume_pi _ t) rfl rfl
        · exact PI.of_eq (PI.ok _ _) rfl rfl

theorem assertDone_pi (abort : Bool) (id : Nat) (s : St) : PI s (assertDone abort id s) := by
  unfold assertDone
  split
  · exact PI.crash _ _ _
  · exact PI.of_eq (assertDoneSC_pi abort _ _) rfl rfl

theorem repeatDec_pi (f : Path → St → R Val) (hf : ∀ p s, PI s (f p s)) (path : Path) :
    ∀ (n i : Nat) (s : St), PI s (repeatDec f path n i s) := by
  intro n
  induction n with
  | zero => intro i s; exact PI.ok _ _
  | succ m ih =>
    intro i s
    unfold repeatDec
    exact (hf _ s).bind fun v t _ => (ih (i+1) t).bind fun vs t2 _ => PI.ok _ _

theorem readPrimList_pi (abort : Bool) (p : Prim) (path : Path) (n : Nat) (s : St) : PI s (readPrimList abort p path n s) := by
  unfold readPrimList
  exact PI.of_eq ((repeatDec_pi _ (fun q s => readPrim_pi abort p q s) path n 0 _).bind fun vs t _ => PI.ok _ _) rfl rfl

theorem readListArm_pi (abort : Bool) (elem : Prim) (n : Option Nat) (path : Path) (s : St) :
    PI s (readListArm abort elem n path s) := by
  unfold readListArm
  cases n with
  | none => exact PI.crash _ _ _
  | some k => exact readPrimList_pi abort elem path k s

theorem ownCatch_pi {abort : Bool} {id : Nat} {s : St} {r : R Val} {k : Val → St → R Val} (hr : PI s r)
    (hk : ∀ v t, r = .ok (v, t) → PI t (k v t)) : PI s (ownCatch abort id r k) := by
  cases r with
  | ok vs =>
    obtain ⟨v, t⟩ := vs
    have := hk v t rfl
    simp only [PI, stOf, ownCatch] at hr this ⊢
    omega
  | error es =>
    obtain ⟨e, t⟩ := es
    cases e with
    | exceeded cid cp m a v b =>
      simp only [ownCatch]
      split
      · exact hr
      · exact hr
    | _ => exact hr

theorem fieldWith_pi (d : Path → Option Int → St → R Val) (hd : ∀ p sel s, PI s (d p sel s))
    (tname : String) (kind : FKind) (fpath : Path) (vals : List (String × Val)) (s : St) :
    PI s (decodeFieldWith d tname kind fpath vals s) := by
  cases kind with
  | plain => exact hd _ _ _
  | selected sel =>
    simp only [decodeFieldWith]
    split
    · exact PI.crash _ _ _
    · exact hd _ _ _
  | counted =>
    simp only [decodeFieldWith]
    split
    · exact PI.crash _ _ _
    · exact PI.of_eq ((repeatDec_pi _ (fun p s => hd p none s) fpath _ 0 _).bind fun vs t _ => PI.ok _ _) rfl rfl

mutual
theorem decode_pi (abort : Bool) : (t : Ty) → ∀ (path : Path) (sel : Option Int) (s : St), PI s (decode abort t path sel s)
  | .prim p, path, sel, s => by simp only [decode]; exact readPrim_pi abort p path s
  | .struct name isP fs, path, sel, s => by
    simp only [decode]
    exact PI.of_eq ((fields_pi abort fs path [] _).bind fun vals t _ => PI.ok _ _) rfl rfl
  | .tpm2bBytes name szName szP bufName elem, path, sel, s => by
    simp only [decode]
    refine PI.of_eq ((readPrim_pi abort szP _ _).bind fun nv s1 _ => ?_) rfl rfl
    split
    · exact PI.crash _ _ _
    · exact (openRegion_pi abort _ _ _ _).bind fun _ s2 _ => (readPrimList_pi abort elem _ _ s2).bind fun bv s3 _ =>
        (assertDone_pi abort _ s3).bind fun _ s4 _ => PI.ok _ _
  | .tpm2b name szName szP bufName body, path, sel, s => by
    simp only [decode]
    refine PI.of_eq ((readPrim_pi abort szP _ _).bind fun nv s1 _ => ?_) rfl rfl
    split
    · exact PI.crash _ _ _
    · refine (openRegion_pi abort _ _ _ _).bind fun _ s2 _ => ?_
      split
      · exact PI.of_eq ((assertDone_pi abort _ _).bind fun _ s4 _ => PI.ok _ _) rfl rfl
      · exact ownCatch_pi (decode_pi abort body _ none s2) fun bv s3 _ => (assertDone_pi abort _ s3).bind fun _ s4 _ => PI.ok _ _
  | .union name arms, path, sel, s => by
    simp only [decode]
    split
    · split <;> exact PI.of_eq (PI.err _ _) rfl rfl
    · exact PI.of_eq (arm_pi abort arms name _ path _) rfl rfl
  | .bad r, path, sel, s => by simp only [decode]; exact PI.crash _ _ _

theorem arm_pi (abort : Bool) : (arms : Arms) → ∀ (un want : String) (path : Path) (s : St), PI s (decodeArm abort arms un want path s)
  | .nil, un, want, path, s => by simp only [decodeArm]; exact PI.crash _ _ _
  | .consNone an key rest, un, want, path, s => by
    simp only [decodeArm]
    split
    · exact PI.ok _ _
    · exact arm_pi abort rest un want path s
  | .cons an key t rest, un, want, path, s => by
    simp only [decodeArm]
    split
    · exact (decode_pi abort t _ none s).bind fun v t' _ => PI.ok _ _
    · exact arm_pi abort rest un want path s
  | .consBytes an key elem n rest, un, want, path, s => by
    simp only [decodeArm]
    split
    · exact (readListArm_pi abort elem n _ s).bind fun v t' _ => PI.ok _ _
    · exact arm_pi abort rest un want path s

theorem fields_pi (abort : Bool) : (fs : Fields) → ∀ (path : Path) (vals : List (String × Val)) (s : St),
    PI s (decodeFields abort fs path vals s)
  | .nil, path, vals, s => by simp only [decodeFields]; exact PI.ok _ _
  | .cons fname kind t rest, path, vals, s => by
    simp only [decodeFields]
    exact (fieldWith_pi _ (fun p sel s => decode_pi abort t p sel s) t.name kind _ vals s).bind fun v t' _ =>
      fields_pi abort rest path _ t'
end

/-! ## messages -/

theorem decodeArea_pi (abort : Bool) (tb : MsgTables) (enc : Bool) (t : Ty) (path : Path) (s : St) :
    PI s (decodeArea abort tb enc t path s) := by
  unfold decodeArea
  split
  · split
    · exact decode_pi abort t path none s
    · exact PI.of_eq ((fields_pi abort _ path [] _).bind fun vals t' _ => PI.ok _ _) rfl rfl
  · exact decode_pi abort t path none s

theorem sizedLoop_pi (abort : Bool) (t : Ty) (path : Path) (cid : Nat) : ∀ (fuel i : Nat) (acc : List Val) (s : St),
    PI s (sizedLoop abort t path cid fuel i acc s) := by
  intro fuel
  induction fuel with
  | zero => intro i acc s; exact PI.crash _ _ _
  | succ n ih =>
    intro i acc s
    unfold sizedLoop
    split
    · exact PI.crash _ _ _
    · split
      · exact PI.crash _ _ _
      · split
        · exact ownCatch_pi (decode_pi abort t _ none s) fun v s1 _ => ih _ _ s1
        · exact PI.of_eq ((assertDoneSC_pi abort _ _).bind fun _ t' _ => PI.ok _ _) rfl rfl

theorem decodeSized_pi (abort : Bool) (t : Ty) (path : Path) (cid : Nat) (s : St) : PI s (decodeSized abort t path cid s) := by
  unfold decodeSized
  exact PI.of_eq (sizedLoop_pi abort t path cid _ 0 [] _) rfl rfl

theorem msgCatch_pi {abort : Bool} {id1 id2 : Nat} {name : String} {vals : List (String × Val)} {s : St} {r : R Val}
    {k : Val → St → R Val} (hr : PI s r) (hk : ∀ v t, r = .ok (v, t) → PI t (k v t)) :
    PI s (msgCatch abort id1 id2 name vals r k) := by
  cases r with
  | ok vs =>
    obtain ⟨v, t⟩ := vs
    have := hk v t rfl
    simp only [PI, stOf, msgCatch] at hr this ⊢
    omega
  | error es =>
    obtain ⟨e, t⟩ := es
    cases e with
    | exceeded cid cp m a v b =>
      simp only [msgCatch]
      split
      · exact hr
      · exact hr
    | _ => exact hr

macro "pi_step" : tactic => `(tactic| first
  | (with_reducible refine msgCatch_pi ?_ (fun _ _ _ => ?_))
  | (with_reducible refine PI.bind ?_ (fun _ _ _ => ?_))
  | split
  | exact PI.ok _ _ | exact PI.crash _ _ _ | exact PI.err _ _
  | exact readPrim_pi _ _ _ _ | exact decodeArea_pi _ _ _ _ _ _ | exact decodeSized_pi _ _ _ _ _
  | exact assertDone_pi _ _ _ | exact openRegion_pi _ _ _ _ _ | exact setListed_pi _ _ _ _ _)

theorem decodeCommand_pi (abort : Bool) (tb : MsgTables) (path : Path) (s0 : St) : PI s0 (decodeCommand abort tb path s0) := by
  unfold decodeCommand
  simp only []
  refine PI.of_eq (s' := emitM ⟨path, .named "Command" false, none, "", 0⟩ { s0 with scs := [⟨s0.pos, [], 0, none⟩] }) ?_ rfl rfl
  repeat' pi_step

set_option maxHeartbeats 1000000 in
theorem decodeResponse_pi (abort : Bool) (tb : MsgTables) (cc : Option Int) (enc : Bool) (path : Path) (s0 : St) :
    PI s0 (decodeResponse abort tb cc enc path s0) := by
  unfold decodeResponse
  simp only []
  refine PI.of_eq (s' := emitM ⟨path, .named "Response" false, none, "", 0⟩ { s0 with scs := [⟨s0.pos, [], 0, none⟩] }) ?_ rfl rfl
  repeat' pi_step

theorem PI.shorter {α : Type} {s t : St} {a : α} (h : PI s (.ok (a, t) : R α)) (hp : s.pos < t.pos) :
    t.inp.length < s.inp.length := by
  simp only [PI, stOf] at h; omega
