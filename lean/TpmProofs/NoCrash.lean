import TpmProofs.DecodeSound
/-!
# The strict walker never fails with an internal error (C06)

`NC r`: the result `r` is not a `crash` (the model's rendering of AssertionError / TypeError / KeyError / IndexError /
RuntimeError / NameError escaping from the package).  For every layout that meets the static side conditions
`Ty.total` (kernel-decided for all layouts of /repo): counts are read from an integer field, selectors name an earlier
integer field, unions decoded without selector have a fallback member, list members have a declared size, size fields
are unsigned — the strict walker, on ANY input, in any context with fresh region ids, either succeeds or stops with
one of the documented errors.
-/

def NC {α : Type} (r : R α) : Prop := ∀ c m s, r ≠ .error (.crash c m, s)

theorem NC.ok {α : Type} (a : α) (s : St) : NC (.ok (a, s) : R α) := by intro c m t h; cases h

theorem NC.bind {α β : Type} {r : R α} {f : α → St → R β} (h : NC r) (hf : ∀ a t, r = .ok (a, t) → NC (f a t)) :
    NC (r.bind f) := by
  cases r with
  | error e =>
    obtain ⟨e, s⟩ := e
    intro c m t hh
    simp only [R.bind_error, Except.error.injEq, Prod.mk.injEq] at hh
    exact h c m t (by rw [hh.1, hh.2])
  | ok at' => obtain ⟨a, t⟩ := at'; exact hf a t rfl

theorem take_nc (n : Nat) (s : St) : NC (take n s) := by
  unfold take; split
  · intro c m t h; simp at h
  · exact NC.ok _ _

theorem consume_nc (n : Nat) (s : St) : NC (consume n s) := by
  unfold consume; exact (take_nc n s).bind fun _ t _ => NC.ok _ _

theorem bpGo_nc (path : Path) (size : Nat) : ∀ (todo done : List SC) (s : St), NC (bpGo path size done todo s) := by
  intro todo
  induction todo with
  | nil => intro done s; exact NC.ok _ _
  | cons c rest ih =>
    intro done s
    unfold bpGo
    split
    · exact (consume_nc _ _).bind fun _ t _ => by intro c m t' h; simp at h
    · exact ih _ _

theorem readPrim_nc (p : Prim) (path : Path) (s : St) : NC (readPrim true p path s) := by
  unfold readPrim
  refine (bpGo_nc path p.size s.scs [] s).bind fun _ t _ => ?_
  refine (take_nc p.size t).bind fun bs t2 _ => ?_
  simp only []
  split
  · exact NC.ok _ _
  · simp only [if_true]; intro c m t' h; simp at h

theorem anticipateM_nc (vpath : Path) (v id : Nat) (s : St) : NC (anticipateM true vpath v id s) := by
  unfold anticipateM
  split
  · exact NC.ok _ _
  · rename_i e he
    simp only [if_true]
    intro c m t h
    simp only [Except.error.injEq, Prod.mk.injEq] at h
    -- `anticipate` only ever produces `anticipated`
    have : ∀ (scs : List SC) e, anticipate vpath v id scs = some e → ∀ c m, e ≠ .crash c m := by
      intro scs
      induction scs with
      | nil => intro e h; simp [anticipate] at h
      | cons d rest ih =>
        intro e h c m
        unfold anticipate at h
        split at h
        · exact ih e h c m
        · split at h
          · simp only [Option.some.injEq] at h; subst h; intro hh; cases hh
          · exact ih e h c m
    exact this _ _ he c m h.1

theorem openRegion_nc (id : Nat) (cpath : Path) (n : Nat) (s : St) : NC (openRegion true id cpath n s) := by
  unfold openRegion
  exact (anticipateM_nc cpath n id s).bind fun _ t _ => NC.ok _ _

theorem setListed_nc (id : Nat) (cpath : Path) (n : Nat) (s : St) : NC (setListed true id cpath n s) := by
  unfold setListed
  exact anticipateM_nc cpath n id _

theorem assertDoneSC_nc (c : SC) (s : St) (m : Nat) (hm : c.max = some m) : NC (assertDoneSC true c s) := by
  unfold assertDoneSC
  simp only [hm]
  split
  · exact NC.ok _ _
  · simp only [if_true]; intro c' m' t h; simp at h

theorem assertDone_last_nc {id : Nat} {pre : List SC} {c : SC} {s : St} {m : Nat} (hs : s.scs = pre ++ [c]) (hid : c.id = id)
    (hpre : ∀ d ∈ pre, d.id ≠ id) (hm : c.max = some m) : NC (assertDone true id s) := by
  unfold assertDone
  rw [hs, findSC_append_new id c pre hid hpre]
  exact assertDoneSC_nc c _ m hm

theorem repeat_nc (f : Path → St → R Val) (g : Path → Val → Option (List Byte × List SEv))
    (hnc : ∀ p s, Fresh s.scs s.pos → NC (f p s))
    (hfg : ∀ p s v s', Fresh s.scs s.pos → f p s = .ok (v, s') → Snd (g p v) s s') (path : Path) :
    ∀ (n i : Nat) (s : St), Fresh s.scs s.pos → NC (repeatDec f path n i s) := by
  intro n
  induction n with
  | zero => intro i s _; exact NC.ok _ _
  | succ m ih =>
    intro i s hfresh
    unfold repeatDec
    refine (hnc _ s hfresh).bind fun v t ht => ?_
    obtain ⟨b, e, _, _, p1, _, c1⟩ := hfg _ _ _ _ hfresh ht
    have hfresh1 : Fresh t.scs t.pos := by rw [c1, p1]; exact fresh_bump hfresh
    exact (ih (i+1) t hfresh1).bind fun vs t2 _ => NC.ok _ _

theorem readPrimList_nc {p : Prim} (hwf : p.wf = true) (path : Path) (n : Nat) (s : St) (hfresh : Fresh s.scs s.pos) :
    NC (readPrimList true p path n s) := by
  unfold readPrimList
  exact (repeat_nc (readPrim true p) (specPrim p) (fun q s _ => readPrim_nc p q s)
    (fun q s v s' _ h => readPrim_sound hwf h) path n 0 _ (by simpa [emitM, emit] using hfresh)).bind fun vs t _ => NC.ok _ _

/-! ## static side conditions -/

def Ty.isPrim : Ty → Bool
  | .prim _ => true
  | _ => false

/-- may be decoded without a selector value: a union needs a fallback member for that -/
def Ty.okNoSel : Ty → Bool
  | .union _ arms => (selectArm arms.keys none).isSome
  | _ => true

mutual
def Ty.total : Ty → Bool
  | .prim _ => true
  | .struct _ _ fs => fs.total none []
  | .tpm2bBytes _ _ szP _ _ => !szP.signed
  | .tpm2b _ _ szP _ body => !szP.signed && body.total && body.okNoSel
  | .union _ arms => arms.total
  | .bad _ => false
termination_by structural t => t
/-- `lastNC`: is the last field that is not a list an integer field; `seen`: earlier fields (name, is a plain integer) -/
def Fields.total (lastNC : Option Bool) (seen : List (String × Bool)) : Fields → Bool
  | .nil => true
  | .cons f kind t rest =>
    t.total &&
    (match kind with
     | .plain => t.okNoSel
     | .selected sel => (seen.find? (·.1 == sel)).map (·.2) == some true
     | .counted => t.okNoSel && lastNC == some true) &&
    (match kind with
     | .counted => rest.total lastNC (seen ++ [(f, false)])
     | .plain => rest.total (some t.isPrim) (seen ++ [(f, t.isPrim)])
     | .selected _ => rest.total (some false) (seen ++ [(f, false)]))
termination_by structural fs => fs
def Arms.total : Arms → Bool
  | .nil => true
  | .consNone _ _ rest => rest.total
  | .cons _ _ t rest => t.total && t.okNoSel && rest.total
  | .consBytes _ _ _ n rest => n.isSome && rest.total
termination_by structural arms => arms
end

/-! ## what the values decoded so far look like -/

inductive VRel : List (String × Val) → List (String × Bool) → Prop
  | nil : VRel [] []
  | cons {v : String × Val} {s : String × Bool} {vals : List (String × Val)} {seen : List (String × Bool)} :
      v.1 = s.1 → (s.2 = true → ∃ cls x, v.2 = .int cls x) → VRel vals seen → VRel (v :: vals) (s :: seen)

def VOK (vals : List (String × Val)) (lastNC : Option Bool) (seen : List (String × Bool)) : Prop :=
  (lastNC = some true → ∃ cls x, lastNonList vals = some (.int cls x)) ∧ VRel vals seen

theorem VOK.nil : VOK [] none [] := ⟨(by intro h; cases h), VRel.nil⟩

theorem vrel_snoc {vals : List (String × Val)} {seen : List (String × Bool)} {v : String × Val} {s : String × Bool}
    (h : VRel vals seen) (h1 : v.1 = s.1) (h2 : s.2 = true → ∃ cls x, v.2 = .int cls x) :
    VRel (vals ++ [v]) (seen ++ [s]) := by
  induction h with
  | nil => exact VRel.cons h1 h2 VRel.nil
  | cons a b _ ih => exact VRel.cons a b ih

theorem lastNonList_snoc_list (vals : List (String × Val)) (f : String) (vs : List Val) :
    lastNonList (vals ++ [(f, .list vs)]) = lastNonList vals := by
  simp [lastNonList, List.reverse_append, List.find?, Val.isList]

theorem lastNonList_snoc_int (vals : List (String × Val)) (f : String) (c : String) (x : Int) :
    lastNonList (vals ++ [(f, .int c x)]) = some (.int c x) := by
  simp [lastNonList, List.reverse_append, List.find?, Val.isList]

theorem VOK.snoc_list {vals : List (String × Val)} {l : Option Bool} {seen : List (String × Bool)} (h : VOK vals l seen)
    (f : String) (vs : List Val) : VOK (vals ++ [(f, .list vs)]) l (seen ++ [(f, false)]) :=
  ⟨by rw [lastNonList_snoc_list]; exact h.1, vrel_snoc h.2 rfl (by intro hh; cases hh)⟩

theorem VOK.snoc_int {vals : List (String × Val)} {l : Option Bool} {seen : List (String × Bool)} (h : VOK vals l seen)
    (f : String) (c : String) (x : Int) : VOK (vals ++ [(f, .int c x)]) (some true) (seen ++ [(f, true)]) :=
  ⟨fun _ => ⟨c, x, lastNonList_snoc_int _ _ _ _⟩, vrel_snoc h.2 rfl (fun _ => ⟨c, x, rfl⟩)⟩

theorem VOK.snoc_other {vals : List (String × Val)} {l : Option Bool} {seen : List (String × Bool)} (h : VOK vals l seen)
    (f : String) (v : Val) : VOK (vals ++ [(f, v)]) (some false) (seen ++ [(f, false)]) :=
  ⟨(by intro hh; cases hh), vrel_snoc h.2 rfl (by intro hh; cases hh)⟩

theorem VOK.count {vals : List (String × Val)} {seen : List (String × Bool)} (h : VOK vals (some true) seen) :
    ∃ c, countOf vals = .count c := by
  obtain ⟨cls, x, hl⟩ := h.1 rfl
  exact ⟨x.toNat, by simp [countOf, hl]⟩

theorem VOK.sel {vals : List (String × Val)} {l : Option Bool} {seen : List (String × Bool)} (h : VOK vals l seen)
    {sel : String} (hs : (seen.find? (·.1 == sel)).map (·.2) = some true) : ∃ x, selOf vals sel = .sel (some x) := by
  have : ∃ cls x, lookupVal vals sel = some (.int cls x) := by
    have h2 := h.2
    clear h
    induction h2 with
    | nil => simp at hs
    | @cons v s vals' seen' hv1 hv2 _ ih =>
      simp only [List.find?_cons] at hs
      by_cases hn : (s.1 == sel) = true
      · simp only [hn, Option.map_some, Option.some.injEq] at hs
        obtain ⟨cls, x, hx⟩ := hv2 hs
        refine ⟨cls, x, ?_⟩
        have : (v.1 == sel) = true := by rw [hv1]; exact hn
        simp [lookupVal, List.find?_cons, this, hx]
      · have hn' : (s.1 == sel) = false := by simpa using hn
        simp only [hn'] at hs
        obtain ⟨cls, x, hx⟩ := ih hs
        refine ⟨cls, x, ?_⟩
        have : (v.1 == sel) = false := by rw [hv1]; exact hn'
        simpa [lookupVal, List.find?_cons, this] using hx
  obtain ⟨cls, x, hx⟩ := this
  exact ⟨x, by simp [selOf, hx]⟩

/-! ## the walker -/

theorem intOfBytes_nonneg (size : Nat) (bs : List Byte) : 0 ≤ intOfBytes size false bs := by
  simp [intOfBytes]

theorem readPrim_unsigned {p : Prim} (hu : p.signed = false) {path : Path} {s s' : St} {v : Val}
    (h : readPrim true p path s = .ok (v, s')) : ∃ x, v = .int p.name x ∧ 0 ≤ x := by
  unfold readPrim at h
  obtain ⟨_, s1, _, h⟩ := bind_ok_inv h
  obtain ⟨bs, s2, _, h⟩ := bind_ok_inv h
  simp only [] at h
  split at h
  · simp only [Except.ok.injEq, Prod.mk.injEq] at h
    exact ⟨_, h.1.symm, by simp only [Prim.ofBytes, hu]; exact intOfBytes_nonneg _ _⟩
  · simp at h

theorem selectArm_mem {keys : List (String × Key)} {sel : Option Int} {an : String} (h : selectArm keys sel = some an) :
    an ∈ keys.map (·.1) := by
  unfold selectArm at h
  simp only [] at h
  split at h
  · rename_i a ha
    simp only [Option.some.injEq] at h
    subst h
    cases sel with
    | none => simp at ha
    | some sv =>
      simp only [] at ha
      have := List.mem_of_find?_eq_some ha
      exact List.mem_map.mpr ⟨a, by simpa using this, rfl⟩
  · simp only [Option.map_eq_some_iff] at h
    obtain ⟨a, ha, rfl⟩ := h
    have := List.mem_of_find?_eq_some ha
    exact List.mem_map.mpr ⟨a, by simpa using this, rfl⟩

mutual
theorem decode_nc : (t : Ty) → t.wf = true → t.total = true → ∀ (path : Path) (sel : Option Int) (s : St),
    (sel = none → t.okNoSel = true) → Fresh s.scs s.pos → NC (decode true t path sel s)
  | .prim p, _, _, path, sel, s, _, _ => by simp only [decode]; exact readPrim_nc p path s
  | .struct name isP fs, hwf, htot, path, sel, s, _, hfresh => by
    simp only [decode]
    exact (fields_nc fs (by simpa [Ty.wf] using hwf) none [] (by simpa [Ty.total] using htot) path [] _ VOK.nil
      (by simpa [emitM, emit] using hfresh)).bind fun vals t _ => NC.ok _ _
  | .tpm2bBytes name szName szP bufName elem, hwf, htot, path, sel, s, _, hfresh => by
    simp only [Ty.wf, Bool.and_eq_true, decide_eq_true_eq] at hwf
    obtain ⟨⟨⟨hwsz, hszpos⟩, hwel⟩, _⟩ := hwf
    simp only [Ty.total, Bool.not_eq_true'] at htot
    simp only [decode]
    refine (readPrim_nc szP _ _).bind fun nv s1 h1 => ?_
    obtain ⟨x, rfl, hx0⟩ := readPrim_unsigned htot h1
    obtain ⟨nb, ne, hsz, i1, p1, o1, c1⟩ := readPrim_sound hwsz h1
    simp only [emitM, emit] at i1 p1 o1 c1
    have hnblen := specPrim_length hsz
    rw [show (Val.int szP.name x).asInt?.getD 0 = x from rfl]
    rw [if_neg (by omega)]
    refine (openRegion_nc _ _ _ s1).bind fun _ s2 h2 => ?_
    have hs2 := openRegion_ok_inv h2
    have hfr1 : Fresh s1.scs s1.pos := by rw [c1, p1]; exact fresh_bump hfresh
    have hfr2 : Fresh s2.scs s2.pos := by rw [hs2]; exact fresh_append hfr1 (Nat.le_refl _)
    refine (readPrimList_nc hwel _ _ s2 hfr2).bind fun bv s3 h3 => ?_
    obtain ⟨bb, be, _, _, _, _, c3⟩ := readPrimList_sound hwel hfr2 h3
    have hs3scs : s3.scs = bump s1.scs bb.length ++ [(⟨s1.pos, path ++ [⟨szName, none⟩], 0, some x.toNat⟩ : SC).bump bb.length] := by
      rw [c3, hs2]; exact bump_append _ _ _
    have hne : ∀ d ∈ bump s1.scs bb.length, d.id ≠ s1.pos := by
      rw [c1, bump_bump, p1]; exact ids_ne_of_fresh hfresh (by omega)
    exact (assertDone_last_nc hs3scs rfl hne rfl).bind fun _ s4 _ => NC.ok _ _
  | .tpm2b name szName szP bufName body, hwf, htot, path, sel, s, _, hfresh => by
    simp only [Ty.wf, Bool.and_eq_true, decide_eq_true_eq] at hwf
    obtain ⟨⟨hwsz, hszpos⟩, hwb⟩ := hwf
    simp only [Ty.total, Bool.and_eq_true, Bool.not_eq_true'] at htot
    obtain ⟨⟨hus, htb⟩, hokb⟩ := htot
    simp only [decode, ownCatch_strict]
    refine (readPrim_nc szP _ _).bind fun nv s1 h1 => ?_
    obtain ⟨x, rfl, hx0⟩ := readPrim_unsigned hus h1
    obtain ⟨nb, ne, hsz, i1, p1, o1, c1⟩ := readPrim_sound hwsz h1
    simp only [emitM, emit] at i1 p1 o1 c1
    have hnblen := specPrim_length hsz
    rw [show (Val.int szP.name x).asInt?.getD 0 = x from rfl]
    rw [if_neg (by omega)]
    refine (openRegion_nc _ _ _ s1).bind fun _ s2 h2 => ?_
    have hs2 := openRegion_ok_inv h2
    have hfr1 : Fresh s1.scs s1.pos := by rw [c1, p1]; exact fresh_bump hfresh
    have hfr2 : Fresh s2.scs s2.pos := by rw [hs2]; exact fresh_append hfr1 (Nat.le_refl _)
    by_cases hxz : x = 0
    · rw [if_pos hxz]
      have hscs : (emitM ⟨path ++ [⟨bufName, none⟩], body.eventTag, none, "", 0⟩ s2).scs =
          s1.scs ++ [⟨s1.pos, path ++ [⟨szName, none⟩], 0, some x.toNat⟩] := by rw [hs2]; rfl
      have hne : ∀ d ∈ s1.scs, d.id ≠ s1.pos := by
        rw [c1, p1]; exact ids_ne_of_fresh hfresh (by omega)
      exact (assertDone_last_nc hscs rfl hne rfl).bind fun _ s4 _ => NC.ok _ _
    · rw [if_neg hxz]
      refine (decode_nc body hwb htb _ none s2 (fun _ => hokb) hfr2).bind fun bv s3 h3 => ?_
      obtain ⟨bb, be, _, _, _, _, c3⟩ := decode_sound body hwb _ none s2 s3 bv hfr2 h3
      have hs3scs : s3.scs = bump s1.scs bb.length ++ [(⟨s1.pos, path ++ [⟨szName, none⟩], 0, some x.toNat⟩ : SC).bump bb.length] := by
        rw [c3, hs2]; exact bump_append _ _ _
      have hne : ∀ d ∈ bump s1.scs bb.length, d.id ≠ s1.pos := by
        rw [c1, bump_bump, p1]; exact ids_ne_of_fresh hfresh (by omega)
      exact (assertDone_last_nc hs3scs rfl hne rfl).bind fun _ s4 _ => NC.ok _ _
  | .union name arms, hwf, htot, path, sel, s, hsel, hfresh => by
    simp only [decode]
    cases han : selectArm arms.keys sel with
    | none =>
      simp only []
      cases sel with
      | some sv => intro c m t h; simp at h
      | none =>
        have := hsel rfl
        simp [Ty.okNoSel, han] at this
    | some an =>
      simp only []
      exact arm_nc arms (by simpa [Ty.wf] using hwf) (by simpa [Ty.total] using htot) name an path _
        (selectArm_mem han) (by simpa [emitM, emit] using hfresh)
  | .bad r, _, htot, path, sel, s, _, _ => by simp [Ty.total] at htot

theorem arm_nc : (arms : Arms) → arms.wf = true → arms.total = true → ∀ (un want : String) (path : Path) (s : St),
    want ∈ arms.keys.map (·.1) → Fresh s.scs s.pos → NC (decodeArm true arms un want path s)
  | .nil, _, _, un, want, path, s, hmem, _ => by simp [Arms.keys] at hmem
  | .consNone an key rest, hwf, htot, un, want, path, s, hmem, hfresh => by
    simp only [decodeArm]
    split
    · exact NC.ok _ _
    · rename_i hne
      refine arm_nc rest (by simpa [Arms.wf] using hwf) (by simpa [Arms.total] using htot) un want path s ?_ hfresh
      simp only [Arms.keys, List.map_cons, List.mem_cons] at hmem
      rcases hmem with h | h
      · exact absurd h.symm hne
      · exact h
  | .cons an key t rest, hwf, htot, un, want, path, s, hmem, hfresh => by
    simp only [Arms.wf, Bool.and_eq_true] at hwf
    simp only [Arms.total, Bool.and_eq_true] at htot
    simp only [decodeArm]
    split
    · exact (decode_nc t hwf.1 htot.1.1 _ none s (fun _ => htot.1.2) hfresh).bind fun v t' _ => NC.ok _ _
    · rename_i hne
      refine arm_nc rest hwf.2 htot.2 un want path s ?_ hfresh
      simp only [Arms.keys, List.map_cons, List.mem_cons] at hmem
      rcases hmem with h | h
      · exact absurd h.symm hne
      · exact h
  | .consBytes an key elem n rest, hwf, htot, un, want, path, s, hmem, hfresh => by
    simp only [Arms.wf, Bool.and_eq_true] at hwf
    simp only [Arms.total, Bool.and_eq_true] at htot
    simp only [decodeArm]
    split
    · cases n with
      | none => simp at htot
      | some k =>
        simp only [readListArm]
        exact (readPrimList_nc hwf.1 _ k s hfresh).bind fun v t' _ => NC.ok _ _
    · rename_i hne
      refine arm_nc rest hwf.2 htot.2 un want path s ?_ hfresh
      simp only [Arms.keys, List.map_cons, List.mem_cons] at hmem
      rcases hmem with h | h
      · exact absurd h.symm hne
      · exact h

theorem fields_nc : (fs : Fields) → fs.wf = true → ∀ (l : Option Bool) (seen : List (String × Bool)), fs.total l seen = true →
    ∀ (path : Path) (vals : List (String × Val)) (s : St), VOK vals l seen → Fresh s.scs s.pos →
    NC (decodeFields true fs path vals s)
  | .nil, _, l, seen, _, path, vals, s, _, _ => by simp only [decodeFields]; exact NC.ok _ _
  | .cons fname kind t rest, hwf, l, seen, htot, path, vals, s, hv, hfresh => by
    simp only [Fields.wf, Bool.and_eq_true] at hwf
    simp only [Fields.total, Bool.and_eq_true] at htot
    obtain ⟨⟨htt, hkind⟩, hrest⟩ := htot
    simp only [decodeFields]
    have hsound : ∀ v s1, decodeFieldWith (fun p sel s => decode true t p sel s) t.name kind (path ++ [⟨fname, none⟩]) vals s = .ok (v, s1) →
        Fresh s1.scs s1.pos := by
      intro v s1 h1
      obtain ⟨b, e, _, _, p1, _, c1⟩ := fieldWith_sound _ (fun p sel v => spec t p sel v)
        (fun p sel s v s' hf hd => decode_sound t hwf.1 p sel s s' v hf hd) t.name kind _ vals s s1 v hfresh h1
      rw [c1, p1]; exact fresh_bump hfresh
    cases kind with
    | plain =>
      simp only [] at hkind hrest
      simp only [decodeFieldWith]
      refine (decode_nc t hwf.1 htt _ none s (fun _ => hkind) hfresh).bind fun v s1 h1 => ?_
      have hfr1 := hsound v s1 (by simpa [decodeFieldWith] using h1)
      cases t with
      | prim p =>
        obtain ⟨b, e, hg, _⟩ := decode_sound (.prim p) hwf.1 _ none s s1 v hfresh h1
        simp only [spec] at hg
        obtain ⟨x, rfl, _⟩ := specPrim_inv hg
        exact fields_nc rest hwf.2 _ _ (by simpa [Ty.isPrim] using hrest) path _ s1 (hv.snoc_int fname p.name x) hfr1
      | struct n p fs => exact fields_nc rest hwf.2 _ _ (by simpa [Ty.isPrim] using hrest) path _ s1 (hv.snoc_other fname v) hfr1
      | tpm2b n a b c d => exact fields_nc rest hwf.2 _ _ (by simpa [Ty.isPrim] using hrest) path _ s1 (hv.snoc_other fname v) hfr1
      | tpm2bBytes n a b c d => exact fields_nc rest hwf.2 _ _ (by simpa [Ty.isPrim] using hrest) path _ s1 (hv.snoc_other fname v) hfr1
      | union n a => exact fields_nc rest hwf.2 _ _ (by simpa [Ty.isPrim] using hrest) path _ s1 (hv.snoc_other fname v) hfr1
      | bad r => exact fields_nc rest hwf.2 _ _ (by simpa [Ty.isPrim] using hrest) path _ s1 (hv.snoc_other fname v) hfr1
    | selected sel =>
      simp only [] at hkind hrest
      obtain ⟨x, hx⟩ := hv.sel (by simpa using hkind)
      simp only [decodeFieldWith, hx]
      refine (decode_nc t hwf.1 htt _ (some x) s (by intro h; cases h) hfresh).bind fun v s1 h1 => ?_
      have hfr1 := hsound v s1 (by simpa [decodeFieldWith, hx] using h1)
      exact fields_nc rest hwf.2 _ _ hrest path _ s1 (hv.snoc_other fname v) hfr1
    | counted =>
      simp only [Bool.and_eq_true, beq_iff_eq] at hkind hrest
      obtain ⟨hok, hl⟩ := hkind
      subst hl
      obtain ⟨c, hc⟩ := hv.count
      simp only [decodeFieldWith, hc]
      refine ((repeat_nc (fun p s => decode true t p none s) (fun p v => spec t p none v)
        (fun p s hf => decode_nc t hwf.1 htt p none s (fun _ => hok) hf)
        (fun p s v s' hf hd => decode_sound t hwf.1 p none s s' v hf hd) _ c 0 _ (by simpa [emitM, emit] using hfresh)).bind
          fun vs t' _ => NC.ok _ _).bind fun v s1 h1 => ?_
      have hfr1 := hsound v s1 (by simpa [decodeFieldWith, hc] using h1)
      obtain ⟨vs, s2, _, hv'⟩ := bind_ok_inv h1
      simp only [Except.ok.injEq, Prod.mk.injEq] at hv'
      obtain ⟨rfl, _⟩ := hv'
      exact fields_nc rest hwf.2 _ _ hrest path _ s1 (hv.snoc_list fname vs) hfr1
end
