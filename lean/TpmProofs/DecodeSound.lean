import TpmProofs.DecodeOk
/-!
# Soundness of acceptance: whatever the strict walker accepts conforms to the layout

The converse of `decode_ok`: if `decode true t path sel s = .ok (v, s')` then `v` conforms to `t`
(`spec t path sel v = some (bs, evs)`), the bytes consumed are exactly its encoding `bs`, the events emitted are
exactly the dictated ones, and every enclosing region was charged exactly `bs.length`.  In particular every size
field equals the length of what it governs and every value is in its declared set (that is what `spec` demands).
Together with `decode_ok`: strict acceptance ⇔ conformance, with the same observable result.
-/

/-- the walker went from `s` to `s'` exactly as the specification result `g` dictates -/
def Snd (g : Option (List Byte × List SEv)) (s s' : St) : Prop :=
  ∃ bs evs, g = some (bs, evs) ∧ s.inp = bs ++ s'.inp ∧ s'.pos = s.pos + bs.length ∧
    s'.out = s.out ++ stamp s.pos evs ∧ s'.scs = bump s.scs bs.length

theorem bind_ok_inv {α β : Type} {r : R α} {f : α → St → R β} {x : β × St} (h : r.bind f = .ok x) :
    ∃ a t, r = .ok (a, t) ∧ f a t = .ok x := by
  cases r with
  | error e => simp [R.bind] at h
  | ok at' => obtain ⟨a, t⟩ := at'; exact ⟨a, t, rfl, by simpa [R.bind] using h⟩

theorem consume_bind_error_ne_ok {β : Type} (n : Nat) (s : St) (e : Err) (x : β × St) :
    ((consume n s).bind fun _ s' => (.error (e, s') : R β)) ≠ .ok x := by
  intro h
  obtain ⟨a, t, _, h2⟩ := bind_ok_inv h
  simp at h2

theorem bpGo_ok_inv (path : Path) (n : Nat) : ∀ (todo done : List SC) (s s' : St),
    bpGo path n done todo s = .ok ((), s') → s' = { s with scs := done ++ bump todo n } := by
  intro todo
  induction todo with
  | nil => intro done s s' h; simp only [bpGo, Except.ok.injEq, Prod.mk.injEq, true_and] at h; subst h; simp [bump]
  | cons c rest ih =>
    intro done s s' h
    unfold bpGo at h
    split at h
    · exact absurd h (consume_bind_error_ne_ok _ _ _ _)
    · have := ih _ _ _ h
      rw [this]
      simp [bump, List.append_assoc]

theorem bytesParsed_ok_inv {path : Path} {n : Nat} {s s' : St} (h : bytesParsed path n s = .ok ((), s')) :
    s' = { s with scs := bump s.scs n } := by
  have := bpGo_ok_inv path n s.scs [] s s' h
  simpa using this

theorem take_ok_inv {n : Nat} {s s' : St} {bs : List Byte} (h : take n s = .ok (bs, s')) :
    bs.length = n ∧ s.inp = bs ++ s'.inp ∧ s' = { s with inp := s'.inp, pos := s.pos + n } := by
  unfold take at h
  split at h
  · simp at h
  · rename_i hn
    simp only [Except.ok.injEq, Prod.mk.injEq] at h
    obtain ⟨rfl, rfl⟩ := h
    exact ⟨by simp; omega, by simp, rfl⟩

theorem inRange_ofBytes (size : Nat) (signed : Bool) (bs : List Byte) (h : bs.length = size) (hs : signed = true → 0 < size) :
    inRange size signed (intOfBytes size signed bs) = true := by
  have hlt := fromBE_lt bs
  rw [h, pow256] at hlt
  unfold inRange intOfBytes
  cases signed with
  | false =>
    simp only [Bool.false_and, Bool.false_eq_true, if_false, Bool.and_eq_true, decide_eq_true_eq]
    exact ⟨by omega, by exact_mod_cast hlt⟩
  | true =>
    have hpos := hs rfl
    have hsplit := two_pow_split size hpos
    generalize 2 ^ (8 * size - 1) = A at hsplit ⊢
    generalize 2 ^ (8 * size) = B at hsplit hlt ⊢
    generalize fromBE bs = n at hlt ⊢
    simp only [Bool.true_and, if_true, Bool.and_eq_true, decide_eq_true_eq]
    by_cases hge : A ≤ n
    · simp only [hge, if_true]
      exact ⟨⟨hpos, by omega⟩, by omega⟩
    · simp only [hge, if_false]
      exact ⟨⟨hpos, by omega⟩, by omega⟩

/-! ## table well-formedness the converse needs -/

def Prim.wf (p : Prim) : Bool := !p.signed || decide (0 < p.size)

mutual
def Ty.wf : Ty → Bool
  | .prim p => p.wf
  | .struct _ _ fs => fs.wf
  | .tpm2bBytes _ _ szP _ elem => szP.wf && decide (0 < szP.size) && elem.wf && decide (elem.size = 1)
  | .tpm2b _ _ szP _ body => szP.wf && decide (0 < szP.size) && body.wf
  | .union _ arms => arms.wf
  | .bad _ => true
def Fields.wf : Fields → Bool
  | .nil => true
  | .cons _ _ t rest => t.wf && rest.wf
def Arms.wf : Arms → Bool
  | .nil => true
  | .consNone _ _ rest => rest.wf
  | .cons _ _ t rest => t.wf && rest.wf
  | .consBytes _ _ elem _ rest => elem.wf && rest.wf
end

/-! ## leaves -/

theorem readPrim_sound {p : Prim} (hwf : p.wf = true) {path : Path} {s s' : St} {v : Val}
    (h : readPrim true p path s = .ok (v, s')) : Snd (specPrim p path v) s s' := by
  unfold readPrim at h
  obtain ⟨_, s1, hb, h⟩ := bind_ok_inv h
  obtain ⟨bs, s2, ht, h⟩ := bind_ok_inv h
  have hs1 := bytesParsed_ok_inv hb
  obtain ⟨hlen, hinp, hs2⟩ := take_ok_inv ht
  simp only [] at h
  split at h
  · rename_i hvalid
    simp only [Except.ok.injEq, Prod.mk.injEq] at h
    obtain ⟨rfl, rfl⟩ := h
    have hr : inRange p.size p.signed (p.ofBytes bs) = true :=
      inRange_ofBytes p.size p.signed bs hlen (by
        intro hsg; simp only [Prim.wf, hsg, Bool.not_true, Bool.false_or, decide_eq_true_eq] at hwf; exact hwf)
    have hbytes : intToBytes p.size (p.ofBytes bs) = bs := intToBytes_intOfBytes p.size p.signed bs hlen
    refine ⟨bs, [(p.size, ⟨path, .named p.name false, some (p.ofBytes bs), p.name, p.size⟩)], ?_, ?_, ?_, ?_, ?_⟩
    · simp only [specPrim, Val.asIntOf, if_true, hvalid, hr, Bool.and_self, hbytes]
    · rw [hs1] at hinp; simpa [emitM, emit] using hinp
    · rw [hs2, hs1]; simp [emitM, emit, hlen]
    · rw [hs2, hs1]; simp [emitM, emit, stamp, hlen]
    · rw [hs2, hs1]; simp [emitM, emit, hlen]
  · simp at h

theorem repeat_sound (f : Path → St → R Val) (g : Path → Val → Option (List Byte × List SEv))
    (hfg : ∀ p s v s', Fresh s.scs s.pos → f p s = .ok (v, s') → Snd (g p v) s s') (path : Path) :
    ∀ (n i : Nat) (s s' : St) (vs : List Val), Fresh s.scs s.pos → repeatDec f path n i s = .ok (vs, s') →
      vs.length = n ∧ Snd (specRepeat g path vs i) s s' := by
  intro n
  induction n with
  | zero =>
    intro i s s' vs _ h
    simp only [repeatDec, Except.ok.injEq, Prod.mk.injEq] at h
    obtain ⟨rfl, rfl⟩ := h
    exact ⟨rfl, [], [], rfl, by simp, by simp, by simp, by simp⟩
  | succ m ih =>
    intro i s s' vs hfresh h
    unfold repeatDec at h
    obtain ⟨v, s1, h1, h⟩ := bind_ok_inv h
    obtain ⟨vs', s2, h2, h⟩ := bind_ok_inv h
    simp only [Except.ok.injEq, Prod.mk.injEq] at h
    obtain ⟨rfl, rfl⟩ := h
    obtain ⟨b, e, hg, i1, p1, o1, c1⟩ := hfg _ _ _ _ hfresh h1
    have hfresh1 : Fresh s1.scs s1.pos := by rw [c1, p1]; exact fresh_bump hfresh
    obtain ⟨hl, bs', es', hr, i2, p2, o2, c2⟩ := ih (i+1) s1 s2 vs' hfresh1 h2
    refine ⟨by simp [hl], b ++ bs', e ++ shift b.length es', ?_, ?_, ?_, ?_, ?_⟩
    · simp [specRepeat, hg, hr]
    · rw [i1, i2, List.append_assoc]
    · rw [p2, p1, List.length_append]; omega
    · rw [o2, o1, p1, stamp_append, stamp_shift, List.append_assoc]
    · rw [c2, c1, bump_bump, List.length_append]

theorem readPrimList_sound {p : Prim} (hwf : p.wf = true) {path : Path} {n : Nat} {s s' : St} {v : Val}
    (hfresh : Fresh s.scs s.pos) (h : readPrimList true p path n s = .ok (v, s')) :
    Snd (specPrimList p path n v) s s' := by
  unfold readPrimList at h
  obtain ⟨vs, s1, h1, h⟩ := bind_ok_inv h
  simp only [Except.ok.injEq, Prod.mk.injEq] at h
  obtain ⟨rfl, rfl⟩ := h
  obtain ⟨hl, b, e, hr, i1, p1, o1, c1⟩ := repeat_sound (readPrim true p) (specPrim p)
    (fun q s v s' _ h => readPrim_sound hwf h) path n 0 _ _ vs (by simpa [emitM, emit] using hfresh) h1
  refine ⟨b, (0, ⟨path, .listOf p.name, none, "", 0⟩) :: e, ?_, ?_, ?_, ?_, ?_⟩
  · simp only [specPrimList, Val.asList, hl, if_true, hr, Option.map_some]
  · simpa [emitM, emit] using i1
  · simpa [emitM, emit] using p1
  · rw [o1]; simp [emitM, emit, stamp_cons]
  · simpa [emitM, emit] using c1

theorem fieldWith_sound (d : Path → Option Int → St → R Val) (g : Path → Option Int → Val → Option (List Byte × List SEv))
    (hdg : ∀ p sel s v s', Fresh s.scs s.pos → d p sel s = .ok (v, s') → Snd (g p sel v) s s')
    (tname : String) (kind : FKind) (fpath : Path) (vals : List (String × Val)) (s s' : St) (v : Val)
    (hfresh : Fresh s.scs s.pos) (h : decodeFieldWith d tname kind fpath vals s = .ok (v, s')) :
    Snd (specFieldWith g tname kind fpath vals v) s s' := by
  cases kind with
  | plain => exact hdg _ _ _ _ _ hfresh h
  | selected sel =>
    simp only [decodeFieldWith] at h
    split at h
    · simp [crash] at h
    · rename_i sv hsel
      simpa [specFieldWith, hsel] using hdg _ _ _ _ _ hfresh h
  | counted =>
    simp only [decodeFieldWith] at h
    split at h
    · simp [crash] at h
    · rename_i c hc
      obtain ⟨vs, s1, h1, h⟩ := bind_ok_inv h
      simp only [Except.ok.injEq, Prod.mk.injEq] at h
      obtain ⟨rfl, rfl⟩ := h
      obtain ⟨hl, b, e, hr, i1, p1, o1, c1⟩ := repeat_sound (fun p s => d p none s) (fun p v => g p none v)
        (fun q s v s' hf h => hdg q none s v s' hf h) fpath c 0 _ _ vs (by simpa [emitM, emit] using hfresh) h1
      refine ⟨b, (0, ⟨fpath, .listOf tname, none, "", 0⟩) :: e, ?_, ?_, ?_, ?_, ?_⟩
      · simp only [specFieldWith, hc, Val.asList, hl, if_true, hr, Option.map_some]
      · simpa [emitM, emit] using i1
      · simpa [emitM, emit] using p1
      · rw [o1]; simp [emitM, emit, stamp_cons]
      · simpa [emitM, emit] using c1

/-! ## regions -/

theorem openRegion_ok_inv {id : Nat} {cpath : Path} {n : Nat} {s s' : St} (h : openRegion true id cpath n s = .ok ((), s')) :
    s' = { s with scs := s.scs ++ [⟨id, cpath, 0, some n⟩] } := by
  unfold openRegion at h
  obtain ⟨_, s1, h1, h⟩ := bind_ok_inv h
  unfold anticipateM at h1
  split at h1
  · simp only [Except.ok.injEq, Prod.mk.injEq, true_and] at h1 h
    subst h1; exact h.symm
  · simp at h1

theorem assertDone_ok_inv {id : Nat} {s s' : St} (h : assertDone true id s = .ok ((), s')) :
    ∃ c m, findSC id s.scs = some c ∧ c.max = some m ∧ c.already = m ∧ s' = { s with scs := removeSC id s.scs } := by
  unfold assertDone at h
  split at h
  · simp [crash] at h
  · rename_i c hc
    unfold assertDoneSC at h
    split at h
    · simp [crash] at h
    · rename_i m hm
      split at h
      · rename_i heq
        simp only [Except.ok.injEq, Prod.mk.injEq, true_and] at h
        exact ⟨c, m, hc, hm, heq, h.symm⟩
      · simp at h

/-- closing the region opened last: it is found, it is exactly full, and it leaves -/
theorem assertDone_last_inv {id : Nat} {pre : List SC} {c : SC} {s s' : St} (hs : s.scs = pre ++ [c]) (hid : c.id = id)
    (hpre : ∀ d ∈ pre, d.id ≠ id) (h : assertDone true id s = .ok ((), s')) :
    c.max = some c.already ∧ s' = { s with scs := pre } := by
  obtain ⟨c', m, hf, hm, ha, hs'⟩ := assertDone_ok_inv h
  rw [hs, findSC_append_new id c pre hid hpre] at hf
  simp only [Option.some.injEq] at hf
  subst hf
  rw [hs, removeSC_append_new id c pre hid hpre] at hs'
  exact ⟨by rw [hm, ha], hs'⟩

theorem ownCatch_strict (id : Nat) (r : R Val) (g : Val → St → R Val) : ownCatch true id r g = r.bind g := by
  unfold ownCatch
  cases r with
  | error e => obtain ⟨e, s⟩ := e; cases e <;> simp [R.bind]
  | ok v => obtain ⟨v, s⟩ := v; simp [R.bind]

/-! ## the walker -/

mutual
theorem decode_sound : (t : Ty) → t.wf = true → ∀ (path : Path) (sel : Option Int) (s s' : St) (v : Val),
    Fresh s.scs s.pos → decode true t path sel s = .ok (v, s') → Snd (spec t path sel v) s s'
  | .prim p, hwf, path, sel, s, s', v, _, h => by
    simp only [decode] at h
    simp only [spec]
    exact readPrim_sound (by simpa [Ty.wf] using hwf) h
  | .struct name isP fs, hwf, path, sel, s, s', v, hfresh, h => by
    simp only [decode] at h
    obtain ⟨vals, s1, h1, h⟩ := bind_ok_inv h
    simp only [Except.ok.injEq, Prod.mk.injEq] at h
    obtain ⟨rfl, rfl⟩ := h
    obtain ⟨fvs, hout, b, e, hg, i1, p1, o1, c1⟩ := fields_sound fs (by simpa [Ty.wf] using hwf) path [] _ _ vals
      (by simpa [emitM, emit] using hfresh) h1
    simp only [List.nil_append] at hout
    subst hout
    refine ⟨b, (0, ⟨path, .named name false, none, "", 0⟩) :: e, ?_, ?_, ?_, ?_, ?_⟩
    · simp [spec, Val.asObj, hg]
    · simpa [emitM, emit] using i1
    · simpa [emitM, emit] using p1
    · rw [o1]; simp [emitM, emit, stamp_cons]
    · simpa [emitM, emit] using c1
  | .tpm2bBytes name szName szP bufName elem, hwf, path, sel, s, s', v, hfresh, h => by
    simp only [Ty.wf, Bool.and_eq_true, decide_eq_true_eq] at hwf
    obtain ⟨⟨⟨hwsz, hszpos⟩, hwel⟩, _⟩ := hwf
    simp only [decode] at h
    obtain ⟨nv, s1, h1, h⟩ := bind_ok_inv h
    obtain ⟨nb, ne, hsz, i1, p1, o1, c1⟩ := readPrim_sound hwsz h1
    simp only [emitM, emit] at i1 p1 o1 c1
    obtain ⟨x, rfl, _, _, _, _⟩ := specPrim_inv hsz
    have hnblen := specPrim_length hsz
    rw [show (Val.int szP.name x).asInt?.getD 0 = x from rfl] at h
    by_cases hx0 : x < 0
    · rw [if_pos hx0] at h; simp [crash] at h
    · rw [if_neg hx0] at h
      obtain ⟨_, s2, h2, h⟩ := bind_ok_inv h
      have hs2 := openRegion_ok_inv h2
      have e2i : s2.inp = s1.inp := by rw [hs2]
      have e2p : s2.pos = s1.pos := by rw [hs2]
      have e2o : s2.out = s1.out := by rw [hs2]
      obtain ⟨bv, s3, h3, h⟩ := bind_ok_inv h
      have hfr1 : Fresh s1.scs s1.pos := by rw [c1, p1]; exact fresh_bump hfresh
      have hfr2 : Fresh s2.scs s2.pos := by rw [hs2]; exact fresh_append hfr1 (Nat.le_refl _)
      obtain ⟨bb, be, hbody, i3, p3, o3, c3⟩ := readPrimList_sound hwel hfr2 h3
      obtain ⟨_, s4, h4, h⟩ := bind_ok_inv h
      simp only [Except.ok.injEq, Prod.mk.injEq] at h
      obtain ⟨rfl, rfl⟩ := h
      have hs3scs : s3.scs = bump s1.scs bb.length ++ [(⟨s1.pos, path ++ [⟨szName, none⟩], 0, some x.toNat⟩ : SC).bump bb.length] := by
        rw [c3, hs2]; exact bump_append _ _ _
      have hne : ∀ d ∈ bump s1.scs bb.length, d.id ≠ s1.pos := by
        rw [c1, bump_bump, p1]
        exact ids_ne_of_fresh hfresh (by omega)
      obtain ⟨hfull, hs4⟩ := assertDone_last_inv hs3scs rfl hne h4
      simp only [SC.bump, Nat.zero_add, Option.some.injEq] at hfull
      refine ⟨nb ++ bb, (0, ⟨path, .named name false, none, "", 0⟩) :: ne ++ shift nb.length be, ?_, ?_, ?_, ?_, ?_⟩
      · simp only [spec, Val.asObj, and_self, if_true, Option.bind_some, asPair, hsz, Val.asIntOf, hbody]
        have hc : 0 < szP.size ∧ 0 ≤ x ∧ x.toNat = bb.length := ⟨hszpos, by omega, hfull⟩
        simp [hc]
      · rw [hs4]; show s.inp = nb ++ bb ++ s3.inp
        rw [i1, ← e2i, i3, List.append_assoc]
      · rw [hs4]; show s3.pos = s.pos + (nb ++ bb).length
        rw [p3, e2p, p1, List.length_append]; omega
      · rw [hs4]; show s3.out = _
        rw [o3, e2o, o1, e2p, p1]
        simp [stamp_cons, stamp_append, stamp_shift, List.append_assoc]
      · rw [hs4]; show bump s1.scs bb.length = _
        rw [c1, bump_bump, List.length_append]
  | .tpm2b name szName szP bufName body, hwf, path, sel, s, s', v, hfresh, h => by
    simp only [Ty.wf, Bool.and_eq_true, decide_eq_true_eq] at hwf
    obtain ⟨⟨hwsz, hszpos⟩, hwb⟩ := hwf
    simp only [decode, ownCatch_strict] at h
    obtain ⟨nv, s1, h1, h⟩ := bind_ok_inv h
    obtain ⟨nb, ne, hsz, i1, p1, o1, c1⟩ := readPrim_sound hwsz h1
    simp only [emitM, emit] at i1 p1 o1 c1
    obtain ⟨x, rfl, _, _, _, _⟩ := specPrim_inv hsz
    have hnblen := specPrim_length hsz
    rw [show (Val.int szP.name x).asInt?.getD 0 = x from rfl] at h
    by_cases hx0 : x < 0
    · rw [if_pos hx0] at h; simp [crash] at h
    · rw [if_neg hx0] at h
      obtain ⟨_, s2, h2, h⟩ := bind_ok_inv h
      have hs2 := openRegion_ok_inv h2
      have e2i : s2.inp = s1.inp := by rw [hs2]
      have e2p : s2.pos = s1.pos := by rw [hs2]
      have e2o : s2.out = s1.out := by rw [hs2]
      have hfr1 : Fresh s1.scs s1.pos := by rw [c1, p1]; exact fresh_bump hfresh
      have hfr2 : Fresh s2.scs s2.pos := by rw [hs2]; exact fresh_append hfr1 (Nat.le_refl _)
      by_cases hxz : x = 0
      · -- empty body: the buffer event, then the region closes at once
        rw [if_pos hxz] at h
        subst hxz
        obtain ⟨_, s4, h4, h⟩ := bind_ok_inv h
        simp only [Except.ok.injEq, Prod.mk.injEq] at h
        obtain ⟨rfl, rfl⟩ := h
        have hscs : (emitM ⟨path ++ [⟨bufName, none⟩], body.eventTag, none, "", 0⟩ s2).scs =
            s1.scs ++ [⟨s1.pos, path ++ [⟨szName, none⟩], 0, some (0 : Int).toNat⟩] := by rw [hs2]; rfl
        have hne : ∀ d ∈ s1.scs, d.id ≠ s1.pos := by
          rw [c1, p1]; exact ids_ne_of_fresh hfresh (by omega)
        obtain ⟨_, hs4⟩ := assertDone_last_inv hscs rfl hne h4
        refine ⟨nb, (0, ⟨path, .named name false, none, "", 0⟩) :: ne ++
          [(nb.length, ⟨path ++ [⟨bufName, none⟩], body.eventTag, none, "", 0⟩)], ?_, ?_, ?_, ?_, ?_⟩
        · simp only [spec, Val.asObj, and_self, if_true, Option.bind_some, asPair, hsz, Val.asIntOf]
          simp [Val.isNone, hszpos]
        · rw [hs4]; show s.inp = nb ++ s2.inp
          rw [i1, e2i]
        · rw [hs4]; show s2.pos = s.pos + nb.length
          rw [e2p, p1]
        · rw [hs4]; show s2.out ++ [(s2.pos, _)] = _
          rw [e2o, o1, e2p, p1]
          simp [stamp_cons, stamp_append, stamp, List.append_assoc]
        · rw [hs4]; show s1.scs = _
          rw [c1]
      · rw [if_neg hxz] at h
        obtain ⟨bv, s3, h3, h⟩ := bind_ok_inv h
        obtain ⟨bb, be, hbody, i3, p3, o3, c3⟩ := decode_sound body hwb _ none s2 s3 bv hfr2 h3
        obtain ⟨_, s4, h4, h⟩ := bind_ok_inv h
        simp only [Except.ok.injEq, Prod.mk.injEq] at h
        obtain ⟨rfl, rfl⟩ := h
        have hs3scs : s3.scs = bump s1.scs bb.length ++ [(⟨s1.pos, path ++ [⟨szName, none⟩], 0, some x.toNat⟩ : SC).bump bb.length] := by
          rw [c3, hs2]; exact bump_append _ _ _
        have hne : ∀ d ∈ bump s1.scs bb.length, d.id ≠ s1.pos := by
          rw [c1, bump_bump, p1]
          exact ids_ne_of_fresh hfresh (by omega)
        obtain ⟨hfull, hs4⟩ := assertDone_last_inv hs3scs rfl hne h4
        simp only [SC.bump, Nat.zero_add, Option.some.injEq] at hfull
        refine ⟨nb ++ bb, (0, ⟨path, .named name false, none, "", 0⟩) :: ne ++ shift nb.length be, ?_, ?_, ?_, ?_, ?_⟩
        · simp only [spec, Val.asObj, and_self, if_true, Option.bind_some, asPair, hsz, Val.asIntOf, hxz, if_false, hbody]
          have hc : 0 < szP.size ∧ 0 ≤ x ∧ x.toNat = bb.length := ⟨hszpos, by omega, hfull⟩
          simp [hc]
        · rw [hs4]; show s.inp = nb ++ bb ++ s3.inp
          rw [i1, ← e2i, i3, List.append_assoc]
        · rw [hs4]; show s3.pos = s.pos + (nb ++ bb).length
          rw [p3, e2p, p1, List.length_append]; omega
        · rw [hs4]; show s3.out = _
          rw [o3, e2o, o1, e2p, p1]
          simp [stamp_cons, stamp_append, stamp_shift, List.append_assoc]
        · rw [hs4]; show bump s1.scs bb.length = _
          rw [c1, bump_bump, List.length_append]
  | .union name arms, hwf, path, sel, s, s', v, hfresh, h => by
    simp only [decode] at h
    split at h
    · split at h <;> simp [crash] at h
    · rename_i an han
      obtain ⟨b, e, hg, i1, p1, o1, c1⟩ := arm_sound arms (by simpa [Ty.wf] using hwf) name an path _ _ v
        (by simpa [emitM, emit] using hfresh) h
      refine ⟨b, (0, ⟨path, .named name false, none, "", 0⟩) :: e, ?_, ?_, ?_, ?_, ?_⟩
      · simp [spec, han, hg]
      · simpa [emitM, emit] using i1
      · simpa [emitM, emit] using p1
      · rw [o1]; simp [emitM, emit, stamp_cons]
      · simpa [emitM, emit] using c1
  | .bad r, hwf, path, sel, s, s', v, hfresh, h => by simp [decode, crash] at h

theorem arm_sound : (arms : Arms) → arms.wf = true → ∀ (un want : String) (path : Path) (s s' : St) (v : Val),
    Fresh s.scs s.pos → decodeArm true arms un want path s = .ok (v, s') → Snd (specArm arms un want path v) s s'
  | .nil, _, un, want, path, s, s', v, _, h => by simp [decodeArm, crash] at h
  | .consNone an key rest, hwf, un, want, path, s, s', v, hfresh, h => by
    simp only [decodeArm] at h
    split at h
    · rename_i heq
      simp only [Except.ok.injEq, Prod.mk.injEq] at h
      obtain ⟨rfl, rfl⟩ := h
      exact ⟨[], [], by simp [specArm, heq, Val.isNone], by simp, by simp, by simp, by simp⟩
    · rename_i hne
      have := arm_sound rest (by simpa [Arms.wf] using hwf) un want path s s' v hfresh h
      simpa [specArm, hne] using this
  | .cons an key t rest, hwf, un, want, path, s, s', v, hfresh, h => by
    simp only [Arms.wf, Bool.and_eq_true] at hwf
    simp only [decodeArm] at h
    split at h
    · rename_i heq
      obtain ⟨av, s1, h1, h⟩ := bind_ok_inv h
      simp only [Except.ok.injEq, Prod.mk.injEq] at h
      obtain ⟨rfl, rfl⟩ := h
      have := decode_sound t hwf.1 _ none s s1 av hfresh h1
      simpa [specArm, heq, Val.asObj, asSingle] using this
    · rename_i hne
      have := arm_sound rest hwf.2 un want path s s' v hfresh h
      simpa [specArm, hne] using this
  | .consBytes an key elem n rest, hwf, un, want, path, s, s', v, hfresh, h => by
    simp only [Arms.wf, Bool.and_eq_true] at hwf
    simp only [decodeArm] at h
    split at h
    · rename_i heq
      obtain ⟨av, s1, h1, h⟩ := bind_ok_inv h
      simp only [Except.ok.injEq, Prod.mk.injEq] at h
      obtain ⟨rfl, rfl⟩ := h
      cases n with
      | none => simp [readListArm, crash] at h1
      | some k =>
        have := readPrimList_sound hwf.1 hfresh (by simpa [readListArm] using h1)
        simpa [specArm, heq, Val.asObj, asSingle, specListArm] using this
    · rename_i hne
      have := arm_sound rest hwf.2 un want path s s' v hfresh h
      simpa [specArm, hne] using this

theorem fields_sound : (fs : Fields) → fs.wf = true → ∀ (path : Path) (vals : List (String × Val)) (s s' : St)
    (out : List (String × Val)), Fresh s.scs s.pos → decodeFields true fs path vals s = .ok (out, s') →
    ∃ fvs, out = vals ++ fvs ∧ Snd (specFields fs path vals fvs) s s'
  | .nil, _, path, vals, s, s', out, _, h => by
    simp only [decodeFields, Except.ok.injEq, Prod.mk.injEq] at h
    obtain ⟨rfl, rfl⟩ := h
    exact ⟨[], by simp, [], [], by simp [specFields], by simp, by simp, by simp, by simp⟩
  | .cons fname kind t rest, hwf, path, vals, s, s', out, hfresh, h => by
    simp only [Fields.wf, Bool.and_eq_true] at hwf
    simp only [decodeFields] at h
    obtain ⟨v, s1, h1, h⟩ := bind_ok_inv h
    obtain ⟨b, e, hg, i1, p1, o1, c1⟩ := fieldWith_sound _ (fun p sel v => spec t p sel v)
      (fun p sel s v s' hf hd => decode_sound t hwf.1 p sel s s' v hf hd) t.name kind _ vals s s1 v hfresh h1
    have hfresh1 : Fresh s1.scs s1.pos := by rw [c1, p1]; exact fresh_bump hfresh
    obtain ⟨fvs, hout, bs', es', hr, i2, p2, o2, c2⟩ := fields_sound rest hwf.2 path _ s1 s' out hfresh1 h
    refine ⟨(fname, v) :: fvs, by rw [hout]; simp, b ++ bs', e ++ shift b.length es', ?_, ?_, ?_, ?_, ?_⟩
    · simp [specFields, hg, hr]
    · rw [i1, i2, List.append_assoc]
    · rw [p2, p1, List.length_append]; omega
    · rw [o2, o1, p1, stamp_append, stamp_shift, List.append_assoc]
    · rw [c2, c1, bump_bump, List.length_append]
end
