import TpmProofs.Trunc
import TpmProofs.MsgPump
/-!
# Truncated inputs through the byte pump (C05, C10)

For every layout, every top (type / command / response), every input `x` and every `k`: what
`Binary.marshal` shows on the prefix `x.take k`, in terms of the strict walker's run on `x`.
-/

theorem initSt_take (x : List Byte) (k : Nat) : initSt (x.take k) = cutSt k (initSt x) := rfl

/-- the walker relation at top level (everything but the stream loop, which looks at the end of the input) -/
theorem runWalker_tr (tb : MsgTables) (top : Top) (hs : top.isStream = false) (x : List Byte) (k : Nat) :
    TRB k (initSt x) (runWalker true tb top x) (runWalker true tb top (x.take k)) := by
  cases top with
  | ty t => simp only [runWalker, initSt_take]; exact decode_tr t rootPath none _ k
  | command => simp only [runWalker, initSt_take]; exact decodeCommand_tr tb rootPath _ k
  | response cc enc => simp only [runWalker, initSt_take]; exact decodeResponse_tr tb cc enc rootPath _ k
  | stream => simp [Top.isStream] at hs

/-- bytes the strict walker consumes on `x` -/
def consumed (tb : MsgTables) (top : Top) (x : List Byte) : Nat := (stOf (runWalker true tb top x)).pos

/-- the walker's trace on `x` -/
def traceOf (tb : MsgTables) (top : Top) (x : List Byte) : List (Nat × Event) := (stOf (runWalker true tb top x)).out

theorem evs_trace (tb : MsgTables) (top : Top) (hs : top.isStream = false) (x : List Byte) :
    (marshalRun true tb top x).evs = (traceOf tb top x).map (·.2) := by
  simp only [marshalRun, pump, hs, Run.evs, traceOf]
  rw [pumpEvents_all false _ _ _ _ (by intro ke _; simp)]
  simp [shown, List.map_map, Function.comp_def]

/-- the walker on the first `k` bytes, when the run on `x` consumes more than `k` -/
theorem truncated_walker (tb : MsgTables) (top : Top) (hs : top.isStream = false) (x : List Byte) (k : Nat)
    (hk : k < consumed tb top x) :
    ∃ t, runWalker true tb top (x.take k) = .error (.depleted, t) ∧ t.inp = [] ∧ t.pos = k ∧
      t.out = (traceOf tb top x).filter fun ke => ke.1 ≤ k := by
  obtain ⟨new, ho, hp, hst, hle, hlt⟩ := runWalker_tr tb top hs x k
  have hu : k < used (initSt x) (runWalker true tb top x) := by simpa [used, initSt, consumed] using hk
  obtain ⟨t, h0, h1, h2, h3⟩ := hlt hu
  have ho' : traceOf tb top x = new := by simpa [initSt, traceOf] using ho
  refine ⟨t, h0, h1, by simpa [initSt] using h2, ?_⟩
  rw [ho']; simpa [initSt] using h3

/-- **truncation inside what the decoder consumes**: if the strict decoder consumes more than `k` bytes of `x`,
then on the first `k` bytes it ends with `InputStreamBytesDepletedError`, having shown exactly the events the run on
`x` emits up to byte count `k` (the fields that are complete), in the same order -/
theorem truncated_run (tb : MsgTables) (top : Top) (hs : top.isStream = false) (x : List Byte) (k : Nat)
    (hk : k < consumed tb top x) :
    marshalRun true tb top (x.take k) =
      ⟨shown (x.take k).length ((traceOf tb top x).filter fun ke => ke.1 ≤ k), .depleted,
       ccAfter ((traceOf tb top x).filter fun ke => ke.1 ≤ k) none⟩ := by
  obtain ⟨t, h0, h1, h2, h3⟩ := truncated_walker tb top hs x k hk
  unfold marshalRun pump
  rw [h0]
  simp only [hs, stOf, resOf, h3]
  rw [pumpEvents_all false _ _ _ _ (by intro ke _; simp)]
  simp [pumpOutcome]

/-- **truncation beyond what the decoder consumes** changes nothing but the reported surplus -/
theorem truncated_beyond (tb : MsgTables) (top : Top) (hs : top.isStream = false) (x : List Byte) (k : Nat)
    (hk : consumed tb top x ≤ k) :
    runWalker true tb top (x.take k) = (runWalker true tb top x).mapSt (cutSt (k - consumed tb top x)) := by
  obtain ⟨new, ho, hp, hst, hle, hlt⟩ := runWalker_tr tb top hs x k
  have hu : used (initSt x) (runWalker true tb top x) ≤ k := by simpa [used, initSt, consumed] using hk
  have := hle hu
  simpa [used, initSt, consumed] using this

theorem stamped_ge {p : Nat} : ∀ {l : List (Nat × Event)}, Stamped p l → ∀ ke ∈ l, p ≤ ke.1
  | [], _, ke, h => by cases h
  | (k, e) :: rest, hs, ke, h => by
    obtain ⟨hk, hr⟩ := hs
    simp only [List.mem_cons] at h
    rcases h with rfl | h
    · simp only; omega
    · have := stamped_ge hr ke h; omega

theorem stamped_filter_prefix (b : Nat) : ∀ {p : Nat} {l : List (Nat × Event)}, Stamped p l →
    l.filter (fun ke => decide (ke.1 ≤ b)) <+: l
  | _, [], _ => by simp
  | p, (k, e) :: rest, hs => by
    obtain ⟨hk, hr⟩ := hs
    by_cases hkb : k ≤ b
    · simp only [List.filter_cons, hkb, decide_true, if_true]
      exact List.prefix_cons_inj _ |>.mpr (stamped_filter_prefix b hr)
    · have : (List.filter (fun ke => decide (ke.1 ≤ b)) ((k, e) :: rest)) = [] := by
        apply List.filter_eq_nil_iff.mpr
        intro ke hke
        simp only [List.mem_cons] at hke
        simp only [decide_eq_true_eq]
        rcases hke with rfl | hke
        · exact hkb
        · have := stamped_ge hr ke hke; omega
      rw [this]; exact List.nil_prefix

/-- **prefix stability** (C10): the events shown for a prefix of the input are a prefix of the events shown for
the whole input (pull counts aside) -/
theorem prefix_stable (tb : MsgTables) (top : Top) (hs : top.isStream = false) (x : List Byte) (k : Nat) :
    (marshalRun true tb top (x.take k)).evs <+: (marshalRun true tb top x).evs := by
  rw [evs_trace tb top hs, evs_trace tb top hs]
  by_cases hk : k < consumed tb top x
  · obtain ⟨t, h0, h1, h2, h3⟩ := truncated_walker tb top hs x k hk
    have : traceOf tb top (x.take k) = (traceOf tb top x).filter fun ke => ke.1 ≤ k := by
      simp only [traceOf, h0, stOf, h3]
    rw [this]
    obtain ⟨new, off, a1, a2, a3, a4, a5⟩ := runWalker_acct tb top x
    have hn : traceOf tb top x = new := by simpa [initSt, traceOf] using a1
    rw [hn]
    exact List.IsPrefix.map _ (stamped_filter_prefix k a4)
  · have hk' : consumed tb top x ≤ k := by omega
    have := truncated_beyond tb top hs x k hk'
    have ht : traceOf tb top (x.take k) = traceOf tb top x := by
      simp only [traceOf, this]
      cases runWalker true tb top x with
      | ok a => rfl
      | error e => rfl
    rw [ht]
    exact List.prefix_refl _
