import TpmProofs.Trace
/-!
# Truncation: what the strict walker does on a prefix of an input (any input, any layout)

`TRB k s r r'`: `r` is the result of some step from state `s`, `r'` the result of the same step from `s` with its
input cut to its first `k` bytes.  If the step consumed at most `k` bytes, nothing differs (except that the
remaining input is cut accordingly); if it consumed more, the run on the prefix ends with `depleted` after
consuming all `k` bytes, having emitted exactly the events the full run emitted up to that byte count.

This is the common core of C05 (truncated inputs) and of the prefix-stability half of C10.
-/

def cutSt (k : Nat) (s : St) : St := { s with inp := s.inp.take k }

@[simp] theorem cutSt_pos (k : Nat) (s : St) : (cutSt k s).pos = s.pos := rfl
@[simp] theorem cutSt_out (k : Nat) (s : St) : (cutSt k s).out = s.out := rfl
@[simp] theorem cutSt_scs (k : Nat) (s : St) : (cutSt k s).scs = s.scs := rfl
@[simp] theorem cutSt_inp (k : Nat) (s : St) : (cutSt k s).inp = s.inp.take k := rfl

def R.mapSt {α : Type} (f : St → St) : R α → R α
  | .ok (a, s) => .ok (a, f s)
  | .error (e, s) => .error (e, f s)

/-- consumed by the step -/
def used {α : Type} (s : St) (r : R α) : Nat := (stOf r).pos - s.pos

def TRB {α : Type} (k : Nat) (s : St) (r r' : R α) : Prop :=
  ∃ new : List (Nat × Event),
    (stOf r).out = s.out ++ new ∧ s.pos ≤ (stOf r).pos ∧
    (∀ ke ∈ new, s.pos ≤ ke.1 ∧ ke.1 ≤ (stOf r).pos) ∧
    (used s r ≤ k → r' = r.mapSt (cutSt (k - used s r))) ∧
    (k < used s r → ∃ t, r' = .error (.depleted, t) ∧ t.inp = [] ∧ t.pos = s.pos + k ∧
      t.out = s.out ++ new.filter (fun ke => ke.1 ≤ s.pos + k))

/-- a step that consumes nothing and emits nothing, and does the same whatever the input is -/
theorem TRB.quiet {α : Type} {k : Nat} {s : St} {r r' : R α} (hp : (stOf r).pos = s.pos) (ho : (stOf r).out = s.out)
    (h : r' = r.mapSt (cutSt k)) : TRB k s r r' := by
  have hu : used s r = 0 := by simp [used, hp]
  refine ⟨[], ?_, ?_, ?_, ?_, ?_⟩
  · simp [ho]
  · omega
  · intro ke hke; cases hke
  · intro _; rw [hu, h]; rfl
  · intro hlt; omega

theorem TRB.ok {α : Type} (k : Nat) (s : St) (a : α) : TRB k s (.ok (a, s) : R α) (.ok (a, cutSt k s)) :=
  TRB.quiet rfl rfl rfl

theorem TRB.error {α : Type} (k : Nat) (s : St) (e : Err) : TRB k s (.error (e, s) : R α) (.error (e, cutSt k s)) :=
  TRB.quiet rfl rfl rfl

theorem TRB.crash {α : Type} (k : Nat) (s : St) (c m : String) : TRB k s (crash c m s : R α) (crash c m (cutSt k s)) :=
  TRB.quiet rfl rfl rfl

theorem filter_le_self {new : List (Nat × Event)} {b : Nat} (h : ∀ ke ∈ new, ke.1 ≤ b) :
    new.filter (fun ke => decide (ke.1 ≤ b)) = new := by
  apply List.filter_eq_self.mpr
  intro ke hke
  simpa using h ke hke

theorem filter_le_nil {new : List (Nat × Event)} {b : Nat} (h : ∀ ke ∈ new, b < ke.1) :
    new.filter (fun ke => decide (ke.1 ≤ b)) = [] := by
  apply List.filter_eq_nil_iff.mpr
  intro ke hke
  have := h ke hke
  simp only [decide_eq_true_eq]; omega

theorem TRB.bind {α β : Type} {k : Nat} {s : St} {r r' : R α} {g : α → St → R β} (h : TRB k s r r')
    (hg : ∀ a t, r = .ok (a, t) → ∀ k', TRB k' t (g a t) (g a (cutSt k' t))) :
    TRB k s (r.bind g) (r'.bind g) := by
  obtain ⟨new, ho, hp, hst, hle, hlt⟩ := h
  cases r with
  | error e =>
    obtain ⟨e, t⟩ := e
    refine ⟨new, ho, hp, hst, ?_, ?_⟩
    · intro hu
      rw [hle hu]
      rfl
    · intro hu
      obtain ⟨t', h0, h1, h2, h3⟩ := hlt hu
      exact ⟨t', by rw [h0]; rfl, h1, h2, h3⟩
  | ok at' =>
    obtain ⟨a, t⟩ := at'
    have ho' : t.out = s.out ++ new := ho
    have hp' : s.pos ≤ t.pos := hp
    have hst' : ∀ ke ∈ new, s.pos ≤ ke.1 ∧ ke.1 ≤ t.pos := hst
    have hused : used s (.ok (a, t) : R α) = t.pos - s.pos := rfl
    rw [hused] at hle hlt
    clear ho hp hst hused
    by_cases hc : t.pos - s.pos ≤ k
    · have hr' : r' = .ok (a, cutSt (k - (t.pos - s.pos)) t) := hle hc
      subst hr'
      obtain ⟨new2, go, gp, gst, gle, glt⟩ := hg a t rfl (k - (t.pos - s.pos))
      clear hle hlt hg
      show TRB k s (g a t) (g a (cutSt (k - (t.pos - s.pos)) t))
      generalize g a (cutSt (k - (t.pos - s.pos)) t) = q' at gle glt ⊢
      generalize hq : g a t = q at go gp gst gle glt ⊢
      have hq_used : used s q = (t.pos - s.pos) + used t q := by clear gle glt; simp only [used]; omega
      have hmem : ∀ ke ∈ new ++ new2, s.pos ≤ ke.1 ∧ ke.1 ≤ (stOf q).pos := by
        clear gle glt
        intro ke hke
        simp only [List.mem_append] at hke
        rcases hke with hke | hke
        · have := hst' ke hke; omega
        · have := gst ke hke; omega
      refine ⟨new ++ new2, by rw [go, ho', List.append_assoc], by clear gle glt; omega, hmem, ?_, ?_⟩
      · intro hu
        have hu2 : used t q ≤ k - (t.pos - s.pos) := by clear gle glt; omega
        rw [gle hu2]
        have : k - (t.pos - s.pos) - used t q = k - used s q := by clear gle glt; omega
        rw [this]
      · intro hu
        have hu2 : k - (t.pos - s.pos) < used t q := by clear gle glt; omega
        obtain ⟨t2, h0, h1, h2, h3⟩ := glt hu2
        clear gle glt
        refine ⟨t2, h0, h1, by omega, ?_⟩
        have hb : t.pos + (k - (t.pos - s.pos)) = s.pos + k := by omega
        have hf := filter_le_self (new := new) (b := s.pos + k) (fun ke hke => by have := hst' ke hke; omega)
        rw [h3, ho', List.filter_append, hf, hb, List.append_assoc]
    · have hc' : k < t.pos - s.pos := by omega
      obtain ⟨t', h0, h1, h2, h3⟩ := hlt hc'
      subst h0
      obtain ⟨new2, go, gp, gst, _, _⟩ := hg a t rfl 0
      clear hle hlt hg
      show TRB k s (g a t) (.error (.depleted, t'))
      generalize g a t = q at go gp gst ⊢
      refine ⟨new ++ new2, by rw [go, ho', List.append_assoc], by omega, ?_, ?_, ?_⟩
      · intro ke hke
        simp only [List.mem_append] at hke
        rcases hke with hke | hke
        · have := hst' ke hke; omega
        · have := gst ke hke; omega
      · intro hu; simp only [used] at hu; omega
      · intro _
        refine ⟨t', rfl, h1, h2, ?_⟩
        have hf := filter_le_nil (new := new2) (b := s.pos + k) (fun ke hke => by have := gst ke hke; omega)
        rw [h3, List.filter_append, hf, List.append_nil]

/-! ### changing the start state in ways the relation does not see -/

theorem TRB.of_scs {α : Type} {k : Nat} {s : St} (scs : List SC) {r r' : R α} (h : TRB k { s with scs := scs } r r') :
    TRB k s r r' := h

theorem TRB.of_emit {α : Type} {k : Nat} {s : St} (e : Event) {r r' : R α} (h : TRB k (emit e s) r r') :
    TRB k s r r' := by
  obtain ⟨new, ho, hp, hst, hle, hlt⟩ := h
  have hpos : (emit e s).pos = s.pos := rfl
  have hout : (emit e s).out = s.out ++ [(s.pos, e)] := rfl
  have hused : used (emit e s) r = used s r := rfl
  rw [hused] at hle hlt
  rw [hpos] at hp hst hlt
  rw [hout] at ho hlt
  refine ⟨(s.pos, e) :: new, by rw [ho]; simp, hp, ?_, hle, ?_⟩
  · intro ke hke
    simp only [List.mem_cons] at hke
    rcases hke with rfl | hke
    · exact ⟨Nat.le_refl _, hp⟩
    · exact hst ke hke
  · intro hu
    obtain ⟨t, h0, h1, h2, h3⟩ := hlt hu
    refine ⟨t, h0, h1, h2, ?_⟩
    rw [h3]
    simp [List.filter_cons]

theorem cutSt_emit (k : Nat) (e : Event) (s : St) : emit e (cutSt k s) = cutSt k (emit e s) := rfl
theorem cutSt_emitM (k : Nat) (e : MEvent) (s : St) : emitM e (cutSt k s) = cutSt k (emitM e s) := rfl

/-- finishing with one more event -/
theorem TRB.ok_emit {α : Type} (k : Nat) (s : St) (a : α) (e : Event) :
    TRB k s (.ok (a, emit e s) : R α) (.ok (a, emit e (cutSt k s))) :=
  TRB.of_emit e (TRB.ok k (emit e s) a)

/-! ### the only step that looks at the input -/

theorem take_tr (n : Nat) (s : St) (k : Nat) : TRB k s (take n s) (take n (cutSt k s)) := by
  unfold take
  simp only [cutSt_inp, cutSt_pos, List.length_take]
  by_cases hlen : s.inp.length < n
  · -- the full input is too short as well
    simp only [hlen, if_true]
    have h1 : min k s.inp.length < n := by omega
    simp only [h1, if_true]
    refine ⟨[], ?_, ?_, ?_, ?_, ?_⟩
    · simp [stOf]
    · simp [stOf]
    · intro ke hke; cases hke
    · intro hu
      simp only [used, stOf] at hu
      have hk : s.inp.length ≤ k := by omega
      simp only [R.mapSt, used, stOf, cutSt, Nat.min_eq_right hk, List.take_nil]
    · intro hu
      simp only [used, stOf] at hu
      have hk : k < s.inp.length := by omega
      exact ⟨_, rfl, rfl, by simp only []; omega, by simp [cutSt]⟩
  · simp only [hlen, if_false]
    refine ⟨[], ?_, ?_, ?_, ?_, ?_⟩
    · simp [stOf]
    · simp [stOf]
    · intro ke hke; cases hke
    · intro hu
      simp only [used, stOf] at hu
      have hk : n ≤ k := by omega
      have h1 : ¬ min k s.inp.length < n := by omega
      simp only [h1, if_false, R.mapSt, used, stOf]
      have e1 : (s.inp.take k).take n = s.inp.take n := by rw [List.take_take, Nat.min_eq_left hk]
      have e2 : (s.inp.take k).drop n = (s.inp.drop n).take (k - n) := by rw [List.drop_take]
      have e3 : s.pos + n - s.pos = n := by omega
      simp only [e1, e2, e3, cutSt]
    · intro hu
      simp only [used, stOf] at hu
      have hk : k < n := by omega
      have h1 : min k s.inp.length < n := by omega
      simp only [h1, if_true]
      exact ⟨_, rfl, rfl, by simp only []; omega, by simp [cutSt]⟩

theorem consume_tr (n : Nat) (s : St) (k : Nat) : TRB k s (consume n s) (consume n (cutSt k s)) := by
  unfold consume
  exact (take_tr n s k).bind fun _ t _ k' => TRB.ok k' t ()

/-! ### constraint bookkeeping (never looks at the input) -/

theorem bpGo_tr (path : Path) (size : Nat) : ∀ (todo done : List SC) (s : St) (k : Nat),
    TRB k s (bpGo path size done todo s) (bpGo path size done todo (cutSt k s)) := by
  intro todo
  induction todo with
  | nil => intro done s k; exact TRB.quiet rfl rfl rfl
  | cons c rest ih =>
    intro done s k
    unfold bpGo
    split
    · exact TRB.of_scs _ ((consume_tr _ _ k).bind fun _ t _ k' => TRB.error k' t _)
    · exact ih _ _ _

theorem bytesParsed_tr (path : Path) (size : Nat) (s : St) (k : Nat) :
    TRB k s (bytesParsed path size s) (bytesParsed path size (cutSt k s)) :=
  bpGo_tr path size s.scs [] s k

theorem readPrim_tr (p : Prim) (path : Path) (s : St) (k : Nat) :
    TRB k s (readPrim true p path s) (readPrim true p path (cutSt k s)) := by
  unfold readPrim
  refine (bytesParsed_tr path p.size s k).bind fun _ t _ k' => ?_
  refine (take_tr p.size t k').bind fun bs t2 _ k2 => ?_
  simp only []
  split
  · exact TRB.ok_emit k2 t2 _ _
  · simp only [if_true]
    exact TRB.error k2 t2 _

theorem anticipateM_tr (vpath : Path) (v id : Nat) (s : St) (k : Nat) :
    TRB k s (anticipateM true vpath v id s) (anticipateM true vpath v id (cutSt k s)) := by
  unfold anticipateM
  simp only [cutSt_scs]
  split
  · exact TRB.ok k s _
  · simp only [if_true]; exact TRB.error k s _

theorem openRegion_tr (id : Nat) (cpath : Path) (n : Nat) (s : St) (k : Nat) :
    TRB k s (openRegion true id cpath n s) (openRegion true id cpath n (cutSt k s)) := by
  unfold openRegion
  exact (anticipateM_tr cpath n id s k).bind fun _ t _ k' => TRB.quiet rfl rfl rfl

theorem setListed_tr (id : Nat) (cpath : Path) (n : Nat) (s : St) (k : Nat) :
    TRB k s (setListed true id cpath n s) (setListed true id cpath n (cutSt k s)) := by
  unfold setListed
  exact TRB.of_scs _ (anticipateM_tr cpath n id _ k)

theorem assertDoneSC_tr (c : SC) (s : St) (k : Nat) :
    TRB k s (assertDoneSC true c s) (assertDoneSC true c (cutSt k s)) := by
  unfold assertDoneSC
  split
  · exact TRB.crash k s _ _
  · split
    · exact TRB.ok k s _
    · simp only [if_true]; exact TRB.error k s _

theorem assertDone_tr (id : Nat) (s : St) (k : Nat) :
    TRB k s (assertDone true id s) (assertDone true id (cutSt k s)) := by
  unfold assertDone
  simp only [cutSt_scs]
  split
  · exact TRB.crash k s _ _
  · exact TRB.of_scs _ (assertDoneSC_tr _ _ k)

/-! ### lists and fields -/

theorem repeatDec_tr (f : Path → St → R Val) (hf : ∀ p s k, TRB k s (f p s) (f p (cutSt k s))) (path : Path) :
    ∀ (n i : Nat) (s : St) (k : Nat), TRB k s (repeatDec f path n i s) (repeatDec f path n i (cutSt k s)) := by
  intro n
  induction n with
  | zero => intro i s k; exact TRB.ok k s _
  | succ m ih =>
    intro i s k
    unfold repeatDec
    exact (hf _ s k).bind fun v t _ k' => (ih (i+1) t k').bind fun vs t2 _ k2 => TRB.ok k2 t2 _

theorem readPrimList_tr (p : Prim) (path : Path) (n : Nat) (s : St) (k : Nat) :
    TRB k s (readPrimList true p path n s) (readPrimList true p path n (cutSt k s)) := by
  unfold readPrimList
  apply TRB.of_emit (.marshal ⟨path, .listOf p.name, none, "", 0⟩)
  exact (repeatDec_tr _ (fun q s k => readPrim_tr p q s k) path n 0 _ k).bind fun vs t _ k' => TRB.ok k' t _

theorem readListArm_tr (elem : Prim) (n : Option Nat) (path : Path) (s : St) (k : Nat) :
    TRB k s (readListArm true elem n path s) (readListArm true elem n path (cutSt k s)) := by
  unfold readListArm
  cases n with
  | none => exact TRB.crash k s _ _
  | some c => exact readPrimList_tr elem path c s k

theorem ownCatch_true (id : Nat) (r : R Val) (g : Val → St → R Val) : ownCatch true id r g = r.bind g := by
  unfold ownCatch
  cases r with
  | error e => obtain ⟨e, s⟩ := e; cases e <;> simp [R.bind]
  | ok v => obtain ⟨v, s⟩ := v; simp [R.bind]

theorem fieldWith_tr (d : Path → Option Int → St → R Val) (hd : ∀ p sel s k, TRB k s (d p sel s) (d p sel (cutSt k s)))
    (tname : String) (kind : FKind) (fpath : Path) (vals : List (String × Val)) (s : St) (k : Nat) :
    TRB k s (decodeFieldWith d tname kind fpath vals s) (decodeFieldWith d tname kind fpath vals (cutSt k s)) := by
  cases kind with
  | plain => exact hd _ _ _ _
  | selected sel =>
    simp only [decodeFieldWith]
    split
    · exact TRB.crash k s _ _
    · exact hd _ _ _ _
  | counted =>
    simp only [decodeFieldWith]
    split
    · exact TRB.crash k s _ _
    · apply TRB.of_emit (.marshal ⟨fpath, .listOf tname, none, "", 0⟩)
      exact (repeatDec_tr _ (fun p s k => hd p none s k) fpath _ 0 _ k).bind fun vs t _ k' => TRB.ok k' t _

/-! ### the walkers -/

mutual
theorem decode_tr : (t : Ty) → ∀ (path : Path) (sel : Option Int) (s : St) (k : Nat),
    TRB k s (decode true t path sel s) (decode true t path sel (cutSt k s))
  | .prim p, path, sel, s, k => by simp only [decode]; exact readPrim_tr p path s k
  | .struct name isP fs, path, sel, s, k => by
    simp only [decode]
    apply TRB.of_emit (.marshal ⟨path, .named name false, none, "", 0⟩)
    exact (fields_tr fs path [] _ k).bind fun vals t _ k' => TRB.ok k' t _
  | .tpm2bBytes name szName szP bufName elem, path, sel, s, k => by
    simp only [decode]
    apply TRB.of_emit (.marshal ⟨path, .named name false, none, "", 0⟩)
    refine (readPrim_tr szP _ _ k).bind fun nv s1 _ k1 => ?_
    simp only [cutSt_pos]
    split
    · exact TRB.crash k1 s1 _ _
    · refine (openRegion_tr _ _ _ s1 k1).bind fun _ s2 _ k2 => ?_
      refine (readPrimList_tr elem _ _ s2 k2).bind fun bv s3 _ k3 => ?_
      exact (assertDone_tr _ s3 k3).bind fun _ s4 _ k4 => TRB.ok k4 s4 _
  | .tpm2b name szName szP bufName body, path, sel, s, k => by
    simp only [decode, ownCatch_true]
    apply TRB.of_emit (.marshal ⟨path, .named name false, none, "", 0⟩)
    refine (readPrim_tr szP _ _ k).bind fun nv s1 _ k1 => ?_
    simp only [cutSt_pos]
    split
    · exact TRB.crash k1 s1 _ _
    · refine (openRegion_tr _ _ _ s1 k1).bind fun _ s2 _ k2 => ?_
      split
      · apply TRB.of_emit (.marshal ⟨_, body.eventTag, none, "", 0⟩)
        exact (assertDone_tr _ _ k2).bind fun _ s4 _ k4 => TRB.ok k4 s4 _
      · exact (decode_tr body _ none s2 k2).bind fun bv s3 _ k3 =>
          (assertDone_tr _ s3 k3).bind fun _ s4 _ k4 => TRB.ok k4 s4 _
  | .union name arms, path, sel, s, k => by
    simp only [decode]
    apply TRB.of_emit (.marshal ⟨path, .named name false, none, "", 0⟩)
    split
    · split
      · exact TRB.error k _ _
      · exact TRB.error k _ _
    · exact arm_tr arms name _ path _ k
  | .bad r, path, sel, s, k => by simp only [decode]; exact TRB.crash k s _ _

theorem arm_tr : (arms : Arms) → ∀ (un want : String) (path : Path) (s : St) (k : Nat),
    TRB k s (decodeArm true arms un want path s) (decodeArm true arms un want path (cutSt k s))
  | .nil, un, want, path, s, k => by simp only [decodeArm]; exact TRB.crash k s _ _
  | .consNone an key rest, un, want, path, s, k => by
    simp only [decodeArm]
    split
    · exact TRB.ok k s _
    · exact arm_tr rest un want path s k
  | .cons an key t rest, un, want, path, s, k => by
    simp only [decodeArm]
    split
    · exact (decode_tr t _ none s k).bind fun v t' _ k' => TRB.ok k' t' _
    · exact arm_tr rest un want path s k
  | .consBytes an key elem n rest, un, want, path, s, k => by
    simp only [decodeArm]
    split
    · exact (readListArm_tr elem n _ s k).bind fun v t' _ k' => TRB.ok k' t' _
    · exact arm_tr rest un want path s k

theorem fields_tr : (fs : Fields) → ∀ (path : Path) (vals : List (String × Val)) (s : St) (k : Nat),
    TRB k s (decodeFields true fs path vals s) (decodeFields true fs path vals (cutSt k s))
  | .nil, path, vals, s, k => by simp only [decodeFields]; exact TRB.ok k s _
  | .cons fname kind t rest, path, vals, s, k => by
    simp only [decodeFields]
    exact (fieldWith_tr _ (fun p sel s k => decode_tr t p sel s k) t.name kind _ vals s k).bind fun v t' _ k' =>
      fields_tr rest path _ t' k'
end

/-! ### messages -/

theorem msgCatch_true (id1 id2 : Nat) (name : String) (vals : List (String × Val)) (r : R Val) (g : Val → St → R Val) :
    msgCatch true id1 id2 name vals r g = r.bind g := by
  unfold msgCatch
  cases r with
  | error e => obtain ⟨e, s⟩ := e; cases e <;> simp [R.bind]
  | ok v => obtain ⟨v, s⟩ := v; simp [R.bind]

theorem decodeArea_tr (tb : MsgTables) (enc : Bool) (t : Ty) (path : Path) (s : St) (k : Nat) :
    TRB k s (decodeArea true tb enc t path s) (decodeArea true tb enc t path (cutSt k s)) := by
  unfold decodeArea
  split
  · split
    · exact decode_tr t path none s k
    · apply TRB.of_emit (.marshal ⟨path, .named _ true, none, "", 0⟩)
      exact (fields_tr _ path [] _ k).bind fun vals t' _ k' => TRB.ok k' t' _
  · exact decode_tr t path none s k

theorem sizedLoop_tr (t : Ty) (path : Path) (cid : Nat) : ∀ (fuel i : Nat) (acc : List Val) (s : St) (k : Nat),
    TRB k s (sizedLoop true t path cid fuel i acc s) (sizedLoop true t path cid fuel i acc (cutSt k s)) := by
  intro fuel
  induction fuel with
  | zero => intro i acc s k; exact TRB.crash k s _ _
  | succ n ih =>
    intro i acc s k
    unfold sizedLoop
    simp only [cutSt_scs, ownCatch_true]
    split
    · exact TRB.crash k s _ _
    · split
      · exact TRB.crash k s _ _
      · split
        · exact (decode_tr t _ none s k).bind fun v t' _ k' => ih _ _ t' k'
        · exact (TRB.of_scs _ (assertDoneSC_tr _ _ k)).bind fun _ t' _ k' => TRB.ok k' t' _

theorem decodeSized_tr (t : Ty) (path : Path) (cid : Nat) (s : St) (k : Nat) :
    TRB k s (decodeSized true t path cid s) (decodeSized true t path cid (cutSt k s)) := by
  unfold decodeSized
  apply TRB.of_emit (.marshal ⟨path, .listOf t.name, none, "", 0⟩)
  exact sizedLoop_tr t path cid _ 0 [] _ k

/-- one step of the routine argument for the message walkers -/
macro "tr_step" : tactic => `(tactic| first
  | exact TRB.ok _ _ _ | exact TRB.crash _ _ _ _ | exact TRB.error _ _ _
  | exact readPrim_tr _ _ _ _ | exact decodeArea_tr _ _ _ _ _ _ | exact decodeSized_tr _ _ _ _ _
  | exact assertDone_tr _ _ _ | exact openRegion_tr _ _ _ _ _ | exact setListed_tr _ _ _ _ _
  | (refine TRB.bind ?_ (fun _ _ _ _ => ?_))
  | (simp only [cutSt_scs]; split)
  | split)

theorem decodeCommand_tr (tb : MsgTables) (path : Path) (s0 : St) (k : Nat) :
    TRB k s0 (decodeCommand true tb path s0) (decodeCommand true tb path (cutSt k s0)) := by
  unfold decodeCommand
  simp only [msgCatch_true, cutSt_pos]
  apply TRB.of_scs [⟨s0.pos, [], 0, none⟩]
  apply TRB.of_emit (.marshal ⟨path, .named "Command" false, none, "", 0⟩)
  repeat' tr_step

theorem decodeResponse_tr (tb : MsgTables) (cc : Option Int) (encFlag : Bool) (path : Path) (s0 : St) (k : Nat) :
    TRB k s0 (decodeResponse true tb cc encFlag path s0) (decodeResponse true tb cc encFlag path (cutSt k s0)) := by
  unfold decodeResponse
  simp only [msgCatch_true, cutSt_pos]
  apply TRB.of_scs [⟨s0.pos, [], 0, none⟩]
  apply TRB.of_emit (.marshal ⟨path, .named "Response" false, none, "", 0⟩)
  repeat' tr_step
  all_goals (rename_i h; simp only [h, ↓reduceIte])
  all_goals first | exact TRB.ok _ _ _ | exact TRB.crash _ _ _ _
