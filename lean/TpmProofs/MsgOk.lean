import TpmModel.MsgSpec
import TpmProofs.DecodeOk
/-!
# `decodeCommand_ok`: strict decoding of any well-formed command

For every message table, every command conforming to `specCommand` (any command code in the tables, with or
without sessions, with or without parameter encryption), any continuation, position and trace: the strict walker
returns exactly the command object, leaves exactly the continuation, has emitted exactly the dictated events and
closed every region.
-/

theorem msgCatch_ok (abort : Bool) (id1 id2 : Nat) (name : String) (vals : List (String × Val)) (v : Val) (s : St)
    (k : Val → St → R Val) : msgCatch abort id1 id2 name vals (.ok (v, s)) k = k v s := rfl

theorem ownCatch_ok (abort : Bool) (id : Nat) (v : Val) (s : St) (k : Val → St → R Val) :
    ownCatch abort id (.ok (v, s)) k = k v s := rfl

theorem bump_cons (c : SC) (scs : List SC) (n : Nat) : bump (c :: scs) n = c.bump n :: bump scs n := rfl
@[simp] theorem bump_nil (n : Nat) : bump [] n = [] := rfl

/-- the area of a message, with or without the encrypted first parameter -/
theorem decodeArea_ok (tb : MsgTables) (enc : Bool) (t : Ty) (path : Path) (v : Val) (bs : List Byte) (evs : List SEv)
    (h : specArea tb enc t path v = some (bs, evs)) (rest : List Byte) (pos : Nat) (out : List (Nat × Event)) (scs : List SC)
    (hroom : Room scs bs.length) (hfresh : Fresh scs pos) :
    decodeArea true tb enc t path ⟨bs ++ rest, pos, out, scs⟩ = .ok (v, post rest pos out evs scs bs.length) := by
  unfold specArea at h
  unfold decodeArea
  by_cases hc : (enc && t.isParams) = true
  · simp only [hc, if_true] at h ⊢
    cases henc : encVariant tb.encParam t with
    | none =>
      simp only [henc] at h ⊢
      exact decode_ok t path none v bs evs h rest pos out scs hroom hfresh
    | some nf =>
      obtain ⟨name, fs⟩ := nf
      simp only [henc] at h ⊢
      split at h
      · simp at h
      · rename_i fvs hobj
        obtain rfl := asObj_inv hobj
        cases hf : specFields fs path [] fvs with
        | none => simp [hf] at h
        | some r =>
          obtain ⟨b, e⟩ := r
          simp only [hf, Option.map_some, Option.some.injEq, Prod.mk.injEq] at h
          obtain ⟨rfl, rfl⟩ := h
          have := fields_ok fs path [] fvs b e hf rest pos
            (out ++ [(pos, .marshal ⟨path, .named name true, none, "", 0⟩)]) scs hroom hfresh
          simp only [emitM, emit, this, R.bind_ok, post]
          simp [stamp_cons]
  · have hc' : (enc && t.isParams) = false := by simpa using hc
    simp only [hc', Bool.false_eq_true, if_false] at h ⊢
    exact decode_ok t path none v bs evs h rest pos out scs hroom hfresh

theorem sessSpec_inv {t : Ty} {p : Path} {v : Val} {b : List Byte} {e : List SEv} (h : sessSpec t p v = some (b, e)) :
    spec t p none v = some (b, e) ∧ 0 < b.length := by
  unfold sessSpec at h
  split at h
  · rename_i b' e' hs
    split at h
    · simp at h
    · rename_i hne
      simp only [Option.some.injEq, Prod.mk.injEq] at h
      obtain ⟨rfl, rfl⟩ := h
      refine ⟨hs, ?_⟩
      cases b' with
      | nil => simp at hne
      | cons x xs => simp
  · simp at h

theorem findSC_last (cid : Nat) (pre : List SC) (c : SC) (hc : c.id = cid) (hpre : ∀ d ∈ pre, d.id ≠ cid) :
    findSC cid (pre ++ [c]) = some c := findSC_append_new cid c pre hc hpre

theorem removeSC_last (cid : Nat) (pre : List SC) (c : SC) (hc : c.id = cid) (hpre : ∀ d ∈ pre, d.id ≠ cid) :
    removeSC cid (pre ++ [c]) = pre := removeSC_append_new cid c pre hc hpre

theorem bump_ids {pre : List SC} {cid n : Nat} (h : ∀ d ∈ pre, d.id ≠ cid) : ∀ d ∈ bump pre n, d.id ≠ cid := by
  intro d hd
  simp only [bump, List.mem_map] at hd
  obtain ⟨d0, hd0, rfl⟩ := hd
  exact h d0 hd0

/-- the byte-sized session loop: runs exactly over the sessions, then closes its region -/
theorem sizedLoop_ok (t : Ty) (path : Path) (cid : Nat) (m : Nat) :
    ∀ (vs : List Val) (i : Nat) (bs : List Byte) (evs : List SEv) (acc : List Val) (pre : List SC) (c : SC),
    specRepeat (sessSpec t) path vs i = some (bs, evs) → c.id = cid → c.max = some m → (∀ d ∈ pre, d.id ≠ cid) →
    ∀ (rest : List Byte) (pos : Nat) (out : List (Nat × Event)) (fuel : Nat), vs.length < fuel →
    c.already + bs.length = m → Room pre bs.length → Fresh (pre ++ [c]) pos →
    sizedLoop true t path cid fuel i acc ⟨bs ++ rest, pos, out, pre ++ [c]⟩ =
      .ok (.list (acc ++ vs), ⟨rest, pos + bs.length, out ++ stamp pos evs, bump pre bs.length⟩) := by
  intro vs
  induction vs with
  | nil =>
    intro i bs evs acc pre c h hc hm hpre rest pos out fuel hfuel hlen hroom hfresh
    simp only [specRepeat, Option.some.injEq, Prod.mk.injEq] at h
    obtain ⟨rfl, rfl⟩ := h
    cases fuel with
    | zero => simp at hfuel
    | succ n =>
      simp only [List.length_nil, Nat.add_zero] at hlen
      simp [sizedLoop, findSC_last cid pre c hc hpre, hm, hlen, removeSC_last cid pre c hc hpre, assertDoneSC]
  | cons v vs ih =>
    intro i bs evs acc pre c h hc hm hpre rest pos out fuel hfuel hlen hroom hfresh
    simp only [specRepeat] at h
    split at h
    · simp at h
    · rename_i b e hb
      split at h
      · simp at h
      · rename_i bs' es' hrest
        simp only [Option.some.injEq, Prod.mk.injEq] at h
        obtain ⟨rfl, rfl⟩ := h
        obtain ⟨hspec, hbpos⟩ := sessSpec_inv hb
        cases fuel with
        | zero => simp at hfuel
        | succ n =>
          simp only [List.length_append] at hlen hroom
          have hlt : c.already < m := by omega
          have hroomAll : Room (pre ++ [c]) b.length := by
            intro d hd mm hmm
            simp only [List.mem_append, List.mem_singleton] at hd
            rcases hd with hd | rfl
            · have := hroom d hd mm hmm; omega
            · rw [hm] at hmm; simp only [Option.some.injEq] at hmm; omega
          have hdec := decode_ok t (elemPath path i) none v b e hspec (bs' ++ rest) pos out (pre ++ [c]) hroomAll hfresh
          simp only [sizedLoop, findSC_last cid pre c hc hpre, hm, hlt, if_true, List.append_assoc, hdec, post, ownCatch_ok,
            bump_append]
          have hfresh' : Fresh (bump pre b.length ++ [c.bump b.length]) (pos + b.length) := by
            have := fresh_bump (k := b.length) hfresh
            simpa [bump_append] using this
          have := ih (i + 1) bs' es' (acc ++ [v]) (bump pre b.length) (c.bump b.length) hrest (by simpa [SC.bump] using hc)
            (by simpa [SC.bump] using hm) (bump_ids hpre) rest (pos + b.length) (out ++ stamp pos e) n
            (by simp at hfuel; omega) (by simp only [SC.bump]; omega) (room_bump (by simpa using hroom)) hfresh'
          rw [this]
          simp [bump_bump, stamp_append, stamp_shift, Nat.add_assoc, List.append_assoc]

theorem decodeSized_ok (t : Ty) (path : Path) (cid : Nat) (m : Nat) (v : Val) (bs : List Byte) (evs : List SEv)
    (h : specSessions t path v = some (bs, evs)) (pre : List SC) (c : SC) (hc : c.id = cid) (hm : c.max = some m)
    (hpre : ∀ d ∈ pre, d.id ≠ cid) (rest : List Byte) (pos : Nat) (out : List (Nat × Event))
    (hlen : c.already + bs.length = m) (hroom : Room pre bs.length) (hfresh : Fresh (pre ++ [c]) pos) :
    decodeSized true t path cid ⟨bs ++ rest, pos, out, pre ++ [c]⟩ =
      .ok (v, ⟨rest, pos + bs.length, out ++ stamp pos evs, bump pre bs.length⟩) := by
  unfold specSessions at h
  split at h
  · simp at h
  · rename_i vs hvs
    obtain rfl := asList_inv hvs
    cases hrep : specRepeat (sessSpec t) path vs 0 with
    | none => simp [hrep] at h
    | some r =>
      obtain ⟨b, e⟩ := r
      simp only [hrep, Option.map_some, Option.some.injEq, Prod.mk.injEq] at h
      obtain ⟨rfl, rfl⟩ := h
      unfold decodeSized
      simp only [emitM, emit]
      -- fuel: input length + 2 exceeds the number of sessions, each of which is non-empty
      have hcount : vs.length ≤ b.length := specRepeat_count t path vs 0 b e hrep
      have hfuel : sizedFuel cid (pre ++ [c]) = b.length + 2 := by
        simp only [sizedFuel, findSC_last cid pre c hc hpre, hm, Option.getD_some]; omega
      rw [hfuel]
      have := sizedLoop_ok t path cid m vs 0 b e [] pre c hrep hc hm hpre rest pos
        (out ++ [(pos, .marshal ⟨path, .listOf t.name, none, "", 0⟩)]) (b.length + 2)
        (by omega) hlen hroom hfresh
      simp only [List.nil_append] at this
      rw [this]
      simp [stamp_cons]
where
  specRepeat_count (t : Ty) (path : Path) : ∀ (vs : List Val) (i : Nat) (b : List Byte) (e : List SEv),
      specRepeat (sessSpec t) path vs i = some (b, e) → vs.length ≤ b.length := by
    intro vs
    induction vs with
    | nil => intro i b e _; simp
    | cons v vs ih =>
      intro i b e h
      simp only [specRepeat] at h
      split at h
      · simp at h
      · rename_i b1 e1 hb
        split at h
        · simp at h
        · rename_i b2 e2 hrest
          simp only [Option.some.injEq, Prod.mk.injEq] at h
          obtain ⟨rfl, _⟩ := h
          have := (sessSpec_inv hb).2
          have := ih _ _ _ hrest
          simp only [List.length_cons, List.length_append]; omega

/-! ## the command -/

theorem room_none (id : Nat) (path : Path) (a n : Nat) : Room [⟨id, path, a, none⟩] n := by
  intro d hd m hm
  simp only [List.mem_singleton] at hd
  subst hd; simp at hm

theorem room_some (id : Nat) (path : Path) (a n m : Nat) (h : a + n ≤ m) : Room [⟨id, path, a, some m⟩] n := by
  intro d hd m' hm
  simp only [List.mem_singleton] at hd
  subst hd; simp at hm; subst hm; exact h

theorem fresh_mk (id : Nat) (path : Path) (a : Nat) (mx : Option Nat) (pos : Nat) (h : id ≤ pos) :
    Fresh [⟨id, path, a, mx⟩] pos := by
  intro d hd
  simp only [List.mem_singleton] at hd
  subst hd; exact h

theorem setListed_single (id : Nat) (cpath p0 : Path) (a n : Nat) (inp : List Byte) (pos : Nat) (out : List (Nat × Event)) :
    setListed true id cpath n ⟨inp, pos, out, [⟨id, p0, a, none⟩]⟩ = .ok ((), ⟨inp, pos, out, [⟨id, cpath, a, some n⟩]⟩) := by
  simp [setListed, anticipateM, anticipate]

theorem assertDone_single (id : Nat) (cpath : Path) (n : Nat) (inp : List Byte) (pos : Nat) (out : List (Nat × Event)) :
    assertDone true id ⟨inp, pos, out, [⟨id, cpath, n, some n⟩]⟩ = .ok ((), ⟨inp, pos, out, []⟩) := by
  have := assertDone_ok id cpath n inp pos out [] (by intro d hd; cases hd)
  simpa using this

theorem assertDone_single' (id : Nat) (cpath : Path) (a m : Nat) (inp : List Byte) (pos : Nat) (out : List (Nat × Event))
    (h : a = m) : assertDone true id ⟨inp, pos, out, [⟨id, cpath, a, some m⟩]⟩ = .ok ((), ⟨inp, pos, out, []⟩) := by
  subst h; exact assertDone_single id cpath a inp pos out

theorem specPrim_vInt {p : Prim} {path : Path} {v : Val} {bs : List Byte} {evs : List SEv}
    (h : specPrim p path v = some (bs, evs)) : ∃ x, v = .int p.name x ∧ vInt v = some x := by
  obtain ⟨x, rfl, _⟩ := specPrim_inv h
  exact ⟨x, rfl, rfl⟩

theorem decodeCommand_ok (tb : MsgTables) (path : Path) (p : CmdParts) (bs : List Byte) (evs : List SEv)
    (htb : 0 < tb.tagCmd.size)
    (h : specCommand tb path p = some (bs, evs)) (rest : List Byte) (pos : Nat) (out : List (Nat × Event)) (scs0 : List SC) :
    decodeCommand true tb path ⟨bs ++ rest, pos, out, scs0⟩ =
      .ok (p.toVal, ⟨rest, pos + bs.length, out ++ stamp pos evs, []⟩) := by
  unfold specCommand at h
  split at h
  · rename_i b1 e1 b2 e2 b3 e3 h1 h2 h3
    simp only [] at h
    split at h
    · rename_i hty pty hh hp
      split at h
      · rename_i b4 e4 b5 e5 enc h4 h5
        split at h
        · rename_i b6 e6 h6
          split at h
          · rename_i hsize
            simp only [Option.some.injEq, Prod.mk.injEq] at h
            obtain ⟨rfl, rfl⟩ := h
            obtain ⟨xt, htag, htagI⟩ := specPrim_vInt h1
            obtain ⟨xs, hcsz, hcszI⟩ := specPrim_vInt h2
            obtain ⟨xc, hccv, hccI⟩ := specPrim_vInt h3
            have l1 := specPrim_length h1
            have l2 := specPrim_length h2
            have l3 := specPrim_length h3
            -- total length
            have htot : xs = ((b1 ++ (b2 ++ (b3 ++ (b4 ++ (b5 ++ b6))))).length : Int) := by
              rw [hcszI] at hsize; simpa using hsize
            have hxs0 : ¬ xs < 0 := by rw [htot]; omega
            have hxsN : xs.toNat = (b1 ++ (b2 ++ (b3 ++ (b4 ++ (b5 ++ b6))))).length := by rw [htot]; omega
            simp only [List.length_append] at hxsN
            unfold decodeCommand
            simp only [emitM, emit, List.append_assoc]
            -- tag
            rw [readPrim_spec h1 _ pos _ [⟨pos, [], 0, none⟩] (room_none _ _ _ _)]
            simp only [msgCatch_ok, post, bump_cons, bump_nil, SC.bump, Nat.zero_add]
            -- commandSize
            rw [readPrim_spec h2 _ _ _ [⟨pos, [], b1.length, none⟩] (room_none _ _ _ _)]
            simp only [msgCatch_ok, post, bump_cons, bump_nil, SC.bump, hcszI, hxs0, if_false]
            rw [setListed_single]
            simp only [R.bind_ok, hxsN]
            -- commandCode
            rw [readPrim_spec h3 _ _ _ _ (room_some _ _ _ _ _ (by omega))]
            simp only [msgCatch_ok, post, bump_cons, bump_nil, SC.bump, hccI, Option.getD_some]
            simp only [hccI, Option.getD_some] at hh hp
            simp only [hh, hp]
            -- handles
            have hA : ∀ s, decodeArea true tb false hty (path ++ [⟨"handles", none⟩]) s = decode true hty (path ++ [⟨"handles", none⟩]) none s := by
              intro s; simp [decodeArea]
            rw [hA]
            rw [decode_ok hty _ none p.hv b4 e4 h4 _ _ _ _ (room_some _ _ _ _ _ (by omega))
              (fresh_mk _ _ _ _ _ (by omega))]
            simp only [msgCatch_ok, post, bump_cons, bump_nil, SC.bump]
            -- sessions
            unfold specCmdAuth at h5
            split at h5
            · -- no sessions
              rename_i hsess hauth
              simp only [Option.some.injEq, Prod.mk.injEq] at h5
              obtain ⟨rfl, rfl, rfl⟩ := h5
              have hs : (vInt p.tag == some tb.sessionsTag) = false := hsess
              simp only [hs, Bool.false_eq_true, if_false, List.nil_append, List.length_nil] at hxsN ⊢
              rw [decodeArea_ok tb false pty _ p.pv b6 e6 h6 rest _ _ _ (room_some _ _ _ _ _ (by omega))
                (fresh_mk _ _ _ _ _ (by omega))]
              simp only [msgCatch_ok, post, bump_cons, bump_nil, SC.bump]
              rw [assertDone_single' _ _ _ _ _ _ _ (by omega)]
              simp only [R.bind_ok, CmdParts.toVal, hauth]
              simp [stamp_cons, stamp_append, stamp_shift, Nat.add_assoc, List.append_assoc]
            · -- sessions
              rename_i asz area hsess hauth
              split at h5
              · rename_i ba ea bsess es enc' ha hs hflag
                split at h5
                · rename_i hasz
                  simp only [Option.some.injEq, Prod.mk.injEq] at h5
                  obtain ⟨rfl, rfl, rfl⟩ := h5
                  have hs' : (vInt p.tag == some tb.sessionsTag) = true := hsess
                  obtain ⟨xa, haszv, haszI⟩ := specPrim_vInt ha
                  have la := specPrim_length ha
                  have hxa : xa = (bsess.length : Int) := by rw [haszI] at hasz; simpa using hasz
                  have hxa0 : ¬ xa < 0 := by rw [hxa]; omega
                  have hxaN : xa.toNat = bsess.length := by rw [hxa]; simp
                  simp only [List.length_append] at hxsN ⊢
                  simp only [hs', if_true, List.append_assoc]
                  rw [readPrim_spec ha _ _ _ _ (room_some _ _ _ _ _ (by omega))]
                  simp only [msgCatch_ok, post, bump_cons, bump_nil, SC.bump, haszI, hxa0, if_false, hxaN]
                  rw [openRegion_ok _ _ _ _ _ _ _ (room_some _ _ _ _ _ (by omega))]
                  simp only [R.bind_ok]
                  have := decodeSized_ok tb.authCmd (path ++ [⟨"authorizationArea", none⟩]) (pos + 1) bsess.length area bsess es hs
                    [⟨pos, path ++ [⟨"commandSize", none⟩], b1.length + b2.length + b3.length + b4.length + ba.length,
                      some (b1.length + (b2.length + (b3.length + (b4.length + (ba.length + bsess.length + b6.length)))))⟩]
                    ⟨pos + 1, path ++ [⟨"authSize", none⟩], 0, some bsess.length⟩ rfl rfl
                    (by intro d hd; simp only [List.mem_singleton] at hd; subst hd; simp)
                    (b6 ++ rest) (pos + b1.length + b2.length + b3.length + b4.length + ba.length)
                  rw [this _ (by simp) (room_some _ _ _ _ _ (by omega))
                    (by intro d hd; simp only [List.mem_append, List.mem_singleton] at hd
                        rcases hd with rfl | rfl <;> simp <;> omega)]
                  simp only [msgCatch_ok, hflag, bump_cons, bump_nil, SC.bump]
                  rw [decodeArea_ok tb enc' pty _ p.pv b6 e6 h6 rest _ _ _ (room_some _ _ _ _ _ (by omega))
                    (fresh_mk _ _ _ _ _ (by omega))]
                  simp only [msgCatch_ok, post, bump_cons, bump_nil, SC.bump]
                  rw [assertDone_single' _ _ _ _ _ _ _ (by omega)]
                  simp only [R.bind_ok, CmdParts.toVal, hauth]
                  simp [stamp_cons, stamp_append, stamp_shift, Nat.add_assoc, List.append_assoc]
                · simp at h5
              · simp at h5
            · simp at h5
          · simp at h
        · simp at h
      · simp at h
    · simp at h
  · simp at h

/-! ## the response -/

theorem shift_nil (k : Nat) : shift k [] = [] := rfl

theorem room_two (c1 c2 : SC) (n : Nat) (h1 : ∀ m, c1.max = some m → c1.already + n ≤ m)
    (h2 : ∀ m, c2.max = some m → c2.already + n ≤ m) : Room ([c1] ++ [c2]) n := by
  intro d hd m hm
  simp only [List.mem_append, List.mem_singleton] at hd
  rcases hd with rfl | rfl
  · exact h1 m hm
  · exact h2 m hm

theorem fresh_two (c1 c2 : SC) (pos : Nat) (h1 : c1.id ≤ pos) (h2 : c2.id ≤ pos) : Fresh ([c1] ++ [c2]) pos := by
  intro d hd
  simp only [List.mem_append, List.mem_singleton] at hd
  rcases hd with rfl | rfl
  · exact h1
  · exact h2

theorem decodeResponse_ok (tb : MsgTables) (cc : Option Int) (enc : Bool) (path : Path) (p : RspParts)
    (bs : List Byte) (evs : List SEv) (htb : 0 < tb.tagRsp.size)
    (h : specResponse tb cc enc path p = some (bs, evs)) (rest : List Byte) (pos : Nat) (out : List (Nat × Event)) (scs0 : List SC) :
    decodeResponse true tb cc enc path ⟨bs ++ rest, pos, out, scs0⟩ =
      .ok (p.toVal, ⟨rest, pos + bs.length, out ++ stamp pos evs, []⟩) := by
  unfold specResponse at h
  split at h
  · rename_i b1 e1 b2 e2 b3 e3 h1 h2 h3
    simp only [] at h
    split at h
    · rename_i br er hrest
      split at h
      · rename_i hsize
        simp only [Option.some.injEq, Prod.mk.injEq] at h
        obtain ⟨rfl, rfl⟩ := h
        obtain ⟨xt, htag, htagI⟩ := specPrim_vInt h1
        obtain ⟨xs, hcsz, hcszI⟩ := specPrim_vInt h2
        obtain ⟨xc, hccv, hccI⟩ := specPrim_vInt h3
        have l1 := specPrim_length h1
        have l2 := specPrim_length h2
        have l3 := specPrim_length h3
        have htot : xs = ((b1 ++ (b2 ++ (b3 ++ br))).length : Int) := by
          rw [hcszI] at hsize; simpa using hsize
        have hxs0 : ¬ xs < 0 := by rw [htot]; omega
        have hxsN : xs.toNat = (b1 ++ (b2 ++ (b3 ++ br))).length := by rw [htot]; omega
        simp only [List.length_append] at hxsN
        unfold decodeResponse
        simp only [emitM, emit, List.append_assoc]
        rw [readPrim_spec h1 _ pos _ [⟨pos, [], 0, none⟩] (room_none _ _ _ _)]
        simp only [msgCatch_ok, post, bump_cons, bump_nil, SC.bump, Nat.zero_add]
        rw [readPrim_spec h2 _ _ _ [⟨pos, [], b1.length, none⟩] (room_none _ _ _ _)]
        simp only [msgCatch_ok, post, bump_cons, bump_nil, SC.bump, hcszI, hxs0, if_false]
        rw [setListed_single]
        simp only [R.bind_ok, hxsN]
        rw [readPrim_spec h3 _ _ _ _ (room_some _ _ _ _ _ (by omega))]
        simp only [msgCatch_ok, post, bump_cons, bump_nil, SC.bump]
        by_cases hrc : (vInt p.rcv != some tb.rcSuccess) = true
        · -- error response: header only
          simp only [hrc, if_true] at hrest ⊢
          split at hrest
          · rename_i hbody
            simp only [Option.some.injEq, Prod.mk.injEq] at hrest
            obtain ⟨rfl, rfl⟩ := hrest
            simp only [List.append_nil, List.length_nil, Nat.add_zero] at hxsN ⊢
            rw [assertDone_single' _ _ _ _ _ _ _ (by omega)]
            simp only [R.bind_ok, List.isEmpty_nil, if_true, RspParts.toVal, hbody]
            simp [stamp_cons, stamp_append, stamp_shift, shift_nil, Nat.add_assoc, List.append_assoc]
          · simp at hrest
        · simp only [hrc, if_false, Bool.false_eq_true] at hrest ⊢
          split at hrest
          · rename_i b hty pty hbody hh hp
            simp only [hh, hp]
            unfold specRspBody at hrest
            split at hrest
            · rename_i b4 e4 b6 e6 h4 h6
              split at hrest
              · -- no sessions
                rename_i hsess hpsz harea
                simp only [Option.some.injEq, Prod.mk.injEq] at hrest
                obtain ⟨rfl, rfl⟩ := hrest
                have hs : (vInt p.tag == some tb.sessionsTag) = false := hsess
                simp only [List.length_append] at hxsN ⊢
                simp only [List.append_assoc]
                rw [decodeArea_ok tb enc hty _ b.hv b4 e4 h4 _ _ _ _ (room_some _ _ _ _ _ (by omega))
                  (fresh_mk _ _ _ _ _ (by omega))]
                simp only [msgCatch_ok, post, bump_cons, bump_nil, SC.bump, hs, Bool.false_eq_true, if_false]
                rw [decodeArea_ok tb enc pty _ b.pv b6 e6 h6 _ _ _ _ (room_some _ _ _ _ _ (by omega))
                  (fresh_mk _ _ _ _ _ (by omega))]
                simp only [msgCatch_ok, R.bind_ok, post, bump_cons, bump_nil, SC.bump, Bool.not_false, if_true]
                rw [assertDone_single' _ _ _ _ _ _ _ (by omega)]
                simp only [R.bind_ok, List.isEmpty_nil, if_true, RspParts.toVal, hbody, hpsz, harea]
                simp [stamp_cons, stamp_append, stamp_shift, Nat.add_assoc, List.append_assoc]
              · -- sessions
                rename_i psz area hsess hpsz harea
                split at hrest
                · rename_i bp ep bsess es flag hp' hs' hflag
                  split at hrest
                  · rename_i hcond
                    obtain ⟨hpn, rfl⟩ := hcond
                    simp only [Option.some.injEq, Prod.mk.injEq] at hrest
                    obtain ⟨rfl, rfl⟩ := hrest
                    have hs : (vInt p.tag == some tb.sessionsTag) = true := hsess
                    obtain ⟨xp, hpszv, hpszI⟩ := specPrim_vInt hp'
                    have lp := specPrim_length hp'
                    have hxp : xp = (b6.length : Int) := by rw [hpszI] at hpn; simpa using hpn
                    have hxp0 : ¬ xp < 0 := by rw [hxp]; omega
                    have hxpN : xp.toNat = b6.length := by rw [hxp]; simp
                    simp only [List.length_append] at hxsN ⊢
                    simp only [List.append_assoc]
                    rw [decodeArea_ok tb flag hty _ b.hv b4 e4 h4 _ _ _ _ (room_some _ _ _ _ _ (by omega))
                      (fresh_mk _ _ _ _ _ (by omega))]
                    simp only [msgCatch_ok, post, bump_cons, bump_nil, SC.bump, hs, if_true]
                    rw [readPrim_spec hp' _ _ _ _ (room_some _ _ _ _ _ (by omega))]
                    simp only [msgCatch_ok, post, bump_cons, bump_nil, SC.bump, hpszI, hxp0, if_false, hxpN]
                    rw [openRegion_ok _ _ _ _ _ _ _ (room_some _ _ _ _ _ (by omega))]
                    simp only [R.bind_ok]
                    rw [decodeArea_ok tb flag pty _ b.pv b6 e6 h6 _ _ _ _
                      (room_two _ _ _ (by intro m hm; simp at hm ⊢; omega) (by intro m hm; simp at hm ⊢; omega))
                      (fresh_two _ _ _ (by simp; omega) (by simp; omega))]
                    simp only [R.bind_ok, post, bump, List.map_append, List.map_cons, List.map_nil, SC.bump, Nat.zero_add]
                    rw [assertDone_ok (pos + 1) _ b6.length _ _ _ _ (by intro d hd; simp only [List.mem_singleton] at hd; subst hd; simp)]
                    simp only [R.bind_ok, msgCatch_ok, Bool.not_true, Bool.false_eq_true, if_false]
                    have := decodeSized_ok tb.authRsp (path ++ [⟨"authorizationArea", none⟩]) pos
                      (b1.length + (b2.length + (b3.length + (b4.length + (bp.length + (b6.length + bsess.length))))))
                      area bsess es hs' []
                      ⟨pos, path ++ [⟨"responseSize", none⟩], b1.length + b2.length + b3.length + b4.length + bp.length + b6.length,
                        some (b1.length + (b2.length + (b3.length + (b4.length + (bp.length + (b6.length + bsess.length))))))⟩ rfl rfl
                      (by intro d hd; cases hd)
                      rest (pos + b1.length + b2.length + b3.length + b4.length + bp.length + b6.length)
                    simp only [List.nil_append] at this
                    rw [this _ (by omega) (by intro d hd; cases hd) (fresh_mk _ _ _ _ _ (by omega))]
                    simp only [msgCatch_ok, hflag, bump_nil, bne_self_eq_false, Bool.false_eq_true, if_false,
                      List.isEmpty_nil, if_true, RspParts.toVal, hbody, hpsz, harea]
                    simp [stamp_cons, stamp_append, stamp_shift, Nat.add_assoc, List.append_assoc]
                  · simp at hrest
                · simp at hrest
              · simp at hrest
            · simp at hrest
          · simp at hrest
      · simp at h
    · simp at h
  · simp at h

/-! ## the stream -/

theorem specCommand_pos {tb : MsgTables} {path : Path} {p : CmdParts} {bs : List Byte} {evs : List SEv}
    (htb : 0 < tb.tagCmd.size) (h : specCommand tb path p = some (bs, evs)) : 0 < bs.length := by
  unfold specCommand at h
  split at h
  · rename_i b1 e1 b2 e2 b3 e3 h1 h2 h3
    have l1 := specPrim_length h1
    simp only [] at h
    split at h
    · split at h
      · split at h
        · split at h
          · simp only [Option.some.injEq, Prod.mk.injEq] at h
            obtain ⟨rfl, _⟩ := h
            simp only [List.length_append]; omega
          · simp at h
        · simp at h
      · simp at h
    · simp at h
  · simp at h

theorem specResponse_pos {tb : MsgTables} {cc : Option Int} {enc : Bool} {path : Path} {p : RspParts} {bs : List Byte}
    {evs : List SEv} (htb : 0 < tb.tagRsp.size) (h : specResponse tb cc enc path p = some (bs, evs)) : 0 < bs.length := by
  unfold specResponse at h
  split at h
  · rename_i b1 e1 b2 e2 b3 e3 h1 h2 h3
    have l1 := specPrim_length h1
    simp only [] at h
    split at h
    · split at h
      · simp only [Option.some.injEq, Prod.mk.injEq] at h
        obtain ⟨rfl, _⟩ := h
        simp only [List.length_append]; omega
      · simp at h
    · simp at h
  · simp at h

theorem objField_cc (p : CmdParts) : objField p.toVal "commandCode" = some p.ccv := by
  simp [CmdParts.toVal, objField, lookupVal, List.find?]

theorem isEmpty_of_pos {bs : List Byte} (h : 0 < bs.length) (rest : List Byte) : (bs ++ rest).isEmpty = false := by
  cases bs with
  | nil => simp at h
  | cons b bs => rfl

theorem decodeStream_ok (tb : MsgTables) (path : Path) (last : Option CmdParts) (hc : 0 < tb.tagCmd.size)
    (hr : 0 < tb.tagRsp.size) :
    ∀ (xs : List (CmdParts × RspParts)) (bs : List Byte) (evs : List SEv), specStream tb path last xs = some (bs, evs) →
    ∀ (fuel : Nat), xs.length < fuel → ∀ (pos : Nat) (out : List (Nat × Event)) (scs0 : List SC),
    decodeStream true tb path fuel ⟨bs, pos, out, scs0⟩ =
      .ok (.none, ⟨[], pos + bs.length, out ++ stamp pos evs ++ [(pos + bs.length, .marshal (streamTail path last))],
        if xs.isEmpty && last.isNone then scs0 else []⟩)
  | [], bs, evs, h, fuel, hf, pos, out, scs0 => by
    obtain ⟨f, rfl⟩ : ∃ f, fuel = f + 1 := ⟨fuel - 1, by simp at hf; omega⟩
    unfold specStream at h
    cases last with
    | none =>
      simp only [Option.some.injEq, Prod.mk.injEq] at h
      obtain ⟨rfl, rfl⟩ := h
      simp [decodeStream, emitM, emit, streamTail, stamp]
    | some c =>
      simp only at h
      split at h
      · rename_i bc ec enc hcmd henc
        simp only [Option.some.injEq, Prod.mk.injEq] at h
        obtain ⟨rfl, rfl⟩ := h
        have hpos := specCommand_pos hc hcmd
        have hne : (bc.isEmpty) = false := by simpa using isEmpty_of_pos hpos []
        unfold decodeStream
        simp only [hne, Bool.false_eq_true, if_false]
        have := decodeCommand_ok tb path c bc ec hc hcmd [] pos out scs0
        simp only [List.append_nil] at this
        rw [this]
        simp only [R.bind_ok, henc, List.isEmpty_nil, if_true]
        simp [emitM, emit, streamTail]
      · simp at h
  | (c, r) :: more, bs, evs, h, fuel, hf, pos, out, scs0 => by
    obtain ⟨f, rfl⟩ : ∃ f, fuel = f + 1 := ⟨fuel - 1, by simp at hf; omega⟩
    unfold specStream at h
    split at h
    · rename_i bc ec enc hcmd henc
      split at h
      · rename_i br er bm em hrsp hmore
        simp only [Option.some.injEq, Prod.mk.injEq] at h
        obtain ⟨rfl, rfl⟩ := h
        have hposc := specCommand_pos hc hcmd
        have hposr := specResponse_pos hr hrsp
        unfold decodeStream
        simp only [isEmpty_of_pos hposc, Bool.false_eq_true, if_false]
        rw [decodeCommand_ok tb path c bc ec hc hcmd (br ++ bm) pos out scs0]
        simp only [R.bind_ok, henc, isEmpty_of_pos hposr, Bool.false_eq_true, if_false, objField_cc, Option.bind_some]
        have := decodeResponse_ok tb (vInt c.ccv) enc path r br er hr hrsp bm (pos + bc.length) (out ++ stamp pos ec) []
        rw [this]
        simp only [R.bind_ok]
        rw [decodeStream_ok tb path last hc hr more bm em hmore f (by simp at hf; omega)]
        simp [stamp_append, stamp_shift, Nat.add_assoc, List.append_assoc]
      · simp at h
    · simp at h

theorem specStream_len (tb : MsgTables) (path : Path) (last : Option CmdParts) (hc : 0 < tb.tagCmd.size) :
    ∀ (xs : List (CmdParts × RspParts)) (bs : List Byte) (evs : List SEv), specStream tb path last xs = some (bs, evs) →
      xs.length ≤ bs.length
  | [], bs, evs, h => by simp
  | (c, r) :: more, bs, evs, h => by
    unfold specStream at h
    split at h
    · rename_i bc ec enc hcmd henc
      split at h
      · rename_i br er bm em hrsp hmore
        simp only [Option.some.injEq, Prod.mk.injEq] at h
        obtain ⟨rfl, rfl⟩ := h
        have := specCommand_pos hc hcmd
        have := specStream_len tb path last hc more bm em hmore
        simp only [List.length_cons, List.length_append]; omega
      · simp at h
    · simp at h
