import TpmProofs.E2OSpec
import TpmModel.MsgSpec
/-!
# `events_to_obj` on the events of a well-formed command / response

The message classes are dataclasses whose `Any` fields are resolved with the command code (`cmdTy` / `rspTy`); an encrypted
parameter area is recognised by the keys of its first entry and rebuilt as the `.encrypted()` variant of the declared class.
-/

/-! ## a run of entries, one after the other, into one dict -/

structure Seg where
  name : String
  T : Tree
  evs : List MEvent
  ft : FT
  v : Val

def Seg.ok (enc : Ty) (s : Seg) : Prop := BuildsAt ⟨s.name, none⟩ s.T s.evs ∧ toObj enc s.ft s.T = some s.v

theorem segs_build : ∀ (l : List Seg) (enc : Ty) (kvs0 : List (String × Tree)), (∀ s ∈ l, s.ok enc) →
    (l.map (·.name)).Nodup → (∀ s ∈ l, kvLookup kvs0 s.name = none) →
    buildTree (l.flatMap (·.evs)) (.dict kvs0) = some (.dict (kvs0 ++ l.map fun s => (s.name, s.T)))
  | [], _, kvs0, _, _, _ => by simp [buildTree]
  | s :: rest, enc, kvs0, hok, hnd, hfresh => by
    simp only [List.map_cons, List.nodup_cons, List.mem_map, not_exists, not_and] at hnd
    rw [List.flatMap_cons, buildTree_append, (hok s (List.mem_cons_self ..)).1.1 rfl kvs0 (hfresh s (List.mem_cons_self ..)),
      Option.bind_some, segs_build rest enc (kvs0 ++ [(s.name, s.T)]) (fun x hx => hok x (List.mem_cons_of_mem _ hx)) hnd.2
        (fun x hx => kvLookup_append_other kvs0 s.name s.T x.name (hfresh x (List.mem_cons_of_mem _ hx))
          (fun heq => hnd.1 x hx heq.symm))]
    simp

theorem segs_toObj : ∀ (l : List Seg) (enc : Ty) (tt : Ty), (∀ s ∈ l, s.ok enc) → (∀ s ∈ l, tt.attr s.name = some s.ft) →
    toObjKvs enc tt (l.map fun s => (s.name, s.T)) = some (l.map fun s => (s.name, s.v))
  | [], _, _, _, _ => by simp [toObjKvs]
  | s :: rest, enc, tt, hok, hattr => by
    simp only [List.map_cons, toObjKvs, hattr s (List.mem_cons_self ..), (hok s (List.mem_cons_self ..)).2,
      segs_toObj rest enc tt (fun x hx => hok x (List.mem_cons_of_mem _ hx)) (fun x hx => hattr x (List.mem_cons_of_mem _ hx))]

variable (enc : Ty)

/-- a primitive field: the leaf is explicit -/
theorem prim_leaf {p : Prim} {pre : Path} {nd : PathNode} {v : Val} {bs : List Byte} {evs : List SEv}
    (h : specPrim p (pre ++ [nd]) v = some (bs, evs)) :
    ∃ x, v = .int p.name x ∧ BuildsAt nd (.leaf p.name x) (sstrip pre.length evs) := by
  unfold specPrim at h
  split at h
  · cases h
  · rename_i x hx
    split at h
    · simp only [Option.some.injEq, Prod.mk.injEq] at h
      obtain ⟨_, rfl⟩ := h
      exact ⟨x, asIntOf_inv hx, buildsAt_leaf nd _ (by simp [stripE])⟩
    · cases h

def primSeg (p : Prim) (name : String) (x : Int) (evs : List MEvent) : Seg :=
  ⟨name, .leaf p.name x, evs, .one (.prim p), .int p.name x⟩

theorem primSeg_ok {p : Prim} {name : String} {x : Int} {evs : List MEvent}
    (h : BuildsAt ⟨name, none⟩ (.leaf p.name x) evs) : (primSeg p name x evs).ok enc :=
  ⟨h, toObj_leaf enc _ _ _⟩

/-- the session area -/
theorem sessions_builds (t : Ty) (ht : t.eo (encBuf enc) = true) {pre : Path} {name : String} {v : Val} {bs : List Byte}
    {evs : List SEv} (h : specSessions t (pre ++ [⟨name, none⟩]) v = some (bs, evs)) :
    ∃ T, BuildsAt ⟨name, none⟩ T (sstrip pre.length evs) ∧ toObj enc (.many t) T = some v := by
  unfold specSessions at h
  split at h
  · cases h
  · rename_i vs hvs
    simp only [Option.map_eq_some_iff] at h
    obtain ⟨⟨b, e⟩, hr, heq⟩ := h
    simp only [Prod.mk.injEq] at heq
    obtain ⟨_, rfl⟩ := heq
    obtain ⟨Ts, hTs, hbuild⟩ := repeat_builds enc (sessSpec t) t pre name
      (fun i v bs evs h => by
        have hs : spec t (pre ++ [⟨name, some i⟩]) none v = some (bs, evs) := by
          unfold sessSpec at h
          split at h
          · rename_i b' e' hsp
            split at h
            · cases h
            · simp only [Option.some.injEq, Prod.mk.injEq] at h
              rw [hsp, h.1, h.2]
          · cases h
        obtain ⟨T, h1, h2, _⟩ := spec_builds enc t ht pre _ none v bs evs hs
        exact ⟨T, h1, h2⟩) vs 0 b e hr
    refine ⟨.list Ts, ⟨?_, ?_⟩, ?_⟩
    · intro _ kvs hfresh
      simp only [sstrip_cons, buildTree, stripE, drop_pre_snoc]
      rw [ins_new_key kvs ⟨name, none⟩ _ rfl hfresh, Option.bind_some]
      have := hbuild (kvs ++ [(name, .list [])]) [] (kvLookup_append_self kvs name _ hfresh) rfl
      simp only [List.nil_append] at this
      show buildTree _ (Tree.dict (kvs ++ [(name, Tree.list [])])) = _
      rw [this, kvSet_append_fresh kvs name _ _ hfresh]
    · intro i hi; cases hi
    · simp [toObj, hTs, asList_inv hvs]

/-- `_dict_to_obj` on an encrypted area: the `.encrypted()` variant of the declared class -/
theorem toObj_encDict (t : Ty) (kvs : List (String × Tree)) (name : String) (fs : Fields) (fvs : List (String × Val))
    (hne : kvs ≠ []) (hE : isEncDict enc kvs = true) (hvar : encVariant enc t = some (name, fs))
    (h : toObjKvs enc (.struct name true fs) kvs = some fvs) :
    toObj enc (.one t) (.dict kvs) = some (.obj name true fvs) := by
  have he : kvs.isEmpty = false := by cases kvs <;> simp_all
  simp [toObj, he, hE, hvar, h]

/-- side condition on a parameter class for its `.encrypted()` variant -/
def Ty.encOk (t : Ty) (encParam : Ty) : Bool :=
  match encVariant encParam t with
  | some (_, .cons f _ _ rest) => rest.eo (encBuf encParam) && decide ((f :: rest.names).Nodup)
  | _ => true

/-- a handle / parameter area, in the clear or with an opaque first parameter -/
theorem area_builds (tb : MsgTables) {en sz buf : String} {sp el : Prim} (henc : tb.encParam = .tpm2bBytes en sz sp buf el)
    (hne : sz ≠ buf) (e : Bool) (t : Ty) (ht : t.eo (encBuf tb.encParam) = true) (hok : t.encOk tb.encParam = true)
    {pre : Path} {nd : PathNode} {v : Val} {bs : List Byte} {evs : List SEv}
    (h : specArea tb e t (pre ++ [nd]) v = some (bs, evs)) :
    ∃ T, BuildsAt nd T (sstrip pre.length evs) ∧ toObj tb.encParam (.one t) T = some v := by
  have plain : ∀ {bs evs}, spec t (pre ++ [nd]) none v = some (bs, evs) →
      ∃ T, BuildsAt nd T (sstrip pre.length evs) ∧ toObj tb.encParam (.one t) T = some v := by
    intro bs evs h
    obtain ⟨T, h1, h2, _⟩ := spec_builds tb.encParam t ht pre nd none v bs evs h
    exact ⟨T, h1, h2⟩
  unfold specArea at h
  split at h
  · split at h
    · exact plain h
    · rename_i name fs hvar
      split at h
      · cases h
      · rename_i fvs hv
        simp only [Option.map_eq_some_iff] at h
        obtain ⟨⟨b, ev⟩, hr, heq⟩ := h
        simp only [Prod.mk.injEq] at heq
        obtain ⟨_, rfl⟩ := heq
        have hunder := specFields_under fs _ _ _ _ _ hr
        -- the shape of the variant
        cases t with
        | struct tname isP tfs =>
          cases tfs with
          | nil => simp [encVariant] at hvar
          | cons f0 k0 t0 rest0 =>
            have hvar' := hvar
            simp only [encVariant] at hvar
            split at hvar
            · simp only [Option.some.injEq, Prod.mk.injEq] at hvar
              obtain ⟨rfl, rfl⟩ := hvar
              simp only [Ty.encOk, hvar', Bool.and_eq_true, decide_eq_true_eq, List.nodup_cons] at hok
              -- first field: the opaque parameter; then the remaining fields
              cases fvs with
              | nil => simp [specFields] at hr
              | cons fv fvs' =>
                obtain ⟨fn, v0⟩ := fv
                simp only [specFields] at hr
                split at hr
                · rename_i hfn
                  subst hfn
                  split at hr
                  · cases hr
                  · rename_i b0 e0 hf0
                    split at hr
                    · cases hr
                    · rename_i bs' es' hrest
                      simp only [Option.some.injEq, Prod.mk.injEq] at hr
                      obtain ⟨_, rfl⟩ := hr
                      simp only [specFieldWith] at hf0
                      rw [henc] at hf0
                      obtain ⟨Ts, Tb, nv, bv, hv0, hB0, hTso, hTbo, hTsa⟩ :=
                        tpm2bBytes_builds tb.encParam hne (pre := pre ++ [nd]) hf0
                      obtain ⟨entries', hnames', _, hbuild', hobj'⟩ :=
                        fields_builds tb.encParam rest0.dropSelectors hok.1 hok.2.2 (pre ++ [nd]) _ fvs' bs' es' hrest
                      have hfresh : ∀ n ∈ rest0.dropSelectors.names, kvLookup ([] ++ [(fn, Tree.dict [(sz, Ts), (buf, Tb)])]) n = none :=
                        fun n hn => kvLookup_append_other [] fn _ n (kvLookup_nil _) (by rintro rfl; exact hok.2.1 hn)
                      refine ⟨.dict ((fn, .dict [(sz, Ts), (buf, Tb)]) :: entries'), ?_, ?_⟩
                      · rw [sstrip_cons]
                        apply buildsAt_node nd _ _ _ (by simp [stripE]) (under_heads hunder)
                        rw [strip_sstrip, sstrip_append, sstrip_shift, buildTree_append]
                        rw [length_snoc'] at hB0 hbuild'
                        rw [leafOf_stripE]
                        show (buildTree _ (Tree.dict [])).bind _ = _
                        rw [hB0.1 rfl [] (kvLookup_nil _), Option.bind_some, hbuild' _ hfresh]
                        simp
                      · rw [asObj_inv hv]
                        have hE : isEncDict tb.encParam ((fn, Tree.dict [(sz, Ts), (buf, Tb)]) :: entries') = true := by
                          rw [henc]; simp [isEncDict]
                        have hT0 : toObj tb.encParam (.one tb.encParam) (.dict [(sz, Ts), (buf, Tb)]) = some v0 := by
                          rw [hv0]
                          have := pair_toObj tb.encParam (.tpm2bBytes en sz sp buf el) (sz := sz) (buf := buf) (Ts := Ts) (Tb := Tb)
                            (nv := nv) (bv := bv) (ft1 := .one (.prim sp)) (ft2 := .many (.prim el)) (by simp [Ty.attr]) (by simp [Ty.attr, hne]) (hTso _) hTbo hTsa
                          rw [← henc] at this
                          rw [this, henc]; rfl
                        have hA : AttrOk (Ty.struct tname true (Fields.cons fn .plain tb.encParam rest0.dropSelectors)).attr
                            rest0.dropSelectors := by
                          have := attrOk_self (Fields.cons fn .plain tb.encParam rest0.dropSelectors)
                            (by simp [Fields.names, hok.2.1, hok.2.2])
                          exact attrOk_congr _ _ _ (fun n _ => by simp [Ty.attr]) this.2
                        apply toObj_encDict tb.encParam _ _ tname _ _ (by simp) hE hvar'
                        have hattr : (Ty.struct tname true (Fields.cons fn .plain tb.encParam rest0.dropSelectors)).attr fn =
                            some (.one tb.encParam) := by simp [Ty.attr, Fields.attr]
                        simp only [toObjKvs, hattr, hT0, hobj' _ hA]
                · cases hr
            · cases hvar
        | _ => simp [encVariant] at hvar
  · exact plain h

/-! ## where the events of the message parts lie -/

theorem specSessions_under {t : Ty} {path : Path} {v : Val} {bs : List Byte} {evs : List SEv}
    (h : specSessions t path v = some (bs, evs)) : Under path.dropLast evs := by
  unfold specSessions at h
  split at h
  · cases h
  · simp only [Option.map_eq_some_iff] at h
    obtain ⟨⟨b, e⟩, hr, heq⟩ := h
    simp only [Prod.mk.injEq] at heq
    obtain ⟨_, rfl⟩ := heq
    refine Under.cons (dropLast_prefix' _) (specRepeat_under _ (fun p v bs evs h => ?_) path _ 0 b e hr)
    unfold sessSpec at h
    split at h
    · rename_i b' e' hsp
      split at h
      · cases h
      · simp only [Option.some.injEq, Prod.mk.injEq] at h
        rw [← h.2]; exact spec_under _ _ _ _ _ _ hsp
    · cases h

theorem specArea_under {tb : MsgTables} {e : Bool} {t : Ty} {path : Path} {v : Val} {bs : List Byte} {evs : List SEv}
    (h : specArea tb e t path v = some (bs, evs)) : Under path evs := by
  unfold specArea at h
  split at h
  · split at h
    · exact spec_under _ _ _ _ _ _ h
    · split at h
      · cases h
      · simp only [Option.map_eq_some_iff] at h
        obtain ⟨⟨b, ev⟩, hr, heq⟩ := h
        simp only [Prod.mk.injEq] at heq
        obtain ⟨_, rfl⟩ := heq
        exact Under.cons (List.prefix_refl _) (specFields_under _ _ _ _ _ _ hr)
  · exact spec_under _ _ _ _ _ _ h

/-! ## side conditions on the message tables -/

def MsgTables.eo (tb : MsgTables) : Bool :=
  (match tb.encParam with
   | .tpm2bBytes _ sz _ buf _ => decide (sz ≠ buf)
   | _ => false) &&
  tb.authCmd.eo (encBuf tb.encParam) && tb.authRsp.eo (encBuf tb.encParam) &&
  (tb.cmdHandles ++ tb.cmdParams ++ tb.rspHandles ++ tb.rspParams).all fun kt =>
    kt.2.eo (encBuf tb.encParam) && kt.2.encOk tb.encParam

theorem lookupTy_mem {m : List (Int × Ty)} {k : Int} {t : Ty} (h : lookupTy m k = some t) : ∃ k', (k', t) ∈ m := by
  unfold lookupTy at h
  simp only [Option.map_eq_some_iff] at h
  obtain ⟨⟨k', t'⟩, hf, rfl⟩ := h
  exact ⟨k', List.mem_of_find?_eq_some hf⟩

theorem MsgTables.eo_enc {tb : MsgTables} (h : tb.eo = true) :
    ∃ en sz sp buf el, tb.encParam = .tpm2bBytes en sz sp buf el ∧ sz ≠ buf := by
  unfold MsgTables.eo at h
  simp only [Bool.and_eq_true] at h
  have h1 := h.1.1.1
  split at h1
  · rename_i en sz sp buf el heq
    exact ⟨en, sz, sp, buf, el, heq, by simpa using h1⟩
  · cases h1

theorem MsgTables.eo_area {tb : MsgTables} (h : tb.eo = true) {k : Int} {t : Ty}
    (hl : lookupTy tb.cmdHandles k = some t ∨ lookupTy tb.cmdParams k = some t ∨ lookupTy tb.rspHandles k = some t ∨
      lookupTy tb.rspParams k = some t) : t.eo (encBuf tb.encParam) = true ∧ t.encOk tb.encParam = true := by
  unfold MsgTables.eo at h
  simp only [Bool.and_eq_true, List.all_eq_true, List.mem_append] at h
  have hall := h.2
  rcases hl with hl | hl | hl | hl <;> obtain ⟨k', hm⟩ := lookupTy_mem hl
  · exact hall (k', t) (Or.inl (Or.inl (Or.inl hm)))
  · exact hall (k', t) (Or.inl (Or.inl (Or.inr hm)))
  · exact hall (k', t) (Or.inl (Or.inr hm))
  · exact hall (k', t) (Or.inr hm)

theorem vInt_int (c : String) (x : Int) : vInt (.int c x) = some x := rfl

theorem sstrip_zero (evs : List SEv) : sstrip 0 evs = evs.map (·.2) := by
  simp [sstrip, stripE]

/-- a message: the root event, then the entries one after the other -/
theorem msg_assemble (mname : String) (l : List Seg) (rest : List SEv) (tt : Ty)
    (hok : ∀ s ∈ l, s.ok enc) (hnd : (l.map (·.name)).Nodup) (hunder : Under rootPath rest)
    (hflat : sstrip 1 rest = l.flatMap (·.evs)) (hattr : ∀ s ∈ l, tt.attr s.name = some s.ft)
    (hfirst : ∃ s0 tl c x, l = s0 :: tl ∧ s0.T = .leaf c x) :
    buildTree (((0, ⟨rootPath, .named mname false, none, "", 0⟩) :: rest).map (·.2)) (.dict []) =
        some (.dict [("", .dict (l.map fun s => (s.name, s.T)))]) ∧
      toObj enc (.one tt) (.dict (l.map fun s => (s.name, s.T))) = some (.obj tt.name false (l.map fun s => (s.name, s.v))) := by
  constructor
  · have hB : BuildsAt ⟨"", none⟩ (.dict (l.map fun s => (s.name, s.T)))
        (sstrip 0 ((0, ⟨rootPath, .named mname false, none, "", 0⟩) :: rest)) := by
      rw [sstrip_cons]
      apply buildsAt_node ⟨"", none⟩ _ _ _ (by simp [stripE, rootPath])
      · exact under_heads (pre := []) (by simpa [rootPath] using hunder)
      · rw [strip_sstrip, leafOf_stripE]
        have := segs_build l enc [] hok hnd (fun s _ => kvLookup_nil _)
        rw [List.nil_append, ← hflat] at this
        exact this
    have := hB.1 rfl [] (kvLookup_nil _)
    rw [sstrip_zero] at this
    simpa using this
  · obtain ⟨s0, tl, c, x, rfl, hT⟩ := hfirst
    apply toObj_dict enc tt _ _ (by simp)
    · simp only [List.map_cons, hT]
      exact isEncDict_false enc _ _ _ (topAvoid_leaf _ _ _)
    · exact segs_toObj _ enc tt hok hattr

theorem e2oTop_command (tb : MsgTables) (evs : List MEvent) (kvs : List (String × Tree)) (c : String) (cc : Int) (v : Val)
    (hbuild : buildTree evs (.dict []) = some (.dict [("", .dict kvs)])) (hne : kvs.isEmpty = false)
    (hcc : kvLookup kvs "commandCode" = some (.leaf c cc))
    (hobj : toObj tb.encParam (.one (cmdTy tb cc)) (.dict kvs) = some v) : e2oTop tb .command evs = some v := by
  simp only [e2oTop, hbuild, kvLookup_cons, beq_self_eq_true, if_true, hne, Bool.false_eq_true, if_false, hcc, hobj]

theorem e2oTop_response (tb : MsgTables) (cc : Option Int) (e : Bool) (evs : List MEvent) (kvs : List (String × Tree)) (v : Val)
    (hbuild : buildTree evs (.dict []) = some (.dict [("", .dict kvs)])) (hne : kvs.isEmpty = false)
    (hobj : toObj tb.encParam (.one (rspTy tb cc)) (.dict kvs) = some v) : e2oTop tb (.response cc e) evs = some v := by
  simp only [e2oTop, hbuild, kvLookup_cons, beq_self_eq_true, if_true, hne, Bool.false_eq_true, if_false, hobj]

/-- **events → object for commands**: `events_to_obj` of the events of a well-formed command is the command -/
theorem cmd_events_to_obj (tb : MsgTables) (hok : tb.eo = true) (p : CmdParts) (bs : List Byte) (evs : List SEv)
    (h : specCommand tb rootPath p = some (bs, evs)) : e2oTop tb .command (evs.map (·.2)) = some p.toVal := by
  obtain ⟨en, sz, sp, buf, el, henc, hne⟩ := MsgTables.eo_enc hok
  have hroot : rootPath = [] ++ [(⟨"", none⟩ : PathNode)] := rfl
  unfold specCommand at h
  split at h
  · rename_i b1 e1 b2 e2 b3 e3 h1 h2 h3
    obtain ⟨x1, hv1, hB1⟩ := prim_leaf (pre := rootPath) h1
    obtain ⟨x2, hv2, hB2⟩ := prim_leaf (pre := rootPath) h2
    obtain ⟨x3, hv3, hB3⟩ := prim_leaf (pre := rootPath) h3
    simp only [hv3, vInt_int, Option.getD_some] at h
    split at h
    · rename_i hty pty hlh hlp
      have hhty := MsgTables.eo_area hok (Or.inl hlh)
      have hpty := MsgTables.eo_area hok (Or.inr (Or.inl hlp))
      split at h
      · rename_i b4 e4 b5 e5 encf h4 h5
        obtain ⟨T4, hB4, hT4, _⟩ := spec_builds tb.encParam hty hhty.1 rootPath _ none _ _ _ h4
        split at h
        · rename_i b6 e6 h6
          obtain ⟨T6, hB6, hT6⟩ := area_builds tb henc hne encf pty hpty.1 hpty.2 (pre := rootPath) h6
          split at h
          · simp only [Option.some.injEq, Prod.mk.injEq] at h
            obtain ⟨_, rfl⟩ := h
            -- the session part
            unfold specCmdAuth at h5
            split at h5
            · -- no sessions
              rename_i hsess hauth
              simp only [Option.some.injEq, Prod.mk.injEq] at h5
              obtain ⟨rfl, rfl, rfl⟩ := h5
              let l : List Seg := [primSeg tb.tagCmd "tag" x1 (sstrip 1 e1), primSeg tb.cmdSize "commandSize" x2 (sstrip 1 e2),
                primSeg tb.cc "commandCode" x3 (sstrip 1 e3), ⟨"handles", T4, sstrip 1 e4, .one hty, p.hv⟩,
                ⟨"parameters", T6, sstrip 1 e6, .one pty, p.pv⟩]
              have hl : ∀ s ∈ l, s.ok tb.encParam := by
                intro s hs
                simp only [l, List.mem_cons, List.not_mem_nil, or_false] at hs
                rcases hs with rfl | rfl | rfl | rfl | rfl
                · exact primSeg_ok _ hB1
                · exact primSeg_ok _ hB2
                · exact primSeg_ok _ hB3
                · exact ⟨hB4, hT4⟩
                · exact ⟨hB6, hT6⟩
              have U1 := Under.mono (prefix_snoc _ _) (specPrim_under h1)
              have U2 := Under.mono (prefix_snoc _ _) (specPrim_under h2)
              have U3 := Under.mono (prefix_snoc _ _) (specPrim_under h3)
              have U4 := Under.mono (prefix_snoc _ _) (spec_under _ _ _ _ _ _ h4)
              have U6 := Under.mono (prefix_snoc _ _) (specArea_under h6)
              have hasm := msg_assemble tb.encParam "Command" l
                (e1 ++ shift b1.length (e2 ++ shift b2.length (e3 ++ shift b3.length (e4 ++ shift b4.length
                  ([] ++ shift ([] : List Byte).length e6))))) (cmdTy tb x3) hl (by simp [l, primSeg])
                (Under.append U1 (Under.shift _ (Under.append U2 (Under.shift _ (Under.append U3 (Under.shift _
                  (Under.append U4 (Under.shift _ (Under.append (Under.nil _) (Under.shift _ U6))))))))))
                (by simp [l, primSeg, sstrip_append, sstrip_shift, sstrip_nil])
                (by
                  intro s hs
                  simp only [l, List.mem_cons, List.not_mem_nil, or_false] at hs
                  rcases hs with rfl | rfl | rfl | rfl | rfl <;>
                    simp [primSeg, cmdTy, Ty.attr, Fields.attr, anyField, hlh, hlp])
                ⟨_, _, _, _, rfl, rfl⟩
              apply e2oTop_command tb _ _ tb.cc.name x3 _ hasm.1 (by simp [l]) (by simp [l, primSeg, kvLookup_cons])
              rw [hasm.2]
              simp [CmdParts.toVal, hauth, l, primSeg, hv1, hv2, hv3, cmdTy, Ty.name]
            · -- sessions
              rename_i asz area hsess hauth
              split at h5
              · rename_i ba ea bss es encf' ha hs hflag
                split at h5
                · simp only [Option.some.injEq, Prod.mk.injEq] at h5
                  obtain ⟨rfl, rfl, rfl⟩ := h5
                  obtain ⟨xa, hva, hBa⟩ := prim_leaf (pre := rootPath) ha
                  have hauthTy : tb.authCmd.eo (encBuf tb.encParam) = true := by
                    unfold MsgTables.eo at hok
                    simp only [Bool.and_eq_true] at hok
                    exact hok.1.1.2
                  obtain ⟨TS, hBS, hTS⟩ := sessions_builds tb.encParam tb.authCmd hauthTy (pre := rootPath) hs
                  let l : List Seg := [primSeg tb.tagCmd "tag" x1 (sstrip 1 e1), primSeg tb.cmdSize "commandSize" x2 (sstrip 1 e2),
                    primSeg tb.cc "commandCode" x3 (sstrip 1 e3), ⟨"handles", T4, sstrip 1 e4, .one hty, p.hv⟩,
                    primSeg tb.authSize "authSize" xa (sstrip 1 ea),
                    ⟨"authorizationArea", TS, sstrip 1 es, .many tb.authCmd, area⟩,
                    ⟨"parameters", T6, sstrip 1 e6, .one pty, p.pv⟩]
                  have hl : ∀ s ∈ l, s.ok tb.encParam := by
                    intro s hs
                    simp only [l, List.mem_cons, List.not_mem_nil, or_false] at hs
                    rcases hs with rfl | rfl | rfl | rfl | rfl | rfl | rfl
                    · exact primSeg_ok _ hB1
                    · exact primSeg_ok _ hB2
                    · exact primSeg_ok _ hB3
                    · exact ⟨hB4, hT4⟩
                    · exact primSeg_ok _ hBa
                    · exact ⟨hBS, hTS⟩
                    · exact ⟨hB6, hT6⟩
                  have U1 := Under.mono (prefix_snoc _ _) (specPrim_under h1)
                  have U2 := Under.mono (prefix_snoc _ _) (specPrim_under h2)
                  have U3 := Under.mono (prefix_snoc _ _) (specPrim_under h3)
                  have U4 := Under.mono (prefix_snoc _ _) (spec_under _ _ _ _ _ _ h4)
                  have Ua := Under.mono (prefix_snoc _ _) (specPrim_under ha)
                  have Us : Under rootPath es := under_snoc_dropLast (specSessions_under hs)
                  have U6 := Under.mono (prefix_snoc _ _) (specArea_under h6)
                  have hasm := msg_assemble tb.encParam "Command" l
                    (e1 ++ shift b1.length (e2 ++ shift b2.length (e3 ++ shift b3.length (e4 ++ shift b4.length
                      ((ea ++ shift ba.length es) ++ shift (ba ++ bss).length e6))))) (cmdTy tb x3) hl (by simp [l, primSeg])
                    (Under.append U1 (Under.shift _ (Under.append U2 (Under.shift _ (Under.append U3 (Under.shift _
                      (Under.append U4 (Under.shift _ (Under.append (Under.append Ua (Under.shift _ Us)) (Under.shift _ U6))))))))))
                    (by simp [l, primSeg, sstrip_append, sstrip_shift])
                    (by
                      intro s hs
                      simp only [l, List.mem_cons, List.not_mem_nil, or_false] at hs
                      rcases hs with rfl | rfl | rfl | rfl | rfl | rfl | rfl <;>
                        simp [primSeg, cmdTy, Ty.attr, Fields.attr, anyField, hlh, hlp])
                    ⟨_, _, _, _, rfl, rfl⟩
                  apply e2oTop_command tb _ _ tb.cc.name x3 _ hasm.1 (by simp [l]) (by simp [l, primSeg, kvLookup_cons])
                  rw [hasm.2]
                  simp [CmdParts.toVal, hauth, l, primSeg, hv1, hv2, hv3, hva, cmdTy, Ty.name]
                · cases h5
              · cases h5
            · cases h5
          · cases h
        · cases h
      · cases h
    · cases h
  · cases h

/-- **events → object for responses**: `events_to_obj(events, command_code)` of the events of a well-formed response is the
response -/
theorem rsp_events_to_obj (tb : MsgTables) (hok : tb.eo = true) (cc : Option Int) (encf : Bool) (p : RspParts)
    (bs : List Byte) (evs : List SEv) (h : specResponse tb cc encf rootPath p = some (bs, evs)) :
    e2oTop tb (.response cc encf) (evs.map (·.2)) = some p.toVal := by
  obtain ⟨en, sz, sp, buf, el, henc, hne⟩ := MsgTables.eo_enc hok
  unfold specResponse at h
  split at h
  · rename_i b1 e1 b2 e2 b3 e3 h1 h2 h3
    obtain ⟨x1, hv1, hB1⟩ := prim_leaf (pre := rootPath) h1
    obtain ⟨x2, hv2, hB2⟩ := prim_leaf (pre := rootPath) h2
    obtain ⟨x3, hv3, hB3⟩ := prim_leaf (pre := rootPath) h3
    have U1 := Under.mono (prefix_snoc _ _) (specPrim_under h1)
    have U2 := Under.mono (prefix_snoc _ _) (specPrim_under h2)
    have U3 := Under.mono (prefix_snoc _ _) (specPrim_under h3)
    simp only [] at h
    split at h
    · rename_i br er hrest
      split at h
      · simp only [Option.some.injEq, Prod.mk.injEq] at h
        obtain ⟨_, rfl⟩ := h
        split at hrest
        · -- failed response: header only
          split at hrest
          · rename_i hbody
            simp only [Option.some.injEq, Prod.mk.injEq] at hrest
            obtain ⟨rfl, rfl⟩ := hrest
            let l : List Seg := [primSeg tb.tagRsp "tag" x1 (sstrip 1 e1), primSeg tb.rspSize "responseSize" x2 (sstrip 1 e2),
              primSeg tb.rc "responseCode" x3 (sstrip 1 e3)]
            have hl : ∀ s ∈ l, s.ok tb.encParam := by
              intro s hs
              simp only [l, List.mem_cons, List.not_mem_nil, or_false] at hs
              rcases hs with rfl | rfl | rfl
              · exact primSeg_ok _ hB1
              · exact primSeg_ok _ hB2
              · exact primSeg_ok _ hB3
            have hasm := msg_assemble tb.encParam "Response" l
              (e1 ++ shift b1.length (e2 ++ shift b2.length (e3 ++ shift b3.length []))) (rspTy tb cc) hl (by simp [l, primSeg])
              (Under.append U1 (Under.shift _ (Under.append U2 (Under.shift _ (Under.append U3 (Under.shift _ (Under.nil _)))))))
              (by simp [l, primSeg, sstrip_append, sstrip_shift, sstrip_nil])
              (by
                intro s hs
                simp only [l, List.mem_cons, List.not_mem_nil, or_false] at hs
                rcases hs with rfl | rfl | rfl <;> simp [primSeg, rspTy, Ty.attr, Fields.attr])
              ⟨_, _, _, _, rfl, rfl⟩
            apply e2oTop_response tb cc encf _ _ _ hasm.1 (by simp [l])
            rw [hasm.2]
            simp [RspParts.toVal, hbody, l, primSeg, hv1, hv2, hv3, rspTy, Ty.name]
          · cases hrest
        · -- successful response
          split at hrest
          · rename_i body hty pty hbody hlh hlp
            have hhty := MsgTables.eo_area hok (k := cc.getD 0) (t := hty) (by
              cases cc with
              | none => simp at hlh
              | some c => exact Or.inr (Or.inr (Or.inl (by simpa using hlh))))
            have hpty := MsgTables.eo_area hok (k := cc.getD 0) (t := pty) (by
              cases cc with
              | none => simp at hlp
              | some c => exact Or.inr (Or.inr (Or.inr (by simpa using hlp))))
            unfold specRspBody at hrest
            split at hrest
            · rename_i b4 e4 b6 e6 h4 h6
              obtain ⟨T4, hB4, hT4⟩ := area_builds tb henc hne encf hty hhty.1 hhty.2 (pre := rootPath) h4
              obtain ⟨T6, hB6, hT6⟩ := area_builds tb henc hne encf pty hpty.1 hpty.2 (pre := rootPath) h6
              have U4 := Under.mono (prefix_snoc _ _) (specArea_under h4)
              have U6 := Under.mono (prefix_snoc _ _) (specArea_under h6)
              split at hrest
              · -- no sessions
                rename_i hsess hpsz harea
                simp only [Option.some.injEq, Prod.mk.injEq] at hrest
                obtain ⟨rfl, rfl⟩ := hrest
                let l : List Seg := [primSeg tb.tagRsp "tag" x1 (sstrip 1 e1), primSeg tb.rspSize "responseSize" x2 (sstrip 1 e2),
                  primSeg tb.rc "responseCode" x3 (sstrip 1 e3), ⟨"handles", T4, sstrip 1 e4, .one hty, body.hv⟩,
                  ⟨"parameters", T6, sstrip 1 e6, .one pty, body.pv⟩]
                have hl : ∀ s ∈ l, s.ok tb.encParam := by
                  intro s hs
                  simp only [l, List.mem_cons, List.not_mem_nil, or_false] at hs
                  rcases hs with rfl | rfl | rfl | rfl | rfl
                  · exact primSeg_ok _ hB1
                  · exact primSeg_ok _ hB2
                  · exact primSeg_ok _ hB3
                  · exact ⟨hB4, hT4⟩
                  · exact ⟨hB6, hT6⟩
                have hasm := msg_assemble tb.encParam "Response" l
                  (e1 ++ shift b1.length (e2 ++ shift b2.length (e3 ++ shift b3.length (e4 ++ shift b4.length e6))))
                  (rspTy tb cc) hl (by simp [l, primSeg])
                  (Under.append U1 (Under.shift _ (Under.append U2 (Under.shift _ (Under.append U3 (Under.shift _
                    (Under.append U4 (Under.shift _ U6))))))))
                  (by simp [l, primSeg, sstrip_append, sstrip_shift])
                  (by
                    intro s hs
                    simp only [l, List.mem_cons, List.not_mem_nil, or_false] at hs
                    rcases hs with rfl | rfl | rfl | rfl | rfl <;>
                      simp [primSeg, rspTy, Ty.attr, Fields.attr, anyField, hlh, hlp])
                  ⟨_, _, _, _, rfl, rfl⟩
                apply e2oTop_response tb cc encf _ _ _ hasm.1 (by simp [l])
                rw [hasm.2]
                simp [RspParts.toVal, hbody, hpsz, harea, l, primSeg, hv1, hv2, hv3, rspTy, Ty.name]
              · -- sessions
                rename_i psz area hsess hpsz harea
                split at hrest
                · rename_i bp ep bss es flag hp hs hflag
                  split at hrest
                  · simp only [Option.some.injEq, Prod.mk.injEq] at hrest
                    obtain ⟨rfl, rfl⟩ := hrest
                    obtain ⟨xp, hvp, hBp⟩ := prim_leaf (pre := rootPath) hp
                    have hauthTy : tb.authRsp.eo (encBuf tb.encParam) = true := by
                      unfold MsgTables.eo at hok
                      simp only [Bool.and_eq_true] at hok
                      exact hok.1.2
                    obtain ⟨TS, hBS, hTS⟩ := sessions_builds tb.encParam tb.authRsp hauthTy (pre := rootPath) hs
                    have Up := Under.mono (prefix_snoc _ _) (specPrim_under hp)
                    have Us : Under rootPath es := under_snoc_dropLast (specSessions_under hs)
                    let l : List Seg := [primSeg tb.tagRsp "tag" x1 (sstrip 1 e1), primSeg tb.rspSize "responseSize" x2 (sstrip 1 e2),
                      primSeg tb.rc "responseCode" x3 (sstrip 1 e3), ⟨"handles", T4, sstrip 1 e4, .one hty, body.hv⟩,
                      primSeg tb.paramSize "parameterSize" xp (sstrip 1 ep),
                      ⟨"parameters", T6, sstrip 1 e6, .one pty, body.pv⟩,
                      ⟨"authorizationArea", TS, sstrip 1 es, .many tb.authRsp, area⟩]
                    have hl : ∀ s ∈ l, s.ok tb.encParam := by
                      intro s hs
                      simp only [l, List.mem_cons, List.not_mem_nil, or_false] at hs
                      rcases hs with rfl | rfl | rfl | rfl | rfl | rfl | rfl
                      · exact primSeg_ok _ hB1
                      · exact primSeg_ok _ hB2
                      · exact primSeg_ok _ hB3
                      · exact ⟨hB4, hT4⟩
                      · exact primSeg_ok _ hBp
                      · exact ⟨hB6, hT6⟩
                      · exact ⟨hBS, hTS⟩
                    have hasm := msg_assemble tb.encParam "Response" l
                      (e1 ++ shift b1.length (e2 ++ shift b2.length (e3 ++ shift b3.length
                        (e4 ++ shift b4.length (ep ++ shift bp.length (e6 ++ shift b6.length es))))))
                      (rspTy tb cc) hl (by simp [l, primSeg])
                      (Under.append U1 (Under.shift _ (Under.append U2 (Under.shift _ (Under.append U3 (Under.shift _
                        (Under.append U4 (Under.shift _ (Under.append Up (Under.shift _ (Under.append U6 (Under.shift _ Us))))))))))))
                      (by simp [l, primSeg, sstrip_append, sstrip_shift])
                      (by
                        intro s hs
                        simp only [l, List.mem_cons, List.not_mem_nil, or_false] at hs
                        rcases hs with rfl | rfl | rfl | rfl | rfl | rfl | rfl <;>
                          simp [primSeg, rspTy, Ty.attr, Fields.attr, anyField, hlh, hlp])
                      ⟨_, _, _, _, rfl, rfl⟩
                    apply e2oTop_response tb cc encf _ _ _ hasm.1 (by simp [l])
                    rw [hasm.2]
                    simp [RspParts.toVal, hbody, hpsz, harea, l, primSeg, hv1, hv2, hv3, hvp, rspTy, Ty.name]
                  · cases hrest
                · cases hrest
              · cases hrest
            · cases hrest
          · cases hrest
      · cases h
    · cases h
  · cases h
