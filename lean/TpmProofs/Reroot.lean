import TpmProofs.MsgSound
import TpmModel.Root
/-!
# Decoding below a caller-supplied root path = decoding at the default root, re-rooted

`Binary.marshal(..., root_path=R)` hands `R` to the walker as its start path.  Every path the walkers emit — in events, in the
errors' details, in the size regions they keep — is the start path extended by field names and element indices, so replacing
the start path replaces a prefix and nothing else.  Stated as an equation: with `f p = R ++ p.drop 1` (swap the one-node default
root for `R`), `mapSt f` / `mapR f` the re-rooting of a state / a result,

    decode abort t (f path) sel (mapSt f s) = mapR f (decode abort t path sel s)

for every walker (either mode), every layout, every state and input — and likewise for commands, responses and streams.
-/

section
variable (f : Path → Path)

def mapErr : Err → Err
  | .value p ty x => .value (f p) ty x
  | .valueNone p ty => .valueNone (f p) ty
  | .exceeded cid cp m a v b => .exceeded cid (f cp) m a (f v) b
  | .subceeded cid cp m a => .subceeded cid (f cp) m a
  | .anticipated cid cp m a v x b => .anticipated cid (f cp) m a (f v) x b
  | .depleted => .depleted
  | .crash c s => .crash c s

def mapEv : Event → Event
  | .marshal m => .marshal { m with path := f m.path }
  | .warning e => .warning (mapErr f e)

def mapSC (c : SC) : SC := { c with path := f c.path }

def mapSt (s : St) : St := { s with out := s.out.map fun ke => (ke.1, mapEv f ke.2), scs := s.scs.map (mapSC f) }

def mapR {α : Type} : R α → R α
  | .ok (a, s) => .ok (a, mapSt f s)
  | .error (e, s) => .error (mapErr f e, mapSt f s)

variable {f}

theorem mapR_bind {α β : Type} (r : R α) (k k' : α → St → R β) (h : ∀ a t, k' a (mapSt f t) = mapR f (k a t)) :
    (mapR f r).bind k' = mapR f (r.bind k) := by
  cases r with
  | ok at' => obtain ⟨a, t⟩ := at'; simp only [mapR, R.bind_ok]; exact h a t
  | error et => obtain ⟨e, t⟩ := et; rfl

@[simp] theorem mapSt_pos (s : St) : (mapSt f s).pos = s.pos := rfl
@[simp] theorem mapSt_inp (s : St) : (mapSt f s).inp = s.inp := rfl
@[simp] theorem mapSt_scs (s : St) : (mapSt f s).scs = s.scs.map (mapSC f) := rfl

theorem mapSt_emitM (e : MEvent) (s : St) : emitM { e with path := f e.path } (mapSt f s) = mapSt f (emitM e s) := by
  simp [emitM, emit, mapSt, mapEv]

theorem mapSt_emitW (e : Err) (s : St) : emitW (mapErr f e) (mapSt f s) = mapSt f (emitW e s) := by
  simp [emitW, emit, mapSt, mapEv]

theorem mapSt_withScs (s : St) (scs : List SC) : { mapSt f s with scs := scs.map (mapSC f) } = mapSt f { s with scs := scs } := rfl

theorem take_map (n : Nat) (s : St) : take n (mapSt f s) = mapR f (take n s) := by
  unfold take
  by_cases h : s.inp.length < n <;> simp [h, mapR, mapSt, mapErr]

theorem consume_map (n : Nat) (s : St) : consume n (mapSt f s) = mapR f (consume n s) := by
  unfold consume
  rw [take_map]
  exact mapR_bind _ _ _ (fun _ _ => rfl)

theorem over_map (c : SC) (n : Nat) : (mapSC f c).over n = c.over n := rfl

theorem bpGo_map (path : Path) (size : Nat) : ∀ (todo done : List SC) (s : St),
    bpGo (f path) size (done.map (mapSC f)) (todo.map (mapSC f)) (mapSt f s) = mapR f (bpGo path size done todo s) := by
  intro todo
  induction todo with
  | nil => intro done s; simp only [List.map_nil, bpGo]; rfl
  | cons c rest ih =>
    intro done s
    simp only [List.map_cons]
    unfold bpGo
    rw [over_map]
    split
    · simp only [show (mapSC f c).max = c.max from rfl, show (mapSC f c).already = c.already from rfl,
        show (mapSC f c).id = c.id from rfl, show (mapSC f c).path = f c.path from rfl]
      have hs : (⟨(mapSt f s).inp, (mapSt f s).pos, (mapSt f s).out,
            (done.map (mapSC f)).map fun d => ⟨d.id, d.path, d.already - (size - (c.max.getD 0 - c.already)), d.max⟩⟩ : St) =
          mapSt f ⟨s.inp, s.pos, s.out, done.map fun d => ⟨d.id, d.path, d.already - (size - (c.max.getD 0 - c.already)), d.max⟩⟩ := by
        simp [mapSt, mapSC, List.map_map, Function.comp_def]
      rw [hs, consume_map]
      exact mapR_bind _ _ _ (fun _ _ => rfl)
    · have := ih (done ++ [c.bump size]) s
      simpa [List.map_append, mapSC, SC.bump] using this

theorem bytesParsed_map (path : Path) (size : Nat) (s : St) : bytesParsed (f path) size (mapSt f s) = mapR f (bytesParsed path size s) := by
  unfold bytesParsed
  have := bpGo_map (f := f) path size s.scs [] s
  simpa using this

theorem readPrim_map (abort : Bool) (p : Prim) (path : Path) (s : St) :
    readPrim abort p (f path) (mapSt f s) = mapR f (readPrim abort p path s) := by
  unfold readPrim
  rw [bytesParsed_map]
  refine mapR_bind _ _ _ (fun _ t => ?_)
  rw [take_map]
  refine mapR_bind _ _ _ (fun bs t2 => ?_)
  simp only []
  split
  · simp only [mapR]
    rw [← mapSt_emitM]
  · split
    · rfl
    · simp only [mapR]
      rw [← mapSt_emitW, ← mapSt_emitM]
      rfl

theorem anticipate_map (vpath : Path) (v id : Nat) : ∀ (scs : List SC),
    anticipate (f vpath) v id (scs.map (mapSC f)) = (anticipate vpath v id scs).map (mapErr f) := by
  intro scs
  induction scs with
  | nil => rfl
  | cons c rest ih =>
    simp only [List.map_cons]
    unfold anticipate
    simp only [show (mapSC f c).id = c.id from rfl, over_map]
    split
    · exact ih
    · split
      · rfl
      · exact ih

theorem anticipateM_map (abort : Bool) (vpath : Path) (v id : Nat) (s : St) :
    anticipateM abort (f vpath) v id (mapSt f s) = mapR f (anticipateM abort vpath v id s) := by
  unfold anticipateM
  simp only [mapSt_scs, anticipate_map]
  cases anticipate vpath v id s.scs with
  | none => rfl
  | some e =>
    simp only [Option.map_some]
    split
    · rfl
    · simp only [mapR]; rw [← mapSt_emitW]

theorem openRegion_map (abort : Bool) (id : Nat) (cpath : Path) (n : Nat) (s : St) :
    openRegion abort id (f cpath) n (mapSt f s) = mapR f (openRegion abort id cpath n s) := by
  unfold openRegion
  rw [anticipateM_map]
  refine mapR_bind _ _ _ (fun _ t => ?_)
  simp [mapR, mapSt, mapSC]

theorem setListed_map (abort : Bool) (id : Nat) (cpath : Path) (n : Nat) (s : St) :
    setListed abort id (f cpath) n (mapSt f s) = mapR f (setListed abort id cpath n s) := by
  unfold setListed
  simp only []
  have hs : ({ mapSt f s with scs := (mapSt f s).scs.map fun c => if c.id = id then { c with path := f cpath, max := some n } else c } : St) =
      mapSt f { s with scs := s.scs.map fun c => if c.id = id then { c with path := cpath, max := some n } else c } := by
    simp only [mapSt, List.map_map]
    congr 1
    apply List.map_congr_left
    intro c _
    simp only [Function.comp, mapSC]
    by_cases hc : c.id = id <;> simp [hc]
  rw [hs]
  exact anticipateM_map abort cpath n id _

theorem findSC_map (id : Nat) (scs : List SC) : findSC id (scs.map (mapSC f)) = (findSC id scs).map (mapSC f) := by
  unfold findSC
  induction scs with
  | nil => rfl
  | cons c rest ih =>
    simp only [List.map_cons, List.find?_cons, show (mapSC f c).id = c.id from rfl]
    split
    · rfl
    · exact ih

theorem removeSC_map (id : Nat) (scs : List SC) : removeSC id (scs.map (mapSC f)) = (removeSC id scs).map (mapSC f) := by
  unfold removeSC
  induction scs with
  | nil => rfl
  | cons c rest ih =>
    simp only [List.map_cons, List.filter_cons, show (mapSC f c).id = c.id from rfl]
    split
    · simp only [List.map_cons, ih]
    · exact ih

theorem assertDoneSC_map (abort : Bool) (c : SC) (s : St) :
    assertDoneSC abort (mapSC f c) (mapSt f s) = mapR f (assertDoneSC abort c s) := by
  unfold assertDoneSC
  simp only [show (mapSC f c).max = c.max from rfl, show (mapSC f c).already = c.already from rfl,
    show (mapSC f c).id = c.id from rfl, show (mapSC f c).path = f c.path from rfl]
  cases c.max with
  | none => rfl
  | some m =>
    simp only []
    split
    · rfl
    · split
      · rfl
      · have he : emitW (Err.subceeded c.id (f c.path) m c.already) (mapSt f s) = mapSt f (emitW (.subceeded c.id c.path m c.already) s) :=
          mapSt_emitW (f := f) (.subceeded c.id c.path m c.already) s
        rw [he]
        split
        · rw [bytesParsed_map]
          exact mapR_bind _ _ _ (fun _ t => consume_map _ t)
        · rfl

theorem assertDone_map (abort : Bool) (id : Nat) (s : St) : assertDone abort id (mapSt f s) = mapR f (assertDone abort id s) := by
  unfold assertDone
  simp only [mapSt_scs, findSC_map, removeSC_map]
  cases findSC id s.scs with
  | none => rfl
  | some c =>
    simp only [Option.map_some]
    exact assertDoneSC_map abort c { s with scs := removeSC id s.scs }

theorem ownCatch_map (abort : Bool) (id : Nat) (r : R Val) (k k' : Val → St → R Val) (h : ∀ a t, k' a (mapSt f t) = mapR f (k a t)) :
    ownCatch abort id (mapR f r) k' = mapR f (ownCatch abort id r k) := by
  cases r with
  | ok vs => obtain ⟨v, t⟩ := vs; simp only [mapR, ownCatch]; exact h v t
  | error es =>
    obtain ⟨e, t⟩ := es
    cases e with
    | exceeded cid cp m a v b =>
      simp only [mapR, mapErr, ownCatch]
      split
      · rfl
      · simp only [mapR]
        rw [← mapSt_emitW]; rfl
    | _ => rfl
end

/-! ## re-rooting: swap the one-node default root for `R` -/

def rr (Rt : Path) : Path → Path
  | [] => []                       -- (the placeholder path of a message's region before its size field is read)
  | _ :: rest => Rt ++ rest

theorem rr_append (Rt : Path) (p y : Path) (h : 1 ≤ p.length) : rr Rt (p ++ y) = rr Rt p ++ y := by
  cases p with
  | nil => simp at h
  | cons a rest => simp [rr, List.append_assoc]

theorem rr_root (Rt : Path) : rr Rt rootPath = Rt := by simp [rr, rootPath]

theorem rr_nil (Rt : Path) : rr Rt [] = [] := rfl

theorem rr_elemPath (Rt : Path) (p : Path) (n : PathNode) (i : Nat) (h : 1 ≤ p.length) :
    rr Rt (elemPath (p ++ [n]) i) = elemPath (rr Rt p ++ [n]) i := by
  unfold elemPath
  simp only [List.dropLast_concat, List.getLast?_append, List.getLast?_singleton, Option.some_or]
  rw [rr_append Rt p _ h]

section
variable (Rt : Path)

theorem emitM_rr (path : Path) (tag : TyTag) (val : Option Int) (cls : String) (w : Nat) (s : St) :
    emitM ⟨rr Rt path, tag, val, cls, w⟩ (mapSt (rr Rt) s) = mapSt (rr Rt) (emitM ⟨path, tag, val, cls, w⟩ s) :=
  mapSt_emitM (f := rr Rt) ⟨path, tag, val, cls, w⟩ s

theorem elemPath_len (p : Path) (i : Nat) : 1 ≤ (elemPath p i).length := by simp [elemPath]

theorem repeatDec_map (g g' : Path → St → R Val) (q : Path) (nd : PathNode) (hq : 1 ≤ q.length)
    (hg : ∀ i s, g' (elemPath (rr Rt q ++ [nd]) i) (mapSt (rr Rt) s) = mapR (rr Rt) (g (elemPath (q ++ [nd]) i) s)) :
    ∀ (n i : Nat) (s : St), repeatDec g' (rr Rt q ++ [nd]) n i (mapSt (rr Rt) s) = mapR (rr Rt) (repeatDec g (q ++ [nd]) n i s) := by
  intro n
  induction n with
  | zero => intro i s; rfl
  | succ m ih =>
    intro i s
    unfold repeatDec
    rw [hg]
    refine mapR_bind _ _ _ (fun v t => ?_)
    rw [ih]
    exact mapR_bind _ _ _ (fun _ _ => rfl)

theorem readPrimList_map (abort : Bool) (p : Prim) (q : Path) (nd : PathNode) (hq : 1 ≤ q.length) (n : Nat) (s : St) :
    readPrimList abort p (rr Rt q ++ [nd]) n (mapSt (rr Rt) s) = mapR (rr Rt) (readPrimList abort p (q ++ [nd]) n s) := by
  unfold readPrimList
  rw [← rr_append Rt q [nd] hq, emitM_rr, rr_append Rt q [nd] hq]
  rw [repeatDec_map Rt _ _ q nd hq (fun i s => by
    rw [← rr_elemPath Rt q nd i hq]; exact readPrim_map abort p _ s)]
  exact mapR_bind _ _ _ (fun _ _ => rfl)

theorem readListArm_map (abort : Bool) (elem : Prim) (n : Option Nat) (q : Path) (nd : PathNode) (hq : 1 ≤ q.length) (s : St) :
    readListArm abort elem n (rr Rt q ++ [nd]) (mapSt (rr Rt) s) = mapR (rr Rt) (readListArm abort elem n (q ++ [nd]) s) := by
  unfold readListArm
  cases n with
  | none => rfl
  | some k => exact readPrimList_map Rt abort elem q nd hq k s

theorem fieldWith_map (d d' : Path → Option Int → St → R Val) (q : Path) (nd : PathNode) (hq : 1 ≤ q.length)
    (hd0 : ∀ sel s, d' (rr Rt q ++ [nd]) sel (mapSt (rr Rt) s) = mapR (rr Rt) (d (q ++ [nd]) sel s))
    (hdi : ∀ i s, d' (elemPath (rr Rt q ++ [nd]) i) none (mapSt (rr Rt) s) = mapR (rr Rt) (d (elemPath (q ++ [nd]) i) none s))
    (tname : String) (kind : FKind) (vals : List (String × Val)) (s : St) :
    decodeFieldWith d' tname kind (rr Rt q ++ [nd]) vals (mapSt (rr Rt) s) =
      mapR (rr Rt) (decodeFieldWith d tname kind (q ++ [nd]) vals s) := by
  cases kind with
  | plain => exact hd0 none s
  | selected sel =>
    simp only [decodeFieldWith]
    split
    · rfl
    · exact hd0 _ s
  | counted =>
    simp only [decodeFieldWith]
    split
    · rfl
    · rw [← rr_append Rt q [nd] hq, emitM_rr, rr_append Rt q [nd] hq]
      rw [repeatDec_map Rt (fun p s => d p none s) (fun p s => d' p none s) q nd hq (fun i s => hdi i s)]
      exact mapR_bind _ _ _ (fun _ _ => rfl)

mutual
theorem decode_map (abort : Bool) : (t : Ty) → ∀ (path : Path), 1 ≤ path.length → ∀ (sel : Option Int) (s : St),
    decode abort t (rr Rt path) sel (mapSt (rr Rt) s) = mapR (rr Rt) (decode abort t path sel s)
  | .prim p, path, _, sel, s => by simp only [decode]; exact readPrim_map abort p path s
  | .struct name isP fs, path, hp, sel, s => by
    simp only [decode]
    rw [emitM_rr, fields_map abort fs path hp]
    exact mapR_bind _ _ _ (fun _ _ => rfl)
  | .tpm2bBytes name szName szP bufName elem, path, hp, sel, s => by
    simp only [decode]
    rw [emitM_rr, ← rr_append Rt path _ hp, readPrim_map]
    refine mapR_bind _ _ _ (fun nv s1 => ?_)
    simp only [mapSt_pos]
    split
    · rfl
    · rw [openRegion_map]
      refine mapR_bind _ _ _ (fun _ s2 => ?_)
      rw [readPrimList_map Rt abort elem path _ hp]
      refine mapR_bind _ _ _ (fun bv s3 => ?_)
      rw [assertDone_map]
      exact mapR_bind _ _ _ (fun _ _ => rfl)
  | .tpm2b name szName szP bufName body, path, hp, sel, s => by
    simp only [decode]
    rw [emitM_rr, ← rr_append Rt path _ hp, readPrim_map]
    refine mapR_bind _ _ _ (fun nv s1 => ?_)
    simp only [mapSt_pos]
    split
    · rfl
    · rw [openRegion_map]
      refine mapR_bind _ _ _ (fun _ s2 => ?_)
      split
      · rw [← rr_append Rt path _ hp, emitM_rr, assertDone_map]
        exact mapR_bind _ _ _ (fun _ _ => rfl)
      · rw [← rr_append Rt path _ hp, decode_map abort body _ (by simp) none s2]
        exact ownCatch_map abort _ _ _ _ (fun bv s3 => by
          rw [assertDone_map]
          exact mapR_bind _ _ _ (fun _ _ => rfl))
  | .union name arms, path, hp, sel, s => by
    simp only [decode]
    rw [emitM_rr]
    split
    · split <;> rfl
    · exact arm_map abort arms name _ path hp _
  | .bad r, path, _, sel, s => by simp only [decode]; rfl

theorem arm_map (abort : Bool) : (arms : Arms) → ∀ (un want : String) (path : Path), 1 ≤ path.length → ∀ (s : St),
    decodeArm abort arms un want (rr Rt path) (mapSt (rr Rt) s) = mapR (rr Rt) (decodeArm abort arms un want path s)
  | .nil, un, want, path, _, s => by simp only [decodeArm]; rfl
  | .consNone an key rest, un, want, path, hp, s => by
    simp only [decodeArm]
    split
    · rfl
    · exact arm_map abort rest un want path hp s
  | .cons an key t rest, un, want, path, hp, s => by
    simp only [decodeArm]
    split
    · rw [← rr_append Rt path _ hp, decode_map abort t _ (by simp) none s]
      exact mapR_bind _ _ _ (fun _ _ => rfl)
    · exact arm_map abort rest un want path hp s
  | .consBytes an key elem n rest, un, want, path, hp, s => by
    simp only [decodeArm]
    split
    · rw [readListArm_map Rt abort elem n path _ hp]
      exact mapR_bind _ _ _ (fun _ _ => rfl)
    · exact arm_map abort rest un want path hp s

theorem fields_map (abort : Bool) : (fs : Fields) → ∀ (path : Path), 1 ≤ path.length → ∀ (vals : List (String × Val)) (s : St),
    decodeFields abort fs (rr Rt path) vals (mapSt (rr Rt) s) = mapR (rr Rt) (decodeFields abort fs path vals s)
  | .nil, path, _, vals, s => by simp only [decodeFields]; rfl
  | .cons fname kind t rest, path, hp, vals, s => by
    simp only [decodeFields]
    rw [fieldWith_map Rt _ _ path ⟨fname, none⟩ hp
      (fun sel s => by rw [← rr_append Rt path _ hp]; exact decode_map abort t _ (by simp) sel s)
      (fun i s => by rw [← rr_elemPath Rt path _ i hp]; exact decode_map abort t _ (elemPath_len _ i) none s)]
    exact mapR_bind _ _ _ (fun v t' => fields_map abort rest path hp _ t')
end
end

/-! ## messages -/
section
variable (Rt : Path)

theorem decodeArea_map (abort : Bool) (tb : MsgTables) (enc : Bool) (t : Ty) (path : Path) (hp : 1 ≤ path.length) (s : St) :
    decodeArea abort tb enc t (rr Rt path) (mapSt (rr Rt) s) = mapR (rr Rt) (decodeArea abort tb enc t path s) := by
  unfold decodeArea
  split
  · split
    · exact decode_map Rt abort t path hp none s
    · rw [emitM_rr, fields_map Rt abort _ path hp]
      exact mapR_bind _ _ _ (fun _ _ => rfl)
  · exact decode_map Rt abort t path hp none s

theorem sizedLoop_map (abort : Bool) (t : Ty) (q : Path) (nd : PathNode) (hq : 1 ≤ q.length) (cid : Nat) :
    ∀ (fuel i : Nat) (acc : List Val) (s : St),
    sizedLoop abort t (rr Rt q ++ [nd]) cid fuel i acc (mapSt (rr Rt) s) = mapR (rr Rt) (sizedLoop abort t (q ++ [nd]) cid fuel i acc s) := by
  intro fuel
  induction fuel with
  | zero => intro i acc s; rfl
  | succ n ih =>
    intro i acc s
    unfold sizedLoop
    simp only [mapSt_scs, findSC_map]
    cases findSC cid s.scs with
    | none => rfl
    | some c =>
      simp only [Option.map_some, show (mapSC (rr Rt) c).max = c.max from rfl, show (mapSC (rr Rt) c).already = c.already from rfl]
      cases c.max with
      | none => rfl
      | some m =>
        simp only []
        split
        · rw [← rr_elemPath Rt q nd i hq, decode_map Rt abort t _ (elemPath_len _ i) none s]
          exact ownCatch_map abort _ _ _ _ (fun v s1 => ih _ _ s1)
        · have hst : (⟨(mapSt (rr Rt) s).inp, (mapSt (rr Rt) s).pos, (mapSt (rr Rt) s).out, removeSC cid (List.map (mapSC (rr Rt)) s.scs)⟩ : St) =
              mapSt (rr Rt) ⟨s.inp, s.pos, s.out, removeSC cid s.scs⟩ := by simp [mapSt, removeSC_map]
          rw [hst, assertDoneSC_map]
          exact mapR_bind _ _ _ (fun _ _ => rfl)

theorem sizedFuel_map (cid : Nat) (scs : List SC) : sizedFuel cid (scs.map (mapSC (rr Rt))) = sizedFuel cid scs := by
  unfold sizedFuel
  rw [findSC_map]
  cases findSC cid scs <;> rfl

theorem decodeSized_map (abort : Bool) (t : Ty) (q : Path) (nd : PathNode) (hq : 1 ≤ q.length) (cid : Nat) (s : St) :
    decodeSized abort t (rr Rt q ++ [nd]) cid (mapSt (rr Rt) s) = mapR (rr Rt) (decodeSized abort t (q ++ [nd]) cid s) := by
  unfold decodeSized
  simp only []
  rw [← rr_append Rt q [nd] hq, emitM_rr, rr_append Rt q [nd] hq]
  have hf : sizedFuel cid (mapSt (rr Rt) (emitM ⟨q ++ [nd], .listOf t.name, none, "", 0⟩ s)).scs =
      sizedFuel cid (emitM ⟨q ++ [nd], .listOf t.name, none, "", 0⟩ s).scs := sizedFuel_map Rt cid _
  rw [hf]
  exact sizedLoop_map Rt abort t q nd hq cid _ 0 [] _

theorem msgCatch_map (abort : Bool) (id1 id2 : Nat) (name : String) (vals : List (String × Val)) (r : R Val) (k k' : Val → St → R Val)
    (h : ∀ a t, k' a (mapSt (rr Rt) t) = mapR (rr Rt) (k a t)) :
    msgCatch abort id1 id2 name vals (mapR (rr Rt) r) k' = mapR (rr Rt) (msgCatch abort id1 id2 name vals r k) := by
  cases r with
  | ok vs => obtain ⟨v, t⟩ := vs; simp only [mapR, msgCatch]; exact h v t
  | error es =>
    obtain ⟨e, t⟩ := es
    cases e with
    | exceeded cid cp m a v b =>
      simp only [mapR, mapErr, msgCatch]
      split
      · rfl
      · simp only [mapR]
        rw [← mapSt_emitW]; rfl
    | _ => rfl

theorem initMsg_map (path : Path) (name : String) (s0 : St) :
    emitM ⟨rr Rt path, .named name false, none, "", 0⟩ ⟨(mapSt (rr Rt) s0).inp, s0.pos, (mapSt (rr Rt) s0).out, [⟨s0.pos, [], 0, none⟩]⟩ =
      mapSt (rr Rt) (emitM ⟨path, .named name false, none, "", 0⟩ ⟨s0.inp, s0.pos, s0.out, [⟨s0.pos, [], 0, none⟩]⟩) := by
  simp [emitM, emit, mapSt, mapEv, mapSC, rr]

theorem decodeSized_map' (abort : Bool) (t : Ty) (q : Path) (nd : PathNode) (hq : 1 ≤ q.length) (cid : Nat) (s : St) :
    decodeSized abort t (rr Rt (q ++ [nd])) cid (mapSt (rr Rt) s) = mapR (rr Rt) (decodeSized abort t (q ++ [nd]) cid s) := by
  rw [rr_append Rt q [nd] hq]; exact decodeSized_map Rt abort t q nd hq cid s

macro "rr_step" Rt:term "," hp:term : tactic => `(tactic| first
  | (rw [readPrim_map]; refine msgCatch_map $Rt _ _ _ _ _ _ _ _ (fun _ _ => ?_))
  | (rw [decodeArea_map $Rt _ _ _ _ _ (by simp)]; refine msgCatch_map $Rt _ _ _ _ _ _ _ _ (fun _ _ => ?_))
  | (rw [decodeSized_map' $Rt _ _ _ _ $hp]; refine msgCatch_map $Rt _ _ _ _ _ _ _ _ (fun _ _ => ?_))
  | (rw [setListed_map]; refine mapR_bind _ _ _ (fun _ _ => ?_))
  | (rw [openRegion_map]; refine mapR_bind _ _ _ (fun _ _ => ?_))
  | (rw [assertDone_map]; refine mapR_bind _ _ _ (fun _ _ => ?_))
  | split
  | rfl)

theorem decodeCommand_map (abort : Bool) (tb : MsgTables) (path : Path) (hp : 1 ≤ path.length) (s0 : St) :
    decodeCommand abort tb (rr Rt path) (mapSt (rr Rt) s0) = mapR (rr Rt) (decodeCommand abort tb path s0) := by
  unfold decodeCommand
  simp only [mapSt_pos, ← rr_append Rt path _ hp]
  rw [initMsg_map]
  repeat' rr_step Rt, hp

macro "rr_stepR" Rt:term "," hp:term : tactic => `(tactic| first
  | (rw [readPrim_map]; refine msgCatch_map $Rt _ _ _ _ _ _ _ _ (fun _ _ => ?_))
  | (rw [decodeArea_map $Rt _ _ _ _ _ (by simp)]; refine msgCatch_map $Rt _ _ _ _ _ _ _ _ (fun _ _ => ?_))
  | (rw [decodeArea_map $Rt _ _ _ _ _ (by simp)]; refine msgCatch_map $Rt _ _ _ _ _ _ _ _ (fun _ _ => ?_)
      |>.trans ?_)
  | (rw [decodeSized_map' $Rt _ _ _ _ $hp]; refine msgCatch_map $Rt _ _ _ _ _ _ _ _ (fun _ _ => ?_))
  | (rw [setListed_map]; refine mapR_bind _ _ _ (fun _ _ => ?_))
  | (rw [openRegion_map]; refine mapR_bind _ _ _ (fun _ _ => ?_))
  | (rw [assertDone_map]; refine mapR_bind _ _ _ (fun _ _ => ?_))
  | (simp only [mapSt_scs, List.isEmpty_map])
  | split
  | rfl)

/-- the parameter area of a response together with the `assert_done` of `parameterSize` (one step under the `except`) -/
theorem paramsStepT_map (abort : Bool) (tb : MsgTables) (enc : Bool) (pty : Ty) (p : Path) (hp : 1 ≤ p.length) (pid : Nat) (s : St) :
    ((decodeArea abort tb enc pty (rr Rt p) (mapSt (rr Rt) s)).bind fun pv s =>
        (assertDone abort pid s).bind fun _ s => .ok (pv, s)) =
      mapR (rr Rt) ((decodeArea abort tb enc pty p s).bind fun pv s =>
        (assertDone abort pid s).bind fun _ s => (.ok (pv, s) : R Val)) := by
  rw [decodeArea_map Rt _ _ _ _ _ hp]
  refine mapR_bind _ _ _ (fun pv t => ?_)
  rw [assertDone_map]
  exact mapR_bind _ _ _ (fun _ _ => rfl)

theorem paramsStepF_map (abort : Bool) (tb : MsgTables) (enc : Bool) (pty : Ty) (p : Path) (hp : 1 ≤ p.length) (s : St) :
    ((decodeArea abort tb enc pty (rr Rt p) (mapSt (rr Rt) s)).bind fun pv s => (.ok (pv, s) : R Val)) =
      mapR (rr Rt) ((decodeArea abort tb enc pty p s).bind fun pv s => (.ok (pv, s) : R Val)) := by
  rw [decodeArea_map Rt _ _ _ _ _ hp]
  exact mapR_bind _ _ _ (fun _ _ => rfl)

set_option maxHeartbeats 1000000 in
theorem decodeResponse_map (abort : Bool) (tb : MsgTables) (cc : Option Int) (enc : Bool) (path : Path) (hp : 1 ≤ path.length) (s0 : St) :
    decodeResponse abort tb cc enc (rr Rt path) (mapSt (rr Rt) s0) = mapR (rr Rt) (decodeResponse abort tb cc enc path s0) := by
  unfold decodeResponse
  simp only [mapSt_pos, ← rr_append Rt path _ hp]
  rw [initMsg_map]
  have finish : ∀ (vals : List (String × Val)) (s : St),
      ((assertDone abort s0.pos (mapSt (rr Rt) s)).bind fun _ s =>
        if s.scs.isEmpty then (.ok (.obj "Response" false vals, s) : R Val)
        else crash "AssertionError" "size_constraints.assert_done()" s) =
      mapR (rr Rt) ((assertDone abort s0.pos s).bind fun _ s =>
        if s.scs.isEmpty then (.ok (.obj "Response" false vals, s) : R Val)
        else crash "AssertionError" "size_constraints.assert_done()" s) := by
    intro vals s
    rw [assertDone_map]
    refine mapR_bind _ _ _ (fun _ t => ?_)
    simp only [mapSt_scs, List.isEmpty_map]
    split <;> rfl
  rw [readPrim_map]; refine msgCatch_map Rt _ _ _ _ _ _ _ _ (fun tag s1 => ?_)
  rw [readPrim_map]; refine msgCatch_map Rt _ _ _ _ _ _ _ _ (fun rsz s2 => ?_)
  split
  · rfl
  · split
    · rfl
    · rw [setListed_map]; refine mapR_bind _ _ _ (fun _ s3 => ?_)
      rw [readPrim_map]; refine msgCatch_map Rt _ _ _ _ _ _ _ _ (fun rcv s4 => ?_)
      split
      · exact finish _ _
      · split
        · split <;> rfl
        · rw [decodeArea_map Rt _ _ _ _ _ (by simp)]; refine msgCatch_map Rt _ _ _ _ _ _ _ _ (fun hv s5 => ?_)
          have after : ∀ (vals : List (String × Val)) (s8 : St),
              (if (!(vInt tag == some tb.sessionsTag)) = true then
                  (assertDone abort s0.pos (mapSt (rr Rt) s8)).bind fun _ s =>
                    if s.scs.isEmpty then (.ok (.obj "Response" false vals, s) : R Val)
                    else crash "AssertionError" "size_constraints.assert_done()" s
                else
                  msgCatch abort s0.pos (s0.pos + 1) "Response" vals
                    (decodeSized abort tb.authRsp (rr Rt (path ++ [(⟨"authorizationArea", none⟩ : PathNode)])) s0.pos (mapSt (rr Rt) s8)) fun area s =>
                    match areaFlag tb.authRsp "encrypt" area with
                    | .error cls => crash cls "is_parameter_encryption" s
                    | .ok expected =>
                      if expected != enc then crash "AssertionError" "process_response: parameter_encryption mismatch" s else
                      if s.scs.isEmpty then .ok (.obj "Response" false (vals ++ [("authorizationArea", area)]), s)
                      else crash "AssertionError" "size_constraints.assert_done()" s) =
              mapR (rr Rt) (if (!(vInt tag == some tb.sessionsTag)) = true then
                  (assertDone abort s0.pos s8).bind fun _ s =>
                    if s.scs.isEmpty then (.ok (.obj "Response" false vals, s) : R Val)
                    else crash "AssertionError" "size_constraints.assert_done()" s
                else
                  msgCatch abort s0.pos (s0.pos + 1) "Response" vals
                    (decodeSized abort tb.authRsp (path ++ [(⟨"authorizationArea", none⟩ : PathNode)]) s0.pos s8) fun area s =>
                    match areaFlag tb.authRsp "encrypt" area with
                    | .error cls => crash cls "is_parameter_encryption" s
                    | .ok expected =>
                      if expected != enc then crash "AssertionError" "process_response: parameter_encryption mismatch" s else
                      if s.scs.isEmpty then .ok (.obj "Response" false (vals ++ [("authorizationArea", area)]), s)
                      else crash "AssertionError" "size_constraints.assert_done()" s) := by
            intro vals s8
            split
            · exact finish _ _
            · rw [decodeSized_map' Rt _ _ _ _ hp]; refine msgCatch_map Rt _ _ _ _ _ _ _ _ (fun area s9 => ?_)
              split
              · rfl
              · split
                · rfl
                · simp only [mapSt_scs, List.isEmpty_map]
                  split <;> rfl
          split
          · rw [readPrim_map]; refine msgCatch_map Rt _ _ _ _ _ _ _ _ (fun psz s6 => ?_)
            split
            · rfl
            · split
              · rfl
              · rw [openRegion_map]; refine mapR_bind _ _ _ (fun _ s7 => ?_)
                split
                · split <;> rfl
                · rw [paramsStepT_map Rt _ _ _ _ _ (by simp)]
                  refine msgCatch_map Rt _ _ _ _ _ _ _ _ (fun pv s8 => ?_)
                  exact after _ s8
          · split
            · split <;> rfl
            · rw [paramsStepF_map Rt _ _ _ _ _ (by simp)]
              refine msgCatch_map Rt _ _ _ _ _ _ _ _ (fun pv s8 => ?_)
              exact after _ s8

theorem decodeStream_map (abort : Bool) (tb : MsgTables) (path : Path) (hp : 1 ≤ path.length) : ∀ (fuel : Nat) (s : St),
    decodeStream abort tb (rr Rt path) fuel (mapSt (rr Rt) s) = mapR (rr Rt) (decodeStream abort tb path fuel s) := by
  intro fuel
  induction fuel with
  | zero => intro s; rfl
  | succ n ih =>
    intro s
    unfold decodeStream
    simp only [mapSt_inp]
    by_cases he : s.inp.isEmpty = true
    · simp only [he, ↓reduceIte, mapR]; rw [emitM_rr]
    · simp only [he, ↓reduceIte]
      rw [decodeCommand_map Rt abort tb path hp]
      refine mapR_bind _ _ _ (fun cmd s1 => ?_)
      cases cmdEncrypt tb cmd with
      | error cls => rfl
      | ok enc =>
        simp only [mapSt_inp]
        by_cases he1 : s1.inp.isEmpty = true
        · simp only [he1, ↓reduceIte, mapR]; rw [emitM_rr]
        · simp only [he1, ↓reduceIte]
          rw [decodeResponse_map Rt abort tb _ _ path hp]
          exact mapR_bind _ _ _ (fun _ s2 => ih s2)
end

/-! ## the whole run below a caller-supplied root -/

theorem initSt_map (f : Path → Path) (x : List Byte) : mapSt f (initSt x) = initSt x := rfl

theorem runWalkerAt_rr (abort : Bool) (tb : MsgTables) (top : Top) (Rt : Path) (x : List Byte) :
    runWalkerAt abort tb top Rt x = mapR (rr Rt) (runWalker abort tb top x) := by
  unfold runWalkerAt runWalker
  have hr : 1 ≤ rootPath.length := by simp [rootPath]
  cases top with
  | ty t => simpa [rr_root, initSt_map] using decode_map Rt abort t rootPath hr none (initSt x)
  | command => simpa [rr_root, initSt_map] using decodeCommand_map Rt abort tb rootPath hr (initSt x)
  | response cc enc => simpa [rr_root, initSt_map] using decodeResponse_map Rt abort tb cc enc rootPath hr (initSt x)
  | stream => simpa [rr_root, initSt_map] using decodeStream_map Rt abort tb rootPath hr (x.length + 1) (initSt x)

def mapOutcome (f : Path → Path) : Outcome → Outcome
  | .raised e rem => .raised (mapErr f e) rem
  | o => o

def mapRun (f : Path → Path) (r : Run) : Run :=
  ⟨r.events.map fun ke => (ke.1, mapEv f ke.2), mapOutcome f r.outcome, r.cc⟩

/-- every field / structure event of the trace lies at or below the default root -/
def Rooted (trace : List (Nat × Event)) : Prop := ∀ ke ∈ trace, ∀ m, ke.2 = .marshal m → ∃ r, m.path = rootPath ++ r

theorem rr_rooted (Rt : Path) (r : Path) : rr Rt (rootPath ++ r) = Rt ++ r := by simp [rr, rootPath]

theorem pumpEventsAt_map (Rt : Path) (isStream : Bool) (len : Nat) : ∀ (trace acc : List (Nat × Event)) (cc : Option Int),
    Rooted trace →
    pumpEventsAt Rt isStream len (trace.map fun ke => (ke.1, mapEv (rr Rt) ke.2)) (acc.map fun ke => (ke.1, mapEv (rr Rt) ke.2)) cc =
      ((pumpEvents isStream len trace acc cc).1.map (fun ke => (ke.1, mapEv (rr Rt) ke.2)),
       (pumpEvents isStream len trace acc cc).2.1, (pumpEvents isStream len trace acc cc).2.2) := by
  intro trace
  induction trace with
  | nil => intro acc cc _; rfl
  | cons ke rest ih =>
    intro acc cc hr
    obtain ⟨k, e⟩ := ke
    have hroot : isRootEllipsisAt Rt (mapEv (rr Rt) e) = isRootEllipsis e := by
      cases e with
      | warning w => rfl
      | marshal m =>
        obtain ⟨r, hm⟩ := hr (k, .marshal m) (by simp) m rfl
        simp only [isRootEllipsisAt, isRootEllipsis, mapEv, hm, rr_rooted]
        congr 1
        cases r with
        | nil => simp
        | cons a t => simp [rootPath]
    have hcc : ccOfAt Rt (mapEv (rr Rt) e) cc = ccOf e cc := by
      cases e with
      | warning w => rfl
      | marshal m =>
        obtain ⟨r, hm⟩ := hr (k, .marshal m) (by simp) m rfl
        simp only [ccOfAt, ccOf, mapEv, hm, rr_rooted]
        have h1 : (Rt ++ r == Rt ++ [(⟨"commandCode", none⟩ : PathNode)]) = (r == [(⟨"commandCode", none⟩ : PathNode)]) := by
          rw [Bool.eq_iff_iff]; simp
        have h2 : (rootPath ++ r == rootPath ++ [(⟨"commandCode", none⟩ : PathNode)]) = (r == [(⟨"commandCode", none⟩ : PathNode)]) := by
          rw [Bool.eq_iff_iff]; simp
        rw [h1, h2]
    simp only [List.map_cons, pumpEventsAt, pumpEvents, hroot, hcc]
    split
    · rfl
    · have := ih (acc ++ [(min (k + 1) len, e)]) (ccOf e cc) (fun ke hke => hr ke (by simp [hke]))
      simpa [List.map_append] using this

theorem pumpOutcome_map (f : Path → Path) (x : List Byte) (r : R Val) :
    pumpOutcome x (stOf (mapR f r)).pos (resOf (mapR f r)) = mapOutcome f (pumpOutcome x (stOf r).pos (resOf r)) := by
  cases r with
  | ok vs =>
    obtain ⟨v, s⟩ := vs
    simp only [mapR, stOf, resOf, pumpOutcome, mapSt_pos]
    by_cases h : s.pos < x.length <;> simp [h, mapOutcome]
  | error es =>
    obtain ⟨e, s⟩ := es
    cases e <;> rfl

/-- **decoding below a caller-supplied root** (either mode, any tables, every layout, commands, responses, streams, every input whose
default-root trace is rooted — which every decoder trace is): the whole observation is the default-root observation re-rooted; in
particular a stream ends silently below `R` exactly when it does at the default root -/
theorem marshalRunAt_rr (abort : Bool) (tb : MsgTables) (top : Top) (Rt : Path) (x : List Byte)
    (hr : Rooted (stOf (runWalker abort tb top x)).out) :
    marshalRunAt abort tb top Rt x = mapRun (rr Rt) (marshalRun abort tb top x) := by
  unfold marshalRunAt marshalRun pumpAt pump
  rw [runWalkerAt_rr]
  have hout : (stOf (mapR (rr Rt) (runWalker abort tb top x))).out =
      (stOf (runWalker abort tb top x)).out.map fun ke => (ke.1, mapEv (rr Rt) ke.2) := by
    cases runWalker abort tb top x with
    | ok vs => rfl
    | error es => rfl
  have hp := pumpEventsAt_map Rt top.isStream x.length (stOf (runWalker abort tb top x)).out [] none hr
  simp only [List.map_nil] at hp
  simp only [hout, hp, pumpOutcome_map, mapRun]
  congr 1
  split <;> rfl
