import TpmProofs.Trace
import TpmProofs.Modes
/-!
# Warn mode accounts for every input byte (C08 tiling, C02 in warn mode)

`AcctW s r`: in a warn-mode step from `s`, the input consumed is, in order, one segment per event emitted: for a field
event exactly the bytes of its value at its declared width; for a warning about a sized region (`exceeded`: the skipped
rest of the overrun region — exactly `max − already` bytes; `subceeded`: the padding up to the region's declared end)
the bytes skipped on its account; for any other warning (out-of-range value, anticipated overrun) nothing.  If the step
stops with an error there may be bytes consumed but not yet accounted (`off`: the rest of a region whose overrun is
still on its way to the region's owner, or what was there when the input ran out).
-/

/-- may the segment `seg` of consumed input be attributed to event `e`? -/
def SegOf (e : Event) (seg : List Byte) : Prop :=
  match e with
  | .marshal m => seg = m.bytes
  | .warning (.exceeded _ _ mx al _ _) => seg.length = mx - al
  | .warning (.subceeded _ _ mx al) => seg.length ≤ mx - al
  | .warning _ => seg = []

/-- events and their segments, aligned -/
inductive Segs : List (Nat × Event) → List (List Byte) → Prop
  | nil : Segs [] []
  | cons {ke : Nat × Event} {seg : List Byte} {evs : List (Nat × Event)} {segs : List (List Byte)} :
      SegOf ke.2 seg → Segs evs segs → Segs (ke :: evs) (seg :: segs)

theorem Segs.append {a b : List (Nat × Event)} {sa sb : List (List Byte)} (ha : Segs a sa) (hb : Segs b sb) :
    Segs (a ++ b) (sa ++ sb) := by
  induction ha with
  | nil => exact hb
  | cons h _ ih => exact Segs.cons h ih

theorem Segs.single {ke : Nat × Event} {seg : List Byte} (h : SegOf ke.2 seg) : Segs [ke] [seg] := Segs.cons h Segs.nil

def AcctW {α : Type} (s : St) (r : R α) : Prop :=
  ∃ (new : List (Nat × Event)) (segs : List (List Byte)) (off : List Byte),
    (stOf r).out = s.out ++ new ∧ Segs new segs ∧
    s.inp = segs.flatten ++ off ++ (stOf r).inp ∧
    (isOkR r = true → off = []) ∧
    (∀ cid cp m a v b t, r = .error (.exceeded cid cp m a v b, t) → off.length = m - a)

theorem AcctW.quiet {α : Type} {s : St} {r : R α} (hi : (stOf r).inp = s.inp) (ho : (stOf r).out = s.out)
    (hne : ∀ cid cp m a v b t, r ≠ .error (.exceeded cid cp m a v b, t)) : AcctW s r :=
  ⟨[], [], [], by simp [ho], Segs.nil, by simp [hi], fun _ => rfl, fun cid cp m a v b t h => absurd h (hne _ _ _ _ _ _ _)⟩

theorem acctw_ok {α : Type} (s : St) (a : α) : AcctW s (.ok (a, s) : R α) :=
  AcctW.quiet rfl rfl (by intros; intro h; cases h)

theorem acctw_crash {α : Type} (s : St) (c m : String) : AcctW s (crash c m s : R α) :=
  AcctW.quiet rfl rfl (by intros; intro h; cases h)

theorem acctw_error {α : Type} (s : St) (e : Err) (he : ∀ cid cp m a v b, e ≠ .exceeded cid cp m a v b) :
    AcctW s (.error (e, s) : R α) :=
  AcctW.quiet rfl rfl (by intro cid cp m a v b t h; simp only [Except.error.injEq, Prod.mk.injEq] at h; exact he _ _ _ _ _ _ h.1)

theorem AcctW.bind {α β : Type} {s : St} {r : R α} {f : α → St → R β} (h : AcctW s r)
    (hf : ∀ a s', r = .ok (a, s') → AcctW s' (f a s')) : AcctW s (r.bind f) := by
  cases r with
  | error e =>
    obtain ⟨e, s'⟩ := e
    obtain ⟨new, segs, off, h1, h2, h3, _, h5⟩ := h
    refine ⟨new, segs, off, h1, h2, h3, by simp [R.bind, isOkR], ?_⟩
    intro cid cp m a v b t hh
    simp only [R.bind_error, Except.error.injEq, Prod.mk.injEq] at hh
    exact h5 cid cp m a v b t (by rw [hh.1, hh.2])
  | ok as =>
    obtain ⟨a, s'⟩ := as
    obtain ⟨new, segs, off, h1, h2, h3, h4, _⟩ := h
    have hoff : off = [] := h4 rfl
    subst hoff
    simp only [stOf, List.append_nil] at h1 h3
    obtain ⟨new2, segs2, off2, g1, g2, g3, g4, g5⟩ := hf a s' rfl
    refine ⟨new ++ new2, segs ++ segs2, off2, ?_, h2.append g2, ?_, ?_, ?_⟩
    · simp [R.bind, g1, h1, List.append_assoc]
    · simp [R.bind, h3, g3, List.append_assoc]
    · simpa [R.bind] using g4
    · simpa [R.bind] using g5

theorem AcctW.of_scs {α : Type} {s : St} (scs : List SC) {r : R α} (h : AcctW { s with scs := scs } r) : AcctW s r := h

/-- an event that accounts for no bytes, then the rest -/
theorem AcctW.of_emit {α : Type} {s : St} (e : Event) (he : SegOf e []) {r : R α} (h : AcctW (emit e s) r) : AcctW s r := by
  obtain ⟨new, segs, off, h1, h2, h3, h4, h5⟩ := h
  refine ⟨(s.pos, e) :: new, [] :: segs, off, ?_, Segs.cons he h2, ?_, h4, h5⟩
  · simp [h1, emit]
  · simpa [emit] using h3

theorem segOf_structural (m : MEvent) (h : m.val = none) : SegOf (.marshal m) [] := by
  simp [SegOf, MEvent.bytes, h]

/-! ## leaves -/

theorem consume_ok_len {n : Nat} {s t : St} (h : consume n s = .ok ((), t)) :
    ∃ bs, bs.length = n ∧ s.inp = bs ++ t.inp ∧ t.out = s.out := by
  unfold consume take at h
  split at h
  · simp [R.bind] at h
  · rename_i hn
    simp only [R.bind_ok, Except.ok.injEq, Prod.mk.injEq, true_and] at h
    subst h
    exact ⟨s.inp.take n, by simp; omega, by simp, rfl⟩

theorem consume_err_st {n : Nat} {s : St} {e : Err} {t : St} (h : consume n s = .error (e, t)) :
    e = .depleted ∧ t.inp = [] ∧ t.out = s.out := by
  unfold consume take at h
  split at h
  · simp only [R.bind_error, Except.error.injEq, Prod.mk.injEq] at h
    obtain ⟨rfl, rfl⟩ := h
    exact ⟨rfl, rfl, rfl⟩
  · simp [R.bind] at h

theorem bpGo_acctw (path : Path) (size : Nat) : ∀ (todo done : List SC) (s : St), AcctW s (bpGo path size done todo s) := by
  intro todo
  induction todo with
  | nil => intro done s; exact AcctW.quiet rfl rfl (by intros; intro h; simp [bpGo] at h)
  | cons c rest ih =>
    intro done s
    unfold bpGo
    split
    · -- overrun of `c`: the rest of the region is consumed, then the error is on its way
      simp only []
      generalize hc : consume _ _ = r
      cases r with
      | error et =>
        obtain ⟨e, t⟩ := et
        obtain ⟨rfl, hi, ho⟩ := consume_err_st hc
        refine ⟨[], [], s.inp, by simp [R.bind, stOf, ho], Segs.nil, by simp [R.bind, stOf, hi], by simp [R.bind, isOkR], ?_⟩
        intro cid cp m a v b t' hh
        simp [R.bind] at hh
      | ok ut =>
        obtain ⟨_, t⟩ := ut
        obtain ⟨bs, hl, hi, ho⟩ := consume_ok_len hc
        refine ⟨[], [], bs, by simp [R.bind, stOf, ho], Segs.nil, by simpa [R.bind, stOf] using hi, by simp [R.bind, isOkR], ?_⟩
        intro cid cp m a v b t' hh
        simp only [R.bind_ok, Except.error.injEq, Prod.mk.injEq, Err.exceeded.injEq] at hh
        obtain ⟨⟨_, _, hm, ha, _, _⟩, _⟩ := hh
        rw [hl, ← hm, ← ha]
    · exact ih _ _

theorem bytesParsed_acctw (path : Path) (size : Nat) (s : St) : AcctW s (bytesParsed path size s) :=
  bpGo_acctw path size s.scs [] s

theorem readPrim_acctw (p : Prim) (path : Path) (s : St) : AcctW s (readPrim false p path s) := by
  unfold readPrim
  cases hb : bytesParsed path p.size s with
  | error e =>
    have := bytesParsed_acctw path p.size s
    rw [hb] at this
    obtain ⟨new, segs, off, h1, h2, h3, _, h5⟩ := this
    refine ⟨new, segs, off, h1, h2, h3, by simp [R.bind, isOkR], ?_⟩
    intro cid cp m a v b t hh
    obtain ⟨e', t'⟩ := e
    simp only [R.bind_error, Except.error.injEq, Prod.mk.injEq] at hh
    exact h5 cid cp m a v b t (by rw [hh.1, hh.2])
  | ok as =>
    obtain ⟨u, s1⟩ := as
    obtain ⟨q1, q2, q3⟩ := bpGo_ok_quiet path p.size s.scs [] s s1 hb
    simp only [R.bind_ok]
    cases ht : take p.size s1 with
    | error e =>
      obtain ⟨e, s2⟩ := e
      obtain ⟨off, h1, h2, h3⟩ := take_skip p.size s1
      rw [ht] at h1 h2 h3
      simp only [stOf] at h1 h2 h3
      refine ⟨[], [], off, by simp [stOf, h1, q3], Segs.nil, by simp [stOf, ← q1, h2], by simp [R.bind, isOkR], ?_⟩
      intro cid cp m a v b t hh
      unfold take at ht
      split at ht
      · simp only [Except.error.injEq, Prod.mk.injEq] at ht
        simp only [R.bind_error, Except.error.injEq, Prod.mk.injEq] at hh
        rw [← ht.1] at hh; simp at hh
      · simp at ht
    | ok as =>
      obtain ⟨bs, s2⟩ := as
      have hlen : bs.length = p.size ∧ s1.inp = bs ++ s2.inp ∧ s2.out = s1.out := by
        unfold take at ht
        split at ht
        · simp at ht
        · rename_i hn
          simp only [Except.ok.injEq, Prod.mk.injEq] at ht
          obtain ⟨rfl, rfl⟩ := ht
          exact ⟨by simp; omega, by simp, rfl⟩
      obtain ⟨hl, hi, ho⟩ := hlen
      simp only [R.bind_ok, Bool.false_eq_true, if_false]
      have hbytes : intToBytes p.size (p.ofBytes bs) = bs := intToBytes_intOfBytes p.size p.signed bs hl
      have hseg : SegOf (.marshal ⟨path, .named p.name false, some (p.ofBytes bs), p.name, p.size⟩) bs := by
        simp [SegOf, MEvent.bytes, hbytes]
      split
      · refine ⟨[(s2.pos, .marshal ⟨path, .named p.name false, some (p.ofBytes bs), p.name, p.size⟩)], [bs], [], ?_, Segs.single hseg, ?_, fun _ => rfl, ?_⟩
        · simp [stOf, emitM, emit, ho, q3]
        · simp [stOf, emitM, emit, ← q1, hi]
        · intro cid cp m a v b t hh; cases hh
      · refine ⟨[(s2.pos, .marshal ⟨path, .named p.name false, some (p.ofBytes bs), p.name, p.size⟩),
            (s2.pos, .warning (.value path p.name (p.ofBytes bs)))], [bs, []], [], ?_,
            Segs.cons hseg (Segs.single (by simp [SegOf])), ?_, fun _ => rfl, ?_⟩
        · simp [stOf, emitW, emitM, emit, ho, q3]
        · simp [stOf, emitW, emitM, emit, ← q1, hi]
        · intro cid cp m a v b t hh; cases hh

theorem anticipateM_acctw (vpath : Path) (v id : Nat) (s : St) : AcctW s (anticipateM false vpath v id s) := by
  unfold anticipateM
  split
  · exact acctw_ok _ _
  · rename_i e he
    simp only [Bool.false_eq_true, if_false]
    have hp : ∀ (scs : List SC) e, anticipate vpath v id scs = some e → SegOf (.warning e) [] := by
      intro scs
      induction scs with
      | nil => intro e h; simp [anticipate] at h
      | cons d rest ih =>
        intro e h
        unfold anticipate at h
        split at h
        · exact ih e h
        · split at h
          · simp only [Option.some.injEq] at h; subst h; simp [SegOf]
          · exact ih e h
    exact AcctW.of_emit _ (hp _ _ he) (acctw_ok _ _)

theorem openRegion_acctw (id : Nat) (cpath : Path) (n : Nat) (s : St) : AcctW s (openRegion false id cpath n s) := by
  unfold openRegion
  exact (anticipateM_acctw cpath n id s).bind fun _ t _ => AcctW.quiet rfl rfl (by intros; intro h; cases h)

theorem setListed_acctw (id : Nat) (cpath : Path) (n : Nat) (s : St) : AcctW s (setListed false id cpath n s) := by
  unfold setListed
  exact AcctW.of_scs _ (anticipateM_acctw cpath n id _)

theorem assertDoneSC_acctw (c : SC) (s : St) : AcctW s (assertDoneSC false c s) := by
  unfold assertDoneSC
  cases hm : c.max with
  | none => exact acctw_crash _ _ _
  | some m =>
    simp only []
    by_cases heq : c.already = m
    · simp only [heq, if_true]; exact acctw_ok _ _
    · simp only [heq, if_false, Bool.false_eq_true]
      by_cases hlt : c.already < m
      · simp only [hlt, if_true]
        -- the warning, then the padding up to the declared end
        have hbp := bytesParsed_acctw c.path (m - c.already) (emitW (.subceeded c.id c.path m c.already) s)
        cases hb : bytesParsed c.path (m - c.already) (emitW (.subceeded c.id c.path m c.already) s) with
        | error et =>
          obtain ⟨e, t⟩ := et
          rw [hb] at hbp
          obtain ⟨new, segs, off, h1, h2, h3, _, h5⟩ := hbp
          refine ⟨(s.pos, .warning (.subceeded c.id c.path m c.already)) :: new, [] :: segs, off, ?_, Segs.cons (by simp [SegOf]) h2, ?_, by simp [R.bind, isOkR], ?_⟩
          · simp only [R.bind_error]; rw [h1]; simp [emitW, emit]
          · simpa [emitW, emit, R.bind] using h3
          · intro cid cp mm a v b t' hh
            simp only [R.bind_error, Except.error.injEq, Prod.mk.injEq] at hh
            exact h5 cid cp mm a v b t' (by rw [hh.1, hh.2])
        | ok ut =>
          obtain ⟨_, s1⟩ := ut
          obtain ⟨q1, q2, q3⟩ := bpGo_ok_quiet c.path (m - c.already) _ [] _ s1 hb
          simp only [R.bind_ok]
          cases hc : consume (m - c.already) s1 with
          | error et =>
            obtain ⟨e, t⟩ := et
            obtain ⟨rfl, hi, ho⟩ := consume_err_st hc
            refine ⟨[(s.pos, .warning (.subceeded c.id c.path m c.already))], [[]], s.inp, ?_, Segs.single (by simp [SegOf]), ?_, by simp [isOkR], ?_⟩
            · simp [stOf, ho, q3, emitW, emit]
            · simp [stOf, hi]
            · intro cid cp mm a v b t' hh; simp at hh
          | ok ut2 =>
            obtain ⟨_, s2⟩ := ut2
            obtain ⟨bs, hl, hi, ho⟩ := consume_ok_len hc
            refine ⟨[(s.pos, .warning (.subceeded c.id c.path m c.already))], [bs], [], ?_, Segs.single (by simp [SegOf, hl]), ?_, fun _ => rfl, ?_⟩
            · simp [stOf, ho, q3, emitW, emit]
            · simp only [stOf, List.flatten_cons, List.flatten_nil, List.append_nil]
              rw [← hi, q1]; simp [emitW, emit]
            · intro cid cp mm a v b t' hh; cases hh
      · simp only [hlt, if_false]
        exact AcctW.of_emit _ (by simp [SegOf]) (acctw_ok _ _)

theorem assertDone_acctw (id : Nat) (s : St) : AcctW s (assertDone false id s) := by
  unfold assertDone
  split
  · exact acctw_crash _ _ _
  · exact AcctW.of_scs _ (assertDoneSC_acctw _ _)

/-- the owner's `except`: the skipped rest of the own region is attributed to the warning it now emits -/
theorem ownCatch_acctw (id : Nat) {s : St} {r : R Val} (k : Val → St → R Val) (hr : AcctW s r)
    (hk : ∀ v t, r = .ok (v, t) → AcctW t (k v t)) : AcctW s (ownCatch false id r k) := by
  cases r with
  | ok vs =>
    obtain ⟨v, t⟩ := vs
    simp only [ownCatch]
    have := hr.bind (f := k) hk
    simpa [R.bind] using this
  | error es =>
    obtain ⟨e, t⟩ := es
    cases e with
    | exceeded cid cp m a v b =>
      simp only [ownCatch, Bool.false_or]
      split
      · exact hr
      · obtain ⟨new, segs, off, h1, h2, h3, _, h5⟩ := hr
        have hlen := h5 cid cp m a v b t rfl
        refine ⟨new ++ [(t.pos, .warning (.exceeded cid cp m a v b))], segs ++ [off], [], ?_,
          h2.append (Segs.single (by simp [SegOf, hlen])), ?_, fun _ => rfl, ?_⟩
        · simp only [stOf] at h1 ⊢; simp [emitW, emit, h1]
        · simp only [stOf] at h3 ⊢; simpa [emitW, emit] using h3
        · intro cid' cp' m' a' v' b' t' hh; cases hh
    | _ => exact hr

theorem msgCatch_acctw (id1 id2 : Nat) (name : String) (vals : List (String × Val)) {s : St} {r : R Val}
    (k : Val → St → R Val) (hr : AcctW s r) (hk : ∀ v t, r = .ok (v, t) → AcctW t (k v t)) :
    AcctW s (msgCatch false id1 id2 name vals r k) := by
  cases r with
  | ok vs =>
    obtain ⟨v, t⟩ := vs
    simp only [msgCatch]
    have := hr.bind (f := k) hk
    simpa [R.bind] using this
  | error es =>
    obtain ⟨e, t⟩ := es
    cases e with
    | exceeded cid cp m a v b =>
      simp only [msgCatch, Bool.false_or]
      split
      · exact hr
      · obtain ⟨new, segs, off, h1, h2, h3, _, h5⟩ := hr
        have hlen := h5 cid cp m a v b t rfl
        refine ⟨new ++ [(t.pos, .warning (.exceeded cid cp m a v b))], segs ++ [off], [], ?_,
          h2.append (Segs.single (by simp [SegOf, hlen])), ?_, fun _ => rfl, ?_⟩
        · simp only [stOf] at h1 ⊢; simp [emitW, emit, h1]
        · simp only [stOf] at h3 ⊢; simpa [emitW, emit] using h3
        · intro cid' cp' m' a' v' b' t' hh; cases hh
    | _ => exact hr

/-! ## the walkers -/

theorem AcctW.of_emitS {α : Type} {s : St} (m : MEvent) (hm : m.val = none) {r : R α} (h : AcctW (emitM m s) r) : AcctW s r :=
  AcctW.of_emit (.marshal m) (segOf_structural m hm) h

theorem repeatDec_acctw (f : Path → St → R Val) (hf : ∀ p s, AcctW s (f p s)) (path : Path) :
    ∀ (n i : Nat) (s : St), AcctW s (repeatDec f path n i s) := by
  intro n
  induction n with
  | zero => intro i s; exact acctw_ok _ _
  | succ m ih =>
    intro i s
    unfold repeatDec
    exact (hf _ s).bind fun v t _ => (ih (i+1) t).bind fun vs t2 _ => acctw_ok _ _

theorem readPrimList_acctw (p : Prim) (path : Path) (n : Nat) (s : St) : AcctW s (readPrimList false p path n s) := by
  unfold readPrimList
  apply AcctW.of_emitS ⟨path, .listOf p.name, none, "", 0⟩ rfl
  exact (repeatDec_acctw _ (fun q s => readPrim_acctw p q s) path n 0 _).bind fun vs t _ => acctw_ok _ _

theorem readListArm_acctw (elem : Prim) (n : Option Nat) (path : Path) (s : St) : AcctW s (readListArm false elem n path s) := by
  unfold readListArm
  cases n with
  | none => exact acctw_crash _ _ _
  | some k => exact readPrimList_acctw elem path k s

theorem fieldWith_acctw (d : Path → Option Int → St → R Val) (hd : ∀ p sel s, AcctW s (d p sel s)) (tname : String)
    (kind : FKind) (fpath : Path) (vals : List (String × Val)) (s : St) :
    AcctW s (decodeFieldWith d tname kind fpath vals s) := by
  cases kind with
  | plain => exact hd _ _ _
  | selected sel =>
    simp only [decodeFieldWith]
    split
    · exact acctw_crash _ _ _
    · exact hd _ _ _
  | counted =>
    simp only [decodeFieldWith]
    split
    · exact acctw_crash _ _ _
    · apply AcctW.of_emitS ⟨fpath, .listOf tname, none, "", 0⟩ rfl
      exact (repeatDec_acctw _ (fun p s => hd p none s) fpath _ 0 _).bind fun vs t _ => acctw_ok _ _

mutual
theorem decode_acctw : (t : Ty) → ∀ (path : Path) (sel : Option Int) (s : St), AcctW s (decode false t path sel s)
  | .prim p, path, sel, s => by simp only [decode]; exact readPrim_acctw p path s
  | .struct name isP fs, path, sel, s => by
    simp only [decode]
    apply AcctW.of_emitS ⟨path, .named name false, none, "", 0⟩ rfl
    exact (fields_acctw fs path [] _).bind fun vals t _ => acctw_ok _ _
  | .tpm2bBytes name szName szP bufName elem, path, sel, s => by
    simp only [decode]
    apply AcctW.of_emitS ⟨path, .named name false, none, "", 0⟩ rfl
    refine (readPrim_acctw szP _ _).bind fun nv s1 _ => ?_
    split
    · exact acctw_crash _ _ _
    · refine (openRegion_acctw _ _ _ s1).bind fun _ s2 _ => ?_
      refine (readPrimList_acctw elem _ _ s2).bind fun bv s3 _ => ?_
      exact (assertDone_acctw _ s3).bind fun _ s4 _ => acctw_ok _ _
  | .tpm2b name szName szP bufName body, path, sel, s => by
    simp only [decode]
    apply AcctW.of_emitS ⟨path, .named name false, none, "", 0⟩ rfl
    refine (readPrim_acctw szP _ _).bind fun nv s1 _ => ?_
    split
    · exact acctw_crash _ _ _
    · refine (openRegion_acctw _ _ _ s1).bind fun _ s2 _ => ?_
      split
      · apply AcctW.of_emitS ⟨path ++ [⟨bufName, none⟩], body.eventTag, none, "", 0⟩ rfl
        exact (assertDone_acctw _ _).bind fun _ s4 _ => acctw_ok _ _
      · exact ownCatch_acctw _ _ (decode_acctw body _ none s2) fun bv s3 _ =>
          (assertDone_acctw _ s3).bind fun _ s4 _ => acctw_ok _ _
  | .union name arms, path, sel, s => by
    simp only [decode]
    apply AcctW.of_emitS ⟨path, .named name false, none, "", 0⟩ rfl
    split
    · split
      · exact acctw_error _ _ (by intro a b c d e f h; cases h)
      · exact acctw_error _ _ (by intro a b c d e f h; cases h)
    · exact arm_acctw arms name _ path _
  | .bad r, path, sel, s => by simp only [decode]; exact acctw_crash _ _ _

theorem arm_acctw : (arms : Arms) → ∀ (un want : String) (path : Path) (s : St), AcctW s (decodeArm false arms un want path s)
  | .nil, un, want, path, s => by simp only [decodeArm]; exact acctw_crash _ _ _
  | .consNone an key rest, un, want, path, s => by
    simp only [decodeArm]
    split
    · exact acctw_ok _ _
    · exact arm_acctw rest un want path s
  | .cons an key t rest, un, want, path, s => by
    simp only [decodeArm]
    split
    · exact (decode_acctw t _ none s).bind fun v t' _ => acctw_ok _ _
    · exact arm_acctw rest un want path s
  | .consBytes an key elem n rest, un, want, path, s => by
    simp only [decodeArm]
    split
    · exact (readListArm_acctw elem n _ s).bind fun v t' _ => acctw_ok _ _
    · exact arm_acctw rest un want path s

theorem fields_acctw : (fs : Fields) → ∀ (path : Path) (vals : List (String × Val)) (s : St),
    AcctW s (decodeFields false fs path vals s)
  | .nil, path, vals, s => by simp only [decodeFields]; exact acctw_ok _ _
  | .cons fname kind t rest, path, vals, s => by
    simp only [decodeFields]
    exact (fieldWith_acctw _ (fun p sel s => decode_acctw t p sel s) t.name kind _ vals s).bind fun v t' _ =>
      fields_acctw rest path _ t'
end

theorem decodeArea_acctw (tb : MsgTables) (enc : Bool) (t : Ty) (path : Path) (s : St) :
    AcctW s (decodeArea false tb enc t path s) := by
  unfold decodeArea
  split
  · split
    · exact decode_acctw t path none s
    · apply AcctW.of_emitS ⟨path, .named _ true, none, "", 0⟩ rfl
      exact (fields_acctw _ path [] _).bind fun vals t' _ => acctw_ok _ _
  · exact decode_acctw t path none s

theorem sizedLoop_acctw (t : Ty) (path : Path) (cid : Nat) : ∀ (fuel i : Nat) (acc : List Val) (s : St),
    AcctW s (sizedLoop false t path cid fuel i acc s) := by
  intro fuel
  induction fuel with
  | zero => intro i acc s; exact acctw_crash _ _ _
  | succ n ih =>
    intro i acc s
    unfold sizedLoop
    split
    · exact acctw_crash _ _ _
    · split
      · exact acctw_crash _ _ _
      · split
        · exact ownCatch_acctw _ _ (decode_acctw t _ none s) fun v t' _ => ih _ _ t'
        · exact (AcctW.of_scs _ (assertDoneSC_acctw _ _)).bind fun _ t' _ => acctw_ok _ _

theorem decodeSized_acctw (t : Ty) (path : Path) (cid : Nat) (s : St) : AcctW s (decodeSized false t path cid s) := by
  unfold decodeSized
  apply AcctW.of_emitS ⟨path, .listOf t.name, none, "", 0⟩ rfl
  exact sizedLoop_acctw t path cid _ 0 [] _

macro "acctw_step" : tactic => `(tactic| first
  | (with_reducible refine msgCatch_acctw _ _ _ _ _ ?_ (fun _ _ _ => ?_))
  | (with_reducible refine AcctW.bind ?_ (fun _ _ _ => ?_))
  | split
  | exact acctw_ok _ _ | exact acctw_crash _ _ _
  | exact acctw_error _ _ (by intro a b c d e f h; cases h)
  | exact readPrim_acctw _ _ _ | exact decodeArea_acctw _ _ _ _ _ | exact decodeSized_acctw _ _ _ _
  | exact assertDone_acctw _ _ | exact openRegion_acctw _ _ _ _ | exact setListed_acctw _ _ _ _)

theorem decodeCommand_acctw (tb : MsgTables) (path : Path) (s0 : St) : AcctW s0 (decodeCommand false tb path s0) := by
  unfold decodeCommand
  simp only []
  apply AcctW.of_scs [⟨s0.pos, [], 0, none⟩]
  apply AcctW.of_emitS ⟨path, .named "Command" false, none, "", 0⟩ rfl
  repeat' acctw_step

set_option maxHeartbeats 1000000 in
theorem decodeResponse_acctw (tb : MsgTables) (cc : Option Int) (enc : Bool) (path : Path) (s0 : St) :
    AcctW s0 (decodeResponse false tb cc enc path s0) := by
  unfold decodeResponse
  simp only []
  apply AcctW.of_scs [⟨s0.pos, [], 0, none⟩]
  apply AcctW.of_emitS ⟨path, .named "Response" false, none, "", 0⟩ rfl
  repeat' acctw_step

theorem decodeStream_acctw (tb : MsgTables) (path : Path) : ∀ (fuel : Nat) (s : St), AcctW s (decodeStream false tb path fuel s) := by
  intro fuel
  induction fuel with
  | zero => intro s; exact acctw_crash _ _ _
  | succ n ih =>
    intro s
    unfold decodeStream
    split
    · exact AcctW.of_emitS ⟨path, .named "Command" false, none, "", 0⟩ rfl (acctw_ok _ _)
    · refine (decodeCommand_acctw tb path s).bind fun cmd s1 _ => ?_
      split
      · exact acctw_crash _ _ _
      · split
        · exact AcctW.of_emitS ⟨path, .named "Response" false, none, "", 0⟩ rfl (acctw_ok _ _)
        · exact (decodeResponse_acctw tb _ _ path s1).bind fun _ s2 _ => ih s2

/-- **every warn-mode run accounts for the input it consumed** -/
theorem runWalker_acctw (tb : MsgTables) (top : Top) (x : List Byte) : AcctW (initSt x) (runWalker false tb top x) := by
  unfold runWalker
  cases top with
  | ty t => exact decode_acctw t rootPath none _
  | command => exact decodeCommand_acctw tb rootPath _
  | response cc enc => exact decodeResponse_acctw tb cc enc rootPath _
  | stream => exact decodeStream_acctw tb rootPath _ _
