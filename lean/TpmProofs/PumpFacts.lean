import TpmProofs.Trace
/-!
# What the byte pump shows of an accounted strict run (C02, C10, C13)
-/

/-- the events the consumer sees, without their pull counts -/
def Run.evs (r : Run) : List Event := r.events.map (·.2)

def evsBytes (es : List Event) : List Byte := es.flatMap Event.bytes

theorem evBytes_eq (new : List (Nat × Event)) : evBytes new = evsBytes (new.map (·.2)) := by
  simp [evBytes, evsBytes, List.flatMap_map]

theorem pumpEvents_spec (isStream : Bool) (len : Nat) : ∀ (out acc : List (Nat × Event)) (cc : Option Int),
    (pumpEvents isStream len out acc cc).2.2 = false →
    (pumpEvents isStream len out acc cc).1 = acc ++ out.map (fun ke => (min (ke.1 + 1) len, ke.2)) := by
  intro out
  induction out with
  | nil => intro acc cc _; simp [pumpEvents]
  | cons x rest ih =>
    intro acc cc h
    obtain ⟨k, e⟩ := x
    unfold pumpEvents at h ⊢
    split
    · rename_i hc; simp [hc] at h
    · rename_i hc
      simp only [hc, Bool.false_eq_true, if_false] at h
      rw [ih _ _ h]; simp

/-- the events shown are always a prefix of the walker's trace (pull counts aside) -/
theorem pumpEvents_prefix (isStream : Bool) (len : Nat) : ∀ (out acc : List (Nat × Event)) (cc : Option Int),
    ∃ k, (pumpEvents isStream len out acc cc).1 = acc ++ (out.take k).map (fun ke => (min (ke.1 + 1) len, ke.2)) := by
  intro out
  induction out with
  | nil => intro acc cc; exact ⟨0, by simp [pumpEvents]⟩
  | cons x rest ih =>
    intro acc cc
    obtain ⟨k, e⟩ := x
    unfold pumpEvents
    split
    · exact ⟨0, by simp⟩
    · obtain ⟨j, hj⟩ := ih (acc ++ [(min (k + 1) len, e)]) (ccOf e cc)
      exact ⟨j + 1, by rw [hj]; simp⟩

theorem pumpOutcome_done {x : List Byte} {pos : Nat} {res : Except Err Val} {v : Val}
    (h : pumpOutcome x pos res = .done v) : res = .ok v ∧ ¬ pos < x.length := by
  unfold pumpOutcome at h
  split at h
  · split at h
    · simp at h
    · rename_i hlt; simp only [Outcome.done.injEq] at h; subst h; exact ⟨rfl, hlt⟩
  · simp at h
  · simp at h
  · simp at h

theorem pumpOutcome_raised {x : List Byte} {pos : Nat} {res : Except Err Val}
    {e : Err} {rem : List Byte} (h : pumpOutcome x pos res = .raised e rem) :
    res = .error e ∧ rem = x.drop pos := by
  unfold pumpOutcome at h
  split at h
  · split at h <;> simp at h
  · simp at h
  · simp at h
  · simp only [Outcome.raised.injEq] at h; obtain ⟨rfl, rfl⟩ := h; exact ⟨rfl, rfl⟩

theorem resOf_ok {r : R Val} {v : Val} (h : resOf r = .ok v) : isOkR r = true := by
  cases r with
  | ok a => rfl
  | error e => obtain ⟨e, s⟩ := e; simp [resOf] at h

/-- **completed runs** (`done`): the consumer saw every event of the trace, the walker consumed the whole
input, and it did so only through emitted primitive events — so re-encoding the events gives the input -/
theorem done_facts (tb : MsgTables) (top : Top) (x : List Byte) (v : Val)
    (h : (marshalRun true tb top x).outcome = .done v) :
    evsBytes (marshalRun true tb top x).evs = x := by
  have hacct := runWalker_acct tb top x
  unfold marshalRun pump at h ⊢
  generalize runWalker true tb top x = w at h hacct ⊢
  obtain ⟨new, off, h1, h2, h3, h4, h5⟩ := hacct
  simp only [] at h ⊢
  by_cases hstop : (pumpEvents top.isStream x.length (stOf w).out [] none).2.2 = true
  · simp [hstop] at h
  · simp only [hstop] at h
    obtain ⟨hres, hpos⟩ := pumpOutcome_done h
    have hoff : off = [] := h5 (resOf_ok hres)
    subst hoff
    simp only [initSt, List.nil_append, List.append_nil, List.length_nil, Nat.add_zero, Nat.zero_add] at h1 h2 h3
    have hspec := pumpEvents_spec _ x.length (stOf w).out [] none (by simpa using hstop)
    simp only [List.nil_append] at hspec
    have hlen : x.length = (evBytes new).length + (stOf w).inp.length := by
      conv => lhs; rw [h2]
      simp
    have hinp : (stOf w).inp = [] := List.eq_nil_of_length_eq_zero (by omega)
    rw [hinp, List.append_nil] at h2
    rw [h1] at hspec
    simp only [Run.evs, h1, hspec, List.map_map, Function.comp_def]
    have := evBytes_eq new
    rw [← this]; exact h2.symm

/-- **rejected runs** (`raised`, any constraint error): the input is exactly the bytes of the events shown,
then the bytes consumed without an event (the offending field or the skipped rest of a region), then the
error's remaining bytes — and the remaining bytes are exactly what the walker had not consumed -/
theorem raised_facts (tb : MsgTables) (top : Top) (x : List Byte) (e : Err) (rem : List Byte)
    (h : (marshalRun true tb top x).outcome = .raised e rem) :
    ∃ off, x = evsBytes (marshalRun true tb top x).evs ++ off ++ rem ∧
      rem = (stOf (runWalker true tb top x)).inp := by
  have hacct := runWalker_acct tb top x
  unfold marshalRun pump at h ⊢
  generalize runWalker true tb top x = w at h hacct ⊢
  obtain ⟨new, off, h1, h2, h3, h4, h5⟩ := hacct
  simp only [] at h ⊢
  by_cases hstop : (pumpEvents top.isStream x.length (stOf w).out [] none).2.2 = true
  · simp [hstop] at h
  · simp only [hstop] at h
    obtain ⟨hres, hrem⟩ := pumpOutcome_raised h
    simp only [initSt, List.nil_append, Nat.zero_add] at h1 h2 h3
    have hspec := pumpEvents_spec _ x.length (stOf w).out [] none (by simpa using hstop)
    simp only [List.nil_append] at hspec
    have hdrop : x.drop (stOf w).pos = (stOf w).inp := by
      conv => lhs; rw [h2, h3]
      exact List.drop_left' (by simp)
    refine ⟨off, ?_, by rw [hrem, hdrop]⟩
    rw [h1] at hspec
    simp only [Run.evs, h1, hspec, List.map_map, Function.comp_def]
    rw [hrem, hdrop]
    have := evBytes_eq new
    rw [← this]; exact h2

/-! ### look-ahead -/

theorem stamped_at {p : Nat} : ∀ {new : List (Nat × Event)}, Stamped p new → ∀ (pre : List (Nat × Event)) (ke : Nat × Event)
    (post : List (Nat × Event)), new = pre ++ ke :: post → ke.1 = p + (evBytes (pre ++ [ke])).length := by
  intro new h pre ke post hn
  subst hn
  rw [stamped_append] at h
  obtain ⟨_, h2⟩ := h
  simp only [Stamped] at h2
  rw [h2.1, evBytes_append]
  simp [evBytes, Nat.add_assoc]

/-- **one byte of look-ahead** (every strict run, every input): whenever an event is shown, the number of
bytes pulled from the source is at most one more than the bytes of the fields shown so far (including
that event) -/
theorem lookahead_facts (tb : MsgTables) (top : Top) (x : List Byte)
    (pre : List (Nat × Event)) (pe : Nat × Event) (post : List (Nat × Event))
    (h : (marshalRun true tb top x).events = pre ++ pe :: post) :
    pe.1 ≤ (evsBytes ((pre ++ [pe]).map (·.2))).length + 1 := by
  have hacct := runWalker_acct tb top x
  unfold marshalRun pump at h
  generalize runWalker true tb top x = w at h hacct
  obtain ⟨new, off, h1, h2, h3, h4, h5⟩ := hacct
  simp only [initSt, List.nil_append] at h1 h4
  simp only [] at h
  obtain ⟨k, hk⟩ := pumpEvents_prefix top.isStream x.length (stOf w).out [] none
  rw [hk, h1] at h
  simp only [List.nil_append] at h
  -- the shown events are the first k trace events with their stamps turned into pull counts
  obtain ⟨l1, l2, hsplit, hl1, hl2⟩ := List.map_eq_append_iff.mp h
  obtain ⟨a, l3, hl2', hfa, _⟩ := List.map_eq_cons_iff.mp hl2
  have hnew : new = l1 ++ a :: (l3 ++ new.drop k) := by
    conv => lhs; rw [← List.take_append_drop k new, hsplit, hl2']
    simp
  have hst := stamped_at h4 l1 a _ hnew
  simp only [Nat.zero_add] at hst
  have hsnd : (pre ++ [pe]).map (·.2) = (l1 ++ [a]).map (·.2) := by
    rw [← hl1, ← hfa]; simp [List.map_map, Function.comp_def]
  rw [hsnd, ← evBytes_eq, ← hst, ← hfa]
  exact Nat.min_le_left _ _
