import TpmProofs.E2OTree
import TpmProofs.DecodeOk
/-!
# `events_to_obj` on the events the tables dictate

For every layout meeting the side conditions `Ty.eo` and every conforming value `v`: the events of `spec t path v` build
(by `_events_to_dict`) exactly one new subtree `T` at the node they start at, and `_to_obj` turns `T` back into `v`.
-/

def ftOf (kind : FKind) (t : Ty) : FT :=
  match kind with
  | .counted => .many t
  | _ => .one t

/-- the second key of `TPM2B_ENCRYPTED_PARAM` (the key `is_encrypted_params` recognises an encrypted area by) -/
def encBuf : Ty → String
  | .tpm2bBytes _ _ _ b _ => b
  | _ => ""

/-! side conditions: no layout uses the key that marks an encrypted parameter; the two keys of a size-prefixed structure
differ; a size-prefixed structure's body has fields (so that an empty dict means "absent"); field names are distinct -/
def Arms.top (bad : String) : Arms → Bool
  | .nil => true
  | .consNone _ _ rest => rest.top bad
  | .cons an _ _ rest => decide (an ≠ bad) && rest.top bad
  | .consBytes an _ _ _ rest => decide (an ≠ bad) && rest.top bad

/-- the type's own keys are not the marker key -/
def Ty.top (bad : String) : Ty → Bool
  | .struct _ _ fs => decide (bad ∉ fs.names)
  | .tpm2bBytes _ sz _ buf _ => decide (sz ≠ bad) && decide (buf ≠ bad)
  | .tpm2b _ sz _ buf _ => decide (sz ≠ bad) && decide (buf ≠ bad)
  | .union _ arms => arms.top bad
  | _ => true

mutual
def Ty.eo (bad : String) : Ty → Bool
  | .prim _ => true
  | .struct _ _ fs => fs.eo bad && decide (fs.names.Nodup)
  | .tpm2bBytes _ sz _ buf _ => decide (sz ≠ buf)
  | .tpm2b _ sz _ buf body => decide (sz ≠ buf) && body.hasFields && body.eo bad
  | .union _ arms => arms.eo bad
  | .bad _ => true
def Fields.eo (bad : String) : Fields → Bool
  | .nil => true
  | .cons _ _ t rest => t.top bad && t.eo bad && rest.eo bad
def Arms.eo (bad : String) : Arms → Bool
  | .nil => true
  | .consNone _ _ rest => rest.eo bad
  | .cons _ _ t rest => t.top bad && t.eo bad && rest.eo bad
  | .consBytes _ _ _ _ rest => rest.eo bad
end

def TopAvoid (bad : String) (T : Tree) : Prop := ∀ sub, T = .dict sub → bad ∉ sub.map (·.1)

theorem topAvoid_leaf (bad cls : String) (x : Int) : TopAvoid bad (.leaf cls x) := by
  intro sub h; cases h

theorem topAvoid_list (bad : String) (es : List (Option Tree)) : TopAvoid bad (.list es) := by
  intro sub h; cases h

theorem isEncDict_nil (enc : Ty) : isEncDict enc [] = false := by
  unfold isEncDict; rfl

theorem isEncDict_false (enc : Ty) (k : String) (T : Tree) (rest : List (String × Tree))
    (h : TopAvoid (encBuf enc) T) : isEncDict enc ((k, T) :: rest) = false := by
  cases T with
  | leaf c x => unfold isEncDict; rfl
  | list es => unfold isEncDict; rfl
  | dict sub =>
    cases enc with
    | tpm2bBytes n sz p buf e =>
      unfold isEncDict
      simp only [beq_eq_false_iff_ne, ne_eq]
      intro heq
      have := h sub rfl
      rw [heq] at this
      simp [encBuf] at this
    | prim _ => unfold isEncDict; rfl
    | struct _ _ _ => unfold isEncDict; rfl
    | tpm2b _ _ _ _ _ => unfold isEncDict; rfl
    | union _ _ => unfold isEncDict; rfl
    | bad _ => unfold isEncDict; rfl

variable (enc : Ty)

theorem toObj_leaf (ft : FT) (cls : String) (x : Int) : toObj enc ft (.leaf cls x) = some (.int cls x) := by
  cases ft <;> simp [toObj]

/-- `_dict_to_obj` on a non-empty dict that is not an encrypted area -/
theorem toObj_dict (t : Ty) (kvs : List (String × Tree)) (fvs : List (String × Val)) (hne : kvs ≠ [])
    (henc : isEncDict enc kvs = false) (h : toObjKvs enc t kvs = some fvs) :
    toObj enc (.one t) (.dict kvs) = some (.obj t.name false fvs) := by
  have he : kvs.isEmpty = false := by cases kvs <;> simp_all
  simp [toObj, he, henc, h]

theorem toObj_empty_absent (t : Ty) (h : t.hasFields = true) : toObj enc (.one t) (.dict []) = some .none := by
  simp [toObj, h]

/-! ## inversion of the value accessors -/

theorem objPair_inv {v : Val} {name a b : String} {x y : Val}
    (h : (v.asObj name false).bind (asPair · a b) = some (x, y)) : v = .obj name false [(a, x), (b, y)] := by
  cases ho : v.asObj name false with
  | none => rw [ho] at h; cases h
  | some fvs =>
    rw [ho] at h
    simp only [Option.bind_some] at h
    rw [asObj_inv ho, asPair_inv h]

theorem objSingle_inv {v : Val} {name a : String} {x : Val}
    (h : (v.asObj name false).bind (asSingle · a) = some x) : v = .obj name false [(a, x)] := by
  cases ho : v.asObj name false with
  | none => rw [ho] at h; cases h
  | some fvs =>
    rw [ho] at h
    simp only [Option.bind_some] at h
    rw [asObj_inv ho, asSingle_inv h]

/-! ## leaves and lists of leaves -/

theorem drop_pre_snoc (pre : Path) (nd : PathNode) : (pre ++ [nd]).drop pre.length = [nd] := by simp

theorem drop_pre_snoc2 (pre : Path) (nd x : PathNode) : ((pre ++ [nd]) ++ [x]).drop pre.length = [nd, x] := by simp

theorem elemPath_snoc (pre : Path) (name : String) (i : Nat) :
    elemPath (pre ++ [⟨name, none⟩]) i = pre ++ [⟨name, some i⟩] := by
  simp [elemPath]

theorem prim_builds {p : Prim} {pre : Path} {nd : PathNode} {v : Val} {bs : List Byte} {evs : List SEv}
    (h : specPrim p (pre ++ [nd]) v = some (bs, evs)) :
    ∃ T, BuildsAt nd T (sstrip pre.length evs) ∧ (∀ ft, toObj enc ft T = some v) ∧ TopAvoid (encBuf enc) T := by
  unfold specPrim at h
  split at h
  · cases h
  · rename_i x hx
    split at h
    · simp only [Option.some.injEq, Prod.mk.injEq] at h
      obtain ⟨_, rfl⟩ := h
      refine ⟨.leaf p.name x, ?_, ?_, topAvoid_leaf _ _ _⟩
      · exact buildsAt_leaf nd _ (by simp [stripE])
      · intro ft; rw [toObj_leaf, asIntOf_inv hx]
    · cases h

/-- the elements of a list, one after the other, extend the list at that key -/
theorem repeat_builds (f : Path → Val → Option (List Byte × List SEv)) (t : Ty) (pre : Path) (name : String)
    (hf : ∀ i v bs evs, f (pre ++ [⟨name, some i⟩]) v = some (bs, evs) →
      ∃ T, BuildsAt ⟨name, some i⟩ T (sstrip pre.length evs) ∧ toObj enc (.one t) T = some v) :
    ∀ (vs : List Val) (i : Nat) (bs : List Byte) (evs : List SEv),
      specRepeat f (pre ++ [⟨name, none⟩]) vs i = some (bs, evs) →
      ∃ Ts, toObjElems enc t Ts = some vs ∧
        ∀ kvs es, kvLookup kvs name = some (.list es) → es.length = i →
          buildTree (sstrip pre.length evs) (.dict kvs) = some (.dict (kvSet kvs name (.list (es ++ Ts))))
  | [], i, bs, evs, h => by
    simp only [specRepeat, Option.some.injEq, Prod.mk.injEq] at h
    obtain ⟨_, rfl⟩ := h
    refine ⟨[], by simp [toObjElems], ?_⟩
    intro kvs es hl _
    simp only [sstrip_nil, buildTree, List.append_nil, kvSet_same kvs name _ hl]
  | v :: vs, i, bs, evs, h => by
    simp only [specRepeat, elemPath_snoc] at h
    split at h
    · cases h
    · rename_i b e hfe
      split at h
      · cases h
      · rename_i bs' es' hrest
        simp only [Option.some.injEq, Prod.mk.injEq] at h
        obtain ⟨_, rfl⟩ := h
        obtain ⟨T, hT, hTo⟩ := hf i v b e hfe
        obtain ⟨Ts, hTs, hbuild⟩ := repeat_builds f t pre name hf vs (i+1) bs' es' hrest
        refine ⟨some T :: Ts, by simp [toObjElems, hTo, hTs], ?_⟩
        intro kvs es hl hlen
        rw [sstrip_append, sstrip_shift, buildTree_append, hT.2 i rfl kvs es hl hlen, Option.bind_some,
          hbuild _ (es ++ [some T]) (kvLookup_kvSet_self kvs name _) (by simp [hlen]), kvSet_kvSet]
        simp

theorem primList_builds {p : Prim} {pre : Path} {name : String} {n : Nat} {v : Val} {bs : List Byte} {evs : List SEv}
    (h : specPrimList p (pre ++ [⟨name, none⟩]) n v = some (bs, evs)) :
    ∃ T, BuildsAt ⟨name, none⟩ T (sstrip pre.length evs) ∧ toObj enc (.many (.prim p)) T = some v ∧
      TopAvoid (encBuf enc) T := by
  unfold specPrimList at h
  split at h
  · cases h
  · rename_i vs hvs
    split at h
    · simp only [Option.map_eq_some_iff] at h
      obtain ⟨⟨b, e⟩, hr, heq⟩ := h
      simp only [Prod.mk.injEq] at heq
      obtain ⟨_, rfl⟩ := heq
      obtain ⟨Ts, hTs, hbuild⟩ := repeat_builds enc (specPrim p) (.prim p) pre name
        (fun i v bs evs h => by
          obtain ⟨T, h1, h2, _⟩ := prim_builds enc h
          exact ⟨T, h1, h2 _⟩) vs 0 b e hr
      refine ⟨.list Ts, ⟨?_, ?_⟩, ?_, topAvoid_list _ _⟩
      · intro _ kvs hfresh
        simp only [sstrip_cons, buildTree, stripE, drop_pre_snoc]
        rw [ins_new_key kvs ⟨name, none⟩ _ rfl hfresh, Option.bind_some]
        have := hbuild (kvs ++ [(name, .list [])]) [] (kvLookup_append_self kvs name _ hfresh) rfl
        simp only [List.nil_append] at this
        show buildTree _ (Tree.dict (kvs ++ [(name, Tree.list [])])) = _
        rw [this, kvSet_append_fresh kvs name _ _ hfresh]
      · intro i hi; cases hi
      · simp [toObj, hTs, asList_inv hvs]
    · cases h

/-! ## one declared field -/

theorem fieldWith_builds (t : Ty) (pre : Path) (fname : String) (g : Path → Option Int → Val → Option (List Byte × List SEv))
    (hg : ∀ nd sel v bs evs, g (pre ++ [nd]) sel v = some (bs, evs) →
      ∃ T, BuildsAt nd T (sstrip pre.length evs) ∧ toObj enc (.one t) T = some v ∧ TopAvoid (encBuf enc) T)
    (tname : String) (kind : FKind) (vals : List (String × Val)) (v : Val) (bs : List Byte) (evs : List SEv)
    (h : specFieldWith g tname kind (pre ++ [⟨fname, none⟩]) vals v = some (bs, evs)) :
    ∃ T, BuildsAt ⟨fname, none⟩ T (sstrip pre.length evs) ∧ toObj enc (ftOf kind t) T = some v ∧
      TopAvoid (encBuf enc) T := by
  cases kind with
  | plain => exact hg _ _ _ _ _ h
  | selected sel =>
    simp only [specFieldWith] at h
    split at h
    · cases h
    · exact hg _ _ _ _ _ h
  | counted =>
    simp only [specFieldWith] at h
    split at h
    · rename_i c es hc hes
      split at h
      · simp only [Option.map_eq_some_iff] at h
        obtain ⟨⟨b, e⟩, hr, heq⟩ := h
        simp only [Prod.mk.injEq] at heq
        obtain ⟨_, rfl⟩ := heq
        obtain ⟨Ts, hTs, hbuild⟩ := repeat_builds enc (fun p v => g p none v) t pre fname
          (fun i v bs evs h => by
            obtain ⟨T, h1, h2, _⟩ := hg _ _ _ _ _ h
            exact ⟨T, h1, h2⟩) es 0 b e hr
        refine ⟨.list Ts, ⟨?_, ?_⟩, ?_, topAvoid_list _ _⟩
        · intro _ kvs hfresh
          simp only [sstrip_cons, buildTree, stripE, drop_pre_snoc]
          rw [ins_new_key kvs ⟨fname, none⟩ _ rfl hfresh, Option.bind_some]
          have := hbuild (kvs ++ [(fname, .list [])]) [] (kvLookup_append_self kvs fname _ hfresh) rfl
          simp only [List.nil_append] at this
          show buildTree _ (Tree.dict (kvs ++ [(fname, Tree.list [])])) = _
          rw [this, kvSet_append_fresh kvs fname _ _ hfresh]
        · intro i hi; cases hi
        · simp [ftOf, toObj, hTs, asList_inv hes]
      · cases h
    · cases h

/-! ## declared types of dict entries -/

/-- `look` finds every field of `fs` with its declared kind and type -/
def AttrOk (look : String → Option FT) : Fields → Prop
  | .nil => True
  | .cons f kind t rest => look f = some (ftOf kind t) ∧ AttrOk look rest

theorem attrOk_congr (look look' : String → Option FT) : (fs : Fields) → (∀ n ∈ fs.names, look' n = look n) →
    AttrOk look fs → AttrOk look' fs
  | .nil, _, _ => trivial
  | .cons f kind t rest, hsame, h => by
    refine ⟨?_, attrOk_congr look look' rest (fun n hn => hsame n (by simp [Fields.names, hn])) h.2⟩
    rw [hsame f (by simp [Fields.names])]; exact h.1

theorem fields_attr_cons_ne (f : String) (kind : FKind) (t : Ty) (rest : Fields) (k : String) (h : f ≠ k) :
    (Fields.cons f kind t rest).attr k = rest.attr k := by
  simp [Fields.attr, h]

theorem attrOk_self : (fs : Fields) → fs.names.Nodup → AttrOk fs.attr fs
  | .nil, _ => trivial
  | .cons f kind t rest, hnd => by
    simp only [Fields.names, List.nodup_cons] at hnd
    refine ⟨?_, ?_⟩
    · cases kind <;> simp [Fields.attr, ftOf]
    · apply attrOk_congr rest.attr _ rest _ (attrOk_self rest hnd.2)
      intro n hn
      exact fields_attr_cons_ne f kind t rest n (by rintro rfl; exact hnd.1 hn)

theorem leafOf_absent (path : Path) (body : Ty) : leafOf ⟨path, body.eventTag, none, "", 0⟩ = .dict [] := by
  cases body <;> rfl

/-- two entries of a size-prefixed structure, one after the other into the empty dict -/
theorem pair_builds {sz buf : String} {Ts Tb : Tree} {A B : List MEvent} (hA : BuildsAt ⟨sz, none⟩ Ts A)
    (hB : BuildsAt ⟨buf, none⟩ Tb B) (hne : sz ≠ buf) :
    buildTree (A ++ B) (.dict []) = some (.dict [(sz, Ts), (buf, Tb)]) := by
  rw [buildTree_append, hA.1 rfl [] (kvLookup_nil _), Option.bind_some]
  have := hB.1 rfl ([] ++ [(sz, Ts)]) (by
    show kvLookup ([] ++ [(sz, Ts)]) buf = none
    exact kvLookup_append_other [] sz Ts buf (kvLookup_nil _) hne)
  simpa using this

theorem pair_toObj (t : Ty) {sz buf : String} {Ts Tb : Tree} {nv bv : Val} {ft1 ft2 : FT} (h1 : t.attr sz = some ft1)
    (h2 : t.attr buf = some ft2) (hs : toObj enc ft1 Ts = some nv) (hb : toObj enc ft2 Tb = some bv)
    (ha : TopAvoid (encBuf enc) Ts) :
    toObj enc (.one t) (.dict [(sz, Ts), (buf, Tb)]) = some (.obj t.name false [(sz, nv), (buf, bv)]) := by
  apply toObj_dict enc t _ _ (by simp) (isEncDict_false enc sz Ts _ ha)
  simp [toObjKvs, h1, h2, hs, hb]

/-! ## the three mutually recursive statements -/

theorem length_snoc' (pre : Path) (nd : PathNode) : (pre ++ [nd]).length = pre.length + 1 := by simp

/-- a size-prefixed byte buffer: the subtree is explicit -/
theorem tpm2bBytes_builds {name szName bufName : String} {szP elem : Prim} (hne : szName ≠ bufName) {pre : Path}
    {nd : PathNode} {sel : Option Int} {v : Val} {bs : List Byte} {evs : List SEv}
    (h : spec (.tpm2bBytes name szName szP bufName elem) (pre ++ [nd]) sel v = some (bs, evs)) :
    ∃ Ts Tb nv bv, v = .obj name false [(szName, nv), (bufName, bv)] ∧
      BuildsAt nd (.dict [(szName, Ts), (bufName, Tb)]) (sstrip pre.length evs) ∧ (∀ ft, toObj enc ft Ts = some nv) ∧
      toObj enc (.many (.prim elem)) Tb = some bv ∧ TopAvoid (encBuf enc) Ts := by
  have hunder := spec_under _ _ _ _ _ _ h
  simp only [spec] at h
  split at h
  · cases h
  · rename_i nv bv hv
    split at h
    · rename_i nb ne n hsz hn
      split at h
      · cases h
      · rename_i bb be hl
        split at h
        · simp only [Option.some.injEq, Prod.mk.injEq] at h
          obtain ⟨_, rfl⟩ := h
          obtain ⟨Ts, hTs, hTso, hTsa⟩ := prim_builds enc hsz
          obtain ⟨Tb, hTb, hTbo, _⟩ := primList_builds enc hl
          refine ⟨Ts, Tb, nv, bv, objPair_inv hv, ?_, hTso, hTbo, hTsa⟩
          rw [List.cons_append, sstrip_cons]
          apply buildsAt_node nd _ _ _ (by simp [stripE])
          · have := under_heads hunder
            rw [List.cons_append, sstrip_cons] at this
            exact fun x hx => this x (List.mem_cons_of_mem _ hx)
          · rw [strip_sstrip, sstrip_append, sstrip_shift]
            rw [length_snoc'] at hTs hTb
            exact pair_builds hTs hTb hne
        · cases h
    · cases h

mutual
theorem spec_builds : (t : Ty) → t.eo (encBuf enc) = true → ∀ (pre : Path) (nd : PathNode) (sel : Option Int) (v : Val)
    (bs : List Byte) (evs : List SEv), spec t (pre ++ [nd]) sel v = some (bs, evs) →
    ∃ T, BuildsAt nd T (sstrip pre.length evs) ∧ toObj enc (.one t) T = some v ∧
      (t.top (encBuf enc) = true → TopAvoid (encBuf enc) T)
  | .prim p, _, pre, nd, sel, v, bs, evs, h => by
    simp only [spec] at h
    obtain ⟨T, h1, h2, h3⟩ := prim_builds enc h
    exact ⟨T, h1, h2 _, fun _ => h3⟩
  | .struct name isP fs, heo, pre, nd, sel, v, bs, evs, h => by
    simp only [Ty.eo, Bool.and_eq_true, decide_eq_true_eq] at heo
    have hunder := spec_under _ _ _ _ _ _ h
    simp only [spec] at h
    split at h
    · cases h
    · rename_i fvs hv
      simp only [Option.map_eq_some_iff] at h
      obtain ⟨⟨b, e⟩, hr, heq⟩ := h
      simp only [Prod.mk.injEq] at heq
      obtain ⟨_, rfl⟩ := heq
      obtain ⟨entries, hnames, havoid, hbuild, hobj⟩ := fields_builds fs heo.1 heo.2 (pre ++ [nd]) [] fvs b e hr
      refine ⟨.dict entries, ?_, ?_, ?_⟩
      · rw [sstrip_cons]
        apply buildsAt_node nd _ _ _ (by simp [stripE]) (under_heads (specFields_under fs _ _ _ _ _ hr))
        rw [strip_sstrip]
        have := hbuild [] (fun n _ => kvLookup_nil n)
        rw [length_snoc', List.nil_append] at this
        rw [leafOf_stripE]
        exact this
      · rw [asObj_inv hv]
        cases entries with
        | nil =>
          cases fs with
          | nil =>
            have := hobj (.struct name isP .nil) trivial
            simp only [toObjKvs, Option.some.injEq] at this
            simp [toObj, Ty.hasFields, isEncDict_nil, toObjKvs, Ty.name, ← this]
          | cons f k t rest => simp [Fields.names] at hnames
        | cons hd tl =>
          obtain ⟨k1, T1⟩ := hd
          exact toObj_dict enc (.struct name isP fs) _ fvs (by simp)
            (isEncDict_false enc k1 T1 tl (havoid _ (List.mem_cons_self ..)))
            (hobj _ (attrOk_congr fs.attr _ fs (fun n _ => by simp [Ty.attr]) (attrOk_self fs heo.2)))
      · intro htop sub hsub
        cases hsub
        rw [hnames]
        simpa [Ty.top] using htop
  | .tpm2bBytes name szName szP bufName elem, heo, pre, nd, sel, v, bs, evs, h => by
    simp only [Ty.eo, decide_eq_true_eq] at heo
    obtain ⟨Ts, Tb, nv, bv, hv, hB, hTso, hTbo, hTsa⟩ := tpm2bBytes_builds enc heo h
    refine ⟨.dict [(szName, Ts), (bufName, Tb)], hB, ?_, ?_⟩
    · rw [hv]
      exact pair_toObj enc (.tpm2bBytes name szName szP bufName elem) (ft1 := .one (.prim szP))
        (ft2 := .many (.prim elem)) (by simp [Ty.attr]) (by simp [Ty.attr, heo]) (hTso _) hTbo hTsa
    · intro htop sub hsub
      cases hsub
      simp only [Ty.top, Bool.and_eq_true, decide_eq_true_eq] at htop
      simp only [List.map_cons, List.map_nil, List.mem_cons, List.not_mem_nil, or_false, not_or]
      exact ⟨fun hb => htop.1 hb.symm, fun hb => htop.2 hb.symm⟩
  | .tpm2b name szName szP bufName body, heo, pre, nd, sel, v, bs, evs, h => by
    simp only [Ty.eo, Bool.and_eq_true, decide_eq_true_eq] at heo
    have hunder := spec_under _ _ _ _ _ _ h
    simp only [spec] at h
    split at h
    · cases h
    · rename_i nv bv hv
      split at h
      · rename_i nb ne n hsz hn
        obtain ⟨Ts, hTs, hTso, hTsa⟩ := prim_builds enc hsz
        have havoid : ∀ Tb, (Ty.tpm2b name szName szP bufName body).top (encBuf enc) = true →
            TopAvoid (encBuf enc) (.dict [(szName, Ts), (bufName, Tb)]) := by
          intro Tb htop sub hsub
          cases hsub
          simp only [Ty.top, Bool.and_eq_true, decide_eq_true_eq] at htop
          simp only [List.map_cons, List.map_nil, List.mem_cons, List.not_mem_nil, or_false, not_or]
          exact ⟨fun hb => htop.1 hb.symm, fun hb => htop.2 hb.symm⟩
        split at h
        · split at h
          · rename_i hz
            simp only [Option.some.injEq, Prod.mk.injEq] at h
            obtain ⟨_, rfl⟩ := h
            refine ⟨.dict [(szName, Ts), (bufName, .dict [])], ?_, ?_, havoid _⟩
            · rw [List.cons_append, sstrip_cons]
              apply buildsAt_node nd _ _ _ (by simp [stripE])
              · have := under_heads hunder
                rw [List.cons_append, sstrip_cons] at this
                exact fun x hx => this x (List.mem_cons_of_mem _ hx)
              · rw [strip_sstrip, sstrip_append]
                rw [length_snoc'] at hTs
                have hB : BuildsAt ⟨bufName, none⟩ (.dict [])
                    (sstrip (pre.length + 1) [(nb.length, ⟨pre ++ [nd] ++ [⟨bufName, none⟩], body.eventTag, none, "", 0⟩)]) := by
                  have := buildsAt_leaf ⟨bufName, none⟩
                    (stripE (pre.length + 1) ⟨pre ++ [nd] ++ [⟨bufName, none⟩], body.eventTag, none, "", 0⟩) (by simp [stripE])
                  rw [leafOf_stripE, leafOf_absent] at this
                  exact this
                exact pair_builds hTs hB heo.1.1
            · rw [objPair_inv hv, isNone_inv hz.1]
              exact pair_toObj enc (.tpm2b name szName szP bufName body) (ft1 := .one (.prim szP)) (ft2 := .one body)
                (by simp [Ty.attr]) (by simp [Ty.attr, heo.1.1]) (hTso _) (toObj_empty_absent enc body heo.1.2) hTsa
          · cases h
        · split at h
          · cases h
          · rename_i bb be hb
            split at h
            · simp only [Option.some.injEq, Prod.mk.injEq] at h
              obtain ⟨_, rfl⟩ := h
              obtain ⟨Tb, hTb, hTbo, _⟩ := spec_builds body heo.2 (pre ++ [nd]) ⟨bufName, none⟩ none bv bb be hb
              refine ⟨.dict [(szName, Ts), (bufName, Tb)], ?_, ?_, havoid Tb⟩
              · rw [List.cons_append, sstrip_cons]
                apply buildsAt_node nd _ _ _ (by simp [stripE])
                · have := under_heads hunder
                  rw [List.cons_append, sstrip_cons] at this
                  exact fun x hx => this x (List.mem_cons_of_mem _ hx)
                · rw [strip_sstrip, sstrip_append, sstrip_shift]
                  rw [length_snoc'] at hTs hTb
                  exact pair_builds hTs hTb heo.1.1
              · rw [objPair_inv hv]
                exact pair_toObj enc (.tpm2b name szName szP bufName body) (ft1 := .one (.prim szP)) (ft2 := .one body)
                  (by simp [Ty.attr]) (by simp [Ty.attr, heo.1.1]) (hTso _) hTbo hTsa
            · cases h
      · cases h
  | .union name arms, heo, pre, nd, sel, v, bs, evs, h => by
    simp only [Ty.eo] at heo
    have hunder := spec_under _ _ _ _ _ _ h
    simp only [spec] at h
    split at h
    · cases h
    · rename_i an hsel
      simp only [Option.map_eq_some_iff] at h
      obtain ⟨⟨b, e⟩, hr, heq⟩ := h
      simp only [Prod.mk.injEq] at heq
      obtain ⟨_, rfl⟩ := heq
      have hheads : Heads nd (sstrip pre.length e) := by
        have := under_heads hunder
        rw [sstrip_cons] at this
        exact fun x hx => this x (List.mem_cons_of_mem _ hx)
      rcases arm_builds arms heo name an (pre ++ [nd]) v b e hr with ⟨he, hv⟩ | ⟨T, ft, av, hT, hattr, hTo, hv, hTa, hwant⟩
      · subst he
        refine ⟨.dict [], ?_, ?_, ?_⟩
        · exact buildsAt_leaf nd _ (by simp [stripE])
        · rw [hv]
          have : (Ty.union name arms).hasFields = true := by
            cases arms with
            | nil => simp [specArm] at hr
            | _ => rfl
          exact toObj_empty_absent enc _ this
        · intro _ sub hsub; cases hsub; simp
      · refine ⟨.dict [(an, T)], ?_, ?_, ?_⟩
        · rw [sstrip_cons]
          apply buildsAt_node nd _ _ _ (by simp [stripE]) hheads
          rw [strip_sstrip]
          rw [length_snoc'] at hT
          have := hT.1 rfl [] (kvLookup_nil _)
          rw [List.nil_append] at this
          rw [leafOf_stripE]
          exact this
        · rw [hv]
          apply toObj_dict enc (.union name arms) _ _ (by simp) (isEncDict_false enc an T _ hTa)
          simp [toObjKvs, Ty.attr, hattr, hTo]
        · intro htop sub hsub
          cases hsub
          simp only [List.map_cons, List.map_nil, List.mem_cons, List.not_mem_nil, or_false]
          exact fun hb => hwant (by simpa [Ty.top] using htop) hb.symm
  | .bad _, _, pre, nd, sel, v, bs, evs, h => by simp [spec] at h

theorem arm_builds : (arms : Arms) → arms.eo (encBuf enc) = true → ∀ (un want : String) (path : Path) (v : Val)
    (bs : List Byte) (evs : List SEv), specArm arms un want path v = some (bs, evs) →
    (evs = [] ∧ v = .none) ∨
    ∃ T ft av, BuildsAt ⟨want, none⟩ T (sstrip path.length evs) ∧ arms.attr want = some ft ∧ toObj enc ft T = some av ∧
      v = .obj un false [(want, av)] ∧ TopAvoid (encBuf enc) T ∧ (arms.top (encBuf enc) = true → want ≠ encBuf enc)
  | .nil, _, un, want, path, v, bs, evs, h => by simp [specArm] at h
  | .consNone an k rest, heo, un, want, path, v, bs, evs, h => by
    simp only [Arms.eo] at heo
    simp only [specArm] at h
    split at h
    · split at h
      · rename_i hz
        simp only [Option.some.injEq, Prod.mk.injEq] at h
        exact Or.inl ⟨h.2.symm, isNone_inv hz⟩
      · cases h
    · rename_i hne
      rcases arm_builds rest heo un want path v bs evs h with hl | ⟨T, ft, av, h1, h2, h3, h4, h5, h6⟩
      · exact Or.inl hl
      · exact Or.inr ⟨T, ft, av, h1, by simp [Arms.attr, hne, h2], h3, h4, h5, fun ht => h6 (by simpa [Arms.top] using ht)⟩
  | .cons an k t rest, heo, un, want, path, v, bs, evs, h => by
    simp only [Arms.eo, Bool.and_eq_true] at heo
    simp only [specArm] at h
    split at h
    · rename_i heq
      subst heq
      split at h
      · cases h
      · rename_i av hav
        obtain ⟨T, hT, hTo, hTa⟩ := spec_builds t heo.1.2 path ⟨an, none⟩ none av bs evs h
        exact Or.inr ⟨T, .one t, av, hT, by simp [Arms.attr], hTo, objSingle_inv hav, hTa heo.1.1,
          fun ht => by simp only [Arms.top, Bool.and_eq_true, decide_eq_true_eq] at ht; exact ht.1⟩
    · rename_i hne
      rcases arm_builds rest heo.2 un want path v bs evs h with hl | ⟨T, ft, av, h1, h2, h3, h4, h5, h6⟩
      · exact Or.inl hl
      · exact Or.inr ⟨T, ft, av, h1, by simp [Arms.attr, hne, h2], h3, h4, h5,
          fun ht => h6 (by simp only [Arms.top, Bool.and_eq_true] at ht; exact ht.2)⟩
  | .consBytes an k elem n rest, heo, un, want, path, v, bs, evs, h => by
    simp only [Arms.eo] at heo
    simp only [specArm] at h
    split at h
    · rename_i heq
      subst heq
      split at h
      · cases h
      · rename_i av hav
        cases n with
        | none => simp [specListArm] at h
        | some c =>
          obtain ⟨T, hT, hTo, hTa⟩ := primList_builds enc (by simpa [specListArm] using h)
          exact Or.inr ⟨T, .many (.prim elem), av, hT, by simp [Arms.attr], hTo, objSingle_inv hav, hTa,
            fun ht => by simp only [Arms.top, Bool.and_eq_true, decide_eq_true_eq] at ht; exact ht.1⟩
    · rename_i hne
      rcases arm_builds rest heo un want path v bs evs h with hl | ⟨T, ft, av, h1, h2, h3, h4, h5, h6⟩
      · exact Or.inl hl
      · exact Or.inr ⟨T, ft, av, h1, by simp [Arms.attr, hne, h2], h3, h4, h5,
          fun ht => h6 (by simp only [Arms.top, Bool.and_eq_true] at ht; exact ht.2)⟩

theorem fields_builds : (fs : Fields) → fs.eo (encBuf enc) = true → fs.names.Nodup → ∀ (path : Path)
    (vals fvs : List (String × Val)) (bs : List Byte) (evs : List SEv), specFields fs path vals fvs = some (bs, evs) →
    ∃ entries : List (String × Tree), entries.map (·.1) = fs.names ∧ (∀ e ∈ entries, TopAvoid (encBuf enc) e.2) ∧
      (∀ kvs0, (∀ n ∈ fs.names, kvLookup kvs0 n = none) →
        buildTree (sstrip path.length evs) (.dict kvs0) = some (.dict (kvs0 ++ entries))) ∧
      (∀ tt : Ty, AttrOk tt.attr fs → toObjKvs enc tt entries = some fvs)
  | .nil, _, _, path, vals, fvs, bs, evs, h => by
    simp only [specFields] at h
    split at h
    · rename_i hemp
      simp only [Option.some.injEq, Prod.mk.injEq] at h
      obtain ⟨_, rfl⟩ := h
      refine ⟨[], rfl, by simp, ?_, ?_⟩
      · intro kvs0 _; simp [sstrip_nil, buildTree]
      · intro tt _
        cases fvs with
        | nil => simp [toObjKvs]
        | cons _ _ => simp at hemp
    · cases h
  | .cons fname kind t rest, _, _, path, vals, [], bs, evs, h => by simp [specFields] at h
  | .cons fname kind t rest, heo, hnd, path, vals, (fn, v) :: fvs', bs, evs, h => by
    simp only [Fields.eo, Bool.and_eq_true] at heo
    simp only [Fields.names, List.nodup_cons] at hnd
    simp only [specFields] at h
    split at h
    · rename_i hfn
      subst hfn
      split at h
      · cases h
      · rename_i b e hf
        split at h
        · cases h
        · rename_i bs' es' hr
          simp only [Option.some.injEq, Prod.mk.injEq] at h
          obtain ⟨_, rfl⟩ := h
          obtain ⟨T1, hT1, hT1o, hT1a⟩ := fieldWith_builds enc t path fn (fun p sel v => spec t p sel v)
            (fun nd sel v bs evs h => by
              obtain ⟨T, h1, h2, h3⟩ := spec_builds t heo.1.2 path nd sel v bs evs h
              exact ⟨T, h1, h2, h3 heo.1.1⟩) t.name kind vals v b e hf
          obtain ⟨entries', hnames', havoid', hbuild', hobj'⟩ := fields_builds rest heo.2 hnd.2 path _ fvs' bs' es' hr
          refine ⟨(fn, T1) :: entries', by simp [Fields.names, hnames'], ?_, ?_, ?_⟩
          · intro x hx
            cases hx with
            | head => exact hT1a
            | tail _ hx => exact havoid' x hx
          · intro kvs0 hfresh
            rw [sstrip_append, sstrip_shift, buildTree_append,
              hT1.1 rfl kvs0 (hfresh fn (by simp [Fields.names])), Option.bind_some,
              hbuild' (kvs0 ++ [(fn, T1)]) (fun n hn => kvLookup_append_other kvs0 fn T1 n
                (hfresh n (by simp [Fields.names, hn])) (by rintro rfl; exact hnd.1 hn))]
            simp
          · intro tt hattr
            simp [toObjKvs, hattr.1, hT1o, hobj' tt hattr.2]
    · cases h
end
