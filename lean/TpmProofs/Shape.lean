import TpmModel.Print
import TpmModel.Message
import TpmModel.Pump
import TpmProofs.Trace
import TpmProofs.Modes
/-!
# Every event stream the decoder produces is *shaped* (C14), in either mode, for every input

`shapedB` (TpmModel/Print.lean) is the hypothesis of the printers' totality theorem: every value is of a known primitive
class, and the events that directly follow a `list[BYTE]` event as its children carry values.  Here it is proved of the
decoder by a path discipline: the events of `decode t σ` lie under `σ`; the fields of a structure lie in slots with distinct
names; the elements of a list lie in slots with distinct indices — so the event that follows a buffer's children is never
again a "child" of that buffer.
-/

/-! ## `Tr P s r`: the events a step adds to the trace satisfy the list predicate `P` -/

def Tr {α : Type} (P : List Event → Prop) (s : St) (r : R α) : Prop :=
  ∃ new : List (Nat × Event), (stOf r).out = s.out ++ new ∧ P (new.map (·.2))

theorem Tr.mono {α : Type} {P Q : List Event → Prop} {s : St} {r : R α} (h : Tr P s r) (hpq : ∀ E, P E → Q E) : Tr Q s r := by
  obtain ⟨new, h1, h2⟩ := h
  exact ⟨new, h1, hpq _ h2⟩

theorem Tr.quiet {α : Type} {P : List Event → Prop} {s : St} {r : R α} (h : (stOf r).out = s.out) (hp : P []) : Tr P s r :=
  ⟨[], by simp [h], hp⟩

theorem Tr.bind {α β : Type} {P1 P2 P : List Event → Prop} {s : St} {r : R α} {f : α → St → R β} (h : Tr P1 s r)
    (hf : ∀ a t, r = .ok (a, t) → Tr P2 t (f a t)) (h1 : ∀ E, P1 E → P E) (h12 : ∀ E1 E2, P1 E1 → P2 E2 → P (E1 ++ E2)) :
    Tr P s (r.bind f) := by
  cases r with
  | error e => obtain ⟨e, t⟩ := e; exact h.mono h1
  | ok at' =>
    obtain ⟨a, t⟩ := at'
    obtain ⟨n1, o1, p1⟩ := h
    obtain ⟨n2, o2, p2⟩ := hf a t rfl
    refine ⟨n1 ++ n2, ?_, by rw [List.map_append]; exact h12 _ _ p1 p2⟩
    simp only [R.bind_ok]
    rw [o2]
    simp only [stOf] at o1
    rw [o1, List.append_assoc]

theorem Tr.of_emit {α : Type} {P Q : List Event → Prop} {s : St} (e : Event) {r : R α} (h : Tr P (emit e s) r)
    (hq : ∀ E, P E → Q (e :: E)) : Tr Q s r := by
  obtain ⟨new, h1, h2⟩ := h
  refine ⟨(s.pos, e) :: new, ?_, hq _ h2⟩
  rw [h1]; simp [emit]

theorem Tr.of_scs {α : Type} {P : List Event → Prop} {s : St} (scs : List SC) {r : R α} (h : Tr P { s with scs := scs } r) :
    Tr P s r := h

/-! ## warnings only -/

def isWarn : Event → Bool
  | .warning _ => true
  | .marshal _ => false

def GW (E : List Event) : Prop := ∀ e ∈ E, isWarn e = true

theorem GW.nil : GW [] := by intro e he; cases he
theorem GW.append {a b : List Event} (ha : GW a) (hb : GW b) : GW (a ++ b) := by
  intro e he
  rcases List.mem_append.mp he with h | h
  · exact ha e h
  · exact hb e h
theorem GW.cons_w (w : Err) {E : List Event} (h : GW E) : GW (.warning w :: E) := by
  intro e he
  cases he with
  | head => rfl
  | tail _ h' => exact h e h'

theorem Tr.gw_emitW {α : Type} {s : St} (e : Err) {r : R α} (h : Tr GW (emit (.warning e) s) r) : Tr GW s r :=
  Tr.of_emit (.warning e) h (fun _ h => GW.cons_w e h)

theorem take_gw (n : Nat) (s : St) : Tr GW s (take n s) := by
  unfold take; split <;> exact Tr.quiet rfl GW.nil

theorem consume_gw (n : Nat) (s : St) : Tr GW s (consume n s) := by
  unfold consume
  exact (take_gw n s).bind (fun _ t _ => Tr.quiet rfl GW.nil) (fun _ h => h) (fun _ _ h1 h2 => h1.append h2)

theorem bpGo_gw (path : Path) (size : Nat) : ∀ (todo done : List SC) (s : St), Tr GW s (bpGo path size done todo s) := by
  intro todo
  induction todo with
  | nil => intro done s; exact Tr.quiet rfl GW.nil
  | cons c rest ih =>
    intro done s
    unfold bpGo
    split
    · exact Tr.of_scs _ ((consume_gw _ _).bind (fun _ t _ => Tr.quiet rfl GW.nil) (fun _ h => h)
        (fun _ _ h1 h2 => h1.append h2))
    · exact ih _ _

theorem bytesParsed_gw (path : Path) (size : Nat) (s : St) : Tr GW s (bytesParsed path size s) := bpGo_gw path size s.scs [] s

theorem anticipateM_gw (abort : Bool) (vpath : Path) (v id : Nat) (s : St) : Tr GW s (anticipateM abort vpath v id s) := by
  unfold anticipateM
  split
  · exact Tr.quiet rfl GW.nil
  · split
    · exact Tr.quiet rfl GW.nil
    · exact Tr.gw_emitW _ (Tr.quiet rfl GW.nil)

theorem openRegion_gw (abort : Bool) (id : Nat) (cpath : Path) (n : Nat) (s : St) : Tr GW s (openRegion abort id cpath n s) := by
  unfold openRegion
  exact (anticipateM_gw _ _ _ _ s).bind (fun _ t _ => Tr.quiet rfl GW.nil) (fun _ h => h) (fun _ _ h1 h2 => h1.append h2)

theorem setListed_gw (abort : Bool) (id : Nat) (cpath : Path) (n : Nat) (s : St) : Tr GW s (setListed abort id cpath n s) := by
  unfold setListed
  exact Tr.of_scs _ (anticipateM_gw _ _ _ _ _)

theorem assertDoneSC_gw (abort : Bool) (c : SC) (s : St) : Tr GW s (assertDoneSC abort c s) := by
  unfold assertDoneSC
  split
  · exact Tr.quiet rfl GW.nil
  · split
    · exact Tr.quiet rfl GW.nil
    · split
      · exact Tr.quiet rfl GW.nil
      · apply Tr.gw_emitW
        split
        · exact (bytesParsed_gw _ _ _).bind (fun _ t _ => consume_gw _ t) (fun _ h => h) (fun _ _ h1 h2 => h1.append h2)
        · exact Tr.quiet rfl GW.nil

theorem assertDone_gw (abort : Bool) (id : Nat) (s : St) : Tr GW s (assertDone abort id s) := by
  unfold assertDone
  split
  · exact Tr.quiet rfl GW.nil
  · exact Tr.of_scs _ (assertDoneSC_gw _ _ _)

/-! ## runs of buffer children -/

theorem bytesRun_append (P : Path) : ∀ (A B : List Event), bytesRun P A = true → bytesRun P B = true →
    bytesRun P (A ++ B) = true
  | [], B, _, hb => hb
  | .warning _ :: A, B, ha, hb => by
    simp only [List.cons_append, bytesRun] at ha ⊢
    exact bytesRun_append P A B ha hb
  | .marshal c :: A, B, ha, hb => by
    simp only [List.cons_append, bytesRun] at ha ⊢
    split
    · rename_i hc
      simp only [hc, if_true, Bool.and_eq_true] at ha
      simp only [Bool.and_eq_true]
      exact ⟨ha.1, bytesRun_append P A B ha.2 hb⟩
    · rfl

theorem bytesRun_nonchild (P : Path) : ∀ (B : List Event), (∀ m, .marshal m ∈ B → isChild P m.path = false) →
    bytesRun P B = true
  | [], _ => rfl
  | .warning _ :: B, h => by
    simp only [bytesRun]
    exact bytesRun_nonchild P B (fun m hm => h m (List.mem_cons_of_mem _ hm))
  | .marshal c :: B, h => by
    simp only [bytesRun, h c (List.mem_cons_self ..)]
    rfl

theorem bytesRun_gw (P : Path) (B : List Event) (h : GW B) : bytesRun P B = true :=
  bytesRun_nonchild P B (fun m hm => by have := h _ hm; simp [isWarn] at this)

theorem kidsOk_append : ∀ (A B : List Event), kidsOk A = true → kidsOk B = true →
    (∀ p, .marshal p ∈ A → p.ty = .listOf "BYTE" → bytesRun p.path B = true) → kidsOk (A ++ B) = true
  | [], B, _, hb, _ => hb
  | .warning _ :: A, B, ha, hb, h => by
    simp only [List.cons_append, kidsOk] at ha ⊢
    exact kidsOk_append A B ha hb (fun p hp => h p (List.mem_cons_of_mem _ hp))
  | .marshal p :: A, B, ha, hb, h => by
    simp only [List.cons_append, kidsOk, Bool.and_eq_true] at ha ⊢
    refine ⟨?_, kidsOk_append A B ha.2 hb (fun q hq => h q (List.mem_cons_of_mem _ hq))⟩
    by_cases hty : p.ty = .listOf "BYTE"
    · simp only [hty, if_true] at ha ⊢
      exact bytesRun_append p.path A B ha.1 (h p (List.mem_cons_self ..) hty)
    · simp only [hty, if_false]

theorem kidsOk_gw (E : List Event) (h : GW E) : kidsOk E = true := by
  induction E with
  | nil => rfl
  | cons e rest ih =>
    cases e with
    | warning w => simp only [kidsOk]; exact ih (fun x hx => h x (List.mem_cons_of_mem _ hx))
    | marshal m => have := h _ (List.mem_cons_self ..); simp [isWarn] at this

theorem kidsOk_prefix : ∀ (A B : List Event), kidsOk (A ++ B) = true → kidsOk A = true
  | [], _, _ => rfl
  | .warning _ :: A, B, h => by
    simp only [List.cons_append, kidsOk] at h ⊢
    exact kidsOk_prefix A B h
  | .marshal p :: A, B, h => by
    simp only [List.cons_append, kidsOk, Bool.and_eq_true] at h ⊢
    refine ⟨?_, kidsOk_prefix A B h.2⟩
    by_cases hty : p.ty = .listOf "BYTE"
    · simp only [hty, if_true] at h ⊢
      -- a run that is fine on `A ++ B` is fine on `A`
      have key : ∀ (A : List Event), bytesRun p.path (A ++ B) = true → bytesRun p.path A = true := by
        intro A
        induction A with
        | nil => intro _; rfl
        | cons e A ih =>
          intro h
          cases e with
          | warning w => simp only [List.cons_append, bytesRun] at h ⊢; exact ih h
          | marshal c =>
            simp only [List.cons_append, bytesRun] at h ⊢
            split
            · rename_i hc
              simp only [hc, if_true, Bool.and_eq_true] at h
              simp only [Bool.and_eq_true]
              exact ⟨h.1, ih h.2⟩
            · rfl
      exact key A h.1
    · simp only [hty, if_false]

/-! ## when a path is not a buffer's child -/

theorem isChild_false_names (π : Path) (f g : String) (i j : Option Nat) (r r' : Path) (h : f ≠ g) :
    isChild (π ++ ⟨f, i⟩ :: r) (π ++ ⟨g, j⟩ :: r') = false := by
  unfold isChild
  cases r with
  | nil =>
    cases r' with
    | nil =>
      simp [List.dropLast_append_cons, h]
    | cons x xs =>
      have h1 : (π ++ [(⟨f, i⟩ : PathNode)]).dropLast = π := by simp
      have h2 : (π ++ ⟨g, j⟩ :: x :: xs).dropLast = π ++ ⟨g, j⟩ :: (x :: xs).dropLast := by
        rw [List.dropLast_append_cons]; simp
      rw [h1, h2]
      have : (π == π ++ ⟨g, j⟩ :: (x :: xs).dropLast) = false := by
        apply beq_false_of_ne
        intro heq
        have := congrArg List.length heq
        simp at this
      simp [this]
  | cons y ys =>
    have h1 : (π ++ ⟨f, i⟩ :: y :: ys).dropLast = π ++ ⟨f, i⟩ :: (y :: ys).dropLast := by
      rw [List.dropLast_append_cons]; simp
    cases r' with
    | nil =>
      have h2 : (π ++ [(⟨g, j⟩ : PathNode)]).dropLast = π := by simp
      rw [h1, h2]
      have : (π ++ ⟨f, i⟩ :: (y :: ys).dropLast == π) = false := by
        apply beq_false_of_ne
        intro heq
        have := congrArg List.length heq
        simp at this
      simp [this]
    | cons x xs =>
      have h2 : (π ++ ⟨g, j⟩ :: x :: xs).dropLast = π ++ ⟨g, j⟩ :: (x :: xs).dropLast := by
        rw [List.dropLast_append_cons]; simp
      rw [h1, h2]
      have : (π ++ ⟨f, i⟩ :: (y :: ys).dropLast == π ++ ⟨g, j⟩ :: (x :: xs).dropLast) = false := by
        apply beq_false_of_ne
        intro heq
        have := List.append_cancel_left heq
        simp only [List.cons.injEq, PathNode.mk.injEq] at this
        exact h this.1.1
      simp [this]

theorem isChild_false_idx (π : Path) (f : String) (i j : Nat) (y : PathNode) (ys r' : Path) (h : i ≠ j) :
    isChild (π ++ ⟨f, some i⟩ :: y :: ys) (π ++ ⟨f, some j⟩ :: r') = false := by
  unfold isChild
  have h1 : (π ++ ⟨f, some i⟩ :: y :: ys).dropLast = π ++ ⟨f, some i⟩ :: (y :: ys).dropLast := by
    rw [List.dropLast_append_cons]; simp
  cases r' with
  | nil =>
    have h2 : (π ++ [(⟨f, some j⟩ : PathNode)]).dropLast = π := by simp
    rw [h1, h2]
    have : (π ++ ⟨f, some i⟩ :: (y :: ys).dropLast == π) = false := by
      apply beq_false_of_ne
      intro heq
      have := congrArg List.length heq
      simp at this
    simp [this]
  | cons x xs =>
    have h2 : (π ++ ⟨f, some j⟩ :: x :: xs).dropLast = π ++ ⟨f, some j⟩ :: (x :: xs).dropLast := by
      rw [List.dropLast_append_cons]; simp
    rw [h1, h2]
    have : (π ++ ⟨f, some i⟩ :: (y :: ys).dropLast == π ++ ⟨f, some j⟩ :: (x :: xs).dropLast) = false := by
      apply beq_false_of_ne
      intro heq
      have := List.append_cancel_left heq
      simp only [List.cons.injEq, PathNode.mk.injEq, Option.some.injEq] at this
      exact h this.1.2
    simp [this]

theorem bytesRun_allvals (P : Path) : ∀ (B : List Event), (∀ m, .marshal m ∈ B → m.val.isSome = true) →
    bytesRun P B = true
  | [], _ => rfl
  | .warning _ :: B, h => by
    simp only [bytesRun]
    exact bytesRun_allvals P B (fun m hm => h m (List.mem_cons_of_mem _ hm))
  | .marshal c :: B, h => by
    simp only [bytesRun]
    split
    · simp only [Bool.and_eq_true]
      exact ⟨h c (List.mem_cons_self ..), bytesRun_allvals P B (fun m hm => h m (List.mem_cons_of_mem _ hm))⟩
    · rfl

/-! ## the list predicates -/

section
variable (okc : MEvent → Prop)

/-- `okc`: what is known of every field event that carries a value (its class, its value, …) -/
def mOk (m : MEvent) : Prop := m.val.isSome = true → okc m

/-- events of a walker at path `σ`: under `σ`, none of them a list event at `σ` itself -/
def GD (σ : Path) (E : List Event) : Prop :=
  (∀ m, .marshal m ∈ E → (∃ r, m.path = σ ++ r ∧ (r = [] → ∀ n, m.ty ≠ .listOf n)) ∧ mOk okc m) ∧ kidsOk E = true

/-- events in the slots `N` below `π` -/
def GN (π : Path) (N : List String) (E : List Event) : Prop :=
  (∀ m, .marshal m ∈ E → (∃ g i r, g ∈ N ∧ m.path = π ++ ⟨g, i⟩ :: r) ∧ mOk okc m) ∧ kidsOk E = true

/-- events of the elements `lo, lo+1, …` of the list `f` below `π` -/
def GR (π : Path) (f : String) (lo : Nat) (E : List Event) : Prop :=
  (∀ m, .marshal m ∈ E → (∃ j r, lo ≤ j ∧ m.path = π ++ ⟨f, some j⟩ :: r ∧ (r = [] → ∀ n, m.ty ≠ .listOf n)) ∧ mOk okc m) ∧
    kidsOk E = true

variable {okc}

theorem gw_no_marshal {E : List Event} (h : GW E) (m : MEvent) (hm : .marshal m ∈ E) : False := by
  have := h _ hm; simp [isWarn] at this

theorem GD.of_gw (σ : Path) {E : List Event} (h : GW E) : GD okc σ E :=
  ⟨fun m hm => (gw_no_marshal h m hm).elim, kidsOk_gw E h⟩
theorem GN.of_gw (π : Path) (N : List String) {E : List Event} (h : GW E) : GN okc π N E :=
  ⟨fun m hm => (gw_no_marshal h m hm).elim, kidsOk_gw E h⟩
theorem GR.of_gw (π : Path) (f : String) (lo : Nat) {E : List Event} (h : GW E) : GR okc π f lo E :=
  ⟨fun m hm => (gw_no_marshal h m hm).elim, kidsOk_gw E h⟩

theorem GN.mono {π : Path} {N N' : List String} {E : List Event} (h : GN okc π N E) (hs : ∀ g ∈ N, g ∈ N') : GN okc π N' E :=
  ⟨fun m hm => by
    obtain ⟨⟨g, i, r, hg, hp⟩, ho⟩ := h.1 m hm
    exact ⟨⟨g, i, r, hs g hg, hp⟩, ho⟩, h.2⟩

theorem GN.append {π : Path} {N1 N2 : List String} {E1 E2 : List Event} (h1 : GN okc π N1 E1) (h2 : GN okc π N2 E2)
    (hd : ∀ g ∈ N1, g ∉ N2) : GN okc π (N1 ++ N2) (E1 ++ E2) := by
  refine ⟨fun m hm => ?_, ?_⟩
  · rcases List.mem_append.mp hm with hm | hm
    · exact (h1.mono (fun g hg => List.mem_append_left _ hg)).1 m hm
    · exact (h2.mono (fun g hg => List.mem_append_right _ hg)).1 m hm
  · apply kidsOk_append E1 E2 h1.2 h2.2
    intro p hp _
    obtain ⟨⟨f, i, r, hf, hpp⟩, _⟩ := h1.1 p hp
    apply bytesRun_nonchild
    intro c hc
    obtain ⟨⟨g, j, r', hg, hcp⟩, _⟩ := h2.1 c hc
    rw [hpp, hcp]
    exact isChild_false_names π f g i j r r' (fun heq => hd f hf (heq ▸ hg))

theorem GN.of_GD {π : Path} {g : String} {i : Option Nat} {E : List Event} (h : GD okc (π ++ [⟨g, i⟩]) E) : GN okc π [g] E :=
  ⟨fun m hm => by
    obtain ⟨⟨r, hp, _⟩, ho⟩ := h.1 m hm
    exact ⟨⟨g, i, r, List.mem_singleton.mpr rfl, by rw [hp]; simp⟩, ho⟩, h.2⟩

/-- the structure event, then the events in the slots below it -/
theorem GD.of_parent {σ : Path} {N : List String} {E : List Event} (m0 : MEvent) (hp : m0.path = σ)
    (hty : ∀ n, m0.ty ≠ .listOf n) (hv : m0.val = none) (h : GN okc σ N E) : GD okc σ (.marshal m0 :: E) := by
  refine ⟨fun m hm => ?_, ?_⟩
  · rcases List.mem_cons.mp hm with hm | hm
    · cases hm
      exact ⟨⟨[], by simp [hp], fun _ => hty⟩, fun hs => by rw [hv] at hs; cases hs⟩
    · obtain ⟨⟨g, i, r, _, hpp⟩, ho⟩ := h.1 m hm
      exact ⟨⟨⟨g, i⟩ :: r, hpp, fun hr => by cases hr⟩, ho⟩
  · simp only [kidsOk, Bool.and_eq_true]
    refine ⟨?_, h.2⟩
    have : ¬ m0.ty = .listOf "BYTE" := hty "BYTE"
    simp [this]

theorem GD.single {σ : Path} (m0 : MEvent) (hp : m0.path = σ) (hty : ∀ n, m0.ty ≠ .listOf n) (ho : mOk okc m0) :
    GD okc σ [.marshal m0] := by
  refine ⟨fun m hm => ?_, ?_⟩
  · cases List.mem_singleton.mp hm
    exact ⟨⟨[], by simp [hp], fun _ => hty⟩, ho⟩
  · have : ¬ m0.ty = .listOf "BYTE" := hty "BYTE"
    simp [kidsOk, this]

theorem GD.append_gw {σ : Path} {E W : List Event} (h : GD okc σ E) (hw : GW W) : GD okc σ (E ++ W) := by
  refine ⟨fun m hm => ?_, kidsOk_append E W h.2 (kidsOk_gw W hw) (fun p _ _ => bytesRun_gw _ W hw)⟩
  rcases List.mem_append.mp hm with hm | hm
  · exact h.1 m hm
  · exact (gw_no_marshal hw m hm).elim

theorem GD.gw_append {σ : Path} {E W : List Event} (hw : GW W) (h : GD okc σ E) : GD okc σ (W ++ E) := by
  refine ⟨fun m hm => ?_, kidsOk_append W E (kidsOk_gw W hw) h.2 (fun p hp _ => (gw_no_marshal hw p hp).elim)⟩
  rcases List.mem_append.mp hm with hm | hm
  · exact (gw_no_marshal hw m hm).elim
  · exact h.1 m hm

theorem GR.cons {π : Path} {f : String} {i : Nat} {E1 E2 : List Event} (h1 : GD okc (π ++ [⟨f, some i⟩]) E1)
    (h2 : GR okc π f (i + 1) E2) : GR okc π f i (E1 ++ E2) := by
  refine ⟨fun m hm => ?_, ?_⟩
  · rcases List.mem_append.mp hm with hm | hm
    · obtain ⟨⟨r, hp, hl⟩, ho⟩ := h1.1 m hm
      exact ⟨⟨i, r, Nat.le_refl _, by rw [hp]; simp, hl⟩, ho⟩
    · obtain ⟨⟨j, r, hj, hp, hl⟩, ho⟩ := h2.1 m hm
      exact ⟨⟨j, r, by omega, hp, hl⟩, ho⟩
  · apply kidsOk_append E1 E2 h1.2 h2.2
    intro p hp hty
    obtain ⟨⟨r, hpp, hl⟩, _⟩ := h1.1 p hp
    apply bytesRun_nonchild
    intro c hc
    obtain ⟨⟨j, r', hj, hcp, _⟩, _⟩ := h2.1 c hc
    cases r with
    | nil => exact absurd hty (hl rfl "BYTE")
    | cons y ys =>
      rw [hpp, hcp]
      have : π ++ [(⟨f, some i⟩ : PathNode)] ++ y :: ys = π ++ ⟨f, some i⟩ :: y :: ys := by simp
      rw [this]
      exact isChild_false_idx π f i j y ys r' (by omega)

/-- a list: its own event, then its elements -/
theorem GN.list {π : Path} {f : String} {E : List Event} (m0 : MEvent) (hp : m0.path = π ++ [⟨f, none⟩])
    (hv : m0.val = none) (h : GR okc π f 0 E)
    (hb : m0.ty = .listOf "BYTE" → ∀ m, .marshal m ∈ E → m.val.isSome = true) : GN okc π [f] (.marshal m0 :: E) := by
  refine ⟨fun m hm => ?_, ?_⟩
  · rcases List.mem_cons.mp hm with hm | hm
    · cases hm
      exact ⟨⟨f, none, [], List.mem_singleton.mpr rfl, by rw [hp]⟩, fun hs => by rw [hv] at hs; cases hs⟩
    · obtain ⟨⟨j, r, _, hpp, _⟩, ho⟩ := h.1 m hm
      exact ⟨⟨f, some j, r, List.mem_singleton.mpr rfl, hpp⟩, ho⟩
  · simp only [kidsOk, Bool.and_eq_true]
    refine ⟨?_, h.2⟩
    by_cases hty : m0.ty = .listOf "BYTE"
    · simp only [hty, if_true]
      exact bytesRun_allvals _ E (hb hty)
    · simp only [hty, if_false]

end

/-! ## the walkers -/

theorem Tr.ok_nil {α : Type} {P : List Event → Prop} (s : St) (a : α) (hp : P []) : Tr P s (.ok (a, s) : R α) :=
  Tr.quiet rfl hp
theorem Tr.err_nil {α : Type} {P : List Event → Prop} (s : St) (e : Err) (hp : P []) : Tr P s (.error (e, s) : R α) :=
  Tr.quiet rfl hp
theorem Tr.crash_nil {α : Type} {P : List Event → Prop} (s : St) (c m : String) (hp : P []) : Tr P s (crash c m s : R α) :=
  Tr.quiet rfl hp

theorem Tr.ok_emit1 {α : Type} {P : List Event → Prop} (s : St) (a : α) (e : Event) (hp : P [e]) :
    Tr P s (.ok (a, emit e s) : R α) := ⟨[(s.pos, e)], rfl, hp⟩
theorem Tr.ok_emit2 {α : Type} {P : List Event → Prop} (s : St) (a : α) (e1 e2 : Event) (hp : P [e1, e2]) :
    Tr P s (.ok (a, emit e2 (emit e1 s)) : R α) := ⟨[(s.pos, e1), (s.pos, e2)], by simp [emit, stOf], hp⟩

/-- the new events are determined by the run: two facts about them can be combined -/
theorem Tr.and {α : Type} {P Q : List Event → Prop} {s : St} {r : R α} (hp : Tr P s r) (hq : Tr Q s r) :
    Tr (fun E => P E ∧ Q E) s r := by
  obtain ⟨n1, o1, p1⟩ := hp
  obtain ⟨n2, o2, p2⟩ := hq
  have : n1 = n2 := List.append_cancel_left (o1.symm.trans o2)
  subst this
  exact ⟨n1, o1, p1, p2⟩

/-- all field events carry values -/
def AV (E : List Event) : Prop := ∀ m, .marshal m ∈ E → m.val.isSome = true

theorem AV.of_gw {E : List Event} (h : GW E) : AV E := fun m hm => (gw_no_marshal h m hm).elim
theorem AV.nil : AV [] := fun _ hm => by cases hm
theorem AV.append {a b : List Event} (ha : AV a) (hb : AV b) : AV (a ++ b) := by
  intro m hm
  rcases List.mem_append.mp hm with h | h
  · exact ha m h
  · exact hb m h

theorem elemPath_snoc' (π : Path) (f : String) (i : Nat) : elemPath (π ++ [⟨f, none⟩]) i = π ++ [⟨f, some i⟩] := by
  simp [elemPath]

/-- the link between the (decidable) side condition `pk` on primitive types and what is claimed of their value events:
in strict mode only valid values are shown -/
def PrimLink (abort : Bool) (pk : Prim → Bool) (okc : MEvent → Prop) : Prop :=
  ∀ p, pk p = true → ∀ σ x, (abort = true → p.isValid x = true) → okc ⟨σ, .named p.name false, some x, p.name, p.size⟩

section
variable {okc : MEvent → Prop} {pk : Prim → Bool} (abort : Bool)

theorem readPrim_gd (hpk : PrimLink abort pk okc) (p : Prim) (hp : pk p = true) (σ : Path) (s : St) :
    Tr (GD okc σ) s (readPrim abort p σ s) := by
  unfold readPrim
  refine (bytesParsed_gw σ p.size s).bind (fun _ t _ => ?_) (fun _ h => GD.of_gw σ h) (fun _ _ h1 h2 => GD.gw_append h1 h2)
  refine (take_gw p.size t).bind (fun bs t2 _ => ?_) (fun _ h => GD.of_gw σ h) (fun _ _ h1 h2 => GD.gw_append h1 h2)
  simp only []
  have hev : (abort = true → p.isValid (p.ofBytes bs) = true) →
      GD okc σ [.marshal ⟨σ, .named p.name false, some (p.ofBytes bs), p.name, p.size⟩] :=
    fun hv => GD.single _ rfl (fun n h => by cases h) (fun _ => hpk p hp σ _ hv)
  split
  · rename_i hvalid
    exact Tr.ok_emit1 _ _ _ (hev (fun _ => hvalid))
  · split
    · exact Tr.err_nil _ _ (GD.of_gw σ GW.nil)
    · rename_i hab
      exact Tr.ok_emit2 _ _ _ _ (GD.append_gw (E := [_]) (W := [_]) (hev (fun ha => absurd ha hab)) (GW.cons_w _ GW.nil))

theorem readPrim_av (p : Prim) (σ : Path) (s : St) : Tr AV s (readPrim abort p σ s) := by
  unfold readPrim
  refine (bytesParsed_gw σ p.size s).bind (fun _ t _ => ?_) (fun _ h => AV.of_gw h) (fun _ _ h1 h2 => (AV.of_gw h1).append h2)
  refine (take_gw p.size t).bind (fun bs t2 _ => ?_) (fun _ h => AV.of_gw h) (fun _ _ h1 h2 => (AV.of_gw h1).append h2)
  simp only []
  have hev : AV [.marshal ⟨σ, .named p.name false, some (p.ofBytes bs), p.name, p.size⟩] := by
    intro m hm; cases List.mem_singleton.mp hm; rfl
  split
  · exact Tr.ok_emit1 _ _ _ hev
  · split
    · exact Tr.err_nil _ _ AV.nil
    · exact Tr.ok_emit2 _ _ _ _ (AV.append (a := [_]) (b := [_]) hev (AV.of_gw (GW.cons_w _ GW.nil)))

/-- the element loop -/
theorem repeatDec_gr (d : Path → St → R Val) (π : Path) (f : String)
    (hd : ∀ i s, Tr (GD okc (π ++ [⟨f, some i⟩])) s (d (π ++ [⟨f, some i⟩]) s)) :
    ∀ (n i : Nat) (s : St), Tr (GR okc π f i) s (repeatDec d (π ++ [⟨f, none⟩]) n i s) := by
  intro n
  induction n with
  | zero => intro i s; exact Tr.ok_nil _ _ (GR.of_gw π f i GW.nil)
  | succ k ih =>
    intro i s
    unfold repeatDec
    rw [elemPath_snoc']
    refine (hd i s).bind (fun v t _ => ?_) (fun E h => ?_) (fun E1 E2 h1 h2 => GR.cons h1 h2)
    · refine (ih (i + 1) t).bind (fun vs t2 _ => Tr.ok_nil _ _ GW.nil) (fun _ h => h) (fun E1 E2 h1 h2 => ?_)
      have := kidsOk_append E1 E2 h1.2 (kidsOk_gw E2 h2) (fun p _ _ => bytesRun_gw _ E2 h2)
      refine ⟨fun m hm => ?_, this⟩
      rcases List.mem_append.mp hm with hm | hm
      · exact h1.1 m hm
      · exact (gw_no_marshal h2 m hm).elim
    · have := GR.cons (E2 := []) h (GR.of_gw π f (i + 1) GW.nil)
      simpa using this

theorem repeatDec_av (d : Path → St → R Val) (path : Path) (hd : ∀ p s, Tr AV s (d p s)) :
    ∀ (n i : Nat) (s : St), Tr AV s (repeatDec d path n i s) := by
  intro n
  induction n with
  | zero => intro i s; exact Tr.ok_nil _ _ AV.nil
  | succ k ih =>
    intro i s
    unfold repeatDec
    refine (hd _ s).bind (fun v t _ => ?_) (fun _ h => h) (fun _ _ h1 h2 => h1.append h2)
    exact (ih (i + 1) t).bind (fun vs t2 _ => Tr.ok_nil _ _ AV.nil) (fun _ h => h) (fun _ _ h1 h2 => h1.append h2)

/-- a list event followed by the events of its elements -/
theorem list_gn (π : Path) (f : String) (tn : String) (s : St) {β : Type} (r : R β)
    (hr : Tr (GR okc π f 0) (emitM ⟨π ++ [⟨f, none⟩], .listOf tn, none, "", 0⟩ s) r)
    (hb : tn = "BYTE" → Tr AV (emitM ⟨π ++ [⟨f, none⟩], .listOf tn, none, "", 0⟩ s) r) :
    Tr (GN okc π [f]) s r := by
  by_cases htn : tn = "BYTE"
  · refine Tr.of_emit _ (hr.and (hb htn)) (fun E hE => ?_)
    exact GN.list _ rfl rfl hE.1 (fun _ => hE.2)
  · refine Tr.of_emit _ hr (fun E hE => ?_)
    exact GN.list _ rfl rfl hE (fun hty => by simp only [TyTag.listOf.injEq] at hty; exact absurd hty htn)

theorem readPrimList_gn (hpk : PrimLink abort pk okc) (p : Prim) (hp : pk p = true) (π : Path) (f : String) (n : Nat) (s : St) :
    Tr (GN okc π [f]) s (readPrimList abort p (π ++ [⟨f, none⟩]) n s) := by
  unfold readPrimList
  apply list_gn π f p.name s
  · refine (repeatDec_gr _ π f (fun i s => readPrim_gd abort hpk p hp _ s) n 0 _).bind (fun vs t _ => Tr.ok_nil _ _ GW.nil)
      (fun _ h => h) (fun E1 E2 h1 h2 => ?_)
    refine ⟨fun m hm => ?_, kidsOk_append E1 E2 h1.2 (kidsOk_gw E2 h2) (fun p _ _ => bytesRun_gw _ E2 h2)⟩
    rcases List.mem_append.mp hm with hm | hm
    · exact h1.1 m hm
    · exact (gw_no_marshal h2 m hm).elim
  · intro _
    exact (repeatDec_av _ _ (fun q s => readPrim_av abort p q s) n 0 _).bind (fun vs t _ => Tr.ok_nil _ _ AV.nil)
      (fun _ h => h) (fun _ _ h1 h2 => h1.append h2)
end

theorem named_ne_list (a : String) (b : Bool) (n : String) : TyTag.named a b ≠ TyTag.listOf n := by
  intro h; cases h

/-! ## side conditions on the layouts -/

def Ty.isPrimTy : Ty → Bool
  | .prim _ => true
  | _ => false

mutual
def Ty.shapeOk (pk : Prim → Bool) : Ty → Bool
  | .prim p => pk p
  | .struct _ _ fs => fs.shapeOk pk && decide (fs.names.Nodup)
  | .tpm2bBytes _ sz szP buf elem => pk szP && pk elem && decide (sz ≠ buf)
  | .tpm2b _ sz szP buf body => pk szP && decide (sz ≠ buf) && body.shapeOk pk
  | .union _ arms => arms.shapeOk pk
  | .bad _ => true
def Fields.shapeOk (pk : Prim → Bool) : Fields → Bool
  | .nil => true
  | .cons _ kind t rest =>
    t.shapeOk pk && (match kind with | .counted => (t.isPrimTy || decide (t.name ≠ "BYTE")) | _ => true) && rest.shapeOk pk
def Arms.shapeOk (pk : Prim → Bool) : Arms → Bool
  | .nil => true
  | .consNone _ _ rest => rest.shapeOk pk
  | .cons _ _ t rest => t.shapeOk pk && rest.shapeOk pk
  | .consBytes _ _ elem _ rest => pk elem && rest.shapeOk pk
end

section
variable {okc : MEvent → Prop} {pk : Prim → Bool} (abort : Bool)

/-- chaining steps whose events lie in disjoint slots below `π` -/
theorem Tr.bind_gn {α β : Type} {π : Path} {N1 N2 : List String} {s : St} {r : R α} {f : α → St → R β}
    (h : Tr (GN okc π N1) s r) (hf : ∀ a t, r = .ok (a, t) → Tr (GN okc π N2) t (f a t)) (hd : ∀ g ∈ N1, g ∉ N2) :
    Tr (GN okc π (N1 ++ N2)) s (r.bind f) :=
  h.bind hf (fun _ h1 => h1.mono (fun g hg => List.mem_append_left _ hg)) (fun _ _ h1 h2 => h1.append h2 hd)

theorem Tr.bind_gw_gn {α β : Type} {π : Path} {N : List String} {s : St} {r : R α} {f : α → St → R β}
    (h : Tr GW s r) (hf : ∀ a t, r = .ok (a, t) → Tr (GN okc π N) t (f a t)) : Tr (GN okc π N) s (r.bind f) :=
  h.bind hf (fun _ h1 => GN.of_gw π N h1) (fun _ _ h1 h2 => by
    have := (GN.of_gw (okc := okc) π [] h1).append h2 (fun g hg => by cases hg)
    simpa using this)

theorem Tr.bind_gn_gw {α β : Type} {π : Path} {N : List String} {s : St} {r : R α} {f : α → St → R β}
    (h : Tr (GN okc π N) s r) (hf : ∀ a t, r = .ok (a, t) → Tr GW t (f a t)) : Tr (GN okc π N) s (r.bind f) :=
  h.bind hf (fun _ h1 => h1) (fun _ _ h1 h2 => by
    have := h1.append (GN.of_gw (okc := okc) π [] h2) (fun g _ hg => by cases hg)
    simpa using this)

/-- `ownCatch` / `msgCatch` in warn mode: a caught overrun becomes one more warning -/
theorem Tr.ownCatch {P1 P2 P : List Event → Prop} {s : St} {r : R Val} {k : Val → St → R Val} (id : Nat) (h : Tr P1 s r)
    (hk : ∀ v t, r = .ok (v, t) → Tr P2 t (k v t)) (h1 : ∀ E, P1 E → P E)
    (h1w : ∀ E w, P1 E → P (E ++ [.warning w])) (h12 : ∀ E1 E2, P1 E1 → P2 E2 → P (E1 ++ E2)) :
    Tr P s (ownCatch abort id r k) := by
  unfold _root_.ownCatch
  split
  · rename_i cid cp m a v b t
    split
    · exact h.mono h1
    · obtain ⟨new, o, p⟩ := h
      refine ⟨new ++ [(t.pos, .warning (.exceeded cid cp m a v b))], ?_, by rw [List.map_append]; exact h1w _ _ p⟩
      simp only [stOf] at o ⊢
      simp [emitW, emit, o]
  · exact h.mono h1
  · rename_i v t
    obtain ⟨n1, o1, p1⟩ := h
    obtain ⟨n2, o2, p2⟩ := hk v t rfl
    refine ⟨n1 ++ n2, ?_, by rw [List.map_append]; exact h12 _ _ p1 p2⟩
    rw [o2]; simp only [stOf] at o1; rw [o1, List.append_assoc]

theorem decodeFieldWith_gn (d : Path → Option Int → St → R Val) (tname : String)
    (hd : ∀ σ sel s, Tr (GD okc σ) s (d σ sel s)) (kind : FKind)
    (hb : kind = .counted → tname = "BYTE" → ∀ σ sel s, Tr AV s (d σ sel s)) (π : Path) (f : String) (vals : List (String × Val)) (s : St) :
    Tr (GN okc π [f]) s (decodeFieldWith d tname kind (π ++ [⟨f, none⟩]) vals s) := by
  cases kind with
  | plain => exact (hd _ none s).mono (fun _ h => GN.of_GD h)
  | selected sel =>
    simp only [decodeFieldWith]
    split
    · exact Tr.crash_nil _ _ _ (GN.of_gw π [f] GW.nil)
    · exact (hd _ _ s).mono (fun _ h => GN.of_GD h)
  | counted =>
    simp only [decodeFieldWith]
    split
    · exact Tr.crash_nil _ _ _ (GN.of_gw π [f] GW.nil)
    · rename_i c _
      apply list_gn π f tname s
      · refine (repeatDec_gr _ π f (fun i s => hd _ none s) c 0 _).bind (fun vs t _ => Tr.ok_nil _ _ GW.nil)
          (fun _ h => h) (fun E1 E2 h1 h2 => ?_)
        refine ⟨fun m hm => ?_, kidsOk_append E1 E2 h1.2 (kidsOk_gw E2 h2) (fun p _ _ => bytesRun_gw _ E2 h2)⟩
        rcases List.mem_append.mp hm with hm | hm
        · exact h1.1 m hm
        · exact (gw_no_marshal h2 m hm).elim
      · intro htn
        exact (repeatDec_av _ _ (fun q s => hb rfl htn q none s) c 0 _).bind (fun vs t _ => Tr.ok_nil _ _ AV.nil)
          (fun _ h => h) (fun _ _ h1 h2 => h1.append h2)

theorem gn_nil_of_gw {π : Path} {E : List Event} (h : GW E) : GN okc π [] E := GN.of_gw π [] h

mutual
theorem decode_gd (hpk : PrimLink abort pk okc) : (t : Ty) → t.shapeOk pk = true → ∀ (σ : Path) (sel : Option Int) (s : St),
    Tr (GD okc σ) s (decode abort t σ sel s)
  | .prim p, h, σ, sel, s => by
    simp only [decode]
    exact readPrim_gd abort hpk p (by simpa [Ty.shapeOk] using h) σ s
  | .struct name isP fs, h, σ, sel, s => by
    simp only [Ty.shapeOk, Bool.and_eq_true, decide_eq_true_eq] at h
    simp only [decode]
    refine Tr.of_emit (P := GN okc σ fs.names) _ ?_ (fun E hE => GD.of_parent ⟨σ, .named name false, none, "", 0⟩ rfl (fun n => named_ne_list _ _ n) rfl hE)
    exact Tr.bind_gn_gw (decodeFields_gn hpk fs h.1 h.2 σ [] _) (fun vals t _ => Tr.ok_nil _ _ GW.nil)
  | .tpm2bBytes name szName szP bufName elem, h, σ, sel, s => by
    simp only [Ty.shapeOk, Bool.and_eq_true, decide_eq_true_eq] at h
    simp only [decode]
    refine Tr.of_emit (P := GN okc σ ([szName] ++ [bufName])) _ ?_
      (fun E hE => GD.of_parent ⟨σ, .named name false, none, "", 0⟩ rfl (fun n => named_ne_list _ _ n) rfl hE)
    refine Tr.bind_gn ((readPrim_gd abort hpk szP h.1.1 _ _).mono (fun _ hh => GN.of_GD hh)) (fun nv t _ => ?_)
      (fun g hg hg2 => by
        simp only [List.mem_singleton] at hg hg2
        exact h.2 (hg.symm.trans hg2))
    split
    · exact Tr.crash_nil _ _ _ (GN.of_gw σ _ GW.nil)
    · refine Tr.bind_gw_gn (openRegion_gw abort _ _ _ t) (fun _ t2 _ => ?_)
      refine Tr.bind_gn_gw (readPrimList_gn abort hpk elem h.1.2 σ bufName _ t2) (fun bv t3 _ => ?_)
      exact (assertDone_gw abort _ t3).bind (fun _ t4 _ => Tr.ok_nil _ _ GW.nil) (fun _ hh => hh) (fun _ _ h1 h2 => h1.append h2)
  | .tpm2b name szName szP bufName body, h, σ, sel, s => by
    simp only [Ty.shapeOk, Bool.and_eq_true, decide_eq_true_eq] at h
    simp only [decode]
    refine Tr.of_emit (P := GN okc σ ([szName] ++ [bufName])) _ ?_
      (fun E hE => GD.of_parent ⟨σ, .named name false, none, "", 0⟩ rfl (fun n => named_ne_list _ _ n) rfl hE)
    refine Tr.bind_gn ((readPrim_gd abort hpk szP h.1.1 _ _).mono (fun _ hh => GN.of_GD hh)) (fun nv t _ => ?_)
      (fun g hg hg2 => by
        simp only [List.mem_singleton] at hg hg2
        exact h.1.2 (hg.symm.trans hg2))
    split
    · exact Tr.crash_nil _ _ _ (GN.of_gw σ _ GW.nil)
    · refine Tr.bind_gw_gn (openRegion_gw abort _ _ _ t) (fun _ t2 _ => ?_)
      split
      · -- absent body: one structure event in the buffer's slot
        have hev : GN okc σ [bufName] [.marshal ⟨σ ++ [⟨bufName, none⟩], body.eventTag, none, "", 0⟩] :=
          GN.of_GD (GD.single _ rfl (fun n => by cases body <;> exact named_ne_list _ _ n) (fun hs => by cases hs))
        refine Tr.bind_gn_gw (Tr.of_emit (P := GW) _ (assertDone_gw abort _ _) (fun E hE => ?_))
          (fun _ t3 _ => Tr.ok_nil _ _ GW.nil)
        have := hev.append (GN.of_gw (okc := okc) σ [] hE) (fun g _ hg => by cases hg)
        simpa using this
      · refine Tr.ownCatch abort _ ((decode_gd hpk body h.2 _ none t2).mono (fun _ hh => GN.of_GD hh))
          (fun bv t3 _ => (assertDone_gw abort _ t3).bind (fun _ t4 _ => Tr.ok_nil _ _ GW.nil) (fun _ hh => hh)
            (fun _ _ h1 h2 => h1.append h2))
          (fun _ hh => hh) (fun E w hh => ?_) (fun E1 E2 h1 h2 => ?_)
        · have := hh.append (GN.of_gw (okc := okc) σ [] (GW.cons_w w GW.nil)) (fun g _ hg => by cases hg)
          simpa using this
        · have := h1.append (GN.of_gw (okc := okc) σ [] h2) (fun g _ hg => by cases hg)
          simpa using this
  | .union name arms, h, σ, sel, s => by
    simp only [Ty.shapeOk] at h
    simp only [decode]
    split
    · refine Tr.of_emit (P := GN okc σ []) _ ?_ (fun E hE => GD.of_parent ⟨σ, .named name false, none, "", 0⟩ rfl (fun n => named_ne_list _ _ n) rfl hE)
      split
      · exact Tr.err_nil _ _ (GN.of_gw σ [] GW.nil)
      · exact Tr.err_nil _ _ (GN.of_gw σ [] GW.nil)
    · rename_i an _
      exact Tr.of_emit (P := GN okc σ [an]) _ (decodeArm_gn hpk arms h name an σ _)
        (fun E hE => GD.of_parent ⟨σ, .named name false, none, "", 0⟩ rfl (fun n => named_ne_list _ _ n) rfl hE)
  | .bad _, _, σ, sel, s => by
    simp only [decode]
    exact Tr.crash_nil _ _ _ (GD.of_gw σ GW.nil)

theorem decodeArm_gn (hpk : PrimLink abort pk okc) : (arms : Arms) → arms.shapeOk pk = true → ∀ (un want : String) (σ : Path) (s : St),
    Tr (GN okc σ [want]) s (decodeArm abort arms un want σ s)
  | .nil, _, un, want, σ, s => by
    simp only [decodeArm]
    exact Tr.crash_nil _ _ _ (GN.of_gw σ _ GW.nil)
  | .consNone an k rest, h, un, want, σ, s => by
    simp only [Arms.shapeOk] at h
    simp only [decodeArm]
    split
    · exact Tr.ok_nil _ _ (GN.of_gw σ _ GW.nil)
    · exact decodeArm_gn hpk rest h un want σ s
  | .cons an k t rest, h, un, want, σ, s => by
    simp only [Arms.shapeOk, Bool.and_eq_true] at h
    simp only [decodeArm]
    split
    · rename_i heq
      subst heq
      exact Tr.bind_gn_gw ((decode_gd hpk t h.1 _ none s).mono (fun _ hh => GN.of_GD hh)) (fun v t2 _ => Tr.ok_nil _ _ GW.nil)
    · exact decodeArm_gn hpk rest h.2 un want σ s
  | .consBytes an k elem n rest, h, un, want, σ, s => by
    simp only [Arms.shapeOk, Bool.and_eq_true] at h
    simp only [decodeArm]
    split
    · rename_i heq
      subst heq
      refine Tr.bind_gn_gw ?_ (fun v t2 _ => Tr.ok_nil _ _ GW.nil)
      unfold readListArm
      split
      · exact Tr.crash_nil _ _ _ (GN.of_gw σ _ GW.nil)
      · exact readPrimList_gn abort hpk elem h.1 σ an _ s
    · exact decodeArm_gn hpk rest h.2 un want σ s

theorem decodeFields_gn (hpk : PrimLink abort pk okc) : (fs : Fields) → fs.shapeOk pk = true → fs.names.Nodup → ∀ (π : Path) (vals : List (String × Val))
    (s : St), Tr (GN okc π fs.names) s (decodeFields abort fs π vals s)
  | .nil, _, _, π, vals, s => by
    simp only [decodeFields]
    exact Tr.ok_nil _ _ (GN.of_gw π _ GW.nil)
  | .cons fname kind t rest, h, hnd, π, vals, s => by
    simp only [Fields.shapeOk, Bool.and_eq_true] at h
    simp only [Fields.names, List.nodup_cons] at hnd
    simp only [decodeFields]
    have hb : kind = .counted → t.name = "BYTE" → ∀ σ sel s, Tr AV s (decode abort t σ sel s) := by
      intro hk hn σ sel s
      subst hk
      cases t with
      | prim p => simp only [decode]; exact readPrim_av abort p σ s
      | struct _ _ _ => simp [Ty.isPrimTy, hn] at h
      | tpm2b _ _ _ _ _ => simp [Ty.isPrimTy, hn] at h
      | tpm2bBytes _ _ _ _ _ => simp [Ty.isPrimTy, hn] at h
      | union _ _ => simp [Ty.isPrimTy, hn] at h
      | bad _ => simp [Ty.isPrimTy, hn] at h
    have := Tr.bind_gn (N1 := [fname]) (N2 := rest.names)
      (decodeFieldWith_gn (fun p sel s => decode abort t p sel s) t.name (fun σ sel s => decode_gd hpk t h.1.1 σ sel s)
        kind hb π fname vals s)
      (fun v t2 _ => decodeFields_gn hpk rest h.2 hnd.2 π (vals ++ [(fname, v)]) t2)
      (fun g hg hg2 => by
        simp only [List.mem_singleton] at hg
        subst hg
        exact hnd.1 hg2)
    simpa [Fields.names] using this
end
end
