import TpmProofs.MsgSound
import TpmProofs.BE
import TpmModel.Relax
/-!
# Warn mode = the lenient field-by-field interpretation + one warning after each offending field (C08, value-only clause)

The *lenient interpretation* of an input under a layout is what strict decoding yields when every declared set is widened to
"any integer of that width" (`Ty.relax`: same structure, names, widths, signedness, selectors, counts — only the `valid` lists
change).  Theorem: whenever the lenient interpretation accepts an input (its sizes and counts are consistent), the warn-mode decode
under the real layout returns **the same object**, and its trace **with the value warnings erased is exactly the lenient
interpretation's trace** (same events, same stamps).  Together with `ValueWarn.lean` (each value warning stands directly behind its
offending field event, and each offending event has one) this is the clause "when the only problems are out-of-range field values
the events equal the lenient field-by-field interpretation with one warning directly after each offending event".

Proved as a simulation: `Q s s'` relates a warn-mode state `s` and a lenient-strict state `s'` (same input, position, regions;
`s'.out` = `s.out` without value warnings); `Sim r r'`: if the lenient run `r'` succeeds so does the warn-mode run `r`, with the
same value, in related states.
-/

theorem relax_valid (p : Prim) (bs : List Byte) (h : bs.length = p.size) : p.relax.isValid (p.relax.ofBytes bs) = true := by
  have hlt := fromBE_lt bs
  rw [h, pow256] at hlt
  simp only [Prim.isValid, Prim.relax, List.any_cons, List.any_nil, Bool.or_false, VItem.has, Bool.and_eq_true, decide_eq_true_eq,
    Prim.ofBytes, intOfBytes]
  split <;> constructor <;> omega

theorem Ty.relax_name : ∀ (t : Ty), t.relax.name = t.name
  | .prim p => rfl
  | .struct _ _ _ => rfl
  | .tpm2bBytes _ _ _ _ _ => rfl
  | .tpm2b _ _ _ _ _ => rfl
  | .union _ _ => rfl
  | .bad _ => rfl

theorem Ty.relax_eventTag (t : Ty) : t.relax.eventTag = t.eventTag := by
  cases t <;> rfl

theorem Arms.relax_keys : ∀ (a : Arms), a.relax.keys = a.keys
  | .nil => rfl
  | .consNone an key rest => by simp [Arms.relax, Arms.keys, Arms.relax_keys rest]
  | .cons an key t rest => by simp [Arms.relax, Arms.keys, Arms.relax_keys rest]
  | .consBytes an key elem n rest => by simp [Arms.relax, Arms.keys, Arms.relax_keys rest]

/-! ## the simulation relation -/

def isVW : Event → Bool
  | .warning (.value _ _ _) => true
  | _ => false

def eraseVW (out : List (Nat × Event)) : List (Nat × Event) := out.filter fun ke => !isVW ke.2

structure Q (s s' : St) : Prop where
  inp : s'.inp = s.inp
  pos : s'.pos = s.pos
  scs : s'.scs = s.scs
  out : s'.out = eraseVW s.out

def Sim {α : Type} (r r' : R α) : Prop := ∀ v t', r' = .ok (v, t') → ∃ t, r = .ok (v, t) ∧ Q t t'

theorem Sim.bind {α β : Type} {r r' : R α} {f f' : α → St → R β} (h : Sim r r')
    (hf : ∀ a t t', Q t t' → Sim (f a t) (f' a t')) : Sim (r.bind f) (r'.bind f') := by
  intro v t' hr
  obtain ⟨a, u', h1, h2⟩ := bind_ok_inv hr
  obtain ⟨u, hu, hq⟩ := h a u' h1
  rw [hu]
  exact hf a u u' hq v t' h2

theorem Sim.ok {α : Type} {s s' : St} (a : α) (h : Q s s') : Sim (.ok (a, s) : R α) (.ok (a, s')) := by
  intro v t' hr
  simp only [Except.ok.injEq, Prod.mk.injEq] at hr
  obtain ⟨rfl, rfl⟩ := hr
  exact ⟨s, rfl, h⟩

theorem Sim.fail {α : Type} {r : R α} {e : Err × St} : Sim r (.error e) := by
  intro v t' hr; cases hr

theorem Q.em {s s' : St} (h : Q s s') (e : MEvent) : Q (_root_.emitM e s) (_root_.emitM e s') := by
  refine ⟨h.inp, h.pos, h.scs, ?_⟩
  simp only [_root_.emitM, emit, eraseVW, List.filter_append, isVW]
  rw [show s'.out = eraseVW s.out from h.out, h.pos]
  simp [eraseVW, isVW]

theorem Q.withScs {s s' : St} (h : Q s s') (scs : List SC) : Q { s with scs := scs } { s' with scs := scs } :=
  ⟨h.inp, h.pos, rfl, h.out⟩

/-- a step that looks only at input, position and regions and leaves the trace alone behaves the same on related states -/
theorem take_sim {s s' : St} (h : Q s s') (n : Nat) : Sim (take n s) (take n s') := by
  intro v t' hr
  unfold take at hr ⊢
  rw [h.inp] at hr
  split at hr
  · cases hr
  · rename_i hn
    simp only [Except.ok.injEq, Prod.mk.injEq] at hr
    obtain ⟨rfl, rfl⟩ := hr
    rw [if_neg hn]
    exact ⟨_, rfl, ⟨by simp [h.inp], by simp [h.pos], h.scs, h.out⟩⟩

theorem consume_sim {s s' : St} (h : Q s s') (n : Nat) : Sim (consume n s) (consume n s') := by
  unfold consume
  exact (take_sim h n).bind fun _ t t' hq => Sim.ok _ hq

theorem bpGo_sim (path : Path) (size : Nat) : ∀ (todo done : List SC) (s s' : St), Q s s' →
    Sim (bpGo path size done todo s) (bpGo path size done todo s') := by
  intro todo
  induction todo with
  | nil => intro done s s' h; simp only [bpGo]; exact Sim.ok _ (h.withScs done)
  | cons c rest ih =>
    intro done s s' h
    unfold bpGo
    split
    · exact (consume_sim (h.withScs _) _).bind fun _ t t' hq => Sim.fail
    · exact ih _ _ _ h

theorem bytesParsed_sim {s s' : St} (h : Q s s') (path : Path) (size : Nat) : Sim (bytesParsed path size s) (bytesParsed path size s') := by
  unfold bytesParsed
  rw [h.scs]
  exact bpGo_sim path size s.scs [] s s' h

theorem readPrim_sim {s s' : St} (h : Q s s') (p : Prim) (path : Path) : Sim (readPrim false p path s) (readPrim true p.relax path s') := by
  intro v t' hr
  unfold readPrim at hr ⊢
  obtain ⟨_, u', hb, hr⟩ := bind_ok_inv hr
  obtain ⟨bs, w', ht, hr⟩ := bind_ok_inv hr
  obtain ⟨u, hu, hq1⟩ := bytesParsed_sim h path p.size () u' hb
  obtain ⟨w, hw, hq2⟩ := take_sim hq1 p.size bs w' ht
  have hlen : bs.length = p.size := (take_ok_inv ht).1
  simp only [show p.relax.size = p.size from rfl] at hb ht
  rw [hu]
  simp only [R.bind_ok]
  rw [hw]
  simp only [R.bind_ok, Bool.false_eq_true, if_false]
  have hval := relax_valid p bs hlen
  simp only [hval, if_true, Except.ok.injEq, Prod.mk.injEq] at hr
  obtain ⟨rfl, rfl⟩ := hr
  have hq3 := hq2.em ⟨path, .named p.name false, some (p.ofBytes bs), p.name, p.size⟩
  by_cases hv : p.isValid (p.ofBytes bs) = true
  · rw [if_pos hv]
    exact ⟨_, rfl, hq3⟩
  · rw [if_neg hv]
    refine ⟨_, rfl, hq3.inp, hq3.pos, hq3.scs, ?_⟩
    have ho := hq3.out
    show (emitM ⟨path, .named p.name false, some (p.ofBytes bs), p.name, p.size⟩ w').out =
      eraseVW (emitW (.value path p.name (p.ofBytes bs)) (emitM ⟨path, .named p.name false, some (p.ofBytes bs), p.name, p.size⟩ w)).out
    rw [ho]
    simp [emitW, emit, eraseVW, List.filter_append, isVW]

theorem anticipateM_sim {s s' : St} (h : Q s s') (vpath : Path) (v id : Nat) :
    Sim (anticipateM false vpath v id s) (anticipateM true vpath v id s') := by
  intro x t' hr
  unfold anticipateM at hr ⊢
  rw [h.scs] at hr
  split at hr
  · rename_i hn
    simp only [Except.ok.injEq, Prod.mk.injEq] at hr
    obtain ⟨_, rfl⟩ := hr
    exact ⟨s, rfl, h⟩
  · simp at hr

theorem openRegion_sim {s s' : St} (h : Q s s') (id : Nat) (cpath : Path) (n : Nat) :
    Sim (openRegion false id cpath n s) (openRegion true id cpath n s') := by
  unfold openRegion
  refine (anticipateM_sim h cpath n id).bind fun _ t t' hq => ?_
  have := hq.withScs (t.scs ++ [⟨id, cpath, 0, some n⟩])
  rw [hq.scs]
  exact Sim.ok _ this

theorem setListed_sim {s s' : St} (h : Q s s') (id : Nat) (cpath : Path) (n : Nat) :
    Sim (setListed false id cpath n s) (setListed true id cpath n s') := by
  unfold setListed
  simp only []
  rw [h.scs]
  exact anticipateM_sim (h.withScs _) cpath n id

theorem assertDoneSC_sim {s s' : St} (h : Q s s') (c : SC) : Sim (assertDoneSC false c s) (assertDoneSC true c s') := by
  intro x t' hr
  unfold assertDoneSC at hr ⊢
  cases hm : c.max with
  | none => simp [hm, crash] at hr
  | some m =>
    simp only [hm] at hr ⊢
    by_cases heq : c.already = m
    · simp only [heq, if_true, Except.ok.injEq, Prod.mk.injEq] at hr ⊢
      obtain ⟨_, rfl⟩ := hr
      exact ⟨s, ⟨trivial, rfl⟩, h⟩
    · simp [heq] at hr

theorem assertDone_sim {s s' : St} (h : Q s s') (id : Nat) : Sim (assertDone false id s) (assertDone true id s') := by
  unfold assertDone
  rw [h.scs]
  split
  · exact Sim.fail
  · exact assertDoneSC_sim (h.withScs _) _

theorem repeatDec_sim (f f' : Path → St → R Val) (hf : ∀ p s s', Q s s' → Sim (f p s) (f' p s')) (path : Path) :
    ∀ (n i : Nat) (s s' : St), Q s s' → Sim (repeatDec f path n i s) (repeatDec f' path n i s') := by
  intro n
  induction n with
  | zero => intro i s s' h; simp only [repeatDec]; exact Sim.ok _ h
  | succ m ih =>
    intro i s s' h
    unfold repeatDec
    exact (hf _ s s' h).bind fun v t t' hq => (ih (i+1) t t' hq).bind fun vs u u' hq2 => Sim.ok _ hq2

theorem readPrimList_sim {s s' : St} (h : Q s s') (p : Prim) (path : Path) (n : Nat) :
    Sim (readPrimList false p path n s) (readPrimList true p.relax path n s') := by
  unfold readPrimList
  exact (repeatDec_sim _ _ (fun q s s' hq => readPrim_sim hq p q) path n 0 _ _ (h.em _)).bind fun vs t t' hq => Sim.ok _ hq

theorem readListArm_sim {s s' : St} (h : Q s s') (elem : Prim) (n : Option Nat) (path : Path) :
    Sim (readListArm false elem n path s) (readListArm true elem.relax n path s') := by
  unfold readListArm
  cases n with
  | none => exact Sim.fail
  | some k => exact readPrimList_sim h elem path k

theorem fieldWith_sim (d d' : Path → Option Int → St → R Val) (hd : ∀ p sel s s', Q s s' → Sim (d p sel s) (d' p sel s'))
    (tname : String) (kind : FKind) (fpath : Path) (vals : List (String × Val)) {s s' : St} (h : Q s s') :
    Sim (decodeFieldWith d tname kind fpath vals s) (decodeFieldWith d' tname kind fpath vals s') := by
  cases kind with
  | plain => exact hd _ _ _ _ h
  | selected sel =>
    simp only [decodeFieldWith]
    split
    · exact Sim.fail
    · exact hd _ _ _ _ h
  | counted =>
    simp only [decodeFieldWith]
    split
    · exact Sim.fail
    · exact (repeatDec_sim _ _ (fun p s s' hq => hd p none s s' hq) fpath _ 0 _ _ (h.em _)).bind fun vs t t' hq => Sim.ok _ hq

mutual
theorem decode_sim : (t : Ty) → ∀ (path : Path) (sel : Option Int) (s s' : St), Q s s' →
    Sim (decode false t path sel s) (decode true t.relax path sel s')
  | .prim p, path, sel, s, s', h => by simp only [decode, Ty.relax]; exact readPrim_sim h p path
  | .struct name isP fs, path, sel, s, s', h => by
    simp only [decode, Ty.relax]
    exact (fields_sim fs path [] _ _ (h.em _)).bind fun vals t t' hq => Sim.ok _ hq
  | .tpm2bBytes name szName szP bufName elem, path, sel, s, s', h => by
    simp only [decode, Ty.relax]
    refine (readPrim_sim (h.em _) szP _).bind fun nv s1 s1' hq1 => ?_
    rw [hq1.pos]
    split
    · exact Sim.fail
    · exact (openRegion_sim hq1 _ _ _).bind fun _ s2 s2' hq2 => (readPrimList_sim hq2 elem _ _).bind fun bv s3 s3' hq3 =>
        (assertDone_sim hq3 _).bind fun _ s4 s4' hq4 => Sim.ok _ hq4
  | .tpm2b name szName szP bufName body, path, sel, s, s', h => by
    simp only [decode, Ty.relax, ownCatch_strict]
    refine (readPrim_sim (h.em _) szP _).bind fun nv s1 s1' hq1 => ?_
    rw [hq1.pos]
    split
    · exact Sim.fail
    · refine (openRegion_sim hq1 _ _ _).bind fun _ s2 s2' hq2 => ?_
      split
      · rw [Ty.relax_eventTag]
        exact (assertDone_sim (hq2.em _) _).bind fun _ s4 s4' hq4 => Sim.ok _ hq4
      · intro v t' hr
        obtain ⟨bv, s3', hb, hr2⟩ := bind_ok_inv hr
        obtain ⟨s3, hs3, hq3⟩ := decode_sim body _ none s2 s2' hq2 bv s3' hb
        rw [hs3]
        simp only [ownCatch]
        exact ((assertDone_sim hq3 _).bind fun _ s4 s4' hq4 => Sim.ok _ hq4) v t' hr2
  | .union name arms, path, sel, s, s', h => by
    simp only [decode, Ty.relax, Arms.relax_keys]
    split
    · split <;> exact Sim.fail
    · exact arm_sim arms name _ path _ _ (h.em _)
  | .bad r, path, sel, s, s', h => by simp only [decode, Ty.relax]; exact Sim.fail

theorem arm_sim : (arms : Arms) → ∀ (un want : String) (path : Path) (s s' : St), Q s s' →
    Sim (decodeArm false arms un want path s) (decodeArm true arms.relax un want path s')
  | .nil, un, want, path, s, s', h => by simp only [decodeArm, Arms.relax]; exact Sim.fail
  | .consNone an key rest, un, want, path, s, s', h => by
    simp only [decodeArm, Arms.relax]
    split
    · exact Sim.ok _ h
    · exact arm_sim rest un want path s s' h
  | .cons an key t rest, un, want, path, s, s', h => by
    simp only [decodeArm, Arms.relax]
    split
    · exact (decode_sim t _ none s s' h).bind fun v u u' hq => Sim.ok _ hq
    · exact arm_sim rest un want path s s' h
  | .consBytes an key elem n rest, un, want, path, s, s', h => by
    simp only [decodeArm, Arms.relax]
    split
    · exact (readListArm_sim h elem n _).bind fun v u u' hq => Sim.ok _ hq
    · exact arm_sim rest un want path s s' h

theorem fields_sim : (fs : Fields) → ∀ (path : Path) (vals : List (String × Val)) (s s' : St), Q s s' →
    Sim (decodeFields false fs path vals s) (decodeFields true fs.relax path vals s')
  | .nil, path, vals, s, s', h => by simp only [decodeFields, Fields.relax]; exact Sim.ok _ h
  | .cons fname kind t rest, path, vals, s, s', h => by
    simp only [decodeFields, Fields.relax, Ty.relax_name]
    exact (fieldWith_sim _ _ (fun p sel s s' hq => decode_sim t p sel s s' hq) t.name kind _ vals h).bind fun v u u' hq =>
      fields_sim rest path _ u u' hq
end

/-! ## messages -/

theorem lookupTy_relax (m : List (Int × Ty)) (k : Int) : lookupTy (relaxMap m) k = (lookupTy m k).map Ty.relax := by
  unfold lookupTy relaxMap
  induction m with
  | nil => rfl
  | cons kt rest ih =>
    simp only [List.map_cons, List.find?_cons]
    split
    · rfl
    · exact ih

theorem dropSelectors_relax : ∀ (fs : Fields), fs.relax.dropSelectors = fs.dropSelectors.relax
  | .nil => rfl
  | .cons f kind t rest => by
    cases kind <;> simp [Fields.relax, Fields.dropSelectors, dropSelectors_relax rest]

theorem encVariant_relax (encParam t : Ty) :
    encVariant encParam.relax t.relax = (encVariant encParam t).map fun nf => (nf.1, nf.2.relax) := by
  cases t with
  | struct n p fields =>
    cases fields with
    | nil => rfl
    | cons f kind ft rest =>
      simp only [Ty.relax, Fields.relax, encVariant, Ty.relax_name]
      split
      · simp [Fields.relax, dropSelectors_relax]
      · rfl
  | _ => rfl

theorem Ty.relax_isParams (t : Ty) : t.relax.isParams = t.isParams := by cases t <;> rfl

theorem decodeArea_sim (tb : MsgTables) (enc : Bool) (t : Ty) (path : Path) {s s' : St} (h : Q s s') :
    Sim (decodeArea false tb enc t path s) (decodeArea true tb.relax enc t.relax path s') := by
  unfold decodeArea
  rw [Ty.relax_isParams, show tb.relax.encParam = tb.encParam.relax from rfl, encVariant_relax]
  split
  · cases henc : encVariant tb.encParam t with
    | none => simp only [Option.map_none]; exact decode_sim t path none s s' h
    | some nf =>
      obtain ⟨name, fs⟩ := nf
      simp only [Option.map_some]
      exact (fields_sim fs path [] _ _ (h.em _)).bind fun vals u u' hq => Sim.ok _ hq
  · exact decode_sim t path none s s' h

theorem sizedLoop_sim (t : Ty) (path : Path) (cid : Nat) : ∀ (fuel i : Nat) (acc : List Val) (s s' : St), Q s s' →
    Sim (sizedLoop false t path cid fuel i acc s) (sizedLoop true t.relax path cid fuel i acc s') := by
  intro fuel
  induction fuel with
  | zero => intro i acc s s' h; exact Sim.fail
  | succ n ih =>
    intro i acc s s' h
    unfold sizedLoop
    rw [h.scs]
    split
    · exact Sim.fail
    · split
      · exact Sim.fail
      · split
        · simp only [ownCatch_strict]
          intro v t' hr
          obtain ⟨ev, s1', hb, hr2⟩ := bind_ok_inv hr
          obtain ⟨s1, hs1, hq1⟩ := decode_sim t _ none s s' h ev s1' hb
          rw [hs1]
          simp only [ownCatch]
          exact ih (i+1) (acc ++ [ev]) s1 s1' hq1 v t' hr2
        · exact (assertDoneSC_sim (h.withScs _) _).bind fun _ u u' hq => Sim.ok _ hq

theorem decodeSized_sim (t : Ty) (path : Path) (cid : Nat) {s s' : St} (h : Q s s') :
    Sim (decodeSized false t path cid s) (decodeSized true t.relax path cid s') := by
  unfold decodeSized
  simp only [Ty.relax_name]
  have hq := h.em ⟨path, .listOf t.name, none, "", 0⟩
  have : sizedFuel cid (emitM ⟨path, .listOf t.name, none, "", 0⟩ s').scs = sizedFuel cid (emitM ⟨path, .listOf t.name, none, "", 0⟩ s).scs := by
    rw [hq.scs]
  rw [this]
  exact sizedLoop_sim t path cid _ 0 [] _ _ hq

/-- the message's `except`: when the guarded step succeeds on the lenient side, both sides simply go on -/
theorem msgCatch_sim {id1 id2 : Nat} {name : String} {vals : List (String × Val)} {r r' : R Val} {k k' : Val → St → R Val}
    (hr : Sim r r') (hk : ∀ v t t', Q t t' → Sim (k v t) (k' v t')) :
    Sim (msgCatch false id1 id2 name vals r k) (msgCatch true id1 id2 name vals r' k') := by
  rw [msgCatch_strict]
  intro v t' h
  obtain ⟨a, u', h1, h2⟩ := bind_ok_inv h
  obtain ⟨u, hu, hq⟩ := hr a u' h1
  rw [hu]
  simp only [msgCatch]
  exact hk a u u' hq v t' h2

theorem findP_relax : ∀ (fs : Fields), sessionFlag.findP fs.relax = (sessionFlag.findP fs).map Prim.relax
  | .nil => rfl
  | .cons f kind ft rest => by
    cases ft with
    | prim q =>
      simp only [Fields.relax, Ty.relax, sessionFlag.findP]
      split
      · rfl
      · exact findP_relax rest
    | _ => simp only [Fields.relax, Ty.relax, sessionFlag.findP]; exact findP_relax rest

theorem sessionFlag_relax (t : Ty) (flag : String) (v : Val) : sessionFlag t.relax flag v = sessionFlag t flag v := by
  cases t with
  | struct n p sfs =>
    have hfind := findP_relax
    simp only [Ty.relax, sessionFlag, hfind]
    cases v with
    | obj a b fs =>
      simp only []
      cases lookupVal fs "sessionAttributes" with
      | none => rfl
      | some w =>
        cases w with
        | int c x =>
          simp only []
          cases sessionFlag.findP sfs with
          | none => rfl
          | some q => rfl
        | _ => rfl
    | _ => rfl
  | _ => cases v <;> rfl

theorem anyFlag_relax (t : Ty) (flag : String) : ∀ (vs : List Val), anyFlag t.relax flag vs = anyFlag t flag vs
  | [] => rfl
  | v :: rest => by simp only [anyFlag, sessionFlag_relax, anyFlag_relax t flag rest]

theorem areaFlag_relax (t : Ty) (flag : String) (area : Val) : areaFlag t.relax flag area = areaFlag t flag area := by
  cases area <;> simp only [areaFlag, anyFlag_relax]

theorem cmdEncrypt_relax (tb : MsgTables) (cmd : Val) : cmdEncrypt tb.relax cmd = cmdEncrypt tb cmd := by
  unfold cmdEncrypt
  cases objField cmd "authorizationArea" with
  | none => rfl
  | some a => cases a <;> simp only [show tb.relax.authCmd = tb.authCmd.relax from rfl, areaFlag_relax]

theorem decodeCommand_sim (tb : MsgTables) (path : Path) {s0 s0' : St} (h : Q s0 s0') :
    Sim (decodeCommand false tb path s0) (decodeCommand true tb.relax path s0') := by
  unfold decodeCommand
  simp only [show tb.relax.tagCmd = tb.tagCmd.relax from rfl, show tb.relax.cmdSize = tb.cmdSize.relax from rfl,
    show tb.relax.cc = tb.cc.relax from rfl, show tb.relax.authSize = tb.authSize.relax from rfl,
    show tb.relax.authCmd = tb.authCmd.relax from rfl, show tb.relax.cmdHandles = relaxMap tb.cmdHandles from rfl,
    show tb.relax.cmdParams = relaxMap tb.cmdParams from rfl, show tb.relax.sessionsTag = tb.sessionsTag from rfl,
    lookupTy_relax, areaFlag_relax, show tb.cc.relax.name = tb.cc.name from rfl]
  obtain ⟨i', p', o', c'⟩ := s0'
  have hp := h.pos
  simp only [] at hp
  subst hp
  have hq0 : Q (emitM ⟨path, .named "Command" false, none, "", 0⟩ { s0 with scs := [⟨s0.pos, [], 0, none⟩] })
      (emitM ⟨path, .named "Command" false, none, "", 0⟩ { (⟨i', s0.pos, o', c'⟩ : St) with scs := [⟨s0.pos, [], 0, none⟩] }) := (h.withScs _).em _
  refine msgCatch_sim (readPrim_sim hq0 _ _) fun tag s1 s1' q1 => ?_
  refine msgCatch_sim (readPrim_sim q1 _ _) fun csz s2 s2' q2 => ?_
  split
  · exact Sim.fail
  · split
    · exact Sim.fail
    · refine (setListed_sim q2 _ _ _).bind fun _ s3 s3' q3 => ?_
      refine msgCatch_sim (readPrim_sim q3 _ _) fun ccv s4 s4' q4 => ?_
      cases hh : lookupTy tb.cmdHandles ((vInt ccv).getD 0) with
      | none => simp only [Option.map_none]; exact Sim.fail
      | some hty =>
        simp only [Option.map_some]
        refine msgCatch_sim (decodeArea_sim tb false hty _ q4) fun hv s5 s5' q5 => ?_
        have tail : ∀ (vals : List (String × Val)) (enc : Bool) (s6 s6' : St), Q s6 s6' →
            Sim (match lookupTy tb.cmdParams ((vInt ccv).getD 0) with
              | none => (.error (.value (path ++ [(⟨"commandCode", none⟩ : PathNode)]) tb.cc.name ((vInt ccv).getD 0), s6) : R Val)
              | some pty =>
                msgCatch false s0.pos (s0.pos + 1) "Command" vals
                  (decodeArea false tb enc pty (path ++ [(⟨"parameters", none⟩ : PathNode)]) s6) fun pv s =>
                  (assertDone false s0.pos s).bind fun _ s => .ok (.obj "Command" false (vals ++ [("parameters", pv)]), s))
              (match (lookupTy tb.cmdParams ((vInt ccv).getD 0)).map Ty.relax with
              | none => (.error (.value (path ++ [(⟨"commandCode", none⟩ : PathNode)]) tb.cc.name ((vInt ccv).getD 0), s6') : R Val)
              | some pty =>
                msgCatch true s0.pos (s0.pos + 1) "Command" vals
                  (decodeArea true tb.relax enc pty (path ++ [(⟨"parameters", none⟩ : PathNode)]) s6') fun pv s =>
                  (assertDone true s0.pos s).bind fun _ s => .ok (.obj "Command" false (vals ++ [("parameters", pv)]), s)) := by
          intro vals enc s6 s6' q6
          cases hp : lookupTy tb.cmdParams ((vInt ccv).getD 0) with
          | none => simp only [Option.map_none]; exact Sim.fail
          | some pty =>
            simp only [Option.map_some]
            exact msgCatch_sim (decodeArea_sim tb enc pty _ q6) fun pv s7 s7' q7 =>
              (assertDone_sim q7 _).bind fun _ s8 s8' q8 => Sim.ok _ q8
        split
        · refine msgCatch_sim (readPrim_sim q5 _ _) fun asz s6 s6' q6 => ?_
          split
          · exact Sim.fail
          · split
            · exact Sim.fail
            · refine (openRegion_sim q6 _ _ _).bind fun _ s7 s7' q7 => ?_
              refine msgCatch_sim (decodeSized_sim tb.authCmd _ _ q7) fun area s8 s8' q8 => ?_
              split
              · exact Sim.fail
              · exact tail _ _ s8 s8' q8
        · exact tail _ false s5 s5' q5

set_option maxHeartbeats 1000000 in
theorem decodeResponse_sim (tb : MsgTables) (cc : Option Int) (enc : Bool) (path : Path) {s0 s0' : St} (h : Q s0 s0') :
    Sim (decodeResponse false tb cc enc path s0) (decodeResponse true tb.relax cc enc path s0') := by
  unfold decodeResponse
  simp only [show tb.relax.tagRsp = tb.tagRsp.relax from rfl, show tb.relax.rspSize = tb.rspSize.relax from rfl,
    show tb.relax.rc = tb.rc.relax from rfl, show tb.relax.paramSize = tb.paramSize.relax from rfl,
    show tb.relax.authRsp = tb.authRsp.relax from rfl, show tb.relax.rspHandles = relaxMap tb.rspHandles from rfl,
    show tb.relax.rspParams = relaxMap tb.rspParams from rfl, show tb.relax.sessionsTag = tb.sessionsTag from rfl,
    show tb.relax.rcSuccess = tb.rcSuccess from rfl, show tb.relax.cc = tb.cc.relax from rfl,
    areaFlag_relax, show tb.cc.relax.name = tb.cc.name from rfl]
  obtain ⟨i', p', o', c'⟩ := s0'
  have hp := h.pos
  simp only [] at hp
  subst hp
  have hlk : ∀ (m : List (Int × Ty)), cc.bind (lookupTy (relaxMap m)) = (cc.bind (lookupTy m)).map Ty.relax := by
    intro m; cases cc <;> simp [lookupTy_relax]
  simp only [hlk]
  have hq0 : Q (emitM ⟨path, .named "Response" false, none, "", 0⟩ { s0 with scs := [⟨s0.pos, [], 0, none⟩] })
      (emitM ⟨path, .named "Response" false, none, "", 0⟩ { (⟨i', s0.pos, o', c'⟩ : St) with scs := [⟨s0.pos, [], 0, none⟩] }) := (h.withScs _).em _
  have finish : ∀ (vals : List (String × Val)) (s s' : St), Q s s' →
      Sim ((assertDone false s0.pos s).bind fun _ s =>
          if s.scs.isEmpty then (.ok (.obj "Response" false vals, s) : R Val)
          else crash "AssertionError" "size_constraints.assert_done()" s)
        ((assertDone true s0.pos s').bind fun _ s =>
          if s.scs.isEmpty then (.ok (.obj "Response" false vals, s) : R Val)
          else crash "AssertionError" "size_constraints.assert_done()" s) := by
    intro vals s s' q
    refine (assertDone_sim q _).bind fun _ t t' qt => ?_
    rw [qt.scs]
    split
    · exact Sim.ok _ qt
    · exact Sim.fail
  refine msgCatch_sim (readPrim_sim hq0 _ _) fun tag s1 s1' q1 => ?_
  refine msgCatch_sim (readPrim_sim q1 _ _) fun rsz s2 s2' q2 => ?_
  split
  · exact Sim.fail
  · split
    · exact Sim.fail
    · refine (setListed_sim q2 _ _ _).bind fun _ s3 s3' q3 => ?_
      refine msgCatch_sim (readPrim_sim q3 _ _) fun rcv s4 s4' q4 => ?_
      split
      · exact finish _ _ _ q4
      · cases hh : cc.bind (lookupTy tb.rspHandles) with
        | none => simp only [Option.map_none]; exact Sim.fail
        | some hty =>
          simp only [Option.map_some]
          refine msgCatch_sim (decodeArea_sim tb enc hty _ q4) fun hv s5 s5' q5 => ?_
          have after : ∀ (vals : List (String × Val)) (s8 s8' : St), Q s8 s8' →
              Sim (if (!(vInt tag == some tb.sessionsTag)) = true then
                  (assertDone false s0.pos s8).bind fun _ s =>
                    if s.scs.isEmpty then (.ok (.obj "Response" false vals, s) : R Val)
                    else crash "AssertionError" "size_constraints.assert_done()" s
                else
                  msgCatch false s0.pos (s0.pos + 1) "Response" vals
                    (decodeSized false tb.authRsp (path ++ [(⟨"authorizationArea", none⟩ : PathNode)]) s0.pos s8) fun area s =>
                    match areaFlag tb.authRsp "encrypt" area with
                    | .error cls => crash cls "is_parameter_encryption" s
                    | .ok expected =>
                      if expected != enc then crash "AssertionError" "process_response: parameter_encryption mismatch" s else
                      if s.scs.isEmpty then .ok (.obj "Response" false (vals ++ [("authorizationArea", area)]), s)
                      else crash "AssertionError" "size_constraints.assert_done()" s)
                (if (!(vInt tag == some tb.sessionsTag)) = true then
                  (assertDone true s0.pos s8').bind fun _ s =>
                    if s.scs.isEmpty then (.ok (.obj "Response" false vals, s) : R Val)
                    else crash "AssertionError" "size_constraints.assert_done()" s
                else
                  msgCatch true s0.pos (s0.pos + 1) "Response" vals
                    (decodeSized true tb.authRsp.relax (path ++ [(⟨"authorizationArea", none⟩ : PathNode)]) s0.pos s8') fun area s =>
                    match areaFlag tb.authRsp "encrypt" area with
                    | .error cls => crash cls "is_parameter_encryption" s
                    | .ok expected =>
                      if expected != enc then crash "AssertionError" "process_response: parameter_encryption mismatch" s else
                      if s.scs.isEmpty then .ok (.obj "Response" false (vals ++ [("authorizationArea", area)]), s)
                      else crash "AssertionError" "size_constraints.assert_done()" s) := by
            intro vals s8 s8' q8
            split
            · exact finish _ _ _ q8
            · refine msgCatch_sim (decodeSized_sim tb.authRsp _ _ q8) fun area s9 s9' q9 => ?_
              split
              · exact Sim.fail
              · split
                · exact Sim.fail
                · rw [q9.scs]
                  split
                  · exact Sim.ok _ q9
                  · exact Sim.fail
          split
          · refine msgCatch_sim (readPrim_sim q5 _ _) fun psz s6 s6' q6 => ?_
            split
            · exact Sim.fail
            · split
              · exact Sim.fail
              · refine (openRegion_sim q6 _ _ _).bind fun _ s7 s7' q7 => ?_
                cases hp : cc.bind (lookupTy tb.rspParams) with
                | none => simp only [Option.map_none]; exact Sim.fail
                | some pty =>
                  simp only [Option.map_some]
                  refine msgCatch_sim ((decodeArea_sim tb enc pty _ q7).bind fun pv s8 s8' q8 =>
                    (assertDone_sim q8 _).bind fun _ s9 s9' q9 => Sim.ok _ q9) fun pv s8 s8' q8 => ?_
                  exact after _ s8 s8' q8
          · cases hp : cc.bind (lookupTy tb.rspParams) with
            | none => simp only [Option.map_none]; exact Sim.fail
            | some pty =>
              simp only [Option.map_some]
              refine msgCatch_sim ((decodeArea_sim tb enc pty _ q5).bind fun pv s8 s8' q8 => Sim.ok _ q8) fun pv s8 s8' q8 => ?_
              exact after _ s8 s8' q8

theorem decodeStream_sim (tb : MsgTables) (path : Path) : ∀ (fuel : Nat) (s s' : St), Q s s' →
    Sim (decodeStream false tb path fuel s) (decodeStream true tb.relax path fuel s') := by
  intro fuel
  induction fuel with
  | zero => intro s s' h; exact Sim.fail
  | succ n ih =>
    intro s s' h
    unfold decodeStream
    rw [h.inp]
    split
    · exact Sim.ok _ (h.em _)
    · refine (decodeCommand_sim tb path h).bind fun cmd s1 s1' q1 => ?_
      rw [cmdEncrypt_relax]
      split
      · exact Sim.fail
      · rw [q1.inp]
        split
        · exact Sim.ok _ (q1.em _)
        · exact (decodeResponse_sim tb _ _ path q1).bind fun _ s2 s2' q2 => ih s2 s2' q2

/-- **warn mode vs the lenient interpretation** (any tables, every layout, commands, responses, streams, EVERY input): whenever
strict decoding under the relaxed tables accepts the input, warn-mode decoding under the real tables returns the same object,
consumes the same input, and its trace with the value warnings erased is exactly the lenient trace -/
theorem runWalker_sim (tb : MsgTables) (top : Top) (x : List Byte) (v : Val) (t' : St)
    (h : runWalker true tb.relax top.relax x = .ok (v, t')) :
    ∃ t, runWalker false tb top x = .ok (v, t) ∧ t'.out = eraseVW t.out ∧ t'.inp = t.inp ∧ t'.pos = t.pos := by
  have hq : Q (initSt x) (initSt x) := ⟨rfl, rfl, rfl, rfl⟩
  have hs : Sim (runWalker false tb top x) (runWalker true tb.relax top.relax x) := by
    unfold runWalker
    cases top with
    | ty t => exact decode_sim t rootPath none _ _ hq
    | command => exact decodeCommand_sim tb rootPath hq
    | response cc enc => exact decodeResponse_sim tb cc enc rootPath hq
    | stream => exact decodeStream_sim tb rootPath _ _ _ hq
  obtain ⟨t, ht, q⟩ := hs v t' h
  exact ⟨t, ht, q.out, q.inp, q.pos⟩
