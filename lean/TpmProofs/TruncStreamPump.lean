import TpmProofs.TruncStream
import TpmProofs.TruncPump
/-!
# Truncated streams through the pump (C05, C10 for `CommandResponseStream`)
-/

theorem runWalker_srb (tb : MsgTables) (hw : tb.wf = true) (x : List Byte) (k : Nat) :
    SRB k (initSt x) (runWalker true tb .stream x) (runWalker true tb .stream (x.take k)) := by
  simp only [runWalker, initSt_take]
  have hlen : (cutSt k (initSt x)).inp.length ≤ x.length := by simp [initSt]; omega
  rw [decodeStream_fuel tb hw rootPath ((x.take k).length + 1) (x.length + 1) (cutSt k (initSt x))
    (by simp [initSt]) (by omega)]
  exact decodeStream_srb tb hw rootPath (x.length + 1) (initSt x) k (by simp [initSt])

/-- the walker on the first `k` bytes of a stream, when the run on `x` consumes more than `k`: it stops — with `depleted`, or
cleanly — having consumed the `k` bytes and emitted exactly the events the run on `x` emits up to byte count `k` -/
theorem truncated_stream_walker (tb : MsgTables) (hw : tb.wf = true) (x : List Byte) (k : Nat)
    (hk : k < consumed tb .stream x) :
    ∃ t, (runWalker true tb .stream (x.take k) = .error (.depleted, t) ∨
          runWalker true tb .stream (x.take k) = .ok (.none, t)) ∧ t.inp = [] ∧ t.pos = k ∧
      t.out = (traceOf tb .stream x).filter fun ke => ke.1 ≤ k := by
  obtain ⟨new, ho, hp, hst, hd⟩ := runWalker_srb tb hw x k
  have ho' : traceOf tb .stream x = new := by simpa [initSt, traceOf] using ho
  rcases hd with ⟨hu, _⟩ | ⟨t, h0, h1, h2, h3⟩
  · simp only [used, initSt, consumed] at hu hk; omega
  · exact ⟨t, h0, h1, by simpa [initSt] using h2, by rw [ho']; simpa [initSt] using h3⟩

/-! ## what the pump shows of a trace -/

/-- the part of a trace before the stream's silent stop -/
def beforeStop (len : Nat) (tr : List (Nat × Event)) : List (Nat × Event) :=
  tr.takeWhile fun ke => !(ke.1 == len && isRootEllipsis ke.2)

theorem pumpEvents_stream (len : Nat) : ∀ (out acc : List (Nat × Event)) (cc : Option Int),
    (pumpEvents true len out acc cc).1 = acc ++ shown len (beforeStop len out) ∧
    (pumpEvents true len out acc cc).2.2 = out.any (fun ke => ke.1 == len && isRootEllipsis ke.2)
  | [], acc, cc => by simp [pumpEvents, beforeStop, shown]
  | (k, e) :: rest, acc, cc => by
    unfold pumpEvents
    by_cases h : (k == len && isRootEllipsis e) = true
    · have hb : beforeStop len ((k, e) :: rest) = [] := by
        simp only [beforeStop, List.takeWhile_cons, h, Bool.not_true, Bool.false_eq_true, if_false]
      simp only [Bool.true_and, h, if_true, hb, List.any_cons, Bool.true_or]
      simp [shown]
    · have h' : (k == len && isRootEllipsis e) = false := by simpa using h
      have hb : beforeStop len ((k, e) :: rest) = (k, e) :: beforeStop len rest := by
        simp only [beforeStop, List.takeWhile_cons, h', Bool.not_false, if_true]
      simp only [Bool.true_and, h', Bool.false_eq_true, if_false, hb, List.any_cons, Bool.false_or]
      obtain ⟨i1, i2⟩ := pumpEvents_stream len rest (acc ++ [(min (k + 1) len, e)]) (ccOf e cc)
      rw [i1, i2]
      simp [shown]

theorem stream_evs (tb : MsgTables) (x : List Byte) :
    (marshalRun true tb .stream x).evs = (beforeStop x.length (traceOf tb .stream x)).map (·.2) := by
  simp only [marshalRun, pump, Top.isStream, Run.evs, traceOf]
  rw [(pumpEvents_stream _ _ _ _).1]
  simp [shown, List.map_map, Function.comp_def]

theorem prefix_takeWhile {α : Type} (p : α → Bool) : ∀ (l1 l : List α), l1 <+: l → (∀ a ∈ l1, p a = true) →
    l1 <+: l.takeWhile p
  | [], l, _, _ => List.nil_prefix
  | a :: l1, [], h, _ => by simp at h
  | a :: l1, b :: l, h, hp => by
    obtain ⟨rfl, h'⟩ := List.cons_prefix_cons.mp h
    have ha := hp a (List.mem_cons_self ..)
    simp only [List.takeWhile_cons, ha, if_true]
    exact List.cons_prefix_cons.mpr ⟨rfl, prefix_takeWhile p l1 l h' (fun x hx => hp x (List.mem_cons_of_mem _ hx))⟩

/-- **prefix stability for streams** (C10): the events shown for a prefix of a stream are a prefix of the events shown for
the whole stream -/
theorem stream_prefix_stable (tb : MsgTables) (hw : tb.wf = true) (x : List Byte) (k : Nat) :
    (marshalRun true tb .stream (x.take k)).evs <+: (marshalRun true tb .stream x).evs := by
  by_cases hkl : x.length ≤ k
  · rw [List.take_of_length_le hkl]; exact List.prefix_refl _
  · have hkl' : k < x.length := by omega
    rw [stream_evs, stream_evs]
    apply List.IsPrefix.map
    obtain ⟨new, ho, hp, hst, hd⟩ := runWalker_srb tb hw x k
    have hT : traceOf tb .stream x = new := by simpa [initSt, traceOf] using ho
    obtain ⟨new', off, a1, a2, a3, a4, a5⟩ := runWalker_acct tb .stream x
    have hn : traceOf tb .stream x = new' := by simpa [initSt, traceOf] using a1
    -- the prefix run's trace is a prefix of the full trace, and none of its stamps is the full length
    have hpre : traceOf tb .stream (x.take k) <+: traceOf tb .stream x ∧
        ∀ ke ∈ traceOf tb .stream (x.take k), ke.1 ≤ k := by
      rcases hd with ⟨hu, hr⟩ | ⟨t, h0, h1, h2, h3⟩
      · have ht : traceOf tb .stream (x.take k) = traceOf tb .stream x := by
          simp only [traceOf, hr]
          cases runWalker true tb .stream x with
          | ok a => rfl
          | error e => rfl
        rw [ht]
        refine ⟨List.prefix_refl _, ?_⟩
        intro ke hke
        rw [hT] at hke
        have := (hst ke hke).2
        simp only [used, initSt] at hu
        omega
      · have ht : traceOf tb .stream (x.take k) = (traceOf tb .stream x).filter fun ke => ke.1 ≤ k := by
          have : (stOf (runWalker true tb .stream (x.take k))).out = t.out := by
            rcases h0 with h0 | h0 <;> rw [h0] <;> rfl
          rw [hT]
          simp only [traceOf, this, h3, initSt, List.nil_append, Nat.zero_add]
        rw [ht]
        refine ⟨?_, ?_⟩
        · rw [hn]; exact stamped_filter_prefix k a4
        · intro ke hke
          simpa using (List.mem_filter.mp hke).2
    have hlen : (x.take k).length = k := by simp; omega
    rw [hlen]
    refine prefix_takeWhile _ _ _ (List.IsPrefix.trans (List.takeWhile_prefix _) hpre.1) ?_
    intro ke hke
    have hmem := (List.takeWhile_prefix _).subset hke
    have := hpre.2 ke hmem
    have hne : (ke.1 == x.length) = false := by apply beq_false_of_ne; omega
    simp [hne]

theorem consumed_le (tb : MsgTables) (top : Top) (x : List Byte) : consumed tb top x ≤ x.length := by
  obtain ⟨new, off, a1, a2, a3, a4, a5⟩ := runWalker_acct tb top x
  simp only [initSt] at a2 a3
  have : x.length = (evBytes new).length + off.length + (stOf (runWalker true tb top x)).inp.length := by
    conv => lhs; rw [a2]
    simp only [List.length_append]
  simp only [consumed]; omega

/-- **C05 for streams, any input**: if the strict stream decoder consumes more than `k` bytes of `x`, then on the first `k`
bytes it ends with `InputStreamBytesDepletedError` or — when the cut falls exactly where the next message would start —
silently; either way it has shown exactly the events the run on `x` emits up to byte count `k`, minus the announcement of a
message that starts exactly at the cut -/
theorem stream_truncated (tb : MsgTables) (hw : tb.wf = true) (x : List Byte) (k : Nat)
    (hk : k < consumed tb .stream x) :
    ((marshalRun true tb .stream (x.take k)).outcome = .depleted ∨
     (marshalRun true tb .stream (x.take k)).outcome = .silent) ∧
    (marshalRun true tb .stream (x.take k)).evs =
      (beforeStop k ((traceOf tb .stream x).filter fun ke => ke.1 ≤ k)).map (·.2) := by
  have hkx : k ≤ x.length := by have := consumed_le tb .stream x; omega
  have hlen : (x.take k).length = k := by simp; omega
  obtain ⟨t, h0, h1, h2, h3⟩ := truncated_stream_walker tb hw x k hk
  have htr : traceOf tb .stream (x.take k) = (traceOf tb .stream x).filter fun ke => ke.1 ≤ k := by
    rcases h0 with h0 | h0 <;> simp only [traceOf, h0, stOf, h3]
  refine ⟨?_, by rw [stream_evs, hlen, htr]⟩
  rcases h0 with h0 | h0
  · cases hf : (pumpEvents true k t.out [] none).2.2 with
    | true => right; simp [marshalRun, pump, Top.isStream, h0, stOf, Nat.min_eq_left hkx, hf]
    | false => left; simp [marshalRun, pump, Top.isStream, h0, stOf, resOf, pumpOutcome, Nat.min_eq_left hkx, hf]
  · -- a clean end of the walker: its last event announces the next message at the end of the input
    right
    have hsound := decodeStream_sound tb hw rootPath ((x.take k).length + 1) (initSt (x.take k)) t .none
      (by simpa [runWalker] using h0)
    obtain ⟨xs, last, bs, evs, _, hi, _, hpos, hout⟩ := hsound
    have hbs : bs.length = k := by
      have : (initSt (x.take k)).inp = x.take k := rfl
      rw [this] at hi; rw [← hi]; exact hlen
    have hflag : (pumpEvents true k t.out [] none).2.2 = true := by
      rw [(pumpEvents_stream _ _ _ _).2, hout]
      simp only [initSt, List.nil_append, Nat.zero_add, List.any_append, List.any_cons, List.any_nil, Bool.or_false, hbs]
      have : isRootEllipsis (.marshal (streamTail rootPath last)) = true := by
        cases last <;> simp [streamTail, isRootEllipsis]
      simp [this]
    simp [marshalRun, pump, Top.isStream, h0, stOf, Nat.min_eq_left hkx, hflag]
